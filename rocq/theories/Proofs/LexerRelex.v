(* The text written by the echo writer is a fixed point of the lexer: lexing concat (map tok_code ts) again
   (one chunk) succeeds and gives tokens with exactly the same codes.  Every input (also outside the dialect,
   also list elements outside 0..255).

   (a) no Normal-state decision looks past a quote byte that follows the token (part 1: locality at a quote
       byte; the two line-comment matchers run over quotes but end at a line break or the end of the text);
   (b) the lexer's own decoder reads  escape_bytes [q] v ++ [q]  back as  v  (part 2). *)
From PV Require Import Base.Prelude Generated.T_lexer Model.Lexer Model.EchoWriter Proofs.LexerProofs Proofs.LexerInv
  Proofs.LexerSpec Proofs.LexerAgree Proofs.LexerChunk Proofs.LexerEnc Proofs.EchoProofs.
From Coq Require Import ZifyBool.

(* ====================================================================== part 1: locality at a quote byte *)
Definition ends_k (k : Z) (s : list Z) : Prop := exists a, s = a ++ [k].

Lemma ends_k_ne k s : ends_k k s -> s <> [].
Proof. intros [a ->]. destruct a; discriminate. Qed.

Lemma ends_k_suffix k x : forall y, ends_k k (x ++ y) -> y <> [] -> ends_k k y.
Proof.
  intros y [a E] Hy. destruct (exists_last Hy) as (y' & z & ->).
  rewrite app_assoc in E. apply app_inj_tail in E. destruct E as [_ ->]. exists y'. reflexivity.
Qed.

Lemma ends_k_tl k c s : ends_k k (c :: s) -> s <> [] -> ends_k k s.
Proof. intros H. apply (ends_k_suffix k [c] s H). Qed.

Lemma ends_k_single k c : ends_k k [c] -> c = k.
Proof. intros [a E]. destruct a as [|x a]; [inversion E; reflexivity | destruct a; discriminate]. Qed.

Lemma ends_k_tl_ne k c s : ends_k k (c :: s) -> c <> k -> ends_k k s.
Proof.
  intros H N. apply (ends_k_tl k c s H). intros ->. apply ends_k_single in H. congruence.
Qed.

Lemma ends_k_app k a : ends_k k (a ++ [k]).
Proof. exists a. reflexivity. Qed.

Definition isq (k : Z) : Prop := k = 34 \/ k = 39.

Lemma q_digit k : isq k -> m_digit k = false. Proof. unfold isq. cls. Qed.
Lemma q_hex k : isq k -> m_hex k = false. Proof. unfold isq. cls. Qed.
Lemma q_bin k : isq k -> m_bin k = false. Proof. unfold isq. cls. Qed.
Lemma q_blank k : isq k -> m_blank k = false. Proof. unfold isq. cls. Qed.
Lemma q_name_char k : isq k -> m_name_char k = false. Proof. unfold isq. cls. Qed.
Lemma q_eq61 k : isq k -> (k =? 61) = false. Proof. unfold isq. lia. Qed.

Lemma tw_k k p : p k = false -> forall s r, ends_k k s ->
  take_while p (s ++ r) = (fst (take_while p s), snd (take_while p s) ++ r) /\ ends_k k (snd (take_while p s)).
Proof.
  intros Hp s r. induction s as [|c s IH]; intros He; [destruct (ends_k_ne _ _ He eq_refl)|].
  cbn [app take_while]. destruct (p c) eqn:Pc.
  - assert (N : c <> k) by (intros ->; congruence).
    destruct (IH (ends_k_tl_ne _ _ _ He N)) as [E1 E2]. rewrite E1.
    destruct (take_while p s) as [a b]. cbn [fst snd] in *. split; [reflexivity | exact E2].
  - cbn [fst snd]. split; [reflexivity | exact He].
Qed.

Lemma dp_k k lit : forall s r, ~ In k (removelast lit) -> ends_k k s ->
  drop_prefix lit (s ++ r) = match drop_prefix lit s with Some y => Some (y ++ r) | None => None end.
Proof.
  induction lit as [|x lit IH]; intros s r Hn He; [reflexivity|].
  destruct s as [|c s]; [destruct (ends_k_ne _ _ He eq_refl)|]. cbn [app drop_prefix].
  destruct (Z.eqb_spec x c) as [<-|N]; [|reflexivity].
  destruct lit as [|y lit]; [reflexivity|].
  assert (Nx : x <> k) by (intros ->; apply Hn; left; reflexivity).
  apply IH; [intros Hin; apply Hn; right; exact Hin | apply (ends_k_tl_ne _ _ _ He Nx)].
Qed.

Lemma dp_ends_k k lit : forall s y, ~ In k lit -> ends_k k s -> drop_prefix lit s = Some y -> ends_k k y.
Proof.
  induction lit as [|x lit IH]; intros s y Hn He H; cbn [drop_prefix] in H.
  - inversion H; subst. exact He.
  - destruct s as [|c s]; [discriminate|]. destruct (Z.eqb_spec x c) as [<-|N]; [|discriminate].
    assert (Nx : x <> k) by (intros ->; apply Hn; left; reflexivity).
    apply (IH s y); [intros Hin; apply Hn; right; exact Hin | apply (ends_k_tl_ne _ _ _ He Nx) | exact H].
Qed.

Definition LocK (k : Z) (f : list Z -> option (list Z * list Z)) : Prop :=
  forall s r, ends_k k s -> f (s ++ r) = map_rest r (f s).

Lemma tw1_k k p : p k = false -> forall s r, ends_k k s ->
  take_while1 p (s ++ r) = map_rest r (take_while1 p s) /\
  (forall a b, take_while1 p s = Some (a, b) -> ends_k k b).
Proof.
  intros Hp s r He. unfold take_while1. destruct (tw_k k p Hp s r He) as [E1 E2]. rewrite E1.
  destruct (take_while p s) as [a b]. cbn [fst snd] in *. split.
  - destruct (is_nil a); reflexivity.
  - intros a' b' H. destruct (is_nil a); [discriminate|]. inversion H; subst. exact E2.
Qed.

Lemma hd_is_tl_ends_k k c s : c <> k -> ends_k k s -> hd_is c s = true -> ends_k k (tl s).
Proof.
  intros Nk He H. destruct s as [|x s]; [discriminate|]. cbn [hd_is] in H. apply Z.eqb_eq in H. subst x.
  cbn [tl]. apply (ends_k_tl_ne _ _ _ He Nk).
Qed.

Lemma opt_frac_k k p : isq k -> p k = false -> forall s r, ends_k k s ->
  opt_frac p (s ++ r) = (fst (opt_frac p s), snd (opt_frac p s) ++ r) /\ ends_k k (snd (opt_frac p s)).
Proof.
  intros Hk Hp s r He. unfold opt_frac. rewrite (hd_is_app 46 s r (ends_k_ne _ _ He)).
  destruct (hd_is 46 s) eqn:H46; [|split; [reflexivity | exact He]].
  rewrite (tl_app s r (ends_k_ne _ _ He)).
  assert (N46 : 46 <> k) by (unfold isq in Hk; lia).
  pose proof (hd_is_tl_ends_k k 46 s N46 He H46) as Ht.
  destruct (tw1_k k p Hp (tl s) r Ht) as [E1 E2]. rewrite E1.
  destruct (take_while1 p (tl s)) as [[a b]|] eqn:T; cbn [map_rest fst snd].
  - split; [reflexivity | apply (E2 a b eq_refl)].
  - split; [reflexivity | exact He].
Qed.

Lemma opt_exp_k k : isq k -> forall s r, ends_k k s ->
  opt_exp (s ++ r) = (fst (opt_exp s), snd (opt_exp s) ++ r) /\ ends_k k (snd (opt_exp s)).
Proof.
  intros Hk s r He. destruct s as [|e s']; [destruct (ends_k_ne _ _ He eq_refl)|]. cbn [app]. unfold opt_exp.
  destruct ((e =? 101) || (e =? 69)) eqn:Ce; [|split; [reflexivity | exact He]].
  assert (Ne : e <> k) by (unfold isq in Hk; lia). pose proof (ends_k_tl_ne _ _ _ He Ne) as Hs'.
  assert (N45 : 45 <> k) by (unfold isq in Hk; lia).
  rewrite (hd_is_app 45 s' r (ends_k_ne _ _ Hs')).
  destruct (hd_is 45 s') eqn:H45.
  - rewrite (tl_app s' r (ends_k_ne _ _ Hs')).
    pose proof (hd_is_tl_ends_k k 45 s' N45 Hs' H45) as Ht.
    destruct (tw1_k k m_digit (q_digit k Hk) (tl s') r Ht) as [E1 E2]. rewrite E1.
    destruct (take_while1 m_digit (tl s')) as [[a b]|] eqn:T; cbn [map_rest fst snd].
    + split; [reflexivity | apply (E2 a b eq_refl)].
    + split; [reflexivity | exact He].
  - destruct (tw1_k k m_digit (q_digit k Hk) s' r Hs') as [E1 E2]. rewrite E1.
    destruct (take_while1 m_digit s') as [[a b]|] eqn:T; cbn [map_rest fst snd].
    + split; [reflexivity | apply (E2 a b eq_refl)].
    + split; [reflexivity | exact He].
Qed.

Lemma num_prefix_k k l u : isq k -> l <> k -> u <> k -> forall s r, ends_k k s ->
  num_prefix l u (s ++ r) = map_rest r (num_prefix l u s) /\
  (forall a b, num_prefix l u s = Some (a, b) -> ends_k k b).
Proof.
  intros Hk Nl Nu s r He. unfold num_prefix. destruct s as [|z [|x s'']].
  - destruct (ends_k_ne _ _ He eq_refl).
  - apply ends_k_single in He. subst z. cbn [app]. split; [|intros a b H; discriminate].
    assert (E : (k =? 48) = false) by (unfold isq in Hk; lia).
    destruct r as [|x r]; [reflexivity|]. rewrite E. reflexivity.
  - cbn [app]. destruct ((z =? 48) && ((x =? l) || (x =? u))) eqn:C.
    + split; [reflexivity|]. intros a b H. inversion H; subst.
      assert (z <> k) by (unfold isq in Hk; lia). assert (x <> k) by lia.
      apply (ends_k_tl_ne k x); [apply (ends_k_tl_ne k z); assumption | assumption].
    + split; [reflexivity | intros a b H; discriminate].
Qed.

Lemma scan_based_k k l u p : isq k -> l <> k -> u <> k -> p k = false -> LocK k (scan_based l u p).
Proof.
  intros Hk Nl Nu Hp s r He. unfold scan_based. destruct (num_prefix_k k l u Hk Nl Nu s r He) as [E1 E2]. rewrite E1.
  destruct (num_prefix l u s) as [[pre r1]|]; [|reflexivity]. cbn [map_rest]. specialize (E2 pre r1 eq_refl).
  destruct (tw1_k k p Hp r1 r E2) as [F1 F2]. rewrite F1.
  destruct (take_while1 p r1) as [[a r2]|]; [|reflexivity]. cbn [map_rest]. specialize (F2 a r2 eq_refl).
  destruct (opt_frac_k k p Hk Hp r2 r F2) as [G1 _]. rewrite G1. destruct (opt_frac p r2) as [f r3]. reflexivity.
Qed.

Lemma scan_based_frac_k k l u p : isq k -> l <> k -> u <> k -> p k = false -> LocK k (scan_based_frac l u p).
Proof.
  intros Hk Nl Nu Hp s r He. unfold scan_based_frac. destruct (num_prefix_k k l u Hk Nl Nu s r He) as [E1 E2]. rewrite E1.
  destruct (num_prefix l u s) as [[pre r1]|]; [|reflexivity]. cbn [map_rest]. specialize (E2 pre r1 eq_refl).
  assert (N46 : 46 <> k) by (unfold isq in Hk; lia).
  rewrite (hd_is_app 46 r1 r (ends_k_ne _ _ E2)). destruct (hd_is 46 r1) eqn:H46; [|reflexivity].
  rewrite (tl_app r1 r (ends_k_ne _ _ E2)).
  destruct (tw1_k k p Hp (tl r1) r (hd_is_tl_ends_k k 46 r1 N46 E2 H46)) as [F1 _]. rewrite F1.
  destruct (take_while1 p (tl r1)) as [[a r2]|]; reflexivity.
Qed.

Lemma scan_decimal_k k : isq k -> LocK k scan_decimal.
Proof.
  intros Hk s r He. unfold scan_decimal. pose proof (q_digit k Hk) as Hd.
  assert (N46 : 46 <> k) by (unfold isq in Hk; lia).
  destruct (tw1_k k m_digit Hd s r He) as [E1 E2]. rewrite E1.
  destruct (take_while1 m_digit s) as [[a r1]|]; [|reflexivity]. cbn [map_rest]. specialize (E2 a r1 eq_refl).
  rewrite (hd_is_app 46 r1 r (ends_k_ne _ _ E2)).
  destruct (hd_is 46 r1) eqn:H46.
  - pose proof (hd_is_tl_ends_k k 46 r1 N46 E2 H46) as Ht.
    rewrite (tl_app r1 r (ends_k_ne _ _ E2)), (hd_is_app 46 (tl r1) r (ends_k_ne _ _ Ht)).
    destruct (hd_is 46 (tl r1)).
    + destruct (opt_exp_k k Hk r1 r E2) as [G1 _]. rewrite G1. destruct (opt_exp r1) as [e r3]. reflexivity.
    + destruct (tw_k k m_digit Hd (tl r1) r Ht) as [F1 F2]. rewrite F1.
      destruct (take_while m_digit (tl r1)) as [d r']. cbn [fst snd] in *.
      destruct (opt_exp_k k Hk r' r F2) as [G1 _]. rewrite G1. destruct (opt_exp r') as [e r3]. reflexivity.
  - destruct (opt_exp_k k Hk r1 r E2) as [G1 _]. rewrite G1. destruct (opt_exp r1) as [e r3]. reflexivity.
Qed.

Lemma scan_decimal_frac_k k : isq k -> LocK k scan_decimal_frac.
Proof.
  intros Hk s r He. unfold scan_decimal_frac. rewrite (hd_is_app 46 s r (ends_k_ne _ _ He)).
  assert (N46 : 46 <> k) by (unfold isq in Hk; lia).
  destruct (hd_is 46 s) eqn:H46; [|reflexivity]. rewrite (tl_app s r (ends_k_ne _ _ He)).
  destruct (tw1_k k m_digit (q_digit k Hk) (tl s) r (hd_is_tl_ends_k k 46 s N46 He H46)) as [F1 F2]. rewrite F1.
  destruct (take_while1 m_digit (tl s)) as [[a r2]|]; [|reflexivity]. cbn [map_rest]. specialize (F2 a r2 eq_refl).
  destruct (opt_exp_k k Hk r2 r F2) as [G1 _]. rewrite G1. destruct (opt_exp r2) as [e r3]. reflexivity.
Qed.

Lemma scan_name_k k : isq k -> forall s r, ends_k k s ->
  scan_name (s ++ r) = map_rest r (scan_name s) /\ (forall a b, scan_name s = Some (a, b) -> ends_k k b).
Proof.
  intros Hk s r He. unfold scan_name. destruct s as [|c s']; [destruct (ends_k_ne _ _ He eq_refl)|]. cbn [app].
  destruct (m_name_start c) eqn:Cn; [|split; [reflexivity | intros a b H; discriminate]].
  assert (N : c <> k) by (unfold isq in Hk; cls). pose proof (ends_k_tl_ne _ _ _ He N) as Hs'.
  destruct (tw_k k m_name_char (q_name_char k Hk) s' r Hs') as [E1 E2]. rewrite E1.
  destruct (take_while m_name_char s') as [a b]. cbn [fst snd map_rest] in *. split; [reflexivity|].
  intros a' b' H. inversion H; subst. exact E2.
Qed.

Lemma not_in_2 (k c : Z) : c <> k -> ~ In k [c; c].
Proof. intros N [H|[H|[]]]; congruence. Qed.

Lemma scan_label_k k : isq k -> LocK k scan_label.
Proof.
  intros Hk s r He. unfold scan_label.
  assert (N58 : 58 <> k) by (unfold isq in Hk; lia).
  assert (N1 : ~ In k (removelast [58; 58])) by (cbn; intros [H|[]]; congruence).
  rewrite (dp_k k [58; 58] s r N1 He).
  destruct (drop_prefix [58; 58] s) as [r1|] eqn:D; [|reflexivity].
  assert (H1 : ends_k k r1) by (apply (dp_ends_k k [58; 58] s r1 (not_in_2 k 58 N58) He D)).
  destruct (scan_name_k k Hk r1 r H1) as [E1 E2]. rewrite E1.
  destruct (scan_name r1) as [[n r2]|]; [|reflexivity]. cbn [map_rest]. specialize (E2 n r2 eq_refl).
  rewrite (dp_k k [58; 58] r2 r N1 E2).
  destruct (drop_prefix [58; 58] r2); reflexivity.
Qed.

Lemma scan_keyword_k k kw : isq k -> ~ In k kw -> LocK k (scan_keyword kw).
Proof.
  intros Hk Hn s r He. unfold scan_keyword. destruct kw as [|k0 kw']; [reflexivity|].
  destruct (m_word k0); [|reflexivity].
  assert (Hn' : ~ In k (removelast (k0 :: kw'))) by (intros Hin; apply Hn, removelast_sub, Hin).
  rewrite (dp_k k (k0 :: kw') s r Hn' He).
  destruct (drop_prefix (k0 :: kw') s) as [r1|] eqn:D; [|reflexivity].
  pose proof (dp_ends_k k _ _ _ Hn He D) as H1. destruct r1 as [|c r1']; [destruct (ends_k_ne _ _ H1 eq_refl)|].
  cbn [app]. destruct (m_name_char c); reflexivity.
Qed.

Lemma scan_literal_k k lit : ~ In k (removelast lit) -> LocK k (scan_literal lit).
Proof.
  intros Hn s r He. unfold scan_literal. destruct lit as [|x lit']; [reflexivity|].
  rewrite (dp_k k (x :: lit') s r Hn He). destruct (drop_prefix (x :: lit') s); reflexivity.
Qed.

(* ---------- stability: what the scanners actually satisfy at a quote byte (the line-comment matchers
   run over quotes, so they are not local; but when the rest after the match still contains the quote,
   the match ended at a line break before it) *)
Definition Stab (k : Z) (f : list Z -> option (list Z * list Z)) : Prop :=
  forall S r r', ends_k k S ->
    (f (S ++ r) = None -> f (S ++ r') = None) /\
    (forall a z0, z0 <> [] -> f (S ++ r) = Some (a, z0 ++ r) -> f (S ++ r') = Some (a, z0 ++ r')).

Lemma LocK_Stab k f : LocK k f -> Stab k f.
Proof.
  intros HL S r r' He. rewrite (HL S r He), (HL S r' He). destruct (f S) as [[a b]|]; cbn [map_rest].
  - split; [discriminate|]. intros a' z0 _ H. inversion H as [[Ha Hb]]. apply app_inv_tail in Hb. subst. reflexivity.
  - split; [reflexivity | discriminate].
Qed.

Lemma tw_swap p : forall a z y y', z <> [] ->
  take_while p (a ++ z ++ y) = (a, z ++ y) -> take_while p (a ++ z ++ y') = (a, z ++ y').
Proof.
  induction a as [|c a IH]; intros z y y' Hz H.
  - destruct z as [|c z']; [congruence|]. cbn [app take_while] in *.
    destruct (p c); [|reflexivity]. destruct (take_while p (z' ++ y)); discriminate.
  - cbn [app take_while] in *. destruct (p c); [|discriminate].
    destruct (take_while p (a ++ z ++ y)) as [a2 b2] eqn:T. inversion H; subst a2 b2.
    rewrite (IH z y y' Hz T). reflexivity.
Qed.

Lemma comment_stab k c : c <> k -> Stab k (fun s =>
  match drop_prefix [c; c] s with
  | Some r => let '(a, b) := take_while m_not_eol r in Some (c :: c :: a, b)
  | None => None
  end).
Proof.
  intros Nc S r r' He. cbv beta.
  assert (N1 : ~ In k (removelast [c; c])) by (cbn; intros [H|[]]; congruence).
  rewrite (dp_k k [c; c] S r N1 He), (dp_k k [c; c] S r' N1 He).
  destruct (drop_prefix [c; c] S) as [r1|] eqn:D; [|split; [reflexivity | discriminate]].
  split; [destruct (take_while m_not_eol (r1 ++ r)); discriminate|].
  intros a z0 Hz H. destruct (take_while m_not_eol (r1 ++ r)) as [a1 b1] eqn:T. inversion H; subst a b1. clear H.
  pose proof (take_while_split _ _ _ _ T) as Sp. rewrite app_assoc in Sp. apply app_inv_tail in Sp. subst r1.
  rewrite <- app_assoc in T. rewrite <- app_assoc, (tw_swap _ a1 z0 r r' Hz T). reflexivity.
Qed.

(* the side condition on the regenerated table: no keyword / symbol contains the quote byte *)
Definition q_free (k : Z) (m : matcher_id) : bool :=
  match m with
  | MKeyword kw => negb (existsb (Z.eqb k) kw)
  | MSymbol x => negb (existsb (Z.eqb k) x)
  | _ => true
  end.

Lemma not_in_existsb k l : existsb (Z.eqb k) l = false -> ~ In k l.
Proof.
  intros H Hin. assert (E : existsb (Z.eqb k) l = true) by (apply existsb_exists; exists k; split; [exact Hin | apply Z.eqb_refl]).
  congruence.
Qed.

Lemma run_matcher_stab k m : isq k -> q_free k m = true -> Stab k (run_matcher m).
Proof.
  intros Hk Hf. assert (Hk' := Hk). unfold isq in Hk'.
  destruct m; cbn [run_matcher q_free] in *.
  - apply (comment_stab k 45). lia.
  - apply (comment_stab k 47). lia.
  - apply LocK_Stab. intros s r He. apply (tw1_k k m_blank (q_blank k Hk) s r He).
  - apply LocK_Stab, scan_literal_k. cbn. intros [H|[]]. lia.
  - apply LocK_Stab, scan_literal_k. cbn. intros [].
  - apply LocK_Stab, scan_literal_k. cbn. intros [].
  - apply LocK_Stab, scan_based_k; [exact Hk | lia | lia | apply q_hex, Hk].
  - apply LocK_Stab, scan_based_frac_k; [exact Hk | lia | lia | apply q_hex, Hk].
  - apply LocK_Stab, scan_based_k; [exact Hk | lia | lia | apply q_bin, Hk].
  - apply LocK_Stab, scan_based_frac_k; [exact Hk | lia | lia | apply q_bin, Hk].
  - apply LocK_Stab, scan_decimal_k, Hk.
  - apply LocK_Stab, scan_decimal_frac_k, Hk.
  - apply LocK_Stab, scan_label_k, Hk.
  - apply LocK_Stab, scan_keyword_k; [exact Hk|]. apply not_in_existsb. apply negb_true_iff. exact Hf.
  - apply LocK_Stab, scan_literal_k. intros Hin. apply removelast_sub in Hin. revert Hin. apply not_in_existsb. apply negb_true_iff. exact Hf.
  - apply LocK_Stab. intros s r He. apply (scan_name_k k Hk s r He).
  - apply LocK_Stab, scan_literal_k. cbn. intros [].
Qed.

Lemma first_matcher_stab k tbl : isq k -> forallb (fun mk => q_free k (fst mk)) tbl = true ->
  forall S r r', ends_k k S ->
    (first_matcher tbl (S ++ r) = None -> first_matcher tbl (S ++ r') = None) /\
    (forall kd a z0, z0 <> [] -> first_matcher tbl (S ++ r) = Some (kd, a, z0 ++ r) ->
                     first_matcher tbl (S ++ r') = Some (kd, a, z0 ++ r')).
Proof.
  intros Hk. induction tbl as [|[m kd0] tbl IH]; intros HT S r r' He; [split; [reflexivity | discriminate]|].
  cbn [forallb fst] in HT. apply andb_true_iff in HT. destruct HT as [Hm HT]. cbn [first_matcher].
  destruct (run_matcher_stab k m Hk Hm S r r' He) as [S1 S2]. destruct (IH HT S r r' He) as [I1 I2].
  destruct (run_matcher m (S ++ r)) as [[a b]|] eqn:R.
  - split; [discriminate|]. intros kd a' z0 Hz H. inversion H; subst kd0 a' b.
    rewrite (S2 a z0 Hz eq_refl). reflexivity.
  - rewrite (S1 eq_refl). split; [exact I1 | exact I2].
Qed.

Lemma table_q_free : forallb (fun mk => q_free 34 (fst mk) && q_free 39 (fst mk)) token_matchers = true.
Proof. vm_compute. reflexivity. Qed.

Lemma table_q_free_k k : isq k -> forallb (fun mk => q_free k (fst mk)) token_matchers = true.
Proof.
  intros Hk. pose proof table_q_free as T. rewrite forallb_forall in *. intros mk Hin. specialize (T mk Hin).
  apply andb_true_iff in T. destruct Hk; subst k; tauto.
Qed.

Lemma match_long_open_k k s r : isq k -> ends_k k s ->
  match_long_open (s ++ r) = match match_long_open s with Some (e, y) => Some (e, y ++ r) | None => None end.
Proof.
  intros Hk He. unfold match_long_open. rewrite (hd_is_app 91 s r (ends_k_ne _ _ He)).
  assert (N91 : 91 <> k) by (unfold isq in Hk; lia).
  destruct (hd_is 91 s) eqn:H91; [|reflexivity]. rewrite (tl_app s r (ends_k_ne _ _ He)).
  pose proof (hd_is_tl_ends_k k 91 s N91 He H91) as Ht.
  destruct (tw_k k (fun c => c =? 61) (q_eq61 k Hk) (tl s) r Ht) as [E1 E2]. rewrite E1.
  destruct (take_while (fun c => c =? 61) (tl s)) as [eqs r2]. cbn [fst snd] in *.
  rewrite (hd_is_app 91 r2 r (ends_k_ne _ _ E2)). destruct (hd_is 91 r2); [|reflexivity].
  rewrite (tl_app r2 r (ends_k_ne _ _ E2)). reflexivity.
Qed.

(* ====================================================================== part 2: the decoder reads the encoder's text back *)
Lemma lookup_in m : forall k v, lookup_bytes m k = Some v -> In (k, v) m.
Proof.
  induction m as [|[k' v'] m IH]; intros k v H; cbn [lookup_bytes] in H; [discriminate|].
  destruct (zlist_eqb k' k) eqn:E.
  - apply zlist_eqb_eq in E. inversion H; subst. left. reflexivity.
  - right. apply IH. exact H.
Qed.

(* per entry (key, e) of the regenerated reverse table: the key is one byte c below 256; a numbered escape has
   at most three digits whose value is c; any other escape is one byte x that is no digit, not 'x', not CR,
   and the regenerated forward table maps x to c *)
Definition rev_entry_ok (kv : list Z * list Z) : bool :=
  match fst kv with
  | [c] =>
    let e := snd kv in
    if all_digits e then (length e <=? 3)%nat && (byte_of_digits e =? c) && (c <? 256)
    else match e with
         | [x] => negb (m_digit x) && negb (x =? 120) && negb (x =? 13) &&
                  match lookup_bytes string_escapes [x] with Some v => zlist_eqb v [c] | None => false end
         | _ => false
         end
  | _ => false
  end.

Lemma rev_table_ok : forallb rev_entry_ok string_reverse_escapes = true.
Proof. vm_compute. reflexivity. Qed.

Lemma take_upto_digits : forall ds n s, forallb m_digit ds = true -> (length ds <= n)%nat ->
  (length ds = n \/ next_digit s = false) -> take_upto n m_digit (ds ++ s) = (ds, s).
Proof.
  induction ds as [|d ds IH]; intros n s Hd Hn Hs.
  - cbn [app]. destruct n as [|n]; [reflexivity|]. destruct Hs as [Hs|Hs]; [discriminate|].
    destruct s as [|x s']; [reflexivity|]. cbn [next_digit] in Hs. cbn [take_upto]. rewrite Hs. reflexivity.
  - cbn [forallb] in Hd. apply andb_true_iff in Hd. destruct Hd as [H1 H2]. cbn [length] in *.
    destruct n as [|n]; [lia|]. cbn [app take_upto]. rewrite H1.
    rewrite (IH n s H2); [reflexivity | lia | destruct Hs; [left; lia | right; assumption]].
Qed.

Lemma escape_step_digits ds s : ds <> [] -> forallb m_digit ds = true -> (length ds <= 3)%nat ->
  (length ds = 3%nat \/ next_digit s = false) -> byte_of_digits ds < 256 ->
  escape_step (ds ++ s) = Ok ([byte_of_digits ds], ds, s).
Proof.
  intros Hne Hd Hn Hs Hb. destruct ds as [|d1 ds']; [congruence|].
  assert (H1 : m_digit d1 = true) by (cbn [forallb] in Hd; apply andb_true_iff in Hd; tauto).
  unfold escape_step. cbn [app]. rewrite H1. change (d1 :: ds' ++ s) with ((d1 :: ds') ++ s).
  rewrite (take_upto_digits (d1 :: ds') 3 s Hd Hn Hs).
  apply Z.ltb_lt in Hb. rewrite Hb. reflexivity.
Qed.

Lemma escape_step_named x s v : m_digit x = false -> (x =? 120) = false -> (x =? 13) = false ->
  lookup_bytes string_escapes [x] = Some v -> escape_step (x :: s) = Ok (v, [x], s).
Proof.
  intros H1 H2 H3 HL. unfold escape_step. rewrite H1, H2, H3. cbn [andb]. rewrite HL.
  destruct s as [|h1 [|h2 r3]]; reflexivity.
Qed.

(* the (possibly padded) digits of a numbered escape *)
Lemma pad_ok e (nd : bool) : all_digits e = true -> (length e <= 3)%nat ->
  let e' := if nd then rjust3 e else e in
  e' <> [] /\ forallb m_digit e' = true /\ (length e' <= 3)%nat /\ (nd = true -> length e' = 3%nat) /\
  byte_of_digits e' = byte_of_digits e.
Proof.
  intros Hd Hn. unfold all_digits in Hd. apply andb_true_iff in Hd. destruct Hd as [Hne Hd].
  destruct e as [|d1 [|d2 [|d3 [|d4 e]]]]; cbn [length] in Hn; try discriminate Hne; try lia;
    destruct nd; cbv zeta; unfold rjust3; cbn [length Nat.sub repeat app];
    (split; [discriminate|]); (split; [try exact Hd; cbn [forallb] in *; rewrite Hd; reflexivity|]);
    (split; [cbn [length]; lia|]); (split; [try reflexivity; discriminate|]);
    unfold byte_of_digits; cbn [fold_left]; lia.
Qed.

Lemma enc1_scan q c nd s f acc pc : isq q -> (nd = false -> next_digit s = false) ->
  scan_string (S f) q (enc1 q c nd ++ s) acc pc = scan_string f q s (c :: acc) (rev (enc1 q c nd) ++ pc).
Proof.
  intros Hq Hnd. assert (Hq' := Hq). unfold isq in Hq'.
  assert (Q92 : (92 =? q) = false) by lia.
  unfold enc1. destruct (lookup_bytes string_reverse_escapes [c]) as [e|] eqn:L.
  - apply lookup_in in L. pose proof rev_table_ok as T. rewrite forallb_forall in T. specialize (T _ L).
    unfold rev_entry_ok in T. cbn [fst snd] in T.
    destruct (all_digits e) eqn:Hd.
    + apply andb_true_iff in T. destruct T as [T T3]. apply andb_true_iff in T. destruct T as [T1 T2].
      apply Nat.leb_le in T1. apply Z.eqb_eq in T2. apply Z.ltb_lt in T3. cbn [andb].
      destruct (pad_ok e nd Hd T1) as (P1 & P2 & P3 & P4 & P5). cbv zeta in P1, P2, P3, P4, P5.
      set (e' := if nd then rjust3 e else e) in *.
      cbn [app scan_string]. rewrite Q92. change (92 =? 92) with true. cbv iota.
      rewrite (escape_step_digits e' s P1 P2 P3); [| destruct nd; [left; apply P4; reflexivity | right; apply Hnd; reflexivity] | lia].
      rewrite P5, T2. cbn [rev_append rev]. rewrite rev_append_rev, <- app_assoc. reflexivity.
    + destruct e as [|x [|y e]]; try discriminate T. cbn [andb app scan_string]. rewrite Q92. change (92 =? 92) with true. cbv iota.
      destruct (lookup_bytes string_escapes [x]) as [v|] eqn:LX; [|rewrite andb_false_r in T; discriminate T].
      repeat (apply andb_true_iff in T; let H := fresh "Hx" in destruct T as [T H]).
      apply zlist_eqb_eq in Hx. subst v.
      rewrite (escape_step_named x s [c]); [reflexivity | | | | exact LX]; [apply negb_true_iff; assumption ..].
  - destruct (zlist_eqb [c] [q]) eqn:Z.
    + apply zlist_eqb_eq in Z. inversion Z; subst c. cbn [app scan_string]. rewrite Q92. change (92 =? 92) with true. cbv iota.
      rewrite (escape_step_named q s [q]); [reflexivity | apply q_digit, Hq | lia | lia |].
      destruct Hq'; subst q; reflexivity.
    + cbn [zlist_eqb] in Z. rewrite andb_true_r in Z. cbn [app scan_string]. rewrite Z.
      destruct (Z.eqb_spec c 92) as [->|N]; [vm_compute in L; discriminate L|]. reflexivity.
Qed.

Lemma enc1_ne q c nd : enc1 q c nd <> [].
Proof.
  unfold enc1. destruct (lookup_bytes string_reverse_escapes [c]); [discriminate|]. destruct (zlist_eqb [c] [q]); discriminate.
Qed.

(* the encoded text starts with a digit only when the data does *)
Lemma escape_next_digit q r tail : next_digit tail = false ->
  next_digit (escape_bytes [q] r ++ tail) = true -> next_digit r = true.
Proof.
  intros Ht H. destruct r as [|c r]; [cbn [escape_bytes app] in H; congruence|].
  rewrite escape_bytes_cons in H. unfold enc1 in H. cbn [next_digit].
  destruct (lookup_bytes string_reverse_escapes [c]); [cbn in H; discriminate H|].
  destruct (zlist_eqb [c] [q]); cbn [app next_digit] in H; [cbn in H; discriminate H | exact H].
Qed.

Lemma escape_scan q : isq q -> forall v F acc pc rest, (length (escape_bytes [q] v) < F)%nat ->
  scan_string F q (escape_bytes [q] v ++ q :: rest) acc pc =
    Ok (SClosed (rev v ++ acc) (rev (escape_bytes [q] v ++ [q]) ++ pc) rest).
Proof.
  intros Hq. induction v as [|c r IH]; intros F acc pc rest HF.
  - destruct F as [|f]; [lia|]. cbn [escape_bytes app scan_string rev]. rewrite Z.eqb_refl. reflexivity.
  - rewrite escape_bytes_cons in *. rewrite app_length in HF. pose proof (ne_length _ (enc1_ne q c (next_digit r))) as L1.
    destruct F as [|f]; [lia|]. rewrite <- !app_assoc. rewrite enc1_scan; [|exact Hq|].
    + rewrite IH; [|lia]. cbn [rev]. rewrite !rev_app_distr, <- !app_assoc. reflexivity.
    + intros Hn. destruct (next_digit (escape_bytes [q] r ++ q :: rest)) eqn:E; [|reflexivity].
      apply escape_next_digit in E; [congruence|]. cbn [next_digit]. apply q_digit, Hq.
Qed.

(* ====================================================================== part 3: the closing scans are determined by what they consume *)
Lemma find_rbrackets_replace s : forall a b, find_rbrackets s = Some (a, b) ->
  forall b', find_rbrackets (a ++ b') = Some (a, b').
Proof.
  induction s as [|c r IH]; intros a b H b'; [discriminate|]. rewrite find_rbrackets_cons in H.
  destruct ((c =? 93) && hd_is 93 r) eqn:C.
  - inversion H; subst. reflexivity.
  - destruct (find_rbrackets r) as [[a1 b1]|] eqn:F; [|discriminate]. inversion H; subst a b1.
    pose proof (find_rbrackets_ne _ _ _ F) as Ha1. pose proof (find_rbrackets_split _ _ _ F) as Sp.
    cbn [app]. rewrite find_rbrackets_cons, (hd_is_app 93 a1 b' Ha1).
    rewrite Sp, (hd_is_app 93 a1 b Ha1) in C. rewrite C, (IH a1 b eq_refl b'). reflexivity.
Qed.

Lemma dp_none_prefix cl : forall u v v', (length cl <= length u)%nat ->
  drop_prefix cl (u ++ v) = None -> drop_prefix cl (u ++ v') = None.
Proof.
  induction cl as [|x cl IH]; intros u v v' Hl H; [discriminate|].
  destruct u as [|y u]; [cbn in Hl; lia|]. cbn [app drop_prefix length] in *.
  destruct (x =? y); [|reflexivity]. apply (IH u v v'); [lia | exact H].
Qed.

Lemma find_long_close_replace cl s : forall a b, find_long_close cl s = Some (a, b) ->
  forall b', find_long_close cl (a ++ cl ++ b') = Some (a, b').
Proof.
  induction s as [|c r IH]; intros a b H b'.
  - cbn [find_long_close] in H. destruct (drop_prefix cl []) as [y|] eqn:D; [|discriminate].
    inversion H; subst. cbn [app]. destruct cl as [|x cl']; [|discriminate D].
    destruct b'; reflexivity.
  - rewrite find_long_close_cons in H. destruct (drop_prefix cl (c :: r)) as [y|] eqn:D.
    + inversion H; subst. cbn [app].
      assert (E : forall t, find_long_close cl t = match drop_prefix cl t with Some y => Some ([], y) | None =>
                    match t with c :: r => match find_long_close cl r with Some (a, b) => Some (c :: a, b) | None => None end | [] => None end end)
        by (intros t; destruct t; reflexivity).
      rewrite E, drop_prefix_app. reflexivity.
    + destruct (find_long_close cl r) as [[a1 b1]|] eqn:F; [|discriminate]. inversion H; subst a b1.
      pose proof (find_long_close_split _ _ _ _ F) as Sp.
      cbn [app]. rewrite find_long_close_cons, (IH a1 b eq_refl b').
      assert (D' : drop_prefix cl (c :: a1 ++ cl ++ b') = None).
      { rewrite Sp in D. change (c :: a1 ++ cl ++ b) with ((c :: a1) ++ cl ++ b) in D. rewrite app_assoc in D.
        change (c :: a1 ++ cl ++ b') with ((c :: a1) ++ cl ++ b'). rewrite app_assoc.
        apply (dp_none_prefix cl _ b b'); [rewrite app_length; lia | exact D]. }
      rewrite D'. reflexivity.
Qed.

Lemma tw_build p : forall a z, forallb p a = true -> match z with c :: _ => p c = false | [] => True end ->
  take_while p (a ++ z) = (a, z).
Proof.
  induction a as [|c a IH]; intros z Ha Hz.
  - destruct z as [|c z']; [reflexivity|]. cbn [app take_while]. rewrite Hz. reflexivity.
  - cbn [forallb] in Ha. apply andb_true_iff in Ha. destruct Ha as [H1 H2]. cbn [app take_while]. rewrite H1, (IH z H2 Hz). reflexivity.
Qed.

Lemma mlo_eqs s eqs r : match_long_open s = Some (eqs, r) -> forallb (fun c => c =? 61) eqs = true.
Proof.
  unfold match_long_open. destruct (hd_is 91 s); [|discriminate].
  pose proof (take_while_all (fun c => c =? 61) (tl s)) as A.
  destruct (take_while (fun c => c =? 61) (tl s)) as [e r2]. destruct (hd_is 91 r2); [|discriminate].
  intros H. inversion H; subst. exact A.
Qed.

Lemma mlo_build eqs r : forallb (fun c => c =? 61) eqs = true -> match_long_open (91 :: eqs ++ 91 :: r) = Some (eqs, r).
Proof.
  intros H. unfold match_long_open. cbn [hd_is tl]. change (91 =? 91) with true. cbv iota.
  rewrite (tw_build (fun c => c =? 61) eqs (91 :: r) H eq_refl). reflexivity.
Qed.

(* ====================================================================== part 4: one token at a time *)
Lemma step_state_toks st ms ot piece :
  l_toks_rev (step_state st ms ot piece) = match ot with Some t => t :: l_toks_rev st | None => l_toks_rev st end.
Proof. unfold step_state. destruct (advance (l_line st, l_col st) piece). reflexivity. Qed.

Definition emit (st : lexst) (t : tok) (st' : lexst) : Prop :=
  l_state st' = Normal /\ l_toks_rev st' = t :: l_toks_rev st.

Lemma emit_one st t a : emit st t (step_state st Normal (Some t) a).
Proof. split; [apply step_state_state | apply step_state_toks]. Qed.

Lemma emit_two st ms p1 t p2 : emit st t (step_state (step_state st ms None p1) Normal (Some t) p2).
Proof. split; [apply step_state_state | rewrite !step_state_toks; reflexivity]. Qed.

Lemma pl_one st s tk a rest : l_state st = Normal ->
  process_token Normal (l_line st) (l_col st) s = Ok (Some (Normal, Some tk, a, rest)) -> a <> [] ->
  pl st s = pl (step_state st Normal (Some tk) a) rest.
Proof. intros Hn H Ha. rewrite pl_step, Hn, H, (is_nil_ne _ Ha). reflexivity. Qed.

Lemma pl_two st s ms p1 r1 tk p2 rest : l_state st = Normal ->
  process_token Normal (l_line st) (l_col st) s = Ok (Some (ms, None, p1, r1)) -> p1 <> [] ->
  (forall l1 c1, process_token ms l1 c1 r1 = Ok (Some (Normal, Some tk, p2, rest))) -> p2 <> [] ->
  pl st s = pl (step_state (step_state st ms None p1) Normal (Some tk) p2) rest.
Proof.
  intros Hn H1 Hp1 H2 Hp2. rewrite pl_step, Hn, H1, (is_nil_ne _ Hp1).
  rewrite pl_step, step_state_state, (H2 _ _), (is_nil_ne _ Hp2). reflexivity.
Qed.

(* in one chunk a multi-line state is closed by the very next call, or the run does not end in Normal *)
Lemma pl_comment_inv st r st1 acc sl sc : l_state st = InComment acc sl sc -> pl st r = Ok st1 -> l_state st1 = Normal ->
  exists a rest, find_rbrackets r = Some (a, rest) /\ a <> [] /\
    pl (step_state st Normal (Some (mk_tok KComment (rev_append acc a) sl sc [] None (rev_append acc a))) a) rest = Ok st1.
Proof.
  intros E H Hf. rewrite pl_step, E in H. cbn [process_token] in H.
  destruct (find_rbrackets r) as [[a rest]|] eqn:F.
  - exists a, rest. pose proof (find_rbrackets_ne _ _ _ F) as Ha. rewrite (is_nil_ne _ Ha) in H. auto.
  - exfalso. destruct r as [|x r'].
    + cbn [is_nil] in H. inversion H; subst. congruence.
    + cbn [is_nil] in H. rewrite pl_nil in H. inversion H; subst st1. rewrite step_state_state in Hf. discriminate.
Qed.

Lemma pl_long_inv st r st1 eqs acc sl sc ext : l_state st = InLongString eqs acc sl sc ext -> pl st r = Ok st1 -> l_state st1 = Normal ->
  exists a rest, find_long_close (93 :: eqs ++ [93]) r = Some (a, rest) /\
    pl (step_state st Normal (Some (mk_tok KString (rev_append acc a) sl sc [] (Some eqs) (rev_append ext (a ++ 93 :: eqs ++ [93]))))
          (a ++ 93 :: eqs ++ [93])) rest = Ok st1.
Proof.
  intros E H Hf. rewrite pl_step, E in H. cbn [process_token] in H.
  destruct (find_long_close (93 :: eqs ++ [93]) r) as [[a rest]|] eqn:F.
  - exists a, rest. assert (Ha : a ++ 93 :: eqs ++ [93] <> []) by (destruct a; discriminate).
    rewrite (is_nil_ne _ Ha) in H. auto.
  - exfalso. destruct r as [|x r'].
    + cbn [is_nil] in H. inversion H; subst. congruence.
    + cbn [is_nil] in H. rewrite pl_nil in H. inversion H; subst st1. rewrite step_state_state in Hf. discriminate.
Qed.

Lemma pl_string_inv st r st1 d acc sl sc ext : l_state st = InString d acc sl sc ext -> pl st r = Ok st1 -> l_state st1 = Normal ->
  exists acc' pc rest, scan_string (length r) d r acc [] = Ok (SClosed acc' pc rest) /\ rev' pc <> [] /\
    pl (step_state st Normal (Some (mk_tok KString (rev' acc') sl sc [d] None (rev_append ext (rev' pc)))) (rev' pc)) rest = Ok st1.
Proof.
  intros E H Hf. rewrite pl_step, E in H. cbn [process_token] in H.
  destruct r as [|x r']; [cbn [is_nil] in H; inversion H; subst; congruence|].
  destruct (scan_string (length (x :: r')) d (x :: r') acc []) as [[acc' pc rest|acc' pc]|e] eqn:X; [| |discriminate].
  - exists acc', pc, rest. destruct (is_nil (rev' pc)) eqn:N; [cbn [is_nil] in H; discriminate|].
    split; [reflexivity|]. split; [|exact H]. intros E0. rewrite E0 in N. discriminate.
  - exfalso. destruct (is_nil (rev' pc)); [cbn [is_nil] in H; discriminate|].
    rewrite pl_nil in H. inversion H; subst st1. rewrite step_state_state in Hf. discriminate.
Qed.

(* the two texts after a token: equal, or equal up to and including a quote byte *)
Definition Sim (y y' : list Z) : Prop :=
  y = y' \/ exists p q b b', isq q /\ y = p ++ q :: b /\ y' = p ++ q :: b'.

Lemma Sim_refl y : Sim y y.
Proof. left. reflexivity. Qed.

Lemma Sim_app x y y' : Sim y y' -> Sim (x ++ y) (x ++ y').
Proof.
  intros [->|(p & q & b & b' & Hq & -> & ->)]; [left; reflexivity|].
  right. exists (x ++ p), q, b, b'. rewrite <- !app_assoc. auto.
Qed.

Lemma Sim_quote q raw raw' : isq q -> Sim (q :: raw) (q :: raw').
Proof. intros Hq. right. exists [], q, raw, raw'. auto. Qed.

Lemma first_matcher_kind s k a r : first_matcher token_matchers s = Some (k, a, r) -> k <> KString.
Proof.
  assert (T : forallb (fun mk => negb (kind_code (snd mk) =? 3)) token_matchers = true) by (vm_compute; reflexivity).
  revert T. generalize token_matchers. intros tbl. induction tbl as [|[m k0] tbl IH]; intros T E; [discriminate|].
  cbn [forallb] in T. apply andb_true_iff in T. destruct T as [T1 T2]. cbn [first_matcher] in E.
  destruct (run_matcher m s) as [[x y]|].
  - inversion E; subst. cbn [snd] in T1. intros ->. discriminate.
  - apply (IH T2 E).
Qed.

Lemma normal_tok l c c0 r kd a rest :
  drop_prefix [45; 45; 91; 91] (c0 :: r) = None -> match_long_open (c0 :: r) = None ->
  (c0 =? 39) || (c0 =? 34) = false -> first_matcher token_matchers (c0 :: r) = Some (kd, a, rest) ->
  process_token Normal l c (c0 :: r) = Ok (Some (Normal, Some (mk_tok kd a l c [] None a), a, rest)).
Proof. intros H1 H2 H3 H4. cbn [process_token]. rewrite H1, H2, H3, H4. reflexivity. Qed.

Lemma normal_sim a rest rest' kd : Sim rest rest' ->
  drop_prefix [45; 45; 91; 91] (a ++ rest) = None -> match_long_open (a ++ rest) = None ->
  first_matcher token_matchers (a ++ rest) = Some (kd, a, rest) ->
  drop_prefix [45; 45; 91; 91] (a ++ rest') = None /\ match_long_open (a ++ rest') = None /\
  first_matcher token_matchers (a ++ rest') = Some (kd, a, rest').
Proof.
  intros [->|(p & q & b & b' & Hq & -> & ->)] H1 H2 H3; [auto|].
  assert (E : forall x, a ++ p ++ q :: x = (a ++ p ++ [q]) ++ x) by (intros x; rewrite <- !app_assoc; reflexivity).
  assert (E2 : forall x, p ++ q :: x = (p ++ [q]) ++ x) by (intros x; rewrite <- !app_assoc; reflexivity).
  assert (He : ends_k q (a ++ p ++ [q])) by (exists (a ++ p); rewrite app_assoc; reflexivity).
  assert (Hq' := Hq). unfold isq in Hq'.
  rewrite (E b) in H1, H2, H3. rewrite (E b'). split; [|split].
  - assert (N : ~ In q (removelast [45; 45; 91; 91])) by (cbn; intros [H|[H|[H|[]]]]; lia).
    rewrite (dp_k q _ _ b N He) in H1. rewrite (dp_k q _ _ b' N He).
    destruct (drop_prefix [45; 45; 91; 91] (a ++ p ++ [q])); [discriminate | reflexivity].
  - rewrite (match_long_open_k q _ b Hq He) in H2. rewrite (match_long_open_k q _ b' Hq He).
    destruct (match_long_open (a ++ p ++ [q])) as [[e y]|]; [discriminate | reflexivity].
  - destruct (first_matcher_stab q token_matchers Hq (table_q_free_k q Hq) _ b b' He) as [_ S2].
    rewrite (E2 b) in H3. rewrite (E2 b'). apply S2; [destruct p; discriminate | exact H3].
Qed.

Ltac norm_app := repeat (progress cbn [app] || rewrite <- app_assoc).

Definition CodeRel (t : tok) : Prop :=
  tok_code t = t_ext t \/ exists q raw raw', isq q /\ t_ext t = q :: raw /\ tok_code t = q :: raw'.

(* the first token of a successful run from the Normal state, and its stability *)
Lemma first_stable st s st1 : l_state st = Normal -> s <> [] -> pl st s = Ok st1 -> l_state st1 = Normal ->
  exists t rest stm, s = t_ext t ++ rest /\ t_ext t <> [] /\ emit st t stm /\ pl stm rest = Ok st1 /\ CodeRel t /\
    forall rest', Sim rest rest' -> forall st2, l_state st2 = Normal ->
      exists t' stm', emit st2 t' stm' /\ tok_code t' = tok_code t /\ pl st2 (tok_code t ++ rest') = pl stm' rest'.
Proof.
  intros Hn Hs H Hf. rewrite pl_step, Hn in H. cbn [process_token] in H.
  destruct (drop_prefix [45; 45; 91; 91] s) as [r0|] eqn:D4.
  { (* block comment *)
    apply drop_prefix_split in D4. cbn [is_nil] in H.
    apply pl_comment_inv with (acc := [91; 91; 45; 45]) (sl := l_line st) (sc := l_col st) in H; [|apply step_state_state | exact Hf].
    destruct H as (a & rest & F & Ha & Hpl). cbn [rev_append] in Hpl.
    pose proof (find_rbrackets_split _ _ _ F) as Sp.
    match type of Hpl with pl (step_state ?s0 Normal (Some ?t) ?p) _ = _ => exists t, rest, (step_state s0 Normal (Some t) p) end.
    split; [rewrite D4, Sp; reflexivity|]. split; [discriminate|]. split; [apply emit_two|]. split; [exact Hpl|].
    split; [left; reflexivity|].
    intros rest' _ st2 Hn2. cbn [tok_code t_kind t_data app].
    exists (mk_tok KComment (45 :: 45 :: 91 :: 91 :: a) (l_line st2) (l_col st2) [] None (45 :: 45 :: 91 :: 91 :: a)).
    eexists. split; [apply emit_two|]. split; [|apply pl_two with (p1 := [45; 45; 91; 91]) (r1 := a ++ rest')].
    - reflexivity.
    - exact Hn2.
    - reflexivity.
    - discriminate.
    - intros l1 c1. cbn [process_token]. rewrite (find_rbrackets_replace _ _ _ F rest'). cbn [rev_append]. reflexivity.
    - exact Ha. }
  destruct (match_long_open s) as [[eqs r1]|] eqn:MLO.
  { (* long string *)
    cbn [is_nil] in H.
    eapply pl_long_inv in H; [|apply step_state_state | exact Hf].
    destruct H as (a & rest & F & Hpl). cbn [rev_append] in Hpl.
    pose proof (match_long_open_split _ _ _ MLO) as Sp. pose proof (find_long_close_split _ _ _ _ F) as Sp2.
    pose proof (mlo_eqs _ _ _ MLO) as He.
    match type of Hpl with pl (step_state ?s0 Normal (Some ?t) ?p) _ = _ => exists t, rest, (step_state s0 Normal (Some t) p) end.
    assert (Ex : rev_append (rev' (91 :: eqs ++ [91])) (a ++ 93 :: eqs ++ [93]) = 91 :: eqs ++ 91 :: a ++ 93 :: eqs ++ [93]).
    { rewrite rev_append_rev, rev'_eq, rev_involutive. cbn [app]. rewrite <- app_assoc. reflexivity. }
    split; [cbn [t_ext]; rewrite Ex, Sp, Sp2; norm_app; reflexivity|].
    split; [cbn [t_ext]; rewrite Ex; discriminate|]. split; [apply emit_two|]. split; [exact Hpl|].
    split; [left; cbn [tok_code t_kind t_ml t_data t_ext]; rewrite Ex; reflexivity|].
    intros rest' _ st2 Hn2. cbn [tok_code t_kind t_ml t_data].
    replace ((91 :: eqs ++ 91 :: a ++ 93 :: eqs ++ [93]) ++ rest') with (91 :: eqs ++ 91 :: a ++ (93 :: eqs ++ [93]) ++ rest')
      by (norm_app; reflexivity).
    exists (mk_tok KString a (l_line st2) (l_col st2) [] (Some eqs) (rev_append (rev' (91 :: eqs ++ [91])) (a ++ 93 :: eqs ++ [93]))).
    eexists. split; [apply emit_two|].
    split; [|apply pl_two with (p1 := 91 :: eqs ++ [91]) (r1 := a ++ (93 :: eqs ++ [93]) ++ rest')].
    - reflexivity.
    - exact Hn2.
    - cbn [process_token]. rewrite (drop4_ne 91 _ ltac:(lia)), (mlo_build eqs _ He). reflexivity.
    - discriminate.
    - intros l1 c1. cbn [process_token]. rewrite (find_long_close_replace _ _ _ _ F rest'). reflexivity.
    - destruct a; discriminate. }
  destruct s as [|c0 r]; [congruence|].
  destruct ((c0 =? 39) || (c0 =? 34)) eqn:Cq.
  { (* quoted string *)
    cbn [is_nil] in H. assert (Hq : isq c0) by (unfold isq; lia).
    eapply pl_string_inv in H; [|apply step_state_state | exact Hf].
    destruct H as (acc' & pc & rest & X & Np & Hpl). cbn [rev_append] in Hpl.
    pose proof (scan_string_split _ _ _ _ _ _ X) as Sp. cbn [rev app sscan_piece_rev sscan_rest] in Sp.
    match type of Hpl with pl (step_state ?s0 Normal (Some ?t) ?p) _ = _ => exists t, rest, (step_state s0 Normal (Some t) p) end.
    split; [cbn [t_ext app]; rewrite rev'_eq, Sp; reflexivity|]. split; [discriminate|]. split; [apply emit_two|].
    split; [exact Hpl|].
    split; [right; exists c0, (rev' pc), (escape_bytes [c0] (rev' acc') ++ [c0]); split; [exact Hq | split; reflexivity]|].
    intros rest' _ st2 Hn2. cbn [tok_code t_kind t_ml t_data t_quote]. unfold reencode.
    set (v := rev' acc'). set (body := escape_bytes [c0] v).
    replace (([c0] ++ body ++ [c0]) ++ rest') with (c0 :: body ++ c0 :: rest') by (cbn [app]; rewrite <- app_assoc; reflexivity).
    assert (Hq' := Hq). unfold isq in Hq'.
    assert (R1 : rev' (rev v ++ []) = v) by (rewrite app_nil_r, rev'_eq, rev_involutive; reflexivity).
    assert (R2 : rev' (rev (body ++ [c0]) ++ []) = body ++ [c0]) by (rewrite app_nil_r, rev'_eq, rev_involutive; reflexivity).
    exists (mk_tok KString (rev' (rev v ++ [])) (l_line st2) (l_col st2) [c0] None (rev_append [c0] (rev' (rev (body ++ [c0]) ++ [])))).
    eexists. split; [apply emit_two|].
    split; [|apply pl_two with (p1 := [c0]) (r1 := body ++ c0 :: rest')].
    - cbn [tok_code t_kind t_ml t_data t_quote]. rewrite R1. reflexivity.
    - exact Hn2.
    - cbn [process_token]. rewrite (drop4_ne c0 _ ltac:(lia)), (long_open_ne c0 _ ltac:(lia)), Cq. reflexivity.
    - discriminate.
    - intros l1 c1. destruct (body ++ c0 :: rest') as [|z zs] eqn:EB; [destruct body; discriminate|].
      cbn [process_token]. rewrite <- EB. rewrite (escape_scan c0 Hq v); [reflexivity|]. rewrite app_length. cbn [length]. fold body. lia.
    - fold body. rewrite R2. destruct body; discriminate. }
  (* a row of the matcher table *)
  destruct (first_matcher token_matchers (c0 :: r)) as [[[kd a] rest]|] eqn:FM; [|discriminate].
  destruct (is_nil a) eqn:Na; [discriminate|]. assert (Ha : a <> []) by (intros ->; discriminate).
  pose proof (first_matcher_split _ _ _ _ _ FM) as Sp. pose proof (first_matcher_kind _ _ _ _ FM) as Hk.
  match type of H with pl (step_state ?s0 Normal (Some ?t) ?p) _ = _ => exists t, rest, (step_state s0 Normal (Some t) p) end.
  assert (Hc : tok_code (mk_tok kd a (l_line st) (l_col st) [] None a) = a) by (unfold tok_code; cbn [t_kind t_data]; destruct kd; congruence).
  split; [exact Sp|]. split; [exact Ha|]. split; [apply emit_one|]. split; [exact H|]. split; [left; exact Hc|].
  intros rest' HS st2 Hn2. rewrite Hc.
  rewrite Sp in D4, MLO, FM. destruct (normal_sim a rest rest' kd HS D4 MLO FM) as (D4' & MLO' & FM').
  destruct a as [|a0 a']; [congruence|]. cbn [app] in *. inversion Sp; subst a0.
  exists (mk_tok kd (c0 :: a') (l_line st2) (l_col st2) [] None (c0 :: a')). eexists. split; [apply emit_one|].
  split; [|apply pl_one].
  - unfold tok_code; cbn [t_kind t_data]; destruct kd; congruence.
  - exact Hn2.
  - apply normal_tok; assumption.
  - discriminate.
Qed.

(* ====================================================================== part 5: the whole run *)
(* positions and the tokens emitted before differ between the two runs: the start states are arbitrary Normal states *)
Lemma relex_gen n : forall s st st1, (length s <= n)%nat -> l_state st = Normal -> pl st s = Ok st1 -> l_state st1 = Normal ->
  exists ts, l_toks_rev st1 = rev ts ++ l_toks_rev st /\ Sim s (concat (map tok_code ts)) /\
    forall st2, l_state st2 = Normal ->
      exists st3 ts', pl st2 (concat (map tok_code ts)) = Ok st3 /\ l_state st3 = Normal /\
        l_toks_rev st3 = rev ts' ++ l_toks_rev st2 /\ map tok_code ts' = map tok_code ts.
Proof.
  assert (Nil : forall st st1, pl st [] = Ok st1 ->
    exists ts, l_toks_rev st1 = rev ts ++ l_toks_rev st /\ Sim [] (concat (map tok_code ts)) /\
      forall st2, l_state st2 = Normal ->
        exists st3 ts', pl st2 (concat (map tok_code ts)) = Ok st3 /\ l_state st3 = Normal /\
          l_toks_rev st3 = rev ts' ++ l_toks_rev st2 /\ map tok_code ts' = map tok_code ts).
  { intros st st1 H. rewrite pl_nil in H. inversion H; subst st1. exists []. split; [reflexivity|]. split; [apply Sim_refl|].
    intros st2 Hn2. exists st2, []. cbn [map concat]. rewrite pl_nil. auto. }
  induction n as [|n IH]; intros s st st1 Hl Hn H Hf.
  { destruct s; [apply Nil; exact H | cbn in Hl; lia]. }
  destruct s as [|x s']; [apply Nil; exact H|].
  destruct (first_stable st (x :: s') st1 Hn ltac:(discriminate) H Hf)
    as (t & rest & stm & Sp & Hne & [Em1 Em2] & Hpl & CR & Hstab).
  assert (Lr : (length rest <= n)%nat).
  { pose proof (ne_length _ Hne). assert (length (x :: s') = (length (t_ext t) + length rest)%nat) by (rewrite Sp; apply app_length). lia. }
  destruct (IH rest stm st1 Lr Em1 Hpl Hf) as (ts_r & T1 & S1 & R1).
  exists (t :: ts_r). split; [|split].
  - rewrite T1, Em2. cbn [rev]. rewrite <- app_assoc. reflexivity.
  - cbn [map concat]. rewrite Sp. destruct CR as [E|(q & raw & raw' & Hq & E1 & E2)].
    + rewrite E. apply Sim_app. exact S1.
    + rewrite E1, E2. cbn [app]. apply Sim_quote. exact Hq.
  - intros st2 Hn2. destruct (Hstab _ S1 st2 Hn2) as (t' & stm' & [Em1' Em2'] & Hc & Hp).
    destruct (R1 stm' Em1') as (st3 & ts' & P & N3 & T3 & M).
    exists st3, (t' :: ts'). cbn [map concat]. rewrite Hp, P. split; [reflexivity|]. split; [exact N3|]. split.
    + rewrite T3, Em2'. cbn [rev]. rewrite <- app_assoc. reflexivity.
    + rewrite Hc, M. reflexivity.
Qed.

(* the text written by the echo writer lexes again (one chunk) to tokens with exactly the same codes: every input *)
Theorem relex_stable : forall s ts, model_lex [s] = Ok ts ->
  exists ts', model_lex [concat (map tok_code ts)] = Ok ts' /\ map tok_code ts' = map tok_code ts.
Proof.
  intros s ts. unfold model_lex. rewrite !process_chunks_one.
  destruct (pl init_lexst s) as [st1|e] eqn:P; [|discriminate].
  destruct (l_state st1) eqn:E; try discriminate. intros H; inversion H; subst ts. clear H.
  destruct (relex_gen (length s) s init_lexst st1 (le_n _) eq_refl P E) as (ts0 & T & _ & R).
  cbn [init_lexst l_toks_rev] in T. rewrite app_nil_r in T. rewrite T, rev'_eq, rev_involutive.
  destruct (R init_lexst eq_refl) as (st3 & ts' & P3 & N3 & T3 & M).
  exists ts'. rewrite P3, N3, T3. cbn [init_lexst l_toks_rev]. rewrite app_nil_r, rev'_eq, rev_involutive. auto.
Qed.
Print Assumptions relex_stable.

(* the same on the writer's output: the echoed text is a fixed point of lex-and-echo *)
Corollary echo_fixed_point : forall s lines, echo_source [s] = Ok lines ->
  exists lines', echo_source [concat lines] = Ok lines' /\ concat lines' = concat lines.
Proof.
  intros s lines. unfold echo_source. destruct (model_lex [s]) as [ts|e] eqn:L; [|discriminate].
  intros H; inversion H; subst lines. rewrite echo_concat.
  destruct (relex_stable s ts L) as (ts' & L' & M). rewrite L'. exists (echo ts'). split; [reflexivity|].
  rewrite !echo_concat, M. reflexivity.
Qed.
Print Assumptions echo_fixed_point.

(* non-vacuity: a source (a name, =, a double-quoted string with the escapes \\01 and \\0009, a single-quoted string with an
   escaped quote, a blank, a line comment containing a quote byte) whose written text differs from it and still lexes to the same codes *)
Example relex_example :
  let s := [120; 61; 34; 97; 92; 48; 49; 92; 48; 48; 48; 57; 34; 39; 92; 39; 39; 32; 45; 45; 34; 99; 10] in
  match model_lex [s] with
  | Ok ts =>
    negb (zlist_eqb (concat (map tok_code ts)) s) &&
    match model_lex [concat (map tok_code ts)] with
    | Ok ts' => zlist_eqb (concat (map tok_code ts')) (concat (map tok_code ts)) && (length ts' =? length ts)%nat
    | Err _ => false
    end
  | Err _ => false
  end = true.
Proof. vm_compute. reflexivity. Qed.
