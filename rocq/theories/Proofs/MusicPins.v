(* Source pins of pico8/music/music.py: the music section.
   WRITTEN BY gen/mkpins.py (developer step) from the sources the hand-written model was compared with;
   each lemma fails when the function it names has been edited since (digest of ast.unparse, docstrings
   dropped; regenerated on every run into Generated/T_pins_music.v). *)
From Coq Require Import ZArith List.
Import ListNotations.
Open Scope Z_scope.
From PV Require Import Generated.T_pins_music.

Lemma pin__Music__empty_ok : pin__Music__empty = [139; 145; 96; 87; 27; 29; 52; 35].
Proof. reflexivity. Qed.
Lemma pin__Music__from_lines_ok : pin__Music__from_lines = [175; 185; 121; 75; 247; 79; 97; 171].
Proof. reflexivity. Qed.
Lemma pin__Music__to_lines_ok : pin__Music__to_lines = [152; 193; 161; 42; 37; 128; 65; 189].
Proof. reflexivity. Qed.
Lemma pin__Music__get_channel_ok : pin__Music__get_channel = [142; 123; 217; 208; 155; 19; 137; 209].
Proof. reflexivity. Qed.
Lemma pin__Music__set_channel_ok : pin__Music__set_channel = [55; 86; 221; 80; 86; 233; 69; 93].
Proof. reflexivity. Qed.
Lemma pin__Music__get_properties_ok : pin__Music__get_properties = [147; 186; 227; 32; 68; 57; 203; 80].
Proof. reflexivity. Qed.
Lemma pin__Music__set_properties_ok : pin__Music__set_properties = [41; 34; 106; 224; 87; 249; 244; 35].
Proof. reflexivity. Qed.

(* no function was added to or removed from the pinned classes *)
Lemma pin_names__music_ok : pin_names__music =
  [[112; 105; 110; 95; 95; 77; 117; 115; 105; 99; 95; 95; 101; 109; 112; 116; 121]; [112; 105; 110; 95; 95; 77; 117; 115; 105; 99; 95; 95; 102; 114; 111; 109; 95; 108; 105; 110; 101; 115]; [112; 105; 110; 95; 95; 77; 117; 115; 105; 99; 95; 95; 116; 111; 95; 108; 105; 110; 101; 115]; [112; 105; 110; 95; 95; 77; 117; 115; 105; 99; 95; 95; 103; 101; 116; 95; 99; 104; 97; 110; 110; 101; 108]; [112; 105; 110; 95; 95; 77; 117; 115; 105; 99; 95; 95; 115; 101; 116; 95; 99; 104; 97; 110; 110; 101; 108]; [112; 105; 110; 95; 95; 77; 117; 115; 105; 99; 95; 95; 103; 101; 116; 95; 112; 114; 111; 112; 101; 114; 116; 105; 101; 115]; [112; 105; 110; 95; 95; 77; 117; 115; 105; 99; 95; 95; 115; 101; 116; 95; 112; 114; 111; 112; 101; 114; 116; 105; 101; 115]].
Proof. reflexivity. Qed.
