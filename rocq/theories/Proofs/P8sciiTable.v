(* The decidable side conditions of the P8SCII theory, recomputed by vm_compute on the tables
   regenerated from lua.py on every run, and the instance-level corollaries other proofs use. *)
From PV Require Import Base.Prelude Base.Utf8 Generated.T_p8scii Model.P8scii Model.P8sciiInst Proofs.P8sciiProofs.

Lemma table_ok_now : P8scii.table_ok p8scii_charset u2p_items width_items = true.
Proof. vm_compute. reflexivity. Qed.
Lemma scalars_ok_now : scalars_ok p8scii_charset = true.
Proof. vm_compute. reflexivity. Qed.
Lemma prefix_free_now : P8scii.prefix_free p8scii_charset = true.
Proof. vm_compute. reflexivity. Qed.

Lemma p8_u2p_p2u bs : Forall byte bs -> p8_u2p (p8_p2u bs) = Ok bs.
Proof. exact (fun H => u2p_p2u _ _ _ bs table_ok_now H). Qed.
Lemma p8_p2u_valid bs : Forall byte bs -> Forall valid_scalar (p8_p2u bs).
Proof. exact (fun H => p2u_valid _ bs scalars_ok_now H). Qed.
