From PV Require Import Base.Prelude Base.ListX Base.PySlice Base.Hex Model.HexSection Model.Gfx Model.Gff
  Model.Music Generated.K_music Spec.P8Format Proofs.HexSectionProofs Proofs.RowLemmas.
From Coq Require Import ZifyBool.
Ltac Zify.zify_post_hook ::= Z.to_euclidean_division_equations.

(* bit facts on bytes, by sweep *)
Definition byte_bit_facts (b : Z) : bool :=
  (Z.shiftr (Z.land b 128) 7 =? b / 128) && (Z.land b 127 =? b mod 128) &&
  (Z.lor (b mod 128) (Z.shiftl (b / 128) 7) =? b) && (Z.lor (b mod 128) (Z.shiftl 0 7) =? b mod 128).
Lemma byte_bit_facts_all : forallb byte_bit_facts (upto 256) = true.
Proof. vm_compute. reflexivity. Qed.
Lemma byte_bits b : byte b ->
  Z.shiftr (Z.land b 128) 7 = b / 128 /\ Z.land b 127 = b mod 128 /\
  Z.lor (b mod 128) (Z.shiftl (b / 128) 7) = b.
Proof.
  intros Hb. pose proof (sweep_byte _ byte_bit_facts_all b Hb) as H. unfold byte_bit_facts in H. lia.
Qed.

Definition flag_facts (f : Z) : bool :=
  let x := f / 4 in let y := (f / 2) mod 2 in let z := f mod 2 in
  (mus_tl_flags x y z =? z + 2 * y + 4 * x) &&
  (mus_fl_fstop f =? x) && (mus_fl_frepeat f =? y) && (mus_fl_fnext f =? z).
Lemma flag_facts_all : forallb flag_facts (upto 8) = true.
Proof. vm_compute. reflexivity. Qed.
Lemma flags_spec x y z : 0 <= x <= 1 -> 0 <= y <= 1 -> 0 <= z <= 1 ->
  let f := z + 2 * y + 4 * x in
  mus_tl_flags x y z = f /\ mus_fl_fstop f = x /\ mus_fl_frepeat f = y /\ mus_fl_fnext f = z.
Proof.
  intros Hx Hy Hz f.
  assert (Hf : 0 <= f < 8) by (subst f; lia).
  pose proof (sweep_upto _ 8 flag_facts_all f Hf) as H. unfold flag_facts in H. cbv zeta in H.
  replace (f / 4) with x in H by (subst f; lia).
  replace ((f / 2) mod 2) with y in H by (subst f; lia).
  replace (f mod 2) with z in H by (subst f; lia).
  lia.
Qed.

Lemma mk_bytes_ok l : Forall byte l -> mk_bytes l = Ok l.
Proof. intros H. unfold mk_bytes. apply all_bytes_Forall in H. rewrite H. reflexivity. Qed.

(* ---- writing one pattern ---- *)
Lemma music_line_row d s b0 b1 b2 b3 :
  byte b0 -> byte b1 -> byte b2 -> byte b3 ->
  py_get d s = Ok b0 -> py_get d (s + 1) = Ok b1 -> py_get d (s + 2) = Ok b2 -> py_get d (s + 3) = Ok b3 ->
  music_line d s = Ok (spec_music_row [b0; b1; b2; b3]).
Proof.
  intros H0 H1 H2 H3 G0 G1 G2 G3. unfold music_line.
  rewrite G2, G1, G0, G3. cbn [bind].
  unfold mus_tl_fstop, mus_tl_frepeat, mus_tl_fnext, mus_tl_chan1, mus_tl_chan2, mus_tl_chan3, mus_tl_chan4.
  rewrite (py_get_ok_arr _ _ _ G0), (py_get_ok_arr _ _ _ G1), (py_get_ok_arr _ _ _ G2), (py_get_ok_arr _ _ _ G3).
  destruct (byte_bits b0 H0) as (A0 & B0 & _). destruct (byte_bits b1 H1) as (A1 & B1 & _).
  destruct (byte_bits b2 H2) as (A2 & B2 & _). destruct (byte_bits b3 H3) as (_ & B3 & _).
  rewrite A0, A1, A2, B0, B1, B2, B3.
  unfold byte in *.
  destruct (flags_spec (b2 / 128) (b1 / 128) (b0 / 128)) as (F & _); try lia.
  rewrite F.
  rewrite mk_bytes_ok by (repeat constructor; unfold byte; lia). cbn [bind].
  rewrite mk_bytes_ok by (repeat constructor; unfold byte; lia). cbn [bind].
  unfold spec_music_row, bit7, nl. rewrite !to_hex_spec. cbn [flat_map app]. reflexivity.
Qed.

Lemma music_to_lines_rows rows :
  Forall (fun r => zlen r = 4) rows -> Forall (Forall byte) rows ->
  music_to_lines (concat rows) = Ok (map spec_music_row rows).
Proof.
  intros HL HB. unfold music_to_lines.
  rewrite (zlen_concat_rows 4 rows HL).
  replace ((zlen rows * 4 + 3) / 4) with (zlen rows) by lia.
  apply mapM_upto_rows. intros i r Hi.
  assert (Hr : zlen r = 4) by (rewrite Forall_forall in HL; apply HL; eapply nth_error_In; exact Hi).
  assert (Hb : Forall byte r) by (rewrite Forall_forall in HB; apply HB; eapply nth_error_In; exact Hi).
  destruct r as [|b0 [|b1 [|b2 [|b3 [|x r]]]]]; try (unfold zlen in Hr; cbn in Hr; lia).
  inversion Hb as [|? ? Hb0 Hb']; subst. inversion Hb' as [|? ? Hb1 Hb'']; subst.
  inversion Hb'' as [|? ? Hb2 Hb''']; subst. inversion Hb''' as [|? ? Hb3 _]; subst.
  pose proof (py_get_concat_rows 4 rows ltac:(lia) HL i) as G.
  apply music_line_row; try assumption.
  - replace (4 * Z.of_nat i) with (Z.of_nat i * 4 + 0) by lia. rewrite (G 0 _ Hi) by lia. reflexivity.
  - replace (4 * Z.of_nat i + 1) with (Z.of_nat i * 4 + 1) by lia. rewrite (G 1 _ Hi) by lia. reflexivity.
  - replace (4 * Z.of_nat i + 2) with (Z.of_nat i * 4 + 2) by lia. rewrite (G 2 _ Hi) by lia. reflexivity.
  - replace (4 * Z.of_nat i + 3) with (Z.of_nat i * 4 + 3) by lia. rewrite (G 3 _ Hi) by lia. reflexivity.
Qed.

(* ---- reading one pattern back ---- *)
Lemma hexd_not_space_or_32 n : 0 <= n < 16 -> (hexd n =? 32) = false.
Proof. intros H. unfold hexd. destruct (n <? 10); lia. Qed.

Lemma hexfield_hexbyte v : byte v -> hexfield (hexbyte v) = Ok [v].
Proof.
  intros Hv.
  assert (E : hexbyte v = to_hex [v]).
  { rewrite <- hex2_hexbyte. cbn [to_hex flat_map]. rewrite app_nil_r. reflexivity. }
  assert (Hl : Forall byte [v]) by (constructor; [exact Hv | constructor]).
  rewrite E. unfold hexfield, to_ascii. rewrite ascii_ok_hex by exact Hl. cbn [bind].
  apply fromhex_to_hex. exact Hl.
Qed.

Definition nosep (l : list Z) : Prop := Forall (fun c => (c =? 32) = false) l.

Lemma split_on_nosep l : forall cur, nosep l -> split_on 32 cur l = [rev cur ++ l].
Proof.
  induction l as [|c l IH]; intros cur H.
  - cbn. rewrite app_nil_r. reflexivity.
  - inversion H as [|c' l' Hc Hl]; subst. cbn [split_on]. rewrite Hc, IH by exact Hl.
    cbn [rev]. rewrite <- app_assoc. reflexivity.
Qed.

Lemma split_on_one a : forall cur b, nosep a -> nosep b ->
  split_on 32 cur (a ++ 32 :: b) = [rev cur ++ a; b].
Proof.
  induction a as [|c a IH]; intros cur b Ha Hb.
  - cbn [app split_on]. rewrite Z.eqb_refl, split_on_nosep by exact Hb. rewrite app_nil_r. reflexivity.
  - inversion Ha as [|c' a' Hc Ha']; subst. cbn [app split_on]. rewrite Hc, IH by assumption.
    cbn [rev]. rewrite <- app_assoc. reflexivity.
Qed.

Lemma nosep_hexbyte v : byte v -> nosep (hexbyte v).
Proof.
  intros Hv. unfold byte in Hv. unfold nosep, hexbyte.
  constructor; [apply hexd_not_space_or_32; lia|]. constructor; [apply hexd_not_space_or_32; lia|]. constructor.
Qed.

Lemma slice9 (a b c d e f g h i : Z) :
  let l := [a; b; c; d; e; f; g; h; i] in
  py_slice l 0 2 = [a; b] /\ py_slice l 2 4 = [c; d] /\ py_slice l 4 6 = [e; f] /\ py_slice l 6 8 = [g; h].
Proof. cbv zeta. repeat split; reflexivity. Qed.

Lemma slices_chan x0 x1 x2 x3 :
  let l := hexbyte x0 ++ hexbyte x1 ++ hexbyte x2 ++ hexbyte x3 ++ [nl] in
  py_slice l 0 2 = hexbyte x0 /\ py_slice l 2 4 = hexbyte x1 /\
  py_slice l 4 6 = hexbyte x2 /\ py_slice l 6 8 = hexbyte x3.
Proof. unfold hexbyte. cbn [app]. apply slice9. Qed.

Lemma music_read_line_row b0 b1 b2 b3 :
  byte b0 -> byte b1 -> byte b2 -> byte b3 ->
  music_read_line (spec_music_row [b0; b1; b2; b3]) = Ok [b0; b1; b2; b3 mod 128].
Proof.
  intros H0 H1 H2 H3.
  set (f := bit7 b0 + 2 * bit7 b1 + 4 * bit7 b2).
  assert (Hf : byte f) by (subst f; unfold bit7, byte in *; lia).
  assert (M0 : byte (b0 mod 128)) by (unfold byte in *; lia).
  assert (M1 : byte (b1 mod 128)) by (unfold byte in *; lia).
  assert (M2 : byte (b2 mod 128)) by (unfold byte in *; lia).
  assert (M3 : byte (b3 mod 128)) by (unfold byte in *; lia).
  unfold music_read_line, spec_music_row. fold f.
  change (hexbyte f ++ [32] ++ ?x) with (hexbyte f ++ 32 :: x).
  rewrite split_on_one.
  2:{ apply nosep_hexbyte. exact Hf. }
  2:{ unfold nosep. repeat (apply Forall_app; split); try (apply nosep_hexbyte; assumption).
      constructor; [reflexivity | constructor]. }
  cbn [rev app].
  rewrite hexfield_hexbyte by exact Hf. cbn [bind first_of].
  destruct (slices_chan (b0 mod 128) (b1 mod 128) (b2 mod 128) (b3 mod 128)) as (S0 & S1 & S2 & S3).
  cbv zeta in S0, S1, S2, S3.
  rewrite S0, hexfield_hexbyte by assumption. cbn [bind].
  rewrite S1, hexfield_hexbyte by assumption. cbn [bind].
  rewrite S2, hexfield_hexbyte by assumption. cbn [bind].
  rewrite S3, hexfield_hexbyte by assumption. cbn [bind first_of].
  destruct (flags_spec (bit7 b2) (bit7 b1) (bit7 b0)) as (_ & T1 & T2 & T3);
    try (unfold bit7, byte in *; lia).
  cbv zeta in T1, T2, T3. fold f in T1, T2, T3. rewrite T1, T2, T3.
  unfold mus_fl_b1, mus_fl_b2, mus_fl_b3, mus_fl_b4, arr1, bit7.
  destruct (byte_bits b0 H0) as (_ & _ & C0). destruct (byte_bits b1 H1) as (_ & _ & C1).
  destruct (byte_bits b2 H2) as (_ & _ & C2).
  rewrite C0, C1, C2.
  rewrite !mk_bytes_ok by (constructor; [assumption | constructor]). cbn [bind app]. reflexivity.
Qed.

Lemma spec_music_row_has_space r : zlen r = 4 -> has_space (spec_music_row r) = true.
Proof.
  intros Hr. destruct r as [|b0 [|b1 [|b2 [|b3 [|x r]]]]]; try (unfold zlen in Hr; cbn in Hr; lia).
  unfold spec_music_row, has_space, hexbyte. cbn [app existsb]. rewrite Z.eqb_refl, !orb_true_r. reflexivity.
Qed.

Lemma music_from_lines_rows rows :
  Forall (fun r => zlen r = 4) rows -> Forall (Forall byte) rows ->
  music_from_lines (map spec_music_row rows) = Ok (music_norm (concat rows)).
Proof.
  induction rows as [|r rows IH]; intros HL HB; [reflexivity|].
  inversion HL as [|? ? Hr HL']; subst. inversion HB as [|? ? Hb HB']; subst.
  cbn [map music_from_lines]. rewrite spec_music_row_has_space by exact Hr.
  destruct r as [|b0 [|b1 [|b2 [|b3 [|x r]]]]]; try (unfold zlen in Hr; cbn in Hr; lia).
  inversion Hb as [|? ? Hb0 Hc1]; subst. inversion Hc1 as [|? ? Hb1 Hc2]; subst.
  inversion Hc2 as [|? ? Hb2 Hc3]; subst. inversion Hc3 as [|? ? Hb3 _]; subst.
  rewrite music_read_line_row by assumption. cbn [bind]. rewrite IH by assumption.
  cbn [concat app music_norm]. reflexivity.
Qed.

(* the whole section: any region that is a whole number of 4-byte patterns (256 bytes = 64) *)
Lemma music_to_lines_spec k d : length d = (k * 4)%nat -> Forall byte d ->
  music_to_lines d = Ok (spec_music_lines d).
Proof.
  intros Hk Hd. unfold spec_music_lines. rewrite rows_of_chunks.
  destruct (chunks_len 4 k d ltac:(lia) Hk) as [F _].
  rewrite <- (chunks_concat 4 d) at 1 by lia.
  apply music_to_lines_rows.
  - eapply Forall_impl; [|exact F]. cbv beta. intros a Ha. unfold zlen. lia.
  - apply chunks_bytes. exact Hd.
Qed.

Lemma music_roundtrip k d : length d = (k * 4)%nat -> Forall byte d ->
  music_from_lines (spec_music_lines d) = Ok (music_norm d).
Proof.
  intros Hk Hd. unfold spec_music_lines. rewrite rows_of_chunks.
  destruct (chunks_len 4 k d ltac:(lia) Hk) as [F _].
  rewrite music_from_lines_rows.
  - rewrite chunks_concat by lia. reflexivity.
  - eapply Forall_impl; [|exact F]. cbv beta. intros a Ha. unfold zlen. lia.
  - apply chunks_bytes. exact Hd.
Qed.
