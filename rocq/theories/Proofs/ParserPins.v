(* Source pins of pico8/lua/parser.py: the parser (Model/Parser.v).
   WRITTEN BY gen/mkpins.py (developer step) from the sources the hand-written model was compared with;
   each lemma fails when the function it names has been edited since (digest of ast.unparse, docstrings
   dropped; regenerated on every run into Generated/T_pins_parser.v). *)
From Coq Require Import ZArith List.
Import ListNotations.
Open Scope Z_scope.
From PV Require Import Generated.T_pins_parser.

Lemma pin__ParserError____init___ok : pin__ParserError____init__ = [165; 65; 103; 130; 67; 120; 146; 161].
Proof. reflexivity. Qed.
Lemma pin__Node__start_pos_ok : pin__Node__start_pos = [28; 133; 54; 28; 254; 4; 191; 158].
Proof. reflexivity. Qed.
Lemma pin__Node__end_pos_ok : pin__Node__end_pos = [73; 3; 232; 114; 222; 140; 174; 193].
Proof. reflexivity. Qed.
Lemma pin__Parser____init___ok : pin__Parser____init__ = [174; 252; 89; 78; 37; 104; 221; 149].
Proof. reflexivity. Qed.
Lemma pin__Parser___peek_ok : pin__Parser___peek = [197; 11; 165; 215; 127; 130; 187; 169].
Proof. reflexivity. Qed.
Lemma pin__Parser___accept_ok : pin__Parser___accept = [171; 83; 89; 35; 129; 252; 47; 219].
Proof. reflexivity. Qed.
Lemma pin__Parser___expect_ok : pin__Parser___expect = [63; 239; 13; 181; 194; 95; 244; 147].
Proof. reflexivity. Qed.
Lemma pin__Parser___assert_ok : pin__Parser___assert = [249; 25; 247; 217; 71; 44; 10; 182].
Proof. reflexivity. Qed.
Lemma pin__Parser___chunk_ok : pin__Parser___chunk = [240; 194; 74; 122; 132; 96; 47; 57].
Proof. reflexivity. Qed.
Lemma pin__Parser___stat_ok : pin__Parser___stat = [150; 71; 136; 8; 159; 78; 17; 191].
Proof. reflexivity. Qed.
Lemma pin__Parser___laststat_ok : pin__Parser___laststat = [191; 251; 213; 148; 185; 95; 141; 65].
Proof. reflexivity. Qed.
Lemma pin__Parser___funcname_ok : pin__Parser___funcname = [174; 71; 171; 147; 225; 254; 191; 135].
Proof. reflexivity. Qed.
Lemma pin__Parser___varlist_ok : pin__Parser___varlist = [218; 114; 167; 147; 23; 84; 54; 253].
Proof. reflexivity. Qed.
Lemma pin__Parser___var_ok : pin__Parser___var = [231; 34; 40; 88; 86; 235; 212; 149].
Proof. reflexivity. Qed.
Lemma pin__Parser___namelist_ok : pin__Parser___namelist = [87; 224; 224; 89; 180; 218; 170; 207].
Proof. reflexivity. Qed.
Lemma pin__Parser___explist_ok : pin__Parser___explist = [44; 21; 71; 94; 254; 21; 218; 116].
Proof. reflexivity. Qed.
Lemma pin__Parser___exp_ok : pin__Parser___exp = [40; 189; 139; 86; 44; 90; 130; 50].
Proof. reflexivity. Qed.
Lemma pin__Parser___exp_binop_ok : pin__Parser___exp_binop = [123; 237; 178; 229; 42; 112; 213; 5].
Proof. reflexivity. Qed.
Lemma pin__Parser___exp_term_ok : pin__Parser___exp_term = [253; 175; 26; 161; 145; 82; 134; 144].
Proof. reflexivity. Qed.
Lemma pin__Parser___prefixexp_ok : pin__Parser___prefixexp = [11; 201; 227; 102; 73; 174; 171; 179].
Proof. reflexivity. Qed.
Lemma pin__Parser___prefixexp_recur_ok : pin__Parser___prefixexp_recur = [30; 119; 127; 162; 4; 175; 228; 154].
Proof. reflexivity. Qed.
Lemma pin__Parser___functioncall_ok : pin__Parser___functioncall = [33; 113; 106; 47; 65; 254; 70; 3].
Proof. reflexivity. Qed.
Lemma pin__Parser___args_ok : pin__Parser___args = [176; 58; 190; 49; 67; 172; 106; 175].
Proof. reflexivity. Qed.
Lemma pin__Parser___function_ok : pin__Parser___function = [28; 23; 108; 102; 5; 62; 151; 197].
Proof. reflexivity. Qed.
Lemma pin__Parser___funcbody_ok : pin__Parser___funcbody = [154; 86; 106; 183; 18; 137; 50; 100].
Proof. reflexivity. Qed.
Lemma pin__Parser___tableconstructor_ok : pin__Parser___tableconstructor = [128; 62; 56; 76; 33; 189; 62; 245].
Proof. reflexivity. Qed.
Lemma pin__Parser___field_ok : pin__Parser___field = [199; 231; 40; 157; 91; 183; 194; 57].
Proof. reflexivity. Qed.
Lemma pin__Parser__process_tokens_ok : pin__Parser__process_tokens = [147; 138; 61; 4; 15; 44; 71; 29].
Proof. reflexivity. Qed.
Lemma pin__Parser__root_ok : pin__Parser__root = [203; 224; 206; 235; 104; 62; 55; 64].
Proof. reflexivity. Qed.
Lemma pin__Parser__tokens_ok : pin__Parser__tokens = [24; 15; 150; 65; 52; 194; 158; 200].
Proof. reflexivity. Qed.

(* no function was added to or removed from the pinned classes *)
Lemma pin_names__parser_ok : pin_names__parser =
  [[112; 105; 110; 95; 95; 80; 97; 114; 115; 101; 114; 69; 114; 114; 111; 114; 95; 95; 95; 95; 105; 110; 105; 116; 95; 95]; [112; 105; 110; 95; 95; 78; 111; 100; 101; 95; 95; 115; 116; 97; 114; 116; 95; 112; 111; 115]; [112; 105; 110; 95; 95; 78; 111; 100; 101; 95; 95; 101; 110; 100; 95; 112; 111; 115]; [112; 105; 110; 95; 95; 80; 97; 114; 115; 101; 114; 95; 95; 95; 95; 105; 110; 105; 116; 95; 95]; [112; 105; 110; 95; 95; 80; 97; 114; 115; 101; 114; 95; 95; 95; 112; 101; 101; 107]; [112; 105; 110; 95; 95; 80; 97; 114; 115; 101; 114; 95; 95; 95; 97; 99; 99; 101; 112; 116]; [112; 105; 110; 95; 95; 80; 97; 114; 115; 101; 114; 95; 95; 95; 101; 120; 112; 101; 99; 116]; [112; 105; 110; 95; 95; 80; 97; 114; 115; 101; 114; 95; 95; 95; 97; 115; 115; 101; 114; 116]; [112; 105; 110; 95; 95; 80; 97; 114; 115; 101; 114; 95; 95; 95; 99; 104; 117; 110; 107]; [112; 105; 110; 95; 95; 80; 97; 114; 115; 101; 114; 95; 95; 95; 115; 116; 97; 116]; [112; 105; 110; 95; 95; 80; 97; 114; 115; 101; 114; 95; 95; 95; 108; 97; 115; 116; 115; 116; 97; 116]; [112; 105; 110; 95; 95; 80; 97; 114; 115; 101; 114; 95; 95; 95; 102; 117; 110; 99; 110; 97; 109; 101]; [112; 105; 110; 95; 95; 80; 97; 114; 115; 101; 114; 95; 95; 95; 118; 97; 114; 108; 105; 115; 116]; [112; 105; 110; 95; 95; 80; 97; 114; 115; 101; 114; 95; 95; 95; 118; 97; 114]; [112; 105; 110; 95; 95; 80; 97; 114; 115; 101; 114; 95; 95; 95; 110; 97; 109; 101; 108; 105; 115; 116]; [112; 105; 110; 95; 95; 80; 97; 114; 115; 101; 114; 95; 95; 95; 101; 120; 112; 108; 105; 115; 116]; [112; 105; 110; 95; 95; 80; 97; 114; 115; 101; 114; 95; 95; 95; 101; 120; 112]; [112; 105; 110; 95; 95; 80; 97; 114; 115; 101; 114; 95; 95; 95; 101; 120; 112; 95; 98; 105; 110; 111; 112]; [112; 105; 110; 95; 95; 80; 97; 114; 115; 101; 114; 95; 95; 95; 101; 120; 112; 95; 116; 101; 114; 109]; [112; 105; 110; 95; 95; 80; 97; 114; 115; 101; 114; 95; 95; 95; 112; 114; 101; 102; 105; 120; 101; 120; 112]; [112; 105; 110; 95; 95; 80; 97; 114; 115; 101; 114; 95; 95; 95; 112; 114; 101; 102; 105; 120; 101; 120; 112; 95; 114; 101; 99; 117; 114]; [112; 105; 110; 95; 95; 80; 97; 114; 115; 101; 114; 95; 95; 95; 102; 117; 110; 99; 116; 105; 111; 110; 99; 97; 108; 108]; [112; 105; 110; 95; 95; 80; 97; 114; 115; 101; 114; 95; 95; 95; 97; 114; 103; 115]; [112; 105; 110; 95; 95; 80; 97; 114; 115; 101; 114; 95; 95; 95; 102; 117; 110; 99; 116; 105; 111; 110]; [112; 105; 110; 95; 95; 80; 97; 114; 115; 101; 114; 95; 95; 95; 102; 117; 110; 99; 98; 111; 100; 121]; [112; 105; 110; 95; 95; 80; 97; 114; 115; 101; 114; 95; 95; 95; 116; 97; 98; 108; 101; 99; 111; 110; 115; 116; 114; 117; 99; 116; 111; 114]; [112; 105; 110; 95; 95; 80; 97; 114; 115; 101; 114; 95; 95; 95; 102; 105; 101; 108; 100]; [112; 105; 110; 95; 95; 80; 97; 114; 115; 101; 114; 95; 95; 112; 114; 111; 99; 101; 115; 115; 95; 116; 111; 107; 101; 110; 115]; [112; 105; 110; 95; 95; 80; 97; 114; 115; 101; 114; 95; 95; 114; 111; 111; 116]; [112; 105; 110; 95; 95; 80; 97; 114; 115; 101; 114; 95; 95; 116; 111; 107; 101; 110; 115]].
Proof. reflexivity. Qed.
