(* Facts about the echo writer that the .p8 round trip (C03) needs: the yielded lines are never empty, the
   written text is a fixed point of lex + echo, and stays one when a final line feed is supplied. *)
From PV Require Import Base.Prelude Generated.T_lexer Model.Lexer Model.EchoWriter Proofs.LexerProofs Proofs.LexerInv
  Proofs.LexerSpec Proofs.LexerAgree Proofs.LexerChunk Proofs.EchoProofs Proofs.LexerRelex Proofs.LexerAppendLf.
From Coq Require Import ZifyBool.

(* ---------- (3) no token has an empty code, no yielded line is empty *)
Lemma process_token_ext ms l c s ms' t piece rest :
  process_token ms l c s = Ok (Some (ms', Some t, piece, rest)) -> t_ext t = pending ms ++ piece.
Proof.
  intros H. destruct ms as [|delim acc sl sc ext|acc sl sc|eqs acc sl sc ext]; cbn [process_token] in H.
  - destruct (drop_prefix [45; 45; 91; 91] s); [discriminate|].
    destruct (match_long_open s) as [[eqs r1]|]; [discriminate|].
    destruct s as [|c0 r]; [discriminate|]. destruct ((c0 =? 39) || (c0 =? 34)); [discriminate|].
    destruct (first_matcher token_matchers (c0 :: r)) as [[[k a] r']|]; [|discriminate]. inversion H; subst. reflexivity.
  - destruct s as [|c0 r0]; [discriminate|].
    destruct (scan_string (length (c0 :: r0)) delim (c0 :: r0) acc []) as [[acc' pc rest'|acc' pc]|e]; try discriminate.
    inversion H; subst. cbn [t_ext pending]. rewrite rev_append_rev. reflexivity.
  - destruct (find_rbrackets s) as [[a rest']|]; [|destruct s; discriminate].
    inversion H; subst. cbn [t_ext pending]. rewrite rev_append_rev. reflexivity.
  - destruct (find_long_close (93 :: eqs ++ [93]) s) as [[a rest']|]; [|destruct s; discriminate].
    inversion H; subst. cbn [t_ext pending]. rewrite rev_append_rev. reflexivity.
Qed.

Definition toks_ne (st : lexst) : Prop := Forall (fun t => t_ext t <> []) (l_toks_rev st).

Lemma process_line_toks_ne fuel : forall st s st', toks_ne st -> process_line fuel st s = Ok st' -> toks_ne st'.
Proof.
  induction fuel as [|f IH]; intros st s st' Hne H; [discriminate|]. rewrite process_line_S in H.
  destruct (process_token (l_state st) (l_line st) (l_col st) s) as [[[[[ms ot] piece] rest]|]|e] eqn:E; [| |discriminate].
  - destruct (is_nil piece) eqn:Np.
    + destruct (is_nil s); [|discriminate]. inversion H; subst. exact Hne.
    + destruct (advance (l_line st, l_col st) piece) as [l' c']. apply IH in H; [exact H|].
      unfold toks_ne. cbn [l_toks_rev]. destruct ot as [t|]; [|exact Hne]. constructor; [|exact Hne].
      rewrite (process_token_ext _ _ _ _ _ _ _ _ E). apply is_nil_false in Np. intros C.
      apply (f_equal (@length Z)) in C. rewrite app_length in C. cbn in C. lia.
  - destruct (is_nil s); [|discriminate]. inversion H; subst. exact Hne.
Qed.

Lemma process_chunks_toks_ne cs : forall st st', toks_ne st -> process_chunks st cs = Ok st' -> toks_ne st'.
Proof.
  induction cs as [|c cs IH]; intros st st' Hne H; cbn [process_chunks] in H; [inversion H; subst; exact Hne|].
  destruct (process_line (S (length c)) st c) as [st1|e] eqn:E; [|discriminate].
  apply (IH st1 st'); [apply (process_line_toks_ne _ _ _ _ Hne E) | exact H].
Qed.

Lemma model_lex_ext_ne chunks ts : model_lex chunks = Ok ts -> Forall (fun t => t_ext t <> []) ts.
Proof.
  unfold model_lex. destruct (process_chunks init_lexst chunks) as [st|e] eqn:E; [|discriminate].
  assert (Hi : toks_ne init_lexst) by constructor.
  pose proof (process_chunks_toks_ne _ _ _ Hi E) as HF. destruct (l_state st); try discriminate.
  intros H; inversion H; subst. rewrite rev'_eq. apply Forall_rev. exact HF.
Qed.

(* Token.code is never empty: the source extent for everything but quoted strings, quote + body + quote for those *)
Lemma model_lex_code_ne chunks ts : model_lex chunks = Ok ts -> Forall (fun t => tok_code t <> []) ts.
Proof.
  intros H. pose proof (model_lex_ext_ne _ _ H) as He. pose proof (model_lex_tok_ok _ _ H) as Hok.
  rewrite Forall_forall in *. intros t Ht. specialize (He t Ht). specialize (Hok t Ht).
  destruct (quoted_tok t) eqn:Q.
  - unfold quoted_tok in Q. unfold tok_ok in Hok. unfold tok_code.
    destruct (t_kind t); try discriminate. destruct (t_ml t); [discriminate|].
    destruct Hok as (q & raw & Hq & _). rewrite Hq. unfold reencode. discriminate.
  - rewrite (tok_ok_code t Hok Q). exact He.
Qed.

Lemma concat_ne (l : list (list Z)) : l <> [] -> Forall (fun x => x <> []) l -> concat l <> [].
Proof.
  destruct l as [|x l]; [congruence|]. intros _ H. inversion H; subst. cbn [concat]. destruct x; [congruence | discriminate].
Qed.

Lemma echo_lines_ne ts : forall strs, Forall (fun t => tok_code t <> []) ts -> Forall (fun x => x <> []) strs ->
  Forall (fun line => line <> []) (echo_lines ts strs).
Proof.
  induction ts as [|t r IH]; intros strs Ht Hs; cbn [echo_lines].
  - destruct strs as [|x strs]; constructor; [|constructor]. unfold join_rev. rewrite rev'_eq.
    apply concat_ne; [intros C; apply (f_equal (@length (list Z))) in C; rewrite rev_length in C; discriminate
                     | apply Forall_rev; exact Hs].
  - inversion Ht as [|? ? Hc Ht']; subst. destruct (is_newline_tok t).
    + constructor; [|apply IH; [exact Ht' | constructor]]. unfold join_rev. rewrite rev'_eq.
      apply concat_ne; [intros C; apply (f_equal (@length (list Z))) in C; rewrite rev_length in C; discriminate
                       | apply Forall_rev; constructor; assumption].
    + apply IH; [exact Ht' | constructor; assumption].
Qed.

(* (3) every chunk yielded by the writer is non-empty (in particular the last one, on which the .p8 writer
   tests endswith(b'\n')); no token can have an empty code *)
Theorem echo_chunks_nonempty ls lines : echo_source ls = Ok lines -> Forall (fun c => c <> []) lines.
Proof.
  unfold echo_source. destruct (model_lex ls) as [ts|e] eqn:E; [|discriminate]. intros H; inversion H; subst.
  unfold echo. apply echo_lines_ne; [apply (model_lex_code_ne _ _ E) | constructor].
Qed.
Print Assumptions echo_chunks_nonempty.

(* every yielded chunk except possibly the last ends with a line-break token's code; the last one does iff
   the last token is a newline token *)

(* ---------- (1) the written text is a fixed point, (2) also with a final line feed supplied *)
Lemma echo_source_one s : echo_source [s] = match model_lex [s] with Ok ts => Ok (echo ts) | Err e => Err e end.
Proof. reflexivity. Qed.

(* whatever the chunkings (split after line feeds) of the source and of the written text *)
Theorem echo_idempotent ls lines : Forall ends_lf (removelast ls) -> echo_source ls = Ok lines ->
  forall ls', concat ls' = concat lines -> Forall ends_lf (removelast ls') ->
  exists lines', echo_source ls' = Ok lines' /\ concat lines' = concat lines.
Proof.
  intros HF H ls' Hc HF'. rewrite (echo_source_chunking ls HF) in H. rewrite (echo_source_chunking ls' HF'), Hc.
  unfold echo_source in *. destruct (model_lex [concat ls]) as [ts|e] eqn:E; [|discriminate]. inversion H; subst lines.
  rewrite echo_concat. destruct (relex_stable _ _ E) as (ts' & E' & Hcodes). rewrite E'.
  exists (echo ts'). split; [reflexivity|]. rewrite echo_concat, Hcodes. reflexivity.
Qed.
Print Assumptions echo_idempotent.

Theorem echo_idempotent_lf ls lines : Forall ends_lf (removelast ls) -> echo_source ls = Ok lines ->
  forall ls', concat ls' = concat lines ++ [10] -> Forall ends_lf (removelast ls') ->
  exists lines', echo_source ls' = Ok lines' /\ concat lines' = concat lines ++ [10].
Proof.
  intros HF H ls' Hc HF'. rewrite (echo_source_chunking ls HF) in H. rewrite (echo_source_chunking ls' HF'), Hc.
  unfold echo_source in *. destruct (model_lex [concat ls]) as [ts|e] eqn:E; [|discriminate]. inversion H; subst lines.
  rewrite echo_concat. destruct (relex_stable _ _ E) as (ts' & E' & Hcodes).
  destruct (model_lex_append_lf _ _ E') as (ts'' & E'' & Hc'').
  rewrite E''. exists (echo ts''). split; [reflexivity|]. rewrite echo_concat, Hc'', Hcodes. reflexivity.
Qed.
Print Assumptions echo_idempotent_lf.
