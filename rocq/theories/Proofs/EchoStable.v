(* Facts about the echo writer that the .p8 round trip (C03) needs: the yielded lines are never empty, the
   written text is a fixed point of lex + echo, and stays one when a final line feed is supplied. *)
From PV Require Import Base.Prelude Generated.T_lexer Model.Lexer Model.EchoWriter Spec.LuaLex Instances.HoldsC07 Proofs.LexerProofs Proofs.LexerInv
  Proofs.LexerSpec Proofs.LexerAgree Proofs.LexerMain Proofs.LexerView Proofs.LexerChunk Proofs.EchoProofs Proofs.LexerRelex Proofs.LexerAppendLf.
From Coq Require Import ZifyBool.

(* ---------- (3) no token has an empty code, no yielded line is empty *)
Lemma process_token_ext ms l c s ms' t piece rest :
  process_token ms l c s = Ok (Some (ms', Some t, piece, rest)) -> t_ext t = pending ms ++ piece.
Proof.
  intros H. destruct ms as [|delim acc sl sc ext|acc sl sc|eqs acc sl sc ext]; cbn [process_token] in H.
  - destruct (drop_prefix [45; 45; 91; 91] s); [discriminate|].
    destruct (match_long_open s) as [[eqs r1]|]; [discriminate|].
    destruct s as [|c0 r]; [discriminate|]. destruct ((c0 =? 39) || (c0 =? 34)); [discriminate|].
    destruct (first_matcher token_matchers (c0 :: r)) as [[[k a] r']|]; [|discriminate]. inversion H; subst. reflexivity.
  - destruct s as [|c0 r0]; [discriminate|].
    destruct (scan_string (length (c0 :: r0)) delim (c0 :: r0) acc []) as [[acc' pc rest'|acc' pc]|e]; try discriminate.
    inversion H; subst. cbn [t_ext pending]. rewrite rev_append_rev. reflexivity.
  - destruct (find_rbrackets s) as [[a rest']|]; [|destruct s; discriminate].
    inversion H; subst. cbn [t_ext pending]. rewrite rev_append_rev. reflexivity.
  - destruct (find_long_close (93 :: eqs ++ [93]) s) as [[a rest']|]; [|destruct s; discriminate].
    inversion H; subst. cbn [t_ext pending]. rewrite rev_append_rev. reflexivity.
Qed.

Definition toks_ne (st : lexst) : Prop := Forall (fun t => t_ext t <> []) (l_toks_rev st).

Lemma process_line_toks_ne fuel : forall st s st', toks_ne st -> process_line fuel st s = Ok st' -> toks_ne st'.
Proof.
  induction fuel as [|f IH]; intros st s st' Hne H; [discriminate|]. rewrite process_line_S in H.
  destruct (process_token (l_state st) (l_line st) (l_col st) s) as [[[[[ms ot] piece] rest]|]|e] eqn:E; [| |discriminate].
  - destruct (is_nil piece) eqn:Np.
    + destruct (is_nil s); [|discriminate]. inversion H; subst. exact Hne.
    + destruct (advance (l_line st, l_col st) piece) as [l' c']. apply IH in H; [exact H|].
      unfold toks_ne. cbn [l_toks_rev]. destruct ot as [t|]; [|exact Hne]. constructor; [|exact Hne].
      rewrite (process_token_ext _ _ _ _ _ _ _ _ E). apply is_nil_false in Np. intros C.
      apply (f_equal (@length Z)) in C. rewrite app_length in C. cbn in C. lia.
  - destruct (is_nil s); [|discriminate]. inversion H; subst. exact Hne.
Qed.

Lemma process_chunks_toks_ne cs : forall st st', toks_ne st -> process_chunks st cs = Ok st' -> toks_ne st'.
Proof.
  induction cs as [|c cs IH]; intros st st' Hne H; cbn [process_chunks] in H; [inversion H; subst; exact Hne|].
  destruct (process_line (S (length c)) st c) as [st1|e] eqn:E; [|discriminate].
  apply (IH st1 st'); [apply (process_line_toks_ne _ _ _ _ Hne E) | exact H].
Qed.

Lemma model_lex_ext_ne chunks ts : model_lex chunks = Ok ts -> Forall (fun t => t_ext t <> []) ts.
Proof.
  unfold model_lex. destruct (process_chunks init_lexst chunks) as [st|e] eqn:E; [|discriminate].
  assert (Hi : toks_ne init_lexst) by constructor.
  pose proof (process_chunks_toks_ne _ _ _ Hi E) as HF. destruct (l_state st); try discriminate.
  intros H; inversion H; subst. rewrite rev'_eq. apply Forall_rev. exact HF.
Qed.

(* Token.code is never empty: the source extent for everything but quoted strings, quote + body + quote for those *)
Lemma model_lex_code_ne chunks ts : model_lex chunks = Ok ts -> Forall (fun t => tok_code t <> []) ts.
Proof.
  intros H. pose proof (model_lex_ext_ne _ _ H) as He. pose proof (model_lex_tok_ok _ _ H) as Hok.
  rewrite Forall_forall in *. intros t Ht. specialize (He t Ht). specialize (Hok t Ht).
  destruct (quoted_tok t) eqn:Q.
  - unfold quoted_tok in Q. unfold tok_ok in Hok. unfold tok_code.
    destruct (t_kind t); try discriminate. destruct (t_ml t); [discriminate|].
    destruct Hok as (q & raw & Hq & _). rewrite Hq. unfold reencode. discriminate.
  - rewrite (tok_ok_code t Hok Q). exact He.
Qed.

Lemma concat_ne (l : list (list Z)) : l <> [] -> Forall (fun x => x <> []) l -> concat l <> [].
Proof.
  destruct l as [|x l]; [congruence|]. intros _ H. inversion H; subst. cbn [concat]. destruct x; [congruence | discriminate].
Qed.

Lemma echo_lines_ne ts : forall strs, Forall (fun t => tok_code t <> []) ts -> Forall (fun x => x <> []) strs ->
  Forall (fun line => line <> []) (echo_lines ts strs).
Proof.
  induction ts as [|t r IH]; intros strs Ht Hs; cbn [echo_lines].
  - destruct strs as [|x strs]; constructor; [|constructor]. unfold join_rev. rewrite rev'_eq.
    apply concat_ne; [intros C; apply (f_equal (@length (list Z))) in C; rewrite rev_length in C; discriminate
                     | apply Forall_rev; exact Hs].
  - inversion Ht as [|? ? Hc Ht']; subst. destruct (is_newline_tok t).
    + constructor; [|apply IH; [exact Ht' | constructor]]. unfold join_rev. rewrite rev'_eq.
      apply concat_ne; [intros C; apply (f_equal (@length (list Z))) in C; rewrite rev_length in C; discriminate
                       | apply Forall_rev; constructor; assumption].
    + apply IH; [exact Ht' | constructor; assumption].
Qed.

(* (3) every chunk yielded by the writer is non-empty (in particular the last one, on which the .p8 writer
   tests endswith(b'\n')); no token can have an empty code *)
Theorem echo_chunks_nonempty ls lines : echo_source ls = Ok lines -> Forall (fun c => c <> []) lines.
Proof.
  unfold echo_source. destruct (model_lex ls) as [ts|e] eqn:E; [|discriminate]. intros H; inversion H; subst.
  unfold echo. apply echo_lines_ne; [apply (model_lex_code_ne _ _ E) | constructor].
Qed.
Print Assumptions echo_chunks_nonempty.

(* every yielded chunk except possibly the last ends with a line-break token's code; the last one does iff
   the last token is a newline token *)

(* ---------- (1) the written text is a fixed point, (2) also with a final line feed supplied *)
Lemma echo_source_one s : echo_source [s] = match model_lex [s] with Ok ts => Ok (echo ts) | Err e => Err e end.
Proof. reflexivity. Qed.

(* whatever the chunkings (split after line feeds) of the source and of the written text *)
Theorem echo_idempotent ls lines : Forall ends_lf (removelast ls) -> echo_source ls = Ok lines ->
  forall ls', concat ls' = concat lines -> Forall ends_lf (removelast ls') ->
  exists lines', echo_source ls' = Ok lines' /\ concat lines' = concat lines.
Proof.
  intros HF H ls' Hc HF'. rewrite (echo_source_chunking ls HF) in H. rewrite (echo_source_chunking ls' HF'), Hc.
  unfold echo_source in *. destruct (model_lex [concat ls]) as [ts|e] eqn:E; [|discriminate]. inversion H; subst lines.
  rewrite echo_concat. destruct (relex_stable _ _ E) as (ts' & E' & Hcodes). rewrite E'.
  exists (echo ts'). split; [reflexivity|]. rewrite echo_concat, Hcodes. reflexivity.
Qed.
Print Assumptions echo_idempotent.

Theorem echo_idempotent_lf ls lines : Forall ends_lf (removelast ls) -> echo_source ls = Ok lines ->
  forall ls', concat ls' = concat lines ++ [10] -> Forall ends_lf (removelast ls') ->
  exists lines', echo_source ls' = Ok lines' /\ concat lines' = concat lines ++ [10].
Proof.
  intros HF H ls' Hc HF'. rewrite (echo_source_chunking ls HF) in H. rewrite (echo_source_chunking ls' HF'), Hc.
  unfold echo_source in *. destruct (model_lex [concat ls]) as [ts|e] eqn:E; [|discriminate]. inversion H; subst lines.
  rewrite echo_concat. destruct (relex_stable _ _ E) as (ts' & E' & Hcodes).
  destruct (model_lex_append_lf _ _ E') as (ts'' & E'' & Hc'').
  rewrite E''. exists (echo ts''). split; [reflexivity|]. rewrite echo_concat, Hc'', Hcodes. reflexivity.
Qed.
Print Assumptions echo_idempotent_lf.

(* ---------- the yielded chunks end with a line feed (all but the last) *)
(* the writer yields after every newline token, so a chunk (except the last) ends with the code of a newline
   token: "\n", "\r\n" - or a lone "\r" when the source has a carriage return, outside strings and comments,
   that is not followed by a line feed (matcher MNlCr); such sources are outside the reference dialect *)
Definition nl_ends_lf (t : tok) : Prop := is_newline_tok t = true -> ends_lf (tok_code t).

Lemma ends_lf_app a b : ends_lf b -> ends_lf (a ++ b).
Proof. intros [x ->]. exists (a ++ x). rewrite app_assoc. reflexivity. Qed.

Lemma echo_lines_end_lf ts : forall strs, Forall nl_ends_lf ts -> Forall ends_lf (removelast (echo_lines ts strs)).
Proof.
  induction ts as [|t r IH]; intros strs Ht; cbn [echo_lines].
  - destruct strs; constructor.
  - inversion Ht as [|? ? Hn Ht']; subst. destruct (is_newline_tok t) eqn:Nl; [|apply IH; exact Ht'].
    specialize (IH [] Ht'). destruct (echo_lines r []) as [|y l] eqn:E; [constructor|].
    change (removelast (join_rev (tok_code t :: strs) :: y :: l)) with (join_rev (tok_code t :: strs) :: removelast (y :: l)).
    constructor; [|exact IH]. unfold join_rev. rewrite rev'_eq. cbn [rev]. rewrite concat_app. cbn [concat]. rewrite app_nil_r.
    apply ends_lf_app. apply Hn. exact Nl.
Qed.

Theorem echo_chunks_end_lf_if ts : Forall nl_ends_lf ts -> Forall ends_lf (removelast (echo ts)).
Proof. apply echo_lines_end_lf. Qed.

(* the only newline tokens the lexer produces: "\n", "\r\n", "\r" *)
Definition nl_code_ok (t : tok) : Prop :=
  is_newline_tok t = true -> tok_code t = [10] \/ tok_code t = [13; 10] \/ tok_code t = [13].

Lemma newline_rows_sweep :
  forallb (fun mk => match snd mk with
                     | KNewline => match fst mk with MNlCrLf | MNlLf | MNlCr => true | _ => false end
                     | _ => true
                     end) token_matchers = true.
Proof. vm_compute. reflexivity. Qed.

Lemma first_matcher_newline tbl : forallb (fun mk => match snd mk with
                     | KNewline => match fst mk with MNlCrLf | MNlLf | MNlCr => true | _ => false end
                     | _ => true
                     end) tbl = true ->
  forall s a b, first_matcher tbl s = Some (KNewline, a, b) -> a = [10] \/ a = [13; 10] \/ a = [13].
Proof.
  induction tbl as [|[m k] tbl IH]; intros HT s a b H; [discriminate|].
  cbn [forallb fst snd] in HT. apply andb_true_iff in HT. destruct HT as [H1 H2]. cbn [first_matcher] in H.
  destruct (run_matcher m s) as [[x y]|] eqn:R; [|apply (IH H2 s a b H)].
  inversion H; subst. destruct m; try discriminate; cbn [run_matcher] in R; unfold scan_literal in R;
    match type of R with match drop_prefix ?l s with _ => _ end = _ => destruct (drop_prefix l s) end;
    inversion R; subst; auto.
Qed.

Lemma process_token_nl ms l c s ms' t piece rest :
  process_token ms l c s = Ok (Some (ms', Some t, piece, rest)) -> nl_code_ok t.
Proof.
  intros H Hn. unfold is_newline_tok in Hn.
  destruct ms as [|delim acc sl sc ext|acc sl sc|eqs acc sl sc ext]; cbn [process_token] in H.
  - destruct (drop_prefix [45; 45; 91; 91] s); [discriminate|].
    destruct (match_long_open s) as [[eqs r1]|]; [discriminate|].
    destruct s as [|c0 r]; [discriminate|]. destruct ((c0 =? 39) || (c0 =? 34)); [discriminate|].
    destruct (first_matcher token_matchers (c0 :: r)) as [[[k a] r']|] eqn:E; [|discriminate]. inversion H; subst.
    cbn [t_kind] in Hn. destruct k; try discriminate. unfold tok_code. cbn [t_kind t_data].
    apply (first_matcher_newline _ newline_rows_sweep _ _ _ E).
  - destruct s as [|c0 r0]; [discriminate|].
    destruct (scan_string (length (c0 :: r0)) delim (c0 :: r0) acc []) as [[acc' pc rest'|acc' pc]|e]; try discriminate.
    inversion H; subst. discriminate.
  - destruct (find_rbrackets s) as [[a rest']|]; [|destruct s; discriminate]. inversion H; subst. discriminate.
  - destruct (find_long_close (93 :: eqs ++ [93]) s) as [[a rest']|]; [|destruct s; discriminate]. inversion H; subst. discriminate.
Qed.

Lemma process_line_nl fuel : forall st s st', Forall nl_code_ok (l_toks_rev st) -> process_line fuel st s = Ok st' ->
  Forall nl_code_ok (l_toks_rev st').
Proof.
  induction fuel as [|f IH]; intros st s st' Hok H; [discriminate|]. rewrite process_line_S in H.
  destruct (process_token (l_state st) (l_line st) (l_col st) s) as [[[[[ms ot] piece] rest]|]|e] eqn:E; [| |discriminate].
  - destruct (is_nil piece).
    + destruct (is_nil s); [|discriminate]. inversion H; subst. exact Hok.
    + destruct (advance (l_line st, l_col st) piece) as [l' c']. apply IH in H; [exact H|]. cbn [l_toks_rev].
      destruct ot as [t|]; [|exact Hok]. constructor; [apply (process_token_nl _ _ _ _ _ _ _ _ E) | exact Hok].
  - destruct (is_nil s); [|discriminate]. inversion H; subst. exact Hok.
Qed.

Lemma model_lex_nl chunks ts : model_lex chunks = Ok ts -> Forall nl_code_ok ts.
Proof.
  unfold model_lex. destruct (process_chunks init_lexst chunks) as [st|e] eqn:E; [|discriminate].
  assert (HF : Forall nl_code_ok (l_toks_rev st)).
  { revert E. generalize init_lexst (Forall_nil nl_code_ok : Forall nl_code_ok (l_toks_rev init_lexst)).
    induction chunks as [|c cs IH]; intros st0 H0 E; cbn [process_chunks] in E; [inversion E; subst; exact H0|].
    destruct (process_line (S (length c)) st0 c) as [st1|e1] eqn:E1; [|discriminate].
    apply (IH st1 (process_line_nl _ _ _ _ H0 E1) E). }
  destruct (l_state st); try discriminate. intros H; inversion H; subst. rewrite rev'_eq. apply Forall_rev. exact HF.
Qed.

(* exact side condition: no newline token is a lone carriage return *)
Definition no_lone_cr_newline (ts : list tok) : Prop :=
  Forall (fun t => is_newline_tok t = true -> tok_code t <> [13]) ts.

Theorem echo_chunks_end_lf ls ts : model_lex ls = Ok ts -> no_lone_cr_newline ts ->
  Forall ends_lf (removelast (echo ts)).
Proof.
  intros H Hn. apply echo_chunks_end_lf_if. pose proof (model_lex_nl _ _ H) as Hk.
  unfold no_lone_cr_newline in Hn. rewrite Forall_forall in *. intros t Ht Nl.
  destruct (Hk t Ht Nl) as [E|[E|E]]; [rewrite E; exists []; reflexivity | rewrite E; exists [13]; reflexivity |].
  exfalso. exact (Hn t Ht Nl E).
Qed.
Print Assumptions echo_chunks_end_lf.

(* the side condition holds for every source of the reference dialect (whose line ends are LF and CR LF) *)
Lemma spec_step_newline s t rest : spec_step s = Some (t, rest) -> s_kind t = SNewline -> s_raw t = [10] \/ s_raw t = [13; 10].
Proof.
  intros H K. destruct s as [|c r]; [discriminate|]. unfold spec_step in H.
  assert (Sym : forall x y, spec_symbol x = Some (t, y) -> False).
  { intros x y Hs. destruct (spec_symbol_inv _ _ _ Hs) as (z & _ & _ & -> & _). discriminate K. }
  assert (Num : forall x y, spec_number x = Some (t, y) -> False).
  { intros x y Hs. unfold spec_number in Hs. destruct (LuaLex.num_split x) as [run rs].
    destruct (LuaLex.spec_numeral run) as [[n d]|]; [|discriminate]. inversion Hs; subst. discriminate K. }
  assert (Lc : forall x y, LuaLex.line_comment x = Some (t, y) -> False).
  { intros x y Hs. unfold LuaLex.line_comment in Hs. destruct (LuaLex.span _ x). inversion Hs; subst. discriminate K. }
  destruct (LuaLex.is_blank c). { destruct (LuaLex.span LuaLex.is_blank (c :: r)). inversion H; subst. discriminate K. }
  destruct (c =? 10). { inversion H; subst. left; reflexivity. }
  destruct (c =? 13).
  { destruct r as [|y r']; [discriminate|]. rewrite match10 in H. destruct (y =? 10); [|discriminate].
    inversion H; subst. right; reflexivity. }
  exfalso.
  destruct (c =? 45).
  { destruct r as [|y r2]; [eapply Sym; exact H|]. rewrite match45 in H.
    destruct (y =? 45); [|eapply Sym; exact H].
    destruct r2 as [|z r3]; [eapply Lc; exact H|]. rewrite match91 in H.
    destruct (z =? 91); [|eapply Lc; exact H].
    destruct (LuaLex.long_open r3 0) as [[lvl r4]|]; [|eapply Lc; exact H].
    destruct (lvl =? 0); [|discriminate]. destruct (LuaLex.long_body 0 r4) as [[[b cl] rs]|]; [|discriminate].
    inversion H; subst. discriminate K. }
  destruct (c =? 47).
  { destruct r as [|y r2]; [eapply Sym; exact H|]. rewrite match47 in H.
    destruct (y =? 47); [eapply Lc; exact H | eapply Sym; exact H]. }
  destruct (c =? 91).
  { destruct (LuaLex.long_open r 0) as [[lvl r2]|].
    - destruct (LuaLex.long_body (Z.to_nat lvl) r2) as [[[b cl] rs]|]; [|discriminate]. inversion H; subst. discriminate K.
    - destruct r as [|y r2]; [eapply Sym; exact H|]. rewrite match61 in H.
      destruct (y =? 61); [discriminate | eapply Sym; exact H]. }
  destruct ((c =? 34) || (c =? 39)).
  { destruct (LuaLex.unescape_until c r) as [[[v raw] rs]|]; [|discriminate]. inversion H; subst. discriminate K. }
  destruct (LuaLex.is_digit c); [eapply Num; exact H|].
  destruct (c =? 46).
  { destruct r as [|d r']; [eapply Sym; exact H|].
    destruct (LuaLex.is_digit d); [eapply Num; exact H | eapply Sym; exact H]. }
  destruct (LuaLex.is_name_start c).
  { destruct (LuaLex.span LuaLex.is_name_char (c :: r)) as [a b]. destruct (LuaLex.mem_bytes a LuaLex.spec_keywords); inversion H; subst; discriminate K. }
  destruct (c =? 58).
  { destruct r as [|y r2]; [eapply Sym; exact H|]. rewrite match58 in H.
    destruct (y =? 58); [|eapply Sym; exact H].
    destruct (LuaLex.span LuaLex.is_name_char r2) as [a b]. destruct a as [|n0 a']; [discriminate|].
    destruct (LuaLex.strip_prefix [58; 58] b); [|discriminate]. destruct (LuaLex.is_name_start n0); [|discriminate].
    inversion H; subst. discriminate K. }
  destruct (c =? 63). { inversion H; subst. discriminate K. }
  eapply Sym; exact H.
Qed.

Lemma spec_toks_newline l c s ts : spec_toks l c s ts ->
  Forall (fun t => s_kind t = SNewline -> s_raw t = [10] \/ s_raw t = [13; 10]) ts.
Proof.
  induction 1 as [l c | l c s t rest l' c' ts Es Hne Ha Hts IH]; [constructor|]. constructor; [|exact IH].
  pose proof (spec_step_newline s t rest Es) as K. unfold at_pos. cbn [s_kind s_raw]. exact K.
Qed.

Theorem dialect_no_lone_cr ls ts ss :
  Forall ends_lf (removelast ls) -> Forall byte (concat ls) -> spec_lex (concat ls) = Some ss ->
  model_lex ls = Ok ts -> no_lone_cr_newline ts.
Proof.
  intros HF HB Hs Hm. rewrite (model_lex_chunking ls HF) in Hm.
  destruct (lex_agrees (concat ls) ss HB Hs) as (ts0 & Hm0 & Hag). rewrite Hm0 in Hm. inversion Hm; subst ts0.
  assert (Hnl : Forall (fun t => s_kind t = SNewline -> s_raw t = [10] \/ s_raw t = [13; 10]) ss).
  { unfold spec_lex in Hs. destruct (crlf_only (concat ls)); [|discriminate].
    destruct (spec_lex_fuel_toks _ _ _ _ _ _ Hs) as (ts' & -> & Hts). cbn [rev app]. apply (spec_toks_newline 0 0 _ ts' Hts). }
  unfold no_lone_cr_newline. clear -Hag Hnl. induction Hag as [|s t ss ts Hst _ IH]; [constructor|].
  inversion Hnl as [|? ? N1 N2]; subst. constructor; [|apply IH; exact N2].
  intros Nl. destruct (agree_fields s t Hst) as (Hk & _ & _ & Hf). unfold is_newline_tok in Nl. rewrite Hk in Nl.
  destruct (s_kind s) eqn:K; try discriminate. unfold tok_code. rewrite Hk. cbn [kind_of]. rewrite Hf.
  destruct (N1 eq_refl) as [E|E]; rewrite E; discriminate.
Qed.
Print Assumptions dialect_no_lone_cr.

(* hence: for a source of the dialect the chunks yielded by the writer can be fed back as they are *)
Theorem echo_chunks_end_lf_dialect ls ts ss :
  Forall ends_lf (removelast ls) -> Forall byte (concat ls) -> spec_lex (concat ls) = Some ss ->
  model_lex ls = Ok ts -> Forall ends_lf (removelast (echo ts)).
Proof. intros HF HB Hs Hm. apply (echo_chunks_end_lf ls ts Hm). apply (dialect_no_lone_cr ls ts ss HF HB Hs Hm). Qed.
Print Assumptions echo_chunks_end_lf_dialect.
