(* Re-indexing a derivation of the reference grammar along a re-spacing of the token list, part 1.

   Two token lists ts, ts' with the same significant tokens (in order) differ only in the white-space / comment runs between
   them, so the k-th significant token of ts has another index in ts'.  A derivation g of ts (Spec/LuaGrammar.v derives) names
   its leaves by token index;  rename f g  maps every leaf index through f, and with  f = reidx ts ts'  (index in ts of the
   k-th significant token |-> index in ts' of the k-th significant token)  rename f g  is a derivation of ts':

     rename_sim        every grammar function succeeds on the renamed tree and the renamed stream when it succeeds on the
                       original ones (induction over all the mutually recursive functions, shape of ParserComplete5.cons_all;
                       only the success direction of terminal matching is used: the two branches that depend on a failure -
                       number / string in g_operand, `,` / `;` in g_fields - are decided by the class / data of the token,
                       which the renaming keeps)
     rename_flags_ok, rename_excl, rename_gnps, rename_gnts, rename_tsize, rename_leaves, rename_short_ifs
                       the conditions that read only the shape of the tree are invariant

   Part 2 (ValidDomainIdem2.v): the concrete f, leaves_ok, line_scoped, and the composition with C10's partial theorem. *)
From PV Require Import Base.Prelude Spec.LuaTokens Spec.LuaGrammar Model.WriterDomain Proofs.ParserComplete1 Proofs.ParserComplete2 Proofs.ParserComplete3
  Proofs.ParserComplete4 Proofs.ValidDomain1.
From Coq Require Import ZifyBool.
Ltac Zify.zify_post_hook ::= Z.to_euclidean_division_equations.

Fixpoint rename (f : Z -> Z) (g : tree) : tree :=
  match g with
  | Node tag s e sh fs => Node tag s e sh (map (rename f) fs)
  | Tok i t => Tok (f i) t
  | Lst l => Lst (map (rename f) l)
  | Kw i => Kw (f i)
  | Paren i j x => Paren (f i) (f j) (rename f x)
  | Hid x => Hid (rename f x)
  | PNone => PNone
  | PBool b => PBool b
  | PBytes b => PBytes b
  end.

Definition smap (f : Z -> Z) (s : stream) : stream := map (fun p => (f (fst p), snd p)) s.

(* the index map of two token lists with the same significant tokens: the k-th significant index of ts goes to the k-th
   significant index of ts' (0 for an index that is not significant in ts) *)
Fixpoint lookup (i : Z) (l : list (Z * Z)) : Z :=
  match l with
  | [] => 0
  | (a, b) :: r => if i =? a then b else lookup i r
  end.

Definition sig_idx (ts : list token) : list Z := map fst (sig_stream ts 0).

Definition reidx (ts ts' : list token) (i : Z) : Z := lookup i (combine (sig_idx ts) (sig_idx ts')).

(* ------------------------------------------------------------------ the conditions that read only the shape *)
Lemma forallb_map_ext {A} (P Q : A -> bool) (h : A -> A) l :
  Forall (fun x => P (h x) = Q x) l -> forallb P (map h l) = forallb Q l.
Proof. induction 1 as [|x r Hx _ IH]; [reflexivity|]. cbn [map forallb]. rewrite Hx, IH. reflexivity. Qed.

Lemma rename_tsize f g : tsize (rename f g) = tsize g.
Proof.
  induction g as [tag s e sh fs IH| | l IH| | | | |i j x IH|x IH] using tree_ind'; cbn [rename tsize]; try reflexivity;
    try (rewrite IH; reflexivity); f_equal; induction IH as [|x r Hx _ IH2]; cbn [map fold_right]; try reflexivity; rewrite Hx, IH2; reflexivity.
Qed.

Lemma rename_flags_ok f g : flags_ok (rename f g) = flags_ok g.
Proof.
  induction g as [tag s e sh fs IH| | l IH| | | | |i j x IH|x IH] using tree_ind'; cbn [rename flags_ok]; try reflexivity; try exact IH.
  - f_equal. apply forallb_map_ext, IH.
  - apply forallb_map_ext, IH.
Qed.

Lemma rename_is_tag f g tag : is_tag (rename f g) tag = is_tag g tag.
Proof. destruct g; reflexivity. Qed.
Lemma rename_is_hidden f g : is_hidden (rename f g) = is_hidden g.
Proof. destruct g; reflexivity. Qed.
Lemma rename_is_paren f g : is_paren (rename f g) = is_paren g.
Proof. destruct g; reflexivity. Qed.

Lemma rename_starts_paren f g : starts_paren (rename f g) = starts_paren g.
Proof.
  induction g as [tag s e sh fs IH| | l IH| | | | |i j x IH|x IH] using tree_ind'; cbn [rename starts_paren]; try reflexivity.
  - destruct IH as [|x r Hx _]; [reflexivity | exact Hx].
  - destruct IH as [|x r Hx _]; [reflexivity | exact Hx].
Qed.

Lemma rename_pguard f l : forall prev, pguard prev (map (rename f) l) = pguard prev l.
Proof.
  induction l as [|x r IH]; intros prev; [reflexivity|]. cbn [map].
  destruct x; cbn [rename pguard]; rewrite ?IH; try reflexivity.
  - change (Node tag s e short (map (rename f) fields)) with (rename f (Node tag s e short fields)). rewrite rename_starts_paren. reflexivity.
  - change (Lst (map (rename f) l)) with (rename f (Lst l)). rewrite rename_starts_paren. reflexivity.
Qed.

Lemma existsb_map_ext {A} (P Q : A -> bool) (h : A -> A) l :
  (forall x, P (h x) = Q x) -> existsb P (map h l) = existsb Q l.
Proof. intros H. induction l as [|x r IH]; [reflexivity|]. cbn [map existsb]. rewrite H, IH. reflexivity. Qed.

Lemma rename_shortif_ok f fs : shortif_ok (map (rename f) fs) = shortif_ok fs.
Proof.
  unfold shortif_ok.
  repeat (cbn [map rename]; match goal with |- context [match ?x with _ => _ end] => is_var x; destruct x end);
    cbn [map rename]; try reflexivity.
  all: rewrite rename_is_tag;
    match goal with |- context [pguard false (rename ?f0 ?x :: map (rename ?f0) ?r)] =>
      change (rename f0 x :: map (rename f0) r) with (map (rename f0) (x :: r)); rewrite rename_pguard end;
    try reflexivity.
  all: f_equal; apply existsb_map_ext; intros x0; rewrite rename_is_hidden; reflexivity.
Qed.

Lemma rename_excl f g : excl (rename f g) = excl g.
Proof.
  induction g as [tag s e sh fs IH| | l IH| | | | |i j x IH|x IH] using tree_ind'; cbn [rename excl]; try reflexivity; try exact IH.
  - rewrite rename_shortif_ok. rewrite (forallb_map_ext _ _ _ _ IH). f_equal. f_equal.
    destruct (tag =? tChunk); [|reflexivity].
    destruct fs as [|x [|? ?]]; try reflexivity; cbn [map]; destruct x; try reflexivity. cbn [rename]. apply rename_pguard.
  - apply forallb_map_ext, IH.
Qed.

Lemma rename_gnps f g : g_no_paren_suffix (rename f g) = g_no_paren_suffix g.
Proof.
  induction g as [tag s e sh fs IH| | l IH| | | | |i j x IH|x IH] using tree_ind'; cbn [rename g_no_paren_suffix]; try reflexivity; try exact IH.
  - rewrite (forallb_map_ext _ _ _ _ IH). f_equal. destruct (is_suffix_tag tag); [|reflexivity].
    destruct fs as [|x ?]; [reflexivity|]. cbn [map]. rewrite rename_is_paren. reflexivity.
  - apply forallb_map_ext, IH.
Qed.

Lemma rename_gnts f g : g_no_trailing_sep (rename f g) = g_no_trailing_sep g.
Proof.
  induction g as [tag s e sh fs IH| | l IH| | | | |i j x IH|x IH] using tree_ind'; cbn [rename g_no_trailing_sep]; try reflexivity; try exact IH.
  - rewrite (forallb_map_ext _ _ _ _ IH). f_equal. destruct (tag =? tTableConstructor); [|reflexivity].
    destruct fs as [|a [|b [|c [|? ?]]]]; try reflexivity; cbn [map]; destruct b; try reflexivity. cbn [rename]. rewrite map_length. reflexivity.
  - apply forallb_map_ext, IH.
Qed.

Lemma flat_map_map_ext {A B} (h : A -> A) (F : A -> list B) (G : A -> list B) l :
  Forall (fun x => F (h x) = G x) l -> flat_map F (map h l) = flat_map G l.
Proof. induction 1 as [|x r Hx _ IH]; [reflexivity|]. cbn [map flat_map]. rewrite Hx, IH. reflexivity. Qed.

Lemma rename_leaves f g : leaves (rename f g) = map f (leaves g).
Proof.
  induction g as [tag s e sh fs IH| | l IH| | | | |i j x IH|x IH] using tree_ind'; cbn [rename leaves]; try reflexivity; try exact IH.
  - rewrite (flat_map_map_ext _ _ (fun x => map f (leaves x)) _ IH). clear. induction fs as [|x r IH]; [reflexivity|].
    cbn [flat_map]. rewrite map_app, IH. reflexivity.
  - rewrite (flat_map_map_ext _ _ (fun x => map f (leaves x)) _ IH). clear. induction l as [|x r IH]; [reflexivity|].
    cbn [flat_map]. rewrite map_app, IH. reflexivity.
  - rewrite IH. cbn [app map]. rewrite map_app. reflexivity.
Qed.

Lemma rename_short_ifs f g : short_ifs (rename f g) = map (rename f) (short_ifs g).
Proof.
  induction g as [tag s e sh fs IH| | l IH| | | | |i j x IH|x IH] using tree_ind'; cbn [rename short_ifs]; try reflexivity; try exact IH.
  - rewrite map_app. f_equal; [destruct ((tag =? tStatIf) && sh); reflexivity|].
    rewrite (flat_map_map_ext _ _ (fun x => map (rename f) (short_ifs x)) _ IH). clear. induction fs as [|x r IH]; [reflexivity|].
    cbn [flat_map]. rewrite map_app, IH. reflexivity.
  - rewrite (flat_map_map_ext _ _ (fun x => map (rename f) (short_ifs x)) _ IH). clear. induction l as [|x r IH]; [reflexivity|].
    cbn [flat_map]. rewrite map_app, IH. reflexivity.
Qed.

(* ------------------------------------------------------------------ the simulation *)
Section Sim.
Variable f : Z -> Z.

Definition SIM (F : tree -> stream -> option stream) : Prop :=
  forall g s s', F g s = Some s' -> F (rename f g) (smap f s) = Some (smap f s').
Definition SIML (F : list tree -> stream -> option stream) : Prop :=
  forall l s s', F l s = Some s' -> F (map (rename f) l) (smap f s) = Some (smap f s').

Lemma sim_eat pr i s s' : eat pr i s = Some s' -> eat pr (f i) (smap f s) = Some (smap f s').
Proof.
  intros H. apply eat_inv in H. destruct H as (t & -> & Hp). cbn [smap map fst snd eat]. rewrite Z.eqb_refl, Hp. reflexivity.
Qed.
Lemma sim_kw d : SIM (kw d).
Proof. intros g s s' H. unfold kw in *. destruct g; try discriminate. cbn [rename]. apply sim_eat, H. Qed.
Lemma sim_sym d : SIM (sym d).
Proof. intros g s s' H. unfold sym in *. destruct g; try discriminate. cbn [rename]. apply sim_eat, H. Qed.
Lemma sim_tokc c : SIM (tokc c).
Proof. intros g s s' H. unfold tokc in *. destruct g; try discriminate. cbn [rename]. apply sim_eat, H. Qed.
Lemma sim_tokp pr : SIM (tokp pr).
Proof. intros g s s' H. unfold tokp in *. destruct g; try discriminate. cbn [rename]. apply sim_eat, H. Qed.

(* the two branches that look at a failure: the alternative is decided by the token, not by its index *)
Lemma sim_alt p q i s s' :
  match eat p i s with Some s1 => Some s1 | None => eat q i s end = Some s' ->
  match eat p (f i) (smap f s) with Some s1 => Some s1 | None => eat q (f i) (smap f s) end = Some (smap f s').
Proof.
  unfold eat. destruct s as [|[j t] r]; [discriminate|]. cbn [smap map fst snd].
  destruct (i =? j) eqn:E; cbn [andb]; [|discriminate]. apply Z.eqb_eq in E. subst j. rewrite Z.eqb_refl. cbn [andb].
  destruct (p t); [intros [= <-]; reflexivity|]. destruct (q t); [intros [= <-]; reflexivity | discriminate].
Qed.

Lemma sim_sep_tail item sep : SIM item -> SIM sep -> SIML (sep_tail item sep).
Proof.
  intros Hi Hs. unfold SIML. fix IH 1. intros l s s' H. destruct l as [|c [|x r]]; cbn [sep_tail map] in H |- *.
  - injection H as <-. reflexivity.
  - discriminate.
  - apply obind_some in H. destruct H as (s1 & E1 & H). apply obind_some in H. destruct H as (s2 & E2 & H).
    rewrite (Hs _ _ _ E1). cbn [obind]. rewrite (Hi _ _ _ E2). cbn [obind]. apply IH, H.
Qed.

Lemma sim_sep_list item sep : SIM item -> SIM sep -> SIML (sep_list item sep).
Proof.
  intros Hi Hs l s s' H. destruct l as [|x r]; [discriminate|]. cbn [sep_list map] in H |- *.
  apply obind_some in H. destruct H as (s1 & E1 & H). rewrite (Hi _ _ _ E1). cbn [obind]. apply (sim_sep_tail _ _ Hi Hs), H.
Qed.

Lemma sim_namelist : SIM namelist.
Proof.
  intros g s s' H. unfold namelist in H. destruct g as [tag a b sh fs| | | | | | | |]; try discriminate.
  destruct fs as [|[| |l| | | | | |] [|? ?]]; try discriminate. cbn [rename map namelist].
  destruct (tag =? tNameList); [|discriminate]. apply (sim_sep_list _ _ (sim_tokc CName) (sim_sym _)), H.
Qed.

Lemma sim_semis : SIML g_semis.
Proof.
  intros l. induction l as [|x l IH]; intros s s' H; cbn [g_semis map] in H |- *.
  - injection H as <-. reflexivity.
  - apply obind_some in H. destruct H as (s1 & E & H). rewrite (sim_sym _ _ _ _ E). cbn [obind]. apply IH, H.
Qed.

Lemma sim_dots : SIM g_dots.
Proof.
  intros d s s' H. unfold g_dots in H. destruct d as [tag a b sh fs| | | | | | | |]; try discriminate.
  destruct fs as [|k [|? ?]]; try discriminate. cbn [rename map g_dots]. destruct (tag =? tVarargDots); [|discriminate].
  apply sim_sym, H.
Qed.

Lemma obind_assoc {A B C} (o : option A) (k1 : A -> option B) (k2 : B -> option C) :
  obind (obind o k1) k2 = obind o (fun x => obind (k1 x) k2).
Proof. destruct o; reflexivity. Qed.

Record ALLS (n : nat) : Prop := mkALLS {
  s_exp : SIM (g_exp n);
  s_chain : forall w seen, SIML (g_chain n w seen);
  s_operand : SIM (g_operand n);
  s_prefix : SIM (g_prefix n);
  s_args : SIM (g_args n);
  s_explist : SIM (g_explist n);
  s_table : SIM (g_table n);
  s_fields : SIML (g_fields n);
  s_field : SIM (g_field n);
  s_funcbody : SIM (g_funcbody n);
  s_chunk : SIM (g_chunk n);
  s_stats : SIML (g_stats n);
  s_stat : SIM (g_stat n);
  s_elseifs : SIML (g_elseifs n);
  s_var : SIM (g_var n)
}.

(* E : F g s = Some s1  becomes the renamed fact and rewrites the goal *)
Ltac rstep E :=
  first [ apply sim_kw in E | apply sim_sym in E | apply sim_tokc in E | apply sim_tokp in E | apply sim_eat in E
        | apply sim_namelist in E | apply sim_semis in E | apply sim_dots in E
        | match goal with I : SIM _ |- _ => apply I in E end
        | match goal with I : SIML _ |- _ => apply I in E end
        | match goal with I : forall w seen, SIML _ |- _ => apply I in E end
        | match goal with I : forall d : list Z, SIML _ |- _ => apply I in E end ];
  cbn [rename map] in E.
Ltac rchain H :=
  lazymatch type of H with
  | obind (obind _ _) _ = Some _ => rewrite obind_assoc in H; rewrite obind_assoc; rchain H
  | obind (Some _) _ = Some _ => cbn [obind] in H |- *; rchain H
  | obind _ _ = Some _ =>
      let s1 := fresh "s" in let E := fresh "E" in
      apply obind_some in H; destruct H as (s1 & E & H); rstep E; rewrite E; cbn [obind]; rchain H
  | Some _ = Some _ => injection H as <-; reflexivity
  | None = Some _ => discriminate H
  | (if ?c then _ else _) = Some _ => destruct c; rchain H
  | _ => rstep H; exact H
  end.
Ltac okill H :=
  lazymatch type of H with
  | obind _ _ = Some _ => let E := fresh in apply obind_some in H; destruct H as (? & E & H); first [discriminate E | okill E | okill H]
  | None = Some _ => discriminate H
  end.
Ltac fin H := first [ exfalso; okill H | cbn [rename map]; cbv beta iota; rchain H ].

Lemma sim_all n : ALLS n.
Proof.
  induction n as [|n IH].
  { constructor; repeat intro; discriminate. }
  destruct IH as [I_exp I_chain I_operand I_prefix I_args I_explist I_table I_fields I_field I_funcbody I_chunk
                  I_stats I_stat I_elseifs I_var].
  assert (I_explist_sep : SIML (sep_list (g_exp n) (sym ","%bs))) by (apply sim_sep_list; [exact I_exp | apply sim_sym]).
  assert (I_var_sep : SIML (sep_list (g_var n) (sym ","%bs))) by (apply sim_sep_list; [exact I_var | apply sim_sym]).
  assert (I_names : forall d, SIML (sep_list (tokc CName) (sym d))) by (intros d; apply sim_sep_list; [apply sim_tokc | apply sim_sym]).
  constructor.
  - (* exp *) intros g s s' H. cbn [g_exp] in H. destruct g; try discriminate. cbn [rename g_exp]. destruct (tag =? tChain).
    + eapply I_chain, H.
    + eapply (I_operand (Node tag s0 e short fields)), H.
  - (* chain *) intros w seen items s s' H. cbn [g_chain] in H. destruct items as [|x r]; cbn [map g_chain].
    + destruct (w || negb seen); [discriminate|]. injection H as <-. reflexivity.
    + destruct w.
      * destruct x; try (fin H). cbn [rename]. destruct (tokp is_unop (Tok i t) s) eqn:E; [|discriminate].
        apply sim_tokp in E. cbn [rename] in E. rewrite E. eapply I_chain, H.
      * fin H.
  - (* operand *) intros g s s' H. cbn [g_operand] in H. destruct g; try discriminate. cbn [rename g_operand].
    destruct (tag =? tVarargDots). { gmatch H. fin H. }
    destruct (tag =? tExpValue); [|discriminate].
    destruct fields as [|x [|y [|? ?]]]; try discriminate; cbn [map].
    + destruct x; try discriminate; cbn [rename].
      * destruct (tag0 =? tFunction). { gmatch H. fin H. }
        destruct (tag0 =? tTableConstructor). { eapply (I_table (Node tag0 s1 e0 short0 fields)), H. }
        eapply (I_prefix (Node tag0 s1 e0 short0 fields)), H.
      * unfold tokc in H |- *. apply sim_alt, H.
      * eapply (I_prefix (Paren i j x)), H.
    + destruct x, y as [| | | |bb| | | |]; cbv beta iota in H; try discriminate H; try destruct bb; fin H.
    + destruct x, y; cbv beta iota in H; try discriminate H;
        match type of H with context [if ?b then _ else _] => destruct b end; discriminate H.
  - (* prefix *) intros g s s' H. cbn [g_prefix] in H. destruct g; try discriminate; cbn [rename g_prefix].
    + destruct (tag =? tVarName). { gmatch H. fin H. }
      destruct (tag =? tVarIndex). { gmatch H. fin H. }
      destruct (tag =? tVarAttribute). { gmatch H. fin H. }
      destruct (tag =? tFunctionCall). { gmatch H. fin H. }
      destruct (tag =? tFunctionCallMethod); [|discriminate]. gmatch H. fin H.
    + fin H.
  - (* args *) intros g s s' H. cbn [g_args] in H. destruct g; try discriminate; cbn [rename g_args].
    + destruct (tag =? tFunctionArgs). { gmatch H; fin H. }
      destruct (tag =? tTableConstructor); [|discriminate]. eapply (I_table (Node tag s0 e short fields)), H.
    + eapply (sim_tokc _ (Tok i t)), H.
  - (* explist *) intros g s s' H. cbn [g_explist] in H. gmatch H. cbn [rename map g_explist].
    destruct (_ =? tExpList); [|discriminate]. eapply I_explist_sep, H.
  - (* table *) intros g s s' H. cbn [g_table] in H. gmatch H. cbn [rename map g_table].
    destruct (_ =? tTableConstructor); [|discriminate]. fin H.
  - (* fields *) intros l s s' H. cbn [g_fields] in H. destruct l as [|x r]; cbn [map g_fields]; [injection H as <-; reflexivity|].
    apply obind_some in H. destruct H as (s1 & E & H). rewrite (I_field _ _ _ E). cbn [obind].
    destruct r as [|c r']; cbn [map]; [injection H as <-; reflexivity|].
    apply obind_some in H. destruct H as (s2 & E2 & H).
    assert (E3 : match sym ","%bs (rename f c) (smap f s1) with Some s => Some s | None => sym ";"%bs (rename f c) (smap f s1) end
                 = Some (smap f s2)).
    { unfold sym in E2 |- *. destruct c; try discriminate E2. cbn [rename]. apply sim_alt, E2. }
    rewrite E3. cbn [obind]. eapply I_fields, H.
  - (* field *) intros g s s' H. cbn [g_field] in H. destruct g; try discriminate. cbn [rename g_field].
    destruct (tag =? tFieldExpKey). { gmatch H. fin H. }
    destruct (tag =? tFieldNamedKey). { gmatch H. fin H. }
    destruct (tag =? tFieldExp); [|discriminate]. gmatch H. fin H.
  - (* funcbody *) intros g s s' H. destruct g as [tag a b sh fs| | | | | | | |]; try discriminate H.
    destruct fs as [|o r]; [discriminate H|].
    assert (Ht : tag = tFunctionBody).
    { cbn [g_funcbody] in H. destruct (tag =? tFunctionBody) eqn:E; [apply Z.eqb_eq in E; exact E | discriminate]. }
    subst tag. apply funcbody_inv in H. destruct H as (s1 & E0 & nl & dd & c & bd & e & tl & -> & Hcases).
    cbn [rename map g_funcbody]. change (tFunctionBody =? tFunctionBody) with true. cbv beta iota zeta.
    apply sim_sym in E0. rewrite E0. cbn [obind].
    destruct Hcases as [(-> & -> & -> & H)|[(-> & -> & Hdd & H)|[(Hnl & -> & -> & H)|(Hnl & _ & cm & -> & H)]]]; cbn [rename map app].
    + rchain H.
    + change (g_dots dd s1) with (g_dots dd s1) in H. destruct dd; try (exfalso; apply Hdd; reflexivity); cbn [rename];
        try (exfalso; okill H; fail).
      apply obind_some in H. destruct H as (s2 & E1 & H). apply sim_dots in E1. cbn [rename g_dots] in E1.
      rewrite E1. cbn [obind]. rchain H.
    + destruct nl; try (exfalso; apply Hnl; reflexivity); cbn [rename]; try (exfalso; okill H; fail). rchain H.
    + destruct nl; try (exfalso; apply Hnl; reflexivity); cbn [rename]; try (exfalso; okill H; fail).
      apply obind_some in H. destruct H as (s2 & E1 & H). apply obind_some in H. destruct H as (s3 & E2 & H).
      apply obind_some in H. destruct H as (s4 & E3 & H).
      destruct cm; try discriminate E2. unfold g_dots in E3. destruct dd as [tg ? ? ? fd| | | | | | | |]; try discriminate E3.
      destruct fd as [|k [|? ?]]; try discriminate E3.
      apply sim_namelist in E1. cbn [rename] in E1. apply sim_sym in E2. cbn [rename] in E2.
      cbn [rename map]. cbv beta iota. destruct (tg =? tVarargDots); [|discriminate E3]. apply sim_sym in E3.
      rewrite E1. cbn [obind]. rewrite E2. cbn [obind]. rewrite E3. cbn [obind]. rchain H.
  - (* chunk *) intros g s s' H. cbn [g_chunk] in H. gmatch H. cbn [rename map g_chunk].
    destruct (_ =? tChunk); [|discriminate]. eapply I_stats, H.
  - (* stats *) intros l s s' H. cbn [g_stats] in H. destruct l as [|x r]; cbn [map g_stats]; [injection H as <-; reflexivity|].
    destruct x; try (cbn [is_tag] in H; cbn [rename is_tag]; fin H).
    change (rename f (Node tag s0 e short fields)) with (Node tag s0 e short (map (rename f) fields)).
    cbn [is_tag] in H |- *. destruct (tag =? tStatReturn).
    + gmatch H; cbn [map rename]; cbv beta iota; rchain H.
    + apply obind_some in H. destruct H as (s1 & E & H). apply I_stat in E. cbn [rename] in E. rewrite E. cbn [obind].
      eapply I_stats, H.
  - (* stat *) intros g s s' H. cbn [g_stat] in H. destruct g as [tag a b sh fs| | | | | | | |]; try discriminate.
    cbn [rename g_stat].
    destruct (tag =? tStatAssignment). { gmatch H. cbn [rename map]. cbv beta iota. destruct (_ =? tVarList); [|discriminate]. fin H. }
    destruct (tag =? tStatFunctionCall).
    { gmatch H. cbn [map]. rewrite !rename_is_tag. match type of H with (if ?c then _ else _) = _ => destruct c; [|discriminate] end.
      eapply I_prefix, H. }
    destruct (tag =? tStatDo). { gmatch H. fin H. }
    destruct (tag =? tStatWhile). { gmatch H. fin H. }
    destruct (tag =? tStatRepeat). { gmatch H. fin H. }
    destruct (tag =? tStatIf). { destruct sh; gmatch H; fin H. }
    destruct (tag =? tStatForStep). { cbv zeta in H |- *. gmatch H; fin H. }
    destruct (tag =? tStatForIn). { gmatch H. fin H. }
    destruct (tag =? tStatFunction). { gmatch H; cbn [rename map]; cbv beta iota; (destruct (_ =? tFunctionName); [|discriminate]); fin H. }
    destruct (tag =? tStatLocalFunction). { gmatch H. fin H. }
    destruct (tag =? tStatLocalAssignment). { gmatch H; fin H. }
    destruct (tag =? tStatGoto). { gmatch H; fin H. }
    destruct (tag =? tStatLabel). { gmatch H; fin H. }
    destruct (tag =? tStatBreak); [|discriminate]. gmatch H. fin H.
  - (* elseifs *) intros l s s' H. apply elseifs_inv in H.
    destruct H as [[-> ->]|[(el & b & -> & H)|(ei & c & t & b & r & -> & H)]]; cbn [map rename g_elseifs].
    + reflexivity.
    + rchain H.
    + destruct r; cbn [map]; destruct c; cbn [rename]; rchain H.
  - (* var *) intros g s s' H. cbn [g_var] in H |- *. rewrite !rename_is_tag. destruct (_ || _); [|discriminate]. eapply I_prefix, H.
Qed.
End Sim.
