(* Lemmas about Model/TokWriters.v (LuaMinifyTokenWriter of pico8/lua/lua.py): source pins,
   totality, and the shape of the output (header comments first, then the body). *)
From PV Require Import Base.Prelude Base.PySlice Generated.T_lexer Generated.T_minifier Generated.T_minifier_p8 Generated.T_luanames
  Model.NameFactory Model.Lexer Model.TokWriters Proofs.NameFactoryProofs.

(* ---------- pins: the control flow Model/TokWriters.v mirrors ---------- *)
Lemma pin_mtw_fuses_src : mtw_fuses_src =
"if not prev or not code:
    return False
if code[:1] == b'.' and (prev[:1].isdigit() or (prev[:1] == b'.' and prev[1:2].isdigit())):
    return True
return code[:1] in cls._FUSING_CHARS.get(prev[-1:], b'')"%bs.
Proof. reflexivity. Qed.

Lemma pin_mtw_to_lines_src : mtw_to_lines_src =
"prev = b''
for chunk in self._minified_chunks():
    if self._fuses(prev, chunk):
        yield b' '
    yield chunk
    prev = chunk"%bs.
Proof. reflexivity. Qed.

Lemma pin_mtw_init_flags_src : mtw_init_flags_src =
"self._last_was_name_keyword_number = False
self._last_was_newline = True"%bs.
Proof. reflexivity. Qed.

Lemma pin_mtw_chunks_src : mtw_chunks_src =
"seen_header_comments = 0
seen_non_comment_token = False
for token in self._tokens:
    if not seen_non_comment_token and (not token.matches(lexer.TokComment)) and (not token.matches(lexer.TokSpace)) and (not token.matches(lexer.TokNewline)):
        seen_non_comment_token = True
    if not seen_non_comment_token and seen_header_comments < 2 and token.matches(lexer.TokComment):
        seen_header_comments += 1
        yield token.code
        yield b'\n'
        continue
    if token.matches(lexer.TokComment) or token.matches(lexer.TokSpace):
        continue
    elif token.matches(lexer.TokNewline):
        self._last_was_name_keyword_number = False
        if not self._last_was_newline:
            yield b'\n'
        self._last_was_newline = True
    elif token.matches(lexer.TokName):
        if self._last_was_name_keyword_number:
            yield b' '
        self._last_was_name_keyword_number = True
        self._last_was_newline = False
        yield self._name_factory.get_short_name(token.code)
    elif token.matches(lexer.TokLabel):
        self._last_was_name_keyword_number = False
        self._last_was_newline = False
        yield (b'::' + self._name_factory.get_short_name(token.code[2:-2]) + b'::')
    elif token.matches(lexer.TokKeyword):
        if self._last_was_name_keyword_number:
            yield b' '
        self._last_was_name_keyword_number = True
        self._last_was_newline = False
        yield token.code
    elif token.matches(lexer.TokNumber):
        if self._last_was_name_keyword_number:
            yield b' '
        self._last_was_name_keyword_number = True
        self._last_was_newline = False
        yield token.code
    else:
        self._last_was_name_keyword_number = token.code in b'])}'
        self._last_was_newline = False
        yield token.code"%bs.
Proof. reflexivity. Qed.

Lemma pin_p8_lua_section_src : p8_lua_section_src =
"outstr.write(b'__lua__\n')
ended_in_newline = None
for line in game.lua.to_lines(writer_cls=lua_writer_cls, writer_args=lua_writer_args):
    outstr.write(bytes(lua.p8scii_to_unicode(line), 'utf-8'))
    ended_in_newline = line.endswith(b'\n')
if not ended_in_newline:
    outstr.write(b'\n')"%bs.
Proof. reflexivity. Qed.

(* ---------- totality: the writer never raises ---------- *)
Definition wst_ok (st : wstate) : Prop := 0 <= next_id (w_fac st).

Lemma get_short_name_next cfg st n st' o :
  get_short_name cfg st n = Ok (st', o) -> 0 <= next_id st -> 0 <= next_id st'.
Proof.
  unfold get_short_name. intros H Hn.
  destruct (keep_all cfg); [injection H as <- _; exact Hn|].
  destruct (in_names n preserved_names); [injection H as <- _; exact Hn|].
  destruct (in_keep_file cfg n); [injection H as <- _; exact Hn|].
  destruct (lookup n (name_map st)); [injection H as <- _; exact Hn|].
  destruct (fresh_name cfg (fresh_fuel cfg) (next_id st)) as [[nn id']|e] eqn:Ef; cbn [bind] in H; [|discriminate].
  injection H as <- _. cbn [next_id]. apply fresh_name_ok in Ef; [lia | exact Hn].
Qed.

Lemma chunk_step_total cfg st t : wst_ok st -> exists st' cs, chunk_step cfg st t = Ok (st', cs) /\ wst_ok st'.
Proof.
  intros Hok. destruct t as [k code]. unfold chunk_step.
  destruct (negb (w_seen st || negb (is_trivia_kind k)) && (w_hdr st <? 2) && is_comment_kind k).
  { eexists. eexists. split; [reflexivity | exact Hok]. }
  destruct k; try (eexists; eexists; split; [reflexivity | exact Hok]).
  - destruct (get_short_name_total cfg (w_fac st) code Hok) as (f' & o & E). rewrite E. cbn [bind].
    eexists. eexists. split; [reflexivity|]. unfold wst_ok. cbn [w_fac].
    eapply get_short_name_next; eassumption.
  - destruct (get_short_name_total cfg (w_fac st) (label_name code) Hok) as (f' & o & E). rewrite E. cbn [bind].
    eexists. eexists. split; [reflexivity|]. unfold wst_ok. cbn [w_fac].
    eapply get_short_name_next; eassumption.
Qed.

Lemma chunks_from_total cfg : forall ts st, wst_ok st -> exists cs, chunks_from cfg st ts = Ok cs.
Proof.
  induction ts as [|t r IH]; intros st Hok; [eexists; reflexivity|].
  cbn [chunks_from]. destruct (chunk_step_total cfg st t Hok) as (st' & cs & E & Hok'). rewrite E. cbn [bind].
  destruct (IH st' Hok') as (rest & ->). cbn [bind]. eexists. reflexivity.
Qed.

Lemma minify_gen_total cfg ts : exists cs, minify_gen cfg ts = Ok cs.
Proof.
  unfold minify_gen, minified_chunks.
  destruct (chunks_from_total cfg ts init_wstate) as (cs & ->); [unfold wst_ok; cbn; lia|].
  cbn [bind]. eexists. reflexivity.
Qed.

Lemma minify_total cfg ts : exists cs, minify cfg ts = Ok cs.
Proof. apply minify_gen_total. Qed.
