(* Assembling the per-section lemmas into the statements of Properties/C16.v. *)
From PV Require Import Base.Prelude Base.ListX Base.PySlice Base.Hex Model.HexSection Model.Gfx Model.Gff
  Model.MapSec Model.Sfx Model.Music Model.PngStego Generated.K_gfx Generated.K_gff Generated.K_map
  Generated.K_p8png Spec.P8Format
  Proofs.HexSectionProofs Proofs.RowLemmas Proofs.GfxProofs Proofs.MusicProofs Proofs.SfxProofs Proofs.SfxLines
  Proofs.PngProofs Proofs.LoopPins.
From Coq Require Import ZifyBool.

Lemma gfx_section k d : length d = (k * 64)%nat -> Forall byte d ->
  gfx_to_lines d = spec_gfx_lines d /\ gfx_from_lines (spec_gfx_lines d) = Ok d.
Proof.
  intros Hk Hd. split; [apply gfx_to_lines_spec; exact Hd|].
  rewrite <- gfx_to_lines_spec by exact Hd. apply (gfx_roundtrip k); assumption.
Qed.

Lemma pin_hex_line_bytes : gff_hex_line_bytes = 128 /\ map_hex_line_bytes = 128.
Proof. split; reflexivity. Qed.

Lemma gff_section d : Forall byte d ->
  gff_to_lines d = spec_hex_lines d /\ base_from_lines (spec_hex_lines d) = Ok d.
Proof.
  intros Hd. unfold gff_to_lines. destruct pin_hex_line_bytes as (-> & _). split; [apply base_to_lines_spec|].
  rewrite <- base_to_lines_spec. apply base_roundtrip; [lia | exact Hd].
Qed.

Lemma map_section d : Forall byte d ->
  map_to_lines d = spec_hex_lines d /\ base_from_lines (spec_hex_lines d) = Ok d.
Proof.
  intros Hd. unfold map_to_lines. destruct pin_hex_line_bytes as (_ & ->). split; [apply base_to_lines_spec|].
  rewrite <- base_to_lines_spec. apply base_roundtrip; [lia | exact Hd].
Qed.

Lemma music_section k d : length d = (k * 4)%nat -> Forall byte d ->
  music_to_lines d = Ok (spec_music_lines d) /\ music_from_lines (spec_music_lines d) = Ok (music_norm d).
Proof. intros Hk Hd. split; [apply (music_to_lines_spec k) | apply (music_roundtrip k)]; assumption. Qed.

Lemma sfx_section d : length d = 4352%nat -> Forall byte d ->
  sfx_to_lines d = Ok (spec_sfx_lines d) /\ sfx_from_lines (spec_sfx_lines d) = Ok d.
Proof. intros Hl Hd. split; [apply sfx_to_lines_spec | apply sfx_roundtrip]; assumption. Qed.

(* music_norm only ever clears bit 7 of the 4th byte of a pattern *)
Lemma music_norm_length d : length (music_norm d) = length d.
Proof.
  assert (H : forall n d, (length d <= n)%nat -> length (music_norm d) = length d).
  { induction n as [|n IH]; intros l Hl.
    - destruct l; [reflexivity | cbn in Hl; lia].
    - destruct l as [|b0 [|b1 [|b2 [|b3 r]]]]; try reflexivity.
      cbn [music_norm length]. rewrite IH by (cbn in Hl; lia). reflexivity. }
  apply (H (length d)). lia.
Qed.

(* the same cart as .p8 text and as .p8.png image decodes to the same regions *)
Lemma same_cart gfx map_ gff music sfx code v :
  zlen gfx = 8192 -> zlen map_ = 4096 -> zlen gff = 256 -> zlen music = 256 ->
  zlen sfx = 4352 -> zlen code = 15616 ->
  Forall byte gfx -> Forall byte map_ -> Forall byte gff -> Forall byte music -> Forall byte sfx ->
  let img := spec_image_bytes gfx map_ gff music sfx code v in
  gfx_from_lines (spec_gfx_lines gfx) = Ok (py_slice img raw_gfx_lo raw_gfx_hi) /\
  base_from_lines (spec_hex_lines map_) = Ok (py_slice img raw_p8map_lo raw_p8map_hi) /\
  base_from_lines (spec_hex_lines gff) = Ok (py_slice img raw_gfx_props_lo raw_gfx_props_hi) /\
  music_from_lines (spec_music_lines music) = Ok (music_norm (py_slice img raw_song_lo raw_song_hi)) /\
  sfx_from_lines (spec_sfx_lines sfx) = Ok (py_slice img raw_sfx_lo raw_sfx_hi).
Proof.
  intros L1 L2 L3 L4 L5 L6 B1 B2 B3 B4 B5 img.
  pose proof (image_slices gfx map_ gff music sfx code v L1 L2 L3 L4 L5 L6) as S. cbv zeta in S.
  destruct S as (S1 & S2 & S3 & S4 & S5 & _).
  subst img. rewrite S1, S2, S3, S4, S5. unfold zlen in *.
  repeat split.
  - apply (gfx_section 128 gfx); [lia | exact B1].
  - apply (map_section map_ B2).
  - apply (gff_section gff B3).
  - apply (music_section 64 music); [lia | exact B4].
  - apply (sfx_section sfx); [lia | exact B5].
Qed.
