(* C17, Map.get_rect_pixels: the code's model (get_rect_tiles, then per row of tiles eight row
   buffers extended tile by tile with get_sprite(id) or the all-zero sprite for id 0) against
   the plain model (Spec/PlainMem.spec_get_rect_pixels), for every well-formed memory and every
   in-contract rectangle; and the pixel-by-pixel reading of the plain model's result. *)
From PV Require Import Base.Prelude Base.ListX Base.PySlice Model.HexSection Model.Gfx Model.Gff Model.MapSec
  Model.Accessors Generated.K_gfx Generated.K_map
  Spec.PlainMem Proofs.RowLemmas Proofs.AccessorsBase Proofs.AccessorsSimple Proofs.AccessorsLoops.
From Coq Require Import ZifyBool.
Ltac Zify.zify_post_hook ::= Z.to_euclidean_division_equations.

(* ================= one tile ================= *)
Definition tile_block (g : list Z) (t : Z) : list (list Z) :=
  map (fun yo => map (fun xo => tile_px g t xo yo) (upto 8)) (upto 8).

Lemma spec_get_sprite_one g t : 0 <= t <= 255 ->
  spec_get_sprite g t 1 1 =
  map (fun yo => map (fun xo => get_px g (t mod 16 * 8 + xo) (t / 16 * 8 + yo)) (upto 8)) (upto 8).
Proof.
  intros Ht. unfold spec_get_sprite, zrange. change (upto 1) with [0].
  cbn [map flat_map]. rewrite !Z.add_0_r, app_nil_r.
  apply map_ext. intros yo. rewrite app_nil_r. apply map_ext. intros xo.
  assert (((15 <? t mod 16) || (15 <? t / 16)) = false) as -> by lia. reflexivity.
Qed.

Lemma grp_sprite_ok g t : zlen g = 8192 -> Forall byte g -> byte t ->
  (if map_grp_empty t then Ok map_grp_empty_sprite
   else get_sprite g (map_grp_sprite_id t) map_grp_sprite_w map_grp_sprite_h) = Ok (tile_block g t).
Proof.
  intros L B Ht. unfold byte in Ht. unfold map_grp_empty, map_grp_sprite_id, map_grp_sprite_w, map_grp_sprite_h.
  destruct (t =? 0) eqn:E.
  - assert (t = 0) by lia. subst t. reflexivity.
  - rewrite get_sprite_ok by (assumption || lia). rewrite spec_get_sprite_one by lia.
    unfold tile_block. f_equal. apply map_ext. intros yo. apply map_ext. intros xo.
    unfold tile_px. rewrite E. reflexivity.
Qed.

(* ================= the eight row buffers ================= *)
Lemma grp_extend_ok (acc f : Z -> list Z) :
  grp_extend (map acc (upto 8)) (map f (upto 8)) = Ok (map (fun i => acc i ++ f i) (upto 8)).
Proof. reflexivity. Qed.

Lemma grp_out_ok (acc : Z -> list Z) :
  mapM (py_get (map acc (upto 8))) (range map_grp_out_lo (map_grp_out_hi - map_grp_out_lo)) = Ok (map acc (upto 8)).
Proof. reflexivity. Qed.

Definition tile_row_px (g : list Z) (tiles : list Z) (yo : Z) : list Z :=
  flat_map (fun t => map (fun xo => tile_px g t xo yo) (upto 8)) tiles.

Lemma grp_fold_ok g : zlen g = 8192 -> Forall byte g ->
  forall tiles acc, Forall byte tiles ->
  foldM (fun pr id =>
           sprite <- (if map_grp_empty id then Ok map_grp_empty_sprite
                      else get_sprite g (map_grp_sprite_id id) map_grp_sprite_w map_grp_sprite_h) ;;
           grp_extend pr sprite) tiles (map acc (upto 8))
  = Ok (map (fun yo => acc yo ++ tile_row_px g tiles yo) (upto 8)).
Proof.
  intros L B. induction tiles as [|t tiles IH]; intros acc HB.
  - cbn [foldM]. f_equal. apply map_ext. intros yo. unfold tile_row_px. cbn [flat_map]. rewrite app_nil_r. reflexivity.
  - inversion HB as [|? ? Ht HB']; subst. cbn [foldM].
    rewrite grp_sprite_ok by assumption. cbn [bind]. unfold tile_block.
    rewrite (grp_extend_ok acc (fun yo => map (fun xo => tile_px g t xo yo) (upto 8))). cbn [bind].
    rewrite IH by exact HB'. f_equal. apply map_ext. intros yo.
    unfold tile_row_px. cbn [flat_map]. rewrite app_assoc. reflexivity.
Qed.

Lemma grp_tile_row_ok g tiles : zlen g = 8192 -> Forall byte g -> Forall byte tiles ->
  grp_tile_row g tiles = Ok (map (tile_row_px g tiles) (upto 8)).
Proof.
  intros L B HB. unfold grp_tile_row.
  change map_grp_pixel_row_init with (map (fun _ : Z => @nil Z) (upto 8)).
  rewrite grp_fold_ok by assumption. cbn [bind app]. apply grp_out_ok.
Qed.

(* ================= the tiles of the rectangle are bytes ================= *)
Lemma get_cell_byte m g x y : zlen m = 4096 -> zlen g = 8192 -> Forall byte m -> Forall byte g ->
  0 <= x <= 127 -> 0 <= y <= 63 -> byte (get_cell m g x y).
Proof.
  intros Lm Lg Bm Bg Hx Hy. unfold get_cell. destruct (y <? 32) eqn:E; apply at_byte; try assumption; lia.
Qed.

Lemma spec_get_rect_bytes m g x y w h : zlen m = 4096 -> zlen g = 8192 -> Forall byte m -> Forall byte g ->
  0 <= x -> 0 <= y -> forall row, In row (spec_get_rect m g x y w h) -> Forall byte row.
Proof.
  intros Lm Lg Bm Bg Hx Hy row Hin. unfold spec_get_rect in Hin. apply in_map_iff in Hin.
  destruct Hin as (ty & <- & Hty). apply in_zrange in Hty.
  apply Forall_forall. intros v Hv. apply in_map_iff in Hv. destruct Hv as (tx & <- & Htx). apply in_zrange in Htx.
  destruct ((63 <? ty) || (127 <? tx)) eqn:E; [unfold byte; lia|].
  apply get_cell_byte; try assumption; lia.
Qed.

(* ================= the whole getter ================= *)
Lemma map_get_rect_pixels_ok m g x y w h :
  zlen m = 4096 -> zlen g = 8192 -> Forall byte m -> Forall byte g ->
  0 <= x <= 127 -> 0 <= y <= 63 -> 1 <= w -> 1 <= h -> y + h <= 64 ->
  map_get_rect_pixels m g true x y w h = Ok (spec_get_rect_pixels m g x y w h).
Proof.
  intros Lm Lg Bm Bg Hx Hy Hw Hh Hyh. unfold map_get_rect_pixels, spec_get_rect_pixels.
  rewrite assert_true by reflexivity. cbn [bind].
  rewrite assert_true by (unfold map_grp_assert_x; lia). cbn [bind].
  rewrite assert_true by (unfold map_grp_assert_w; lia). cbn [bind].
  rewrite assert_true by (unfold map_grp_assert_h; lia). cbn [bind].
  rewrite assert_true by (unfold map_grp_assert_yh; lia). cbn [bind].
  rewrite map_get_rect_ok by (assumption || lia). cbn [bind].
  rewrite (mapM_total _ (fun tiles => map (tile_row_px g tiles) (upto 8))).
  - cbn [bind]. rewrite <- flat_map_concat_map. reflexivity.
  - intros tiles Hin. apply grp_tile_row_ok; try assumption.
    apply (spec_get_rect_bytes m g x y w h); try assumption; lia.
Qed.

(* without a Gfx the method refuses at once, whatever the arguments *)
Lemma map_get_rect_pixels_nogfx m g x y w h : map_get_rect_pixels m g false x y w h = Err AssertionError.
Proof. reflexivity. Qed.

Lemma mapgetrectpx_ok s x y w h :
  wf_mem s -> in_contract (MapGetRectPx x y w h) = true -> op_ok s (MapGetRectPx x y w h).
Proof.
  intros W C. wf_destruct W. unfold in_contract, inr in C. split; [|exact W].
  unfold step_model, spec_step. cbv beta iota zeta.
  rewrite map_get_rect_pixels_ok by (assumption || lia). reflexivity.
Qed.

(* ================= pixel by pixel ================= *)
Lemma nth_upto n k : 0 <= k < n -> nth (Z.to_nat k) (upto n) 0 = k.
Proof.
  intros H. unfold upto. rewrite (map_nth Z.of_nat _ 0%nat (Z.to_nat k)) .
  rewrite seq_nth by lia. lia.
Qed.

Lemma length_upto n : length (upto n) = Z.to_nat n.
Proof. unfold upto. rewrite map_length, seq_length. reflexivity. Qed.

(* a list of chunks of 8: element k sits in chunk k / 8 at position k mod 8 *)
Lemma nth_chunks8 {A B} (f : A -> Z -> B) (da : A) (db : B) l : forall k, 0 <= k < 8 * zlen l ->
  nth (Z.to_nat k) (flat_map (fun a => map (f a) (upto 8)) l) db = f (nth (Z.to_nat (k / 8)) l da) (k mod 8).
Proof.
  induction l as [|a l IH]; intros k Hk; [unfold zlen in Hk; cbn [length] in Hk; lia|].
  rewrite zlen_cons in Hk. cbn [flat_map].
  destruct (Z_lt_le_dec k 8) as [Hlt|Hge].
  - rewrite app_nth1 by (rewrite map_length, length_upto; lia).
    rewrite (nth_indep _ db (f a 0)) by (rewrite map_length, length_upto; lia).
    rewrite (map_nth (f a) (upto 8) 0). rewrite nth_upto by lia.
    replace (k / 8) with 0 by lia. replace (k mod 8) with k by lia. reflexivity.
  - rewrite app_nth2 by (rewrite map_length, length_upto; lia).
    rewrite map_length, length_upto.
    replace (Z.to_nat k - Z.to_nat 8)%nat with (Z.to_nat (k - 8)) by lia.
    rewrite IH by lia.
    replace (Z.to_nat (k / 8)) with (S (Z.to_nat ((k - 8) / 8))) by lia.
    replace ((k - 8) mod 8) with (k mod 8) by lia. reflexivity.
Qed.

Lemma length_chunks8 {A B} (f : A -> Z -> B) l : zlen (flat_map (fun a => map (f a) (upto 8)) l) = 8 * zlen l.
Proof.
  induction l as [|a l IH]; [reflexivity|]. cbn [flat_map]. rewrite zlen_app, IH, zlen_cons.
  unfold zlen at 1. rewrite map_length, length_upto. lia.
Qed.

Lemma zlen_zrange lo n : 0 <= n -> zlen (zrange lo n) = n.
Proof. intros H. unfold zrange, zlen. rewrite map_length, length_upto. lia. Qed.

Lemma nth_zrange lo n k : 0 <= k < n -> nth (Z.to_nat k) (zrange lo n) 0 = lo + k.
Proof.
  intros H. unfold zrange.
  rewrite (nth_indep _ 0 (lo + 0)) by (rewrite map_length, length_upto; lia).
  rewrite (map_nth (fun j => lo + j) (upto n) 0). rewrite nth_upto by lia. reflexivity.
Qed.

(* the tile drawn at cell offset (i, j) of the rectangle: as get_rect_tiles documents, cells
   right of column 127 read as 0 (rows below 63 are excluded by the contract) *)
Definition rect_tile (m g : list Z) (x y i j : Z) : Z :=
  if (63 <? y + j) || (127 <? x + i) then 0 else get_cell m g (x + i) (y + j).

Lemma spec_get_rect_nth m g x y w h i j : 0 <= i < w -> 0 <= j < h ->
  nth (Z.to_nat i) (nth (Z.to_nat j) (spec_get_rect m g x y w h) []) 0 = rect_tile m g x y i j.
Proof.
  intros Hi Hj. unfold spec_get_rect.
  set (F := fun ty => map (fun tx => if (63 <? ty) || (127 <? tx) then 0 else get_cell m g tx ty) (zrange x w)).
  rewrite (nth_indep _ [] (F 0)) by (rewrite map_length; unfold zrange; rewrite map_length, length_upto; lia).
  rewrite (map_nth F (zrange y h) 0). rewrite nth_zrange by lia. subst F. cbv beta.
  set (G := fun tx => if (63 <? y + j) || (127 <? tx) then 0 else get_cell m g tx (y + j)).
  rewrite (nth_indep _ 0 (G 0)) by (rewrite map_length; unfold zrange; rewrite map_length, length_upto; lia).
  rewrite (map_nth G (zrange x w) 0). rewrite nth_zrange by lia. reflexivity.
Qed.

Lemma zlen_spec_get_rect m g x y w h : 0 <= h -> zlen (spec_get_rect m g x y w h) = h.
Proof. intros H. unfold spec_get_rect. unfold zlen. rewrite map_length. apply zlen_zrange. exact H. Qed.

Lemma zlen_spec_get_rect_row m g x y w h j : 0 <= w -> 0 <= j < h ->
  zlen (nth (Z.to_nat j) (spec_get_rect m g x y w h) []) = w.
Proof.
  intros Hw Hj. unfold spec_get_rect.
  set (F := fun ty => map (fun tx => if (63 <? ty) || (127 <? tx) then 0 else get_cell m g tx ty) (zrange x w)).
  rewrite (nth_indep _ [] (F 0)) by (rewrite map_length; unfold zrange; rewrite map_length, length_upto; lia).
  rewrite (map_nth F (zrange y h) 0). subst F. cbv beta. unfold zlen. rewrite map_length. apply zlen_zrange. exact Hw.
Qed.

(* the result has 8 * h rows of 8 * w pixels, and pixel (X, Y) of it is pixel (X mod 8, Y mod 8)
   of the tile in cell (x + X / 8, y + Y / 8) - no hypothesis on the memory *)
Lemma rect_pixels_at m g x y w h X Y : 1 <= w -> 1 <= h -> 0 <= X < 8 * w -> 0 <= Y < 8 * h ->
  let r := spec_get_rect_pixels m g x y w h in
  zlen r = 8 * h /\ zlen (nth (Z.to_nat Y) r []) = 8 * w /\
  nth (Z.to_nat X) (nth (Z.to_nat Y) r []) 0 = tile_px g (rect_tile m g x y (X / 8) (Y / 8)) (X mod 8) (Y mod 8).
Proof.
  intros Hw Hh HX HY. cbv zeta. unfold spec_get_rect_pixels.
  pose proof (zlen_spec_get_rect m g x y w h ltac:(lia)) as LR.
  split; [rewrite length_chunks8, LR; reflexivity|].
  rewrite (nth_chunks8 (fun tiles yo => flat_map (fun t => map (fun xo => tile_px g t xo yo) (upto 8)) tiles) [] [])
    by (rewrite LR; lia).
  pose proof (zlen_spec_get_rect_row m g x y w h (Y / 8) ltac:(lia) ltac:(lia)) as LW.
  split; [rewrite length_chunks8, LW; reflexivity|].
  rewrite (nth_chunks8 (fun t xo => tile_px g t xo (Y mod 8)) 0 0) by (rewrite LW; lia).
  rewrite spec_get_rect_nth by lia. reflexivity.
Qed.
