(* Source pins of pico8/lua/lua.py: the Lua container alone (token and character counts, title / byline, from_lines / to_lines wiring) for the properties that do not stand on the AST writers.
   WRITTEN BY gen/mkpins.py (developer step) from the sources the hand-written model was compared with;
   each lemma fails when the function it names has been edited since (digest of ast.unparse, docstrings
   dropped; regenerated on every run into Generated/T_pins_luacontainer.v). *)
From Coq Require Import ZArith List.
Import ListNotations.
Open Scope Z_scope.
From PV Require Import Generated.T_pins_luacontainer.

Lemma pin__Lua____init___ok : pin__Lua____init__ = [171; 202; 161; 64; 237; 9; 1; 124].
Proof. reflexivity. Qed.
Lemma pin__Lua__get_char_count_ok : pin__Lua__get_char_count = [112; 39; 30; 49; 9; 40; 238; 113].
Proof. reflexivity. Qed.
Lemma pin__Lua__get_token_count_ok : pin__Lua__get_token_count = [73; 51; 152; 56; 150; 129; 60; 78].
Proof. reflexivity. Qed.
Lemma pin__Lua__get_line_count_ok : pin__Lua__get_line_count = [123; 46; 70; 0; 15; 170; 44; 179].
Proof. reflexivity. Qed.
Lemma pin__Lua__get_title_ok : pin__Lua__get_title = [130; 154; 161; 27; 158; 45; 137; 10].
Proof. reflexivity. Qed.
Lemma pin__Lua__get_byline_ok : pin__Lua__get_byline = [138; 49; 241; 104; 22; 234; 59; 40].
Proof. reflexivity. Qed.
Lemma pin__Lua__tokens_ok : pin__Lua__tokens = [78; 133; 170; 87; 120; 222; 208; 0].
Proof. reflexivity. Qed.
Lemma pin__Lua__root_ok : pin__Lua__root = [83; 180; 181; 91; 205; 84; 209; 155].
Proof. reflexivity. Qed.
Lemma pin__Lua__version_ok : pin__Lua__version = [14; 34; 32; 201; 6; 79; 141; 151].
Proof. reflexivity. Qed.
Lemma pin__Lua__from_lines_ok : pin__Lua__from_lines = [6; 188; 249; 21; 212; 119; 165; 7].
Proof. reflexivity. Qed.
Lemma pin__Lua__update_from_lines_ok : pin__Lua__update_from_lines = [76; 17; 180; 9; 138; 94; 101; 192].
Proof. reflexivity. Qed.
Lemma pin__Lua__to_lines_ok : pin__Lua__to_lines = [160; 31; 228; 131; 125; 229; 33; 138].
Proof. reflexivity. Qed.
Lemma pin__Lua__reparse_ok : pin__Lua__reparse = [174; 173; 85; 71; 235; 2; 40; 157].
Proof. reflexivity. Qed.

(* no function was added to or removed from the pinned classes *)
Lemma pin_names__luacontainer_ok : pin_names__luacontainer =
  [[112; 105; 110; 95; 95; 76; 117; 97; 95; 95; 95; 95; 105; 110; 105; 116; 95; 95]; [112; 105; 110; 95; 95; 76; 117; 97; 95; 95; 103; 101; 116; 95; 99; 104; 97; 114; 95; 99; 111; 117; 110; 116]; [112; 105; 110; 95; 95; 76; 117; 97; 95; 95; 103; 101; 116; 95; 116; 111; 107; 101; 110; 95; 99; 111; 117; 110; 116]; [112; 105; 110; 95; 95; 76; 117; 97; 95; 95; 103; 101; 116; 95; 108; 105; 110; 101; 95; 99; 111; 117; 110; 116]; [112; 105; 110; 95; 95; 76; 117; 97; 95; 95; 103; 101; 116; 95; 116; 105; 116; 108; 101]; [112; 105; 110; 95; 95; 76; 117; 97; 95; 95; 103; 101; 116; 95; 98; 121; 108; 105; 110; 101]; [112; 105; 110; 95; 95; 76; 117; 97; 95; 95; 116; 111; 107; 101; 110; 115]; [112; 105; 110; 95; 95; 76; 117; 97; 95; 95; 114; 111; 111; 116]; [112; 105; 110; 95; 95; 76; 117; 97; 95; 95; 118; 101; 114; 115; 105; 111; 110]; [112; 105; 110; 95; 95; 76; 117; 97; 95; 95; 102; 114; 111; 109; 95; 108; 105; 110; 101; 115]; [112; 105; 110; 95; 95; 76; 117; 97; 95; 95; 117; 112; 100; 97; 116; 101; 95; 102; 114; 111; 109; 95; 108; 105; 110; 101; 115]; [112; 105; 110; 95; 95; 76; 117; 97; 95; 95; 116; 111; 95; 108; 105; 110; 101; 115]; [112; 105; 110; 95; 95; 76; 117; 97; 95; 95; 114; 101; 112; 97; 114; 115; 101]].
Proof. reflexivity. Qed.
