(* The token-list hypotheses of the C10 theorems, for token lists that come from the lexer (lemmas for Properties/C10.v):

     lexer_trivia_tidy     the white-space / comment tokens of a source of the reference dialect never end a line (trivia_tidy):
                           spaces are blanks, an end-of-line comment stops before the line end, a block comment ends in `]]`
     ref_reindent_equiv    re-indentation stated on the REFERENCE tokens of two sources (Spec/LuaLex.v): the same code tokens
                           (position aside) and, at corresponding places, runs whose source text agrees after the tab / line-end
                           normalisation and the removal of blanks at line edges
     lexer_reindent_equiv  then the lexer's token lists are reindent_equiv (Spec/ReindentSpec.v), so C10_reindent_invariant applies. *)
From PV Require Import Base.Prelude Spec.LuaTokens Spec.LuaGrammar Spec.LuaLex Spec.SameCode Spec.TokenDepth Spec.ReindentSpec
  Instances.HoldsC01
  Model.Tokens Model.Parser Model.ParserInst Model.WriterChunks Model.AstWriter Model.WriterDomain Model.FmtSpaces Model.FmtSpacesInst
  Proofs.FmtSpacesProofs Proofs.FmtLinesProofs Proofs.FmtChunksProofs Proofs.FmtLineEnd Proofs.AstWriterDepth Proofs.AstWriterLines Proofs.AstWriterReindent Proofs.ParserProofs
  Proofs.LuaLexFacts Proofs.MinifyRelex Proofs.FmtRelexAuto Proofs.FmtRelexLex Proofs.FmtRelexMain Proofs.FmtRelexIdem.
From PV Require Model.Lexer Model.LexToken Proofs.LexerView Proofs.EchoRelexSpec Proofs.LexerMain.
From Coq Require Import Lia.
Import LexToken.

Local Notation tis_trivia := LuaTokens.is_trivia.
Local Notation sis_trivia := LuaLex.is_trivia.

(* ====================================================================== the lexer's tokens against the reference tokens *)
Lemma lexer_corr src ss lts : Forall byte src -> spec_lex src = Some ss -> Lexer.model_lex [src] = Ok lts ->
  Forall2 corr (map unpos ss) (map lex_token lts) /\ chain src (map unpos ss).
Proof.
  intros HB Hs Hm. destruct (LexerView.lex_agrees_code src ss HB Hs) as (lts0 & Hm0 & _ & Hag).
  rewrite Hm in Hm0. injection Hm0 as <-. split; [apply (agrees_corr ss lts Hag)|]. apply (EchoRelexSpec.spec_lex_chain src ss Hs).
Qed.

(* ====================================================================== trivia_tidy *)
Lemma ends_line_eolfree s : eolfree s -> ends_line s = false.
Proof.
  induction s as [|c r IH]; intros H; [reflexivity|]. unfold eolfree in H. cbn [forallb] in H. apply andb_true_iff in H.
  destruct H as [Hc Hr]. apply negb_true_iff in Hc. cbn [ends_line]. rewrite Hc, (IH Hr). reflexivity.
Qed.

Lemma ends_line_snoc a c : is_blankb c = false -> is_eolb c = false -> ends_line (a ++ [c]) = false.
Proof.
  intros Hb He. induction a as [|x a IH]; cbn [app ends_line forallb]; [rewrite He; reflexivity|].
  rewrite IH, forallb_app. cbn [forallb]. rewrite Hb, andb_false_r, andb_false_r. reflexivity.
Qed.

Lemma blank_eolfree a : forallb LuaLex.is_blank a = true -> eolfree a.
Proof.
  intros H. unfold eolfree. apply forallb_forall. intros x Hx. rewrite forallb_forall in H. specialize (H x Hx).
  unfold LuaLex.is_blank in H. unfold is_eolb, NL, CR. apply negb_true_iff. apply orb_true_iff in H.
  destruct H as [H|H]; apply Z.eqb_eq in H; subst x; reflexivity.
Qed.

Lemma noteol_eolfree a : forallb not_eol a = true -> eolfree a.
Proof.
  intros H. unfold eolfree. apply forallb_forall. intros x Hx. rewrite forallb_forall in H. specialize (H x Hx).
  unfold not_eol, is_eol in H. unfold is_eolb, NL, CR. exact H.
Qed.

(* a white-space or comment token of the reference lexer that is not a line break does not end a line *)
Lemma trivia_step_tidy s t rest : spec_step s = Some (t, rest) -> sis_trivia t = true -> is_nlk t = false -> ends_line (s_raw t) = false.
Proof.
  intros H Ht Hn. pose proof (spec_step_shape _ _ _ H) as Sh. destruct Sh; try discriminate Hn; try discriminate Ht.
  - apply ends_line_eolfree, blank_eolfree. eapply span_all; eassumption.
  - destruct (long_body_ctx _ _ _ _ _ H1) as (-> & _ & _). cbn [s_raw mk]. unfold closer. cbn [repeat app].
    change (45 :: 45 :: 91 :: 91 :: b ++ [93; 93]) with ([45; 45; 91; 91] ++ b ++ [93; 93]).
    replace ([45; 45; 91; 91] ++ b ++ [93; 93]) with (([45; 45; 91; 91] ++ b ++ [93]) ++ [93]) by (rewrite <- !app_assoc; reflexivity).
    apply ends_line_snoc; reflexivity.
  - apply ends_line_eolfree, noteol_eolfree. eapply span_all; eassumption.
  - apply ends_line_eolfree, noteol_eolfree. eapply span_all; eassumption.
  - apply spec_number_kind in H1. unfold sis_trivia in Ht. rewrite H1 in Ht. discriminate Ht.
  - unfold sis_trivia in Ht. cbn [s_kind mk] in Ht. destruct (mem_bytes a spec_keywords); discriminate Ht.
  - apply spec_symbol_kind in H0. unfold sis_trivia in Ht. rewrite H0 in Ht. discriminate Ht.
Qed.

Theorem lexer_trivia_tidy src ss lts : Forall byte src -> spec_lex src = Some ss -> Lexer.model_lex [src] = Ok lts ->
  trivia_tidy (map lex_token lts) = true.
Proof.
  intros HB Hs Hm. destruct (lexer_corr src ss lts HB Hs Hm) as [Hc Hch].
  revert Hc. generalize (map lex_token lts). generalize dependent (map unpos ss). clear. intros l Hch.
  induction Hch as [|s t rest ts Hs _ IH]; intros l' Hc; inversion Hc as [|s0 t' ss0 l'1 Hst Hc1]; subst; [reflexivity|].
  unfold trivia_tidy. cbn [forallb]. fold (trivia_tidy l'1). rewrite (IH _ Hc1), andb_true_r.
  rewrite (corr_trivia t t' Hst). destruct (sis_trivia t) eqn:Et; [|reflexivity]. cbn [negb orb].
  rewrite (corr_newline t t' Hst). destruct (is_nlk t) eqn:En; [reflexivity|]. cbn [orb].
  destruct Hst as [_ [Hcode _]]. rewrite Hcode, (trivial_code t Et), (trivia_step_tidy _ _ _ Hs Et En). reflexivity.
Qed.

(* ====================================================================== re-indentation on reference tokens *)
Fixpoint segsS (ss : list stok) : list stok * list (stok * list stok) :=
  match ss with
  | [] => ([], [])
  | t :: r => let '(r0, l) := segsS r in if sis_trivia t then (t :: r0, l) else ([], (t, r0) :: l)
  end.

(* two runs of reference tokens whose source text agrees after the normalisation *)
Definition text_norm_rel (at_start at_end : bool) (x1 x2 : list Z) : Prop :=
  if at_end
  then strip_line_edges_end at_start (canon_ws x1) = strip_line_edges_end at_start (canon_ws x2)
  else strip_line_edges at_start (canon_ws x1) = strip_line_edges at_start (canon_ws x2).

Fixpoint ref_body_equiv (l1 l2 : list (stok * list stok)) : Prop :=
  match l1, l2 with
  | [], [] => True
  | (t1, r1) :: l1', (t2, r2) :: l2' => t1 = t2 /\ text_norm_rel false (is_nilb l1') (rawtxt r1) (rawtxt r2) /\ ref_body_equiv l1' l2'
  | _, _ => False
  end.

(* ss1, ss2: reference token lists without positions (map unpos) *)
Definition ref_reindent_equiv (ss1 ss2 : list stok) : Prop :=
  text_norm_rel true (is_nilb (snd (segsS ss1))) (rawtxt (fst (segsS ss1))) (rawtxt (fst (segsS ss2))) /\
  ref_body_equiv (snd (segsS ss1)) (snd (segsS ss2)).

Definition seg_corr (p : stok * list stok) (p' : token * list token) : Prop :=
  corr (fst p) (fst p') /\ Forall2 corr (snd p) (snd p') /\ Forall trivial (snd p).

Lemma segs_corr ss ts : Forall2 corr ss ts ->
  Forall2 corr (fst (segsS ss)) (fst (segs ts)) /\ Forall trivial (fst (segsS ss)) /\ Forall2 seg_corr (snd (segsS ss)) (snd (segs ts)).
Proof.
  induction 1 as [|s t ss ts Hst _ IH]; [repeat split; constructor|]. cbn [segsS segs].
  destruct (segsS ss) as [a l], (segs ts) as [a' l']. cbn [fst snd] in IH. destruct IH as (I1 & I2 & I3).
  rewrite (corr_trivia s t Hst). destruct (sis_trivia s) eqn:Et; cbn [fst snd].
  - split; [constructor; assumption|]. split; [constructor; assumption | exact I3].
  - split; [constructor|]. split; [constructor|]. constructor; [|exact I3]. split; [exact Hst|]. split; assumption.
Qed.

Lemma corr_functional s t t' : corr s t -> corr s t' -> t' = t.
Proof.
  intros (Hk & Hc & Hf) (Hk' & Hc' & Hf').
  assert (Hq : tq t' = tq t /\ tdata t' = tdata t).
  { unfold tokfields in Hf, Hf'. destruct (s_kind s); try (destruct Hf, Hf'; split; congruence).
    destruct (s_long s <? 0); destruct Hf as [A B], Hf' as [A' B']; (split; [congruence|]); [congruence|].
    rewrite B in B'. injection B' as B'. apply app_inv_head in B'. injection B' as B'. apply app_inv_tail in B'. symmetry. exact B'. }
  destruct Hq as [Hq Hd]. destruct t as [k1 q1 d1 c1], t' as [k2 q2 d2 c2]. cbn [tk tq tdata tcode] in *. congruence.
Qed.

Lemma run_code_raw r r' : Forall2 corr r r' -> Forall trivial r -> run_code r' = rawtxt r.
Proof.
  intros Hc Ht. unfold run_code, rawtxt. f_equal. induction Hc as [|s t a b Hst _ IH]; [reflexivity|].
  inversion Ht; subst. cbn [map]. f_equal; [|apply IH; assumption]. destruct Hst as [_ [-> _]]. apply trivial_code. assumption.
Qed.

Lemma text_norm_run a e r1 r1' r2 r2' : Forall2 corr r1 r1' -> Forall trivial r1 -> Forall2 corr r2 r2' -> Forall trivial r2 ->
  text_norm_rel a e (rawtxt r1) (rawtxt r2) -> run_norm_rel a e r1' r2'.
Proof.
  intros C1 T1 C2 T2 H. unfold run_norm_rel. rewrite (run_code_raw _ _ C1 T1), (run_code_raw _ _ C2 T2). exact H.
Qed.

Lemma ref_body_equiv_tokens : forall l1 l1' l2 l2', Forall2 seg_corr l1 l1' -> Forall2 seg_corr l2 l2' ->
  ref_body_equiv l1 l2 -> body_equiv run_norm_rel l1' l2'.
Proof.
  induction l1 as [|[s1 r1] l1 IH]; intros l1' l2 l2' H1 H2 He; inversion H1 as [|p p' q q' Hp Hq]; subst;
    destruct l2 as [|[s2 r2] l2]; cbn [ref_body_equiv] in He; try contradiction; inversion H2 as [|p2 p2' q2 q2' Hp2 Hq2]; subst; [exact I|].
  destruct p' as [t1 x1], p2' as [t2 x2]. destruct Hp as (A1 & A2 & A3), Hp2 as (B1 & B2 & B3). cbn [fst snd] in *.
  destruct He as (-> & Hr & Hb). cbn [body_equiv]. split; [symmetry; eapply corr_functional; eassumption|]. split.
  - assert (El : is_nilb q' = is_nilb l1) by (clear -Hq; destruct Hq; reflexivity). rewrite El. eapply text_norm_run; eassumption.
  - eapply IH; eassumption.
Qed.

Theorem lexer_reindent_equiv src1 ss1 lts1 src2 ss2 lts2 :
  Forall byte src1 -> spec_lex src1 = Some ss1 -> Lexer.model_lex [src1] = Ok lts1 ->
  Forall byte src2 -> spec_lex src2 = Some ss2 -> Lexer.model_lex [src2] = Ok lts2 ->
  ref_reindent_equiv (map unpos ss1) (map unpos ss2) ->
  reindent_equiv (map lex_token lts1) (map lex_token lts2).
Proof.
  intros B1 S1 M1 B2 S2 M2 [Ha Hb].
  destruct (lexer_corr _ _ _ B1 S1 M1) as [C1 _]. destruct (lexer_corr _ _ _ B2 S2 M2) as [C2 _].
  destruct (segs_corr _ _ C1) as (P1 & P2 & P3). destruct (segs_corr _ _ C2) as (Q1 & Q2 & Q3).
  unfold reindent_equiv, layout_equiv.
  destruct (segs (map lex_token lts1)) as [a1 l1], (segs (map lex_token lts2)) as [a2 l2]. cbn [fst snd] in *. split.
  - assert (El : is_nilb l1 = is_nilb (snd (segsS (map unpos ss1)))) by (clear -P3; destruct P3; reflexivity).
    rewrite El. eapply text_norm_run; eassumption.
  - eapply ref_body_equiv_tokens; eassumption.
Qed.

(* re-indentation invariance from source bytes: the relation between the two sources is stated on their reference tokens *)
Theorem reindent_bytes_partial w src1 ss1 lts1 root1 e1 src2 ss2 lts2 root2 e2 :
  Forall byte src1 -> spec_lex src1 = Some ss1 -> Lexer.model_lex [src1] = Ok lts1 ->
  lua_parse (map lex_token lts1) = Ok (root1, e1) -> consumed (map lex_token lts1) e1 = true ->
  writable (map lex_token lts1) root1 = true -> no_trailing_sep root1 = true -> gaps_tidy (map lex_token lts1) = true ->
  Forall byte src2 -> spec_lex src2 = Some ss2 -> Lexer.model_lex [src2] = Ok lts2 ->
  lua_parse (map lex_token lts2) = Ok (root2, e2) -> consumed (map lex_token lts2) e2 = true ->
  writable (map lex_token lts2) root2 = true -> no_trailing_sep root2 = true -> gaps_tidy (map lex_token lts2) = true ->
  ref_reindent_equiv (map unpos ss1) (map unpos ss2) ->
  writer_text (fmt_spaces w) (map lex_token lts1) (view root1) = writer_text (fmt_spaces w) (map lex_token lts2) (view root2).
Proof.
  intros B1 S1 M1 P1 C1 W1 T1 G1 B2 S2 M2 P2 C2 W2 T2 G2 He.
  apply (program_reindent w _ _ root1 e1 root2 e2); try assumption.
  exact (lexer_reindent_equiv src1 ss1 lts1 src2 ss2 lts2 B1 S1 M1 B2 S2 M2 He).
Qed.

(* C10's indentation clause from source bytes: trivia_tidy is a fact about lexer output *)
Theorem indent_text w src ss lts root e :
  Forall byte src -> spec_lex src = Some ss -> Lexer.model_lex [src] = Ok lts ->
  lua_parse (map lex_token lts) = Ok (root, e) -> consumed (map lex_token lts) e = true ->
  writable (map lex_token lts) root = true -> codes_tidy (map lex_token lts) = true -> no_trailing_sep root = true ->
  exists cs, writer_text (fmt_spaces w) (map lex_token lts) (view root) = Ok (chunks_text (fmt_spaces w) cs) /\
    codes_of cs = sig_codes (map lex_token lts) 0 /\
    forall A i text B p q, cs = A ++ Code i text :: B ->
      chunks_text (fmt_spaces w) A = p ++ NL :: q -> noNL q -> forallb is_sp q = true ->
      sigb (map lex_token lts) i = true /\ 0 <= token_depth (map lex_token lts) i /\
      q = repeat SP (Z.to_nat w * Z.to_nat (token_depth (map lex_token lts) i)).
Proof.
  intros HB Hs Hm Hp Hc Hw Hct Hts. apply (program_indent _ w root e Hp Hc Hw Hct); [|exact Hts].
  exact (lexer_trivia_tidy src ss lts HB Hs Hm).
Qed.
