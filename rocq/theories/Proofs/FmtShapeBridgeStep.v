(* One step of the full lexer (Spec/LuaLex.v) against the skeleton reader of Proofs/FmtShapeBridge.v, and the
   agreement of the marks of FmtShape.lex and of the token chain of LuaLex.spec_lex.

     step_sks      one token of the full lexer is read by the skeleton as itself (white space, newline, comment, string)
                   or as its bytes one by one (every other code token), when the skeleton takes a step at all
     chain_marks   chain s ss and a skeleton reading of s have the same marks
     marks_agree   FmtShape.lex s = Some ts -> chain s ss -> marksF ts = marksS ss *)
From PV Require Import Base.Prelude Spec.LuaLex Instances.HoldsC01 Proofs.LuaLexFacts Proofs.SpecLexChunk Proofs.FmtRelexLex.
From PV Require Import Proofs.FmtShapeBridgeStr Proofs.FmtShapeBridge.
From PV Require Spec.FmtShape.
From Coq Require Import Lia ZifyBool.

(* ====================================================================== small facts on the skeleton *)
Lemma sk1_other s k a r : F.lex1 s = Some ((k, a), r) -> is_codek k = false -> sk1 s = Some ((k, a), r).
Proof. intros H Hk. unfold sk1. rewrite H, Hk. reflexivity. Qed.

Lemma sks_one s t r : sk1 s = Some (t, r) -> sks s [t] r.
Proof. intros H. econstructor; [exact H | constructor]. Qed.

Lemma sk1_sym s c r : F.lex1 s = Some ((F.KSym, [c]), r) -> sk1 s = Some (plain c, r).
Proof.
  intros H. destruct (sk1_code _ _ _ _ H eq_refl) as (c' & s' & E & Hs). rewrite Hs.
  pose proof (lex1_code_shape _ _ _ _ H eq_refl) as (E2 & _). rewrite E in E2. cbn [app] in E2. injection E2 as -> ->. reflexivity.
Qed.

Lemma marksF_one t : marksF [t] = fmark t.
Proof. unfold marksF. cbn [flat_map]. apply app_nil_r. Qed.

(* ====================================================================== FmtShape.lex1 on the token classes *)
Lemma lex1_space c r a rest : LuaLex.is_blank c = true -> LuaLex.span LuaLex.is_blank (c :: r) = (a, rest) ->
  F.lex1 (c :: r) = Some ((F.KBlank, a), rest).
Proof.
  intros Hb Hs. unfold F.lex1. change (F.is_blank c) with (LuaLex.is_blank c). rewrite Hb. rewrite span_same.
  change F.is_blank with LuaLex.is_blank. rewrite Hs. reflexivity.
Qed.

Lemma flo_none r2 : match r2 with 91 :: r3 => LuaLex.long_open r3 0 = None | _ => True end -> F.long_open r2 = None.
Proof.
  destruct r2 as [|c r3]; [reflexivity|]. destruct (c =? 91) eqn:E.
  - apply Z.eqb_eq in E. subst c. intros Hn. change (LuaLex.long_open r3 0 = None) in Hn. rewrite long_open_rel, Hn. reflexivity.
  - intros _. apply long_open_not_bracket, E.
Qed.

Lemma lex1_dashdash r2 a rest : F.long_open r2 = None ->
  LuaLex.span (fun c => negb (is_eol c)) (45 :: 45 :: r2) = (a, rest) ->
  F.lex1 (45 :: 45 :: r2) = Some ((F.KLineComment, a), rest).
Proof.
  intros Hn Hs. unfold F.lex1.
  change (F.is_blank 45) with false. change (45 =? F.cNL) with false. change (45 =? F.cCR) with false.
  change ((45 =? F.cDASH) && starts_with [F.cDASH; F.cDASH] (45 :: 45 :: r2)) with true. cbv iota zeta.
  change (skipn 2 (45 :: 45 :: r2)) with r2. rewrite Hn. rewrite span_same.
  change F.not_eol with (fun c => negb (is_eol c)). rewrite Hs. reflexivity.
Qed.

Lemma lex1_block r3 r4 b cl rest : LuaLex.long_open r3 0 = Some (0, r4) -> LuaLex.long_body 0 r4 = Some (b, cl, rest) ->
  F.lex1 (45 :: 45 :: 91 :: r3) = Some ((F.KBlockComment, 45 :: 45 :: 91 :: 91 :: b ++ cl), rest).
Proof.
  intros Ho Hb. unfold F.lex1.
  change (F.is_blank 45) with false. change (45 =? F.cNL) with false. change (45 =? F.cCR) with false.
  change ((45 =? F.cDASH) && starts_with [F.cDASH; F.cDASH] (45 :: 45 :: 91 :: r3)) with true. cbv iota zeta.
  change (skipn 2 (45 :: 45 :: 91 :: r3)) with (91 :: r3). rewrite long_open_rel, Ho.
  change (Z.to_nat 0) with O. rewrite (long_close_rel _ _ _ _ _ Hb). reflexivity.
Qed.

Lemma lex1_slashslash r2 a rest : LuaLex.span (fun c => negb (is_eol c)) (47 :: 47 :: r2) = (a, rest) ->
  F.lex1 (47 :: 47 :: r2) = Some ((F.KLineComment, a), rest).
Proof.
  intros Hs. unfold F.lex1.
  change (F.is_blank 47) with false. change (47 =? F.cNL) with false. change (47 =? F.cCR) with false.
  change ((47 =? F.cDASH) && starts_with [F.cDASH; F.cDASH] (47 :: 47 :: r2)) with false.
  change ((47 =? F.cSLASH) && starts_with [F.cSLASH; F.cSLASH] (47 :: 47 :: r2)) with true. cbv iota.
  rewrite span_same. change F.not_eol with (fun c => negb (is_eol c)). rewrite Hs. reflexivity.
Qed.

Lemma lex1_bracket r :
  F.lex1 (91 :: r) =
  match F.long_open (91 :: r) with
  | Some (level, op, t) =>
    match F.find_long_close (F.long_closer level) t with
    | Some (a, b) => Some ((F.KStr, op ++ a), b)
    | None => None
    end
  | None => Some ((F.KSym, [91]), r)
  end.
Proof. reflexivity. Qed.

Lemma lex1_quoted q r : (q = 34 \/ q = 39) ->
  F.lex1 (q :: r) = match F.scan_quoted q r with Some (a, b) => Some ((F.KStr, q :: a), b) | None => None end.
Proof. intros [-> | ->]; reflexivity. Qed.

Lemma lex1_dash c r : (c =? 45) = false -> F.lex1 (45 :: c :: r) = Some ((F.KSym, [45]), c :: r).
Proof.
  intros H. unfold F.lex1.
  change (F.is_blank 45) with false. change (45 =? F.cNL) with false. change (45 =? F.cCR) with false.
  change ((45 =? F.cDASH) && starts_with [F.cDASH; F.cDASH] (45 :: c :: r)) with ((45 =? c) && true).
  rewrite (Z.eqb_sym 45 c), H. reflexivity.
Qed.

Lemma lex1_slash c r : (c =? 47) = false -> F.lex1 (47 :: c :: r) = Some ((F.KSym, [47]), c :: r).
Proof.
  intros H. unfold F.lex1.
  change (F.is_blank 47) with false. change (47 =? F.cNL) with false. change (47 =? F.cCR) with false.
  change ((47 =? F.cDASH) && starts_with [F.cDASH; F.cDASH] (47 :: c :: r)) with false.
  change ((47 =? F.cSLASH) && starts_with [F.cSLASH; F.cSLASH] (47 :: c :: r)) with ((47 =? c) && true).
  rewrite (Z.eqb_sym 47 c), H. reflexivity.
Qed.

(* ====================================================================== runs of plain bytes *)
Lemma name_char_unspecial c : LuaLex.is_name_char c = true -> negb (special c) = true.
Proof.
  intros H. rewrite num_char_not_special; [reflexivity|]. apply name_char_num. exact H.
Qed.

Lemma fdigit_not_dash d : F.is_digit d = true -> (d =? 45) = false.
Proof. unfold F.is_digit. lia. Qed.

Lemma sks_okrun run rest : okrun run = true -> sks (run ++ rest) (map plain run) rest.
Proof.
  induction run as [|c r IH]; intros H; [constructor|]. cbn [okrun] in H. apply andb_true_iff in H. destruct H as [Hc Hr].
  cbn [app map]. econstructor; [|apply IH, Hr].
  destruct (F.is_num_char c) eqn:En.
  - apply sk1_unspecial, num_char_not_special, En.
  - cbn [orb] in Hc. apply andb_true_iff in Hc. destruct Hc as [Hc Hd]. apply Z.eqb_eq in Hc. subst c.
    destruct r as [|d r']; [discriminate Hd|]. cbn [app]. apply sk1_sym, lex1_dash, fdigit_not_dash, Hd.
Qed.

(* the symbols: every byte but the first is read as plain code wherever it stands; so is the first one, except in - -= / /= [ *)
Lemma sym_cases x : In x spec_symbols ->
  forallb (fun c => negb (special c)) x = true \/ x = [45] \/ x = [45; 61] \/ x = [47] \/ x = [47; 61] \/ x = [91].
Proof.
  intros Hin. unfold spec_symbols, bs_ in Hin. cbn [unBS In] in Hin.
  repeat (destruct Hin as [<-|Hin];
    [first [left; reflexivity | right; left; reflexivity | right; right; left; reflexivity | do 3 right; left; reflexivity
           | do 4 right; left; reflexivity | do 5 right; reflexivity]|]).
  contradiction.
Qed.

Lemma sks_61 r : sks (61 :: r) [plain 61] r.
Proof. apply sks_one, sk1_unspecial. reflexivity. Qed.

Lemma symbol_sks x rest : In x spec_symbols -> spec_step (x ++ rest) = Some (LuaLex.mk SSymbol x x, rest) ->
  sks (x ++ rest) (map plain x) rest.
Proof.
  intros Hin H. destruct (sym_cases x Hin) as [Hu|[->|[->|[->|[->| ->]]]]]; [apply sks_unspecial, Hu| | | | |]; cbn [app map] in *.
  - (* - *)
    destruct rest as [|c r]; [apply sks_one; reflexivity|]. destruct (c =? 45) eqn:Ec.
    + exfalso. apply Z.eqb_eq in Ec. subst c. rewrite dash_eq in H. unfold line_comment in H.
      break_match H; injection H as Ht _; discriminate Ht.
    + apply sks_one, sk1_sym, lex1_dash, Ec.
  - (* -= *)
    econstructor; [apply sk1_sym, lex1_dash; reflexivity | apply sks_61].
  - (* / *)
    destruct rest as [|c r]; [apply sks_one; reflexivity|]. destruct (c =? 47) eqn:Ec.
    + exfalso. apply Z.eqb_eq in Ec. subst c. unfold spec_step, line_comment in H. cbn -[LuaLex.span] in H.
      destruct (LuaLex.span _ _) in H. injection H as Ht _. discriminate Ht.
    + apply sks_one, sk1_sym, lex1_slash, Ec.
  - (* /= *)
    econstructor; [apply sk1_sym, lex1_slash; reflexivity | apply sks_61].
  - (* [ *)
    rewrite bracket_eq in H. destruct (LuaLex.long_open rest 0) as [[lvl r2]|] eqn:Eo.
    + exfalso. destruct (LuaLex.long_body _ _) as [[[b0 cl] rs]|] in H; [|discriminate]. injection H as Ht _. discriminate Ht.
    + apply sks_one, sk1_sym. rewrite lex1_bracket, long_open_rel, Eo. reflexivity.
Qed.

(* ====================================================================== one step *)
Lemma step_sks s t rest : spec_step s = Some (t, rest) -> (exists t0 s0, sk1 s = Some (t0, s0)) ->
  exists K, sks s K rest /\ marksF K = smark t.
Proof.
  intros H Hp. pose proof (spec_step_shape _ _ _ H) as Sh.
  destruct Sh as [c r a rest Hb Hs | rest | rest | r3 r4 b cl rest Ho Hb | r2 a rest Hn Hs | r2 a rest Hs
                 | r lvl r2 b cl rest Ho Hb | q r v raw rest Hq Hu | s t rest Hn Hs | c r a rest Hn Hs
                 | r2 n0 a rest Hs Hn | rest | s t rest Hs].
  - (* white space *)
    exists [(F.KBlank, a)]. split; [|reflexivity]. apply sks_one, sk1_other; [apply lex1_space; assumption | reflexivity].
  - (* LF *)
    exists [(F.KNl, [10])]. split; [|reflexivity]. apply sks_one. reflexivity.
  - (* CR LF *)
    exists [(F.KNl, [13; 10])]. split; [|reflexivity]. apply sks_one. reflexivity.
  - (* block comment *)
    exists [(F.KBlockComment, 45 :: 45 :: 91 :: 91 :: b ++ cl)]. split; [|reflexivity].
    apply sks_one, sk1_other; [eapply lex1_block; eassumption | reflexivity].
  - (* -- comment *)
    exists [(F.KLineComment, a)]. split; [|reflexivity].
    apply sks_one, sk1_other; [apply lex1_dashdash; [apply flo_none, Hn | exact Hs] | reflexivity].
  - (* // comment *)
    exists [(F.KLineComment, a)]. split; [|reflexivity].
    apply sks_one, sk1_other; [apply lex1_slashslash, Hs | reflexivity].
  - (* long string *)
    exists [(F.KStr, (91 :: repeat 61 (Z.to_nat lvl) ++ [91]) ++ b ++ cl)]. split.
    + apply sks_one, sk1_other; [|reflexivity]. rewrite lex1_bracket, long_open_rel, Ho, (long_close_rel _ _ _ _ _ Hb). reflexivity.
    + rewrite marksF_one. unfold fmark, smark. cbn [F.is_code fst snd is_trivia s_kind s_raw]. f_equal.
      cbn [app]. rewrite <- app_assoc. reflexivity.
  - (* quoted string *)
    exists [(F.KStr, q :: raw)]. split.
    + destruct Hp as (t0 & s0 & Hp). unfold sk1 in Hp. destruct (F.lex1 (q :: r)) as [[[k a] r']|] eqn:E; [|discriminate Hp].
      rewrite (lex1_quoted q r Hq) in E. destruct (F.scan_quoted q r) as [[a0 b0]|] eqn:Es; [|discriminate E].
      destruct (quoted_extent q Hq _ _ _ _ _ _ Hu Es) as [-> ->].
      apply sks_one, sk1_other; [|reflexivity]. rewrite (lex1_quoted q r Hq), Es. reflexivity.
    + rewrite marksF_one. reflexivity.
  - (* number *)
    unfold spec_number in Hs. destruct (num_split s) as [run r0] eqn:En.
    destruct (spec_numeral run) as [[n d]|] eqn:Ev; [|discriminate Hs]. injection Hs as <- <-.
    exists (map plain run). split; [|rewrite marksF_plain; reflexivity].
    rewrite (num_split_split _ _ _ En). apply sks_okrun. eapply numeral_okrun, Ev.
  - (* name / keyword *)
    exists (map plain a). split.
    + rewrite (LuaLexFacts.span_split _ _ _ _ Hs). apply sks_unspecial.
      eapply forallb_impl; [|eapply LuaLexFacts.span_all, Hs]. apply name_char_unspecial.
    + rewrite marksF_plain. destruct (mem_bytes a spec_keywords); reflexivity.
  - (* label *)
    exists (map plain (58 :: 58 :: (n0 :: a) ++ [58; 58])). split; [|rewrite marksF_plain; reflexivity].
    pose proof (LuaLexFacts.span_split _ _ _ _ Hs) as ->. pose proof (LuaLexFacts.span_all _ _ _ _ Hs) as Ha.
    replace (58 :: 58 :: (n0 :: a) ++ 58 :: 58 :: rest) with ((58 :: 58 :: (n0 :: a) ++ [58; 58]) ++ rest)
      by (cbn [app]; rewrite <- app_assoc; reflexivity).
    apply sks_unspecial. change (58 :: 58 :: (n0 :: a) ++ [58; 58]) with ([58; 58] ++ (n0 :: a) ++ [58; 58]).
    rewrite !forallb_app. rewrite (forallb_impl _ _ _ name_char_unspecial Ha). reflexivity.
  - (* ? *)
    exists [plain 63]. split; [|reflexivity]. apply sks_one, sk1_unspecial. reflexivity.
  - (* symbol *)
    destruct (spec_symbol_inv _ _ _ Hs) as (x & Hin & -> & ->). exists (map plain x).
    split; [apply symbol_sks; assumption | rewrite marksF_plain; reflexivity].
Qed.

(* ====================================================================== the whole text *)
Theorem chain_marks s ss : chain s ss -> forall K, sks s K [] -> marksF K = marksS ss.
Proof.
  induction 1 as [|s t rest ts Hs Hc IH]; intros K HK.
  - inversion HK as [|s0 t0 s0' K0 r0 Hs0 HK0]; subst; [reflexivity|]. rewrite sk1_nil in Hs0. discriminate Hs0.
  - assert (Hp : exists t0 s0, sk1 s = Some (t0, s0)).
    { inversion HK as [|s0 t0 s0' K0 r0 Hs0 HK0]; subst; [discriminate Hs | eauto]. }
    destruct (step_sks _ _ _ Hs Hp) as (K1 & H1 & M1).
    destruct (sks_prefix _ _ _ H1 _ HK) as (K' & -> & H').
    rewrite marksF_app, M1, (IH _ H'). reflexivity.
Qed.

Theorem marks_agree s ts ss : F.lex s = Some ts -> chain s ss -> marksF ts = marksS ss.
Proof.
  intros Hl Hc. destruct (lex_marks _ _ Hl) as (K & HK & M). rewrite <- M. eapply chain_marks; eassumption.
Qed.
