(* The reference nesting depth (Spec/TokenDepth.v) along the leaves of a spanned, shaped tree: the token-stream
   depth state after a subtree is the state before it (blocks and brackets are balanced inside every node of the
   grammar); a function body leaves the state it was entered in, with the function-header flag cleared.
   Pure facts about the token list and the tree; nothing about the writer. *)
From PV Require Import Base.Prelude Base.PySlice Spec.LuaTokens Spec.LuaGrammar Spec.FmtShape Spec.TokenDepth Model.Tokens Model.Parser
  Model.WriterChunks Model.AstWriter Model.WriterDomain Proofs.ParserProofs Proofs.TreeShape Proofs.WriterCursor Proofs.AstWriterAligned.
From Coq Require Import ZifyBool.
Ltac Zify.zify_post_hook ::= Z.to_euclidean_division_equations.

(* a pattern whose tokens do not change the depth state *)
Definition neutral_tok (t : token) : bool :=
  negb (t_is_closer t) && negb (t_kw "function"%bs t) && negb (t_sym 40 t) && negb (t_sym 41 t) &&
  negb (t_is_open_bracket t) && negb (t_is_opener_kw t).

Definition neutral_pat (p : pat) : bool :=
  match p with PTok k d => zlist_eqb (lower d) d && neutral_tok (mkTok k 0 d d) | PClass _ => false end.

Lemma neutral_class_data t k d : tk t = k -> tdata t = d -> neutral_tok t = neutral_tok (mkTok k 0 d d).
Proof. intros <- <-. unfold neutral_tok, t_is_closer, t_is_open_bracket, t_is_opener_kw, t_kw, t_sym. cbn [tk tdata]. reflexivity. Qed.

Lemma neutral_at st t : neutral_tok t = true -> tok_depth_at st t = d_depth st /\ tok_depth_after st t = st.
Proof.
  unfold neutral_tok. intros H. repeat (apply andb_true_iff in H; destruct H as [H ?]).
  repeat match goal with Hn : negb _ = true |- _ => apply negb_true_iff in Hn end.
  unfold tok_depth_after, tok_depth_at. rewrite H.
  repeat match goal with Hn : _ = false |- _ => rewrite Hn; clear Hn end. cbn [orb]. destruct st. split; reflexivity.
Qed.

(* the depth functions look at the class and the data only *)
Lemma depth_class_data st t k d : tk t = k -> tdata t = d ->
  tok_depth_at st t = tok_depth_at st (mkTok k 0 d d) /\ tok_depth_after st t = tok_depth_after st (mkTok k 0 d d).
Proof.
  intros <- <-. unfold tok_depth_after, tok_depth_at, t_is_closer, t_is_open_bracket, t_is_opener_kw, t_kw, t_sym. cbn [tk tdata].
  split; reflexivity.
Qed.

Lemma neutral_class t : match tk t with CKeyword | CSymbol => False | _ => True end -> neutral_tok t = true.
Proof.
  unfold neutral_tok, t_is_closer, t_is_open_bracket, t_is_opener_kw, t_kw, t_sym. destruct (tk t); intros H; try contradiction; reflexivity.
Qed.

(* ------------------------------------------------------------------ the kinds of tokens the depth rules distinguish *)
Inductive tkind : Set := TNeutral | TOpenKw | TCloseKw | TElse | TFunction | TLParen | TRParen | TOpenBr | TCloseBr.

Definition kind_of (t : token) : tkind :=
  if t_kw "function"%bs t then TFunction
  else if t_sym 40 t then TLParen
  else if t_sym 41 t then TRParen
  else if t_kw "else"%bs t then TElse
  else if t_kw "end"%bs t || t_kw "until"%bs t || t_kw "elseif"%bs t then TCloseKw
  else if t_sym 125 t || t_sym cRBR t then TCloseBr
  else if t_sym 123 t || t_sym cLBR t then TOpenBr
  else if t_kw "do"%bs t || t_kw "then"%bs t || t_kw "repeat"%bs t then TOpenKw
  else TNeutral.

(* a token is of one class with one data: the tests exclude each other *)
Lemma t_kw_excl w1 w2 t : t_kw w1 t = true -> zlist_eqb w1 w2 = false -> t_kw w2 t = false.
Proof.
  unfold t_kw. intros H Hn. apply andb_true_iff in H. destruct H as [H1 H2]. apply zlist_eqb_eq in H2. rewrite H1, H2. exact Hn.
Qed.
Lemma t_kw_sym_excl w c t : t_kw w t = true -> t_sym c t = false.
Proof. unfold t_kw, t_sym. intros H. apply andb_true_iff in H. destruct H as [H1 _]. apply kclass_eqb_eq in H1. rewrite H1. reflexivity. Qed.
Lemma t_sym_kw_excl w c t : t_sym c t = true -> t_kw w t = false.
Proof. unfold t_kw, t_sym. intros H. apply andb_true_iff in H. destruct H as [H1 _]. apply kclass_eqb_eq in H1. rewrite H1. reflexivity. Qed.
Lemma t_sym_excl c1 c2 t : t_sym c1 t = true -> (c1 =? c2) = false -> t_sym c2 t = false.
Proof.
  unfold t_sym. intros H Hn. apply andb_true_iff in H. destruct H as [H1 H2]. apply zlist_eqb_eq in H2. rewrite H1, H2. cbn. rewrite Hn. reflexivity.
Qed.

Lemma kind_spec st t :
  match kind_of t with
  | TNeutral => tok_depth_at st t = d_depth st /\ tok_depth_after st t = mk_dstate (d_depth st) (d_fun st)
  | TOpenKw | TOpenBr => tok_depth_at st t = d_depth st /\ tok_depth_after st t = mk_dstate (d_depth st + 1) (d_fun st)
  | TCloseKw | TCloseBr => tok_depth_at st t = d_depth st - 1 /\ tok_depth_after st t = mk_dstate (d_depth st - 1) (d_fun st)
  | TElse => tok_depth_at st t = d_depth st - 1 /\ tok_depth_after st t = mk_dstate (d_depth st - 1 + 1) (d_fun st)
  | TFunction => tok_depth_at st t = d_depth st /\ tok_depth_after st t = mk_dstate (d_depth st) 1
  | TLParen => tok_depth_at st t = d_depth st /\
               tok_depth_after st t = mk_dstate (d_depth st + 1) (if d_fun st =? 1 then 2 else d_fun st)
  | TRParen => tok_depth_at st t = d_depth st - 1 /\
               tok_depth_after st t = (if d_fun st =? 2 then mk_dstate (d_depth st - 1 + 1) 0 else mk_dstate (d_depth st - 1) (d_fun st))
  end.
Proof.
  unfold kind_of, tok_depth_after, tok_depth_at, t_is_closer, t_is_open_bracket, t_is_opener_kw.
  destruct (t_kw "function"%bs t) eqn:Kf.
  { rewrite !(t_kw_excl _ _ t Kf) by reflexivity. rewrite !(t_kw_sym_excl _ _ t Kf). cbn [orb]. split; reflexivity. }
  destruct (t_sym 40 t) eqn:S40.
  { rewrite !(t_sym_kw_excl _ _ t S40). rewrite !(t_sym_excl 40 _ t S40) by reflexivity. cbn [orb]. split; reflexivity. }
  destruct (t_sym 41 t) eqn:S41.
  { rewrite !(t_sym_kw_excl _ _ t S41). cbn [orb]. split; reflexivity. }
  destruct (t_kw "else"%bs t) eqn:Ke.
  { rewrite !(t_kw_excl _ _ t Ke) by reflexivity. rewrite !(t_kw_sym_excl _ _ t Ke). cbn [orb]. split; reflexivity. }
  destruct (t_kw "end"%bs t) eqn:K1; [rewrite !(t_kw_excl _ _ t K1) by reflexivity; rewrite !(t_kw_sym_excl _ _ t K1); cbn [orb]; split; reflexivity|].
  destruct (t_kw "until"%bs t) eqn:K2; [rewrite !(t_kw_excl _ _ t K2) by reflexivity; rewrite !(t_kw_sym_excl _ _ t K2); cbn [orb]; split; reflexivity|].
  destruct (t_kw "elseif"%bs t) eqn:K3; [rewrite !(t_kw_excl _ _ t K3) by reflexivity; rewrite !(t_kw_sym_excl _ _ t K3); cbn [orb]; split; reflexivity|].
  cbn [orb].
  destruct (t_sym 125 t) eqn:S125; [rewrite !(t_sym_kw_excl _ _ t S125); rewrite !(t_sym_excl 125 _ t S125) by reflexivity; cbn [orb]; split; reflexivity|].
  destruct (t_sym cRBR t) eqn:S93; [rewrite !(t_sym_kw_excl _ _ t S93); rewrite ?(t_sym_excl cRBR _ t S93) by reflexivity; cbn [orb]; split; reflexivity|].
  cbn [orb].
  destruct (t_sym 123 t) eqn:S123; [cbn [orb]; split; reflexivity|].
  destruct (t_sym cLBR t) eqn:S91; [cbn [orb]; split; reflexivity|].
  cbn [orb].
  destruct (t_kw "do"%bs t) eqn:K4; [cbn [orb]; split; reflexivity|].
  destruct (t_kw "then"%bs t) eqn:K5; [cbn [orb]; split; reflexivity|].
  destruct (t_kw "repeat"%bs t) eqn:K6; [cbn [orb]; split; reflexivity|].
  cbn [orb]. split; reflexivity.
Qed.

Section D.
Variable ts : list token.
Variables binops unops : list pat.
Hypothesis Hplain : plain_tokens ts = true.
Hypothesis Hbin : forallb neutral_pat binops = true.
Hypothesis Hun : forallb neutral_pat unops = true.

Local Notation sig := (ParserProofs.sig ts).
Local Notation sigb := (ParserProofs.sigb ts).
Local Notation len := (zlen ts).
Local Notation span := (span ts).
Local Notation spans := (spans ts).
Local Notation shaped := (shaped ts binops unops).
Local Notation mtok := (mtok ts).
Local Notation ctok := (ctok ts).
Local Notation optok := (optok ts).
Local Notation tok_at := (AstWriter.tok_at ts).

Definition St (c : Z) : dstate := depth_before ts c.

(* ------------------------------------------------------------------ one token at a time *)
Lemma depth_fold_step l : forall st n, depth_fold st l (Datatypes.S n) =
  match nth_error l n with
  | Some t => let s := depth_fold st l n in if is_trivia t then s else tok_depth_after s t
  | None => depth_fold st l n
  end.
Proof.
  induction l as [|t r IH]; intros st n.
  - destruct n; reflexivity.
  - destruct n as [|n].
    + cbn [depth_fold nth_error]. destruct r; reflexivity.
    + change (depth_fold st (t :: r) (Datatypes.S (Datatypes.S n))) with (depth_fold (if is_trivia t then st else tok_depth_after st t) r (Datatypes.S n)).
      rewrite IH. cbn [nth_error depth_fold]. reflexivity.
Qed.

Lemma S_next i t : tok_at i = Some t -> St (i + 1) = (if is_trivia t then St i else tok_depth_after (St i) t).
Proof.
  unfold AstWriter.tok_at, St, depth_before. destruct (i <? 0) eqn:E; [discriminate|]. intros H.
  replace (Z.to_nat (i + 1)) with (Datatypes.S (Z.to_nat i)) by lia. rewrite depth_fold_step, H. reflexivity.
Qed.

Lemma S_trivia c c' : 0 <= c <= c' -> (forall j, c <= j < c' -> sigb j = false) -> St c' = St c.
Proof.
  intros Hc Hn. remember (Z.to_nat (c' - c)) as n eqn:En. revert c' Hc Hn En. induction n as [|n IH]; intros c' Hc Hn En.
  - assert (c' = c) by lia. subst. reflexivity.
  - assert (Hs : sigb (c' - 1) = false) by (apply Hn; lia).
    rewrite <- (IH (c' - 1)); [|lia | intros j Hj; apply Hn; lia | lia].
    replace c' with (c' - 1 + 1) at 1 by lia.
    unfold ParserProofs.sigb in Hs. rewrite tok_at_same in Hs. destruct (tok_at (c' - 1)) as [t|] eqn:Et.
    + rewrite (S_next _ t Et). apply negb_false_iff in Hs. rewrite Hs. reflexivity.
    + unfold St, depth_before. unfold AstWriter.tok_at in Et. destruct (c' - 1 <? 0) eqn:E0; [lia|].
      replace (Z.to_nat (c' - 1 + 1)) with (Datatypes.S (Z.to_nat (c' - 1))) by lia. rewrite depth_fold_step, Et. reflexivity.
Qed.

(* at a leaf: the state before it is the state at the cursor; the state after it *)
Lemma S_leaf c i t : 0 <= c -> [i] = sig c (i + 1) -> tok_at i = Some t ->
  St i = St c /\ St (i + 1) = tok_depth_after (St c) t /\ token_depth ts i = tok_depth_at (St c) t.
Proof.
  intros Hc Hi Ht. destruct (first_sig_inv ts _ _ Hi) as (A1 & A2 & A3).
  assert (E : St i = St c) by (apply S_trivia; [lia | exact A3]).
  split; [exact E|]. destruct (sigb_tok ts i A2) as (u & Hu & Htr). assert (u = t) by congruence. subst u.
  split.
  - rewrite (S_next i t Ht), Htr, E. reflexivity.
  - unfold token_depth. unfold AstWriter.tok_at in Ht. destruct (i <? 0); [discriminate|]. rewrite Ht. fold (St i). rewrite E. reflexivity.
Qed.

(* ------------------------------------------------------------------ kinds of leaves *)
Lemma plain_at i t : tok_at i = Some t -> plain_token t = true.
Proof.
  unfold AstWriter.tok_at. destruct (i <? 0); [discriminate|]. intros H. apply nth_error_In in H.
  unfold plain_tokens in Hplain. rewrite forallb_forall in Hplain. apply Hplain, H.
Qed.

(* a leaf accepted with the pattern PTok k d (k keyword or symbol, d lower case): class and data *)
Lemma mtok_class_data k d i : mtok (PTok k d) i -> (k = CKeyword \/ k = CSymbol) -> lower d = d ->
  exists t, tok_at i = Some t /\ tk t = k /\ tdata t = d.
Proof.
  intros (t & Ht & Hm) Hk Hl. rewrite tok_at_same in Ht. exists t. split; [exact Ht|].
  pose proof (plain_at _ _ Ht) as Hp. unfold plain_token in Hp. cbn [matches] in Hm. unfold tok_eqb in Hm. cbn [tk tdata] in Hm.
  apply andb_true_iff in Hm. destruct Hm as [Hc Hm]. apply kclass_eqb_eq in Hc. rewrite Hc in *. split; [reflexivity|].
  destruct Hk as [-> | ->].
  - apply andb_true_iff in Hp. destruct Hp as [_ Hp]. apply zlist_eqb_eq in Hp. apply zlist_eqb_eq in Hm. congruence.
  - apply zlist_eqb_eq in Hm. exact Hm.
Qed.

Lemma S_mtok k d c i : 0 <= c -> [i] = sig c (i + 1) -> mtok (PTok k d) i -> (k = CKeyword \/ k = CSymbol) -> lower d = d ->
  St (i + 1) = tok_depth_after (St c) (mkTok k 0 d d) /\ token_depth ts i = tok_depth_at (St c) (mkTok k 0 d d).
Proof.
  intros Hc Hi Hm Hk Hl. destruct (mtok_class_data k d i Hm Hk Hl) as (t & Ht & Hkt & Hdt).
  destruct (S_leaf c i t Hc Hi Ht) as (_ & H2 & H3). destruct (depth_class_data (St c) t k d Hkt Hdt) as [D1 D2].
  rewrite H2, H3, D1, D2. split; reflexivity.
Qed.

Lemma S_neutral c i t : 0 <= c -> [i] = sig c (i + 1) -> tok_at i = Some t -> neutral_tok t = true ->
  St (i + 1) = St c /\ token_depth ts i = d_depth (St c).
Proof.
  intros Hc Hi Ht Hn. destruct (S_leaf c i t Hc Hi Ht) as (_ & H2 & H3). destruct (neutral_at (St c) t Hn) as [N1 N2].
  rewrite H2, H3, N1, N2. split; reflexivity.
Qed.

Lemma ctok_neutral k i t : ctok k i t -> match k with CKeyword | CSymbol => False | _ => True end -> neutral_tok t = true.
Proof.
  intros [_ Hm] Hk. cbn [matches] in Hm. apply kclass_eqb_eq in Hm. apply neutral_class. rewrite Hm. exact Hk.
Qed.

Lemma optok_neutral ps i t : forallb neutral_pat ps = true -> optok ps i t -> neutral_tok t = true.
Proof.
  intros Hps [Ht Hm]. rewrite tok_at_same in Ht. apply existsb_exists in Hm. destruct Hm as (p & Hin & Hm).
  rewrite forallb_forall in Hps. specialize (Hps p Hin). destruct p as [k|k d]; [discriminate|]. cbn [neutral_pat] in Hps.
  apply andb_true_iff in Hps. destruct Hps as [Hl Hps]. apply zlist_eqb_eq in Hl.
  pose proof (plain_at _ _ Ht) as Hp. unfold plain_token in Hp. cbn [matches] in Hm. unfold tok_eqb in Hm. cbn [tk tdata] in Hm.
  apply andb_true_iff in Hm. destruct Hm as [Hc Hm]. apply kclass_eqb_eq in Hc.
  assert (Hd : tdata t = d).
  { rewrite Hc in *. destruct k; try (apply zlist_eqb_eq; exact Hm).
    apply andb_true_iff in Hp. destruct Hp as [_ Hp]. apply zlist_eqb_eq in Hp. apply zlist_eqb_eq in Hm. congruence. }
  rewrite (neutral_class_data t k d Hc Hd). exact Hps.
Qed.


(* ------------------------------------------------------------------ balance *)
Definition pre (k : cat) (st : dstate) : Prop :=
  match k with cBody => d_fun st = 1 | cNameList | cDots | cFuncName => True | _ => d_fun st = 0 end.
Definition exitst (k : cat) (st : dstate) : dstate :=
  match k with cBody => mk_dstate (d_depth st) 0 | _ => st end.

Definition dom := AstWriterAligned.dom ts.

Definition balanced (k : cat) (x : tree) : Prop :=
  forall c c', span x c c' -> 0 <= c -> pre k (St c) -> St c' = exitst k (St c).

(* one step forward along a field list: the state after a leaf / a balanced child *)
Ltac eval_eqb H :=
  repeat match type of H with
         | context [?a =? ?b] => let v := eval vm_compute in (a =? b) in change (a =? b) with v in H
         end; cbv iota in H.

Ltac adv :=
  match goal with
  | HS : St ?c = mk_dstate ?d ?f, Hs : [?i] = ParserProofs.sig _ ?c (?i + 1), Hm : TreeShape.mtok _ (PTok ?k ?w) ?i |- _ =>
      lazymatch goal with _ : St (i + 1) = _ |- _ => fail | _ => idtac end;
      let H1 := fresh "HS" in let H2 := fresh "HD" in
      destruct (S_mtok k w c i ltac:(lia) Hs Hm ltac:(first [left; reflexivity | right; reflexivity]) eq_refl) as [H1 H2];
      rewrite HS in H1, H2;
      let K := fresh "K" in pose proof (kind_spec (mk_dstate d f) (mkTok k 0 w w)) as K;
      let kk := eval vm_compute in (kind_of (mkTok k 0 w w)) in change (kind_of (mkTok k 0 w w)) with kk in K;
      cbv iota in K; cbn [d_depth d_fun] in K; eval_eqb K; destruct K as [K1 K2]; rewrite K1 in H2; rewrite K2 in H1; clear K1 K2
  | HS : St ?c = mk_dstate ?d ?f, Hs : [?i] = ParserProofs.sig _ ?c (?i + 1), Hc : TreeShape.ctok _ ?k ?i ?t |- _ =>
      lazymatch goal with _ : St (i + 1) = _ |- _ => fail | _ => idtac end;
      let H1 := fresh "HS" in let H2 := fresh "HD" in
      destruct (S_neutral c i t ltac:(lia) Hs ltac:(rewrite <- tok_at_same; exact (proj1 Hc)) (ctok_neutral k i t Hc I)) as [H1 H2];
      rewrite HS in H1, H2; cbn [d_depth] in H2
  | HS : St ?c = mk_dstate ?d ?f, Hs : [?i] = ParserProofs.sig _ ?c (?i + 1), Ho : TreeShape.optok _ ?ps ?i ?t |- _ =>
      lazymatch goal with _ : St (i + 1) = _ |- _ => fail | _ => idtac end;
      let H1 := fresh "HS" in let H2 := fresh "HD" in
      destruct (S_neutral c i t ltac:(lia) Hs ltac:(rewrite <- tok_at_same; exact (proj1 Ho))
                  (optok_neutral ps i t ltac:(first [exact Hbin | exact Hun | reflexivity]) Ho)) as [H1 H2];
      rewrite HS in H1, H2; cbn [d_depth] in H2
  | HS : St ?c = mk_dstate ?d ?f, Hsp : TreeShape.span _ ?y ?c ?m, Hb : balanced ?k' ?y |- _ =>
      lazymatch goal with _ : St m = _ |- _ => fail | _ => idtac end;
      let H1 := fresh "HS" in
      assert (H1 : St m = exitst k' (St c)) by (apply (Hb c m Hsp); [lia | rewrite HS; cbn [pre d_fun]; first [reflexivity | exact I]]);
      rewrite HS in H1; cbn [exitst d_depth d_fun] in H1
  end.


Ltac inv_spans :=
  repeat match goal with
  | H : TreeShape.spans _ (_ :: _) _ _ |- _ => inversion H; clear H; subst
  | H : TreeShape.spans _ [] _ _ |- _ => inversion H; clear H; subst
  | H : TreeShape.span _ (Kw _) _ _ |- _ => inversion H; clear H; subst
  | H : TreeShape.span _ (Tok _ _) _ _ |- _ => inversion H; clear H; subst
  | H : TreeShape.span _ (Hid _) _ _ |- _ => inversion H; clear H; subst
  | H : TreeShape.span _ (Lst _) _ _ |- _ => inversion H; clear H; subst
  | H : TreeShape.span _ (Paren _ _ _) _ _ |- _ => inversion H; clear H; subst
  | H : TreeShape.span _ PNone _ _ |- _ => inversion H; clear H; subst
  | H : TreeShape.span _ (PBool _) _ _ |- _ => inversion H; clear H; subst
  | H : TreeShape.span _ (PBytes _) _ _ |- _ => inversion H; clear H; subst
  end.

Ltac pos_facts :=
  repeat match goal with
  | H : [?i] = ParserProofs.sig _ ?c (?i + 1) |- _ =>
      lazymatch goal with _ : c <= i |- _ => fail | _ => pose proof (sig_one_bounds ts _ _ H) end
  | H : TreeShape.span _ ?x ?c ?m |- _ =>
      lazymatch goal with _ : c <= m |- _ => fail | _ => pose proof (span_le ts _ _ _ H) end
  | H : TreeShape.spans _ ?x ?c ?m |- _ =>
      lazymatch goal with _ : c <= m |- _ => fail | _ => pose proof (spans_le ts _ _ _ H) end
  end.

(* the state at the end of a field list, once every step has been taken *)
Ltac finish :=
  cbn [exitst d_depth d_fun];
  first [ reflexivity
        | match goal with H : St ?e = _ |- St ?e = _ => rewrite H; f_equal; lia end ].

Ltac start_node :=
  let c := fresh "c" in let c' := fresh "c'" in
  intros c c' Hsp Hc0 Hpre; apply span_node_inv in Hsp; destruct Hsp as [-> Hsp];
  inv_spans; pos_facts;
  let d := fresh "d" in let f := fresh "f" in
  destruct (St c) as [d f] eqn:HS0; cbn [pre d_fun] in Hpre; try subst f;
  unfold psym, pkw in *.

(* ---- lists ---- *)
Ltac names_tac :=
  let Hr := fresh "Hr" in
  intros r Hr; induction Hr as [|cm x r Hcm (i & t & -> & Hx) Hr IH]; intros c c' Hsp Hc;
  [ inv_spans; reflexivity
  | inv_spans; pos_facts; unfold psym in *; destruct (St c) as [d f] eqn:HS; repeat adv;
    match goal with Hsr : TreeShape.spans _ r ?m c', HSm : St ?m = _ |- _ => rewrite (IH m c' Hsr ltac:(lia)); exact HSm end ].

Lemma names_balanced_comma : forall r, seplist ts (name_leaf ts) (psym ","%bs) r ->
  forall c c', spans r c c' -> 0 <= c -> St c' = St c.
Proof. names_tac. Qed.

Lemma names_balanced_dot : forall r, seplist ts (name_leaf ts) (psym "."%bs) r ->
  forall c c', spans r c c' -> 0 <= c -> St c' = St c.
Proof. names_tac. Qed.

Lemma seplist_balanced k : (forall st, exitst k st = st) -> (forall st, d_fun st = 0 -> pre k st) ->
  forall r, seplist ts (shaped k) (psym ","%bs) r -> (forall y, In y r -> shaped k y -> balanced k y) ->
  forall c c', spans r c c' -> 0 <= c -> d_fun (St c) = 0 -> St c' = St c.
Proof.
  intros He Hp r Hr. induction Hr as [|cm x r Hcm Hx Hr IH]; intros Hb c c' Hsp Hc Hf.
  - inv_spans. reflexivity.
  - inv_spans. pos_facts. unfold psym in *. destruct (St c) as [d f] eqn:HS. cbn [d_fun] in Hf. subst f.
    assert (Hbx : balanced k x) by (apply Hb; [right; left; reflexivity | exact Hx]).
    adv.
    match goal with Hs : TreeShape.span _ x ?c1 ?m, HS1 : St ?c1 = _ |- _ =>
      assert (HSm : St m = mk_dstate d 0) by (rewrite (Hbx c1 m Hs ltac:(lia) ltac:(apply Hp; rewrite HS1; reflexivity)), He; exact HS1) end.
    match goal with Hsr : TreeShape.spans _ r ?m c' |- _ =>
      rewrite (IH ltac:(intros y Hy; apply Hb; right; right; exact Hy) m c' Hsr ltac:(lia) ltac:(rewrite HSm; reflexivity)); exact HSm end.
Qed.

Lemma stats_balanced l : Forall (stat_item ts (shaped cStat)) l -> (forall y, In y l -> shaped cStat y -> balanced cStat y) ->
  forall c c', spans l c c' -> 0 <= c -> d_fun (St c) = 0 -> St c' = St c.
Proof.
  induction l as [|x l IH]; intros Hl Hb c c' Hsp Hc Hf.
  - inv_spans. reflexivity.
  - inversion Hl as [|x0 l0 Hx Hl']; subst. inversion Hsp as [|xx rr cc m cc' Hxs Hrs]; subst.
    pose proof (span_le ts _ _ _ Hxs). destruct (St c) as [d f] eqn:HS. cbn [d_fun] in Hf. subst f.
    destruct Hx as [i Hi | x Hx].
    + inversion Hxs; subst. unfold psym in *. adv.
      match goal with HS1 : St (i + 1) = _ |- _ =>
        rewrite (IH Hl' ltac:(intros y Hy; apply Hb; right; exact Hy) (i + 1) c' Hrs ltac:(lia) ltac:(rewrite HS1; reflexivity)); exact HS1 end.
    + assert (HSm : St m = mk_dstate d 0) by (rewrite (Hb x (or_introl eq_refl) Hx c m Hxs Hc ltac:(rewrite HS; reflexivity)); exact HS).
      rewrite (IH Hl' ltac:(intros y Hy; apply Hb; right; exact Hy) m c' Hrs ltac:(lia) ltac:(rewrite HSm; reflexivity)); exact HSm.
Qed.


Lemma fieldtail_balanced r : fieldtail ts (shaped cField) r -> fields_strict r = true ->
  (forall y, In y r -> shaped cField y -> balanced cField y) ->
  forall c c', spans r c c' -> 0 <= c -> d_fun (St c) = 0 -> St c' = St c.
Proof.
  intros Hr. induction Hr as [|c0 f Hc0 Hf|c0 f r Hc0 Hf Hr IH]; intros Hst Hb c c' Hsp Hc Hfun.
  - inv_spans. reflexivity.
  - assert (f = PNone) as -> by (cbn [fields_strict] in Hst; destruct f; try discriminate Hst; reflexivity).
    inv_spans. pos_facts. destruct (St c) as [d ff] eqn:HS. cbn [d_fun] in Hfun. subst ff. unfold fsep, psym in Hc0.
    destruct Hc0 as [Hc0|Hc0]; adv; assumption.
  - cbn [fields_strict] in Hst.
    assert (Hst' : fields_strict r = true) by (destruct (shaped_node _ _ _ _ _ Hf) as (? & ? & ? & ? & ? & ->); exact Hst).
    inv_spans. pos_facts. destruct (St c) as [d ff] eqn:HS. cbn [d_fun] in Hfun. subst ff. unfold fsep, psym in Hc0.
    assert (Hbf : balanced cField f) by (apply Hb; [right; left; reflexivity | exact Hf]).
    destruct Hc0 as [Hc0|Hc0]; repeat adv;
      match goal with Hsr : TreeShape.spans _ r ?m c', HSm : St ?m = _ |- _ =>
        rewrite (IH Hst' ltac:(intros y Hy; apply Hb; right; right; exact Hy) m c' Hsr ltac:(lia) ltac:(rewrite HSm; reflexivity)); exact HSm end.
Qed.

Lemma elseifs_balanced r ep : elseifs ts (shaped cExp) (shaped cChunk) r -> forallb pair_has_cond r = true ->
  elsepart ts (shaped cChunk) ep ->
  (forall l y k, In (Lst l) (r ++ ep) -> In y l -> shaped k y -> balanced k y) ->
  forall c c' d, spans (r ++ ep) c c' -> 0 <= c -> St c = mk_dstate (d + 1) 0 -> St c' = mk_dstate (d + 1) 0.
Proof.
  intros Hr. induction Hr as [|a e0 t0 b0 r Ha He0 Ht0 Hb0 Hr IH]; intros Hc Hep Hb c c' d Hsp Hc0 HS.
  - cbn [app] in *. destruct Hep as [|i0 b0 Hi0 Hb0].
    + inv_spans. exact HS.
    + assert (Hbb : balanced cChunk b0) by (eapply (Hb [PNone; b0] b0); [right; left; reflexivity | right; left; reflexivity | exact Hb0]).
      inv_spans. pos_facts. unfold pkw in *. repeat adv.
      match goal with H : St c' = _ |- _ => rewrite H; f_equal; lia end.
  - cbn [forallb pair_has_cond] in Hc. apply andb_true_iff in Hc. destruct Hc as [_ Hc]. apply andb_true_iff in Hc. destruct Hc as [Hc1 Hc].
    apply negb_true_iff in Hc1. specialize (He0 Hc1).
    assert (Hbe : balanced cExp e0) by (eapply (Hb [e0; Kw t0; b0] e0); [right; left; reflexivity | left; reflexivity | exact He0]).
    assert (Hbb : balanced cChunk b0) by (eapply (Hb [e0; Kw t0; b0] b0); [right; left; reflexivity | right; right; left; reflexivity | exact Hb0]).
    cbn [app] in Hsp. inv_spans. pos_facts. unfold pkw in *. repeat adv.
    match goal with Hsr : TreeShape.spans _ (r ++ ep) ?m c', HSm : St ?m = _ |- _ =>
      apply (IH Hc Hep ltac:(intros l y k Hl Hy; apply (Hb l y k); [right; right; exact Hl | exact Hy]) m c' d Hsr ltac:(lia));
      rewrite HSm; f_equal; lia end.
Qed.

Theorem stream_balanced : forall m k x, (tsize x <= m)%nat -> shaped k x -> dom x = true -> balanced k x.
Proof.
  induction m as [|m IH]; intros k x Hsz Hsh Hdom; [destruct x; cbn [tsize] in Hsz; lia|].
  assert (IHc : forall k' y tag s e sh fs, x = Node tag s e sh fs -> In y fs -> shaped k' y -> balanced k' y).
  { intros k' y tag s e sh fs -> Hin Hy. apply IH; [|exact Hy | eapply dom_node_in; eassumption].
    cbn [tsize] in Hsz. clear -Hsz Hin. induction fs as [|z fs IHf]; [destruct Hin|]. cbn [fold_right] in Hsz.
    destruct Hin as [->|Hin]; [lia | apply IHf; [lia | exact Hin]]. }
  inversion Hsh; subst.
  all: repeat match goal with
       | H : TreeShape.shaped _ _ _ cPrefix ?p \/ is_paren ?p = true |- _ =>
           let Hp := fresh "Hp" in
           assert (Hp : is_paren p = false) by (eapply npp_first; [apply (dom_npp ts); exact Hdom | reflexivity]);
           destruct H as [H|H]; [|congruence]
       | H : _ = PNone \/ name_leaf _ _ |- _ =>
           destruct H as [->|(? & ? & -> & ?)];
           [exfalso; unfold dom, AstWriterAligned.dom in Hdom; apply andb_true_iff in Hdom; destruct Hdom as [_ Hdom]; cbn in Hdom; discriminate Hdom|]
       | H : _ = PNone \/ TreeShape.shaped _ _ _ _ _ |- _ => destruct H as [->|H]
       | H : str_leaf _ _ \/ _ \/ _ |- _ => destruct H as [(? & ? & -> & ?)|[H|H]]
       end.
  all: repeat match goal with
       | Hy : TreeShape.shaped _ _ _ ?k' ?y |- _ =>
           lazymatch goal with _ : balanced k' y |- _ => fail | _ =>
             assert (balanced k' y) by (eapply IHc; [reflexivity | cbn [In]; tauto | exact Hy]) end
       end.
  all: try solve [exfalso; unfold dom, AstWriterAligned.dom in Hdom; apply andb_true_iff in Hdom; destruct Hdom as [_ Hdom]; cbn in Hdom; discriminate Hdom].
  all: try solve [start_node; repeat adv; finish].
  (* chunk *)
  1: { match goal with Hl : Forall _ ?l |- balanced _ (Node _ _ _ _ [Lst ?l]) =>
         assert (Hdl : dom (Lst l) = true) by (eapply dom_node_in; [exact Hdom | left; reflexivity]);
         assert (Hbl : forall y, In y l -> TreeShape.shaped ts binops unops cStat y -> balanced cStat y)
           by (intros y Hy Hsy; apply IH; [pose proof (tsize_in_list ts binops unops _ _ Hy); cbn [tsize fold_right] in Hsz; lia | exact Hsy | eapply dom_lst_in; [exact Hdl | exact Hy]])
       end.
       start_node. rewrite (stats_balanced _ ltac:(eassumption) Hbl _ _ ltac:(eassumption) Hc0 ltac:(rewrite HS0; reflexivity)). exact HS0. }
  (* if ... then ... end *)
  1: { pose proof Hdom as Hd0. unfold dom, AstWriterAligned.dom in Hd0. repeat (apply andb_true_iff in Hd0; destruct Hd0 as [Hd0 ?]).
       match goal with H : strict _ = true |- _ => cbn in H; rename H into Hst end.
       apply andb_true_iff in Hst. destruct Hst as [Hst _]. apply andb_true_iff in Hst. destruct Hst as [Hcn Hpc]. apply negb_true_iff in Hcn.
       rewrite forallb_app in Hpc. apply andb_true_iff in Hpc. destruct Hpc as [Hpc _].
       match goal with H : is_none ?c = false -> _ |- _ => specialize (H Hcn) end.
       match goal with |- balanced _ (Node _ _ _ _ [Kw _; Lst (Lst [?c; Kw ?t; ?b] :: ?r ++ ?ep); Kw _]) =>
         assert (Hdl : dom (Lst (Lst [c; Kw t; b] :: r ++ ep)) = true) by (eapply dom_node_in; [exact Hdom | right; left; reflexivity]);
         assert (Hdp : dom (Lst [c; Kw t; b]) = true) by (eapply dom_lst_in; [exact Hdl | left; reflexivity]);
         assert (Hbc : balanced cExp c) by (apply IH; [cbn [tsize fold_right] in Hsz; lia | assumption | eapply dom_lst_in; [exact Hdp | left; reflexivity]]);
         assert (Hbb : balanced cChunk b) by (apply IH; [cbn [tsize fold_right] in Hsz; lia | assumption | eapply dom_lst_in; [exact Hdp | right; right; left; reflexivity]]);
         assert (Hbr : forall l y k, In (Lst l) (r ++ ep) -> In y l -> TreeShape.shaped ts binops unops k y -> balanced k y)
           by (intros l y k Hl Hy Hs; apply IH;
               [pose proof (tsize_in_list ts binops unops _ _ Hy); pose proof (tsize_in_list ts binops unops _ _ Hl) as Hl2; cbn [tsize] in Hl2; cbn [tsize fold_right] in Hsz; lia
               | exact Hs | eapply dom_lst_in; [eapply dom_lst_in; [exact Hdl | right; exact Hl] | exact Hy]])
       end.
       start_node.
       match goal with H : TreeShape.mtok _ _ ?t \/ TreeShape.mtok _ _ ?t |- _ => destruct H end; repeat adv;
       match goal with Hsr : TreeShape.spans _ (_ ++ _) ?m ?m2, HSm : St ?m = _ |- _ =>
         pose proof (elseifs_balanced _ _ ltac:(eassumption) Hpc ltac:(eassumption) Hbr m m2 d Hsr ltac:(lia) ltac:(rewrite HSm; f_equal; lia)) as HSe end;
       repeat adv; finish. }
  (* parenthesised expression *)
  2: { match goal with Hy : TreeShape.shaped _ _ _ cExp ?y |- balanced _ (Node _ _ _ _ [Paren ?i ?j ?y]) =>
         assert (balanced cExp y) by (apply IH; [cbn [tsize fold_right] in Hsz; lia | exact Hy |
           apply (dom_paren ts i j y); eapply dom_node_in; [exact Hdom | left; reflexivity]]) end.
       start_node. repeat adv. finish. }
  (* table constructor *)
  2: { match goal with Hl : tfields _ _ ?l |- balanced _ (Node _ _ _ _ [Kw _; Lst ?l; Kw _]) =>
         assert (Hdl : dom (Lst l) = true) by (eapply dom_node_in; [exact Hdom | right; left; reflexivity]);
         assert (Hbl : forall y, In y l -> TreeShape.shaped ts binops unops cField y -> balanced cField y)
           by (intros y Hy Hsy; apply IH; [pose proof (tsize_in_list ts binops unops _ _ Hy); cbn [tsize fold_right] in Hsz; lia | exact Hsy | eapply dom_lst_in; [exact Hdl | exact Hy]]);
         assert (Hst : fields_strict l = true)
           by (unfold dom, AstWriterAligned.dom in Hdom; apply andb_true_iff in Hdom; destruct Hdom as [_ Hdom]; cbn in Hdom; apply andb_true_iff in Hdom; destruct Hdom as [Hdom _]; exact Hdom);
         inversion Hl as [f r Hf Hr | f r Hf Hr]; subst
       end.
       - assert (f = PNone /\ r = []) as [-> ->].
         { cbn [fields_strict] in Hst. destruct f; try discriminate Hst. destruct r; [split; reflexivity | discriminate Hst]. }
         start_node. repeat adv. finish.
       - assert (Hst' : fields_strict r = true) by (destruct (shaped_node _ _ _ _ _ Hf) as (? & ? & ? & ? & ? & ->); exact Hst).
         assert (Hbf : balanced cField f) by (apply Hbl; [left; reflexivity | exact Hf]).
         start_node. repeat adv.
         match goal with Hsr : TreeShape.spans _ r ?m ?m2, HSm : St ?m = _ |- _ =>
           pose proof (fieldtail_balanced r Hr Hst' ltac:(intros y Hy; apply Hbl; right; exact Hy) m m2 Hsr ltac:(lia) ltac:(rewrite HSm; reflexivity)) as HSe;
           rewrite HSm in HSe end.
         repeat adv. finish. }
  (* name lists *)
  2: { start_node. repeat adv.
       match goal with Hsr : TreeShape.spans _ ?r ?m ?m2, HSm : St ?m = _ |- _ =>
         rewrite (names_balanced_comma r ltac:(eassumption) m m2 Hsr ltac:(lia)); exact HSm end. }
  2: { start_node. repeat adv.
       match goal with Hsr : TreeShape.spans _ ?r ?m ?m2, HSm : St ?m = _ |- _ =>
         pose proof (names_balanced_dot r ltac:(eassumption) m m2 Hsr ltac:(lia)) as HSe; rewrite HSm in HSe end.
       repeat adv. finish. }
  2: { start_node. repeat adv.
       match goal with Hsr : TreeShape.spans _ ?r ?m ?m2, HSm : St ?m = _ |- _ =>
         rewrite (names_balanced_dot r ltac:(eassumption) m m2 Hsr ltac:(lia)); exact HSm end. }
  (* expression lists, variable lists *)
  2, 3: (match goal with
       | Hx : TreeShape.shaped _ _ _ ?k ?x0, Hr : seplist _ _ _ ?r |- balanced _ (Node _ _ _ _ [Lst (?x0 :: ?r)]) =>
           assert (Hdl : dom (Lst (x0 :: r)) = true) by (eapply dom_node_in; [exact Hdom | left; reflexivity]);
           assert (Hb0 : balanced k x0) by (apply IH; [cbn [tsize fold_right] in Hsz; lia | exact Hx | eapply dom_lst_in; [exact Hdl | left; reflexivity]]);
           assert (Hbr : forall y, In y r -> TreeShape.shaped ts binops unops k y -> balanced k y)
             by (intros y Hy Hsy; apply IH; [pose proof (tsize_in_list ts binops unops _ _ Hy); cbn [tsize fold_right] in Hsz; lia | exact Hsy |
                                              eapply dom_lst_in; [exact Hdl | right; exact Hy]]);
           start_node; repeat adv;
           match goal with Hsr : TreeShape.spans _ r ?m ?m2, HSm : St ?m = _ |- _ =>
             rewrite (seplist_balanced k ltac:(intros; reflexivity) ltac:(intros st0 Hst0; exact Hst0) r Hr Hbr m m2 Hsr ltac:(lia) ltac:(rewrite HSm; reflexivity)); exact HSm end
       end).
  (* one-line if *)
  pose proof Hdom as Hd0. unfold dom, AstWriterAligned.dom in Hd0. repeat (apply andb_true_iff in Hd0; destruct Hd0 as [Hd0 ?]).
  match goal with H : strict _ = true |- _ => cbn in H; rename H into Hst end.
  apply andb_true_iff in Hst. destruct Hst as [Hst _]. apply andb_true_iff in Hst. destruct Hst as [Hcp _].
  destruct cond as [|p [|q cond']]; cbn [app] in *;
    [destruct b; discriminate Hcp | | destruct p; try discriminate Hcp; destruct cond'; discriminate Hcp].
  destruct p; try discriminate Hcp.
  match goal with H : TreeShape.shaped _ _ _ cExp (Node tExpValue _ _ _ [Paren _ _ _]) |- _ =>
    inversion H; subst;
    try match goal with Hn : TreeShape.shaped _ _ _ _ (Paren _ _ _) |- _ => destruct (shaped_node _ _ _ _ _ Hn) as (? & ? & ? & ? & ? & Hn'); discriminate Hn' end
  end.
  match goal with |- balanced _ (Node _ _ _ _ [Kw _; Lst (Lst [Paren ?i' ?j ?x0; ?b] :: ?ep)]) =>
    assert (Hdl : dom (Lst (Lst [Paren i' j x0; b] :: ep)) = true) by (eapply dom_node_in; [exact Hdom | right; left; reflexivity]);
    assert (Hdp : dom (Lst [Paren i' j x0; b]) = true) by (eapply dom_lst_in; [exact Hdl | left; reflexivity]);
    assert (Hbx : balanced cExp x0) by (apply IH; [cbn [tsize fold_right] in Hsz; lia | assumption |
                                    apply (dom_paren ts i' j x0); eapply dom_lst_in; [exact Hdp | left; reflexivity]]);
    assert (Hbb : balanced cChunk b) by (apply IH; [cbn [tsize fold_right] in Hsz; lia | assumption | eapply dom_lst_in; [exact Hdp | right; left; reflexivity]])
  end.
  match goal with H : shortelse _ _ _ |- _ => inversion H as [|ei eb Hei Heb|ei eb Hei Heb Hns]; subst end.
  - start_node. repeat adv. finish.
  - assert (Hbe : balanced cChunk eb).
    { apply IH; [cbn [tsize fold_right] in Hsz; lia | assumption |].
      eapply (dom_lst_in ts [PNone; eb]); [eapply dom_lst_in; [exact Hdl | right; right; left; reflexivity] | right; left; reflexivity]. }
    start_node. repeat adv. finish.
  - assert (Hbe : balanced cChunk eb).
    { apply IH; [cbn [tsize fold_right] in Hsz; lia | assumption |].
      change (dom (Hid eb) = true). eapply (dom_lst_in ts); [exact Hdl | right; right; left; reflexivity]. }
    start_node. repeat adv. finish.
Qed.


End D.
