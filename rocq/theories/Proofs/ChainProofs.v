(* C04, last clause: .p8 -> .p8.png -> .p8 at the model level.
   Composes the coordinator's .p8 round trip (Proofs/P8FileRoundtrip.v, abstract Lua object) with the
   .p8.png round trip (Proofs/P8PngProofs.v).  What the chain needs from the lexer stack is stated as
   hypotheses, exactly as in Properties/C03.v. *)
From Coq Require Import ZArith List Bool Lia ZifyBool.
From PV Require Import Base.Prelude Base.ListX Base.PySlice Spec.P8Format Spec.P8FileSpec Model.P8File
  Proofs.C16Proofs Proofs.P8FileWrite Proofs.P8FileRoundtrip Proofs.P8FileRewrite
  Model.Compress Model.P8Png Proofs.CompressProofs Proofs.P8PngProofs.
Ltac Zify.zify_post_hook ::= Z.to_euclidean_division_equations.

Lemma music_norm_idem d : music_norm (music_norm d) = music_norm d.
Proof.
  assert (H : forall n d, (length d <= n)%nat -> music_norm (music_norm d) = music_norm d).
  { induction n as [|n IH]; intros l Hl.
    - destruct l; [reflexivity|cbn in Hl; lia].
    - destruct l as [|b0 [|b1 [|b2 [|b3 r]]]]; try reflexivity.
      cbn [music_norm]. rewrite IH by (cbn in Hl; lia). f_equal. f_equal. f_equal. f_equal. lia. }
  apply (H (length d)). lia.
Qed.

Section Chain.
Variable lua : Type.
Variable lua_from_lines : list (list Z) -> result lua.   (* Lua.from_lines: lexer + parser *)
Variable lua_to_lines : lua -> list (list Z).            (* Lua.to_lines(): chunks of the echo writer *)
Variable lua_empty : lua.

Notation p8cart := (P8File.cart lua).

(* what P8PNGFormatter.to_file takes from a Game: the five to_bytes() and b''.join(lua.to_lines()) *)
Definition png_cart_of (c : p8cart) : P8Png.cart :=
  {| P8Png.c_gfx := P8File.c_gfx c; P8Png.c_map := P8File.c_map c; P8Png.c_gff := P8File.c_gff c;
     P8Png.c_music := P8File.c_music c; P8Png.c_sfx := P8File.c_sfx c;
     P8Png.c_code := concat (lua_to_lines (P8File.c_lua c)); P8Png.c_version := P8File.c_version c |}.

(* the Game P8PNGFormatter.from_file builds: Lua.from_lines([code]), sections from_bytes, no label *)
Definition game_of_png (pc : P8Png.cart) : result p8cart :=
  l <- lua_from_lines [P8Png.c_code pc] ;;
  Ok {| P8File.c_version := P8Png.c_version pc; P8File.c_lua := l; P8File.c_gfx := P8Png.c_gfx pc;
        P8File.c_label := None; P8File.c_gff := P8Png.c_gff pc; P8File.c_map := P8Png.c_map pc;
        P8File.c_sfx := P8Png.c_sfx pc; P8File.c_music := P8Png.c_music pc |}.

Lemma chain (c0 : p8cart) l0 l1 img l2 l20 :
  (* the first .p8: hypotheses of C03_roundtrip *)
  P8FileWrite.wf_cart lua lua_to_lines c0 ->
  lua_from_lines (lua_to_lines (P8File.c_lua c0)) = Ok l0 ->
  ended_flag (lua_to_lines (P8File.c_lua c0)) = ends_with_nl (code_text lua lua_to_lines c0) ->
  code_in_format (code_text lua lua_to_lines c0) = true ->
  lua_from_lines (code_lines lua lua_to_lines c0) = Ok l1 ->
  let c1 := norm_cart lua c0 l1 in
  let t1 := concat (lua_to_lines l1) in
  (* the .p8.png: hypotheses of C04_cart_roundtrip on the text the echo writer yields *)
  P8File.c_version c0 < 256 -> wf_img img ->
  Forall byte t1 -> fits t1 -> no_nul t1 -> clean t1 = true -> t1 <> [58; 99; 58] ->
  lua_from_lines [norm_code t1 (is_compressed t1)] = Ok l2 ->
  let c2 : p8cart :=
    {| P8File.c_version := P8File.c_version c0; P8File.c_lua := l2; P8File.c_gfx := P8File.c_gfx c0;
       P8File.c_label := None; P8File.c_gff := P8File.c_gff c0; P8File.c_map := P8File.c_map c0;
       P8File.c_sfx := P8File.c_sfx c0; P8File.c_music := music_norm (P8File.c_music c0) |} in
  (* the second .p8: hypotheses of C03_roundtrip on the re-lexed code *)
  Forall (Forall byte) (lua_to_lines l2) ->
  lua_from_lines (lua_to_lines l2) = Ok l20 ->
  ended_flag (lua_to_lines l2) = ends_with_nl (code_text lua lua_to_lines c2) ->
  code_in_format (code_text lua lua_to_lines c2) = true ->
  exists file1 rows file2,
    write_p8 lua lua_from_lines lua_to_lines c0 = Ok file1 /\
    read_p8 lua lua_from_lines lua_empty file1 = Ok c1 /\
    write_png_pixels (png_cart_of c1) 4 img = Ok rows /\ upper6 rows = upper6 img /\
    (pc' <- read_png_pixels 160 205 4 rows ;; game_of_png pc') = Ok c2 /\
    write_p8 lua lua_from_lines lua_to_lines c2 = Ok file2 /\
    read_p8 lua lua_from_lines lua_empty file2 =
      (l3 <- lua_from_lines (code_lines lua lua_to_lines c2) ;; Ok (norm_cart lua c2 l3)) /\
    concat (code_lines lua lua_to_lines c2) = supply_nl (concat (lua_to_lines l2)) /\
    forall l3, let c3 := norm_cart lua c2 l3 in
      P8File.c_gfx c3 = P8File.c_gfx c1 /\ P8File.c_map c3 = P8File.c_map c1 /\
      P8File.c_gff c3 = P8File.c_gff c1 /\ P8File.c_music c3 = P8File.c_music c1 /\
      P8File.c_sfx c3 = P8File.c_sfx c1 /\ P8File.c_version c3 = P8File.c_version c1.
Proof.
  intros W0 Hs0 He0 Hf0 Hl1 c1 t1 Hv Himg Hb1 Hfit Hnn Hcl Hmag Hl2 c2 Hb2 Hs2 He2 Hf2.
  destruct (p8_roundtrip lua lua_from_lines lua_to_lines lua_empty c0 l0 W0 Hs0 He0 Hf0) as (file1 & Ew1 & _ & Er1).
  rewrite Hl1 in Er1. cbn [bind] in Er1.
  pose proof W0 as (V0 & Lg & Lf & Lm & Ls & Lmu & Bg & Bf & Bm & Bs & Bmu & _ & _).
  destruct (music_norm_lines 64 (P8File.c_music c0) Lmu Bmu) as (_ & Bmun).
  (* the .p8.png step *)
  assert (Wp : P8PngProofs.wf_cart (png_cart_of c1)).
  { unfold P8PngProofs.wf_cart, png_cart_of, c1, norm_cart. cbn. unfold zlen.
    rewrite music_norm_length. unfold byte. repeat split; lia. }
  assert (Bp : cart_bytes (png_cart_of c1)).
  { unfold cart_bytes, png_cart_of, c1, norm_cart. cbn. repeat split; assumption. }
  destruct (cart_roundtrip (png_cart_of c1) img Wp Bp Himg) as (rows & Ewp & _ & Hup & Erp);
    try (unfold png_cart_of, c1, norm_cart; cbn; assumption).
  (* the second .p8 *)
  assert (W2 : P8FileWrite.wf_cart lua lua_to_lines c2).
  { unfold P8FileWrite.wf_cart, c2. cbn. rewrite music_norm_length. repeat split; assumption. }
  destruct (p8_roundtrip lua lua_from_lines lua_to_lines lua_empty c2 l20 W2 Hs2 He2 Hf2) as (file2 & Ew2 & _ & Er2).
  exists file1, rows, file2. split; [exact Ew1|]. split; [exact Er1|]. split; [exact Ewp|]. split; [exact Hup|].
  split.
  { rewrite Erp. cbn [bind]. unfold game_of_png. cbn [P8Png.c_code P8Png.c_version P8Png.c_gfx P8Png.c_map P8Png.c_gff
      P8Png.c_music P8Png.c_sfx png_cart_of].
    change (concat (lua_to_lines (P8File.c_lua c1))) with t1. rewrite Hl2. cbn [bind]. reflexivity. }
  split; [exact Ew2|]. split; [exact Er2|]. split.
  { destruct W2 as (_ & _ & _ & _ & _ & _ & _ & _ & _ & _ & _ & _ & Hch).
    apply (code_lines_facts lua lua_to_lines c2 Hch). }
  intros l3. cbn. rewrite music_norm_idem. repeat split; reflexivity.
Qed.
End Chain.
