(* The token count `stats` reports (Lua.get_token_count, Model/Lexer.v token_count) is the same for
   the source and for the text luamin writes: lexer model on the source, writer model, lexer model
   again on the written text.  Uses the lexer worker's lex_agrees_code on both texts, so the
   written text must be shown to be a byte string. *)
From PV Require Import Base.Prelude Spec.LuaLex Instances.HoldsC02 Instances.HoldsC01 Instances.HoldsC07
  Generated.T_lexer Generated.T_luanames Model.NameFactory Model.Lexer Model.TokWriters
  Proofs.LuaLexFacts Proofs.NameFactoryProofs Proofs.TokWritersProofs Proofs.MinifyRelex Proofs.MinifyRelations
  Proofs.MinifyEndToEnd.
From PV Require Proofs.LexerAgree Proofs.LexerView.
From Coq Require Import ZifyBool Lia.

(* ---------- the written text is a byte string ---------- *)
Definition bytesb (l : list Z) : bool := forallb byteb l.

Lemma bytesb_Forall l : bytesb l = true <-> Forall byte l.
Proof. unfold bytesb. rewrite forallb_forall, Forall_forall. split; intros H x Hx; apply byteb_spec, H, Hx. Qed.

Lemma bytesb_app a b : bytesb (a ++ b) = bytesb a && bytesb b.
Proof. apply forallb_app. Qed.

Lemma digit_val_range c : is_hex c = true -> 0 <= digit_val c <= 15.
Proof.
  unfold is_hex, digit_val, is_digit, is_lower_hex, is_upper_hex. intros H.
  destruct ((48 <=? c) && (c <=? 57)) eqn:E1; [lia|]. destruct ((97 <=? c) && (c <=? 102)) eqn:E2; lia.
Qed.

Lemma simple_escape_byte e v : simple_escape e = Some v -> byte v.
Proof.
  unfold simple_escape, byte. repeat (match goal with |- context [if ?b then _ else _] => destruct b end);
    intros H; try discriminate H; injection H as <-; lia.
Qed.

Lemma unescape_bytes q : forall n s v raw rest, (length s <= n)%nat -> (forall x, In x s -> byte x) ->
  unescape_until q s = Some (v, raw, rest) -> forall x, In x v -> byte x.
Proof.
  induction n as [|n IH]; intros s v raw rest Hl HB H.
  - destruct s; [discriminate | cbn in Hl; lia].
  - destruct s as [|c r]; [discriminate|]. cbn [unescape_until] in H. cbn [length] in Hl.
    break_match H.
    all: try (injection H as <- <- <-; intros x []).
    all: apply ucons_inv in H; destruct H as (v' & raw' & H & -> & _).
    all: intros x [<-|Hx];
      [| refine (IH _ _ _ _ _ _ H x Hx); [cbn [length] in *; lia | intros y Hy; apply HB; cbn [In]; auto 10]].
    all: repeat match goal with E : is_digit ?d = true |- _ => unfold is_digit in E end.
    all: try (unfold byte; lia).
    all: try (match goal with E : is_hex _ && is_hex _ = true |- _ =>
                let A := fresh "A" in let B := fresh "B" in
                apply andb_true_iff in E; destruct E as [A B];
                apply digit_val_range in A; apply digit_val_range in B; unfold byte; lia end).
    all: try (eapply simple_escape_byte; eassumption).
    all: apply HB; cbn [In]; auto.
Qed.

(* what the source bytes give for every token: its text, and for a quoted string its value *)
Definition tok_bytes (s : stok) : Prop :=
  Forall byte (s_raw s) /\ (s_kind s = SString -> s_long s < 0 -> Forall byte (s_text s)).

Lemma step_bytes s t rest : spec_step s = Some (t, rest) -> Forall byte s -> tok_bytes t /\ Forall byte rest.
Proof.
  intros H HB. destruct (spec_step_split _ _ _ H) as (Hs & _). rewrite Hs in HB. apply Forall_app in HB.
  destruct HB as [Hr Hrest]. split; [|exact Hrest]. split; [exact Hr|]. intros K Hl.
  apply spec_step_shape in H. destruct H; try discriminate K; cbn [s_long s_text s_raw] in *.
  - destruct (long_open_spec _ _ _ _ H) as (k & Hk & _). lia.
  - apply Forall_forall. inversion Hr as [|? ? _ Hraw]; subst. rewrite Forall_forall in Hraw.
    eapply (unescape_bytes q _ r v raw rest (le_n _)); [|exact H0].
    intros x Hx. apply unescape_split with (n := length r) in H0; [|apply le_n]. rewrite H0 in Hx.
    apply in_app_or in Hx. destruct Hx as [Hx|Hx]; [apply Hraw, Hx|]. rewrite Forall_forall in Hrest. apply Hrest, Hx.
  - apply spec_number_kind in H0. congruence.
  - destruct (mem_bytes a spec_keywords); discriminate K.
  - apply spec_symbol_kind in H. congruence.
Qed.

Lemma chain_bytes : forall s ts, chain s ts -> Forall byte s -> Forall tok_bytes ts.
Proof.
  induction 1 as [|s t rest ts Hs Hc IH]; intros HB; [constructor|].
  destruct (step_bytes _ _ _ Hs HB) as (Ht & Hr). constructor; [exact Ht | apply IH, Hr].
Qed.

Lemma table_bytes : forallb (fun kv => bytesb (snd kv)) string_reverse_escapes = true.
Proof. vm_compute. reflexivity. Qed.

Lemma name_chars_bytes : bytesb name_chars = true.
Proof. vm_compute. reflexivity. Qed.

Lemma escape_bytes_bytes q : bytesb q = true -> forall data, bytesb data = true -> bytesb (escape_bytes q data) = true.
Proof.
  intros Hq. induction data as [|c r IH]; intros Hd; [reflexivity|]. cbn [bytesb forallb] in Hd.
  apply andb_true_iff in Hd. destruct Hd as [Hc Hr]. specialize (IH Hr). cbn [escape_bytes].
  destruct (lookup_bytes string_reverse_escapes [c]) as [e|] eqn:El.
  - assert (He : bytesb e = true).
    { apply lookup_bytes_In in El. pose proof table_bytes as T. rewrite forallb_forall in T. apply (T _ El). }
    set (e' := if all_digits e && _ then rjust3 e else e).
    assert (He' : bytesb e' = true).
    { unfold e'. destruct (all_digits e && _); [|exact He]. unfold rjust3. rewrite bytesb_app, He, andb_true_r.
      apply forallb_forall. intros x Hx. apply repeat_spec in Hx. subst x. reflexivity. }
    change (92 :: e' ++ escape_bytes q r) with ([92] ++ e' ++ escape_bytes q r). rewrite !bytesb_app, He', IH. reflexivity.
  - destruct (zlist_eqb [c] q); cbn [bytesb forallb]; fold (bytesb (escape_bytes q r)); rewrite ?Hc, IH; reflexivity.
Qed.

Lemma generated_bytes o : generated o -> bytesb o = true.
Proof.
  intros (id & Hid & Hn & _). destruct (name_for_id_decode id o Hid Hn) as (_ & _ & Hall).
  apply forallb_forall. intros x Hx. rewrite Forall_forall in Hall. specialize (Hall x Hx).
  pose proof name_chars_bytes as T. unfold bytesb in T. rewrite forallb_forall in T. apply T, Hall.
Qed.

Definition chunk_bytes (tc : tchunk) : Prop := bytesb (fst tc) = true.

Lemma Forall_tsp_bytes (b : bool) l : Forall chunk_bytes l -> Forall chunk_bytes (tsp b ++ l).
Proof. intros H. destruct b; cbn [tsp app]; [constructor; [reflexivity | exact H] | exact H]. Qed.

Lemma one_bytes c t : bytesb c = true -> Forall chunk_bytes [(c, t)].
Proof. intros H. constructor; [exact H | constructor]. Qed.

Lemma tstep_bytes cfg st s st' cs : shaped s -> tok_bytes s -> inv cfg (w_fac st) -> tstep cfg st s = Ok (st', cs) ->
  Forall chunk_bytes cs /\ inv cfg (w_fac st').
Proof.
  intros Hs (Hraw & Htxt) Hinv Et. apply bytesb_Forall in Hraw. unfold tstep in Et.
  destruct (negb (w_seen st || negb (is_trivia_kind (kind_of (s_kind s)))) && (w_hdr st <? 2) &&
            is_comment_kind (kind_of (s_kind s))) eqn:Eh.
  - injection Et as <- <-. split; [|exact Hinv].
    assert (K : s_kind s = SComment).
    { apply andb_true_iff in Eh. destruct Eh as [_ Eh]. destruct (s_kind s); try discriminate Eh; reflexivity. }
    unfold spec_code. rewrite K. constructor; [exact Hraw | apply one_bytes; reflexivity].
  - destruct (s_kind s) eqn:K; cbn [kind_of] in Et.
    + injection Et as <- <-. split; [constructor | exact Hinv].
    + injection Et as <- <-. split; [|exact Hinv]. destruct (w_lnl st); [constructor | apply one_bytes; reflexivity].
    + injection Et as <- <-. split; [constructor | exact Hinv].
    + (* string *) injection Et as <- <-. split; [|exact Hinv]. apply one_bytes. unfold spec_code. rewrite K.
      destruct (s_long s <? 0) eqn:El; [|exact Hraw].
      assert (Hq : bytesb (firstn 1 (s_raw s)) = true).
      { apply bytesb_Forall. apply bytesb_Forall in Hraw. destruct (s_raw s) as [|q r]; [constructor|].
        inversion Hraw; subst. cbn [firstn]. constructor; [assumption | constructor]. }
      unfold reencode. rewrite !bytesb_app, Hq. cbn [andb]. rewrite andb_true_r.
      apply escape_bytes_bytes; [exact Hq|]. apply bytesb_Forall, Htxt; [reflexivity | lia].
    + injection Et as <- <-. split; [|exact Hinv]. apply Forall_tsp_bytes, one_bytes. unfold spec_code. rewrite K. exact Hraw.
    + assert (Hcode : spec_code s = s_raw s) by (unfold spec_code; rewrite K; reflexivity). rewrite Hcode in *.
      destruct (get_short_name cfg (w_fac st) (s_raw s)) as [[fac o]|e] eqn:Eg; cbn [bind] in Et; [|discriminate].
      injection Et as <- <-. destruct (get_short_name_out _ _ _ _ _ Hinv Eg) as (Hinv' & Ho). split; [|exact Hinv'].
      apply Forall_tsp_bytes, one_bytes. destruct Ho as [->|Hg]; [exact Hraw | apply generated_bytes, Hg].
    + assert (Hcode : spec_code s = s_raw s) by (unfold spec_code; rewrite K; reflexivity). rewrite Hcode in *.
      destruct (shaped_label s Hs K) as (n & Hn & Hsn).
      assert (Hrw : s_raw s = 58 :: 58 :: n ++ [58; 58]) by (rewrite Hsn; reflexivity).
      rewrite Hrw, label_name_code in Et.
      destruct (get_short_name cfg (w_fac st) n) as [[fac o]|e] eqn:Eg; cbn [bind] in Et; [|discriminate].
      injection Et as <- <-. destruct (get_short_name_out _ _ _ _ _ Hinv Eg) as (Hinv' & Ho). split; [|exact Hinv'].
      apply one_bytes. assert (Hob : bytesb o = true).
      { destruct Ho as [->|Hg]; [|apply generated_bytes, Hg]. rewrite Hrw in Hraw.
        change (58 :: 58 :: n ++ [58; 58]) with ([58; 58] ++ n ++ [58; 58]) in Hraw. rewrite !bytesb_app in Hraw.
        apply andb_true_iff in Hraw. destruct Hraw as [_ Hraw]. apply andb_true_iff in Hraw. apply Hraw. }
      change (58 :: 58 :: o ++ [58; 58]) with ([58; 58] ++ o ++ [58; 58]). rewrite !bytesb_app, Hob. reflexivity.
    + injection Et as <- <-. split; [|exact Hinv]. apply Forall_tsp_bytes, one_bytes. unfold spec_code. rewrite K. exact Hraw.
    + injection Et as <- <-. split; [|exact Hinv]. apply one_bytes. unfold spec_code. rewrite K. exact Hraw.
Qed.

Lemma tchunks_bytes cfg : forall ss st tcs, Forall shaped ss -> Forall tok_bytes ss -> inv cfg (w_fac st) ->
  tchunks_from cfg st ss = Ok tcs -> Forall chunk_bytes tcs.
Proof.
  induction ss as [|s r IH]; intros st tcs Hsh Hb Hinv Ht; [injection Ht as <-; constructor|].
  inversion Hsh as [|? ? Hs Hr]; subst. inversion Hb as [|? ? Hc Hb']; subst. cbn [tchunks_from] in Ht.
  destruct (tstep cfg st s) as [[st' cs]|e] eqn:Et; cbn [bind] in Ht; [|discriminate].
  destruct (tchunks_from cfg st' r) as [rest|e] eqn:Er; cbn [bind] in Ht; [|discriminate]. injection Ht as <-.
  destruct (tstep_bytes _ _ _ _ _ Hs Hc Hinv Et) as (H1 & Hinv'). apply Forall_app. split; [exact H1|].
  eapply IH; eassumption.
Qed.

Lemma space_tagged_bytes : forall tcs prev, Forall chunk_bytes tcs -> Forall chunk_bytes (space_tagged prev tcs).
Proof.
  induction tcs as [|[c t] r IH]; intros prev H; [constructor|]. inversion H as [|? ? Hc Hr]; subst.
  cbn [space_tagged]. destruct (fuses prev c).
  - constructor; [reflexivity|]. constructor; [exact Hc | apply IH, Hr].
  - constructor; [exact Hc | apply IH, Hr].
Qed.

Lemma txt_bytes : forall F : list tchunk, Forall chunk_bytes F -> Forall byte (txt F).
Proof.
  induction F as [|[c t] F IH]; intros H; [constructor|]. inversion H as [|? ? Hc HF]; subst.
  unfold txt. cbn [map fst concat]. apply Forall_app. split; [apply bytesb_Forall, Hc | apply IH, HF].
Qed.

Lemma luamin_out_bytes cfg src ss chunks : Forall byte src -> spec_toks src = Some ss ->
  minify_gen cfg (map sk ss) = Ok chunks -> Forall byte (concat chunks).
Proof.
  intros HB Hsrc Hm. destruct (spec_toks_chain _ _ Hsrc) as (_ & Hch).
  destruct (minify_gen_tagged _ _ _ Hm) as (tcs & Ht & ->). change (concat (map fst (space_tagged [] tcs))) with (txt (space_tagged [] tcs)).
  apply txt_bytes, space_tagged_bytes. eapply tchunks_bytes; [eapply chain_shaped, Hch | eapply chain_bytes; eassumption | apply inv_init_w | exact Ht].
Qed.

(* ---------- Lua.get_token_count in terms of the reference tokens ---------- *)
Definition mtok_for (s : stok) : tok := mk_tok (kind_of (s_kind s)) (s_raw s) 0 0 [] None [].
Definition mweight (s : stok) : Z := token_weight (mtok_for s).
Fixpoint sumM (l : list stok) : Z := match l with [] => 0 | s :: r => mweight s + sumM r end.

Lemma agree_weight s t : LexerMain.agree s t -> token_weight t = mweight s.
Proof.
  intros H. destruct (LexerView.agree_fields s t H) as (Hk & _ & _ & Hf).
  change (LexerView.kind_of (s_kind s)) with (kind_of (s_kind s)) in Hk.
  unfold mweight, token_weight, is_free_token, mtok_for. cbn [t_kind t_data]. rewrite Hk.
  destruct (s_kind s); cbn [kind_of]; try (rewrite Hf; reflexivity); try reflexivity.
  destruct Hf as [Hd _]. rewrite Hd. reflexivity.
Qed.

Lemma fold_token_weight ts : forall a, fold_left (fun a t => a + token_weight t) ts a = a + fold_right (fun t b => token_weight t + b) 0 ts.
Proof. induction ts as [|t r IH]; intros a; cbn [fold_left fold_right]; [lia|]. rewrite IH. lia. Qed.

Lemma agree_count : forall ss ts, Forall2 LexerMain.agree ss ts -> token_count ts = sumM ss.
Proof.
  intros ss ts H. unfold token_count. rewrite fold_token_weight. cbn [Z.add].
  induction H as [|s t ss ts Hst _ IH]; [reflexivity|]. cbn [fold_right sumM]. rewrite IH, (agree_weight s t Hst). reflexivity.
Qed.

Lemma sumM_unpos l : sumM (map unpos l) = sumM l.
Proof. induction l as [|s r IH]; [reflexivity|]. cbn [map sumM]. rewrite IH. reflexivity. Qed.

Lemma trivia_mweight s : is_trivia s = true -> mweight s = 0.
Proof. unfold is_trivia, mweight, mtok_for, token_weight, is_free_token. cbn [t_kind t_data]. destruct (s_kind s); try discriminate; reflexivity. Qed.

Lemma sumM_sig l : sumM l = sumM (sig_toks l).
Proof.
  induction l as [|t r IH]; [reflexivity|]. rewrite sig_toks_cons. cbn [sumM]. destruct (is_trivia t) eqn:E.
  - rewrite (trivia_mweight t E). cbn [app]. exact IH.
  - cbn [app sumM]. rewrite IH. reflexivity.
Qed.

(* numbers, keywords and symbols are written as they are *)
Lemma tstep_verbatim cfg st s st' cs : (s_kind s = SNumber \/ s_kind s = SKeyword \/ s_kind s = SSymbol) ->
  tstep cfg st s = Ok (st', cs) -> sig_toks (tks cs) = [s].
Proof.
  intros K Et. unfold tstep in Et.
  assert (Hs : sig_toks [s] = [s]).
  { unfold sig_toks. cbn [filter]. unfold is_trivia. destruct K as [K|[K|K]]; rewrite K; reflexivity. }
  destruct K as [K|[K|K]]; rewrite K in Et; cbn [kind_of is_trivia_kind is_comment_kind] in Et;
    rewrite ?andb_false_r in Et; injection Et as <- <-; rewrite ?sig_tsp; try exact Hs.
  assert (Hot : out_tok s [] = s) by (unfold out_tok; rewrite K; reflexivity). rewrite Hot. exact Hs.
Qed.

Lemma same_view_mweight s t' : same_view s t' = true ->
  (s_kind s = SNumber \/ s_kind s = SKeyword \/ s_kind s = SSymbol -> t' = s) -> mweight s = mweight t'.
Proof.
  intros Hv Hsame. unfold same_view in Hv. apply andb_true_iff in Hv. destruct Hv as [Hk _]. apply kind_eqb_eq in Hk.
  destruct (s_kind s) eqn:K; try (rewrite (Hsame ltac:(auto)); reflexivity);
    unfold mweight, mtok_for, token_weight, is_free_token; cbn [t_kind t_data]; rewrite <- Hk, K; reflexivity.
Qed.

Lemma tchunks_mweight cfg : forall ss st tcs, Forall shaped ss -> inv cfg (w_fac st) -> tchunks_from cfg st ss = Ok tcs ->
  sumM (sig_toks ss) = sumM (sig_toks (tks tcs)).
Proof.
  induction ss as [|s r IH]; intros st tcs Hsh Hinv Ht; [injection Ht as <-; reflexivity|].
  inversion Hsh as [|? ? Hs Hr]; subst. cbn [tchunks_from] in Ht.
  destruct (tstep cfg st s) as [[st' cs]|e] eqn:Et; cbn [bind] in Ht; [|discriminate].
  destruct (tchunks_from cfg st' r) as [rest|e] eqn:Er; cbn [bind] in Ht; [|discriminate]. injection Ht as <-.
  destruct (tstep_sig _ _ _ _ _ Hs Hinv Et) as (Hinv' & Hcase). specialize (IH st' rest Hr Hinv' Er).
  rewrite tks_app, sig_toks_app, sig_toks_cons.
  destruct Hcase as [(Htr & Hsig & _) | (Htr & t' & Hsig & Hv & _)]; rewrite Htr, Hsig; cbn [app]; [exact IH|].
  cbn [sumM]. rewrite IH. f_equal. apply same_view_mweight; [exact Hv|].
  intros K. pose proof (tstep_verbatim _ _ _ _ _ K Et) as Hver. rewrite Hsig in Hver. injection Hver as ->. reflexivity.
Qed.

(* ---------- the count `stats` reports is unchanged ---------- *)
Theorem luamin_stats_count cfg src ss : Forall byte src -> spec_toks src = Some ss ->
  exists ts out ts', model_lex [src] = Ok ts /\ luamin_text cfg [src] = Ok out /\ model_lex [out] = Ok ts' /\
    token_count ts' = token_count ts.
Proof.
  intros HB Hsrc. destruct (spec_toks_lex _ _ Hsrc) as (ss0 & H0 & Hss).
  destruct (LexerView.lex_agrees_code src ss0 HB H0) as (ts & Hm & Hcode & Hag).
  assert (Ha : lexer_agrees ss ts).
  { unfold lexer_agrees. etransitivity; [exact Hcode|]. rewrite Hss, map_map. apply map_ext. intros s. reflexivity. }
  destruct (minify_total cfg ts) as (chunks & Hc). pose proof Hc as Hg. unfold minify in Hg. rewrite Ha in Hg.
  destruct (relex cfg src ss chunks Hsrc Hg) as (tcs & Ht & _ & Hout).
  pose proof (luamin_out_bytes cfg src ss chunks HB Hsrc Hg) as HBo.
  destruct (spec_toks_lex _ _ Hout) as (ss1 & H1 & Hss1).
  destruct (LexerView.lex_agrees_code (concat chunks) ss1 HBo H1) as (ts' & Hm' & _ & Hag').
  exists ts, (concat chunks), ts'. split; [exact Hm|].
  split; [unfold luamin_text; rewrite Hm; cbn [bind]; rewrite Hc; reflexivity|]. split; [exact Hm'|].
  rewrite (agree_count _ _ Hag), (agree_count _ _ Hag').
  rewrite <- (sumM_unpos ss0), <- (sumM_unpos ss1), <- Hss, <- Hss1.
  rewrite (sumM_sig ss), (sumM_sig (tks (space_tagged [] tcs))), sig_space_tagged.
  destruct (spec_toks_chain _ _ Hsrc) as (_ & Hch).
  symmetry. eapply tchunks_mweight; [eapply chain_shaped, Hch | apply inv_init_w | exact Ht].
Qed.

(* ---------- any splitting of the source into lines (how the .p8 reader feeds the lexer) ---------- *)
From PV Require Proofs.LexerChunk.

Lemma luamin_text_chunking cfg ls : Forall LexerChunk.ends_lf (removelast ls) ->
  luamin_text cfg ls = luamin_text cfg [concat ls].
Proof. intros H. unfold luamin_text. rewrite (LexerChunk.model_lex_chunking ls H). reflexivity. Qed.

Theorem luamin_lines cfg ls ss : Forall LexerChunk.ends_lf (removelast ls) -> Forall byte (concat ls) ->
  spec_toks (concat ls) = Some ss ->
  exists out, luamin_text cfg ls = Ok out /\ holds_C01 (concat ls) out = true /\ holds_C19 (concat ls) out = true.
Proof.
  intros Hl HB H. rewrite (luamin_text_chunking cfg ls Hl). apply (luamin_end_to_end cfg (concat ls) ss HB H).
Qed.

Theorem luamin_lines_all cfg ls out : Forall LexerChunk.ends_lf (removelast ls) -> Forall byte (concat ls) ->
  luamin_text cfg ls = Ok out -> holds_C01 (concat ls) out = true /\ holds_C19 (concat ls) out = true.
Proof.
  intros Hl HB H. rewrite (luamin_text_chunking cfg ls Hl) in H. apply (luamin_holds_all cfg (concat ls) out HB H).
Qed.

Theorem luamin_lines_count cfg ls ss : Forall LexerChunk.ends_lf (removelast ls) -> Forall byte (concat ls) ->
  spec_toks (concat ls) = Some ss ->
  exists ts out ts', model_lex ls = Ok ts /\ luamin_text cfg ls = Ok out /\ model_lex [out] = Ok ts' /\
    token_count ts' = token_count ts.
Proof.
  intros Hl HB H. rewrite (luamin_text_chunking cfg ls Hl), (LexerChunk.model_lex_chunking ls Hl).
  apply (luamin_stats_count cfg (concat ls) ss HB H).
Qed.

(* ---------- the __lua__ text of the written cart ---------- *)
Lemma p8_lua_text_cases chunks : p8_lua_text chunks = concat chunks \/ p8_lua_text chunks = concat chunks ++ [10].
Proof.
  unfold p8_lua_text. destruct (match chunks with [] => false | _ :: _ => ends_with_lf (last chunks []) end);
    [left; apply app_nil_r | right; reflexivity].
Qed.

Theorem luamin_cart cfg ls out : Forall LexerChunk.ends_lf (removelast ls) -> Forall byte (concat ls) ->
  luamin_cart_text cfg ls = Ok out -> holds_C01 (concat ls) out = true /\ holds_C19 (concat ls) out = true.
Proof.
  intros Hl HB H. unfold luamin_cart_text in H. rewrite (LexerChunk.model_lex_chunking ls Hl) in H.
  destruct (model_lex [concat ls]) as [ts|e] eqn:Hm; cbn [bind] in H; [|discriminate].
  destruct (minify cfg ts) as [cs|e] eqn:Hc; cbn [bind] in H; [|discriminate]. injection H as <-.
  destruct (spec_toks (concat ls)) as [ss|] eqn:Hsrc.
  - destruct (lexer_agrees_model _ _ HB Hsrc) as (ts' & Hm' & Ha). rewrite Hm in Hm'. injection Hm' as <-.
    pose proof Hc as Hg. unfold minify in Hg. rewrite Ha in Hg.
    destruct (p8_lua_text_cases cs) as [-> | ->].
    + split; [eapply holds_C01_luamin | eapply holds_C19_luamin]; eassumption.
    + eapply luamin_nl; eassumption.
  - unfold holds_C01, holds_C19. rewrite Hsrc. auto.
Qed.
