(* The writer side of the .p8 round trip: what P8Formatter.to_file (as regenerated into
   p8_write_events and interpreted by Model/P8File.v) writes for a well-formed cart. *)
From PV Require Import Base.Prelude Base.ListX Base.PySlice Base.Hex Base.Utf8 Base.Dec Model.HexSection Model.Gfx Model.Gff
  Model.MapSec Model.Sfx Model.Music Model.P8sciiInst Model.P8File Generated.K_p8file Generated.K_gfx Generated.K_gff
  Generated.K_map Generated.K_sfx Generated.K_music Spec.P8Format Spec.P8FileSpec
  Proofs.HexSectionProofs Proofs.GfxProofs Proofs.MusicProofs Proofs.SfxLines Proofs.C16Proofs
  Proofs.P8FileLines Proofs.P8FileEnc.
From Coq Require Import ZifyBool.

(* pins: the hand-written matchers and the reader model are tied to these source texts *)
Lemma pin_version_re : p8_version_re_src = "version (\d+)\n"%bs.
Proof. reflexivity. Qed.
Lemma pin_section_re : p8_section_re_src = "__(\w+)__\n"%bs.
Proof. reflexivity. Qed.
Lemma pin_from_file_prelude : p8_from_file_prelude_ok = true.
Proof. reflexivity. Qed.
Lemma pin_raw_reader : p8_raw_reader_digest = [180; 136; 154; 255; 157; 67; 235; 85].
Proof. reflexivity. Qed.

Section WithLua.
Variable lua : Type.
Variable lua_from_lines : list (list Z) -> result lua.
Variable lua_to_lines : lua -> list (list Z).
Variable lua_empty : lua.
Notation cart := (cart lua).
Notation write_p8_chunks := (write_p8_chunks lua lua_from_lines lua_to_lines).

Definition wf_cart (c : cart) : Prop :=
  0 <= c_version c /\
  length (c_gfx c) = Z.to_nat 8192 /\ length (c_gff c) = 256%nat /\ length (c_map c) = Z.to_nat 4096 /\
  length (c_sfx c) = 4352%nat /\ length (c_music c) = 256%nat /\
  Forall byte (c_gfx c) /\ Forall byte (c_gff c) /\ Forall byte (c_map c) /\ Forall byte (c_sfx c) /\
  Forall byte (c_music c) /\
  match c_label c with Some l => length l = Z.to_nat 8192 /\ Forall byte l | None => True end /\
  Forall (Forall byte) (lua_to_lines (c_lua c)).

(* a cart whose data regions may stop early at a row boundary (what a .p8 file with short sections spells out:
   newer PICO-8 versions leave out the empty tail of a section); the sfx region is always whole
   (Sfx.to_lines writes 64 patterns) *)
Definition wf_short (c : cart) : Prop :=
  0 <= c_version c /\
  (exists k, length (c_gfx c) = (k * 64)%nat /\ (k <= 128)%nat) /\
  (length (c_gff c) <= 256)%nat /\ (length (c_map c) <= Z.to_nat 4096)%nat /\
  length (c_sfx c) = 4352%nat /\ (exists k, length (c_music c) = (k * 4)%nat /\ (k <= 64)%nat) /\
  Forall byte (c_gfx c) /\ Forall byte (c_gff c) /\ Forall byte (c_map c) /\ Forall byte (c_sfx c) /\
  Forall byte (c_music c) /\
  match c_label c with
  | Some l => (exists k, length l = (k * 64)%nat /\ (k <= 128)%nat) /\ Forall byte l
  | None => True
  end /\
  Forall (Forall byte) (lua_to_lines (c_lua c)).

Lemma wf_cart_short c : wf_cart c -> wf_short c.
Proof.
  intros (Hv & Lg & Lf & Lm & Ls & Lmu & Bg & Bf & Bm & Bs & Bmu & Hlab & Hch).
  unfold wf_short. repeat split; try assumption; try lia.
  - exists 128%nat. split; [rewrite Lg; reflexivity | lia].
  - exists 64%nat. split; [rewrite Lmu; reflexivity | lia].
  - destruct (c_label c) as [l|]; [|exact I]. destruct Hlab as (Ll & Bl). split; [|exact Bl].
    exists 128%nat. split; [rewrite Ll; reflexivity | lia].
Qed.

(* the writer's ended_in_newline test *)
Definition ended_flag (chunks : list (list Z)) : bool :=
  match last_ends_nl chunks None with Some true => true | _ => false end.

Definition label_chunks (c : cart) : list (list Z) :=
  match c_label c with Some d => ["__label__" ++ [10]]%bs ++ gfx_to_lines d | None => [] end.

Definition expected_chunks (c : cart) : list (list Z) :=
  [p8_header_title; ("version "%bs ++ dec_of_Z (c_version c) ++ [10]); ("__lua__"%bs ++ [10])] ++
  map lua_chunk_text (lua_to_lines (c_lua c)) ++
  (if ended_flag (lua_to_lines (c_lua c)) then [] else [[10]]) ++
  [("__gfx__"%bs ++ [10])] ++ gfx_to_lines (c_gfx c) ++ label_chunks c ++
  [[10]; ("__gff__"%bs ++ [10])] ++ spec_hex_lines (c_gff c) ++
  [("__map__"%bs ++ [10])] ++ spec_hex_lines (c_map c) ++
  [("__sfx__"%bs ++ [10])] ++ spec_sfx_lines (c_sfx c) ++
  [("__music__"%bs ++ [10])] ++ spec_music_lines (c_music c) ++ [[10]].

Lemma write_chunks_short c l' : wf_short c -> lua_from_lines (lua_to_lines (c_lua c)) = Ok l' ->
  write_p8_chunks c = Ok (expected_chunks c).
Proof.
  intros (Hv & Lg & Lf & Lm & Ls & (kmu & Lmu & _) & Bg & Bf & Bm & Bs & Bmu & Hlab & Hch) Hsan.
  unfold P8File.write_p8_chunks, p8_write_events.
  cbn [foldM write_event bind Z.eqb Pos.eqb section_lines fmt_split fst snd].
  rewrite Hsan. cbn [bind].
  destruct (gff_section (c_gff c) Bf) as (Eg & _).
  destruct (map_section (c_map c) Bm) as (Em & _).
  destruct (sfx_section (c_sfx c) Ls Bs) as (Es & _).
  destruct (music_section kmu (c_music c) Lmu Bmu) as (Emu & _).
  unfold expected_chunks, label_chunks, ended_flag.
  destruct (last_ends_nl (lua_to_lines (c_lua c)) None) as [[|]|] eqn:EE; destruct (c_label c) as [d|] eqn:EL;
    repeat (cbn [bind foldM write_event Z.eqb Pos.eqb section_lines fst snd]; rewrite ?EE, ?EL, ?Es, ?Emu);
    rewrite Eg, Em; rewrite <- ?app_assoc; cbn [app]; reflexivity.
Qed.

Lemma write_chunks_ok c l' : wf_cart c -> lua_from_lines (lua_to_lines (c_lua c)) = Ok l' ->
  write_p8_chunks c = Ok (expected_chunks c).
Proof. intros W. apply write_chunks_short. apply wf_cart_short. exact W. Qed.

End WithLua.
