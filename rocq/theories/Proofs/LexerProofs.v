(* Lemmas about Model/Lexer.v: pins of the regenerated regex sources, symbol matching (first match in
   table order = longest match), scanner split lemmas, the coverage / position invariant of the
   lexer loop, keyword-order independence. *)
From PV Require Import Base.Prelude Generated.T_lexer Model.Lexer Spec.LuaLex.
From Coq Require Import ZifyBool.

(* ---------- pins: the scanners of Model/Lexer.v are written for exactly these pattern sources *)
Lemma pin_matcher_sources : matcher_sources =
  [ bs_ "--[^\r\n]*"; bs_ "//[^\r\n]*"; bs_ "[ \t]+"; bs_ "\r\n"; bs_ "\n"; bs_ "\r";
    bs_ "0[xX][0-9a-fA-F]+(\.[0-9a-fA-F]+)?"; bs_ "0[xX]\.[0-9a-fA-F]+";
    bs_ "0[bB][01]+(\.[01]+)?"; bs_ "0[bB]\.[01]+";
    bs_ "[0-9]+(\.(?!\.)[0-9]*)?([eE]-?[0-9]+)?"; bs_ "\.[0-9]+([eE]-?[0-9]+)?";
    bs_ "::[a-zA-Z_\x80-\xff][a-zA-Z0-9_\x80-\xff]*::";
    bs_ "[a-zA-Z_\x80-\xff][a-zA-Z0-9_\x80-\xff]*"; bs_ "\?" ].
Proof. reflexivity. Qed.

(* bytes literals of the re.* calls inside Lexer._process_token: \d{1,3}, the hex escape, the two halves of the long
   string closer, and the long-bracket opener (tested, then matched with a group) *)
Lemma pin_process_token_regexes : process_token_regexes =
  [ bs_ "\d{1,3}"; bs_ "x[0-9a-fA-F]{2}"; bs_ "\]"; bs_ "\]"; bs_ "\[=*\["; bs_ "\[(=*)\[" ].
Proof. reflexivity. Qed.

(* the matcher ids appear in the table in the order the model's documentation assumes nothing about:
   the model runs [token_matchers] as regenerated.  What the hand-written part does assume: *)
Lemma pin_table_shape :
  map fst (firstn 13 token_matchers) =
    [MCommentDash; MCommentSlash; MSpace; MNlCrLf; MNlLf; MNlCr; MNumHex; MNumHexFrac; MNumBin; MNumBinFrac;
     MNumDec; MNumDecFrac; MLabel]
  /\ map fst (skipn (13 + length keyword_order + length symbols) token_matchers) = [MName; MQmark]
  /\ map fst (firstn (length keyword_order) (skipn 13 token_matchers)) = map MKeyword keyword_order
  /\ map fst (firstn (length symbols) (skipn (13 + length keyword_order) token_matchers)) = map MSymbol symbols.
Proof. repeat split; reflexivity. Qed.

(* ---------- small list facts *)
Lemma rev'_eq {A} (l : list A) : rev' l = rev l.
Proof. unfold rev'. rewrite <- rev_alt. reflexivity. Qed.

Lemma hd_is_spec c s : hd_is c s = true -> s = c :: tl s.
Proof. destruct s as [|x r]; cbn; [discriminate|]. intros H. apply Z.eqb_eq in H. subst. reflexivity. Qed.

Lemma starts_with_refl x : starts_with x x = true.
Proof. induction x as [|a x IH]; cbn; [reflexivity|]. rewrite Z.eqb_refl. exact IH. Qed.

Lemma starts_with_length x s : starts_with x s = true -> (length x <= length s)%nat.
Proof. intros H. apply starts_with_app in H. destruct H as [r ->]. rewrite app_length. lia. Qed.

(* two prefixes of one string are comparable *)
Lemma prefix_comparable x : forall y s,
  starts_with x s = true -> starts_with y s = true -> (length x <= length y)%nat -> starts_with x y = true.
Proof.
  induction x as [|a x IH]; intros y s Hx Hy Hl; [reflexivity|].
  destruct s as [|c s]; [discriminate|]. destruct y as [|b y]; [cbn in Hl; lia|].
  cbn in *. apply andb_true_iff in Hx. destruct Hx as [Hac Hx]. apply andb_true_iff in Hy. destruct Hy as [Hbc Hy].
  apply Z.eqb_eq in Hac. apply Z.eqb_eq in Hbc. subst. rewrite Z.eqb_refl. cbn.
  apply (IH y s); [assumption | assumption | lia].
Qed.

Lemma prefix_same_length x : forall y,
  starts_with x y = true -> length x = length y -> x = y.
Proof.
  induction x as [|a x IH]; intros [|b y] H Hl; try reflexivity; try discriminate.
  cbn in *. apply andb_true_iff in H. destruct H as [Hab H]. apply Z.eqb_eq in Hab. subst.
  f_equal. apply IH; [assumption | lia].
Qed.

(* ---------- symbols: first match in table order = longest match *)
Fixpoint prefix_ordered (l : list (list Z)) : bool :=
  match l with
  | [] => true
  | x :: l' => forallb (fun y => negb (starts_with x y && (length x <? length y)%nat)) l' && prefix_ordered l'
  end.

Lemma longest_match_some l : forall s x, longest_match l s = Some x ->
  In x l /\ starts_with x s = true /\ forall y, In y l -> starts_with y s = true -> (length y <= length x)%nat.
Proof.
  induction l as [|a l IH]; intros s x H; [discriminate|]. cbn [longest_match] in H.
  destruct (longest_match l s) as [y|] eqn:E.
  - destruct (IH s y E) as (Hin & Hp & Hmax).
    destruct (starts_with a s && (length y <? length a)%nat) eqn:C; inversion H; subst; clear H.
    + apply andb_true_iff in C. destruct C as [Ca Cl]. apply Nat.ltb_lt in Cl.
      split; [left; reflexivity|]. split; [assumption|]. intros z [<-|Hz] Hzs; [lia|].
      specialize (Hmax z Hz Hzs). lia.
    + split; [right; assumption|]. split; [assumption|]. intros z [<-|Hz] Hzs; [|apply Hmax; assumption].
      rewrite Hzs in C. cbn in C. apply Nat.ltb_ge in C. exact C.
  - destruct (starts_with a s) eqn:Ca; inversion H; subst; clear H.
    split; [left; reflexivity|]. split; [assumption|]. intros z [<-|Hz] Hzs; [lia|].
    exfalso. revert Hz Hzs. clear -E. revert z. induction l as [|b l IHl]; intros z Hz Hzs; [contradiction|].
    cbn [longest_match] in E. destruct (longest_match l s) eqn:E'.
    + destruct (starts_with b s && _); discriminate.
    + destruct (starts_with b s) eqn:Cb; [discriminate|]. destruct Hz as [<-|Hz]; [congruence|].
      apply (IHl eq_refl z Hz Hzs).
Qed.

Lemma longest_match_none l : forall s, longest_match l s = None -> forall y, In y l -> starts_with y s = false.
Proof.
  induction l as [|b l IHl]; intros s E y Hy; [contradiction|].
  cbn [longest_match] in E. destruct (longest_match l s) eqn:E'.
  - destruct (starts_with b s && _); discriminate.
  - destruct (starts_with b s) eqn:Cb; [discriminate|]. destruct Hy as [<-|Hy]; [assumption|].
    apply (IHl s E' y Hy).
Qed.

Lemma first_match_is_longest l : prefix_ordered l = true -> forall s, first_match l s = longest_match l s.
Proof.
  induction l as [|x l IH]; intros Hpo s; [reflexivity|].
  cbn [prefix_ordered] in Hpo. apply andb_true_iff in Hpo. destruct Hpo as [Hx Hl].
  cbn [first_match longest_match]. rewrite <- (IH Hl s).
  destruct (starts_with x s) eqn:Cx.
  - destruct (first_match l s) as [y|] eqn:E; [|reflexivity].
    rewrite (IH Hl s) in E. destruct (longest_match_some l s y E) as (Hin & Hys & _).
    rewrite forallb_forall in Hx. specialize (Hx y Hin). apply negb_true_iff in Hx.
    cbn [andb]. destruct (length y <? length x)%nat eqn:Cl; [reflexivity|].
    apply Nat.ltb_ge in Cl.
    assert (Hxy : starts_with x y = true) by (apply (prefix_comparable x y s); assumption).
    rewrite Hxy in Hx. cbn in Hx. apply Nat.ltb_ge in Hx.
    f_equal. apply prefix_same_length; [assumption | lia].
  - cbn [andb]. destruct (first_match l s); reflexivity.
Qed.

Lemma symbols_prefix_ordered : prefix_ordered symbols = true.
Proof. vm_compute. reflexivity. Qed.

Lemma symbols_longest : forall s, first_match symbols s = longest_match symbols s.
Proof. exact (first_match_is_longest symbols symbols_prefix_ordered). Qed.

(* longest match depends only on the SET of symbols *)
Lemma mem_bytes_In x l : mem_bytes x l = true <-> In x l.
Proof.
  unfold mem_bytes. rewrite existsb_exists. split.
  - intros (y & Hy & E). apply zlist_eqb_eq in E. subst. exact Hy.
  - intros H. exists x. split; [exact H | apply zlist_eqb_eq; reflexivity].
Qed.

Definition same_set (l1 l2 : list (list Z)) : bool :=
  forallb (fun x => mem_bytes x l2) l1 && forallb (fun x => mem_bytes x l1) l2.

Lemma longest_match_same_set l1 l2 : same_set l1 l2 = true -> forall s, longest_match l1 s = longest_match l2 s.
Proof.
  unfold same_set. intros H s. apply andb_true_iff in H. destruct H as [H12 H21].
  rewrite forallb_forall in H12, H21.
  assert (I12 : forall x, In x l1 -> In x l2) by (intros x Hx; apply mem_bytes_In, H12, Hx).
  assert (I21 : forall x, In x l2 -> In x l1) by (intros x Hx; apply mem_bytes_In, H21, Hx).
  destruct (longest_match l1 s) as [x1|] eqn:E1; destruct (longest_match l2 s) as [x2|] eqn:E2.
  - destruct (longest_match_some _ _ _ E1) as (In1 & P1 & M1).
    destruct (longest_match_some _ _ _ E2) as (In2 & P2 & M2).
    pose proof (M1 x2 (I21 _ In2) P2) as L21. pose proof (M2 x1 (I12 _ In1) P1) as L12.
    f_equal. apply prefix_same_length; [|lia]. apply (prefix_comparable x1 x2 s); [assumption|assumption|lia].
  - destruct (longest_match_some _ _ _ E1) as (In1 & P1 & _).
    rewrite (longest_match_none _ _ E2 x1 (I12 _ In1)) in P1. discriminate.
  - destruct (longest_match_some _ _ _ E2) as (In2 & P2 & _).
    rewrite (longest_match_none _ _ E1 x2 (I21 _ In2)) in P2. discriminate.
  - reflexivity.
Qed.

Lemma symbols_same_set_now : same_set symbols spec_symbols = true.
Proof. vm_compute. reflexivity. Qed.

Lemma symbols_longest_spec : forall s, first_match symbols s = longest_match spec_symbols s.
Proof.
  intros s. rewrite symbols_longest. apply longest_match_same_set. exact symbols_same_set_now.
Qed.

(* the symbol rows of the full table behave as first_match on the literals *)
Lemma first_matcher_symbols l : forall s, Forall (fun x => x <> []) l ->
  first_matcher (map (fun x => (MSymbol x, KSymbol)) l) s =
  match first_match l s with
  | Some x => match drop_prefix x s with Some r => Some (KSymbol, x, r) | None => None end
  | None => None
  end.
Proof.
  induction l as [|x l IH]; intros s Hne; [reflexivity|].
  inversion Hne as [|? ? Hx Hl]; subst. cbn [map first_matcher first_match run_matcher].
  unfold scan_literal. destruct x as [|x0 x']; [congruence|].
  assert (E : forall p q, starts_with p q = match drop_prefix p q with Some _ => true | None => false end).
  { clear. induction p as [|a p IHp]; intros [|b q]; cbn; try reflexivity.
    destruct (a =? b); cbn; [apply IHp | reflexivity]. }
  rewrite (E (x0 :: x') s). destruct (drop_prefix (x0 :: x') s) eqn:D.
  - cbn [drop_prefix] in D |- *. rewrite ?D. reflexivity.
  - apply IH. exact Hl.
Qed.

(* ---------- split lemmas: every scanner returns (matched, rest) with subject = matched ++ rest *)
Lemma take_while_split p s : forall a b, take_while p s = (a, b) -> s = a ++ b.
Proof.
  induction s as [|c r IH]; intros a b H; cbn in H.
  - inversion H. reflexivity.
  - destruct (p c).
    + destruct (take_while p r) as [a' b'] eqn:E. inversion H; subst. cbn. f_equal. apply IH. reflexivity.
    + inversion H; subst. reflexivity.
Qed.

Lemma take_while1_split p s a b : take_while1 p s = Some (a, b) -> s = a ++ b.
Proof.
  unfold take_while1. destruct (take_while p s) as [a' b'] eqn:E. destruct (is_nil a'); [discriminate|].
  intros H. inversion H; subst. apply take_while_split in E. exact E.
Qed.

Lemma drop_prefix_split p : forall s r, drop_prefix p s = Some r -> s = p ++ r.
Proof.
  induction p as [|x p IH]; intros s r H; cbn in H.
  - inversion H. reflexivity.
  - destruct s as [|y s]; [discriminate|]. destruct (x =? y) eqn:C; [|discriminate].
    apply Z.eqb_eq in C. subst. cbn. f_equal. apply IH. exact H.
Qed.

Lemma opt_frac_split p s a b : opt_frac p s = (a, b) -> s = a ++ b.
Proof.
  unfold opt_frac. destruct (hd_is 46 s) eqn:Hd.
  - apply hd_is_spec in Hd. destruct (take_while1 p (tl s)) as [[a' b']|] eqn:E; intros H; inversion H; subst.
    + apply take_while1_split in E. rewrite Hd at 1. rewrite E. reflexivity.
    + reflexivity.
  - intros H; inversion H; subst. reflexivity.
Qed.

Lemma opt_exp_split s a b : opt_exp s = (a, b) -> s = a ++ b.
Proof.
  unfold opt_exp. destruct s as [|e r]; [intros H; inversion H; reflexivity|].
  destruct ((e =? 101) || (e =? 69)); [|intros H; inversion H; reflexivity].
  destruct (hd_is 45 r) eqn:Hd.
  - apply hd_is_spec in Hd. destruct (take_while1 m_digit (tl r)) as [[a' b']|] eqn:E; intros H; inversion H; subst.
    + apply take_while1_split in E. rewrite Hd at 1. rewrite E. reflexivity.
    + reflexivity.
  - destruct (take_while1 m_digit r) as [[a' b']|] eqn:E; intros H; inversion H; subst.
    + apply take_while1_split in E. rewrite E. reflexivity.
    + reflexivity.
Qed.

Lemma num_prefix_split l u s a b : num_prefix l u s = Some (a, b) -> s = a ++ b.
Proof.
  unfold num_prefix. destruct s as [|z [|x r]]; try discriminate.
  destruct ((z =? 48) && ((x =? l) || (x =? u))) eqn:C; [|discriminate].
  apply andb_true_iff in C. destruct C as [C _]. apply Z.eqb_eq in C. subst.
  intros H; inversion H; subst. reflexivity.
Qed.

Lemma scan_based_split l u p s a b : scan_based l u p s = Some (a, b) -> s = a ++ b.
Proof.
  unfold scan_based. destruct (num_prefix l u s) as [[pre r]|] eqn:E1; [|discriminate].
  destruct (take_while1 p r) as [[a1 r2]|] eqn:E2; [|discriminate].
  destruct (opt_frac p r2) as [f r3] eqn:E3. intros H; inversion H; subst.
  apply num_prefix_split in E1. apply take_while1_split in E2. apply opt_frac_split in E3. subst.
  rewrite <- !app_assoc. reflexivity.
Qed.

Lemma scan_based_frac_split l u p s a b : scan_based_frac l u p s = Some (a, b) -> s = a ++ b.
Proof.
  unfold scan_based_frac. destruct (num_prefix l u s) as [[pre r]|] eqn:E1; [|discriminate].
  destruct (hd_is 46 r) eqn:Hd; [|discriminate]. apply hd_is_spec in Hd.
  destruct (take_while1 p (tl r)) as [[a1 r2]|] eqn:E2; [|discriminate].
  intros H; inversion H; subst. apply num_prefix_split in E1. apply take_while1_split in E2. subst.
  rewrite Hd, E2. rewrite <- app_assoc. reflexivity.
Qed.

Lemma scan_decimal_split s a b : scan_decimal s = Some (a, b) -> s = a ++ b.
Proof.
  unfold scan_decimal. destruct (take_while1 m_digit s) as [[a1 r]|] eqn:E1; [|discriminate].
  apply take_while1_split in E1.
  assert (Hf : forall f r2,
    (if hd_is 46 r then if hd_is 46 (tl r) then ([], r)
       else let '(d, r') := take_while m_digit (tl r) in (46 :: d, r') else ([], r)) = (f, r2) -> r = f ++ r2).
  { intros f r2. destruct (hd_is 46 r) eqn:Hd; [|intros H; inversion H; reflexivity].
    apply hd_is_spec in Hd. destruct (hd_is 46 (tl r)); [intros H; inversion H; reflexivity|].
    destruct (take_while m_digit (tl r)) as [d r'] eqn:E. intros H; inversion H; subst.
    apply take_while_split in E. rewrite Hd at 1. rewrite E. reflexivity. }
  destruct (if hd_is 46 r then _ else _) as [f r2] eqn:E2. specialize (Hf f r2 eq_refl). rename Hf into E2'.
  destruct (opt_exp r2) as [e r3] eqn:E3. apply opt_exp_split in E3.
  intros H; inversion H; subst. rewrite <- !app_assoc. reflexivity.
Qed.

Lemma scan_decimal_frac_split s a b : scan_decimal_frac s = Some (a, b) -> s = a ++ b.
Proof.
  unfold scan_decimal_frac. destruct (hd_is 46 s) eqn:Hd; [|discriminate]. apply hd_is_spec in Hd.
  destruct (take_while1 m_digit (tl s)) as [[a1 r2]|] eqn:E1; [|discriminate].
  destruct (opt_exp r2) as [e r3] eqn:E3. apply opt_exp_split in E3. apply take_while1_split in E1.
  intros H; inversion H; subst. rewrite Hd at 1. rewrite E1. cbn. rewrite <- app_assoc. reflexivity.
Qed.

Lemma scan_name_split s a b : scan_name s = Some (a, b) -> s = a ++ b.
Proof.
  unfold scan_name. destruct s as [|c r]; [discriminate|]. destruct (m_name_start c); [|discriminate].
  destruct (take_while m_name_char r) as [a1 b1] eqn:E. apply take_while_split in E.
  intros H; inversion H; subst. reflexivity.
Qed.

Lemma scan_label_split s a b : scan_label s = Some (a, b) -> s = a ++ b.
Proof.
  unfold scan_label. destruct (drop_prefix [58; 58] s) as [r|] eqn:E1; [|discriminate].
  destruct (scan_name r) as [[n r2]|] eqn:E2; [|discriminate].
  destruct (drop_prefix [58; 58] r2) as [r3|] eqn:E3; [|discriminate].
  apply drop_prefix_split in E1. apply scan_name_split in E2. apply drop_prefix_split in E3.
  intros H; inversion H; subst. cbn. rewrite <- app_assoc. reflexivity.
Qed.

Lemma scan_keyword_split kw s a b : scan_keyword kw s = Some (a, b) -> s = a ++ b.
Proof.
  unfold scan_keyword. destruct kw as [|k0 kw']; [discriminate|].
  destruct (m_word k0); [|discriminate].
  destruct (drop_prefix (k0 :: kw') s) as [r|] eqn:E; [|discriminate]. apply drop_prefix_split in E.
  destruct r as [|c r'].
  - intros H; inversion H; subst. reflexivity.
  - destruct (m_name_char c); [discriminate|]. intros H; inversion H; subst. reflexivity.
Qed.

Lemma scan_literal_split lit s a b : scan_literal lit s = Some (a, b) -> s = a ++ b.
Proof.
  unfold scan_literal. destruct lit as [|x l]; [discriminate|].
  destruct (drop_prefix (x :: l) s) as [r|] eqn:E; [|discriminate]. apply drop_prefix_split in E.
  intros H; inversion H; subst. reflexivity.
Qed.

Lemma comment_split c s a b :
  match drop_prefix [c; c] s with
  | Some r => let '(a, b) := take_while m_not_eol r in Some (c :: c :: a, b)
  | None => None
  end = Some (a, b) -> s = a ++ b.
Proof.
  destruct (drop_prefix [c; c] s) as [r|] eqn:E; [|discriminate]. apply drop_prefix_split in E.
  destruct (take_while m_not_eol r) as [a1 b1] eqn:E2. apply take_while_split in E2.
  intros H; inversion H; subst. reflexivity.
Qed.

Lemma run_matcher_split m s a b : run_matcher m s = Some (a, b) -> s = a ++ b.
Proof.
  destruct m; cbn [run_matcher].
  - apply comment_split.
  - apply comment_split.
  - apply take_while1_split.
  - apply scan_literal_split.
  - apply scan_literal_split.
  - apply scan_literal_split.
  - apply scan_based_split.
  - apply scan_based_frac_split.
  - apply scan_based_split.
  - apply scan_based_frac_split.
  - apply scan_decimal_split.
  - apply scan_decimal_frac_split.
  - apply scan_label_split.
  - apply scan_keyword_split.
  - apply scan_literal_split.
  - apply scan_name_split.
  - apply scan_literal_split.
Qed.

Lemma first_matcher_split tbl : forall s k a b, first_matcher tbl s = Some (k, a, b) -> s = a ++ b.
Proof.
  induction tbl as [|[m k0] tbl IH]; intros s k a b H; [discriminate|].
  cbn [first_matcher] in H. destruct (run_matcher m s) as [[a1 r1]|] eqn:E.
  - inversion H; subst. apply (run_matcher_split _ _ _ _ E).
  - apply (IH _ _ _ _ H).
Qed.

Lemma find_rbrackets_split s : forall a b, find_rbrackets s = Some (a, b) -> s = a ++ b.
Proof.
  induction s as [|c r IH]; intros a b H; [discriminate|]. cbn [find_rbrackets] in H.
  destruct ((c =? 93) && hd_is 93 r) eqn:C.
  - apply andb_true_iff in C. destruct C as [C1 C2]. apply Z.eqb_eq in C1. apply hd_is_spec in C2.
    inversion H; subst. cbn. f_equal. exact C2.
  - destruct (find_rbrackets r) as [[a1 b1]|] eqn:E; [|discriminate]. inversion H; subst.
    cbn. f_equal. apply IH. reflexivity.
Qed.

Lemma find_long_close_split closer s : forall a b, find_long_close closer s = Some (a, b) -> s = a ++ closer ++ b.
Proof.
  induction s as [|c r IH]; intros a b H; cbn [find_long_close] in H.
  - destruct (drop_prefix closer []) as [r0|] eqn:E; [|discriminate].
    inversion H; subst. apply drop_prefix_split in E. exact E.
  - destruct (drop_prefix closer (c :: r)) as [r0|] eqn:E.
    + inversion H; subst. apply drop_prefix_split in E. exact E.
    + destruct (find_long_close closer r) as [[a1 b1]|] eqn:E2; [|discriminate]. inversion H; subst.
      cbn. f_equal. apply IH. reflexivity.
Qed.

Lemma match_long_open_split s eqs r : match_long_open s = Some (eqs, r) -> s = 91 :: eqs ++ 91 :: r.
Proof.
  unfold match_long_open. destruct (hd_is 91 s) eqn:H1; [|discriminate]. apply hd_is_spec in H1.
  destruct (take_while (fun c => c =? 61) (tl s)) as [e r2] eqn:E. apply take_while_split in E.
  destruct (hd_is 91 r2) eqn:H2; [|discriminate]. apply hd_is_spec in H2.
  intros H; inversion H; subst. rewrite H1 at 1. rewrite E. rewrite H2 at 1. reflexivity.
Qed.

(* the in-string loop: the consumed piece followed by the rest is the subject *)
Lemma take_upto_split n p : forall s a b, take_upto n p s = (a, b) -> s = a ++ b.
Proof.
  induction n as [|n IH]; intros s a b H; cbn in H.
  - inversion H; reflexivity.
  - destruct s as [|c r]; [inversion H; reflexivity|]. destruct (p c).
    + destruct (take_upto n p r) as [a' b'] eqn:E. inversion H; subst. cbn. f_equal. apply IH. exact E.
    + inversion H; subst. reflexivity.
Qed.

Lemma escape_step_split r v used rest : escape_step r = Ok (v, used, rest) -> r = used ++ rest.
Proof.
  unfold escape_step. destruct r as [|d1 r1]; [intros H; inversion H; reflexivity|].
  destruct (m_digit d1).
  - destruct (take_upto 3 m_digit (d1 :: r1)) as [ds rs] eqn:E. apply take_upto_split in E.
    destruct (byte_of_digits ds <? 256); [|discriminate]. intros H; inversion H; subst. exact E.
  - destruct r1 as [|h1 [|h2 r3]].
    + destruct (lookup_bytes string_escapes [d1]); intros H; inversion H; subst; reflexivity.
    + destruct ((d1 =? 13) && (h1 =? 10)) eqn:C.
      * apply andb_true_iff in C. destruct C as [C1 C2]. apply Z.eqb_eq in C1, C2. subst.
        intros H; inversion H; subst; reflexivity.
      * destruct (lookup_bytes string_escapes [d1]); intros H; inversion H; subst; reflexivity.
    + destruct ((d1 =? 120) && m_hex h1 && m_hex h2); [intros H; inversion H; subst; reflexivity|].
      destruct ((d1 =? 13) && (h1 =? 10)) eqn:C.
      * apply andb_true_iff in C. destruct C as [C1 C2]. apply Z.eqb_eq in C1, C2. subst.
        intros H; inversion H; subst; reflexivity.
      * destruct (lookup_bytes string_escapes [d1]); intros H; inversion H; subst; reflexivity.
Qed.

Definition sscan_piece_rev (r : sscan) : list Z := match r with SClosed _ p _ => p | SOpen _ p => p end.
Definition sscan_rest (r : sscan) : list Z := match r with SClosed _ _ rest => rest | SOpen _ _ => [] end.

Lemma scan_string_split delim fuel : forall s acc pc x, scan_string fuel delim s acc pc = Ok x ->
  rev pc ++ s = rev (sscan_piece_rev x) ++ sscan_rest x.
Proof.
  induction fuel as [|f IH]; intros s acc pc x H; destruct s as [|c r]; cbn [scan_string] in H.
  - inversion H; subst. cbn. reflexivity.
  - discriminate.
  - inversion H; subst. cbn. reflexivity.
  - destruct (c =? delim).
    + inversion H; subst. cbn. rewrite <- app_assoc. reflexivity.
    + destruct (c =? 92).
      * destruct (escape_step r) as [[[v used] rest]|e] eqn:E; [|discriminate].
        apply escape_step_split in E. apply IH in H. rewrite <- H.
        rewrite rev_append_rev, rev_app_distr, rev_involutive. cbn [rev]. rewrite E, <- !app_assoc. reflexivity.
      * apply IH in H. rewrite <- H. cbn [rev]. rewrite <- app_assoc. reflexivity.
Qed.
