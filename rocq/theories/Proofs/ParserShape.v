(* The parser model builds spanned, shaped trees (Proofs/TreeShape.v): the specification lemmas of
   Proofs/ParserSpecs.v re-run with a stronger postcondition.  Every specification says in addition, for a
   run from cursor p to cursor p1 with result t:
     - span t p p1: every leaf of t was the first significant token at the cursor, node ends are cursors;
     - shaped k t: the fields of every node are the leaves / sub-nodes its parse function produces, each
       hidden leaf with the pattern it was accepted with;
     - _chunk: the token at the end position of a Chunk node is not `;`.
   Nothing of Proofs/ParserSpecs.v is changed; Properties/C08.v does not depend on this file. *)
From PV Require Import Base.Prelude Base.PySlice Spec.LuaTokens Spec.LuaGrammar Model.Tokens Model.Parser Model.WriterDomain
  Proofs.ParserProofs Proofs.ParserSpecs Proofs.TreeShape.
From Coq Require Import ZifyBool.
Ltac Zify.zify_post_hook ::= Z.to_euclidean_division_equations.

(* ------------------------------------------------------------------ _accept, with what a refusal means *)
Section A.
Variable ts : list token.
Local Notation tok_at := (ParserProofs.tok_at ts).

Lemma skip_ws_nomatch p l a i cur :
  0 <= a -> (forall k, nth_error l k = nth_error ts (Z.to_nat a + k)) ->
  skip_ws p l a = (i, cur) ->
  (forall j t, a <= j < i -> tok_at j = Some t -> matches t p = false) /\
  (cur = None -> forall j t, a <= j -> tok_at j = Some t -> matches t p = false).
Proof.
  revert a; induction l as [|t r IH]; intros a Ha Hl; cbn [skip_ws].
  - intros [= <- <-]. split; [intros; lia|]. intros _ j t Hj Ht. exfalso.
    unfold ParserProofs.tok_at in Ht. destruct (j <? 0) eqn:E0; [discriminate|].
    specialize (Hl (Z.to_nat j - Z.to_nat a)%nat). replace (Z.to_nat a + (Z.to_nat j - Z.to_nat a))%nat with (Z.to_nat j) in Hl by lia.
    rewrite Ht in Hl. destruct (Z.to_nat j - Z.to_nat a)%nat; discriminate.
  - assert (Hta : tok_at a = Some t).
    { unfold ParserProofs.tok_at. destruct (a <? 0) eqn:E0; [lia|]. rewrite <- (Nat.add_0_r (Z.to_nat a)), <- Hl. reflexivity. }
    destruct (matches t p || negb (is_trivia t)) eqn:E.
    + intros [= <- <-]. split; [intros; lia | intros; discriminate].
    + intros H. apply IH in H; [|lia|].
      * destruct H as (H1 & H2). apply orb_false_iff in E. destruct E as [E _]. split.
        -- intros j u Hj Hu. destruct (Z.eq_dec j a) as [->|Hne]; [congruence | apply (H1 j); [lia | exact Hu]].
        -- intros Hc j u Hj Hu. destruct (Z.eq_dec j a) as [->|Hne]; [congruence | apply (H2 Hc j); [lia | exact Hu]].
      * intros k. replace (Z.to_nat (a + 1) + k)%nat with (Z.to_nat a + S k)%nat by lia. rewrite <- Hl. reflexivity.
Qed.

(* a refusal at cursor q (within the fence): the token at q is not one the pattern matches *)
Lemma accept_none_spec p q mx st :
  pat_nontrivia p = true -> 0 <= q -> q <= lim ts mx ->
  match mx with Some f => nl_or_end ts f | None => True end ->
  accept ts p (q, mx) = Ok (None, st) ->
  forall t, tok_at q = Some t -> matches t p = false.
Proof.
  intros Hp Hq Hlim Hf. unfold accept. cbn [fst snd].
  destruct (skip_ws p (skipn (Z.to_nat q) ts) q) as [i cur] eqn:E.
  pose proof E as E'. apply skip_ws_spec with (ts := ts) in E'; [|exact Hq | intros k; apply nth_error_skipn].
  apply skip_ws_nomatch in E; [|exact Hq | intros k; apply nth_error_skipn].
  destruct E' as (H1 & _ & H3). destruct E as (N1 & N2). destruct cur as [u|].
  - destruct H3 as [Hu _]. destruct (matches u p && fence_ok mx i) eqn:E2; [discriminate|]. intros _ t Ht.
    destruct (Z.eq_dec i q) as [->|Hne]; [|apply (N1 q); [lia | exact Ht]].
    assert (u = t) by congruence. subst u. apply andb_false_iff in E2. destruct E2 as [E2|E2]; [exact E2|].
    destruct mx as [f|]; cbn [fence_ok ParserProofs.lim] in *; [|discriminate].
    assert (f = q) by lia. subst f. destruct Hf as [Hf|(u & Hu' & Hnl)].
    + apply tok_at_lt in Ht. lia.
    + assert (u = t) by congruence. subst u. destruct (matches t p) eqn:Em; [|reflexivity].
      apply (matches_nontrivia _ _ Hp) in Em. unfold is_newline in Hnl. unfold is_trivia in Em.
      destruct (tk t); discriminate.
  - intros _ t Ht. apply (N2 eq_refl q); [lia | exact Ht].
Qed.

Lemma wpx_accept_nf pat (Q : post (option (Z * token))) p mx :
  pat_nontrivia pat = true -> 0 <= p -> p <= lim ts mx ->
  match mx with Some f => nl_or_end ts f | None => True end ->
  ((forall t, tok_at p = Some t -> matches t pat = false) -> Q None p mx) ->
  (forall i t, p <= i -> i < zlen ts -> i < lim ts mx -> [i] = sig ts p (i + 1) -> tok_at i = Some t ->
               matches t pat = true -> Q (Some (i, t)) (i + 1) mx) ->
  wpx (accept ts pat) Q p mx.
Proof.
  intros Hp Hq Hlim Hf Hn Hs. unfold wpx. pose proof (accept_spec ts pat p mx Hp Hq) as H.
  pose proof (accept_none_spec pat p mx) as HN.
  destruct (accept ts pat (p, mx)) as [[[[i t]|] [p1 mx1]]|e]; [| |contradiction].
  - destruct H as ([= -> ->] & H1 & H2 & H3 & H4 & H5 & H6). apply Hs; assumption.
  - injection H as -> ->. apply Hn. exact (HN _ Hp Hq Hlim Hf eq_refl).
Qed.

Lemma wpx_accept_first_m ps (Q : post (option (Z * token))) p mx :
  forallb pat_nontrivia ps = true -> 0 <= p ->
  Q None p mx ->
  (forall i t, p <= i -> i < zlen ts -> i < lim ts mx -> [i] = sig ts p (i + 1) -> tok_at i = Some t ->
               existsb (matches t) ps = true -> Q (Some (i, t)) (i + 1) mx) ->
  wpx (accept_first ts ps) Q p mx.
Proof.
  intros Hps Hq Hn Hs. induction ps as [|pt r IH]; cbn [accept_first].
  - apply wpx_ret, Hn.
  - cbn [forallb] in Hps. apply andb_true_iff in Hps. destruct Hps as [Hp Hr].
    apply wpx_bind. apply wpx_accept; [exact Hp | exact Hq | apply IH; [exact Hr|] |].
    + intros i t H1 H2 H3 H4 H5 H6. apply Hs; try assumption. cbn [existsb]. rewrite H6. apply orb_true_r.
    + intros i t H1 H2 H3 H4 H5 H6. apply wpx_ret. apply Hs; try assumption. cbn [existsb]. rewrite H6. reflexivity.
Qed.
End A.

Section S.
Variable ts : list token.
Variables binops unops : list pat.
Hypothesis Hbin : forallb pat_nontrivia binops = true.
Hypothesis Hun : forallb pat_nontrivia unops = true.

Local Notation sig := (sig ts).
Local Notation wf := (wf ts).
Local Notation wfl := (wfl ts).
Local Notation lim := (lim ts).
Local Notation tok_at := (tok_at ts).
Local Notation len := (zlen ts).
Local Notation span := (span ts).
Local Notation spans := (spans ts).
Local Notation shaped := (shaped ts binops unops).
Local Notation mtok := (mtok ts).
Local Notation ctok := (ctok ts).
Local Notation optok := (optok ts).
Local Notation pre := (pre ts).
Local Notation frame := (frame ts).

(* result of _prefixexp: a prefix-expression node, or a parenthesised expression (possibly `()`), or None *)
Definition pfx_res (t : tree) : Prop :=
  shaped cPrefix t \/
  (exists i j x, t = Paren i j x /\ mtok (psym "("%bs) i /\ mtok (psym ")"%bs) j /\ (is_none x = false -> shaped cExp x)) \/
  t = PNone.

Definition pfx_ok (t : tree) : Prop := shaped cPrefix t \/ is_paren t = true.
Definition args_ok (a : tree) : Prop := str_leaf ts a \/ shaped cArgs a \/ shaped cTable a.

(* ---------------------------------------------------------------- postconditions: those of ParserSpecs.v, extended *)
Definition postT (p : Z) (mx : option Z) : post tree := fun t p1 mx1 =>
  frame p mx p1 mx1 /\ leaves t = sig p p1 /\ wf p1 t /\ (exists fs, t = Node tChunk p p1 false [Lst fs]) /\
  span t p p1 /\ shaped cChunk t.
Definition postP (C : tree -> Prop) (p : Z) (mx : option Z) : post tree := fun t p1 mx1 =>
  frame p mx p1 mx1 /\ leaves t = sig p p1 /\ wf p1 t /\ is_hidden t = false /\ (is_none t = false -> p < p1) /\
  span t p p1 /\ C t.
Definition postE (p : Z) (mx : option Z) : post tree := fun t p1 mx1 =>
  frame p mx p1 mx1 /\ leaves t = sig p p1 /\ wf p1 t /\ end_ok t p1 /\ exp_shape t /\ (is_none t = false -> p < p1) /\
  span t p p1 /\ (is_none t = false -> shaped cExp t).
Definition postL (C : list tree -> Z -> Prop) (p : Z) (mx : option Z) : post (list tree) := fun l p1 mx1 =>
  frame p mx p1 mx1 /\ flat_map leaves l = sig p p1 /\ wfl p1 l /\ spans l p p1 /\ C l p1.
Definition postF (first : tree) (p : Z) (mx : option Z) : post tree := fun t p1 mx1 =>
  frame p mx p1 mx1 /\ leaves t = leaves first ++ sig p p1 /\ wf p1 t /\ is_hidden t = false /\
  (forall c0, span first c0 p -> span t c0 p1) /\ (t = first \/ shaped cPrefix t).
Definition postFE (first : tree) (p : Z) (mx : option Z) : post tree := fun t p1 mx1 =>
  frame p mx p1 mx1 /\ leaves t = leaves first ++ sig p p1 /\ wf p1 t /\ end_ok t p1 /\ exp_shape t /\
  (forall c0, span first c0 p -> span t c0 p1) /\ shaped cExp t.
Definition postN (C : tree -> Prop) (p : Z) (mx : option Z) : post tree := fun t p1 mx1 =>
  frame p mx p1 mx1 /\ leaves t = sig p p1 /\ wf p1 t /\ is_hidden t = false /\
  (is_none t = true -> t = PNone /\ p1 = p) /\ (is_none t = false -> p < p1) /\
  span t p p1 /\ (is_none t = false -> C t).
Definition postV (C : tree -> Prop) (p : Z) (mx : option Z) : post tree := fun t p1 mx1 =>
  frame p mx p1 mx1 /\ wf p1 t /\ (is_none t = false -> leaves t = sig p p1 /\ p < p1) /\ (is_none t = true -> t = PNone) /\
  (is_none t = false -> span t p p1) /\ (is_none t = false -> C t).
Definition postK (i : Z) (p : Z) (mx : option Z) : post tree := fun t p1 mx1 =>
  frame p mx p1 mx1 /\ leaves t = [i] ++ sig p p1 /\ wf p1 t /\ is_hidden t = false /\ is_none t = false /\
  (forall c0, [i] = sig c0 (i + 1) -> span t c0 p1) /\ shaped cStat t.

(* list shapes of the loops *)
Definition semis_shape (l : list tree) (p1 : Z) : Prop := Forall (stat_item ts (shaped cStat)) l /\ semi_free ts p1.
Definition stats_shape (l : list tree) (p1 : Z) : Prop := Forall (stat_item ts (shaped cStat)) l.
Definition names_shape (sep : pat) (l : list tree) (p1 : Z) : Prop := seplist ts (name_leaf ts) sep l.
Definition exps_shape (l : list tree) (p1 : Z) : Prop := seplist ts (shaped cExp) (psym ","%bs) l.
Definition vars_shape (l : list tree) (p1 : Z) : Prop := seplist ts (shaped cPrefix) (psym ","%bs) l.
Definition fields_shape (l : list tree) (p1 : Z) : Prop := fieldtail ts (shaped cField) l.
Definition elseifs_shape (l : list tree) (p1 : Z) : Prop := elseifs ts (shaped cExp) (shaped cChunk) l.

(* ---------------------------------------------------------------- small facts used by the tactics *)
Lemma ev_of_pfx s e p : pfx_res p -> is_none p = false -> shaped cExp (Node tExpValue s e false [p]).
Proof.
  intros [H | [(i & j & x & -> & Hi & Hj & Hx) | ->]] Hn.
  - apply sh_ev_prefix, H.
  - apply sh_ev_paren; [exact Hi | exact Hj | apply Hx; exact Hn].
  - discriminate Hn.
Qed.

Lemma ev_table_hid s e p t : shaped cTable t -> shaped cExp (Node tExpValue s e false (hid_list p ++ [t])).
Proof. intros H. destruct p; cbn [hid_list app]; first [apply sh_ev_table, H | apply sh_ev_hid]. Qed.

Lemma unop_hid s e p ui ut a : optok unops ui ut -> shaped cExp a ->
  shaped cExp (Node tExpUnOp s e false (hid_list p ++ [Tok ui ut; a])).
Proof. intros H1 H2. destruct p; cbn [hid_list app]; first [apply sh_unop; assumption | apply sh_unop_hid]. Qed.

Lemma exp_tag_not_var x : shaped cExp x -> is_var x = false.
Proof. intros H. unfold is_var. destruct (shaped_exp_tag _ _ _ _ H) as [-> | [-> | [-> | ->]]]; reflexivity. Qed.

Lemma exp_tag_not_call x : shaped cExp x -> is_call x = false.
Proof. intros H. unfold is_call. destruct (shaped_exp_tag _ _ _ _ H) as [-> | [-> | [-> | ->]]]; reflexivity. Qed.

Lemma is_var_paren i j x : is_var (Paren i j x) = is_var x.
Proof. reflexivity. Qed.
Lemma is_call_paren i j x : is_call (Paren i j x) = is_call x.
Proof. reflexivity. Qed.

Lemma none_not_var x : is_none x = true -> is_var x = false.
Proof. unfold is_none, is_var, tag_of. destruct (strip_paren x); try discriminate; reflexivity. Qed.
Lemma none_not_call x : is_none x = true -> is_call x = false.
Proof. unfold is_none, is_call, tag_of. destruct (strip_paren x); try discriminate; reflexivity. Qed.

Lemma pfx_var p : pfx_res p -> is_var p = true -> shaped cPrefix p.
Proof.
  intros [H | [(i & j & x & -> & Hi & Hj & Hx) | ->]] Hv; [exact H | | discriminate Hv].
  rewrite is_var_paren in Hv. destruct (is_none x) eqn:E.
  - rewrite (none_not_var _ E) in Hv. discriminate.
  - rewrite (exp_tag_not_var _ (Hx eq_refl)) in Hv. discriminate.
Qed.

Lemma pfx_call p : pfx_res p -> is_call p = true -> shaped cPrefix p.
Proof.
  intros [H | [(i & j & x & -> & Hi & Hj & Hx) | ->]] Hv; [exact H | | discriminate Hv].
  rewrite is_call_paren in Hv. destruct (is_none x) eqn:E.
  - rewrite (none_not_call _ E) in Hv. discriminate.
  - rewrite (exp_tag_not_call _ (Hx eq_refl)) in Hv. discriminate.
Qed.

Lemma pfx_res_ok p : pfx_res p -> is_none p = false -> pfx_ok p.
Proof.
  intros [H | [(i & j & x & -> & _) | ->]] Hn; [left; exact H | right; reflexivity | discriminate Hn].
Qed.

Lemma stat_items_app a b : Forall (stat_item ts (shaped cStat)) a -> Forall (stat_item ts (shaped cStat)) b ->
  Forall (stat_item ts (shaped cStat)) (a ++ b).
Proof. intros Ha Hb. apply Forall_app. split; assumption. Qed.

(* the condition of a short-if as an expression node, with its span opened *)
Lemma span_node_inv tag s e sh fs c c' : span (Node tag s e sh fs) c c' -> c' = e /\ spans fs c e.
Proof. intros H. inversion H; subst. split; [reflexivity | assumption]. Qed.

Lemma hid_spans a c c' : span a c c' -> spans (hid_list a) c c'.
Proof.
  intros H. destruct a; cbn [hid_list]; try (eapply sps_cons; [apply sp_hid; exact H | apply sps_nil]).
  inversion H; subst. apply sps_nil.
Qed.

Section Step.
Variable R : funs.
Variable k : Z.
(* G p: the functions one level down may be called at cursor p *)
Definition G (p : Z) : Prop := len - p < k.
Hypothesis H_exp : forall p mx, G p -> pre p mx -> wpx (r_exp R) (postE p mx) p mx.
Hypothesis H_chunk : forall p mx, G p -> pre p mx -> wpx (r_chunk R) (postT p mx) p mx.
Hypothesis H_semis : forall p mx, G p -> pre p mx -> wpx (r_semis R) (postL semis_shape p mx) p mx.
Hypothesis H_stats_loop : forall p mx, G p -> pre p mx -> wpx (r_stats_loop R) (postL stats_shape p mx) p mx.
Hypothesis H_namelist_loop : forall p mx, G p -> pre p mx -> wpx (r_namelist_loop R) (postL (names_shape (psym ","%bs)) p mx) p mx.
Hypothesis H_funcname_loop : forall p mx, G p -> pre p mx -> wpx (r_funcname_loop R) (postL (names_shape (psym "."%bs)) p mx) p mx.
Hypothesis H_explist_loop : forall p mx, G p -> pre p mx -> wpx (r_explist_loop R) (postL exps_shape p mx) p mx.
Hypothesis H_varlist_loop : forall p mx, G p -> pre p mx -> wpx (r_varlist_loop R) (postL vars_shape p mx) p mx.
Hypothesis H_fields_loop : forall p mx, G p -> pre p mx -> wpx (r_fields_loop R) (postL fields_shape p mx) p mx.
Hypothesis H_elseif_loop : forall p mx, G p -> pre p mx -> wpx (r_elseif_loop R) (postL elseifs_shape p mx) p mx.
Hypothesis H_precur : forall first p mx, G p -> pre p mx -> wf p first -> is_hidden first = false -> pfx_ok first ->
  wpx (r_precur R first) (postF first p mx) p mx.
Hypothesis H_binop : forall first p mx, G p -> pre p mx -> wf p first -> end_ok first p -> exp_shape first -> shaped cExp first ->
  wpx (r_binop R first) (postFE first p mx) p mx.

(* G' p: a function of this level may be entered at cursor p *)
Definition G' (p : Z) : Prop := len - p <= k.

(* ---------------------------------------------------------------- tactics *)
Ltac fence_trivial := let H := fresh in intros _ H; discriminate H.

Ltac wf_tac :=
  lazymatch goal with
  | |- wf _ (Node _ _ _ false _) => apply wf_node; [lia | lia | wfl_tac | fence_trivial]
  | |- wf _ (Lst _) => apply wf_lst; wfl_tac
  | |- wf _ (Paren _ _ _) => cbn [ParserProofs.wf]; wf_tac
  | |- wf _ (Hid _) => cbn [ParserProofs.wf]; wf_tac
  | |- True => exact I
  | |- wf _ (Tok _ _) => exact I
  | |- wf _ (Kw _) => exact I
  | |- wf _ PNone => exact I
  | |- wf _ (PBool _) => exact I
  | |- wf _ (PBytes _) => exact I
  | |- wf _ (opt_tok ?n) => destruct n as [[? ?]|]; exact I
  | |- wf _ (if ?b then _ else _) => destruct b; wf_tac
  | |- wf _ _ => first [eassumption | eapply wf_mono; [eassumption | lia]]
  end
with wfl_tac :=
  lazymatch goal with
  | |- wfl _ [] => exact I
  | |- wfl _ (_ :: _) => apply wfl_cons; [wf_tac | wfl_tac]
  | |- wfl _ (_ ++ _) => apply wfl_app; [wfl_tac | wfl_tac]
  | |- wfl _ (hid_list _) => apply hid_wfl; wf_tac
  | |- wfl _ (if ?b then _ else _) => destruct b; wfl_tac
  | |- wfl _ _ => first [eassumption | eapply wfl_mono; [eassumption | lia]]
  end.

Ltac end_tac :=
  let ee := fresh in let H := fresh in
  first [ assumption
        | apply is_none_end_ok; first [ assumption | apply negb_false_iff; assumption ]
        | intros ee H; first [ cbn [end_of strip_paren] in H; injection H as <-; reflexivity | discriminate H ] ].

Ltac hidden_tac :=
  first [ reflexivity | assumption | apply exp_shape_not_hidden; assumption
        | match goal with |- is_hidden (opt_tok ?n) = false => destruct n as [[? ?]|]; reflexivity end ].

Ltac shape_tac :=
  first [ assumption
        | apply is_none_exp_shape; first [ assumption | apply negb_false_iff; assumption ]
        | cbn [exp_shape]; let H := fresh in intros H;
          first [ discriminate H
                | vm_compute in H; discriminate H
                | lazymatch goal with
                  | |- exists hs v, [?a; ?b] = _ /\ _ => exists [a], b; repeat split; reflexivity
                  | |- exists hs v, [?a] = _ /\ _ => exists [], a; repeat split; hidden_tac
                  | |- exists hs v, hid_list ?p ++ [?t] = _ /\ _ =>
                      exists (hid_list p), t; split; [reflexivity | split; [apply hid_list_hidden | hidden_tac]]
                  end ] ].

(* turn "not None -> progress" facts into plain inequalities where the result is known not to be None *)
Ltac prog_facts :=
  repeat match goal with
         | H : true = false -> _ |- _ => clear H
         | H : false = true -> _ |- _ => clear H
         | H : false = false -> _ |- _ => specialize (H eq_refl)
         | E : is_none ?a = false, Hn : is_none ?a = false -> _ |- _ => specialize (Hn E)
         | E : negb (is_none ?a) = true, Hn : is_none ?a = false -> _ |- _ =>
             let E' := fresh in pose proof (proj1 (negb_true_iff _) E) as E'; specialize (Hn E')
         | H : _ = _ /\ _ < _ |- _ => destruct H
         end.

(* a dropped None result is literally None and left the cursor alone *)
Ltac none_facts :=
  repeat match goal with
         | H : true = false -> _ |- _ => clear H
         | H : false = true -> _ |- _ => clear H
         | H : ?x = ?x -> ?a = PNone /\ ?q = _ |- _ => is_var a; is_var q; destruct (H eq_refl) as [-> ->]; clear H
         | H : ?x = ?x -> ?a = PNone |- _ => is_var a; rewrite (H eq_refl) in *; clear H
         | E : negb (is_none ?a) = false, Hn : is_none ?a = true -> _ /\ _ |- _ =>
             let E' := fresh in pose proof (proj1 (negb_false_iff _) E) as E'; destruct (Hn E') as [-> ->]; clear Hn
         | E : is_none ?a = true, Hn : is_none ?a = true -> _ /\ _ |- _ =>
             destruct (Hn E) as [-> ->]; clear Hn
         | E : negb (is_none ?a) = false, Hn : is_none ?a = true -> ?a = PNone |- _ =>
             let E' := fresh in pose proof (proj1 (negb_false_iff _) E) as E'; rewrite (Hn E') in *; clear Hn
         | E : is_none ?a = true, Hn : is_none ?a = true -> ?a = PNone |- _ =>
             rewrite (Hn E) in *; clear Hn
         end.

Ltac side :=
  prog_facts; cbn [ParserProofs.lim] in *;
  lazymatch goal with
  | |- G _ => unfold G, G' in *; lia
  | |- G' _ => unfold G, G' in *; lia
  | |- pre _ _ => unfold ParserSpecs.pre, fence_wf; cbn [ParserProofs.lim]; repeat split; first [lia | assumption]
  | |- wf _ _ => wf_tac
  | |- end_ok _ _ => first [assumption | end_tac]
  | |- exp_shape _ => shape_tac
  | |- is_hidden _ = false => hidden_tac
  | |- pfx_ok _ => first [ assumption | right; reflexivity | left; assumption | apply pfx_res_ok; assumption | left; solve [kind_tac] ]
  | |- shaped _ _ => first [ assumption | kind_tac ]
  | |- TreeShape.mtok _ _ _ => atom_tac
  | |- _ => first [lia | assumption]
  end
(* ---- the new goals: positions ---- *)
with span_tac :=
  lazymatch goal with
  | |- spans [] _ _ => apply sps_nil
  | |- spans (_ :: _) _ _ => eapply sps_cons; [span_tac | span_tac]
  | |- spans (_ ++ _) _ _ => eapply spans_app; [span_tac | span_tac]
  | |- spans (if ?b then _ else _) _ _ => let E := fresh "E" in destruct b eqn:E; none_facts; prog_facts; span_tac
  | |- spans (hid_list ?p) _ _ => eapply hid_spans; eassumption
  | |- spans _ _ _ => eassumption
  | |- span (Kw _) _ _ => apply sp_kw; assumption
  | |- span (Tok _ _) _ _ => apply sp_tok; assumption
  | |- span (Node _ _ _ _ _) _ _ => apply sp_node; span_tac
  | |- span (Lst _) _ _ => apply sp_lst; span_tac
  | |- span (Paren _ _ _) _ _ => eapply sp_paren; [assumption | span_tac | assumption]
  | |- span (Hid _) _ _ => apply sp_hid; span_tac
  | |- span PNone _ _ => apply sp_none
  | |- span (PBool _) _ _ => apply sp_bool
  | |- span (PBytes _) _ _ => apply sp_bytes
  | |- span (opt_tok ?n) _ _ => first [ is_var n; destruct n as [[? ?]|]; cbn [opt_tok]; span_tac | cbn [opt_tok]; span_tac ]
  | |- span _ _ _ => first [ eassumption | match goal with H : forall c0, _ -> span _ c0 _ |- _ => eapply H; first [assumption | span_tac] end ]
  end
(* ---- the new goals: kinds ---- *)
with atom_tac :=
  lazymatch goal with
  | |- TreeShape.mtok _ _ _ => first [ assumption | eexists; split; eassumption ]
  | |- TreeShape.ctok _ _ _ _ => split; eassumption
  | |- TreeShape.optok _ _ _ _ => split; eassumption
  | |- name_leaf _ _ => eexists _, _; split; [reflexivity | split; eassumption]
  | |- str_leaf _ _ => eexists _, _; split; [reflexivity | split; eassumption]
  | |- fsep _ _ => first [ left; eexists; split; eassumption | right; eexists; split; eassumption ]
  end
with kind_tac :=
  lazymatch goal with
  | |- TreeShape.shaped _ _ _ _ (Node tExpValue _ _ _ (hid_list _ ++ [_])) => apply ev_table_hid; kind_tac
  | |- TreeShape.shaped _ _ _ _ (Node tExpUnOp _ _ _ (hid_list _ ++ _)) => apply unop_hid; kind_tac
  | |- TreeShape.shaped _ _ _ _ (Node _ _ _ _ ?fs) =>
      lazymatch fs with
      | context [if ?b then _ else _] => let E := fresh "E" in destruct b eqn:E; cbn [app]; prog_facts; kind_tac
      | context [opt_tok ?n] =>
          first [ is_var n; destruct n as [[? ?]|]; cbn [opt_tok]; kind_tac | progress cbn [opt_tok]; kind_tac ]
      | context [_ ++ _] =>
          first [ progress cbn [app]; kind_tac
                | eassumption | solve [ econstructor; kind_tac ] ]
      | _ => first [ eassumption
                   | solve [ constructor; kind_tac ]
                   | solve [ apply ev_of_pfx; assumption ] ]
      end
  | |- TreeShape.shaped _ _ _ _ _ => first [ assumption | apply pfx_var; assumption | apply pfx_call; assumption ]
  | |- TreeShape.mtok _ _ _ => atom_tac
  | |- TreeShape.ctok _ _ _ _ => atom_tac
  | |- TreeShape.optok _ _ _ _ => atom_tac
  | |- name_leaf _ _ => atom_tac
  | |- str_leaf _ _ => atom_tac
  | |- fsep _ _ => atom_tac
  | |- semi_free _ _ => assumption
  | |- ?x = ?x => reflexivity
  | |- ?a = PNone \/ _ =>
      first [ left; reflexivity | right; solve [kind_tac]
            | let E := fresh "E" in destruct (is_none a) eqn:E; none_facts; prog_facts; [left; reflexivity | right; assumption] ]
  | |- args_ok _ => unfold args_ok; kind_tac
  | |- pfx_ok _ => unfold pfx_ok; kind_tac
  | |- _ \/ _ => first [ assumption | left; solve [kind_tac] | right; solve [kind_tac] ]
  | |- is_none _ = false -> _ =>
      let H := fresh in intros H; prog_facts;
      first [ assumption | discriminate H | congruence
            | match goal with E : negb (is_none ?a) = false |- _ => rewrite H in E; discriminate E end
            | kind_tac ]
  | |- is_none _ = true => first [ assumption | reflexivity | apply negb_false_iff; assumption ]
  | |- is_paren _ = true => reflexivity
  | |- seplist _ _ _ _ => first [ assumption | solve [ constructor; kind_tac ] ]
  | |- fieldtail _ _ _ => first [ assumption | solve [ constructor; kind_tac ] ]
  | |- tfields _ _ (if ?b then _ else _) => fail "destruct first"
  | |- tfields _ _ _ => first [ assumption | solve [ constructor; kind_tac ] ]
  | |- elseifs _ _ _ _ => first [ assumption | solve [ constructor; kind_tac ] ]
  | |- elsepart _ _ _ => first [ assumption | solve [ constructor; kind_tac ] ]
  | |- shortelse _ _ _ => first [ assumption | solve [ constructor; kind_tac ] ]
  | |- stat_item _ _ _ => first [ assumption | solve [ constructor; kind_tac ] ]
  | |- Forall _ [] => apply Forall_nil
  | |- Forall _ (_ :: _) => apply Forall_cons; [kind_tac | kind_tac]
  | |- Forall _ (_ ++ _) => apply Forall_app; split; kind_tac
  | |- Forall _ (if ?b then _ else _) => destruct b; kind_tac
  | |- Forall _ _ => assumption
  | |- _ /\ _ => split; kind_tac
  | |- _ => assumption
  end.

Ltac open_post H :=
  unfold postT, postP, postE, postL, postF, postFE, postN, postV, postK, ParserSpecs.frame in H;
  unfold semis_shape, stats_shape, names_shape, exps_shape, vars_shape, fields_shape, elseifs_shape in H;
  cbn [ParserProofs.lim] in H;
  let Hm := fresh "Hm" in destruct H as ((Hm & ? & ? & ?) & H);
  match type of Hm with ?v = _ => subst v end;
  repeat match type of H with _ /\ _ => let H1 := fresh "Hp" in destruct H as [H1 H] end.

(* use a specification lemma for the computation at the head *)
Ltac call L :=
  eapply wpx_conseq; [ eapply L; side | cbv beta; let H := fresh "Hpost" in intros ? ? ? H; open_post H ].

Ltac call_known := fail "no specification for this call".

Ltac wprim :=
  lazymatch goal with
  | |- wpx (bindM _ _) _ _ _ => apply wpx_bind
  | |- wpx (ret _) _ _ _ => apply wpx_ret
  | |- wpx (raise _) _ _ _ => apply wpx_raise; discriminate
  | |- wpx get_pos _ _ _ => apply wpx_get_pos
  | |- wpx (set_pos _) _ _ _ => apply wpx_set_pos
  | |- wpx get_max _ _ _ => apply wpx_get_max
  | |- wpx (set_max _) _ _ _ => apply wpx_set_max
  | |- wpx (mk _ _ _) _ _ _ => apply wpx_mk
  | |- wpx (assert_node _) _ _ _ => apply wpx_assert; intros ?; prog_facts
  | |- wpx (accept _ _) _ _ _ => apply (wpx_accept ts); [reflexivity | lia | | intros ? ? ? ? ? ? ? ?]
  | |- wpx (expect _ _) _ _ _ => apply (wpx_expect ts); [reflexivity | lia | intros ? ? ? ? ? ? ? ?]
  | |- wpx (accept_first _ _) _ _ _ =>
      apply (wpx_accept_first_m ts); [first [exact Hbin | exact Hun | reflexivity] | lia | | intros ? ? ? ? ? ? ? ?]
  | |- wpx (r_exp R) _ _ _ => call H_exp
  | |- wpx (r_chunk R) _ _ _ => call H_chunk
  | |- wpx (r_semis R) _ _ _ => call H_semis
  | |- wpx (r_stats_loop R) _ _ _ => call H_stats_loop
  | |- wpx (r_namelist_loop R) _ _ _ => call H_namelist_loop
  | |- wpx (r_funcname_loop R) _ _ _ => call H_funcname_loop
  | |- wpx (r_explist_loop R) _ _ _ => call H_explist_loop
  | |- wpx (r_varlist_loop R) _ _ _ => call H_varlist_loop
  | |- wpx (r_fields_loop R) _ _ _ => call H_fields_loop
  | |- wpx (r_elseif_loop R) _ _ _ => call H_elseif_loop
  | |- wpx (r_precur R _) _ _ _ => call H_precur
  | |- wpx (r_binop R _) _ _ _ => call H_binop
  | |- wpx (if ?b then _ else _) _ _ _ => let E := fresh "E" in destruct b eqn:E; none_facts; prog_facts
  | |- wpx (match (if ?b then _ else _) with _ => _ end) _ _ _ =>
      let E := fresh "E" in destruct b eqn:E; none_facts; prog_facts
  | |- wpx (match ?x with _ => _ end) _ _ _ =>
      first [ is_var x; destruct x | let E := fresh "E" in destruct x eqn:E ]
  | |- wpx _ _ _ _ => call_known
  end; cbv beta match zeta.

(* leaves goals:  leaves (...) = [prefix ++] sig p pN *)
Ltac leaves_tac :=
  repeat match goal with
         | |- context [if ?b then _ else _] =>
             lazymatch b with true => fail | false => fail
             | _ => let E := fresh "E" in destruct b eqn:E; none_facts end
         end;
  repeat match goal with |- context [opt_tok ?n] => is_var n; destruct n as [[? ?]|] end;
  cbn [leaves flat_map opt_tok];
  repeat rewrite flat_map_app; repeat rewrite hid_leaves; cbn [leaves flat_map];
  repeat (match goal with
          | H : leaves _ = _ |- _ => rewrite H; clear H
          | H : flat_map leaves _ = _ |- _ => rewrite H; clear H
          | H : [_] = sig _ _ |- _ => rewrite H; clear H
          end; cbn [leaves flat_map]; repeat rewrite flat_map_app; repeat rewrite hid_leaves);
  repeat rewrite <- app_assoc; repeat rewrite app_nil_r; cbn [app];
  repeat first [ rewrite sig_app_r by lia | rewrite sig_app by lia ];
  first [ reflexivity | rewrite sig_nil by lia; rewrite ?app_nil_r; reflexivity | symmetry; apply sig_nil; lia ].

Ltac none_goal :=
  let H := fresh in
  intros H;
  first [ discriminate H
        | congruence
        | cbn in H; discriminate H
        | split; [reflexivity | lia]
        | reflexivity
        | match goal with E : negb (is_none ?a) = true |- _ => rewrite H in E; discriminate E end
        | match goal with E : negb (is_none ?a) = false |- _ => rewrite H in E; discriminate E end
        | match goal with E : is_var ?a = true |- _ => rewrite (is_var_not_none _ E) in H; discriminate H end
        | match goal with E : is_call ?a = true |- _ => rewrite (is_call_not_none _ E) in H; discriminate H end
        | match goal with E : is_none ?a = false |- _ => rewrite H in E; discriminate E end
        | match goal with Hn : is_none ?a = true -> _ |- _ => destruct (Hn H); split; [assumption | lia] end
        | match goal with |- context [opt_tok ?n] => destruct n as [[? ?]|]; [discriminate H | split; [reflexivity | lia]] end ].

(* the final goal of a branch: a postcondition.  The goals about leaves consume hypotheses, so the goals about
   span / shaped are solved first (they come last in the conjunction: split everything, then order). *)
Ltac post_goal :=
  lazymatch goal with
  | |- ?x = ?x => reflexivity
  | |- _ <= _ => lia
  | |- _ < _ => lia
  | |- leaves _ = _ => leaves_tac
  | |- flat_map leaves _ = _ => leaves_tac
  | |- wf _ _ => wf_tac
  | |- wfl _ _ => wfl_tac
  | |- end_ok _ _ => end_tac
  | |- exists fs, Node _ _ _ _ _ = Node _ _ _ _ _ => eexists; reflexivity
  | |- exp_shape _ => shape_tac
  | |- is_none (Node _ _ _ _ _) = false => reflexivity
  | |- is_hidden _ = false => first [ reflexivity | assumption | hidden_tac ]
  | |- TreeShape.span _ _ _ _ => span_tac
  | |- TreeShape.spans _ _ _ _ => span_tac
  | |- forall c0, _ -> TreeShape.span _ _ _ _ => let c0 := fresh "c0" in let Hc := fresh "Hc" in intros c0 Hc; span_tac
  | |- TreeShape.shaped _ _ _ _ _ => kind_tac
  | |- is_none _ = false -> TreeShape.shaped _ _ _ _ _ => kind_tac
  | |- is_none _ = false -> TreeShape.span _ _ _ _ => let H := fresh in intros H; prog_facts; first [ span_tac | exfalso; revert H; none_goal ]
  | |- is_none _ = false -> pfx_res _ => kind_tac
  | |- is_none _ = false -> args_ok _ => kind_tac
  | |- pfx_res _ =>
      let direct := (first [ assumption | left; solve [kind_tac] | right; right; reflexivity
                           | right; left; eexists _, _, _; split; [reflexivity | split; [atom_tac | split; [atom_tac | first [assumption | kind_tac]]]] ]) in
      first [ direct
            | match goal with H : _ = _ \/ TreeShape.shaped _ _ _ _ _ |- _ =>
                destruct H as [->|H]; [direct | left; exact H] end ]
  | |- _ = _ \/ TreeShape.shaped _ _ _ _ _ =>
      first [ left; reflexivity | right; solve [kind_tac] | assumption
            | match goal with H : _ = _ \/ TreeShape.shaped _ _ _ _ _ |- _ =>
                destruct H as [->|H]; [right; kind_tac | right; exact H] end ]
  | |- semis_shape _ _ => unfold semis_shape; kind_tac
  | |- stats_shape _ _ => unfold stats_shape; kind_tac
  | |- names_shape _ _ _ => unfold names_shape; kind_tac
  | |- exps_shape _ _ => unfold exps_shape; kind_tac
  | |- vars_shape _ _ => unfold vars_shape; kind_tac
  | |- fields_shape _ _ => unfold fields_shape; kind_tac
  | |- elseifs_shape _ _ => unfold elseifs_shape; kind_tac
  | |- is_none _ = true -> _ => none_goal
  | |- is_none _ = false -> _ < _ => first [ let H := fresh in intros H; prog_facts; lia | none_goal ]
  | |- is_none _ = false -> _ /\ _ =>
      first [ let H := fresh in intros H; prog_facts; split; [leaves_tac | lia] | none_goal ]
  | |- is_none _ = false -> _ => kind_tac
  end.

Ltac splits := repeat match goal with |- _ /\ _ => split end.

Ltac done_tac :=
  unfold postT, postP, postE, postL, postF, postFE, postN, postV, postK, ParserSpecs.frame;
  splits; try post_goal.

Ltac wp := repeat wprim; try done_tac.

(* ---------------------------------------------------------------- specifications *)
Ltac start := let HG := fresh "HG" in intros HG (Hp0 & Hp1 & Hp2 & Hfw).

Lemma semis_spec p mx : G' p -> pre p mx -> wpx (semis_def ts R) (postL semis_shape p mx) p mx.
Proof.
  start. unfold semis_def. apply wpx_bind.
  apply (wpx_accept_nf ts); [reflexivity | lia | lia | destruct mx; [apply Hfw | exact I] | |].
  - intros Hnf. wp.
  - intros ? ? ? ? ? ? ? ?. wp.
Qed.
Ltac ck1 := call semis_spec.
Ltac call_known ::= ck1.
(*STOP1*)

Lemma namelist_loop_spec p mx : G' p -> pre p mx -> wpx (namelist_loop_def ts R) (postL (names_shape (psym ","%bs)) p mx) p mx.
Proof. start. unfold namelist_loop_def. wp. Qed.
Ltac ck2 := first [ck1 | call namelist_loop_spec].
Ltac call_known ::= ck2.

Lemma namelist_spec p mx : G' p -> pre p mx -> wpx (namelist_def ts R) (postN (shaped cNameList) p mx) p mx.
Proof. start. unfold namelist_def. wp. Qed.
Ltac ck3 := first [ck2 | call namelist_spec].
Ltac call_known ::= ck3.
(*STOP2*)

Lemma funcname_loop_spec p mx : G' p -> pre p mx -> wpx (funcname_loop_def ts R) (postL (names_shape (psym "."%bs)) p mx) p mx.
Proof. start. unfold funcname_loop_def. wp. Qed.
Ltac ck4 := first [ck3 | call funcname_loop_spec].
Ltac call_known ::= ck4.

Lemma funcname_spec p mx : G' p -> pre p mx -> wpx (funcname_def ts R) (postN (shaped cFuncName) p mx) p mx.
Proof. start. unfold funcname_def. wp. Qed.
Ltac ck5 := first [ck4 | call funcname_spec].
Ltac call_known ::= ck5.

Lemma explist_loop_spec p mx : G' p -> pre p mx -> wpx (explist_loop_def ts R) (postL exps_shape p mx) p mx.
Proof. start. unfold explist_loop_def. wp. Qed.
Ltac ck6 := first [ck5 | call explist_loop_spec].
Ltac call_known ::= ck6.

(* calls r_exp at its own entry position: needs the strict guard *)
Lemma explist_spec p mx : G p -> pre p mx -> wpx (explist_def ts R) (postN (shaped cExpList) p mx) p mx.
Proof. start. unfold explist_def. wp. Qed.
Ltac ck7 := first [ck6 | call explist_spec].
Ltac call_known ::= ck7.
(*STOP3*)

Lemma field_spec p mx : G p -> pre p mx -> wpx (field_def ts R) (postP (fun t => is_none t = false -> shaped cField t) p mx) p mx.
Proof. start. unfold field_def. wp. Qed.
Ltac ck8 := first [ck7 | call field_spec].
Ltac call_known ::= ck8.

Lemma fields_loop_spec p mx : G' p -> pre p mx -> wpx (fields_loop_def ts R) (postL fields_shape p mx) p mx.
Proof. start. unfold fields_loop_def. wp. Qed.
Ltac ck9 := first [ck8 | call fields_loop_spec].
Ltac call_known ::= ck9.

Lemma tableconstructor_spec p mx : G' p -> pre p mx -> wpx (tableconstructor_def ts R) (postN (shaped cTable) p mx) p mx.
Proof. start. unfold tableconstructor_def. wp. Qed.
Ltac ck10 := first [ck9 | call tableconstructor_spec].
Ltac call_known ::= ck10.
(*STOP4*)

Lemma args_spec p mx : G' p -> pre p mx -> wpx (args_def ts R) (postN args_ok p mx) p mx.
Proof. start. unfold args_def. wp. Qed.
Ltac ck11 := first [ck10 | call args_spec].
Ltac call_known ::= ck11.

Lemma funcbody_spec p mx : G' p -> pre p mx -> wpx (funcbody_def ts R) (postN (shaped cBody) p mx) p mx.
Proof. start. unfold funcbody_def. wp. Qed.
Ltac ck12 := first [ck11 | call funcbody_spec].
Ltac call_known ::= ck12.

Lemma function_spec p mx : G' p -> pre p mx -> wpx (function_def ts R) (postN (shaped cFunc) p mx) p mx.
Proof. start. unfold function_def. wp. Qed.
Ltac ck13 := first [ck12 | call function_spec].
Ltac call_known ::= ck13.
(*STOP5*)

Lemma precur_spec first p mx : G' p -> pre p mx -> wf p first -> is_hidden first = false -> pfx_ok first ->
  wpx (precur_def ts R first) (postF first p mx) p mx.
Proof. start. intros Hwf Hnh Hpf. unfold precur_def. wp. Qed.
Ltac ck14 := first [ck13 | call precur_spec].
Ltac call_known ::= ck14.

Lemma prefixexp_spec p mx : G' p -> pre p mx -> wpx (prefixexp_def ts R) (postP pfx_res p mx) p mx.
Proof. start. unfold prefixexp_def. wp. Qed.
Ltac ck15 := first [ck14 | call prefixexp_spec].
Ltac call_known ::= ck15.
(*STOP6*)

Lemma exp_term_spec p mx : G' p -> pre p mx -> wpx (exp_term_def ts unops R) (postE p mx) p mx.
Proof. start. unfold exp_term_def. wp. Qed.
Ltac ck16 := first [ck15 | call exp_term_spec].
Ltac call_known ::= ck16.

Lemma binop_spec first p mx : G' p -> pre p mx -> wf p first -> end_ok first p -> exp_shape first -> shaped cExp first ->
  wpx (binop_def ts binops unops R first) (postFE first p mx) p mx.
Proof. start. intros Hwf Hend Hshape Hsh. unfold binop_def. wp. Qed.
Ltac ck17 := first [ck16 | call binop_spec].
Ltac call_known ::= ck17.

Lemma exp_spec p mx : G' p -> pre p mx -> wpx (exp_def ts binops unops R) (postE p mx) p mx.
Proof. start. unfold exp_def. wp. Qed.
Ltac ck18 := first [ck17 | call exp_spec].
Ltac call_known ::= ck18.
(*STOP7*)

Lemma var_spec p mx : G' p -> pre p mx -> wpx (var_def ts R) (postV (shaped cPrefix) p mx) p mx.
Proof. start. unfold var_def. wp. Qed.
Ltac ck19 := first [ck18 | call var_spec].
Ltac call_known ::= ck19.

Lemma varlist_loop_spec p mx : G' p -> pre p mx -> wpx (varlist_loop_def ts R) (postL vars_shape p mx) p mx.
Proof. start. unfold varlist_loop_def. wp. Qed.
Ltac ck20 := first [ck19 | call varlist_loop_spec].
Ltac call_known ::= ck20.

Lemma varlist_spec p mx : G' p -> pre p mx -> wpx (varlist_def ts R) (postV (shaped cVarList) p mx) p mx.
Proof. start. unfold varlist_def. wp. Qed.
Ltac ck21 := first [ck20 | call varlist_spec].
Ltac call_known ::= ck21.

Lemma functioncall_spec p mx : G' p -> pre p mx -> wpx (functioncall_def ts R) (postN (shaped cPrefix) p mx) p mx.
Proof. start. unfold functioncall_def. wp. Qed.
Ltac ck22 := first [ck21 | call functioncall_spec].
Ltac call_known ::= ck22.

Lemma elseif_loop_spec p mx : G' p -> pre p mx -> wpx (elseif_loop_def ts R) (postL elseifs_shape p mx) p mx.
Proof. start. unfold elseif_loop_def. wp. Qed.
Ltac ck23 := first [ck22 | call elseif_loop_spec].
Ltac call_known ::= ck23.
(*STOP8*)

Lemma for_spec pos fi p mx : G' p -> pre p mx -> pos <= fi -> fi + 1 = p -> mtok (pkw "for"%bs) fi ->
  wpx (for_def ts R pos fi) (postK fi p mx) p mx.
Proof. start. intros Hpos Hfi Hkw. subst p. unfold for_def. wp. Qed.

Lemma local_spec pos li p mx : G' p -> pre p mx -> pos <= li -> li + 1 = p -> mtok (pkw "local"%bs) li ->
  wpx (local_def ts R pos li) (postK li p mx) p mx.
Proof. start. intros Hpos Hli Hkw. subst p. unfold local_def. wp. Qed.

Lemma laststat_spec p mx : G' p -> pre p mx -> wpx (laststat_def ts R) (postN (shaped cStat) p mx) p mx.
Proof. start. unfold laststat_def. wp. Qed.
Ltac ck24 := first [ck23 | call laststat_spec].
Ltac call_known ::= ck24.
(*STOP9*)

Lemma if_spec pos ii p mx : G p -> pre p mx -> pos <= ii -> ii + 1 = p -> mtok (pkw "if"%bs) ii ->
  wpx (if_def ts R pos ii) (postK ii p mx) p mx.
Proof.
  start. intros Hpos Hii Hkw. subst p. unfold if_def. wp.
  (* what remains is the short form: the fence is the first newline after the condition *)
  assert (z = p1) by (apply Hp4; exact E). subst z.
  destruct (next_newline_spec ts p1) as (Hn1 & Hn2 & _); [lia|].
  assert (Hnn : next_newline ts p1 <= lim mx).
  { destruct mx as [f|]; cbn [ParserProofs.lim] in *; [|lia]. destruct Hfw as [Hf1 Hf2].
    apply next_newline_le; [lia | exact Hf1 | exact Hf2]. }
  assert (Hsig : sigb ts (p1 - 1) = true).
  { unfold sigb, ParserProofs.tok_at. rewrite E0, E1. unfold tok_eqb in E2. apply andb_true_iff in E2.
    destruct E2 as [E2 _]. apply kclass_eqb_eq in E2. cbn [tk] in E2. unfold is_trivia. rewrite E2. reflexivity. }
  change (newline_after ts p1) with (next_newline ts p1).
  remember (next_newline ts p1) as nn eqn:Enn.
  wp.
  all: match goal with Ht : (tag_of ?x =? tExpValue) = true, Hsh : exp_shape ?x |- _ =>
         destruct (cond_parts x Hsh Ht) as (s0 & e0 & sh0 & hs & v & -> & Hh & Hv); rewrite Hh, Hv;
         match goal with |- context [hs ++ [v; ?b]] =>
           replace (hs ++ [v; b]) with ((hs ++ [v]) ++ [b]) by (rewrite <- app_assoc; reflexivity) end;
         match goal with
         | Hl : leaves (Node _ _ _ _ _) = _, Hw : wf _ (Node _ _ _ _ _), Hpr : is_none (Node _ _ _ _ _) = false -> _ < _,
           Hsp : TreeShape.span _ (Node _ _ _ _ _) _ _,
           Hk : is_none (Node _ _ _ _ _) = false -> TreeShape.shaped _ _ _ _ _ |- _ =>
             cbn [leaves] in Hl; apply wf_node_inv in Hw; destruct Hw as (Hs1 & Hs2 & HX & _);
             apply (wfl_mono ts _ e0 p1) in HX; [|exact Hs2];
             assert (Hprog : ii + 1 < p1) by (apply Hpr; reflexivity);
             specialize (Hk eq_refl);
             apply span_node_inv in Hsp; destruct Hsp as [Hee Hsp]; subst e0;
             remember (hs ++ [v]) as X eqn:EX;
             first [ leaves_tac
                   | apply wf_node; [lia | lia | wfl_tac |];
                     intros _ _; eexists _, _, _; split; [reflexivity|]; unfold cond_close; rewrite removelast_last, Hl;
                     rewrite (sig_last ts binops unops) by (first [lia | exact Hsig]); replace (p1 - 1 + 1) with p1 by lia; rewrite <- Enn; lia
                   | let c0 := fresh "c0" in let Hc := fresh "Hc" in intros c0 Hc; span_tac
                   | kind_tac ]
         end
       end.
Qed.
(*STOP10*)

Ltac ck25 := first [ck24 | call if_spec | call for_spec | call local_spec].
Ltac call_known ::= ck25.

Lemma stat_spec p mx : G' p -> pre p mx -> wpx (stat_def ts R) (postN (shaped cStat) p mx) p mx.
Proof. start. unfold stat_def, assign_ops. wp. Qed.
Ltac ck26 := first [ck25 | call stat_spec].
Ltac call_known ::= ck26.
(*STOP11*)

Lemma stats_loop_spec p mx : G' p -> pre p mx -> wpx (stats_loop_def ts R) (postL stats_shape p mx) p mx.
Proof. start. unfold stats_loop_def. wp. Qed.
Ltac ck27 := first [ck26 | call stats_loop_spec].
Ltac call_known ::= ck27.

Lemma chunk_spec p mx : G' p -> pre p mx -> wpx (chunk_def ts R) (postT p mx) p mx.
Proof. start. unfold chunk_def. wp. Qed.
(*STOP12*)

End Step.

(* ---------------------------------------------------------------- induction over the fuel levels *)
Definition specs (k : Z) (R : funs) : Prop :=
  (forall p mx, len - p < k -> pre p mx -> wpx (r_exp R) (postE p mx) p mx) /\
  (forall p mx, len - p < k -> pre p mx -> wpx (r_chunk R) (postT p mx) p mx) /\
  (forall p mx, len - p < k -> pre p mx -> wpx (r_semis R) (postL semis_shape p mx) p mx) /\
  (forall p mx, len - p < k -> pre p mx -> wpx (r_stats_loop R) (postL stats_shape p mx) p mx) /\
  (forall p mx, len - p < k -> pre p mx -> wpx (r_namelist_loop R) (postL (names_shape (psym ","%bs)) p mx) p mx) /\
  (forall p mx, len - p < k -> pre p mx -> wpx (r_funcname_loop R) (postL (names_shape (psym "."%bs)) p mx) p mx) /\
  (forall p mx, len - p < k -> pre p mx -> wpx (r_explist_loop R) (postL exps_shape p mx) p mx) /\
  (forall p mx, len - p < k -> pre p mx -> wpx (r_varlist_loop R) (postL vars_shape p mx) p mx) /\
  (forall p mx, len - p < k -> pre p mx -> wpx (r_fields_loop R) (postL fields_shape p mx) p mx) /\
  (forall p mx, len - p < k -> pre p mx -> wpx (r_elseif_loop R) (postL elseifs_shape p mx) p mx) /\
  (forall first p mx, len - p < k -> pre p mx -> wf p first -> is_hidden first = false -> pfx_ok first ->
     wpx (r_precur R first) (postF first p mx) p mx) /\
  (forall first p mx, len - p < k -> pre p mx -> wf p first -> end_ok first p -> exp_shape first -> shaped cExp first ->
     wpx (r_binop R first) (postFE first p mx) p mx).

Lemma specs_bottom : specs 0 bottom.
Proof.
  unfold specs. repeat split; intros; exfalso;
    match goal with H : pre _ _ |- _ => destruct H as (? & ? & _) end; lia.
Qed.

Lemma specs_step k R : specs k R -> specs (k + 1) (step ts binops unops R).
Proof.
  intros (H1 & H2 & H3 & H4 & H5 & H6 & H7 & H8 & H9 & H10 & H11 & H12).
  unfold specs. cbn [step r_exp r_chunk r_semis r_stats_loop r_namelist_loop r_funcname_loop r_explist_loop
                     r_varlist_loop r_fields_loop r_elseif_loop r_precur r_binop].
  repeat split; intros.
  - eapply exp_spec; try eassumption. unfold G'. lia.
  - eapply chunk_spec; try eassumption. unfold G'. lia.
  - eapply semis_spec; try eassumption. unfold G'. lia.
  - eapply stats_loop_spec; try eassumption. unfold G'. lia.
  - eapply namelist_loop_spec; try eassumption. unfold G'. lia.
  - eapply funcname_loop_spec; try eassumption. unfold G'. lia.
  - eapply explist_loop_spec; try eassumption. unfold G'. lia.
  - eapply varlist_loop_spec; try eassumption. unfold G'. lia.
  - eapply fields_loop_spec; try eassumption. unfold G'. lia.
  - eapply elseif_loop_spec; try eassumption. unfold G'. lia.
  - eapply precur_spec; try eassumption. unfold G'. lia.
  - eapply binop_spec; try eassumption. unfold G'. lia.
Qed.

Lemma specs_level n : specs (Z.of_nat n) (level ts binops unops n).
Proof.
  induction n as [|n IH]; [exact specs_bottom|].
  replace (Z.of_nat (S n)) with (Z.of_nat n + 1) by lia. cbn [level]. apply specs_step, IH.
Qed.

(* the whole parse: the root is a spanned, shaped Chunk *)
Lemma parse_shape root e : parse ts binops unops = Ok (root, e) ->
  0 <= e <= len /\ span root 0 e /\ shaped cChunk root /\ exists fs, root = Node tChunk 0 e false [Lst fs].
Proof.
  unfold parse, parse_with_fuel.
  destruct (specs_level (fuel_for ts)) as (_ & H2 & _).
  specialize (H2 0 None). unfold wpx in H2.
  destruct (r_chunk (level ts binops unops (fuel_for ts)) (0, None)) as [[t [p1 mx1]]|err]; [|discriminate].
  destruct H2 as ((_ & Ha & Hb & _) & Hl & Hw & Hs & Hsp & Hsh).
  - unfold fuel_for, zlen. lia.
  - unfold ParserSpecs.pre. cbn [ParserProofs.lim fence_wf]. pose proof (zlen_nonneg ts). repeat split; lia.
  - destruct (is_none t); [discriminate|]. cbn [fst]. intros [= <- <-]. repeat split; assumption.
Qed.

End S.
