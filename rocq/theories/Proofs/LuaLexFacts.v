(* Facts about the reference lexer Spec/LuaLex.v used by the C01 / C19 proofs: inversion of
   spec_step (one constructor per way a token is produced), and for each kind of token the
   right-context condition under which its text is lexed back to the same token. *)
From PV Require Import Base.Prelude Spec.LuaLex Instances.HoldsC02 Instances.HoldsC01.
From Coq Require Import ZifyBool Lia.

Ltac break_match H :=
  repeat (first
    [ discriminate H
    | match type of H with
      | context [match ?x with _ => _ end] =>
        match x with
        | context [match _ with _ => _ end] => fail 1
        | _ => let E := fresh "E" in destruct x eqn:E
        end
      end ]).

(* ---------- span *)
Lemma span_split p s : forall a b, span p s = (a, b) -> s = a ++ b.
Proof.
  induction s as [|c r IH]; intros a b H; cbn [span] in H.
  - injection H as <- <-. reflexivity.
  - destruct (p c).
    + destruct (span p r) as [a' b'] eqn:E. injection H as <- <-. cbn [app]. f_equal. apply IH. reflexivity.
    + injection H as <- <-. reflexivity.
Qed.

Lemma span_all p s : forall a b, span p s = (a, b) -> forallb p a = true.
Proof.
  induction s as [|c r IH]; intros a b H; cbn [span] in H.
  - injection H as <- <-. reflexivity.
  - destruct (p c) eqn:Ec.
    + destruct (span p r) as [a' b'] eqn:E. injection H as <- <-. cbn [forallb]. rewrite Ec. cbn [andb]. eapply IH. reflexivity.
    + injection H as <- <-. reflexivity.
Qed.

Lemma span_stop p s : forall a b, span p s = (a, b) -> match b with [] => True | c :: _ => p c = false end.
Proof.
  induction s as [|c r IH]; intros a b H; cbn [span] in H.
  - injection H as <- <-. exact I.
  - destruct (p c) eqn:Ec.
    + destruct (span p r) as [a' b'] eqn:E. injection H as <- <-. eapply IH. reflexivity.
    + injection H as <- <-. exact Ec.
Qed.

Lemma span_head p c r a b : p c = true -> span p (c :: r) = (a, b) -> a <> [].
Proof. intros Hc H. cbn [span] in H. rewrite Hc in H. destruct (span p r). injection H as <- <-. discriminate. Qed.

Definition stops (p : Z -> bool) (r : list Z) : Prop := match r with [] => True | c :: _ => p c = false end.

Lemma span_ctx p a : forall r, forallb p a = true -> stops p r -> span p (a ++ r) = (a, r).
Proof.
  induction a as [|c a IH]; intros r Ha Hr; cbn [app].
  - destruct r as [|d r]; [reflexivity|]. cbn [span]. cbn [stops] in Hr. rewrite Hr. reflexivity.
  - cbn [forallb] in Ha. apply andb_true_iff in Ha. destruct Ha as [Hc Ha]. cbn [span]. rewrite Hc.
    rewrite (IH r Ha Hr). reflexivity.
Qed.

Lemma strip_prefix_app x r : strip_prefix x (x ++ r) = Some r.
Proof. induction x as [|a x IH]; cbn; [reflexivity|]. rewrite Z.eqb_refl. exact IH. Qed.

Lemma strip_prefix_split x : forall s r, strip_prefix x s = Some r -> s = x ++ r.
Proof.
  induction x as [|a x IH]; intros s r H; cbn in H; [injection H as <-; reflexivity|].
  destruct s as [|b s]; [discriminate|]. destruct (a =? b) eqn:E; [|discriminate].
  apply Z.eqb_eq in E. subst b. cbn. f_equal. apply IH, H.
Qed.

(* ---------- inversion of spec_step: one constructor per way a token is produced *)
Ltac rew_hyps := repeat (match goal with H : ?x = _ |- context [?x] => rewrite H end).

Definition num_start (s : list Z) : bool :=
  match s with
  | c :: r => is_digit c || ((c =? 46) && match r with d :: _ => is_digit d | [] => false end)
  | [] => false
  end.

Inductive step_shape : list Z -> stok -> list Z -> Prop :=
| sh_space c r a rest : is_blank c = true -> span is_blank (c :: r) = (a, rest) -> step_shape (c :: r) (mk SSpace a a) rest
| sh_lf rest : step_shape (10 :: rest) (mk SNewline [10] [10]) rest
| sh_crlf rest : step_shape (13 :: 10 :: rest) (mk SNewline [13; 10] [13; 10]) rest
| sh_block r3 r4 b cl rest : long_open r3 0 = Some (0, r4) -> long_body 0 r4 = Some (b, cl, rest) ->
    step_shape (45 :: 45 :: 91 :: r3) (mk SComment (45 :: 45 :: 91 :: 91 :: b ++ cl) (45 :: 45 :: 91 :: 91 :: b ++ cl)) rest
| sh_dash r2 a rest : match r2 with 91 :: r3 => long_open r3 0 = None | _ => True end ->
    span (fun c => negb (is_eol c)) (45 :: 45 :: r2) = (a, rest) -> step_shape (45 :: 45 :: r2) (mk SComment a a) rest
| sh_slash r2 a rest : span (fun c => negb (is_eol c)) (47 :: 47 :: r2) = (a, rest) -> step_shape (47 :: 47 :: r2) (mk SComment a a) rest
| sh_long r lvl r2 b cl rest : long_open r 0 = Some (lvl, r2) -> long_body (Z.to_nat lvl) r2 = Some (b, cl, rest) ->
    step_shape (91 :: r)
      (mk_stok SString (91 :: repeat 61 (Z.to_nat lvl) ++ 91 :: b ++ cl) (long_string_value b) 0 1 lvl 0 0) rest
| sh_quoted q r v raw rest : (q = 34 \/ q = 39) -> unescape_until q r = Some (v, raw, rest) ->
    step_shape (q :: r) (mk_stok SString (q :: raw) v 0 1 (-1) 0 0) rest
| sh_number s t rest : num_start s = true -> spec_number s = Some (t, rest) -> step_shape s t rest
| sh_word c r a rest : is_name_start c = true -> span is_name_char (c :: r) = (a, rest) ->
    step_shape (c :: r) (mk (if mem_bytes a spec_keywords then SKeyword else SName) a a) rest
| sh_label r2 n0 a rest : span is_name_char r2 = (n0 :: a, 58 :: 58 :: rest) -> is_name_start n0 = true ->
    step_shape (58 :: 58 :: r2) (mk SLabel (58 :: 58 :: (n0 :: a) ++ [58; 58]) (n0 :: a)) rest
| sh_qmark rest : step_shape (63 :: rest) (mk SName [63] [63]) rest
| sh_symbol s t rest : spec_symbol s = Some (t, rest) -> step_shape s t rest.

Ltac eqb_subst := repeat match goal with
  | H : (?a =? ?b) = true |- _ => apply Z.eqb_eq in H; try subst a
  end.

Lemma spec_step_shape s t rest : spec_step s = Some (t, rest) -> step_shape s t rest.
Proof.
  intros H. unfold spec_step, line_comment in H. break_match H.
  all: try (injection H as <- <-).
  all: eqb_subst.
  all: try (apply sh_symbol; exact H).
  all: try (apply sh_number; [cbn [num_start]; rew_hyps; reflexivity | exact H]).
  all: try (apply sh_space; assumption).
  all: try apply sh_lf; try apply sh_crlf; try apply sh_qmark.
  all: try (eapply sh_block; eassumption).
  all: try (apply sh_dash; [first [exact I | assumption] | assumption]).
  all: try (apply sh_slash; assumption).
  all: try (eapply sh_long; eassumption).
  all: try (apply sh_quoted; [match goal with H : _ || _ = true |- _ => apply orb_true_iff in H; destruct H; eqb_subst; auto end | assumption]).
  all: try (match goal with H : mem_bytes ?a spec_keywords = ?b |- _ =>
              let G := fresh in pose proof (sh_word _ _ _ _ ltac:(eassumption) ltac:(eassumption)) as G; rewrite H in G; exact G end).
  all: try (apply sh_label; assumption).
  all: try (match goal with H : strip_prefix [58; 58] ?b = Some ?rest |- _ =>
              apply strip_prefix_split in H; cbn [app] in H; subst b end; apply sh_label; assumption).
Qed.

(* ---------- small list facts *)
Lemma starts_with_app_l x r : starts_with x (x ++ r) = true.
Proof. apply starts_with_app. exists r. reflexivity. Qed.

Lemma sw_length x s : starts_with x s = true -> (length x <= length s)%nat.
Proof. intros H. apply starts_with_app in H. destruct H as [r ->]. rewrite app_length. lia. Qed.

Lemma sw_comparable x : forall y s,
  starts_with x s = true -> starts_with y s = true -> (length x <= length y)%nat -> starts_with x y = true.
Proof.
  induction x as [|a x IH]; intros y s Hx Hy Hl; [reflexivity|].
  destruct s as [|c s]; [discriminate|]. destruct y as [|b y]; [cbn in Hl; lia|].
  cbn in *. apply andb_true_iff in Hx. destruct Hx as [Hac Hx]. apply andb_true_iff in Hy. destruct Hy as [Hbc Hy].
  apply Z.eqb_eq in Hac. apply Z.eqb_eq in Hbc. subst. rewrite Z.eqb_refl. cbn.
  apply (IH y s); [assumption | assumption | lia].
Qed.

Lemma sw_same_length x : forall y, starts_with x y = true -> length x = length y -> x = y.
Proof.
  induction x as [|a x IH]; intros [|b y] H Hl; try reflexivity; try discriminate.
  cbn in *. apply andb_true_iff in H. destruct H as [Hab H]. apply Z.eqb_eq in Hab. subst.
  f_equal. apply IH; [assumption | lia].
Qed.

(* ---------- longest_match *)
Lemma lm_some l : forall s x, longest_match l s = Some x ->
  In x l /\ starts_with x s = true /\ forall y, In y l -> starts_with y s = true -> (length y <= length x)%nat.
Proof.
  induction l as [|a l IH]; intros s x H; [discriminate|]. cbn [longest_match] in H.
  destruct (longest_match l s) as [y|] eqn:E.
  - destruct (IH s y E) as (Hin & Hp & Hmax).
    destruct (starts_with a s && (length y <? length a)%nat) eqn:C; injection H as <-.
    + apply andb_true_iff in C. destruct C as [Ca Cl]. apply Nat.ltb_lt in Cl.
      split; [left; reflexivity|]. split; [assumption|]. intros z [<-|Hz] Hzs; [lia|].
      specialize (Hmax z Hz Hzs). lia.
    + split; [right; assumption|]. split; [assumption|]. intros z [<-|Hz] Hzs; [|apply Hmax; assumption].
      rewrite Hzs in C. cbn in C. apply Nat.ltb_ge in C. exact C.
  - destruct (starts_with a s) eqn:Ca; [|discriminate]. injection H as <-.
    split; [left; reflexivity|]. split; [assumption|]. intros z [<-|Hz] Hzs; [lia|].
    exfalso. revert Hz Hzs. clear -E. revert z. induction l as [|b l IHl]; intros z Hz Hzs; [contradiction|].
    cbn [longest_match] in E. destruct (longest_match l s) eqn:E'.
    + destruct (starts_with b s && _); discriminate.
    + destruct (starts_with b s) eqn:Cb; [discriminate|]. destruct Hz as [<-|Hz]; [congruence|].
      apply (IHl eq_refl z Hz Hzs).
Qed.

Lemma lm_none l : forall s, longest_match l s = None -> forall y, In y l -> starts_with y s = false.
Proof.
  induction l as [|b l IHl]; intros s E y Hy; [contradiction|].
  cbn [longest_match] in E. destruct (longest_match l s) eqn:E'.
  - destruct (starts_with b s && _); discriminate.
  - destruct (starts_with b s) eqn:Cb; [discriminate|]. destruct Hy as [<-|Hy]; [assumption|].
    apply (IHl s E' y Hy).
Qed.

Lemma lm_unique l s x : In x l -> starts_with x s = true ->
  (forall y, In y l -> starts_with y s = true -> (length y <= length x)%nat) -> longest_match l s = Some x.
Proof.
  intros Hin Hx Hmax. destruct (longest_match l s) as [z|] eqn:E.
  - destruct (lm_some l s z E) as (Hz & Hzs & Hzmax). f_equal.
    pose proof (Hmax z Hz Hzs). pose proof (Hzmax x Hin Hx).
    apply sw_same_length; [|lia]. apply (sw_comparable z x s); [assumption | assumption | lia].
  - rewrite (lm_none l s E x Hin) in Hx. discriminate.
Qed.

(* ---------- symbols *)
(* some symbol of the set extends x by the byte c *)
Definition sym_ext (x : list Z) (c : Z) : bool := existsb (fun y => starts_with (x ++ [c]) y) spec_symbols.

Lemma sym_ext_max x c r : sym_ext x c = false ->
  forall y, In y spec_symbols -> starts_with y (x ++ c :: r) = true -> (length y <= length x)%nat.
Proof.
  intros He y Hy Hys. destruct (Nat.le_gt_cases (length y) (length x)) as [Hle|Hgt]; [exact Hle|exfalso].
  assert (Hp : starts_with (x ++ [c]) (x ++ c :: r) = true).
  { apply starts_with_app. exists r. rewrite <- app_assoc. reflexivity. }
  assert (Hxy : starts_with (x ++ [c]) y = true).
  { apply (sw_comparable _ y (x ++ c :: r)); [exact Hp | exact Hys | rewrite app_length; cbn; lia]. }
  unfold sym_ext in He. assert (existsb (fun y0 => starts_with (x ++ [c]) y0) spec_symbols = true).
  { apply existsb_exists. exists y. split; assumption. }
  congruence.
Qed.

Definition hd61 (r : list Z) : bool := match r with c :: _ => c =? 61 | [] => false end.

Ltac bits p := repeat (destruct p as [p|p|]; try reflexivity; try discriminate; try lia).
Ltac zlit c := destruct c as [|c|c]; try reflexivity; try discriminate; try lia; bits c.

Lemma match61 {A} (r : list Z) (a b : A) :
  match r with 61 :: _ => a | _ => b end = if hd61 r then a else b.
Proof. destruct r as [|c r]; [reflexivity|]. cbn [hd61]. zlit c. Qed.

Lemma spec_symbol_at x rest : In x spec_symbols ->
  (forall y, In y spec_symbols -> starts_with y (x ++ rest) = true -> (length y <= length x)%nat) ->
  (mem_bytes x later_compound_bases && hd61 rest) = false ->
  spec_symbol (x ++ rest) = Some (mk SSymbol x x, rest).
Proof.
  intros Hin Hmax Hl. unfold spec_symbol.
  rewrite (lm_unique spec_symbols (x ++ rest) x Hin (starts_with_app_l x rest) Hmax).
  rewrite strip_prefix_app. rewrite match61.
  destruct (hd61 rest); [|reflexivity]. rewrite andb_true_r in Hl. rewrite Hl. reflexivity.
Qed.

Lemma spec_symbol_ok x c r : In x spec_symbols -> sym_ext x c = false ->
  (mem_bytes x later_compound_bases && (c =? 61)) = false ->
  spec_symbol (x ++ c :: r) = Some (mk SSymbol x x, c :: r).
Proof. intros Hin He Hl. apply spec_symbol_at; [exact Hin | apply sym_ext_max, He | exact Hl]. Qed.

Lemma spec_symbol_end x : In x spec_symbols -> spec_symbol x = Some (mk SSymbol x x, []).
Proof.
  intros Hin. rewrite <- (app_nil_r x) at 1. apply spec_symbol_at; [exact Hin | | apply andb_false_r].
  intros y _ Hy. rewrite app_nil_r in Hy. apply sw_length, Hy.
Qed.

Lemma spec_symbol_inv s t rest : spec_symbol s = Some (t, rest) ->
  exists x, In x spec_symbols /\ t = mk SSymbol x x /\ s = x ++ rest.
Proof.
  unfold spec_symbol. intros H. destruct (longest_match spec_symbols s) as [x|] eqn:E; [|discriminate].
  destruct (strip_prefix x s) as [r|] eqn:Es; [|discriminate].
  apply strip_prefix_split in Es. destruct (lm_some _ _ _ E) as (Hin & _).
  exists x. rewrite match61 in H. destruct (hd61 r).
  - destruct (mem_bytes x later_compound_bases); [discriminate|]. injection H as <- <-. auto.
  - injection H as <- <-. auto.
Qed.

(* the byte c directly after the symbol x does not make spec_step read something else than x *)
Definition disp_ok (x : list Z) (c : Z) : bool :=
  negb (zlist_eqb x [45] && (c =? 45)) && negb (zlist_eqb x [47] && (c =? 47)) &&
  negb (zlist_eqb x [91] && ((c =? 91) || (c =? 61))) && negb (zlist_eqb x [46] && is_digit c) &&
  negb (zlist_eqb x [58] && (c =? 58)).

Definition sym_safe (x : list Z) (c : Z) : bool :=
  negb (sym_ext x c) && negb (mem_bytes x later_compound_bases && (c =? 61)) && disp_ok x c.

Lemma spec_step_sym_dispatch x rest : In x spec_symbols ->
  match rest with [] => True | c :: _ => disp_ok x c = true end ->
  spec_step (x ++ rest) = spec_symbol (x ++ rest).
Proof.
  intros Hin H. unfold spec_symbols, bs_ in Hin. cbn [unBS In] in Hin.
  repeat (destruct Hin as [<-|Hin]; [try reflexivity|]); try contradiction.
  all: destruct rest as [|c r]; [reflexivity|].
  all: unfold disp_ok in H; cbn in H; rewrite ?andb_true_r in H; apply negb_true_iff in H.
  all: cbn [app]; unfold spec_step; cbn -[spec_symbol].
  - apply Z.eqb_neq in H. zlit c.
  - apply Z.eqb_neq in H. zlit c.
  - apply orb_false_iff in H. destruct H as [H1 H2]. apply Z.eqb_neq in H1, H2. zlit c.
  - apply Z.eqb_neq in H. zlit c.
  - rewrite H. reflexivity.
Qed.

Lemma spec_step_symbol x c r : In x spec_symbols -> sym_safe x c = true ->
  spec_step (x ++ c :: r) = Some (mk SSymbol x x, c :: r).
Proof.
  intros Hin H. unfold sym_safe in H. apply andb_true_iff in H. destruct H as [H Hd].
  apply andb_true_iff in H. destruct H as [He Hl]. apply negb_true_iff in He, Hl.
  rewrite spec_step_sym_dispatch; [|exact Hin | exact Hd]. apply spec_symbol_ok; assumption.
Qed.

Lemma spec_step_symbol_end x : In x spec_symbols -> spec_step x = Some (mk SSymbol x x, []).
Proof.
  intros Hin. rewrite <- (app_nil_r x) at 1. rewrite spec_step_sym_dispatch; [|exact Hin | exact I].
  rewrite app_nil_r. apply spec_symbol_end, Hin.
Qed.

(* ---------- names, keywords, labels, ? *)
Definition is_name (n : list Z) : bool :=
  match n with c :: r => is_name_start c && forallb is_name_char r | [] => false end.

Lemma name_start_char c : is_name_start c = true -> is_name_char c = true.
Proof. unfold is_name_char. intros ->. reflexivity. Qed.

Lemma is_name_all n : is_name n = true -> forallb is_name_char n = true.
Proof.
  destruct n as [|c r]; [discriminate|]. cbn [is_name forallb]. intros H.
  apply andb_true_iff in H. destruct H as [H1 H2]. rewrite (name_start_char c H1), H2. reflexivity.
Qed.

Lemma name_start_dispatch c : is_name_start c = true ->
  is_blank c = false /\ (c =? 10) = false /\ (c =? 13) = false /\ (c =? 45) = false /\ (c =? 47) = false
  /\ (c =? 91) = false /\ ((c =? 34) || (c =? 39)) = false /\ is_digit c = false /\ (c =? 46) = false.
Proof. unfold is_name_start, is_alpha, is_blank, is_digit. intros H. repeat split; lia. Qed.

Lemma spec_step_word n rest : is_name n = true -> stops is_name_char rest ->
  spec_step (n ++ rest) = Some (mk (if mem_bytes n spec_keywords then SKeyword else SName) n n, rest).
Proof.
  intros Hn Hr. pose proof (is_name_all n Hn) as Hall. destruct n as [|c r]; [discriminate|].
  cbn [is_name] in Hn. apply andb_true_iff in Hn. destruct Hn as [Hs _].
  destruct (name_start_dispatch c Hs) as (H1 & H2 & H3 & H4 & H5 & H6 & H7 & H8 & H9).
  cbn [app]. unfold spec_step. rewrite H1, H2, H3, H4, H5, H6, H7, H8, H9, Hs. cbv iota.
  change (c :: r ++ rest) with ((c :: r) ++ rest). rewrite (span_ctx is_name_char (c :: r) rest Hall Hr).
  reflexivity.
Qed.

Lemma spec_step_qmark rest : spec_step (63 :: rest) = Some (mk SName [63] [63], rest).
Proof. reflexivity. Qed.

Lemma spec_step_label o rest : is_name o = true ->
  spec_step (58 :: 58 :: o ++ 58 :: 58 :: rest) = Some (mk SLabel (58 :: 58 :: o ++ [58; 58]) o, rest).
Proof.
  intros Hn. pose proof (is_name_all o Hn) as Hall. destruct o as [|n0 o']; [discriminate|].
  cbn [is_name] in Hn. apply andb_true_iff in Hn. destruct Hn as [Hs _].
  unfold spec_step. cbn -[span app].
  rewrite (span_ctx is_name_char (n0 :: o') (58 :: 58 :: rest) Hall eq_refl). rewrite Hs. reflexivity.
Qed.

(* what spec_step tells about a name / keyword / label token it produced *)
Lemma word_shape c r a rest : is_name_start c = true -> span is_name_char (c :: r) = (a, rest) ->
  is_name a = true /\ c :: r = a ++ rest /\ stops is_name_char rest.
Proof.
  intros Hs H. pose proof (span_split _ _ _ _ H) as Hsp. pose proof (span_all _ _ _ _ H) as Hall.
  pose proof (span_stop _ _ _ _ H) as Hst. split; [|split; assumption].
  cbn [span] in H. rewrite (name_start_char c Hs) in H. destruct (span is_name_char r) as [a' b'].
  injection H as <- <-. cbn [is_name]. rewrite Hs. cbn [forallb] in Hall. apply andb_true_iff in Hall. apply Hall.
Qed.

(* ---------- numerals *)
(* the wide class: every byte of a numeral run but a sign is in it *)
Definition numch (c : Z) : bool := is_alnum c || (c =? 46).
(* the bytes the loop of the run reads (besides a sign after an exponent letter) *)
Definition runch (h : bool) (c : Z) : bool := is_hex c || (c =? 46) || (h && ((c =? 112) || (c =? 80))).
Definition expo (h : bool) (c : Z) : bool := if h then (c =? 112) || (c =? 80) else (c =? 101) || (c =? 69).
Definition is_sign (c : Z) : bool := (c =? 43) || (c =? 45).

Lemma runch_numch h c : runch h c = true -> numch c = true.
Proof.
  unfold runch, numch, is_hex, is_lower_hex, is_upper_hex, is_alnum, is_alpha, is_digit. intros H.
  destruct h; cbn [andb] in H; lia.
Qed.

Lemma num_run_cons h e c r :
  num_run h e (c :: r) =
  if runch h c then let '(a, b) := num_run h (expo h c) r in (c :: a, b)
  else if e && is_sign c then let '(a, b) := num_run h false r in (c :: a, b)
  else ([], c :: r).
Proof. reflexivity. Qed.

(* the exponent flag after the run a has been read *)
Fixpoint end_flag (h e : bool) (a : list Z) : bool :=
  match a with
  | [] => e
  | c :: r => if runch h c then end_flag h (expo h c) r else end_flag h false r
  end.

Definition num_stops (f : bool) (b : list Z) : Prop :=
  match b with [] => True | c :: _ => numch c = false /\ (f && is_sign c) = false end.

(* where the run really stops *)
Definition run_stops (h f : bool) (b : list Z) : Prop :=
  match b with [] => True | c :: _ => runch h c = false /\ (f && is_sign c) = false end.

Lemma num_stops_run h f b : num_stops f b -> run_stops h f b.
Proof.
  destruct b as [|c b]; [exact (fun x => x)|]. cbn [num_stops run_stops]. intros [H1 H2]. split; [|exact H2].
  destruct (runch h c) eqn:E; [|reflexivity]. apply runch_numch in E. congruence.
Qed.

Lemma num_run_ctx h : forall a e b0 b,
  num_run h e (a ++ b0) = (a, b0) -> run_stops h (end_flag h e a) b -> num_run h e (a ++ b) = (a, b).
Proof.
  induction a as [|c a IH]; intros e b0 b H Hs.
  - cbn [app end_flag] in *. destruct b as [|d b]; [reflexivity|]. destruct Hs as [H1 H2].
    rewrite num_run_cons, H1, H2. reflexivity.
  - cbn [app] in *. rewrite num_run_cons in H. rewrite num_run_cons. cbn [end_flag] in Hs.
    destruct (runch h c).
    + destruct (num_run h (expo h c) (a ++ b0)) as [x y] eqn:E. injection H as -> ->.
      rewrite (IH _ _ _ E Hs). reflexivity.
    + destruct (e && is_sign c).
      * destruct (num_run h false (a ++ b0)) as [x y] eqn:E. injection H as -> ->.
        rewrite (IH _ _ _ E Hs). reflexivity.
      * discriminate.
Qed.

Lemma num_run_split h : forall s e a b, num_run h e s = (a, b) -> s = a ++ b.
Proof.
  induction s as [|c r IH]; intros e a b H; [injection H as <- <-; reflexivity|].
  rewrite num_run_cons in H. destruct (runch h c).
  - destruct (num_run h (expo h c) r) as [x y] eqn:E. injection H as <- <-. cbn. f_equal. eapply IH, E.
  - destruct (e && is_sign c).
    + destruct (num_run h false r) as [x y] eqn:E. injection H as <- <-. cbn. f_equal. eapply IH, E.
    + injection H as <- <-. reflexivity.
Qed.

(* the run stops where it stops *)
Lemma num_run_stops h : forall s e a b, num_run h e s = (a, b) -> run_stops h (end_flag h e a) b.
Proof.
  induction s as [|c r IH]; intros e a b H; [injection H as <- <-; exact I|].
  rewrite num_run_cons in H. destruct (runch h c) eqn:Ec.
  - destruct (num_run h (expo h c) r) as [x y] eqn:E. injection H as <- <-. cbn [end_flag]. rewrite Ec. eapply IH, E.
  - destruct (e && is_sign c) eqn:Es.
    + destruct (num_run h false r) as [x y] eqn:E. injection H as <- <-. cbn [end_flag]. rewrite Ec. eapply IH, E.
    + injection H as <- <-. cbn [end_flag run_stops]. split; assumption.
Qed.

(* every byte of the run is a letter, a digit, a dot or a sign *)
Lemma num_run_chars h : forall s e a b, num_run h e s = (a, b) -> forallb (fun c => numch c || is_sign c) a = true.
Proof.
  induction s as [|c r IH]; intros e a b H; [injection H as <- <-; reflexivity|].
  rewrite num_run_cons in H. destruct (runch h c) eqn:En.
  - destruct (num_run h (expo h c) r) as [x y] eqn:E. injection H as <- <-. cbn [forallb].
    rewrite (runch_numch _ _ En). cbn [orb andb]. eapply IH, E.
  - destruct (e && is_sign c) eqn:Es.
    + destruct (num_run h false r) as [x y] eqn:E. injection H as <- <-. cbn [forallb].
      apply andb_true_iff in Es. destruct Es as [_ ->]. rewrite orb_true_r. cbn [andb]. eapply IH, E.
    + injection H as <- <-. reflexivity.
Qed.

Lemma end_flag_last h : forall p e c, runch h c = true -> end_flag h e (p ++ [c]) = expo h c.
Proof.
  induction p as [|d p IH]; intros e c Hc; cbn [app end_flag].
  - rewrite Hc. reflexivity.
  - destruct (runch h d); apply IH, Hc.
Qed.

Lemma forallb_last {A} (p : A -> bool) (l : list A) : nonempty l = true -> forallb p l = true ->
  exists q c, l = q ++ [c] /\ p c = true.
Proof.
  intros Hn Hall. destruct l as [|x l]; [discriminate|].
  destruct (exists_last (l := x :: l)) as (q & c & E); [discriminate|]. exists q, c. split; [exact E|].
  rewrite E in Hall. rewrite forallb_app in Hall. apply andb_true_iff in Hall. destruct Hall as [_ H].
  cbn in H. rewrite andb_true_r in H. exact H.
Qed.

Definition good_last (h : bool) (a : list Z) : Prop :=
  exists q c, a = q ++ [c] /\ runch h c = true /\ expo h c = false.

Lemma good_last_app h x a : good_last h a -> good_last h (x ++ a).
Proof. intros (q & c & -> & H). exists (x ++ q), c. rewrite app_assoc. auto. Qed.

Lemma parse_based_last h base isd r v :
  (forall c, isd c = true -> runch h c = true /\ expo h c = false) ->
  parse_based base isd r = Some v -> good_last h r.
Proof.
  intros Hg H. unfold parse_based in H. destruct (span isd r) as [ip r1] eqn:E.
  pose proof (span_split _ _ _ _ E) as ->. pose proof (span_all _ _ _ _ E) as Hip.
  destruct r1 as [|c r'].
  - destruct (nonempty ip) eqn:En; [|discriminate]. rewrite app_nil_r.
    destruct (forallb_last isd ip En Hip) as (q & c & -> & Hc). exists q, c. split; [reflexivity | apply Hg, Hc].
  - destruct (c =? 46) eqn:Ec; [|discriminate]. destruct (span isd r') as [fp r''] eqn:E2.
    pose proof (span_split _ _ _ _ E2) as ->. pose proof (span_all _ _ _ _ E2) as Hfp.
    destruct (nonempty fp) eqn:En; [|discriminate]. destruct r'' as [|? ?]; [|discriminate].
    rewrite app_nil_r. apply good_last_app. change (c :: fp) with ([c] ++ fp). apply good_last_app.
    destruct (forallb_last isd fp En Hfp) as (q & d & -> & Hd). exists q, d. split; [reflexivity | apply Hg, Hd].
Qed.

Lemma digit_good c : is_digit c = true -> runch false c = true /\ expo false c = false.
Proof. unfold runch, is_hex, is_digit, expo. intros H. split; lia. Qed.

Lemma parse_exponent_last r x : parse_exponent r = Some x -> good_last false r.
Proof.
  unfold parse_exponent. destruct r as [|c ds]; [discriminate|]. intros H.
  destruct (c =? 45) eqn:E1.
  - destruct (nonempty ds) eqn:En; [|discriminate]. destruct (forallb is_digit ds) eqn:Ea; [|discriminate].
    change (c :: ds) with ([c] ++ ds). apply good_last_app.
    destruct (forallb_last is_digit ds En Ea) as (q & d & -> & Hd). exists q, d. split; [reflexivity | apply digit_good, Hd].
  - destruct (c =? 43); [discriminate|]. destruct (forallb is_digit (c :: ds)) eqn:Ea; [|discriminate].
    destruct (forallb_last is_digit (c :: ds) eq_refl Ea) as (q & d & -> & Hd). exists q, d.
    split; [reflexivity | apply digit_good, Hd].
Qed.

Lemma dot_good : runch false 46 = true /\ expo false 46 = false.
Proof. split; reflexivity. Qed.

Lemma parse_decimal_last a v : parse_decimal a = Some v -> good_last false a.
Proof.
  unfold parse_decimal. intros H. destruct (span is_digit a) as [ip r] eqn:E.
  pose proof (span_split _ _ _ _ E) as ->. pose proof (span_all _ _ _ _ E) as Hip.
  assert (Hip' : nonempty ip = true -> good_last false ip).
  { intros En. destruct (forallb_last is_digit ip En Hip) as (q & d & -> & Hd). exists q, d.
    split; [reflexivity | apply digit_good, Hd]. }
  destruct r as [|c r'].
  - cbv iota beta in H. cbn [nonempty] in H. rewrite orb_false_r in H.
    destruct (nonempty ip) eqn:En; [|discriminate]. rewrite app_nil_r. apply Hip', eq_refl.
  - destruct (c =? 46) eqn:Ec.
    + apply Z.eqb_eq in Ec. subst c. destruct (span is_digit r') as [fp r2] eqn:E2.
      pose proof (span_split _ _ _ _ E2) as ->. pose proof (span_all _ _ _ _ E2) as Hfp.
      cbv iota beta in H. destruct (nonempty ip || nonempty fp) eqn:En; [|discriminate].
      apply good_last_app. destruct r2 as [|e r3].
      * rewrite app_nil_r. destruct (nonempty fp) eqn:Enf.
        -- change (46 :: fp) with ([46] ++ fp). apply good_last_app.
           destruct (forallb_last is_digit fp Enf Hfp) as (q & d & -> & Hd). exists q, d.
           split; [reflexivity | apply digit_good, Hd].
        -- destruct fp; [|discriminate]. exists [], 46. split; [reflexivity | apply dot_good].
      * change (46 :: fp ++ e :: r3) with ((46 :: fp) ++ e :: r3). apply good_last_app.
        destruct ((e =? 101) || (e =? 69)); [|discriminate H].
        destruct (parse_exponent r3) as [x|] eqn:Ex; [|discriminate H].
        change (e :: r3) with ([e] ++ r3). apply good_last_app. eapply parse_exponent_last, Ex.
    + cbv iota beta in H. cbn [nonempty] in H. rewrite orb_false_r in H.
      destruct (nonempty ip) eqn:En; [|discriminate]. apply good_last_app.
      destruct ((c =? 101) || (c =? 69)); [|discriminate H].
      destruct (parse_exponent r') as [x|] eqn:Ex; [|discriminate H].
      change (c :: r') with ([c] ++ r'). apply good_last_app. eapply parse_exponent_last, Ex.
Qed.

Lemma spec_numeral_eq d :
  spec_numeral d =
  match d with
  | c :: x :: r =>
    if c =? 48 then
      (if (x =? 120) || (x =? 88) then parse_based 16 is_hex r
       else if (x =? 98) || (x =? 66) then parse_based 2 is_bin r else parse_decimal d)
    else parse_decimal d
  | _ => parse_decimal d
  end.
Proof. destruct d as [|c [|x r]]; try reflexivity; unfold spec_numeral; zlit c. Qed.

Lemma is_hex_prefix_eq s :
  is_hex_prefix s = match s with c :: x :: _ => (c =? 48) && ((x =? 120) || (x =? 88)) | _ => false end.
Proof. destruct s as [|c [|x r]]; try reflexivity; unfold is_hex_prefix; zlit c. Qed.

Lemma hex_good c : is_hex c = true -> runch true c = true /\ expo true c = false.
Proof. unfold runch, is_hex, is_digit, is_lower_hex, is_upper_hex, expo. intros H. split; lia. Qed.

Lemma bin_good c : is_bin c = true -> runch false c = true /\ expo false c = false.
Proof. unfold is_bin, runch, is_hex, is_digit, expo. intros H. split; lia. Qed.

Lemma spec_numeral_last a v : spec_numeral a = Some v -> good_last (is_hex_prefix a) a.
Proof.
  rewrite spec_numeral_eq, is_hex_prefix_eq. destruct a as [|c [|x r]]; try apply parse_decimal_last.
  destruct (c =? 48) eqn:Ec; cbn [andb]; [|apply parse_decimal_last].
  destruct ((x =? 120) || (x =? 88)) eqn:Ex.
  - intros H. change (c :: x :: r) with ([c; x] ++ r). apply good_last_app.
    eapply parse_based_last; [|exact H]. apply hex_good.
  - destruct ((x =? 98) || (x =? 66)) eqn:Eb; [|apply parse_decimal_last].
    intros H. change (c :: x :: r) with ([c; x] ++ r). apply good_last_app.
    eapply parse_based_last; [|exact H]. apply bin_good.
Qed.

Lemma spec_numeral_end_flag a v : spec_numeral a = Some v -> end_flag (is_hex_prefix a) false a = false.
Proof.
  intros H. destruct (spec_numeral_last a v H) as (q & c & E & Hc & He).
  rewrite E at 2. rewrite end_flag_last by exact Hc. exact He.
Qed.

(* the dispatch of spec_step on a numeral start *)
Lemma spec_step_number s : num_start s = true -> spec_step s = spec_number s.
Proof.
  destruct s as [|c r]; [discriminate|]. cbn [num_start]. intros H. unfold spec_step.
  destruct (is_digit c) eqn:Ed.
  - assert (is_blank c = false /\ (c =? 10) = false /\ (c =? 13) = false /\ (c =? 45) = false /\ (c =? 47) = false
            /\ (c =? 91) = false /\ ((c =? 34) || (c =? 39)) = false) as (H1 & H2 & H3 & H4 & H5 & H6 & H7)
      by (unfold is_digit, is_blank in *; repeat split; lia).
    rewrite H1, H2, H3, H4, H5, H6, H7. reflexivity.
  - cbn [orb] in H. apply andb_true_iff in H. destruct H as [Hc Hd]. apply Z.eqb_eq in Hc. subst c.
    destruct r as [|d r]; [discriminate|]. cbn. rewrite Hd. reflexivity.
Qed.

(* ---------- the numeral's extent: the optional dot, the optional 0x, the run *)
(* hexadecimal mode *)
Definition num_mode (s : list Z) : bool :=
  match s with c :: r => if c =? 46 then is_hex_prefix r else is_hex_prefix s | [] => false end.

Lemma num_body_eq s :
  num_body s = if is_hex_prefix s
               then let '(a, b) := num_run true false (skipn 2 s) in (firstn 2 s ++ a, b)
               else num_run false false s.
Proof.
  destruct s as [|z [|x r]]; unfold num_body; rewrite ?is_hex_prefix_eq; reflexivity.
Qed.

Lemma num_split_dec s : num_mode s = false -> num_split s = num_run false false s.
Proof.
  destruct s as [|c r]; [reflexivity|]. unfold num_mode, num_split. destruct (c =? 46) eqn:Ec.
  - intros H. rewrite num_body_eq, H. apply Z.eqb_eq in Ec. subst c. rewrite num_run_cons.
    change (runch false 46) with true. cbv iota. reflexivity.
  - intros H. rewrite num_body_eq, H. reflexivity.
Qed.

Lemma num_split_hex x r : (x =? 120) || (x =? 88) = true ->
  num_split (48 :: x :: r) = let '(a, b) := num_run true false r in (48 :: x :: a, b).
Proof.
  intros Hx. unfold num_split. change (48 =? 46) with false. cbv iota. rewrite num_body_eq, is_hex_prefix_eq.
  change (48 =? 48) with true. rewrite Hx. reflexivity.
Qed.

Lemma num_split_split s a b : num_split s = (a, b) -> s = a ++ b.
Proof.
  assert (B : forall s a b, num_body s = (a, b) -> s = a ++ b).
  { intros s0 a0 b0. rewrite num_body_eq. destruct (is_hex_prefix s0) eqn:Eh.
    - destruct (num_run true false (skipn 2 s0)) as [x y] eqn:E. intros H. injection H as <- <-.
      rewrite <- app_assoc, <- (num_run_split _ _ _ _ _ E). symmetry. exact (firstn_skipn 2 s0).
    - apply num_run_split. }
  destruct s as [|c r]; [intros H; injection H as <- <-; reflexivity|]. unfold num_split.
  destruct (c =? 46).
  - destruct (num_body r) as [x y] eqn:E. intros H. injection H as <- <-. cbn [app]. f_equal. apply B, E.
  - apply B.
Qed.

Lemma num_split_chars s a b : num_split s = (a, b) -> forallb (fun c => numch c || is_sign c) a = true.
Proof.
  assert (B : forall s a b, num_body s = (a, b) -> forallb (fun c => numch c || is_sign c) a = true).
  { intros s0 a0 b0. rewrite num_body_eq, is_hex_prefix_eq. destruct s0 as [|z [|x r]]; try apply num_run_chars.
    destruct ((z =? 48) && ((x =? 120) || (x =? 88))) eqn:Eh; [|apply num_run_chars].
    cbn [skipn firstn]. destruct (num_run true false r) as [p q] eqn:E. intros H. injection H as <- <-.
    cbn [app forallb]. rewrite (num_run_chars _ _ _ _ _ E).
    assert (Hz : numch z = true) by (unfold numch, is_alnum, is_alpha, is_digit; lia).
    assert (Hx : numch x = true) by (unfold numch, is_alnum, is_alpha, is_digit; lia).
    rewrite Hz, Hx. reflexivity. }
  destruct s as [|c r]; [intros H; injection H as <- <-; reflexivity|]. unfold num_split.
  destruct (c =? 46) eqn:Ec.
  - destruct (num_body r) as [x y] eqn:E. intros H. injection H as <- <-. cbn [forallb]. rewrite (B _ _ _ E).
    apply Z.eqb_eq in Ec. subst c. reflexivity.
  - apply B.
Qed.

Lemma spec_number_inv s t rest : spec_number s = Some (t, rest) ->
  exists run n d, num_split s = (run, rest) /\ spec_numeral run = Some (n, d) /\
                  t = mk_stok SNumber run run n d (-1) 0 0.
Proof.
  unfold spec_number. destruct (num_split s) as [run r0]. destruct (spec_numeral run) as [[n d]|] eqn:En; [|discriminate].
  intros H. injection H as <- <-. exists run, n, d. auto.
Qed.

Lemma dot_hex_none x a : (x =? 120) || (x =? 88) = true -> spec_numeral (46 :: 48 :: x :: a) = None.
Proof.
  intros Hx. rewrite spec_numeral_eq. change (46 =? 48) with false. cbv iota. unfold parse_decimal.
  cbn [span]. change (is_digit 46) with false. cbv iota. change (46 =? 46) with true. cbv iota.
  cbn [span]. change (is_digit 48) with true. cbv iota.
  assert (Hd : is_digit x = false) by (unfold is_digit; lia).
  cbn [span]. rewrite Hd. cbn [nonempty orb].
  assert (He : (x =? 101) || (x =? 69) = false) by lia. rewrite He. reflexivity.
Qed.

(* the two ways a complete numeral is read *)
Lemma num_split_valid s run r0 v : num_split s = (run, r0) -> spec_numeral run = Some v ->
  (num_mode s = false /\ is_hex_prefix run = false /\ num_run false false s = (run, r0)) \/
  (exists x a, run = 48 :: x :: a /\ (x =? 120) || (x =? 88) = true /\ s = 48 :: x :: a ++ r0 /\
               num_run true false (a ++ r0) = (a, r0)).
Proof.
  intros H Hv. destruct (num_mode s) eqn:Em.
  - right. destruct s as [|c r]; [discriminate|]. unfold num_mode in Em. destruct (c =? 46) eqn:Ec.
    + exfalso. rewrite is_hex_prefix_eq in Em. destruct r as [|z [|x r]]; try discriminate.
      unfold num_split in H. rewrite Ec, num_body_eq, is_hex_prefix_eq, Em in H. cbn [skipn firstn] in H.
      destruct (num_run true false r) as [a b]. injection H as <- <-.
      apply Z.eqb_eq in Ec. subst c. assert (z = 48) by lia. subst z. cbn [app] in Hv.
      rewrite dot_hex_none in Hv by lia. discriminate.
    + rewrite is_hex_prefix_eq in Em. destruct r as [|x r]; [discriminate|].
      assert (c = 48) by lia. subst c. assert (Hx : (x =? 120) || (x =? 88) = true) by lia.
      rewrite (num_split_hex x r Hx) in H. destruct (num_run true false r) as [a b] eqn:E. injection H as <- <-.
      pose proof (num_run_split _ _ _ _ _ E) as ->. exists x, a. auto.
  - left. split; [reflexivity|]. rewrite (num_split_dec s Em) in H. split; [|exact H].
    pose proof (num_run_split _ _ _ _ _ H) as Hs. rewrite is_hex_prefix_eq.
    destruct run as [|c [|x run]]; try reflexivity. subst s. cbn [app num_mode] in Em.
    destruct (c =? 46) eqn:Ec.
    * replace (c =? 48) with false by lia. reflexivity.
    * rewrite is_hex_prefix_eq in Em. exact Em.
Qed.

Lemma numeral_not_dot : spec_numeral [46] = None.
Proof. reflexivity. Qed.

(* the mode depends on the numeral and on the byte after it only *)
Lemma num_mode_local run c r0 R : run <> [] -> run <> [46] -> num_mode (run ++ c :: R) = num_mode (run ++ c :: r0).
Proof.
  intros H1 H2. unfold num_mode. destruct run as [|a [|b [|d run]]]; cbn [app]; try congruence.
  - destruct (a =? 46) eqn:Ea; [exfalso; apply H2; f_equal; lia|]. rewrite !is_hex_prefix_eq. reflexivity.
  - destruct (a =? 46); rewrite !is_hex_prefix_eq; reflexivity.
  - destruct (a =? 46); rewrite !is_hex_prefix_eq; reflexivity.
Qed.

(* ... and not at all on what follows when that is no x *)
Definition x_stops (b : list Z) : Prop :=
  match b with [] => True | c :: _ => (c =? 120) || (c =? 88) = false end.

Lemma num_mode_ctx run r0 b : run <> [] -> run <> [46] -> num_mode (run ++ r0) = false -> x_stops b ->
  num_mode (run ++ b) = false.
Proof.
  intros H1 H2 Hm Hb. unfold num_mode in *. destruct run as [|a [|e [|d run]]]; cbn [app] in *; try congruence.
  - destruct (a =? 46) eqn:Ea; [exfalso; apply H2; f_equal; lia|]. rewrite is_hex_prefix_eq.
    destruct b as [|y b]; [reflexivity|]. cbn [x_stops] in Hb. rewrite Hb. apply andb_false_r.
  - destruct (a =? 46).
    + rewrite is_hex_prefix_eq. destruct b as [|y b]; [reflexivity|]. cbn [x_stops] in Hb. rewrite Hb. apply andb_false_r.
    + rewrite is_hex_prefix_eq in *. exact Hm.
  - destruct (a =? 46); rewrite is_hex_prefix_eq in *; exact Hm.
Qed.

Lemma num_start_ctx run r0 b : run <> [] -> run <> [46] -> num_start (run ++ r0) = true -> num_start (run ++ b) = true.
Proof.
  intros H1 H2 H. destruct run as [|a [|e run]]; cbn [app num_start] in *; try congruence.
  destruct (is_digit a); [reflexivity|]. cbn [orb] in *. apply andb_true_iff in H. destruct H as [Ha _].
  exfalso. apply H2. f_equal. lia.
Qed.

(* a numeral token is read back in every right context in which its run stops in the same mode *)
Lemma spec_number_ctx_gen s t rest0 : spec_number s = Some (t, rest0) ->
  exists run, s_raw t = run /\ run <> [] /\ run <> [46] /\ s = run ++ rest0 /\
    run_stops (num_mode s) false rest0 /\
    forall rest, run_stops (num_mode s) false rest -> num_mode (run ++ rest) = num_mode s -> num_start s = true ->
      spec_step (run ++ rest) = Some (t, rest).
Proof.
  intros H. destruct (spec_number_inv _ _ _ H) as (run & n & d & E & En & ->). clear H.
  pose proof (num_split_split _ _ _ E) as Hs. exists run. split; [reflexivity|].
  assert (Hne : run <> []).
  { intros ->. rewrite spec_numeral_eq in En. cbn in En. discriminate. }
  assert (Hnd : run <> [46]).
  { intros ->. rewrite numeral_not_dot in En. discriminate. }
  split; [exact Hne|]. split; [exact Hnd|]. split; [exact Hs|].
  pose proof (spec_numeral_end_flag _ _ En) as Hfl.
  destruct (num_split_valid _ _ _ _ E En) as [(Hm & Hh & Hr) | (x & a & -> & Hx & Hs' & Hr)].
  - rewrite Hh in Hfl. rewrite Hm. split.
    + pose proof (num_run_stops _ _ _ _ _ Hr) as St. rewrite Hfl in St. exact St.
    + intros rest Hst Hmode Hstart. subst s.
      rewrite spec_step_number by (eapply num_start_ctx; eassumption).
      unfold spec_number. rewrite (num_split_dec _ Hmode).
      rewrite (num_run_ctx _ run false rest0 rest Hr) by (rewrite Hfl; exact Hst).
      rewrite En. reflexivity.
  - assert (Hm : num_mode s = true).
    { rewrite Hs'. unfold num_mode. change (48 =? 46) with false. cbv iota. rewrite is_hex_prefix_eq.
      change (48 =? 48) with true. rewrite Hx. reflexivity. }
    assert (Hfl' : end_flag true false a = false).
    { rewrite is_hex_prefix_eq in Hfl. change (48 =? 48) with true in Hfl. rewrite Hx in Hfl. cbn [andb end_flag] in Hfl.
      change (runch true 48) with true in Hfl. cbv iota in Hfl. change (expo true 48) with false in Hfl.
      assert (Hrx : runch true x = false) by (unfold runch, is_hex, is_digit, is_lower_hex, is_upper_hex; lia).
      rewrite Hrx in Hfl. exact Hfl. }
    rewrite Hm. split.
    + pose proof (num_run_stops _ _ _ _ _ Hr) as St. rewrite Hfl' in St. exact St.
    + intros rest Hst _ Hstart.
      rewrite spec_step_number by (rewrite Hs' in Hstart; exact Hstart).
      unfold spec_number. cbn [app]. rewrite (num_split_hex x _ Hx).
      rewrite (num_run_ctx _ a false rest0 rest Hr) by (rewrite Hfl'; exact Hst).
      rewrite En. reflexivity.
Qed.

Lemma num_stops_x b : num_stops false b -> x_stops b.
Proof.
  destruct b as [|c b]; [exact (fun x => x)|]. cbn [num_stops x_stops]. intros [H _].
  unfold numch, is_alnum, is_alpha in H. lia.
Qed.

(* a numeral token is read back in every right context that starts with neither a letter, a
   digit nor a dot *)
Lemma spec_number_ctx s t rest0 : spec_number s = Some (t, rest0) ->
  exists run, s_raw t = run /\ run <> [] /\ s = run ++ rest0 /\
    forall rest, num_stops false rest -> num_start s = true ->
      spec_step (run ++ rest) = Some (t, rest).
Proof.
  intros H. destruct (spec_number_ctx_gen _ _ _ H) as (run & Hr & Hne & Hnd & Hs & _ & Hctx).
  exists run. split; [exact Hr|]. split; [exact Hne|]. split; [exact Hs|].
  intros rest Hst Hstart. apply Hctx; [apply num_stops_run, Hst | | exact Hstart].
  destruct (num_mode s) eqn:Em.
  - (* hexadecimal: the prefix is inside the numeral *)
    destruct (spec_number_inv _ _ _ H) as (run' & n & d & E & En & ->). cbn [s_raw] in Hr. subst run'.
    destruct (num_split_valid _ _ _ _ E En) as [(Hm & _) | (x & a & -> & Hx & _ & _)]; [congruence|].
    cbn [app]. unfold num_mode. change (48 =? 46) with false. cbv iota. rewrite is_hex_prefix_eq.
    change (48 =? 48) with true. rewrite Hx. reflexivity.
  - subst s. eapply num_mode_ctx; [exact Hne | exact Hnd | exact Em | apply num_stops_x, Hst].
Qed.

(* ... and in front of every text that starts with the byte that followed it *)
Lemma spec_number_local s t c r0 R : spec_number s = Some (t, c :: r0) -> num_start s = true ->
  spec_step (s_raw t ++ c :: R) = Some (t, c :: R).
Proof.
  intros H Hstart. destruct (spec_number_ctx_gen _ _ _ H) as (run & Hr & Hne & Hnd & Hs & Hst & Hctx).
  rewrite Hr. apply Hctx; [exact Hst | | exact Hstart]. subst s. apply num_mode_local; assumption.
Qed.

(* the numeral itself starts like a numeral *)
Lemma spec_number_start s t rest : spec_number s = Some (t, rest) -> num_start s = true -> num_start (s_raw t) = true.
Proof.
  intros H Hstart. destruct (spec_number_ctx_gen _ _ _ H) as (run & Hr & Hne & Hnd & Hs & _).
  rewrite Hr. rewrite <- (app_nil_r run). subst s. eapply num_start_ctx; eassumption.
Qed.

(* ---------- long brackets *)
Lemma long_open_eq s n :
  long_open s n = match s with
                  | c :: r => if c =? 61 then long_open r (n + 1) else if c =? 91 then Some (n, r) else None
                  | [] => None
                  end.
Proof. destruct s as [|c r]; [reflexivity|]. cbn [long_open]. zlit c. Qed.

Lemma long_open_spec : forall s n m r, long_open s n = Some (m, r) ->
  exists k, m = n + Z.of_nat k /\ s = repeat 61 k ++ 91 :: r.
Proof.
  induction s as [|c s IH]; intros n m r H; rewrite long_open_eq in H; [discriminate|].
  destruct (c =? 61) eqn:E1.
  - apply Z.eqb_eq in E1. subst c. destruct (IH _ _ _ H) as (k & -> & ->). exists (S k). split; [lia | reflexivity].
  - destruct (c =? 91) eqn:E2; [|discriminate]. apply Z.eqb_eq in E2. subst c. injection H as <- <-.
    exists O. split; [lia | reflexivity].
Qed.

Lemma long_open_build k : forall n r, long_open (repeat 61 k ++ 91 :: r) n = Some (n + Z.of_nat k, r).
Proof.
  induction k as [|k IH]; intros n r; rewrite long_open_eq; cbn [repeat app].
  - cbn. f_equal. f_equal. lia.
  - cbn [Z.eqb Pos.eqb]. rewrite IH. f_equal. f_equal. lia.
Qed.

Lemma long_close_here_eq n s :
  long_close_here n s =
  match s with
  | [] => None
  | c :: r => match n with
              | O => if c =? 93 then Some r else None
              | S k => if c =? 61 then long_close_here k r else None
              end
  end.
Proof. destruct s as [|c r]; destruct n as [|k]; try reflexivity; cbn [long_close_here]; zlit c. Qed.

Lemma long_close_here_spec : forall n s r, long_close_here n s = Some r -> s = repeat 61 n ++ 93 :: r.
Proof.
  induction n as [|n IH]; intros s r H; rewrite long_close_here_eq in H; destruct s as [|c s]; try discriminate.
  - destruct (c =? 93) eqn:E; [|discriminate]. apply Z.eqb_eq in E. subst c. injection H as <-. reflexivity.
  - destruct (c =? 61) eqn:E; [|discriminate]. apply Z.eqb_eq in E. subst c. cbn. f_equal. apply IH, H.
Qed.

Lemma long_close_here_build : forall n r, long_close_here n (repeat 61 n ++ 93 :: r) = Some r.
Proof. induction n as [|n IH]; intros r; rewrite long_close_here_eq; cbn; [reflexivity | apply IH]. Qed.

Lemma long_close_here_local : forall n p r1 r2, (n < length p)%nat ->
  long_close_here n (p ++ r1) = None -> long_close_here n (p ++ r2) = None.
Proof.
  induction n as [|n IH]; intros p r1 r2 Hl H; destruct p as [|c p]; cbn [length] in Hl; try lia;
    cbn [app] in *; rewrite long_close_here_eq in H; rewrite long_close_here_eq.
  - destruct (c =? 93); [discriminate | reflexivity].
  - destruct (c =? 61); [|reflexivity]. eapply IH; [lia | exact H].
Qed.

Definition closer (n : nat) : list Z := 93 :: repeat 61 n ++ [93].

Lemma long_body_ctx n : forall s b cl rest, long_body n s = Some (b, cl, rest) ->
  cl = closer n /\ s = b ++ cl ++ rest /\ forall rest', long_body n (b ++ cl ++ rest') = Some (b, cl, rest').
Proof.
  induction s as [|c s IH]; intros b cl rest H; [discriminate|]. cbn [long_body] in H.
  destruct (if c =? 93 then long_close_here n s else None) as [r0|] eqn:E.
  - injection H as <- <- <-. destruct (c =? 93) eqn:Ec; [|discriminate]. apply Z.eqb_eq in Ec. subst c.
    apply long_close_here_spec in E. subst s. split; [reflexivity|]. unfold closer. split.
    + cbn [app]. f_equal. rewrite <- app_assoc. reflexivity.
    + intros rest'. cbn [app long_body]. rewrite <- app_assoc. cbn [app]. rewrite Z.eqb_refl.
      rewrite long_close_here_build. reflexivity.
  - destruct (long_body n s) as [[[b' cl'] rest0]|] eqn:El; [|discriminate]. injection H as <- <- <-.
    destruct (IH _ _ _ eq_refl) as (Hcl & Hs & Hctx). split; [exact Hcl|]. split; [cbn; f_equal; exact Hs|].
    intros rest'. cbn [app long_body]. rewrite Hctx.
    destruct (c =? 93) eqn:Ec; [|reflexivity].
    assert (Hn : long_close_here n ((b' ++ cl') ++ rest') = None).
    { eapply long_close_here_local with (r1 := rest0).
      - rewrite app_length, Hcl. unfold closer. cbn [length]. rewrite app_length, repeat_length. cbn. lia.
      - rewrite <- app_assoc. rewrite <- Hs. exact E. }
    rewrite <- app_assoc in Hn. rewrite Hn. reflexivity.
Qed.

Lemma long_string_ctx r lvl r2 b cl rest :
  long_open r 0 = Some (lvl, r2) -> long_body (Z.to_nat lvl) r2 = Some (b, cl, rest) ->
  forall rest', spec_step ((91 :: repeat 61 (Z.to_nat lvl) ++ 91 :: b ++ cl) ++ rest') =
    Some (mk_stok SString (91 :: repeat 61 (Z.to_nat lvl) ++ 91 :: b ++ cl) (long_string_value b) 0 1 lvl 0 0, rest').
Proof.
  intros Ho Hb rest'. destruct (long_open_spec _ _ _ _ Ho) as (k & Hk & _). cbn in Hk. subst lvl.
  rewrite Nat2Z.id in *. destruct (long_body_ctx _ _ _ _ _ Hb) as (_ & _ & Hctx).
  cbn [app]. unfold spec_step. cbn -[long_open long_body repeat app].
  rewrite <- app_assoc. cbn [app]. rewrite <- !app_assoc. rewrite long_open_build. cbn [Z.add].
  rewrite Nat2Z.id. rewrite Hctx. reflexivity.
Qed.

(* ---------- comments *)
Lemma dash_eq r2 :
  spec_step (45 :: 45 :: r2) =
  match (match r2 with c :: r3 => if c =? 91 then long_open r3 0 else None | [] => None end) with
  | Some (lvl, r4) =>
    if lvl =? 0 then
      match long_body 0 r4 with
      | Some (b, cl, rest) =>
        Some (mk SComment (45 :: 45 :: 91 :: 91 :: b ++ cl) (45 :: 45 :: 91 :: 91 :: b ++ cl), rest)
      | None => None
      end
    else None
  | None => line_comment (45 :: 45 :: r2)
  end.
Proof.
  destruct r2 as [|c r3]; [reflexivity|]. unfold spec_step. cbn -[line_comment long_open long_body].
  destruct (c =? 91) eqn:E.
  - apply Z.eqb_eq in E. subst c. reflexivity.
  - apply Z.eqb_neq in E. zlit c.
Qed.

Definition not_eol (c : Z) : bool := negb (is_eol c).

Lemma long_open_none_nl : forall x n y0 y, long_open (x ++ y0) n = None -> long_open (x ++ 10 :: y) n = None.
Proof.
  induction x as [|c x IH]; intros n y0 y H; cbn [app] in *; rewrite long_open_eq; [reflexivity|].
  rewrite long_open_eq in H. destruct (c =? 61); [eapply IH, H|]. destruct (c =? 91); [discriminate | reflexivity].
Qed.

Lemma line_comment_ctx a R : forallb not_eol a = true ->
  line_comment (a ++ 10 :: R) = Some (mk SComment a a, 10 :: R).
Proof. intros Ha. unfold line_comment. fold not_eol. rewrite (span_ctx not_eol a (10 :: R) Ha eq_refl). reflexivity. Qed.

Lemma comment_ctx s t rest0 : step_shape s t rest0 -> s_kind t = SComment ->
  forall R, spec_step (s_raw t ++ 10 :: R) = Some (t, 10 :: R).
Proof.
  intros Hs K R. destruct Hs; try discriminate K.
  - (* block *)
    destruct (long_open_spec _ _ _ _ H) as (k & Hk & ->). assert (k = O) by lia. subst k. cbn [repeat app].
    destruct (long_body_ctx _ _ _ _ _ H0) as (_ & _ & Hctx).
    cbn [s_raw mk app]. rewrite dash_eq. cbn [Z.eqb Pos.eqb]. rewrite long_open_eq. cbn [Z.eqb Pos.eqb].
    rewrite <- app_assoc. rewrite Hctx. reflexivity.
  - (* -- line *)
    fold not_eol in H0. pose proof (span_all _ _ _ _ H0) as Hall. cbn [span] in H0.
    change (not_eol 45) with true in H0. cbv iota in H0.
    destruct (span not_eol r2) as [a' b'] eqn:E. injection H0 as <- <-.
    pose proof (span_split _ _ _ _ E) as Hr2. cbn [s_raw mk app]. rewrite dash_eq.
    assert (Hn : match a' ++ 10 :: R with c :: r3 => if c =? 91 then long_open r3 0 else None | [] => None end = None).
    { destruct a' as [|c a'']; [reflexivity|]. cbn [app]. destruct (c =? 91) eqn:Ec; [|reflexivity].
      apply Z.eqb_eq in Ec. subst c. subst r2. cbn [app] in H. eapply long_open_none_nl, H. }
    rewrite Hn. change (45 :: 45 :: a' ++ 10 :: R) with ((45 :: 45 :: a') ++ 10 :: R).
    apply line_comment_ctx, Hall.
  - (* // line *)
    fold not_eol in H. pose proof (span_all _ _ _ _ H) as Hall. cbn [span] in H.
    change (not_eol 47) with true in H. cbv iota in H.
    destruct (span not_eol r2) as [a' b'] eqn:E. injection H as <- <-.
    cbn [s_raw mk app]. change (47 :: 47 :: a' ++ 10 :: R) with ((47 :: 47 :: a') ++ 10 :: R).
    rewrite <- (line_comment_ctx _ R Hall). reflexivity.
  - (* number *) unfold spec_number in H0. destruct (num_split _) as [run r0]. destruct (spec_numeral run) as [[n d]|]; [|discriminate].
    injection H0 as <- <-. discriminate K.
  - (* word *) destruct (mem_bytes a spec_keywords); discriminate K.
  - (* symbol *) destruct (spec_symbol_inv _ _ _ H) as (x & _ & -> & _). discriminate K.
Qed.

(* ---------- quoted strings: what unescape_until consumes *)
Lemma ucons_inv pre x res v raw rest : ucons pre x res = Some (v, raw, rest) ->
  exists v' raw', res = Some (v', raw', rest) /\ v = x :: v' /\ raw = pre ++ raw'.
Proof.
  unfold ucons. destruct res as [[[v' raw'] rest']|]; [|discriminate]. intros [= <- <- <-].
  exists v', raw'. auto.
Qed.

Lemma unescape_split q : forall n s v raw rest, (length s <= n)%nat ->
  unescape_until q s = Some (v, raw, rest) -> s = raw ++ rest.
Proof.
  induction n as [|n IH]; intros s v raw rest Hl H.
  - destruct s; [discriminate | cbn in Hl; lia].
  - destruct s as [|c r]; [discriminate|]. cbn [unescape_until] in H. cbn [length] in Hl.
    break_match H.
    all: try (injection H as <- <- <-; reflexivity).
    all: apply ucons_inv in H; destruct H as (v' & raw' & H & _ & ->).
    all: apply IH in H; [|cbn [length] in *; lia].
    all: repeat match goal with E : (_ =? _) = true |- _ => apply Z.eqb_eq in E end.
    all: subst; cbn [app]; rewrite <- ?H; reflexivity.
Qed.

(* ---------- every step consumes exactly the raw text of its token *)
Lemma spec_step_split s t rest : spec_step s = Some (t, rest) -> s = s_raw t ++ rest /\ s_raw t <> [].
Proof.
  intros H. apply spec_step_shape in H. destruct H.
  - split; [eapply span_split, H0 | eapply span_head; eassumption].
  - split; [reflexivity | discriminate].
  - split; [reflexivity | discriminate].
  - destruct (long_open_spec _ _ _ _ H) as (k & Hk & ->). assert (k = O) by lia. subst k.
    destruct (long_body_ctx _ _ _ _ _ H0) as (_ & -> & _). split; [|discriminate].
    cbn [s_raw mk repeat app]. rewrite <- app_assoc. reflexivity.
  - split; [eapply span_split, H0 | eapply span_head; [|exact H0]; reflexivity].
  - split; [eapply span_split, H | eapply span_head; [|exact H]; reflexivity].
  - destruct (long_open_spec _ _ _ _ H) as (k & Hk & ->). cbn in Hk. subst lvl. rewrite Nat2Z.id in *.
    destruct (long_body_ctx _ _ _ _ _ H0) as (_ & -> & _). split; [|discriminate].
    cbn [s_raw app]. rewrite <- !app_assoc. cbn [app]. rewrite <- !app_assoc. reflexivity.
  - split; [|discriminate]. cbn [s_raw app]. f_equal. eapply unescape_split; [apply le_n | exact H0].
  - destruct (spec_number_ctx _ _ _ H0) as (run & Hr & Hne & Hs & _). rewrite Hr. split; assumption.
  - split; [eapply span_split, H0|]. destruct (word_shape _ _ _ _ H H0) as (Hn & _).
    destruct (mem_bytes a spec_keywords); cbn [s_raw mk]; intros E; subst a; discriminate.
  - split; [|discriminate]. cbn [s_raw mk]. apply span_split in H. rewrite H. cbn [app].
    rewrite <- app_assoc. reflexivity.
  - split; [reflexivity | discriminate].
  - destruct (spec_symbol_inv _ _ _ H) as (x & Hin & -> & ->). split; [reflexivity|]. cbn [s_raw mk].
    intros E. subst x. revert Hin. unfold spec_symbols, bs_. cbn. intuition discriminate.
Qed.

(* ---------- the token list: spec_toks as a chain of steps *)
Lemma spec_step_unpos s t rest : spec_step s = Some (t, rest) -> unpos t = t.
Proof.
  intros H. apply spec_step_shape in H. destruct H; try reflexivity.
  - unfold spec_number in H0. destruct (num_split _) as [run r0]. destruct (spec_numeral run) as [[n d]|]; [|discriminate].
    injection H0 as <- <-. reflexivity.
  - destruct (spec_symbol_inv _ _ _ H) as (x & _ & -> & _). reflexivity.
Qed.

Inductive chain : list Z -> list stok -> Prop :=
| chain_nil : chain [] []
| chain_cons s t rest ts : spec_step s = Some (t, rest) -> chain rest ts -> chain s (t :: ts).

Lemma unpos_at_pos t l c : unpos (at_pos t l c) = unpos t.
Proof. reflexivity. Qed.

Lemma rev'_rev {A} (l : list A) : rev' l = rev l.
Proof. unfold rev'. rewrite <- rev_alt. reflexivity. Qed.

Lemma spec_lex_fuel_chain : forall f l c s acc r, spec_lex_fuel f l c s acc = Some r ->
  exists ts, chain s ts /\ map unpos r = map unpos (rev acc) ++ ts.
Proof.
  induction f as [|f IH]; intros l c s acc r H.
  - destruct s; [|discriminate]. cbn in H. injection H as <-. exists []. split; [constructor|].
    rewrite rev'_rev, app_nil_r. reflexivity.
  - destruct s as [|x s'].
    + cbn in H. injection H as <-. exists []. split; [constructor|]. rewrite rev'_rev, app_nil_r. reflexivity.
    + cbn [spec_lex_fuel] in H. destruct (spec_step (x :: s')) as [[t rest]|] eqn:Es; [|discriminate].
      destruct (s_raw t) eqn:Er; [discriminate|]. destruct (spec_advance l c (z :: l0)) as [l' c'].
      apply IH in H. destruct H as (ts & Hc & Hm). exists (t :: ts). split; [econstructor; eassumption|].
      rewrite Hm. cbn [rev]. rewrite map_app. cbn [map]. rewrite unpos_at_pos, (spec_step_unpos _ _ _ Es).
      rewrite <- app_assoc. reflexivity.
Qed.

Lemma chain_unpos s ts : chain s ts -> map unpos ts = ts.
Proof. induction 1; cbn [map]; [reflexivity|]. rewrite (spec_step_unpos _ _ _ H), IHchain. reflexivity. Qed.

Lemma spec_toks_chain src ts : spec_toks src = Some ts -> crlf_only src = true /\ chain src ts.
Proof.
  unfold spec_toks, spec_lex. destruct (crlf_only src); [|discriminate].
  destruct (spec_lex_fuel (length src) 0 0 src []) as [r|] eqn:E; [|discriminate]. intros [= <-].
  split; [reflexivity|]. apply spec_lex_fuel_chain in E. destruct E as (ts & Hc & Hm). cbn in Hm. rewrite Hm. exact Hc.
Qed.

Lemma chain_fuel : forall s ts, chain s ts -> forall f l c acc, (length s <= f)%nat ->
  exists r, spec_lex_fuel f l c s acc = Some r /\ map unpos r = map unpos (rev acc) ++ ts.
Proof.
  induction 1 as [|s t rest ts Hs Hc IH]; intros f l c acc Hf.
  - exists (rev' acc). split; [destruct f; reflexivity|]. rewrite rev'_rev, app_nil_r. reflexivity.
  - destruct (spec_step_split _ _ _ Hs) as (Hsp & Hne).
    assert (Hlen : (length rest < length s)%nat).
    { rewrite Hsp, app_length. destruct (s_raw t); [congruence | cbn; lia]. }
    destruct f as [|f]; [lia|]. destruct s as [|x s']; [cbn in Hlen; lia|].
    cbn [spec_lex_fuel]. rewrite Hs. destruct (s_raw t) eqn:Er; [congruence|].
    destruct (spec_advance l c (z :: l0)) as [l' c'].
    destruct (IH f l' c' (at_pos t l c :: acc)) as (r & Hr & Hm); [cbn [length] in *; lia|].
    exists r. split; [exact Hr|]. rewrite Hm. cbn [rev]. rewrite map_app. cbn [map].
    rewrite unpos_at_pos, (spec_step_unpos _ _ _ Hs). rewrite <- app_assoc. reflexivity.
Qed.

Lemma chain_spec_toks src ts : crlf_only src = true -> chain src ts -> spec_toks src = Some ts.
Proof.
  intros Hcr Hc. unfold spec_toks, spec_lex. rewrite Hcr.
  destruct (chain_fuel _ _ Hc (length src) 0 0 [] (le_n _)) as (r & -> & Hm). cbn in Hm. rewrite Hm. reflexivity.
Qed.

(* ---------- carriage returns *)
Definition hd10 (r : list Z) : bool := match r with c :: _ => c =? 10 | [] => false end.

Lemma crlf_only_cons c r : crlf_only (c :: r) = (if c =? 13 then hd10 r else true) && crlf_only r.
Proof. cbn [crlf_only]. destruct (c =? 13); [|reflexivity]. destruct r as [|d r]; [reflexivity|]. cbn [hd10]. zlit d. Qed.

Lemma crlf_only_suffix a : forall b, crlf_only (a ++ b) = true -> crlf_only b = true.
Proof.
  induction a as [|c a IH]; intros b H; [exact H|]. cbn [app] in H. rewrite crlf_only_cons in H.
  apply andb_true_iff in H. apply IH, H.
Qed.

(* no carriage return at the very end *)
Definition no_final_cr (a : list Z) : Prop := forall p, a <> p ++ [13].

Lemma crlf_only_app a : forall b, crlf_only a = true -> no_final_cr a -> crlf_only b = true -> crlf_only (a ++ b) = true.
Proof.
  induction a as [|c a IH]; intros b Ha Hn Hb; [exact Hb|]. cbn [app]. rewrite crlf_only_cons in *.
  apply andb_true_iff in Ha. destruct Ha as [H1 H2]. apply andb_true_iff. split.
  - destruct (c =? 13) eqn:Ec; [|reflexivity]. destruct a as [|d a]; [|exact H1].
    apply Z.eqb_eq in Ec. subst c. exfalso. apply (Hn []). reflexivity.
  - apply IH; [exact H2 | | exact Hb]. intros p E. apply (Hn (c :: p)). rewrite E. reflexivity.
Qed.

Lemma crlf_only_prefix a : forall b, crlf_only (a ++ b) = true -> no_final_cr a -> crlf_only a = true.
Proof.
  induction a as [|c a IH]; intros b H Hn; [reflexivity|]. cbn [app] in H. rewrite crlf_only_cons in *.
  apply andb_true_iff in H. destruct H as [H1 H2]. apply andb_true_iff. split.
  - destruct (c =? 13) eqn:Ec; [|reflexivity]. destruct a as [|d a]; [|exact H1].
    apply Z.eqb_eq in Ec. subst c. exfalso. apply (Hn []). reflexivity.
  - eapply IH; [exact H2|]. intros p E. apply (Hn (c :: p)). rewrite E. reflexivity.
Qed.

Lemma no_final_cr_last a c : c <> 13 -> no_final_cr (a ++ [c]).
Proof. intros Hc p E. apply app_inj_tail in E. destruct E as [_ E]. congruence. Qed.

Lemma no_cr_crlf a : forallb (fun c => negb (c =? 13)) a = true -> crlf_only a = true /\ no_final_cr a.
Proof.
  intros H. split.
  - induction a as [|c a IH]; [reflexivity|]. cbn [forallb] in H. apply andb_true_iff in H. destruct H as [Hc Ha].
    rewrite crlf_only_cons. apply negb_true_iff in Hc. rewrite Hc. apply IH, Ha.
  - intros p E. subst a. rewrite forallb_app in H. apply andb_true_iff in H. destruct H as [_ H]. cbn in H. discriminate.
Qed.
