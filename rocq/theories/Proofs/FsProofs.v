(* C11 - soundness of the trace monitor, and safety of the to_file protocol model (and of the
   command-line paths ending in it) for every fault index and every chunk list. *)
From PV Require Import Base.Prelude Spec.BuildSpec Spec.FsSem Instances.HoldsC11 Model.FsProto Model.FsProtoInst
  Generated.T_file_proto Generated.T_p8_proto Generated.T_png_proto.

(* ---------- pins: the shape of the real code the model mirrors ---------- *)
(* to_file: formatter chosen first; temporary file; exists(); encoder; seek; only then open(filename); write(read()) *)
Lemma pin_to_file_skeleton :
  to_file_skeleton =
  ["formatter_for_filename"%bs : bytes; "with"%bs : bytes; "tempfile.TemporaryFile"%bs : bytes; "if"%bs : bytes;
   "kwargs.get"%bs : bytes; "if"%bs : bytes; "path.exists"%bs : bytes; "fmt.to_file"%bs : bytes;
   "outfh.seek"%bs : bytes; "with"%bs : bytes; "open"%bs : bytes; "finalfh.write"%bs : bytes; "outfh.read"%bs : bytes].
Proof. reflexivity. Qed.

Lemma pin_to_file_modes : to_file_modes = ["wb+"%bs : bytes].
Proof. reflexivity. Qed.

Lemma pin_formatters : formatters_order = [".p8.png"%bs : bytes; ".p8"%bs : bytes; ".rom"%bs : bytes].
Proof. reflexivity. Qed.

(* the .p8 encoder only ever calls outstr.write (it opens nothing), and re-parses the transformed Lua
   (Lua.from_lines) after the two header writes and before the __lua__ section is written *)
Lemma pin_p8_encoder :
  p8_to_file_skeleton =
  ["outstr.write"%bs : bytes; "outstr.write"%bs : bytes; "Lua.from_lines"%bs : bytes; "lua.to_lines"%bs : bytes;
   "outstr.write"%bs : bytes; "for"%bs : bytes; "lua.to_lines"%bs : bytes; "outstr.write"%bs : bytes; "outstr.write"%bs : bytes;
   "outstr.write"%bs : bytes; "for"%bs : bytes; "gfx.to_lines"%bs : bytes; "outstr.write"%bs : bytes;
   "outstr.write"%bs : bytes; "for"%bs : bytes; "label.to_lines"%bs : bytes; "outstr.write"%bs : bytes;
   "outstr.write"%bs : bytes; "outstr.write"%bs : bytes; "for"%bs : bytes; "gff.to_lines"%bs : bytes; "outstr.write"%bs : bytes;
   "outstr.write"%bs : bytes; "for"%bs : bytes; "map.to_lines"%bs : bytes; "outstr.write"%bs : bytes;
   "outstr.write"%bs : bytes; "for"%bs : bytes; "sfx.to_lines"%bs : bytes; "outstr.write"%bs : bytes;
   "outstr.write"%bs : bytes; "for"%bs : bytes; "music.to_lines"%bs : bytes; "outstr.write"%bs : bytes;
   "outstr.write"%bs : bytes].
Proof. reflexivity. Qed.

(* the .p8.png encoder opens one file (the label picture, for reading), encodes, and writes through png.Writer *)
Lemma pin_png_encoder :
  png_to_file_skeleton =
  ["try"%bs : bytes; "with"%bs : bytes; "open"%bs : bytes; "png.Reader"%bs : bytes; "r.read"%bs : bytes; "raise"%bs : bytes;
   "lua.to_lines"%bs : bytes; "get_bytes_from_code"%bs : bytes; "gfx.to_bytes"%bs : bytes; "map.to_bytes"%bs : bytes;
   "gff.to_bytes"%bs : bytes; "music.to_bytes"%bs : bytes; "sfx.to_bytes"%bs : bytes; "bytes"%bs : bytes;
   "get_pngdata_from_picodata"%bs : bytes; "png.Writer"%bs : bytes; "wr.write"%bs : bytes].
Proof. reflexivity. Qed.

(* ---------- byte-string equality ---------- *)
Lemma zlist_eqb_refl a : zlist_eqb a a = true.
Proof. apply zlist_eqb_eq. reflexivity. Qed.

Lemma zlist_eqb_sym a b : zlist_eqb a b = zlist_eqb b a.
Proof.
  destruct (zlist_eqb a b) eqn:E1, (zlist_eqb b a) eqn:E2; try reflexivity.
  - apply zlist_eqb_eq in E1. subst. rewrite zlist_eqb_refl in E2. discriminate.
  - apply zlist_eqb_eq in E2. subst. rewrite zlist_eqb_refl in E1. discriminate.
Qed.

Lemma upd_same fs p v : upd fs p v p = v.
Proof. unfold upd. rewrite zlist_eqb_refl. reflexivity. Qed.

Lemma upd_other fs p v q : zlist_eqb p q = false -> upd fs p v q = fs q.
Proof. unfold upd. rewrite zlist_eqb_sym. intros ->. reflexivity. Qed.

(* ---------- handles ---------- *)
Lemma hlookup_hremove_same hs h : hlookup (hremove hs h) h = None.
Proof.
  induction hs as [|[k v] hs IH]; cbn; [reflexivity|].
  destruct (k =? h) eqn:E; [exact IH|]. cbn. rewrite E. exact IH.
Qed.

Lemma hlookup_hremove hs h k v : hlookup (hremove hs h) k = Some v -> hlookup hs k = Some v.
Proof.
  induction hs as [|[k0 v0] hs IH]; cbn; [discriminate|].
  destruct (k0 =? h) eqn:E0.
  - intros H. destruct (k0 =? k) eqn:E1.
    + apply Z.eqb_eq in E0, E1. subst. rewrite hlookup_hremove_same in H. discriminate H.
    + apply IH. exact H.
  - cbn. destruct (k0 =? k); [tauto | exact IH].
Qed.

(* ---------- monitor soundness ---------- *)
Definition no_handle_on (dest : path) (hs : list (handle * hkind)) : Prop :=
  forall h p, hlookup hs h = Some (HFile p) -> zlist_eqb p dest = false.

Lemma step_preserves dest (st : state) (o : op bytes) v :
  touches dest o = false ->
  st_fs st dest = v -> no_handle_on dest (st_handles st) ->
  st_fs (exec_op st o) dest = v /\ no_handle_on dest (st_handles (exec_op st o)).
Proof.
  intros Ht Hv Hh. destruct o; cbn [exec_op touches] in *.
  - (* OpenTemp *) split; [exact Hv|]. intros k p. cbn. destruct (h =? k); [discriminate|].
    intros H. apply hlookup_hremove in H. eapply Hh; eassumption.
  - split; assumption.
  - (* OpenWrite *) split.
    + cbn. rewrite upd_other by exact Ht. exact Hv.
    + intros k q. cbn. destruct (h =? k).
      * intros [= <-]. exact Ht.
      * intros H. apply hlookup_hremove in H. eapply Hh; eassumption.
  - (* Write *) destruct (hlookup (st_handles st) h) as [[c|p]|] eqn:El.
    + split; [exact Hv|]. intros k q. cbn. destruct (h =? k); [discriminate|].
      intros H. apply hlookup_hremove in H. eapply Hh; eassumption.
    + split; [|exact Hh]. cbn. rewrite upd_other; [exact Hv|]. eapply Hh; eassumption.
    + split; assumption.
  - split; assumption.
  - split; assumption.
  - (* Close *) split; [exact Hv|]. intros k q H. cbn in H. apply hlookup_hremove in H. eapply Hh; eassumption.
  - (* Remove *) split; [|exact Hh]. cbn. rewrite upd_other by exact Ht. exact Hv.
  - (* Rename *) apply orb_false_iff in Ht. destruct Ht as [Hp Hq].
    destruct (zlist_eqb p q); [split; assumption|].
    split; [|exact Hh]. cbn. rewrite upd_other by exact Hp. rewrite upd_other by exact Hq. exact Hv.
  - split; assumption.
  - split; assumption.
Qed.

Lemma safe_prefix_untouched {D} dest (a r : list (op D)) :
  safe dest (a ++ r) = true -> encoder_done a = false ->
  forallb (fun o => negb (touches dest o)) a = true.
Proof.
  induction a as [|o a IH]; cbn; [reflexivity|].
  destruct (is_done o); cbn; [discriminate|].
  intros H1 H2. apply andb_true_iff in H1. destruct H1 as [H1 H3].
  rewrite H1. cbn. apply IH; assumption.
Qed.

Lemma exec_untouched dest (tr : list (op bytes)) : forall st v,
  forallb (fun o => negb (touches dest o)) tr = true ->
  st_fs st dest = v -> no_handle_on dest (st_handles st) ->
  st_fs (exec_from st tr) dest = v.
Proof.
  induction tr as [|o tr IH]; intros st v H Hv Hh; cbn in *; [exact Hv|].
  apply andb_true_iff in H. destruct H as [H1 H2]. apply negb_true_iff in H1.
  destruct (step_preserves dest st o v H1 Hv Hh) as [Hv' Hh'].
  apply IH; assumption.
Qed.

(* if the monitor accepts a trace, then at every point of the run at which the encoder has not yet
   finished, the destination holds exactly what it held before the call (bytes, or absence) *)
Theorem safe_sound : forall dest (tr : list (op bytes)),
  safe dest tr = true ->
  forall fs tr', (exists r, tr = tr' ++ r) -> encoder_done tr' = false ->
  exec fs tr' dest = fs dest.
Proof.
  intros dest tr Hs fs tr' [r ->] Hd. unfold exec.
  apply exec_untouched.
  - eapply safe_prefix_untouched; eassumption.
  - reflexivity.
  - intros h p H. discriminate H.
Qed.

(* safe does not depend on the data: a recorded trace (lengths) is safe iff any trace with the same
   operations and real data is *)
Definition op_map {D E} (f : D -> E) (o : op D) : op E :=
  match o with
  | OpenTemp h => OpenTemp h | OpenRead p => OpenRead p | OpenWrite p h => OpenWrite p h
  | Write h d => Write h (f d) | ReadAll h => ReadAll h | Seek h => Seek h | Close h => Close h
  | Remove p => Remove p | Rename p q => Rename p q | EncoderDone => EncoderDone | Raise => Raise
  end.

Lemma safe_op_map {D E} (f : D -> E) dest (tr : list (op D)) :
  safe dest (map (op_map f) tr) = safe dest tr.
Proof.
  induction tr as [|o tr IH]; cbn; [reflexivity|].
  destruct o; cbn; rewrite ?IH; reflexivity.
Qed.

Lemma encoder_done_op_map {D E} (f : D -> E) (tr : list (op D)) :
  encoder_done (map (op_map f) tr) = encoder_done tr.
Proof.
  induction tr as [|o tr IH]; cbn; [reflexivity|]. unfold encoder_done in IH. rewrite IH.
  destruct o; reflexivity.
Qed.

(* the monitor on a recorded run: for any run with real data whose lengths were recorded *)
Theorem holds_C11_sound : forall dest (tr : list (op bytes)) dest_same,
  holds_C11 dest (map (op_map zlen) tr) dest_same = true ->
  (forall fs tr', (exists r, tr = tr' ++ r) -> encoder_done tr' = false -> exec fs tr' dest = fs dest)
  /\ (encoder_done tr = false -> dest_same = true).
Proof.
  intros dest tr ds H. unfold holds_C11 in H. apply andb_true_iff in H. destruct H as [H1 H2].
  rewrite safe_op_map in H1. rewrite encoder_done_op_map in H2. split.
  - apply safe_sound. exact H1.
  - intros Hd. destruct ds; [reflexivity|]. rewrite orb_false_r in H2.
    unfold bytes in *. rewrite Hd in H2. discriminate H2.
Qed.

(* ---------- the to_file protocol ---------- *)
Lemma safe_app_harmless {D} dest (a b : list (op D)) :
  forallb (fun o => negb (touches dest o) && negb (is_done o)) a = true ->
  safe dest (a ++ b) = safe dest b.
Proof.
  induction a as [|o a IH]; cbn; [reflexivity|].
  intros H. apply andb_true_iff in H. destruct H as [H1 H2].
  apply andb_true_iff in H1. destruct H1 as [H1 H3].
  apply negb_true_iff in H3. rewrite H3, H1. cbn. apply IH. exact H2.
Qed.

Lemma harmless_writes {D} dest h (l : list D) :
  forallb (fun o => negb (touches dest o) && negb (is_done o)) (map (Write h) l) = true.
Proof. induction l; cbn; [reflexivity | exact IHl]. Qed.

Lemma harmless_reads {D} dest (l : list path) :
  forallb (fun o : op D => negb (touches dest o) && negb (is_done o)) (map OpenRead l) = true.
Proof. induction l; cbn; [reflexivity | exact IHl]. Qed.

Lemma harmless_label {D} f dest ex lbl :
  forallb (fun o : op D => negb (touches dest o) && negb (is_done o)) (label_reads f dest ex lbl) = true.
Proof. unfold label_reads. destruct f; try reflexivity. destruct lbl; [reflexivity|]. destruct ex; reflexivity. Qed.

Lemma to_file_trace_safe {D} (cat : list D -> D) fmt dest ex lbl chunks fail :
  safe dest (to_file_trace cat fmt dest ex lbl chunks fail) = true.
Proof.
  unfold to_file_trace. destruct fmt as [f|]; [|reflexivity].
  change (OpenTemp h_temp :: ?x) with ([OpenTemp h_temp] ++ x).
  cbn [app safe is_done touches negb andb].
  rewrite safe_app_harmless by apply harmless_label.
  destruct fail as [k|]; rewrite safe_app_harmless by apply harmless_writes; reflexivity.
Qed.

Lemma exec_from_app st a b : exec_from st (a ++ b) = exec_from (exec_from st a) b.
Proof. unfold exec_from. apply fold_left_app. Qed.

Lemma exec_from_reads st (l : list (op bytes)) :
  forallb (fun o => match o with OpenRead _ => true | _ => false end) l = true -> exec_from st l = st.
Proof.
  induction l as [|o l IH]; cbn; [reflexivity|]. intros H. apply andb_true_iff in H. destruct H as [H1 H2].
  destruct o; try discriminate H1. cbn. apply IH. exact H2.
Qed.

Lemma label_reads_only f dest ex lbl :
  forallb (fun o : op bytes => match o with OpenRead _ => true | _ => false end) (label_reads f dest ex lbl) = true.
Proof. unfold label_reads. destruct f; try reflexivity. destruct lbl; [reflexivity|]. destruct ex; reflexivity. Qed.

Lemma map_reads_only (l : list path) :
  forallb (fun o : op bytes => match o with OpenRead _ => true | _ => false end) (map OpenRead l) = true.
Proof. induction l; cbn; [reflexivity | exact IHl]. Qed.

Lemma exec_temp_writes fs h hs c (chunks : list bytes) :
  hlookup hs h = None ->
  exec_from (mkState fs ((h, HTemp c) :: hs)) (map (Write h) chunks)
  = mkState fs ((h, HTemp (c ++ concat chunks)) :: hs).
Proof.
  intros Hn. revert c. induction chunks as [|d chunks IH]; intros c; cbn [map concat].
  - rewrite app_nil_r. reflexivity.
  - cbn [exec_from fold_left exec_op st_handles st_fs hlookup]. rewrite Z.eqb_refl.
    cbn [hremove]. rewrite Z.eqb_refl.
    assert (Hr : hremove hs h = hs).
    { clear IH. induction hs as [|[k v] hs IHh]; cbn in *; [reflexivity|].
      destruct (k =? h); [discriminate Hn|]. f_equal. apply IHh. exact Hn. }
    rewrite Hr. fold (exec_from (mkState fs ((h, HTemp (c ++ d)) :: hs)) (map (Write h) chunks)).
    rewrite IH, app_assoc. reflexivity.
Qed.

(* a failed write (any fault index, any chunks, any label source, any formatter) leaves EVERY path as it was *)
Lemma to_file_fail_exec fmt dest ex lbl (chunks : list bytes) k fs :
  forall p, exec fs (to_file_trace (@concat Z) fmt dest ex lbl chunks (Some k)) p = fs p.
Proof.
  intros p. unfold exec, to_file_trace. destruct fmt as [f|]; [|reflexivity].
  change (OpenTemp h_temp :: ?x) with ([OpenTemp h_temp] ++ x).
  rewrite exec_from_app.
  change (exec_from (mkState fs []) [OpenTemp h_temp]) with (mkState fs [(h_temp, HTemp [])]).
  rewrite exec_from_app.
  rewrite (exec_from_reads _ (label_reads f dest ex lbl)) by apply label_reads_only.
  rewrite exec_from_app.
  rewrite exec_temp_writes by reflexivity. reflexivity.
Qed.

(* an unfaulted write stores the concatenated chunks under dest and changes nothing else *)
Lemma to_file_ok_exec f dest ex lbl (chunks : list bytes) fs :
  forall p, exec fs (to_file_trace (@concat Z) (Some f) dest ex lbl chunks None) p
            = upd fs dest (Some (concat chunks)) p.
Proof.
  intros p. unfold exec, to_file_trace.
  change (OpenTemp h_temp :: ?x) with ([OpenTemp h_temp] ++ x).
  rewrite exec_from_app.
  change (exec_from (mkState fs []) [OpenTemp h_temp]) with (mkState fs [(h_temp, HTemp [])]).
  rewrite exec_from_app.
  rewrite (exec_from_reads _ (label_reads f dest ex lbl)) by apply label_reads_only.
  rewrite exec_from_app.
  rewrite exec_temp_writes by reflexivity.
  cbn. rewrite upd_same. cbn.
  unfold upd. destruct (zlist_eqb p dest); reflexivity.
Qed.

Theorem to_file_model_safe : forall fmt dest ex lbl (chunks : list bytes) k fs,
  safe dest (to_file_trace (@concat Z) fmt dest ex lbl chunks (Some k)) = true
  /\ (forall p, exec fs (to_file_trace (@concat Z) fmt dest ex lbl chunks (Some k)) p = fs p)
  /\ safe dest (to_file_trace (@concat Z) fmt dest ex lbl chunks None) = true
  /\ (forall f, fmt = Some f ->
      forall p, exec fs (to_file_trace (@concat Z) fmt dest ex lbl chunks None) p
                = upd fs dest (Some (concat chunks)) p).
Proof.
  intros. split; [apply to_file_trace_safe|]. split; [apply to_file_fail_exec|].
  split; [apply to_file_trace_safe|]. intros f ->. apply to_file_ok_exec.
Qed.

(* crash consistency: whatever prefix of a to_file run has been executed (fault or not), as long as the
   encoder has not finished the destination is intact *)
Theorem to_file_prefix_intact : forall fmt dest ex lbl (chunks : list bytes) fail fs tr',
  (exists r, to_file_trace (@concat Z) fmt dest ex lbl chunks fail = tr' ++ r) ->
  encoder_done tr' = false -> exec fs tr' dest = fs dest.
Proof.
  intros. eapply safe_sound; [apply to_file_trace_safe | eassumption | assumption].
Qed.

(* the limit of the protocol (and of the property's statement): the final copy is not atomic - between
   open(filename, 'wb+') and the end of finalfh.write the destination is truncated *)
Lemma to_file_copy_window :
  exists (fs : filesys) dest chunks tr',
    (exists r, to_file_trace (@concat Z) (Some FmtP8) dest true None chunks None = tr' ++ r)
    /\ fs dest = Some [1] /\ exec fs tr' dest = Some [].
Proof.
  exists (fun p => if zlist_eqb p "a.p8"%bs then Some [1] else None), ("a.p8"%bs : bytes), [[2]],
         [OpenTemp h_temp; Write h_temp [2]; EncoderDone; Seek h_temp; OpenWrite ("a.p8"%bs : bytes) h_dest].
  split; [eexists; reflexivity|]. split; vm_compute; reflexivity.
Qed.

(* ---------- command-line paths ---------- *)
Lemma process_one_safe {D} (cat : list D -> D) exts overwrite fname incs loads out_exists chunks fail :
  safe (out_fname overwrite fname)
       (process_one_trace cat exts overwrite fname incs loads out_exists chunks fail) = true.
Proof.
  unfold process_one_trace. destruct (negb _ && negb _); [reflexivity|].
  change (OpenRead fname :: ?x) with (map (@OpenRead D) [fname] ++ x).
  rewrite !safe_app_harmless by apply harmless_reads.
  destruct loads; [apply to_file_trace_safe | reflexivity].
Qed.

Lemma process_one_fail_exec exts overwrite fname incs loads out_exists (chunks : list bytes) k fs :
  forall p, exec fs (process_one_trace (@concat Z) exts overwrite fname incs loads out_exists chunks (Some k)) p = fs p.
Proof.
  intros p. unfold process_one_trace. destruct (negb _ && negb _); [reflexivity|].
  change (OpenRead fname :: ?x) with (map (@OpenRead bytes) [fname] ++ x).
  unfold exec. rewrite exec_from_app. rewrite (exec_from_reads _ (map OpenRead [fname])) by apply map_reads_only.
  rewrite exec_from_app. rewrite (exec_from_reads _ (map OpenRead incs)) by apply map_reads_only.
  destruct loads; [apply to_file_fail_exec | reflexivity].
Qed.

(* luafmt --overwrite on a .p8 writes over its input *)
Lemma out_fname_overwrite fname : ends_with fname ".p8"%bs = true -> out_fname true fname = fname.
Proof. unfold out_fname. intros ->. reflexivity. Qed.

Lemma build_trace_safe {D} (cat : list D -> D) exts out out_exists sources writes chunks fail :
  safe out (build_trace cat exts out out_exists sources writes chunks fail) = true.
Proof.
  unfold build_trace.
  assert (H : forallb (fun o : op D => negb (touches out o) && negb (is_done o))
                      (if out_exists then [OpenRead out] else []) = true) by (destruct out_exists; reflexivity).
  rewrite safe_app_harmless by exact H.
  rewrite safe_app_harmless by apply harmless_reads.
  destruct writes; [apply to_file_trace_safe | reflexivity].
Qed.

Lemma build_fail_exec exts out out_exists sources writes (chunks : list bytes) k fs :
  forall p, exec fs (build_trace (@concat Z) exts out out_exists sources writes chunks (Some k)) p = fs p.
Proof.
  intros p. unfold build_trace, exec. rewrite exec_from_app.
  assert (H : forallb (fun o : op bytes => match o with OpenRead _ => true | _ => false end)
                      (if out_exists then [OpenRead out] else []) = true) by (destruct out_exists; reflexivity).
  rewrite (exec_from_reads _ _ H). rewrite exec_from_app.
  rewrite (exec_from_reads _ (map OpenRead sources)) by apply map_reads_only.
  destruct writes; [apply to_file_fail_exec | reflexivity].
Qed.

(* ====================================================================================================
   The stronger monitor [quiet]: while a cart is being encoded the WHOLE file system is frozen.
   ==================================================================================================== *)
Definition kind_flag (k : hkind) : bool := match k with HFile _ => true | HTemp _ => false end.
Definition habs (hs : list (handle * hkind)) : list (handle * bool) :=
  map (fun x => (fst x, kind_flag (snd x))) hs.

Lemma habs_lookup hs h : qlookup (habs hs) h = option_map kind_flag (hlookup hs h).
Proof.
  induction hs as [|[k v] hs IH]; cbn; [reflexivity|]. destruct (k =? h); [reflexivity | exact IH].
Qed.

Lemma habs_remove hs h : habs (hremove hs h) = qremove (habs hs) h.
Proof.
  induction hs as [|[k v] hs IH]; cbn; [reflexivity|]. destruct (k =? h); cbn; [exact IH | f_equal; exact IH].
Qed.

(* one step: the monitor's handle table follows the semantics; while encoding, no path changes *)
Lemma qstep_sim (st : state) enc (o : op bytes) q' :
  qstep (habs (st_handles st), enc) o = Some q' ->
  fst q' = habs (st_handles (exec_op st o))
  /\ (enc = true -> forall p, st_fs (exec_op st o) p = st_fs st p)
  /\ (enc = true -> is_done o = false -> snd q' = true).
Proof.
  assert (T : forall (P Q R : Prop), P -> Q -> R -> P /\ Q /\ R) by tauto.
  destruct o; cbn [qstep exec_op is_done].
  - intros [= <-]. cbn. rewrite habs_remove. apply T; auto.
  - intros [= <-]. apply T; auto.
  - destruct enc; [discriminate|]. intros [= <-]. cbn. rewrite habs_remove.
    apply T; [reflexivity | discriminate | discriminate].
  - rewrite habs_lookup. destruct (hlookup (st_handles st) h) as [[c|p]|] eqn:El; cbn [option_map kind_flag].
    + intros [= <-]. cbn. rewrite habs_remove. apply T; auto.
    + destruct enc; [discriminate|]. intros [= <-]. cbn. apply T; [reflexivity | discriminate | discriminate].
    + intros [= <-]. apply T; auto.
  - intros [= <-]. apply T; auto.
  - intros [= <-]. apply T; auto.
  - intros [= <-]. cbn. rewrite habs_remove. apply T; auto.
  - destruct enc; [discriminate|]. intros [= <-]. cbn. apply T; [reflexivity | discriminate | discriminate].
  - destruct enc; [discriminate|]. intros [= <-]. destruct (zlist_eqb p q); cbn;
      (apply T; [reflexivity | discriminate | discriminate]).
  - intros [= <-]. cbn. apply T; auto; try (intros _ H; discriminate H).
  - intros [= <-]. apply T; auto.
Qed.

Lemma qrun_sim (tr : list (op bytes)) : forall st enc q',
  qrun (habs (st_handles st), enc) tr = Some q' ->
  fst q' = habs (st_handles (exec_from st tr)).
Proof.
  induction tr as [|o tr IH]; intros st enc q'; cbn [qrun exec_from fold_left].
  - intros [= <-]. reflexivity.
  - destruct (qstep (habs (st_handles st), enc) o) as [[hs1 e1]|] eqn:E; [|discriminate].
    destruct (qstep_sim st enc o _ E) as (H1 & _ & _). cbn in H1. subst hs1.
    apply IH.
Qed.

Lemma qrun_frozen (tr : list (op bytes)) : forall st q',
  qrun (habs (st_handles st), true) tr = Some q' -> encoder_done tr = false ->
  forall p, st_fs (exec_from st tr) p = st_fs st p.
Proof.
  induction tr as [|o tr IH]; intros st q' Hq Hd p; cbn [qrun exec_from fold_left] in *; [reflexivity|].
  cbn in Hd. apply orb_false_iff in Hd. destruct Hd as [Hd1 Hd2].
  destruct (qstep (habs (st_handles st), true) o) as [[hs1 e1]|] eqn:E; [|discriminate].
  destruct (qstep_sim st true o _ E) as (H1 & H2 & H3). cbn in H1, H3. subst hs1.
  rewrite (H3 eq_refl Hd1) in Hq.
  fold (exec_from (exec_op st o) tr). rewrite (IH _ _ Hq Hd2 p). apply H2. reflexivity.
Qed.

Lemma qrun_app {D} (a b : list (op D)) q :
  qrun q (a ++ b) = match qrun q a with Some q' => qrun q' b | None => None end.
Proof.
  revert q. induction a as [|o a IH]; intros q; cbn; [reflexivity|].
  destruct (qstep q o); [apply IH | reflexivity].
Qed.

(* from the moment an encoder starts (OpenTemp) until it is done, no path of the file system changes -
   whatever happened before (other carts written, handles open), for every prefix *)
Theorem quiet_sound : forall (tr : list (op bytes)), quiet tr = true ->
  forall fs a h b r, tr = a ++ OpenTemp h :: b ++ r -> encoder_done b = false ->
  forall p, exec fs (a ++ OpenTemp h :: b) p = exec fs a p.
Proof.
  intros tr Hq fs a h b r -> Hd p. unfold quiet in Hq.
  rewrite qrun_app in Hq.
  destruct (qrun ([], false) a) as [[hsa ea]|] eqn:Ea; [|discriminate].
  change (@nil (handle * bool)) with (habs (st_handles (mkState fs []))) in Ea.
  pose proof (qrun_sim a _ _ _ Ea) as Ha. cbn in Ha. subst hsa.
  change (OpenTemp h :: b ++ r) with ([OpenTemp h] ++ b ++ r) in Hq.
  rewrite qrun_app in Hq. cbn [qrun qstep] in Hq. rewrite <- habs_remove in Hq.
  rewrite qrun_app in Hq.
  set (sta := exec_from (mkState fs []) a) in *.
  change ((h, false) :: habs (hremove (st_handles sta) h)) with (habs (st_handles (exec_op sta (OpenTemp h)))) in Hq.
  destruct (qrun (habs (st_handles (exec_op sta (OpenTemp h))), true) b) as [qb|] eqn:Eb; [|discriminate].
  unfold exec. rewrite exec_from_app. fold sta.
  change (OpenTemp h :: b) with ([OpenTemp h] ++ b). rewrite exec_from_app.
  change (exec_from sta [OpenTemp h]) with (exec_op sta (OpenTemp h)).
  rewrite (qrun_frozen b _ _ Eb Hd p). reflexivity.
Qed.

(* ---------- the protocol model is quiet ---------- *)
Lemma qrun_reads {D} (l : list path) q : qrun q (map (@OpenRead D) l) = Some q.
Proof. induction l; cbn; [reflexivity|]. destruct q. exact IHl. Qed.

Lemma qrun_label {D} f dest ex lbl q : qrun q (label_reads (D:=D) f dest ex lbl) = Some q.
Proof.
  unfold label_reads. destruct q. destruct f; try reflexivity. destruct lbl; [reflexivity|]. destruct ex; reflexivity.
Qed.

Lemma qrun_temp_writes {D} h hs enc (l : list D) :
  qlookup hs h = None ->
  qrun ((h, false) :: hs, enc) (map (Write h) l) = Some ((h, false) :: hs, enc).
Proof.
  intros Hn. induction l as [|d l IH]; cbn [map qrun qstep qlookup]; [reflexivity|].
  rewrite Z.eqb_refl. cbn [qremove]. rewrite Z.eqb_refl.
  assert (Hr : qremove hs h = hs).
  { clear IH. induction hs as [|[k v] hs IHh]; cbn in *; [reflexivity|].
    destruct (k =? h); [discriminate Hn|]. f_equal. apply IHh. exact Hn. }
  rewrite Hr. exact IH.
Qed.

(* a to_file run started with no open handle and no encoder running: accepted, and it ends with no open
   handle; a failed run ends "still encoding" (the command is over), a complete one "not encoding" *)
Lemma to_file_qrun {D} (cat : list D -> D) fmt dest ex lbl chunks fail enc0 :
  qrun ([], enc0) (to_file_trace cat fmt dest ex lbl chunks fail)
  = Some ([], match fmt, fail with
              | None, _ => enc0
              | Some _, Some _ => true
              | Some _, None => false
              end).
Proof.
  unfold to_file_trace. destruct fmt as [f|]; [|reflexivity].
  change (OpenTemp h_temp :: ?x) with ([OpenTemp h_temp] ++ x).
  rewrite qrun_app. cbn [qrun qstep qremove].
  rewrite qrun_app, qrun_label.
  destruct fail as [k|]; rewrite qrun_app, qrun_temp_writes by reflexivity; reflexivity.
Qed.

Theorem to_file_quiet {D} (cat : list D -> D) fmt dest ex lbl chunks fail :
  quiet (to_file_trace cat fmt dest ex lbl chunks fail) = true.
Proof. unfold quiet. rewrite to_file_qrun. reflexivity. Qed.

Lemma process_one_qrun {D} (cat : list D -> D) exts ow fname incs loads oex chunks fail enc0 :
  exists e, qrun ([], enc0) (process_one_trace cat exts ow fname incs loads oex chunks fail) = Some ([], e)
            /\ (fail = None -> aborts exts ow (mkCartIn fname incs loads oex chunks) = false -> enc0 = false -> e = false).
Proof.
  unfold process_one_trace, aborts. cbn [ci_fname ci_loads].
  destruct (negb (ends_with fname ".p8.png"%bs) && negb (ends_with fname ".p8"%bs)).
  { exists enc0. split; [reflexivity | auto]. }
  change (OpenRead fname :: ?x) with (map (@OpenRead D) [fname] ++ x).
  rewrite qrun_app, qrun_reads, qrun_app, qrun_reads.
  destruct loads.
  - rewrite to_file_qrun. eexists. split; [reflexivity|].
    intros -> Ha ->. cbn in Ha. destruct (formatter_for_filename exts (out_fname ow fname)); [reflexivity | discriminate Ha].
  - exists enc0. split; [reflexivity | auto].
Qed.

Theorem process_many_quiet {D} (cat : list D -> D) exts ow files : forall fail,
  quiet (process_many_trace cat exts ow files fail) = true.
Proof.
  unfold quiet.
  assert (H : forall fail, exists e, qrun ([], false) (process_many_trace cat exts ow files fail) = Some ([], e)).
  { induction files as [|c files IH]; intros fail; cbn [process_many_trace].
    - exists false. reflexivity.
    - destruct c as [fname incs loads oex chunks].
      cbn [ci_fname ci_incs ci_loads ci_out_exists ci_chunks].
      destruct (aborts exts ow (mkCartIn fname incs loads oex chunks)) eqn:Ea.
      + destruct (process_one_qrun cat exts ow fname incs loads oex chunks None false) as (e & He & _).
        exists e. exact He.
      + destruct fail as [k|].
        * destruct (Nat.ltb k _).
          -- destruct (process_one_qrun cat exts ow fname incs loads oex chunks (Some k) false) as (e & He & _).
             exists e. exact He.
          -- destruct (process_one_qrun cat exts ow fname incs loads oex chunks None false) as (e & He & Hf).
             rewrite qrun_app, He, (Hf eq_refl Ea eq_refl). apply IH.
        * destruct (process_one_qrun cat exts ow fname incs loads oex chunks None false) as (e & He & Hf).
          rewrite qrun_app, He, (Hf eq_refl Ea eq_refl). apply IH. }
  intros fail. destruct (H fail) as (e & ->). reflexivity.
Qed.

Theorem build_quiet {D} (cat : list D -> D) exts out oex sources writes chunks fail :
  quiet (build_trace cat exts out oex sources writes chunks fail) = true.
Proof.
  unfold quiet, build_trace.
  assert (H : (if oex then [OpenRead out] else []) = map (@OpenRead D) (if oex then [out] else [])) by (destruct oex; reflexivity).
  rewrite H, qrun_app, qrun_reads, qrun_app, qrun_reads.
  destruct writes; [rewrite to_file_qrun; reflexivity | reflexivity].
Qed.
