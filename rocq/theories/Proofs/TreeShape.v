(* Shape of the trees the parser model builds (definitions and basic lemmas; no property theorems).

   The rich tree of Model/Parser.v carries a leaf for every accepted token.  Two predicates say what the
   parser guarantees about it, in the form the writer walk (Model/AstWriter.v) needs:

   span x c c'     positions: x was built by a run of the parser from cursor c to cursor c'; every leaf i of x
                   is the first significant token at or after the cursor at that moment ([i] = sig cur (i+1)),
                   the cursor after a leaf i is i + 1, and the end position of a node is the cursor after its
                   last field.  (So the end of a node is 0 or one past a significant token, never inside a run
                   of white space that belongs to it.)
   shaped k x      kinds: x is a node of syntactic category k whose fields are, in order, exactly the hidden
                   keyword / symbol leaves (with the pattern each was accepted with), token leaves (with their
                   class) and sub-nodes (with their category) that the parse function for that class produces.
                   The predicate is as loose as the parser: forms the parser accepts although the writer cannot
                   handle them (see Model/WriterDomain.v) are included without detail.

   Proofs/ParserShape.v shows that lua_parse produces spanned, shaped trees; Proofs/AstWriterAligned.v shows
   that the writer walk on such a tree (inside the domain) re-emits exactly its leaves. *)
From PV Require Import Base.Prelude Base.PySlice Spec.LuaTokens Spec.LuaGrammar Model.Tokens Model.Parser Model.WriterDomain
  Proofs.ParserProofs.
From Coq Require Import ZifyBool.
Ltac Zify.zify_post_hook ::= Z.to_euclidean_division_equations.

Inductive cat : Set :=
| cChunk | cStat | cExp | cPrefix | cArgs | cFunc | cBody | cDots | cTable | cField
| cNameList | cFuncName | cExpList | cVarList.

Section Shape.
Variable ts : list token.
Variables binops unops : list pat.

Local Notation tok_at := (ParserProofs.tok_at ts).
Local Notation sig := (ParserProofs.sig ts).

(* ------------------------------------------------------------------ positions *)
Inductive span : tree -> Z -> Z -> Prop :=
| sp_kw i c : [i] = sig c (i + 1) -> span (Kw i) c (i + 1)
| sp_tok i t c : [i] = sig c (i + 1) -> span (Tok i t) c (i + 1)
| sp_node tag s e sh fs c : spans fs c e -> span (Node tag s e sh fs) c e
| sp_lst l c c' : spans l c c' -> span (Lst l) c c'
| sp_paren i j x c m : [i] = sig c (i + 1) -> span x (i + 1) m -> [j] = sig m (j + 1) -> span (Paren i j x) c (j + 1)
| sp_hid x c c' : span x c c' -> span (Hid x) c c'
| sp_none c : span PNone c c
| sp_bool b c : span (PBool b) c c
| sp_bytes b c : span (PBytes b) c c
with spans : list tree -> Z -> Z -> Prop :=
| sps_nil c : spans [] c c
| sps_cons x r c m c' : span x c m -> spans r m c' -> spans (x :: r) c c'.

Scheme span_mind := Induction for span Sort Prop
  with spans_mind := Induction for spans Sort Prop.

Lemma spans_app a b c m c' : spans a c m -> spans b m c' -> spans (a ++ b) c c'.
Proof.
  revert c. induction a as [|x a IH]; intros c Ha Hb; cbn [app].
  - inversion Ha; subst. exact Hb.
  - inversion Ha; subst. eapply sps_cons; [eassumption|]. apply IH; assumption.
Qed.

Lemma spans_app_inv a b c c' : spans (a ++ b) c c' -> exists m, spans a c m /\ spans b m c'.
Proof.
  revert c. induction a as [|x a IH]; intros c H; cbn [app] in H.
  - exists c. split; [constructor | exact H].
  - inversion H as [|x0 r0 c0 m0 c0' Hx Hr]; subst. destruct (IH _ Hr) as (m' & Ha & Hb). exists m'.
    split; [econstructor; eassumption | exact Hb].
Qed.

Lemma sig_one_bounds i c : [i] = sig c (i + 1) -> c <= i.
Proof.
  intros H. assert (Hin : In i (sig c (i + 1))) by (rewrite <- H; left; reflexivity).
  apply sig_bounds in Hin. lia.
Qed.

Lemma span_le x c c' : span x c c' -> c <= c'.
Proof.
  revert x c c'.
  apply (span_mind (fun x c c' _ => c <= c') (fun l c c' _ => c <= c')); intros;
    repeat (match goal with H : [_] = sig _ _ |- _ => apply sig_one_bounds in H end); lia.
Qed.

Lemma spans_le l c c' : spans l c c' -> c <= c'.
Proof.
  induction 1 as [c | x r c m c' Hx Hr IH]; [lia|]. apply span_le in Hx. lia.
Qed.

(* the leaves of a spanned tree are the significant tokens of the stretch it spans *)
Lemma span_leaves x c c' : span x c c' -> leaves x = sig c c'.
Proof.
  revert x c c'.
  apply (span_mind (fun x c c' _ => leaves x = sig c c') (fun l c c' _ => flat_map leaves l = sig c c'));
    intros; cbn [leaves flat_map]; try assumption; try (symmetry; apply sig_nil; lia).
  - match goal with
    | Hi : [i] = sig c (i + 1), Hx : span x (i + 1) m, Hj : [j] = sig m (j + 1), IHx : leaves x = _ |- _ =>
        pose proof (sig_one_bounds _ _ Hi); pose proof (span_le _ _ _ Hx); pose proof (sig_one_bounds _ _ Hj);
        rewrite IHx, Hi, Hj; rewrite sig_app by lia; rewrite sig_app by lia; reflexivity
    end.
  - match goal with
    | Hx : span x c m, Hr : spans r m c', IH1 : leaves x = _, IH2 : flat_map leaves r = _ |- _ =>
        rewrite IH1, IH2; apply sig_app; [eapply span_le; eassumption | eapply spans_le; eassumption]
    end.
Qed.

Lemma spans_leaves l c c' : spans l c c' -> flat_map leaves l = sig c c'.
Proof.
  induction 1 as [c | x r c m c' Hx Hr IH]; cbn [flat_map]; [symmetry; apply sig_nil; lia|].
  rewrite (span_leaves _ _ _ Hx), IH. apply sig_app; [eapply span_le; eassumption | eapply spans_le; eassumption].
Qed.

(* ------------------------------------------------------------------ token atoms *)
(* token i was accepted with pattern p *)
Definition mtok (p : pat) (i : Z) : Prop := exists t, tok_at i = Some t /\ matches t p = true.
(* the tree's token object t is token i and has class k *)
Definition ctok (k : kclass) (i : Z) (t : token) : Prop := tok_at i = Some t /\ matches t (PClass k) = true.
(* ... and matched one of the operator patterns ps *)
Definition optok (ps : list pat) (i : Z) (t : token) : Prop := tok_at i = Some t /\ existsb (matches t) ps = true.
(* the token at position e, if any, is not `;` *)
Definition semi_free (e : Z) : Prop := forall t, tok_at e = Some t -> matches t (psym ";"%bs) = false.

Definition name_leaf (x : tree) : Prop := exists i t, x = Tok i t /\ ctok CName i t.
Definition str_leaf (x : tree) : Prop := exists i t, x = Tok i t /\ ctok CString i t.

(* ------------------------------------------------------------------ list forms *)
(* {sep item} *)
Inductive seplist (P : tree -> Prop) (sep : pat) : list tree -> Prop :=
| sl_nil : seplist P sep []
| sl_cons c x r : mtok sep c -> P x -> seplist P sep r -> seplist P sep (Kw c :: x :: r).

Definition fsep (c : Z) : Prop := mtok (psym ","%bs) c \/ mtok (psym ";"%bs) c.

(* {fieldsep field} [fieldsep] *)
Inductive fieldtail (P : tree -> Prop) : list tree -> Prop :=
| ft_nil : fieldtail P []
| ft_last c f : fsep c -> is_none f = true -> fieldtail P [Kw c; Hid f]
| ft_cons c f r : fsep c -> P f -> fieldtail P r -> fieldtail P (Kw c :: f :: r).

Inductive tfields (P : tree -> Prop) : list tree -> Prop :=
| tf_hid f r : is_none f = true -> fieldtail P r -> tfields P (Hid f :: r)
| tf_fld f r : P f -> fieldtail P r -> tfields P (f :: r).

(* statements and `;` *)
Inductive stat_item (P : tree -> Prop) : tree -> Prop :=
| si_semi i : mtok (psym ";"%bs) i -> stat_item P (Kw i)
| si_stat x : P x -> stat_item P x.

(* {elseif exp then block} *)
Inductive elseifs (PE PC : tree -> Prop) : list tree -> Prop :=
| ei_nil : elseifs PE PC []
| ei_cons a e t b r : mtok (pkw "elseif"%bs) a -> (is_none e = false -> PE e) -> mtok (pkw "then"%bs) t -> PC b ->
    elseifs PE PC r -> elseifs PE PC (Kw a :: Lst [e; Kw t; b] :: r).

(* [else block] of the long form *)
Inductive elsepart (PC : tree -> Prop) : list tree -> Prop :=
| ep_nil : elsepart PC []
| ep_else i b : mtok (pkw "else"%bs) i -> PC b -> elsepart PC [Kw i; Lst [PNone; b]].

(* [else block] of the one-line form: an else branch without statements (only `;`) is dropped from the pairs *)
Inductive shortelse (PC : tree -> Prop) : list tree -> Prop :=
| se_nil : shortelse PC []
| se_else i b : mtok (pkw "else"%bs) i -> PC b -> shortelse PC [Kw i; Lst [PNone; b]]
| se_dropped i b : mtok (pkw "else"%bs) i -> PC b -> chunk_has_stats b = false -> shortelse PC [Kw i; Hid b].

(* ------------------------------------------------------------------ kinds *)
Inductive shaped : cat -> tree -> Prop :=
(* ---- chunk ---- *)
| sh_chunk s e l : Forall (stat_item (shaped cStat)) l -> semi_free e -> shaped cChunk (Node tChunk s e false [Lst l])
(* ---- statements ---- *)
| sh_assign s e vl oi ot el : shaped cVarList vl -> optok assign_ops oi ot -> shaped cExpList el ->
    shaped cStat (Node tStatAssignment s e false [vl; Tok oi ot; el])
| sh_callstat s e fc : shaped cPrefix fc -> shaped cStat (Node tStatFunctionCall s e false [fc])
| sh_do s e d b n : mtok (pkw "do"%bs) d -> shaped cChunk b -> mtok (pkw "end"%bs) n ->
    shaped cStat (Node tStatDo s e false [Kw d; b; Kw n])
| sh_while s e w c d b n : mtok (pkw "while"%bs) w -> shaped cExp c -> mtok (pkw "do"%bs) d -> shaped cChunk b ->
    mtok (pkw "end"%bs) n -> shaped cStat (Node tStatWhile s e false [Kw w; c; Kw d; b; Kw n])
| sh_repeat s e r b u c : mtok (pkw "repeat"%bs) r -> shaped cChunk b -> mtok (pkw "until"%bs) u -> shaped cExp c ->
    shaped cStat (Node tStatRepeat s e false [Kw r; b; Kw u; c])
| sh_if s e i c t b r ep n : mtok (pkw "if"%bs) i -> (is_none c = false -> shaped cExp c) ->
    (mtok (pkw "then"%bs) t \/ mtok (pkw "do"%bs) t) -> shaped cChunk b ->
    elseifs (shaped cExp) (shaped cChunk) r -> elsepart (shaped cChunk) ep -> mtok (pkw "end"%bs) n ->
    shaped cStat (Node tStatIf s e false [Kw i; Lst (Lst [c; Kw t; b] :: r ++ ep); Kw n])
| sh_shortif s e i s0 e0 sh0 cond b ep : mtok (pkw "if"%bs) i -> shaped cExp (Node tExpValue s0 e0 sh0 cond) ->
    shaped cChunk b -> shortelse (shaped cChunk) ep ->
    shaped cStat (Node tStatIf s e true [Kw i; Lst (Lst (cond ++ [b]) :: ep)])
| sh_forstep3 s e f n q i0 c1 e1 c2 e2 d b x : mtok (pkw "for"%bs) f -> (n = PNone \/ name_leaf n) -> mtok (psym "="%bs) q ->
    shaped cExp i0 -> mtok (psym ","%bs) c1 -> shaped cExp e1 -> mtok (psym ","%bs) c2 -> shaped cExp e2 ->
    mtok (pkw "do"%bs) d -> shaped cChunk b -> mtok (pkw "end"%bs) x ->
    shaped cStat (Node tStatForStep s e false [Kw f; n; Kw q; i0; Kw c1; e1; Kw c2; e2; Kw d; b; Kw x])
| sh_forstep2 s e f n q i0 c1 e1 d b x : mtok (pkw "for"%bs) f -> (n = PNone \/ name_leaf n) -> mtok (psym "="%bs) q ->
    shaped cExp i0 -> mtok (psym ","%bs) c1 -> shaped cExp e1 ->
    mtok (pkw "do"%bs) d -> shaped cChunk b -> mtok (pkw "end"%bs) x ->
    shaped cStat (Node tStatForStep s e false [Kw f; n; Kw q; i0; Kw c1; e1; PNone; Kw d; b; Kw x])
| sh_forin s e f nl i el d b x : mtok (pkw "for"%bs) f -> shaped cNameList nl -> mtok (pkw "in"%bs) i ->
    shaped cExpList el -> mtok (pkw "do"%bs) d -> shaped cChunk b -> mtok (pkw "end"%bs) x ->
    shaped cStat (Node tStatForIn s e false [Kw f; nl; Kw i; el; Kw d; b; Kw x])
| sh_function s e f fnm b : mtok (pkw "function"%bs) f -> shaped cFuncName fnm -> shaped cBody b ->
    shaped cStat (Node tStatFunction s e false [Kw f; fnm; b])
| sh_localfunction s e l f ni nt b : mtok (pkw "local"%bs) l -> mtok (pkw "function"%bs) f -> ctok CName ni nt ->
    shaped cBody b -> shaped cStat (Node tStatLocalFunction s e false [Kw l; Kw f; Tok ni nt; b])
| sh_local2 s e l nl q el : mtok (pkw "local"%bs) l -> shaped cNameList nl -> mtok (psym "="%bs) q -> shaped cExpList el ->
    shaped cStat (Node tStatLocalAssignment s e false [Kw l; nl; Kw q; el])
| sh_local1 s e l nl : mtok (pkw "local"%bs) l -> shaped cNameList nl ->
    shaped cStat (Node tStatLocalAssignment s e false [Kw l; nl; PNone])
| sh_goto s e g li lt : mtok (pkw "goto"%bs) g -> ctok CName li lt ->
    shaped cStat (Node tStatGoto s e false [Kw g; Hid (Tok li lt); PBytes (tdata lt)])
| sh_label s e li lt : ctok CLabel li lt ->
    shaped cStat (Node tStatLabel s e false [Hid (Tok li lt); PBytes (py_slice (tdata lt) 2 (-2))])
| sh_break s e b : mtok (pkw "break"%bs) b -> shaped cStat (Node tStatBreak s e false [Kw b])
| sh_return s e r el : mtok (pkw "return"%bs) r -> (el = PNone \/ shaped cExpList el) ->
    shaped cStat (Node tStatReturn s e false [Kw r; el])
(* ---- expressions ---- *)
| sh_nil s e i : mtok (pkw "nil"%bs) i -> shaped cExp (Node tExpValue s e false [Kw i; PNone])
| sh_false s e i : mtok (pkw "false"%bs) i -> shaped cExp (Node tExpValue s e false [Kw i; PBool false])
| sh_true s e i : mtok (pkw "true"%bs) i -> shaped cExp (Node tExpValue s e false [Kw i; PBool true])
| sh_num s e i t : ctok CNumber i t -> shaped cExp (Node tExpValue s e false [Tok i t])
| sh_str s e i t : ctok CString i t -> shaped cExp (Node tExpValue s e false [Tok i t])
| sh_edots s e i : mtok (psym "..."%bs) i -> shaped cExp (Node tVarargDots s e false [Kw i])
| sh_ev_func s e f : shaped cFunc f -> shaped cExp (Node tExpValue s e false [f])
| sh_ev_prefix s e p : shaped cPrefix p -> shaped cExp (Node tExpValue s e false [p])
| sh_ev_paren s e i j x : mtok (psym "("%bs) i -> mtok (psym ")"%bs) j -> shaped cExp x ->
    shaped cExp (Node tExpValue s e false [Paren i j x])
| sh_ev_table s e t : shaped cTable t -> shaped cExp (Node tExpValue s e false [t])
| sh_ev_hid s e p t : shaped cExp (Node tExpValue s e false [Hid p; t])            (* `()` before a table: not a program *)
| sh_binop s e a bi bt b : shaped cExp a -> optok binops bi bt -> shaped cExp b ->
    shaped cExp (Node tExpBinOp s e false [a; Tok bi bt; b])
| sh_unop s e ui ut a : optok unops ui ut -> shaped cExp a -> shaped cExp (Node tExpUnOp s e false [Tok ui ut; a])
| sh_unop_hid s e p ui ut a : shaped cExp (Node tExpUnOp s e false [Hid p; Tok ui ut; a])   (* `()` before an operator *)
(* ---- prefix expressions; the prefix of a suffix may be a parenthesised expression (outside the writer's domain) ---- *)
| sh_varname s e i t : ctok CName i t -> shaped cPrefix (Node tVarName s e false [Tok i t])
| sh_index s e p o x c : (shaped cPrefix p \/ is_paren p = true) -> mtok (psym "["%bs) o -> shaped cExp x ->
    mtok (psym "]"%bs) c -> shaped cPrefix (Node tVarIndex s e false [p; Kw o; x; Kw c])
| sh_attr s e p d ni nt : (shaped cPrefix p \/ is_paren p = true) -> mtok (psym "."%bs) d -> ctok CName ni nt ->
    shaped cPrefix (Node tVarAttribute s e false [p; Kw d; Tok ni nt])
| sh_call s e p a : (shaped cPrefix p \/ is_paren p = true) -> (str_leaf a \/ shaped cArgs a \/ shaped cTable a) ->
    shaped cPrefix (Node tFunctionCall s e false [p; a])
| sh_method s e p c ni nt a : (shaped cPrefix p \/ is_paren p = true) -> mtok (psym ":"%bs) c -> ctok CName ni nt ->
    (str_leaf a \/ shaped cArgs a \/ shaped cTable a) ->
    shaped cPrefix (Node tFunctionCallMethod s e false [p; Kw c; Tok ni nt; a])
(* ---- arguments, functions ---- *)
| sh_args s e o el c : mtok (psym "("%bs) o -> (el = PNone \/ shaped cExpList el) -> mtok (psym ")"%bs) c ->
    shaped cArgs (Node tFunctionArgs s e false [Kw o; el; Kw c])
| sh_func s e f b : mtok (pkw "function"%bs) f -> shaped cBody b -> shaped cFunc (Node tFunction s e false [Kw f; b])
| sh_body_nd s e o nl cm d c b n : mtok (psym "("%bs) o -> shaped cNameList nl -> mtok (psym ","%bs) cm -> shaped cDots d ->
    mtok (psym ")"%bs) c -> shaped cChunk b -> mtok (pkw "end"%bs) n ->
    shaped cBody (Node tFunctionBody s e false [Kw o; nl; Kw cm; d; Kw c; b; Kw n])
| sh_body_n s e o nl c b n : mtok (psym "("%bs) o -> shaped cNameList nl ->
    mtok (psym ")"%bs) c -> shaped cChunk b -> mtok (pkw "end"%bs) n ->
    shaped cBody (Node tFunctionBody s e false [Kw o; nl; PNone; Kw c; b; Kw n])
| sh_body_d s e o d c b n : mtok (psym "("%bs) o -> shaped cDots d ->
    mtok (psym ")"%bs) c -> shaped cChunk b -> mtok (pkw "end"%bs) n ->
    shaped cBody (Node tFunctionBody s e false [Kw o; PNone; d; Kw c; b; Kw n])
| sh_body_0 s e o c b n : mtok (psym "("%bs) o ->
    mtok (psym ")"%bs) c -> shaped cChunk b -> mtok (pkw "end"%bs) n ->
    shaped cBody (Node tFunctionBody s e false [Kw o; PNone; PNone; Kw c; b; Kw n])
| sh_dots s e i : mtok (psym "..."%bs) i -> shaped cDots (Node tVarargDots s e false [Kw i])
(* ---- tables ---- *)
| sh_table s e o l c : mtok (psym "{"%bs) o -> tfields (shaped cField) l -> mtok (psym "}"%bs) c ->
    shaped cTable (Node tTableConstructor s e false [Kw o; Lst l; Kw c])
| sh_fkey s e o k c q x : mtok (psym "["%bs) o -> shaped cExp k -> mtok (psym "]"%bs) c -> mtok (psym "="%bs) q ->
    shaped cExp x -> shaped cField (Node tFieldExpKey s e false [Kw o; k; Kw c; Kw q; x])
| sh_fnamed s e ni nt q x : ctok CName ni nt -> mtok (psym "="%bs) q -> shaped cExp x ->
    shaped cField (Node tFieldNamedKey s e false [Tok ni nt; Kw q; x])
| sh_fexp s e x : shaped cExp x -> shaped cField (Node tFieldExp s e false [x])
(* ---- lists ---- *)
| sh_namelist s e ni nt r : ctok CName ni nt -> seplist name_leaf (psym ","%bs) r ->
    shaped cNameList (Node tNameList s e false [Lst (Tok ni nt :: r)])
| sh_funcname_m s e ni nt r c mi mt : ctok CName ni nt -> seplist name_leaf (psym "."%bs) r -> mtok (psym ":"%bs) c ->
    ctok CName mi mt -> shaped cFuncName (Node tFunctionName s e false [Lst (Tok ni nt :: r); Kw c; Tok mi mt])
| sh_funcname s e ni nt r : ctok CName ni nt -> seplist name_leaf (psym "."%bs) r ->
    shaped cFuncName (Node tFunctionName s e false [Lst (Tok ni nt :: r); PNone])
| sh_explist s e x r : shaped cExp x -> seplist (shaped cExp) (psym ","%bs) r ->
    shaped cExpList (Node tExpList s e false [Lst (x :: r)])
| sh_varlist s e v r : shaped cPrefix v -> seplist (shaped cPrefix) (psym ","%bs) r ->
    shaped cVarList (Node tVarList s e false [Lst (v :: r)]).

Lemma shaped_node k x : shaped k x -> exists tag s e sh fs, x = Node tag s e sh fs.
Proof. intros H. destruct H; eexists _, _, _, _, _; reflexivity. Qed.

Lemma shaped_not_none k x : shaped k x -> is_none x = false.
Proof. intros H. destruct (shaped_node _ _ H) as (tag & s & e & sh & fs & ->). reflexivity. Qed.

Lemma shaped_not_hidden k x : shaped k x -> is_hidden x = false.
Proof. intros H. destruct (shaped_node _ _ H) as (tag & s & e & sh & fs & ->). reflexivity. Qed.

(* tags of the categories *)
Lemma shaped_exp_tag x : shaped cExp x ->
  tag_of x = tExpValue \/ tag_of x = tVarargDots \/ tag_of x = tExpBinOp \/ tag_of x = tExpUnOp.
Proof. intros H. inversion H; subst; cbn; auto. Qed.

Lemma shaped_prefix_tag x : shaped cPrefix x ->
  tag_of x = tVarName \/ tag_of x = tVarIndex \/ tag_of x = tVarAttribute \/ tag_of x = tFunctionCall \/
  tag_of x = tFunctionCallMethod.
Proof. intros H. inversion H; subst; cbn; auto 6. Qed.

End Shape.
