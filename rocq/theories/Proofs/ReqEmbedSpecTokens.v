(* C14's token-level statement for the concrete stack AND the reference tokenizer of Spec/LuaLex.v:
   the chunking hypotheses of Proofs/ReqEmbedProofs.build_code_tokens are discharged by
   Proofs/SpecLexChunk.v, the side conditions on build.py's regenerated constants by computation, and
   the token-faithful echo by property C06's theorems about the lexer model (Proofs/EchoProofs.v:
   model_holds_C06, echo_crlf_only; Proofs/LexerChunk.v: model_lex_chunking) together with
   SpecLexChunk.holds_C06_sig_views - for line lists whose lines end in a line feed (all but the last)
   and consist of bytes. *)
From PV Require Import Base.Prelude Spec.LuaLex Instances.HoldsC01 Instances.HoldsC06 Generated.T_lexer Generated.T_files_build
  Model.Lexer Model.EchoWriter Proofs.LexerProofs Proofs.LexerChunk Proofs.EchoProofs
  Model.ReqEmbed Model.ReqEmbedInst Proofs.ReqEmbedProofs Proofs.ReqEmbedInstProofs Proofs.SpecLexChunk
  Proofs.ReqEmbedEchoGood Proofs.LexerView Proofs.EchoStable Proofs.LuaLexFacts.
Close Scope pm_scope.

Notation view := (Z * list Z * Z * Z * Z)%type.

Lemma ends_with_nl_last_lf a : ends_with_nl a = true -> a = [] \/ last a 0 = 10.
Proof. intros H. apply ends_with_nl_last in H. destruct H as (r & ->). right. apply last_last. Qed.

Lemma sig_views_chunking a b ta tb :
  ends_with_nl a = true -> sig_views a = Some ta -> sig_views b = Some tb -> sig_views (a ++ b) = Some (ta ++ tb).
Proof. intros H. apply sig_views_app, ends_with_nl_last_lf, H. Qed.

(* the regenerated preambles and the closing line are in the dialect *)
Lemma constants_lex :
  Forall (lexes view sig_views) require_lua_preamble_package /\
  Forall (lexes view sig_views) require_lua_preamble_require /\
  lexes view sig_views end_line_now.
Proof.
  unfold lexes. repeat split; repeat constructor; vm_compute; discriminate.
Qed.

(* ---------- the echo of the lexer model, on good line lists ---------- *)
Lemma echo_toks_concat ts : forall cur pending, (pending = false -> cur = []) ->
  concat (echo_toks ts cur pending) = cur ++ concat (map tok_code ts).
Proof.
  induction ts as [|t r IH]; intros cur pending Hp; cbn [echo_toks map concat].
  - destruct pending; [cbn; rewrite !app_nil_r; reflexivity | rewrite (Hp eq_refl); reflexivity].
  - destruct (t_kind t); try (rewrite IH by discriminate; rewrite <- app_assoc; reflexivity).
    cbn [concat]. rewrite IH by reflexivity. cbn [app]. rewrite <- app_assoc. reflexivity.
Qed.

Lemma echo_views ls q t :
  good_lines ls -> from_lines ls = Ok q -> sig_views (concat ls) = Some t ->
  sig_views (concat (ReqEmbedInst.echo_lines q)) = Some t.
Proof.
  intros [Hlf HB] Hq Ht. unfold from_lines in Hq.
  destruct (model_lex ls) as [ts|e] eqn:Hm; [|discriminate]. cbn [bind] in Hq.
  destruct (ParserInst.lua_parse _) as [[root p]|e]; [|discriminate]. cbn [bind] in Hq. injection Hq as <-.
  unfold ReqEmbedInst.echo_lines. cbn [l_toks]. rewrite echo_toks_concat by reflexivity. cbn [app].
  rewrite (model_lex_chunking ls Hlf) in Hm.
  assert (Hs : exists ss, spec_lex (concat ls) = Some ss).
  { unfold sig_views, spec_toks in Ht. destruct (spec_lex (concat ls)) as [ss|]; [eexists; reflexivity | discriminate]. }
  destruct Hs as (ss & Hs).
  pose proof (model_holds_C06 (concat ls) HB) as H06. unfold echo_source in H06. rewrite Hm in H06.
  destruct (echo_crlf_only (concat ls) ss HB Hs) as (lines & Hl & Hcr). unfold echo_source in Hl. rewrite Hm in Hl.
  injection Hl as <-. rewrite echo_concat in H06, Hcr.
  exact (holds_C06_sig_views _ _ _ H06 Hcr Ht).
Qed.

(* iterating a binary file gives a good line list *)
Lemma removelast_cons_good (x : bytes) l : ends_lf x -> Forall ends_lf (removelast l) -> Forall ends_lf (removelast (x :: l)).
Proof. intros Hx Hl. destruct l; [constructor|]. change (removelast (x :: l :: l0)) with (x :: removelast (l :: l0)). constructor; assumption. Qed.

Lemma file_lines_from_lf s : forall cur, Forall ends_lf (removelast (file_lines_from s cur)).
Proof.
  induction s as [|c r IH]; intros cur; cbn [file_lines_from].
  - destruct cur; constructor.
  - destruct (c =? 10) eqn:E; [|apply IH]. apply Z.eqb_eq in E. subst c. apply removelast_cons_good; [|apply IH].
    exists (rev cur). unfold rev'. rewrite <- rev_alt. reflexivity.
Qed.

Lemma file_lines_good c : Forall byte c -> good_lines (file_lines c).
Proof. intros H. split; [apply file_lines_from_lf | rewrite file_lines_concat; exact H]. Qed.

Lemma build_code_tokens_spec :
  forall cwd fs lua_path fuel main_path main_content out,
  build_code_now cwd fs lua_path fuel main_path main_content = Ok out ->
  exists r pk, build_lua_now cwd fs lua_path fuel main_path main_content = Ok (r, pk) /\
    let toks := toks view sig_views in
    let lexes := lexes view sig_views in
    (Forall (fun e => lexes (header_line_now (fst e)) /\ lexes (concat (ReqEmbedInst.echo_lines (snd e)))) pk ->
     lexes main_content -> Forall byte main_content ->
     (forall m, from_lines (file_lines main_content) = Ok m ->
                good_lines (prepend_lines lua ReqEmbedInst.echo_lines require_lua_preamble_package
                                          require_lua_preamble_require header_line_now end_line_now nl_line_now m pk)) ->
     sig_views out = Some match pk with
                          | [] => toks main_content
                          | _ => concat (map toks require_lua_preamble_package)
                                 ++ concat (map (fun e => toks (header_line_now (fst e))
                                                          ++ toks (concat (ReqEmbedInst.echo_lines (snd e))) ++ toks end_line_now) pk)
                                 ++ concat (map toks require_lua_preamble_require) ++ toks main_content
                          end).
Proof.
  intros cwd fs lua_path fuel mp mc out H.
  destruct (build_code_tokens_now view sig_views good_lines sig_views_chunking sig_views_final_lf sig_views_nil
              (fun ls q t Hg Hq Ht => echo_views ls q t Hg Hq Ht)
              cwd fs lua_path fuel mp mc out H) as (r & pk & Hb & Ht).
  exists r, pk. split; [exact Hb|]. cbv zeta in *. intros Hpk Hmc HB Hgood.
  destruct constants_lex as (H1 & H2 & H3). apply Ht; try assumption. apply file_lines_good, HB.
Qed.

(* ---------- the line list handed to the final parse is good ---------- *)
Lemma ends_with_nl_ends_lf x : ends_with_nl x = true <-> ends_lf x.
Proof. unfold ends_lf. apply ends_with_nl_last. Qed.

Lemma removelast_app_lf (X M : list bytes) :
  Forall ends_lf X -> Forall ends_lf (removelast M) -> Forall ends_lf (removelast (X ++ M)).
Proof.
  intros HX HM. destruct M as [|m M'].
  - rewrite app_nil_r. clear HM. induction HX as [|x X Hx _ IH]; [constructor|]. apply removelast_cons_good; assumption.
  - rewrite removelast_app by discriminate. apply Forall_app. split; assumption.
Qed.

(* what the theorem needs to know about one entry of the package table *)
Definition pkg_shape (e : bytes * lua) : Prop :=
  Forall byte (header_line_now (fst e)) /\
  good_lines (ReqEmbedInst.echo_lines (snd e)) /\
  (ReqEmbedInst.echo_lines (snd e) = [] \/ ends_lf (last (ReqEmbedInst.echo_lines (snd e)) [])).

Notation block_now := (block lua ReqEmbedInst.echo_lines header_line_now end_line_now nl_line_now).

Lemma block_lf e : pkg_shape e -> Forall ends_lf (block_now e) /\ Forall byte (concat (block_now e)).
Proof.
  intros (Hh & [Hlf Hb] & Hlast). unfold block. cbn [fst snd].
  set (body := ReqEmbedInst.echo_lines (snd e)) in *. set (hdr := header_line_now (fst e)) in *.
  assert (Hhdr : ends_lf hdr) by (apply ends_with_nl_ends_lf, header_line_now_nl).
  assert (Hbody : Forall ends_lf body /\ ends_with_nl (last body hdr) = true).
  { destruct Hlast as [E|Hl].
    - rewrite E. split; [constructor | apply ends_with_nl_ends_lf; exact Hhdr].
    - destruct body as [|b0 body'] eqn:Eb; [split; [constructor | apply ends_with_nl_ends_lf; exact Hhdr]|].
      rewrite <- Eb in *. assert (Hne : body <> []) by (rewrite Eb; discriminate).
      destruct (exists_last Hne) as (pre & x & Ex). rewrite Ex in *. rewrite removelast_last in Hlf. rewrite last_last in *.
      split; [apply Forall_app; split; [exact Hlf | constructor; [exact Hl | constructor]] | apply ends_with_nl_ends_lf, Hl]. }
  destruct Hbody as (Hall & Hnl). rewrite Hnl. cbn [app]. split.
  - constructor; [exact Hhdr|]. apply Forall_app. split; [exact Hall|].
    constructor; [apply ends_with_nl_ends_lf; reflexivity | constructor].
  - cbn [concat]. rewrite concat_app. apply Forall_app. split; [exact Hh|]. apply Forall_app. split; [exact Hb|].
    cbn. repeat constructor; unfold byte; lia.
Qed.

Lemma constants_good :
  Forall ends_lf require_lua_preamble_package /\ Forall byte (concat require_lua_preamble_package) /\
  Forall ends_lf require_lua_preamble_require /\ Forall byte (concat require_lua_preamble_require).
Proof.
  destruct constants_nl as (_ & _ & Hpp & Hpr).
  repeat split.
  - eapply Forall_impl; [|exact Hpp]. intros x. apply ends_with_nl_ends_lf.
  - apply all_bytes_Forall. vm_compute. reflexivity.
  - eapply Forall_impl; [|exact Hpr]. intros x. apply ends_with_nl_ends_lf.
  - apply all_bytes_Forall. vm_compute. reflexivity.
Qed.

Lemma prepend_good m pk :
  Forall pkg_shape pk -> good_lines (ReqEmbedInst.echo_lines m) ->
  good_lines (prepend_lines lua ReqEmbedInst.echo_lines require_lua_preamble_package require_lua_preamble_require
                            header_line_now end_line_now nl_line_now m pk).
Proof.
  intros Hpk [Hmlf Hmb]. destruct constants_good as (A1 & A2 & C1 & C2). unfold prepend_lines.
  assert (Hblocks : Forall ends_lf (flat_map block_now pk) /\ Forall byte (concat (flat_map block_now pk))).
  { induction Hpk as [|e pk He _ IH]; [split; constructor|]. destruct (block_lf e He) as (B1 & B2). destruct IH as (I1 & I2).
    cbn [flat_map]. split; [apply Forall_app; split; assumption|]. rewrite concat_app. apply Forall_app. split; assumption. }
  destruct Hblocks as (B1 & B2). split.
  - rewrite !app_assoc. apply removelast_app_lf; [|exact Hmlf].
    apply Forall_app; split; [apply Forall_app; split; [exact A1 | exact B1] | exact C1].
  - rewrite !concat_app. apply Forall_app; split; [exact A2|]. apply Forall_app; split; [exact B2|].
    apply Forall_app; split; [exact C2 | exact Hmb].
Qed.

(* the echo of the main program / of a package embedded with its game loop is a good line list *)
Lemma from_lines_model_lex ls q : from_lines ls = Ok q -> model_lex ls = Ok (l_toks q).
Proof.
  unfold from_lines. destruct (model_lex ls) as [ts|e]; [|discriminate]. cbn [bind].
  destruct (ParserInst.lua_parse _) as [[root p]|e]; [|discriminate]. cbn [bind]. intros [= <-]. reflexivity.
Qed.

Lemma lexes_spec_lex c : lexes view sig_views c -> spec_lex c <> None.
Proof. unfold lexes, sig_views, spec_toks. destruct (spec_lex c); [discriminate | intros H; exfalso; apply H; reflexivity]. Qed.

Lemma file_echo_good c q : Forall byte c -> lexes view sig_views c -> from_lines (file_lines c) = Ok q ->
  good_lines (ReqEmbedInst.echo_lines q).
Proof.
  intros HB Hl Hq. unfold ReqEmbedInst.echo_lines.
  apply (dialect_echo_good (file_lines c)); [apply file_lines_good, HB | rewrite file_lines_concat; apply lexes_spec_lex, Hl
                                             | apply from_lines_model_lex, Hq].
Qed.

(* ---------- the token-level clause, concrete stack, reference tokenizer ---------- *)
Lemma build_code_tokens_full :
  forall cwd fs lua_path fuel main_path main_content out,
  build_code_now cwd fs lua_path fuel main_path main_content = Ok out ->
  exists r pk, build_lua_now cwd fs lua_path fuel main_path main_content = Ok (r, pk) /\
    let toks := toks view sig_views in
    let lexes := lexes view sig_views in
    (lexes main_content -> Forall byte main_content ->
     Forall (fun e => lexes (header_line_now (fst e)) /\ lexes (concat (ReqEmbedInst.echo_lines (snd e))) /\ pkg_shape e) pk ->
     sig_views out = Some match pk with
                          | [] => toks main_content
                          | _ => concat (map toks require_lua_preamble_package)
                                 ++ concat (map (fun e => toks (header_line_now (fst e))
                                                          ++ toks (concat (ReqEmbedInst.echo_lines (snd e))) ++ toks end_line_now) pk)
                                 ++ concat (map toks require_lua_preamble_require) ++ toks main_content
                          end).
Proof.
  intros cwd fs lua_path fuel mp mc out H.
  destruct (build_code_tokens_spec cwd fs lua_path fuel mp mc out H) as (r & pk & Hb & Ht).
  exists r, pk. split; [exact Hb|]. cbv zeta in *. intros Hmc HB Hpk. apply Ht; [|exact Hmc | exact HB|].
  - eapply Forall_impl; [|exact Hpk]. intros e (H1 & H2 & _). split; assumption.
  - intros m Hm. apply prepend_good; [|eapply file_echo_good; eassumption].
    eapply Forall_impl; [|exact Hpk]. intros e (_ & _ & H3). exact H3.
Qed.

(* ---------- a package embedded with its game loop, from a file of the dialect that ends in a newline (or is
   empty), meets the per-package conditions ---------- *)
Lemma echo_toks_nonempty ts : Forall (fun t => tok_code t <> []) ts -> forall cur pending,
  (pending = true -> cur <> []) -> Forall (fun x => x <> []) (echo_toks ts cur pending).
Proof.
  induction 1 as [|t r Ht _ IH]; intros cur pending Hp; cbn [echo_toks].
  - destruct pending; [constructor; [apply Hp; reflexivity | constructor] | constructor].
  - assert (Hne : cur ++ tok_code t <> []) by (intros E; apply app_eq_nil in E; destruct E; contradiction).
    destruct (t_kind t); try (apply IH; intros _; exact Hne).
    constructor; [exact Hne | apply IH; discriminate].
Qed.

Lemma last_concat (lines : list bytes) : lines <> [] -> Forall (fun x => x <> []) lines ->
  last (concat lines) 0 = last (last lines []) 0.
Proof.
  intros Hne Hall. destruct (exists_last Hne) as (pre & x & ->). rewrite last_last, concat_app. cbn [concat].
  rewrite app_nil_r. apply Forall_app in Hall. destruct Hall as [_ Hx]. inversion Hx; subst.
  apply last_app_ne. assumption.
Qed.

Lemma ends_lf_last x : ends_lf x <-> x <> [] /\ last x 0 = 10.
Proof.
  split.
  - intros (a & ->). split; [destruct a; discriminate | apply last_last].
  - intros (Hne & Hl). destruct (exists_last Hne) as (a & c & ->). rewrite last_last in Hl. subst c. exists a. reflexivity.
Qed.

Lemma chain_last_newline a ta : chain a ta -> a <> [] -> last a 0 = 10 ->
  exists pre t, ta = pre ++ [t] /\ s_kind t = SNewline /\ last (s_raw t) 0 = 10.
Proof.
  induction 1 as [|s t rest ts Hs Hc IH]; intros Hne Hlast; [congruence|].
  destruct (LuaLexFacts.spec_step_split _ _ _ Hs) as (Hsplit & Hraw).
  destruct rest as [|c r0].
  - apply chain_nil_inv in Hc. subst ts. exists [], t. split; [reflexivity|].
    destruct (step_end_lf _ _ Hs Hlast) as [-> | ->]; cbn in Hs; injection Hs as <-; split; reflexivity.
  - destruct IH as (pre & t' & -> & Hk & Hl); [discriminate | rewrite Hsplit, last_app_ne in Hlast by discriminate; exact Hlast|].
    exists (t :: pre), t'. split; [reflexivity | split; assumption].
Qed.

Lemma unstripped_pkg_ok c q :
  Forall byte c -> lexes view sig_views c -> (c = [] \/ ends_lf c) -> from_lines (file_lines c) = Ok q ->
  lexes view sig_views (concat (ReqEmbedInst.echo_lines q)) /\
  toks view sig_views (concat (ReqEmbedInst.echo_lines q)) = toks view sig_views c /\
  good_lines (ReqEmbedInst.echo_lines q) /\
  (ReqEmbedInst.echo_lines q = [] \/ ends_lf (last (ReqEmbedInst.echo_lines q) [])).
Proof.
  intros HB Hl Hend Hq.
  assert (Hv : sig_views (concat (ReqEmbedInst.echo_lines q)) = Some (toks view sig_views c)).
  { apply (echo_views (file_lines c)); [apply file_lines_good, HB | exact Hq|].
    rewrite file_lines_concat. apply lexes_toks, Hl. }
  split; [unfold lexes; rewrite Hv; discriminate|]. split; [unfold toks at 1; rewrite Hv; reflexivity|].
  split; [eapply file_echo_good; eassumption|].
  pose proof (from_lines_model_lex _ _ Hq) as Hm. unfold ReqEmbedInst.echo_lines.
  destruct Hend as [-> | Hlf].
  - left. cbn in Hm. injection Hm as <-. reflexivity.
  - right. apply ends_lf_last in Hlf. destruct Hlf as (Hne & Hlast).
    (* the tokens: classes and codes of the reference tokens, the last of which is the line feed *)
    pose proof (lexes_spec_lex _ Hl) as Hs. destruct (spec_lex c) as [ss|] eqn:Es; [|congruence].
    pose proof (file_lines_good c HB) as [Hg _].
    pose proof Hm as Hm1. rewrite (model_lex_chunking _ Hg), file_lines_concat in Hm1.
    destruct (LexerView.lex_agrees_code c ss HB Es) as (ts' & Hm' & Hcodes & _). rewrite Hm1 in Hm'. injection Hm' as <-.
    assert (Hc : chain c (map unpos ss)) by (apply (spec_toks_chain c); unfold spec_toks; rewrite Es; reflexivity).
    destruct (chain_last_newline _ _ Hc Hne Hlast) as (pre & t & Epre & Hk & Hrl).
    set (lines := echo_toks (l_toks q) [] false).
    assert (Hcat : concat lines = concat (map LexerView.spec_code ss)).
    { unfold lines. rewrite echo_toks_concat by reflexivity. cbn [app].
      apply (f_equal (map snd)) in Hcodes. rewrite !map_map in Hcodes. cbn [snd] in Hcodes.
      exact (f_equal (@concat Z) Hcodes). }
    assert (Hnel : Forall (fun x => x <> []) lines).
    { apply echo_toks_nonempty; [|discriminate]. eapply EchoStable.model_lex_code_ne, Hm. }
    assert (Hlc : last (concat lines) 0 = 10 /\ concat lines <> []).
    { rewrite Hcat. (* the last reference token is the newline *)
      assert (Ess : exists pre0 t0, ss = pre0 ++ [t0] /\ s_kind t0 = SNewline /\ last (s_raw t0) 0 = 10 /\ s_raw t0 <> []).
      { destruct (exists_last (l := ss)) as (pre0 & t0 & E0).
        - intros E. subst ss. cbn in Epre. destruct pre; discriminate Epre.
        - exists pre0, t0. split; [exact E0|]. subst ss. rewrite map_app in Epre. cbn [map] in Epre.
          apply app_inj_tail in Epre. destruct Epre as [_ Et]. subst t. cbn [unpos s_kind s_raw] in *.
          repeat split; try assumption. intros E. rewrite E in Hrl. discriminate. }
      destruct Ess as (pre0 & t0 & -> & Hk0 & Hl0 & Hne0). rewrite map_app, concat_app. cbn [map concat]. rewrite app_nil_r.
      assert (Ec : LexerView.spec_code t0 = s_raw t0) by (unfold LexerView.spec_code; rewrite Hk0; reflexivity).
      rewrite Ec. split; [rewrite last_app_ne by exact Hne0; exact Hl0|].
      intros E. apply app_eq_nil in E. destruct E. contradiction. }
    destruct Hlc as (Hl10 & Hcne).
    assert (Hlne : lines <> []) by (intros E; rewrite E in Hcne; apply Hcne; reflexivity).
    apply ends_lf_last. rewrite <- (last_concat lines Hlne Hnel). split; [|exact Hl10].
    destruct (exists_last Hlne) as (pl & x & El). fold lines. rewrite El, last_last. rewrite El in Hnel.
    apply Forall_app in Hnel. destruct Hnel as [_ Hx]. inversion Hx; assumption.
Qed.
