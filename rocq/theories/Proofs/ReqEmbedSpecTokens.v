(* C14's token-level statement for the concrete stack AND the reference tokenizer of Spec/LuaLex.v:
   the chunking hypotheses of Proofs/ReqEmbedProofs.build_code_tokens are discharged by
   Proofs/SpecLexChunk.v, the side conditions on build.py's regenerated constants by computation.
   What remains assumed is the token-faithful echo of the lexer model (property C06). *)
From PV Require Import Base.Prelude Spec.LuaLex Instances.HoldsC01 Generated.T_files_build
  Model.ReqEmbed Model.ReqEmbedInst Proofs.ReqEmbedProofs Proofs.ReqEmbedInstProofs Proofs.SpecLexChunk.

Lemma ends_with_nl_last_lf a : ends_with_nl a = true -> a = [] \/ last a 0 = 10.
Proof. intros H. apply ends_with_nl_last in H. destruct H as (r & ->). right. apply last_last. Qed.

Lemma sig_views_chunking a b ta tb :
  ends_with_nl a = true -> sig_views a = Some ta -> sig_views b = Some tb -> sig_views (a ++ b) = Some (ta ++ tb).
Proof. intros H. apply sig_views_app, ends_with_nl_last_lf, H. Qed.

(* the regenerated preambles and the closing line are in the dialect *)
Lemma constants_lex :
  Forall (lexes (Z * list Z * Z * Z * Z) sig_views) require_lua_preamble_package /\
  Forall (lexes (Z * list Z * Z * Z * Z) sig_views) require_lua_preamble_require /\
  lexes (Z * list Z * Z * Z * Z) sig_views end_line_now.
Proof.
  unfold lexes. repeat split; repeat constructor; vm_compute; discriminate.
Qed.

Lemma build_code_tokens_spec :
  (forall ls q t, from_lines ls = Ok q -> sig_views (concat ls) = Some t -> sig_views (concat (echo_lines q)) = Some t) ->
  forall cwd fs lua_path fuel main_path main_content out,
  build_code_now cwd fs lua_path fuel main_path main_content = Ok out ->
  exists r pk, build_lua_now cwd fs lua_path fuel main_path main_content = Ok (r, pk) /\
    let toks := toks (Z * list Z * Z * Z * Z) sig_views in
    let lexes := lexes (Z * list Z * Z * Z * Z) sig_views in
    (Forall (fun e => lexes (header_line_now (fst e)) /\ lexes (concat (echo_lines (snd e)))) pk ->
     lexes main_content ->
     sig_views out = Some match pk with
                          | [] => toks main_content
                          | _ => concat (map toks require_lua_preamble_package)
                                 ++ concat (map (fun e => toks (header_line_now (fst e))
                                                          ++ toks (concat (echo_lines (snd e))) ++ toks end_line_now) pk)
                                 ++ concat (map toks require_lua_preamble_require) ++ toks main_content
                          end).
Proof.
  intros Hecho cwd fs lua_path fuel mp mc out H.
  destruct (build_code_tokens_now (Z * list Z * Z * Z * Z) sig_views sig_views_chunking sig_views_final_lf sig_views_nil Hecho
              cwd fs lua_path fuel mp mc out H) as (r & pk & Hb & Ht).
  exists r, pk. split; [exact Hb|]. cbv zeta in *. intros Hpk Hmc.
  destruct constants_lex as (H1 & H2 & H3). apply Ht; assumption.
Qed.

(* the same with the remaining hypothesis put in the form of property C06's predicate: the echo of every
   text the build lexes satisfies holds_C06 (Instances/HoldsC06.v; C06 proves this of the lexer model for
   texts given as lines ending in LF), and has no lone carriage return when the text is in the dialect *)
From PV Require Import Instances.HoldsC06.

Lemma build_code_tokens_spec_c06 :
  (forall ls q, from_lines ls = Ok q -> holds_C06 (concat ls) (concat (echo_lines q)) = true) ->
  (forall ls q t, from_lines ls = Ok q -> sig_views (concat ls) = Some t ->
                  crlf_only (concat (echo_lines q)) = true) ->
  forall cwd fs lua_path fuel main_path main_content out,
  build_code_now cwd fs lua_path fuel main_path main_content = Ok out ->
  exists r pk, build_lua_now cwd fs lua_path fuel main_path main_content = Ok (r, pk) /\
    let toks := toks (Z * list Z * Z * Z * Z) sig_views in
    let lexes := lexes (Z * list Z * Z * Z * Z) sig_views in
    (Forall (fun e => lexes (header_line_now (fst e)) /\ lexes (concat (echo_lines (snd e)))) pk ->
     lexes main_content ->
     sig_views out = Some match pk with
                          | [] => toks main_content
                          | _ => concat (map toks require_lua_preamble_package)
                                 ++ concat (map (fun e => toks (header_line_now (fst e))
                                                          ++ toks (concat (echo_lines (snd e))) ++ toks end_line_now) pk)
                                 ++ concat (map toks require_lua_preamble_require) ++ toks main_content
                          end).
Proof.
  intros H06 Hcr. apply build_code_tokens_spec. intros ls q t Hq Ht.
  eapply holds_C06_sig_views; [apply H06, Hq | eapply Hcr; eassumption | exact Ht].
Qed.
