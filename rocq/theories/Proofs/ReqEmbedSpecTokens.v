(* C14's token-level statement for the concrete stack AND the reference tokenizer of Spec/LuaLex.v:
   the chunking hypotheses of Proofs/ReqEmbedProofs.build_code_tokens are discharged by
   Proofs/SpecLexChunk.v, the side conditions on build.py's regenerated constants by computation, and
   the token-faithful echo by property C06's theorems about the lexer model (Proofs/EchoProofs.v:
   model_holds_C06, echo_crlf_only; Proofs/LexerChunk.v: model_lex_chunking) together with
   SpecLexChunk.holds_C06_sig_views - for line lists whose lines end in a line feed (all but the last)
   and consist of bytes. *)
From PV Require Import Base.Prelude Spec.LuaLex Instances.HoldsC01 Instances.HoldsC06 Generated.T_lexer Generated.T_files_build
  Model.Lexer Model.EchoWriter Proofs.LexerProofs Proofs.LexerChunk Proofs.EchoProofs
  Model.ReqEmbed Model.ReqEmbedInst Proofs.ReqEmbedProofs Proofs.ReqEmbedInstProofs Proofs.SpecLexChunk.
Close Scope pm_scope.

Notation view := (Z * list Z * Z * Z * Z)%type.

Lemma ends_with_nl_last_lf a : ends_with_nl a = true -> a = [] \/ last a 0 = 10.
Proof. intros H. apply ends_with_nl_last in H. destruct H as (r & ->). right. apply last_last. Qed.

Lemma sig_views_chunking a b ta tb :
  ends_with_nl a = true -> sig_views a = Some ta -> sig_views b = Some tb -> sig_views (a ++ b) = Some (ta ++ tb).
Proof. intros H. apply sig_views_app, ends_with_nl_last_lf, H. Qed.

(* the regenerated preambles and the closing line are in the dialect *)
Lemma constants_lex :
  Forall (lexes view sig_views) require_lua_preamble_package /\
  Forall (lexes view sig_views) require_lua_preamble_require /\
  lexes view sig_views end_line_now.
Proof.
  unfold lexes. repeat split; repeat constructor; vm_compute; discriminate.
Qed.

(* ---------- the echo of the lexer model, on good line lists ---------- *)
Definition good_lines (ls : list bytes) : Prop := Forall ends_lf (removelast ls) /\ Forall byte (concat ls).

Lemma echo_toks_concat ts : forall cur pending, (pending = false -> cur = []) ->
  concat (echo_toks ts cur pending) = cur ++ concat (map tok_code ts).
Proof.
  induction ts as [|t r IH]; intros cur pending Hp; cbn [echo_toks map concat].
  - destruct pending; [cbn; rewrite !app_nil_r; reflexivity | rewrite (Hp eq_refl); reflexivity].
  - destruct (t_kind t); try (rewrite IH by discriminate; rewrite <- app_assoc; reflexivity).
    cbn [concat]. rewrite IH by reflexivity. cbn [app]. rewrite <- app_assoc. reflexivity.
Qed.

Lemma echo_views ls q t :
  good_lines ls -> from_lines ls = Ok q -> sig_views (concat ls) = Some t ->
  sig_views (concat (ReqEmbedInst.echo_lines q)) = Some t.
Proof.
  intros [Hlf HB] Hq Ht. unfold from_lines in Hq.
  destruct (model_lex ls) as [ts|e] eqn:Hm; [|discriminate]. cbn [bind] in Hq.
  destruct (ParserInst.lua_parse _) as [[root p]|e]; [|discriminate]. cbn [bind] in Hq. injection Hq as <-.
  unfold ReqEmbedInst.echo_lines. cbn [l_toks]. rewrite echo_toks_concat by reflexivity. cbn [app].
  rewrite (model_lex_chunking ls Hlf) in Hm.
  assert (Hs : exists ss, spec_lex (concat ls) = Some ss).
  { unfold sig_views, spec_toks in Ht. destruct (spec_lex (concat ls)) as [ss|]; [eexists; reflexivity | discriminate]. }
  destruct Hs as (ss & Hs).
  pose proof (model_holds_C06 (concat ls) HB) as H06. unfold echo_source in H06. rewrite Hm in H06.
  destruct (echo_crlf_only (concat ls) ss HB Hs) as (lines & Hl & Hcr). unfold echo_source in Hl. rewrite Hm in Hl.
  injection Hl as <-. rewrite echo_concat in H06, Hcr.
  exact (holds_C06_sig_views _ _ _ H06 Hcr Ht).
Qed.

(* iterating a binary file gives a good line list *)
Lemma removelast_cons_good (x : bytes) l : ends_lf x -> Forall ends_lf (removelast l) -> Forall ends_lf (removelast (x :: l)).
Proof. intros Hx Hl. destruct l; [constructor|]. change (removelast (x :: l :: l0)) with (x :: removelast (l :: l0)). constructor; assumption. Qed.

Lemma file_lines_from_lf s : forall cur, Forall ends_lf (removelast (file_lines_from s cur)).
Proof.
  induction s as [|c r IH]; intros cur; cbn [file_lines_from].
  - destruct cur; constructor.
  - destruct (c =? 10) eqn:E; [|apply IH]. apply Z.eqb_eq in E. subst c. apply removelast_cons_good; [|apply IH].
    exists (rev cur). unfold rev'. rewrite <- rev_alt. reflexivity.
Qed.

Lemma file_lines_good c : Forall byte c -> good_lines (file_lines c).
Proof. intros H. split; [apply file_lines_from_lf | rewrite file_lines_concat; exact H]. Qed.

Lemma build_code_tokens_spec :
  forall cwd fs lua_path fuel main_path main_content out,
  build_code_now cwd fs lua_path fuel main_path main_content = Ok out ->
  exists r pk, build_lua_now cwd fs lua_path fuel main_path main_content = Ok (r, pk) /\
    let toks := toks view sig_views in
    let lexes := lexes view sig_views in
    (Forall (fun e => lexes (header_line_now (fst e)) /\ lexes (concat (ReqEmbedInst.echo_lines (snd e)))) pk ->
     lexes main_content -> Forall byte main_content ->
     (forall m, from_lines (file_lines main_content) = Ok m ->
                good_lines (prepend_lines lua ReqEmbedInst.echo_lines require_lua_preamble_package
                                          require_lua_preamble_require header_line_now end_line_now nl_line_now m pk)) ->
     sig_views out = Some match pk with
                          | [] => toks main_content
                          | _ => concat (map toks require_lua_preamble_package)
                                 ++ concat (map (fun e => toks (header_line_now (fst e))
                                                          ++ toks (concat (ReqEmbedInst.echo_lines (snd e))) ++ toks end_line_now) pk)
                                 ++ concat (map toks require_lua_preamble_require) ++ toks main_content
                          end).
Proof.
  intros cwd fs lua_path fuel mp mc out H.
  destruct (build_code_tokens_now view sig_views good_lines sig_views_chunking sig_views_final_lf sig_views_nil
              (fun ls q t Hg Hq Ht => echo_views ls q t Hg Hq Ht)
              cwd fs lua_path fuel mp mc out H) as (r & pk & Hb & Ht).
  exists r, pk. split; [exact Hb|]. cbv zeta in *. intros Hpk Hmc HB Hgood.
  destruct constants_lex as (H1 & H2 & H3). apply Ht; try assumption. apply file_lines_good, HB.
Qed.
