(* The writer's nesting counter equals the reference depth (lemmas for Properties/C10.v).

   walk_depth: for a spanned, shaped tree x inside the domain [domD] (the domain of C09_aligned, minus table
   constructors with a trailing separator; every one-line if fenced by the first newline after its condition, which
   the parser guarantees), started with the cursor at c and _indent = the reference depth state at c
   (Proofs/TokenDepthProofs.v St), the walk over [view x] passes, with every non-empty white-space run that holds a
   newline token, the indent  token_depth ts i  of the significant token i the run ends at (Spec/TokenDepth.v: the
   number of blocks and brackets open at i, a closing token counted closed), and leaves _indent as it found it.
   The proof re-runs the induction of Proofs/AstWriterAligned.v with the counter and the depth state threaded
   through (Proofs/WriterCursorD.v emitsD).  The part of a one-line `if (c) ...` after its condition - where the
   writer's counter deviates from the reference depth (the else part is written one level deeper) - holds no newline
   token; there only the facts of the alignment proof are used (emitsD_tail). *)
From PV Require Import Base.Prelude Base.PySlice Spec.LuaTokens Spec.LuaGrammar Spec.FmtShape Spec.TokenDepth Model.Tokens Model.Parser
  Model.WriterChunks Model.AstWriter Model.WriterDomain Proofs.ParserProofs Proofs.TreeShape Proofs.WriterCursor Proofs.WriterCursorD
  Proofs.AstWriterProofs Proofs.AstWriterIndent Proofs.AstWriterAligned Proofs.TokenDepthProofs.
From Coq Require Import ZifyBool.
Ltac Zify.zify_post_hook ::= Z.to_euclidean_division_equations.

(* ---------- the two forms whose indentation deviates from the reference depth ---------- *)
(* no one-line if with an else part (present or dropped): the writer indents the else block by one, the reference
   counts the `else` of a one-line if as closing and opening (net zero); such tokens never begin a line.
   (Not an exclusion of walk_depth any more; kept for the examples of Properties/C10.v.) *)
Fixpoint no_short_else (t : tree) : bool :=
  match t with
  | Node tag _ _ sh fs =>
      (if (tag =? tStatIf) && sh then match fs with [_; Lst [_]] => true | _ => false end else true)
      && forallb no_short_else fs
  | Lst l => forallb no_short_else l
  | Paren _ _ x => no_short_else x
  | Hid x => no_short_else x
  | _ => true
  end.

(* no trailing field separator `{1,2,}`: it is written after the writer has left the table's level *)
Fixpoint no_hid (l : list tree) : bool :=
  match l with [] => true | Hid _ :: r => match r with [] => false | _ => no_hid r end | _ :: r => no_hid r end.

Fixpoint no_trailing_sep (t : tree) : bool :=
  match t with
  | Node tag _ _ sh fs =>
      (if tag =? tTableConstructor then
         match fs with [_; Lst l; _] => match l with _ :: _ :: _ => negb (is_hid (last l PNone)) | _ => true end | _ => true end
       else true)
      && forallb no_trailing_sep fs
  | Lst l => forallb no_trailing_sep l
  | Paren _ _ x => no_trailing_sep x
  | Hid x => no_trailing_sep x
  | _ => true
  end.

(* every one-line if ends no later than the first newline token after its condition (ParserProofs.fence_cond, as a
   boolean): what the parser's _max_pos fence guarantees (wf_fenced below) *)
Fixpoint fenced (ts : list token) (t : tree) : bool :=
  match t with
  | Node tag _ e sh fs =>
      (if (tag =? tStatIf) && sh
       then match fs with [_; Lst (Lst pr :: _)] => e <=? newline_after ts (cond_close pr + 1) | _ => false end
       else true)
      && forallb (fenced ts) fs
  | Lst l => forallb (fenced ts) l
  | Paren _ _ x => fenced ts x
  | Hid x => fenced ts x
  | _ => true
  end.

Lemma wf_fenced ts t : forall hi, wf ts hi t -> fenced ts t = true.
Proof.
  induction t as [tag s e sh fs IH| | l IH| | | | |i j x IH|x IH] using tree_ind'; intros hi H; try reflexivity.
  - apply wf_node_inv in H. destruct H as (_ & _ & H3 & H4). cbn [fenced]. apply andb_true_iff. split.
    + destruct ((tag =? tStatIf) && sh) eqn:E; [|reflexivity]. apply andb_true_iff in E. destruct E as [E1 E2].
      destruct (H4 ltac:(lia) E2) as (k & pr & ep & -> & Hle). unfold next_newline in Hle. lia.
    + clear H4. induction IH as [|x r Hx Hr IH2]; [reflexivity|]. cbn [wfl forallb] in *. destruct H3 as [H3 H3'].
      rewrite (Hx _ H3), (IH2 H3'). reflexivity.
  - apply wf_lst_inv in H. cbn [fenced]. induction IH as [|x r Hx Hr IH2]; [reflexivity|]. cbn [wfl forallb] in *.
    destruct H as [H H']. rewrite (Hx _ H), (IH2 H'). reflexivity.
  - cbn [wf fenced] in *. eapply IH; exact H.
  - cbn [wf fenced] in *. eapply IH; exact H.
Qed.

Section WD.
Variable ts : list token.
Variables binops unops : list pat.
Hypothesis Hplain : plain_tokens ts = true.
Hypothesis HbinP : forallb is_ptok binops = true.
Hypothesis HunP : forallb is_ptok unops = true.
Hypothesis HbinN : forallb neutral_pat binops = true.
Hypothesis HunN : forallb neutral_pat unops = true.

Local Notation sig := (ParserProofs.sig ts).
Local Notation sigb := (ParserProofs.sigb ts).
Local Notation len := (zlen ts).
Local Notation span := (span ts).
Local Notation spans := (spans ts).
Local Notation shaped := (shaped ts binops unops).
Local Notation mtok := (mtok ts).
Local Notation ctok := (ctok ts).
Local Notation optok := (optok ts).
Local Notation okpos := (okpos ts).
Local Notation tok_at := (AstWriter.tok_at ts).
Local Notation D := (token_depth ts).
Local Notation emitsD := (WriterCursorD.emitsD ts (token_depth ts)).
Local Notation movesD := (WriterCursorD.movesD ts (token_depth ts)).
Local Notation goodD := (WriterCursorD.goodD ts (token_depth ts)).
Local Notation St := (TokenDepthProofs.St ts).
Local Notation balanced := (TokenDepthProofs.balanced ts).
Local Notation kwleaf := (AstWriterAligned.kwleaf ts).
Local Notation nearB := (nearB ts).

Definition domD (x : tree) : bool := AstWriterAligned.dom ts x && fenced ts x && no_trailing_sep x.

(* ------------------------------------------------------------------ leaves *)
Lemma emitsD_kw B E tag s e sh fs d c i :
  kwleaf d i -> [i] = sig c (i + 1) -> i < e -> E = D i ->
  emitsD B E E (get_text ts (Node tag s e sh fs) d) c (i + 1).
Proof.
  intros Hk Hi He HD. destruct (kwleaf_spec ts Hplain _ _ Hk) as (t & Ht & Hm & Hc).
  eapply emitsD_get_text; eassumption.
Qed.

Lemma emitsD_name B E tag s e sh fs c i t :
  ctok CName i t -> [i] = sig c (i + 1) -> i < e -> E = D i ->
  emitsD B E E (get_name ts (Node tag s e sh fs) t) c (i + 1).
Proof. intros [Ht Hm] Hi He HD. apply emitsD_get_name; [exact Hi | exact He | exact HD | exact Hm]. Qed.

Lemma emitsD_op B E ps tag s e sh fs c i t :
  forallb is_ptok ps = true -> optok ps i t -> [i] = sig c (i + 1) -> i < e -> E = D i ->
  emitsD B E E (with_code (Tok i t) (get_text ts (Node tag s e sh fs))) c (i + 1).
Proof.
  intros Hps Ho Hi He HD. destruct (optok_spec ts Hplain _ _ _ Hps Ho) as [Ht Hm]. cbn [with_code].
  eapply emitsD_get_text; eassumption.
Qed.

Lemma emitsD_tokcode B E tag s e sh fs c i text :
  [i] = sig c (i + 1) -> i < e -> E = D i ->
  emitsD B E E (spaces ts (Node tag s e sh fs) >> advance_emit text) c (i + 1).
Proof. intros Hi He HD. unfold spaces, bound_of. apply emitsD_spaces_advance; assumption. Qed.

Lemma emitsD_tokcode_checked B E tag s e sh fs c i t :
  ParserProofs.tok_at ts i = Some t -> [i] = sig c (i + 1) -> i < e -> E = D i ->
  emitsD B E E (spaces ts (Node tag s e sh fs) >>
                with_cur ts (fun u => if tok_eqb t u then advance_emit (tcode t) else fail_with AssertionError)) c (i + 1).
Proof.
  intros Ht Hi He HD. rewrite tok_at_same in Ht. unfold spaces, bound_of.
  eapply emitsD_spaces_cur; [exact Hi | exact He | exact HD | exact Ht|]. rewrite tok_eqb_refl.
  apply emitsDX_advance. apply first_sig_inv in Hi. destruct Hi as (_ & Hs & _). apply sigb_range in Hs. lia.
Qed.

Lemma emitsD_goto_name B E tag s e sh fs c i t :
  [i] = sig c (i + 1) -> i < e -> E = D i ->
  emitsD B E E (get_name ts (Node tag s e sh fs) (mk_name (tdata t))) c (i + 1).
Proof. intros Hi He HD. apply emitsD_get_name; [exact Hi | exact He | exact HD | reflexivity]. Qed.

Lemma emitsD_label B E tag s e sh fs c i text :
  [i] = sig c (i + 1) -> i < e -> okpos e -> E = D i ->
  emitsD B E E (spaces ts (Node tag s e sh fs) >> spaces ts (Node tag s e sh fs) >> advance_emit text) c (i + 1).
Proof.
  intros Hi He Hok HD.
  eapply emitsD_after; [apply movesD_spaces; [exact Hok | intros j Hj _; rewrite (first_sig_unique ts _ _ _ Hj Hi); exact HD]|].
  unfold spaces, bound_of. apply emitsD_spaces_advance; assumption.
Qed.

(* ------------------------------------------------------------------ program equalities *)
Lemma emitsD_assoc B E E' a b c0 c c' : emitsD B E E' (a >> (b >> c0)) c c' -> emitsD B E E' ((a >> b) >> c0) c c'.
Proof. apply emitsD_ext. intros. apply seq_assoc. Qed.
Lemma emitsD_skip_l B E E' m c c' : emitsD B E E' m c c' -> emitsD B E E' (skip >> m) c c'.
Proof. apply emitsD_ext. intros. apply seq_skip_l. Qed.
Lemma emitsD_skip_r B E E' m c c' : emitsD B E E' m c c' -> emitsD B E E' (m >> skip) c c'.
Proof. apply emitsD_ext. intros. apply seq_skip_r. Qed.

(* ------------------------------------------------------------------ ExpValue *)
Lemma ev_plainD B E tag s e sh fs (VALUE : WM) c i t :
  [i] = sig c (i + 1) -> i < e -> E = D i -> tok_at i = Some t -> tok_eqb t lparen = false ->
  emitsD i E E VALUE i e ->
  emitsD B E E (spaces ts (Node tag s e sh fs) >>
            with_cur ts (fun t => (if tok_eqb t (mkTok CSymbol 0 "("%bs "("%bs) then advance_emit "("%bs >> indent_by 1 else skip) >>
                                  VALUE >>
                                  (if tok_eqb t (mkTok CSymbol 0 "("%bs "("%bs) then indent_by (-1) >> get_text ts (Node tag s e sh fs) ")"%bs else skip)))
    c e.
Proof.
  intros Hi He HD Ht Hp Hv. unfold spaces, bound_of.
  eapply emitsD_spaces_cur; [exact Hi | exact He | exact HD | exact Ht|]. unfold lparen in Hp. rewrite Hp.
  apply emitsD_skip_l. apply emitsD_skip_r. exact Hv.
Qed.

Lemma ev_parenD B E tag s e sh fs (VALUE : WM) c i j m :
  [i] = sig c (i + 1) -> mtok (psym "("%bs) i -> E = D i -> emitsD (i + 1) (E + 1) (E + 1) VALUE (i + 1) m ->
  [j] = sig m (j + 1) -> mtok (psym ")"%bs) j -> e = j + 1 -> E = D j ->
  emitsD B E E (spaces ts (Node tag s e sh fs) >>
            with_cur ts (fun t => (if tok_eqb t (mkTok CSymbol 0 "("%bs "("%bs) then advance_emit "("%bs >> indent_by 1 else skip) >>
                                  VALUE >>
                                  (if tok_eqb t (mkTok CSymbol 0 "("%bs "("%bs) then indent_by (-1) >> get_text ts (Node tag s e sh fs) ")"%bs else skip)))
    c e.
Proof.
  intros Hi Hmi HDi Hv Hj Hmj -> HDj. assert (Hki : kwleaf "("%bs i) by (left; exact Hmi).
  destruct (kwleaf_spec ts Hplain _ _ Hki) as (t & Ht & _ & Hc).
  assert (Hp : tok_eqb t (mkTok CSymbol 0 "("%bs "("%bs) = true) by (exact (mtok_tok ts binops unops Hplain HbinP HunP _ _ _ Hmi Ht)).
  pose proof (sig_one_bounds ts _ _ Hi). pose proof (sig_one_bounds ts _ _ Hj).
  destruct (first_sig_inv ts _ _ Hi) as (_ & Hsi & _). pose proof (sigb_range ts _ Hsi) as Hri.
  assert (Hle : i + 1 <= m).
  { destruct (Hv (mkW (i + 1) (E + 1) [])) as (? & ? & _ & _ & Hq & _); [change (nearB (i + 1) (i + 1) (i + 1)); apply nearB_exact; lia | reflexivity | exact Hq]. }
  unfold spaces, bound_of.
  eapply emitsD_spaces_cur; [exact Hi | lia | exact HDi | exact Ht|]. rewrite Hp.
  apply emitsD_assoc.
  eapply emitsD_seq; [apply emitsDX_advance; lia|].
  eapply emitsD_after; [apply movesD_indent|]. eapply emitsD_seq; [exact Hv|].
  eapply emitsD_after; [apply movesD_indent|]. replace (E + 1 + -1) with E by lia.
  eapply emitsD_kw; [left; exact Hmj | exact Hj | lia | exact HDj].
Qed.

Lemma emitsD_from_first B E E' m c c' i : 0 <= c -> emitsD B E E' m c c' -> [i] = sig c (i + 1) -> i < B -> i <= c' -> emitsD i E E' m i c'.
Proof.
  intros H0 H Hi HB Hle st Hn He. pose proof (nearB_tight ts _ _ _ Hn (Z.le_refl i)) as Hp.
  destruct (H st) as (st' & cs & X & P & Q & I & O & G).
  - rewrite Hp. split; [exact H0 | right; split; [exact Hi | exact HB]].
  - exact He.
  - exists st', cs. split; [exact X|]. split; [exact P|]. split; [exact Hle|]. split; [exact I|]. split; [exact O | exact G].
Qed.


(* ------------------------------------------------------------------ tactics (those of AstWriterAligned.v / TokenDepthProofs.v) *)
Ltac inv_spans :=
  repeat match goal with
  | H : TreeShape.spans _ (_ :: _) _ _ |- _ => inversion H; clear H; subst
  | H : TreeShape.spans _ [] _ _ |- _ => inversion H; clear H; subst
  | H : TreeShape.span _ (Kw _) _ _ |- _ => inversion H; clear H; subst
  | H : TreeShape.span _ (Tok _ _) _ _ |- _ => inversion H; clear H; subst
  | H : TreeShape.span _ (Hid _) _ _ |- _ => inversion H; clear H; subst
  | H : TreeShape.span _ (Lst _) _ _ |- _ => inversion H; clear H; subst
  | H : TreeShape.span _ (Paren _ _ _) _ _ |- _ => inversion H; clear H; subst
  | H : TreeShape.span _ PNone _ _ |- _ => inversion H; clear H; subst
  | H : TreeShape.span _ (PBool _) _ _ |- _ => inversion H; clear H; subst
  | H : TreeShape.span _ (PBytes _) _ _ |- _ => inversion H; clear H; subst
  end.

Ltac pos_facts :=
  repeat match goal with
  | H : [?i] = ParserProofs.sig _ ?c (?i + 1) |- _ =>
      lazymatch goal with _ : c <= i |- _ => fail | _ => pose proof (sig_one_bounds ts _ _ H) end
  | H : TreeShape.span _ ?x ?c ?m |- _ =>
      lazymatch goal with _ : c <= m |- _ => fail | _ => pose proof (span_le ts _ _ _ H) end
  | H : TreeShape.spans _ ?x ?c ?m |- _ =>
      lazymatch goal with _ : c <= m |- _ => fail | _ => pose proof (spans_le ts _ _ _ H) end
  end.

Ltac ok_facts :=
  repeat match goal with
  | H : [?i] = ParserProofs.sig _ ?c (?i + 1) |- _ =>
      lazymatch goal with _ : WriterCursor.okpos _ (i + 1) |- _ => fail | _ => pose proof (okpos_leaf ts _ _ H) end
  | H : TreeShape.span _ ?x ?c ?m, Hc : WriterCursor.okpos _ ?c |- _ =>
      lazymatch goal with _ : WriterCursor.okpos _ m |- _ => fail | _ => pose proof (span_okpos ts _ _ _ H Hc) end
  | H : TreeShape.spans _ ?x ?c ?m, Hc : WriterCursor.okpos _ ?c |- _ =>
      lazymatch goal with _ : WriterCursor.okpos _ m |- _ => fail | _ => pose proof (spans_okpos ts _ _ _ H Hc) end
  end.

Ltac eval_eqb H :=
  repeat match type of H with
         | context [?a =? ?b] => let v := eval vm_compute in (a =? b) in change (a =? b) with v in H
         end; cbv iota in H.

(* one step of the reference depth state along a field list *)
Ltac adv :=
  match goal with
  | HS : TokenDepthProofs.St _ ?c = mk_dstate ?d ?f, Hs : [?i] = ParserProofs.sig _ ?c (?i + 1), Hm : TreeShape.mtok _ (PTok ?k ?w) ?i |- _ =>
      lazymatch goal with _ : TokenDepthProofs.St _ (i + 1) = _ |- _ => fail | _ => idtac end;
      let H1 := fresh "HS" in let H2 := fresh "HD" in
      destruct (S_mtok ts binops unops Hplain k w c i ltac:(lia) Hs Hm ltac:(first [left; reflexivity | right; reflexivity]) eq_refl) as [H1 H2];
      rewrite HS in H1, H2;
      let K := fresh "K" in pose proof (kind_spec (mk_dstate d f) (mkTok k 0 w w)) as K;
      let kk := eval vm_compute in (kind_of (mkTok k 0 w w)) in change (kind_of (mkTok k 0 w w)) with kk in K;
      cbv iota in K; cbn [d_depth d_fun] in K; eval_eqb K; destruct K as [K1 K2]; rewrite K1 in H2; rewrite K2 in H1; clear K1 K2
  | HS : TokenDepthProofs.St _ ?c = mk_dstate ?d ?f, Hs : [?i] = ParserProofs.sig _ ?c (?i + 1), Hc : TreeShape.ctok _ ?k ?i ?t |- _ =>
      lazymatch goal with _ : TokenDepthProofs.St _ (i + 1) = _ |- _ => fail | _ => idtac end;
      let H1 := fresh "HS" in let H2 := fresh "HD" in
      destruct (S_neutral ts binops unops c i t ltac:(lia) Hs ltac:(rewrite <- tok_at_same; exact (proj1 Hc)) (ctok_neutral ts k i t Hc I)) as [H1 H2];
      rewrite HS in H1, H2; cbn [d_depth] in H2
  | HS : TokenDepthProofs.St _ ?c = mk_dstate ?d ?f, Hs : [?i] = ParserProofs.sig _ ?c (?i + 1), Ho : TreeShape.optok _ ?ps ?i ?t |- _ =>
      lazymatch goal with _ : TokenDepthProofs.St _ (i + 1) = _ |- _ => fail | _ => idtac end;
      let H1 := fresh "HS" in let H2 := fresh "HD" in
      destruct (S_neutral ts binops unops c i t ltac:(lia) Hs ltac:(rewrite <- tok_at_same; exact (proj1 Ho))
                  (optok_neutral ts Hplain ps i t ltac:(first [exact HbinN | exact HunN | reflexivity]) Ho)) as [H1 H2];
      rewrite HS in H1, H2; cbn [d_depth] in H2
  | HS : TokenDepthProofs.St _ ?c = mk_dstate ?d ?f, Hsp : TreeShape.span _ ?y ?c ?m, Hb : TokenDepthProofs.balanced _ ?k' ?y |- _ =>
      lazymatch goal with _ : TokenDepthProofs.St _ m = _ |- _ => fail | _ => idtac end;
      let H1 := fresh "HS" in
      assert (H1 : St m = exitst k' (St c)) by (apply (Hb c m Hsp); [lia | rewrite HS; cbn [pre d_fun]; first [reflexivity | exact I]]);
      rewrite HS in H1; cbn [exitst d_depth d_fun] in H1
  end.

(* ------------------------------------------------------------------ every node but a Chunk has a first leaf *)
Lemma nonempty_first : forall m k x c c', (tsize x <= m)%nat -> shaped k x -> k <> cChunk -> AstWriterAligned.dom ts x = true -> span x c c' ->
  exists i, [i] = sig c (i + 1) /\ i < c'.
Proof.
  induction m as [|m IH]; intros k x c c' Hsz Hsh Hk Hdom Hsp; [destruct x; cbn [tsize] in Hsz; lia|].
  assert (IHf : forall k' y r tag s e sh m0, x = Node tag s e sh (y :: r) -> shaped k' y -> k' <> cChunk -> span y c m0 -> m0 <= c' ->
                exists i, [i] = sig c (i + 1) /\ i < c').
  { intros k' y r tag s e sh m0 -> Hy Hk' Hs Hle. destruct (IH k' y c m0) as (i & Hi & Hlt); [cbn [tsize fold_right] in Hsz; lia | exact Hy | exact Hk' | eapply dom_node_in; [exact Hdom | left; reflexivity] | exact Hs |].
    exists i. split; [exact Hi | lia]. }
  inversion Hsh; subst; try congruence; apply span_node_inv in Hsp; destruct Hsp as [-> Hsp].
  all: try solve [exfalso; unfold AstWriterAligned.dom in Hdom; apply andb_true_iff in Hdom; destruct Hdom as [_ Hdom]; cbn in Hdom; discriminate Hdom].
  all: try solve [inversion Hsp as [|xx rr cc m0 cc' Hx Hr]; subst; pose proof (spans_le ts _ _ _ Hr);
                  first [ inversion Hx; subst; eexists; split; [eassumption | lia]
                        | inversion Hx as [| | | | | | | |]; subst;
                          match goal with Hh : TreeShape.span _ (Tok _ _) _ _ |- _ => inversion Hh; subst; eexists; split; [eassumption | lia] end ]].
  all: try solve [inversion Hsp as [|xx rr cc m0 cc' Hx Hr]; subst; pose proof (spans_le ts _ _ _ Hr);
                  match goal with
                  | Hy : TreeShape.shaped _ _ _ ?k' ?y |- _ =>
                      match type of Hx with TreeShape.span _ y _ _ => eapply (IHf k' y); [reflexivity | exact Hy | discriminate | exact Hx | lia] end
                  end].
  (* parenthesised value *)
  1: { inv_spans. pos_facts. eexists. split; [eassumption | lia]. }
  (* suffixes: the prefix is not parenthesised *)
  1, 2, 3, 4: (match goal with H : TreeShape.shaped _ _ _ cPrefix ?p \/ is_paren ?p = true |- _ =>
         assert (Hp : is_paren p = false) by (eapply npp_first; [apply (dom_npp ts); exact Hdom | reflexivity]);
         destruct H as [H|H]; [|congruence];
         inversion Hsp as [|xx rr cc m0 cc' Hx Hr]; subst; pose proof (spans_le ts _ _ _ Hr);
         eapply (IHf cPrefix p); [reflexivity | exact H | discriminate | exact Hx | lia] end).
  (* lists *)
  1, 2, 3: (inv_spans; pos_facts; eexists; split; [eassumption | lia]).
  1, 2: (inversion Hsp as [|xx rr cc m0 cc' Hx Hr]; subst; inversion Hx as [| | |l0 c0 c0' Hl| | | | |]; subst;
         inversion Hl as [|xx2 rr2 cc2 m2 cc2' Hx2 Hr2]; subst; pose proof (spans_le ts _ _ _ Hr2); inversion Hr; subst;
         match goal with Hy : TreeShape.shaped _ _ _ ?k' ?y |- _ =>
           match type of Hx2 with TreeShape.span _ y _ _ =>
             destruct (IH k' y c m2) as (i & Hi & Hlt);
               [cbn [tsize fold_right] in Hsz; lia | exact Hy | discriminate |
                eapply dom_lst_in; [eapply dom_node_in; [exact Hdom | left; reflexivity] | left; reflexivity] | exact Hx2 |];
             exists i; split; [exact Hi | lia] end end).
Qed.



(* ------------------------------------------------------------------ the statement proved by induction on the tree *)
Definition hitok (c c' E : Z) : Prop := forall j, [j] = sig c (j + 1) -> j < c' -> E = D j.

Definition wokD (k : cat) (x : tree) : Prop :=
  forall n c c' B E, (tdepth (view x) <= n)%nat -> span x c c' -> okpos c -> (k = cChunk -> B <= c) ->
    E = d_depth (St c) -> pre k (St c) ->
    emitsD B E E (walk ts n (view x)) c c' /\ hitok c c' E.

(* ------------------------------------------------------------------ semicolons *)
Definition movesLD (B B' E : Z) (m : WM) (c c1 : Z) : Prop :=
  forall st, nearB c B (w_pos st) -> w_ind st = E ->
  exists st' cs, m st = Ok st' /\ nearB c1 B' (w_pos st') /\ c <= c1 /\ w_ind st' = E /\ w_out st' = rev cs ++ w_out st /\ Forall goodD cs.

Lemma emitsD_afterL B B' E E2 m1 m2 c c1 c2 :
  movesLD B B' E m1 c c1 -> emitsD B' E E2 m2 c1 c2 -> emitsD B E E2 (m1 >> m2) c c2.
Proof.
  intros H1 H2 st Hn He. destruct (H1 st Hn He) as (st1 & cs1 & X1 & N1 & Q1 & I1 & O1 & G1).
  destruct (H2 st1 N1 I1) as (st2 & cs2 & X2 & P2 & Q2 & I2 & O2 & G2).
  exists st2, (cs1 ++ cs2). unfold seq. rewrite X1. split; [exact X2|]. split; [exact P2|]. split; [lia|]. split; [exact I2|].
  split; [rewrite O2, O1, rev_app_distr, app_assoc; reflexivity | apply Forall_app; split; assumption].
Qed.

Lemma movesLD_exact B B' E m c c1 : movesLD B B' E m c c1 -> B' <= c1 -> emitsD B E E m c c1.
Proof.
  intros H Hle st Hn He. destruct (H st Hn He) as (st' & cs & X & N & Q & I & O & G).
  exists st', cs. split; [exact X|]. split; [exact (nearB_tight ts _ _ _ N Hle)|]. split; [exact Q|]. split; [exact I|]. split; [exact O | exact G].
Qed.

Lemma get_semis_runD tag s e sh fs E : okpos e -> forall sm c c1, Forall (semi_leaf ts) sm -> spans sm c c1 -> c1 <= e ->
  stopsemi ts e c1 -> (forall i, In i (flat_map leaves sm) -> E = D i) -> hitok c1 e E ->
  forall n B st, B <= e -> nearB c B (w_pos st) -> w_ind st = E -> (Z.to_nat (len - w_pos st) < n)%nat ->
  exists st' cs, get_semis ts n (Node tag s e sh fs) st = Ok st' /\ nearB c1 e (w_pos st') /\ c <= c1 /\ w_ind st' = E /\
                 w_out st' = rev cs ++ w_out st /\ Forall goodD cs.
Proof.
  intros Hoe sm. induction sm as [|x sm IH]; intros c c1 Hsm Hsp.
  - inversion Hsp; subst. intros Hc1 Hstop HDs Hhit n B st HB Hn He Hfuel. destruct n as [|n]; [lia|]. cbn [get_semis].
    destruct (movesD_spaces ts (token_depth ts) B E tag s e sh fs c1 Hoe Hhit st Hn He) as (st1 & cs1 & X1 & N1 & I1 & O1 & G1).
    rewrite Z.max_r in N1 by exact HB.
    exists st1, cs1. unfold seq. rewrite X1. unfold with_peek. cbv beta.
    assert (Hres : forall r, r = Ok st1 -> r = Ok st1 /\ nearB c1 e (w_pos st1) /\ c1 <= c1 /\ w_ind st1 = E /\ w_out st1 = rev cs1 ++ w_out st /\ Forall goodD cs1).
    { intros r ->. split; [reflexivity|]. split; [exact N1|]. split; [lia|]. split; [exact I1|]. split; [exact O1 | exact G1]. }
    apply Hres. destruct (tok_at (w_pos st1)) as [t|] eqn:Et; [|reflexivity].
    assert (Hns : tok_eqb t semi = false) by (apply (Hstop (w_pos st1) t); [exact N1 | exact Et]).
    unfold semi in Hns. rewrite Hns. reflexivity.
  - inversion Hsm as [|x0 sm0 Hx Hsm']; subst. destruct Hx as (i & -> & Hi).
    inversion Hsp as [|x0 r0 c0 m0 c0' Hxs Hrs]; subst. inversion Hxs as [i0 c0 Hsig| | | | | | | |]; subst.
    intros Hc1 Hstop HDs Hhit n B st HB Hn He Hfuel.
    pose proof (spans_le ts _ _ _ Hrs) as Hle. destruct (first_sig_inv ts _ _ Hsig) as (A1 & A2 & A3).
    destruct n as [|n]; [lia|]. cbn [get_semis].
    assert (Hk : kwleaf ";"%bs i) by (left; exact Hi). destruct (kwleaf_spec ts Hplain _ _ Hk) as (t & Ht & Hm & Hcode).
    assert (HDi : E = D i) by (apply HDs; cbn [flat_map leaves]; left; reflexivity).
    destruct (spaces_hitD ts (token_depth ts) e c B E i st Hsig ltac:(lia) HDi Hn He) as (st1 & cs1 & X1 & P1 & I1 & O1 & G1).
    assert (Hsemi : tok_eqb t (mkTok CSymbol 0 ";"%bs ";"%bs) = true).
    { destruct Hi as (u & Hu & Hmu). rewrite tok_at_same in Hu. assert (u = t) by congruence. subst u. exact Hmu. }
    set (st2 := mkW (i + 1) (w_ind st1) (Code i ";"%bs :: w_out st1)).
    assert (Hn2 : nearB (i + 1) (i + 1) (w_pos st2)) by (change (nearB (i + 1) (i + 1) (i + 1)); apply nearB_exact; destruct Hn; lia).
    pose proof (sigb_range ts _ A2) as Hir. pose proof (nearB_le ts _ _ _ Hn) as Hcp.
    destruct (IH (i + 1) c1 Hsm' Hrs Hc1 Hstop ltac:(intros j Hj; apply HDs; cbn [flat_map leaves]; right; exact Hj) Hhit n (i + 1) st2 ltac:(lia) Hn2 I1)
      as (st3 & cs3 & X3 & N3 & Q3 & I3 & O3 & G3).
    { change (w_pos st2) with (i + 1).
      assert (w_pos st <= i) by (destruct Hn as [_ [Hp|[Hp _]]]; [lia | rewrite (first_sig_unique ts _ _ _ Hp Hsig); lia]). lia. }
    exists st3, (cs1 ++ Code i ";"%bs :: cs3). unfold seq, spaces, bound_of. rewrite X1. unfold with_peek. rewrite P1, Ht, Hsemi.
    unfold seq, advance_emit. rewrite P1. fold st2. split; [exact X3|].
    split; [exact N3|]. split; [lia|]. split; [exact I3|].
    split; [rewrite O3; cbn [w_out st2]; rewrite O1, rev_app_distr; cbn [rev]; rewrite <- !app_assoc; reflexivity|].
    apply Forall_app. split; [exact G1 | constructor; [exact I | exact G3]].
Qed.

Lemma movesD_semis B E tag s e sh fs sm c c1 : okpos e -> Forall (semi_leaf ts) sm -> spans sm c c1 -> c1 <= e -> stopsemi ts e c1 ->
  (forall i, In i (flat_map leaves sm) -> E = D i) -> hitok c1 e E ->
  B <= e -> movesLD B e E (semis ts (Node tag s e sh fs)) c c1.
Proof.
  intros He Hsm Hsp Hc1 Hstop HDs Hhit HB st Hn Hi. unfold semis, with_st.
  eapply get_semis_runD; try eassumption. unfold ntok. lia.
Qed.

(* ------------------------------------------------------------------ the dropped else of a one-line if: nothing to find *)
Lemma dropped_noneD E tag s e sh fs pairs vt vs ve vsh vfs b :
  last pairs (Lst []) = Lst [Node vt vs ve vsh vfs; b] ->
  emitsD e E E (dropped_else ts (Node tag s e sh fs) pairs) e e.
Proof.
  intros Hl st Hn He. pose proof (nearB_tight ts _ _ _ Hn (Z.le_refl e)) as Hp. exists st, [].
  unfold dropped_else. rewrite Hl. unfold with_st. cbn [node_end]. rewrite Hp, skip_trivia_idx_at, Z.ltb_irrefl. cbn [andb].
  split; [destruct (AstWriter.tok_at ts e); reflexivity|]. split; [first [reflexivity | exact Hp]|]. split; [lia|]. split; [exact He|]. split; [reflexivity | constructor].
Qed.


(* ------------------------------------------------------------------ handlers *)
Ltac view_norm :=
  repeat first [ rewrite view_node in * | rewrite views_kw in * | rewrite views_hid in * | rewrite views_tok in * | rewrite views_none in *
               | rewrite views_bool in * | rewrite views_bytes in * | rewrite views_lst in * | rewrite views_paren in *
               | rewrite views_nil in * | rewrite views_app in *
               | rewrite views_vis in * by (eapply shaped_not_hidden; eassumption) ].

Ltac walk_unfold :=
  cbn [walk];
  repeat match goal with
         | |- context [if ?a =? ?b then _ else _] =>
             let v := eval vm_compute in (a =? b) in
             change (a =? b) with v; cbv iota
         end;
  cbn [field nth].

Ltac kw_tac := first [ assumption | left; assumption | right; split; [assumption | reflexivity] ].

(* the indent at a leaf is its reference depth: from the facts collected by adv *)
Ltac dtac :=
  first [ reflexivity
        | lazymatch goal with
          | |- _ = TokenDepth.token_depth _ ?i =>
              match goal with HD : TokenDepth.token_depth _ i = _ |- _ => rewrite HD; lia end
          end
        | repeat match goal with HD : TokenDepth.token_depth _ _ = _ |- _ => rewrite HD in *; clear HD end; lia ].

Ltac leaf_stepD :=
  lazymatch goal with
  | |- WriterCursorD.emitsD _ _ _ _ _ (get_text _ _ _) ?c _ =>
      match goal with Hs : [?i] = ParserProofs.sig _ c (?i + 1) |- _ => eapply (emitsD_kw _ _ _ _ _ _ _ _ c i); [kw_tac | exact Hs | lia | dtac] end
  | |- WriterCursorD.emitsD _ _ _ _ _ (get_name _ _ (mk_name _)) ?c _ =>
      match goal with Hs : [?i] = ParserProofs.sig _ c (?i + 1) |- _ => eapply (emitsD_goto_name _ _ _ _ _ _ _ c i); [exact Hs | lia | dtac] end
  | |- WriterCursorD.emitsD _ _ _ _ _ (get_name _ _ _) ?c _ =>
      match goal with Hs : [?i] = ParserProofs.sig _ c (?i + 1) |- _ => eapply (emitsD_name _ _ _ _ _ _ _ c i); [eassumption | exact Hs | lia | dtac] end
  | |- WriterCursorD.emitsD _ _ _ _ _ (name_tok (Tok _ _) _) ?c _ => cbn [name_tok]; leaf_stepD
  | |- WriterCursorD.emitsD _ _ _ _ _ (with_code (Tok _ _) _) ?c _ =>
      match goal with Hs : [?i] = ParserProofs.sig _ c (?i + 1), Ho : TreeShape.optok _ ?ps ?i _ |- _ =>
        eapply (emitsD_op _ _ ps _ _ _ _ _ c i); [first [exact assign_ops_ptok | exact HbinP | exact HunP] | exact Ho | exact Hs | lia | dtac] end
  | |- WriterCursorD.emitsD _ _ _ _ _ (walk _ _ (view ?y)) ?c _ =>
      match goal with Hy : wokD _ y, Hs : TreeShape.span _ y c _, HS : TokenDepthProofs.St _ c = _ |- _ =>
        eapply proj1; eapply Hy;
          [ cbn [tdepth fold_right] in *; lia | exact Hs | assumption
          | let H := fresh in intros H; first [discriminate H | lia]
          | rewrite HS; cbn [d_depth]; lia
          | rewrite HS; cbn [pre d_fun]; first [reflexivity | exact I] ] end
  | |- WriterCursorD.emitsD _ _ _ _ _ (spaces _ _ >> advance_emit _) ?c _ =>
      match goal with Hs : [?i] = ParserProofs.sig _ c (?i + 1) |- _ =>
        eapply (emitsD_tokcode _ _ _ _ _ _ _ c i); [exact Hs | lia | dtac] end
  | |- WriterCursorD.emitsD _ _ _ _ _ (spaces _ _ >> with_cur _ _) ?c _ =>
      match goal with Hs : [?i] = ParserProofs.sig _ c (?i + 1), Hc : TreeShape.ctok _ _ ?i _ |- _ =>
        eapply (emitsD_tokcode_checked _ _ _ _ _ _ _ c i); [exact (proj1 Hc) | exact Hs | lia | dtac] end
  | |- WriterCursorD.emitsD _ _ _ _ _ skip _ _ => first [ apply emitsDX_skip | apply emitsD_skip; lia ]
  | |- WriterCursorD.emitsD _ _ _ _ _ (indent_by _) _ _ => apply emitsDX_indent
  end.

Ltac chainD :=
  lazymatch goal with
  | |- WriterCursorD.emitsD _ _ _ _ _ (indent_by _ >> _) _ _ => eapply emitsD_after; [apply movesD_indent | chainD]
  | |- WriterCursorD.emitsD _ _ _ _ _ (skip >> _) _ _ => apply emitsD_skip_l; chainD
  | |- WriterCursorD.emitsD _ _ _ _ _ ((_ >> _) >> _) _ _ => apply emitsD_assoc; chainD
  | |- WriterCursorD.emitsD _ _ _ _ _ (spaces _ _ >> advance_emit _) _ _ => leaf_stepD
  | |- WriterCursorD.emitsD _ _ _ _ _ (spaces _ _ >> with_cur _ _) _ _ => leaf_stepD
  | |- WriterCursorD.emitsD _ _ _ _ _ (if_pairs _ _ _ _ _ _ >> _) _ _ => idtac
  | |- WriterCursorD.emitsD _ _ _ _ _ (dropped_else _ _ _) _ _ => idtac
  | |- WriterCursorD.emitsD _ _ _ _ _ (_ >> _) _ _ => eapply emitsD_seq; [leaf_stepD | chainD]
  | |- WriterCursorD.emitsD _ _ _ _ _ _ _ _ => leaf_stepD
  end.

Ltac open_views :=
  repeat match goal with
         | |- context [match view ?y with _ => _ end] =>
             let Ev := fresh "Ev" in
             destruct (view_is_node ts binops unops _ y ltac:(eassumption)) as (? & ? & ? & ? & ? & Ev); rewrite Ev; cbv iota; rewrite <- Ev
         end.

Ltac class_tests :=
  repeat match goal with
         | H : TreeShape.ctok _ ?k _ ?t |- context [kclass_eqb (tk ?t) ?k] =>
             let Hm := fresh in pose proof (proj2 H) as Hm; cbn [matches] in Hm; rewrite Hm; clear Hm
         | H : TreeShape.ctok _ ?k _ ?t |- context [match tk ?t with _ => _ end] =>
             let Hm := fresh in pose proof (proj2 H) as Hm; cbn [matches] in Hm; apply kclass_eqb_eq in Hm; rewrite Hm; clear Hm
         end.

(* the final indent is the entry indent, whatever arithmetic the chain produced *)
Lemma emitsD_convE B E E1 E2 m c c' : emitsD B E E1 m c c' -> E1 = E2 -> emitsD B E E2 m c c'.
Proof. intros H <-. exact H. Qed.

Lemma emitsD_convIn B E E0 E' m c c' : emitsD B E E' m c c' -> E = E0 -> emitsD B E0 E' m c c'.
Proof. intros H <-. exact H. Qed.

(* the first significant token after c is i *)
Lemma hitok_leaf c c' E i : [i] = sig c (i + 1) -> E = D i -> hitok c c' E.
Proof. intros Hi HD j Hj _. rewrite (first_sig_unique ts _ _ _ Hj Hi). exact HD. Qed.


(* ------------------------------------------------------------------ lists *)
Ltac name_rest_tac :=
  let Hr := fresh "Hr" in
  intros r Hr; induction Hr as [|cm x r Hcm (i & t & -> & Hx) Hr IH]; intros c c' d f Hsp Hle Hc0 HS;
  [ inv_spans; apply emitsDX_skip
  | inv_spans; pos_facts; unfold psym in *; repeat adv; rewrite views_kw, views_tok; cbn [name_rest];
    eapply emitsD_seq; [leaf_stepD | eapply emitsD_seq; [leaf_stepD | eapply IH; [eassumption | lia | lia | eassumption]]] ].

Lemma name_rest_okD_comma tag s e sh vfs : forall r, seplist ts (name_leaf ts) (psym ","%bs) r ->
  forall c c' d f, spans r c c' -> c' <= e -> 0 <= c -> St c = mk_dstate d f ->
  emitsD c d d (name_rest ts (Node tag s e sh vfs) ","%bs (views r)) c c'.
Proof. name_rest_tac. Qed.

Lemma name_rest_okD_dot tag s e sh vfs : forall r, seplist ts (name_leaf ts) (psym "."%bs) r ->
  forall c c' d f, spans r c c' -> c' <= e -> 0 <= c -> St c = mk_dstate d f ->
  emitsD c d d (name_rest ts (Node tag s e sh vfs) "."%bs (views r)) c c'.
Proof. name_rest_tac. Qed.

Ltac sep_rest_tac :=
  let Hr := fresh "Hr" in
  intros r Hr; induction Hr as [|cm x r Hcm Hx Hr IH]; intros Hw Hd c c' d Hsp Hle Hok HS;
  [ inv_spans; apply emitsDX_skip
  | destruct (Hw x (or_intror (or_introl eq_refl)) Hx) as [Hwx Hbx];
    inv_spans; pos_facts; ok_facts; assert (Hc0 : 0 <= c) by (destruct Hok; lia); unfold psym in *; repeat adv;
    rewrite views_kw in *; rewrite views_vis in * by (eapply shaped_not_hidden; exact Hx);
    inversion Hd as [|v vs Hv Hvs]; subst; cbn [sep_rest];
    eapply emitsD_seq; [leaf_stepD | eapply emitsD_seq; [leaf_stepD |
      eapply IH; [intros y Hy; apply Hw; right; right; exact Hy | exact Hvs | eassumption | lia | assumption | eassumption]]] ].

Lemma sep_rest_okD_exp n' tag s e sh vfs : forall r, seplist ts (shaped cExp) (psym ","%bs) r ->
  (forall y, In y r -> shaped cExp y -> wokD cExp y /\ balanced cExp y) -> Forall (fun v => (tdepth v <= n')%nat) (views r) ->
  forall c c' d, spans r c c' -> c' <= e -> okpos c -> St c = mk_dstate d 0 ->
  emitsD c d d (sep_rest ts (walk ts n') (Node tag s e sh vfs) ","%bs (views r)) c c'.
Proof. sep_rest_tac. Qed.

Lemma sep_rest_okD_prefix n' tag s e sh vfs : forall r, seplist ts (shaped cPrefix) (psym ","%bs) r ->
  (forall y, In y r -> shaped cPrefix y -> wokD cPrefix y /\ balanced cPrefix y) -> Forall (fun v => (tdepth v <= n')%nat) (views r) ->
  forall c c' d, spans r c c' -> c' <= e -> okpos c -> St c = mk_dstate d 0 ->
  emitsD c d d (sep_rest ts (walk ts n') (Node tag s e sh vfs) ","%bs (views r)) c c'.
Proof. sep_rest_tac. Qed.

(* ---- statements and semicolons ---- *)
Lemma stats_okD n' tag s e sh vfs d : okpos e -> semi_free ts e ->
  forall l, Forall (stat_item ts (shaped cStat)) l ->
  (forall y, In y l -> shaped cStat y -> (wokD cStat y /\ balanced cStat y) /\ (no_paren_prefix y = true /\ AstWriterAligned.dom ts y = true)) ->
  Forall (fun v => (tdepth v <= n')%nat) (views l) ->
  forall sm0 c c0 B, Forall (semi_leaf ts) sm0 -> (forall i, In i (flat_map leaves sm0) -> d = D i) -> spans sm0 c c0 -> spans l c0 e ->
    B <= e -> okpos c -> St c0 = mk_dstate d 0 ->
  emitsD B d d (stats ts (walk ts n') (Node tag s e sh vfs) (views l) >> semis ts (Node tag s e sh vfs)) c e.
Proof.
  intros He Hfree l. induction l as [|x l IH]; intros Hl Hw Hd sm0 c c0 B Hsm HDs Hs0 Hsl HB Hok HS.
  - inversion Hsl; subst. rewrite views_nil. cbn [stats]. apply emitsD_skip_l. apply (movesLD_exact B e); [|lia].
    eapply movesD_semis; [exact He | exact Hsm | exact Hs0 | lia | apply stopsemi_end; exact Hfree | exact HDs | | exact HB].
    intros j Hj Hlt. pose proof (sig_one_bounds ts _ _ Hj). lia.
  - inversion Hl as [|x0 l0 Hx Hl']; subst. inversion Hsl as [|xx rr cc m0 cc' Hxs Hrs]; subst.
    pose proof (spans_le ts _ _ _ Hrs) as Hle1. pose proof (span_le ts _ _ _ Hxs) as Hle2.
    assert (Hok0 : okpos c0) by (eapply spans_okpos; eassumption). assert (Hc0 : 0 <= c0) by (destruct Hok0; lia).
    destruct Hx as [i Hi | x Hx].
    + rewrite views_kw in *. inversion Hxs; subst. unfold psym in *. adv.
      eapply (IH Hl' ltac:(intros y Hy; apply Hw; right; exact Hy) Hd (sm0 ++ [Kw i]) c (i + 1) B);
        [apply semi_leaf_app; assumption | | eapply spans_app; [exact Hs0 | econstructor; [constructor; assumption | constructor]] | exact Hrs | exact HB | exact Hok | eassumption].
      intros j Hj. rewrite flat_map_app in Hj. apply in_app_or in Hj. destruct Hj as [Hj|Hj]; [apply HDs; exact Hj|].
      cbn [flat_map leaves app In] in Hj. destruct Hj as [<-|[]]. dtac.
    + destruct (Hw x (or_introl eq_refl) Hx) as [[Hwx Hbx] [Hnp Hdx]].
      rewrite views_vis in * by (eapply shaped_not_hidden; exact Hx). inversion Hd as [|v vs Hv Hvs]; subst.
      cbn [stats]. apply emitsD_assoc.
      destruct (stat_first ts binops unops x c0 m0 Hx Hnp Hxs) as (j & t & Hj & Ht & Hns & Hlt).
      destruct (Hwx n' c0 m0 e d Hv Hxs Hok0 ltac:(intros Hc; discriminate Hc) ltac:(rewrite HS; reflexivity) ltac:(rewrite HS; reflexivity)) as [Hem Hhit].
      assert (HSm : St m0 = mk_dstate d 0) by (rewrite (Hbx c0 m0 Hxs Hc0 ltac:(rewrite HS; reflexivity)); exact HS).
      eapply emitsD_afterL; [eapply movesD_semis; [exact He | exact Hsm | exact Hs0 | lia | eapply stopsemi_first; eassumption | exact HDs | | exact HB]|].
      * intros j' Hj' _. rewrite (first_sig_unique ts _ _ _ Hj' Hj). apply Hhit; [exact Hj | exact Hlt].
      * apply emitsD_assoc. eapply emitsD_seq; [exact Hem |].
        apply (IH Hl' ltac:(intros y Hy; apply Hw; right; exact Hy) Hvs [] m0 m0 m0); [constructor | intros i0 [] | constructor | exact Hrs | lia | eapply span_okpos; eassumption | exact HSm].
Qed.

(* ---- table fields ---- *)
Lemma emitsD_spaces_cur_then B E E' b k m2 c c' i t :
  [i] = sig c (i + 1) -> i < b -> E = D i -> tok_at i = Some t -> emitsD i E E' (k t >> m2) i c' ->
  emitsD B E E' (spaces_to ts b >> (with_cur ts k >> m2)) c c'.
Proof.
  intros Hi Hb HD Ht Hk.
  apply (emitsD_ext ts (token_depth ts) _ _ _ _ (spaces_to ts b >> with_cur ts (fun u => k u >> m2))).
  - intros st. apply seq_cong_r. intros s0. unfold seq, with_cur. destruct (cur ts s0); reflexivity.
  - eapply emitsD_spaces_cur; eassumption.
Qed.

Lemma fieldtail_okD n' tag s e sh vfs d : okpos e ->
  forall r, fieldtail ts (shaped cField) r -> forallb (fun x => negb (is_hid x)) r = true ->
  (forall y, In y r -> shaped cField y -> wokD cField y /\ balanced cField y) -> Forall (fun v => (tdepth v <= n')%nat) (views r) ->
  forall c m cl, spans r c m -> [cl] = sig m (cl + 1) -> mtok (psym "}"%bs) cl -> cl < e -> okpos c -> St c = mk_dstate (d + 1) 0 ->
  emitsD c (d + 1) d (field_rest ts (walk ts n') (Node tag s e sh vfs) (views r) >> indent_by (-1) >> spaces ts (Node tag s e sh vfs) >>
            with_cur ts (trail_sep ts (Node tag s e sh vfs)) >> get_text ts (Node tag s e sh vfs) "}"%bs) c (cl + 1).
Proof.
  intros He r Hr. induction Hr as [|c0 f Hc0 Hf|c0 f r Hc0 Hf Hr IH]; intros Hnh Hw Hd c m cl Hsp Hcl Hm Hlt Hok HS.
  - assert (Hcc : 0 <= c) by (destruct Hok; lia). inv_spans. rewrite views_nil. cbn [field_rest]. unfold psym in *. adv.
    apply emitsD_skip_l. eapply emitsD_after; [apply movesD_indent|]. replace (d + 1 + -1) with d by lia. unfold spaces, bound_of.
    assert (Hk : kwleaf "}"%bs cl) by (left; exact Hm). destruct (kwleaf_spec ts Hplain _ _ Hk) as (t & Ht & Hkm & Hc).
    eapply emitsD_spaces_cur_then; [exact Hcl | exact Hlt | dtac | exact Ht|]. unfold trail_sep.
    rewrite (sym_not_sym t "}"%bs ","%bs (mtok_tok ts binops unops Hplain HbinP HunP _ _ _ Hm Ht) eq_refl),
            (sym_not_sym t "}"%bs ";"%bs (mtok_tok ts binops unops Hplain HbinP HunP _ _ _ Hm Ht) eq_refl).
    cbn [orb]. apply emitsD_skip_l. eapply emitsD_kw; [exact Hk | eapply self_of; exact Hcl | exact Hlt | dtac].
  - cbn [forallb is_hid negb andb] in Hnh. discriminate Hnh.
  - cbn [forallb] in Hnh. apply andb_true_iff in Hnh. destruct Hnh as [_ Hnh]. apply andb_true_iff in Hnh. destruct Hnh as [_ Hnh].
    destruct (Hw f (or_intror (or_introl eq_refl)) Hf) as [Hwf Hbf].
    inv_spans. pos_facts. ok_facts. assert (Hcc : 0 <= c) by (destruct Hok; lia).
    rewrite views_kw in *. rewrite views_vis in * by (eapply shaped_not_hidden; exact Hf).
    inversion Hd as [|v vs Hv Hvs]; subst. cbn [field_rest].
    apply emitsD_assoc. unfold spaces at 1, bound_of.
    destruct (fsep_spec ts binops unops Hplain HbinP HunP _ Hc0) as (t & Ht & Hkm & Hor).
    unfold fsep, psym in Hc0. destruct Hc0 as [Hc0|Hc0]; repeat adv;
      (match goal with Hs : [c0] = ParserProofs.sig _ _ _ |- _ => eapply emitsD_spaces_cur_then; [exact Hs | lia | dtac | exact Ht|] end;
       apply emitsD_assoc;
       eapply emitsD_seq; [eapply emitsD_get_text; [eapply self_of; eassumption | lia | dtac | exact Ht | exact Hkm] |];
       apply emitsD_assoc; eapply emitsD_seq; [leaf_stepD |];
       eapply (IH Hnh ltac:(intros y Hy; apply Hw; right; right; exact Hy) Hvs); [eassumption | exact Hcl | exact Hm | exact Hlt | assumption | eassumption]).
Qed.

(* ---- elseif / else ---- *)
Lemma elseifs_okD n' tag s e vfs d : okpos e ->
  forall r, elseifs ts (shaped cExp) (shaped cChunk) r -> forallb pair_has_cond r = true ->
  forall ep, elsepart ts (shaped cChunk) ep ->
  (forall l y k, In (Lst l) (r ++ ep) -> In y l -> shaped k y -> wokD k y /\ balanced k y) ->
  Forall (fun v => (tdepth v <= n')%nat) (views r ++ views ep) ->
  forall c m n, spans (r ++ ep) c m -> [n] = sig m (n + 1) -> mtok (pkw "end"%bs) n -> n < e -> okpos c -> St c = mk_dstate (d + 1) 0 ->
  emitsD c d d (if_pairs ts (walk ts n') (Node tag s e false vfs) false false (views r ++ views ep) >>
            get_text ts (Node tag s e false vfs) "end"%bs) c (n + 1).
Proof.
  intros He r Hr. induction Hr as [|a e0 t0 b0 r Ha He0 Ht0 Hb0 Hr IH]; intros Hc ep Hep Hw Hd c m n Hsp Hn Hmn Hlt Hok HS.
  - cbn [app views] in *. assert (Hcc : 0 <= c) by (destruct Hok; lia). destruct Hep as [|i0 b0 Hi0 Hb0].
    + inv_spans. cbn [views if_pairs]. unfold pkw in *. adv.
      apply emitsD_skip_l. eapply emitsD_kw; [right; split; [exact Hmn | reflexivity] | exact Hn | exact Hlt | dtac].
    + destruct (Hw [PNone; b0] b0 cChunk) as [Hwb Hbb]; [right; left; reflexivity | right; left; reflexivity | exact Hb0 |].
      inv_spans. pos_facts. ok_facts. rewrite views_kw, views_lst, views_none, views_nil in *.
      rewrite views_vis in * by (eapply shaped_not_hidden; exact Hb0). rewrite views_nil in *.
      inversion Hd as [|v vs Hv Hvs]; subst. pose proof (tdepth_lst_forall' _ _ Hv) as Hdl. inversion Hdl as [|? ? _ Hdl']; subst. inversion Hdl'; subst.
      cbn [if_pairs]. unfold pkw in *. repeat adv.
      eapply emitsD_convE; [chainD | lia].
  - cbn [forallb pair_has_cond] in Hc. apply andb_true_iff in Hc. destruct Hc as [_ Hc]. apply andb_true_iff in Hc. destruct Hc as [Hc1 Hc].
    apply negb_true_iff in Hc1. specialize (He0 Hc1). assert (Hcc : 0 <= c) by (destruct Hok; lia).
    destruct (Hw [e0; Kw t0; b0] e0 cExp) as [Hwe Hbe]; [right; left; reflexivity | left; reflexivity | exact He0 |].
    destruct (Hw [e0; Kw t0; b0] b0 cChunk) as [Hwb Hbb]; [right; left; reflexivity | right; right; left; reflexivity | exact Hb0 |].
    cbn [app] in Hsp. inv_spans. pos_facts. ok_facts.
    cbn [app] in *. rewrite views_kw, views_lst in *. rewrite (views_vis e0) in * by (eapply shaped_not_hidden; exact He0).
    rewrite views_kw in *. rewrite (views_vis b0) in * by (eapply shaped_not_hidden; exact Hb0). rewrite views_nil in *.
    cbn [app] in Hd. inversion Hd as [|v vs Hv Hvs]; subst. pose proof (tdepth_lst_forall' _ _ Hv) as Hdl. inversion Hdl as [|? ? ? Hdl']; subst. inversion Hdl'; subst.
    cbn [app if_pairs]. open_views. unfold pkw in *. repeat adv.
    chainD. eapply emitsD_convIn; [|instantiate (1 := d); lia]. eapply emitsD_convE; [eapply (IH Hc ep Hep); [intros l y k Hl Hy; apply (Hw l y k); [right; right; exact Hl | exact Hy] | exact Hvs | eassumption | exact Hn | exact Hmn | exact Hlt | assumption | ] | reflexivity].
    match goal with HSm : TokenDepthProofs.St _ ?m1 = _ |- TokenDepthProofs.St _ ?m1 = _ => rewrite HSm; f_equal; lia end.
Qed.

(* ------------------------------------------------------------------ the domain, piecewise *)
Lemma domD_dom x : domD x = true -> AstWriterAligned.dom ts x = true.
Proof. unfold domD. intros H. apply andb_true_iff in H. destruct H as [H _]. apply andb_true_iff in H. destruct H as [H _]. exact H. Qed.

Lemma domD_node_in tag s e sh fs y : domD (Node tag s e sh fs) = true -> In y fs -> domD y = true.
Proof.
  unfold domD. intros H Hin. apply andb_true_iff in H. destruct H as [H H2]. apply andb_true_iff in H. destruct H as [H0 H1].
  cbn [fenced no_trailing_sep] in *.
  apply andb_true_iff in H1. destruct H1 as [_ H1]. apply andb_true_iff in H2. destruct H2 as [_ H2].
  rewrite forallb_forall in H1, H2. rewrite (H1 y Hin), (H2 y Hin), (dom_node_in ts _ _ _ _ _ y H0 Hin). reflexivity.
Qed.

Lemma domD_lst_in l y : domD (Lst l) = true -> In y l -> domD y = true.
Proof.
  unfold domD. intros H Hin. apply andb_true_iff in H. destruct H as [H H2]. apply andb_true_iff in H. destruct H as [H0 H1].
  cbn [fenced no_trailing_sep] in *. rewrite forallb_forall in H1, H2.
  rewrite (H1 y Hin), (H2 y Hin), (dom_lst_in ts _ y H0 Hin). reflexivity.
Qed.

Lemma domD_paren i j x : domD (Paren i j x) = true -> domD x = true.
Proof. intros H. exact H. Qed.

Lemma balanced_of k x : shaped k x -> domD x = true -> balanced k x.
Proof. intros Hs Hd. apply (stream_balanced ts binops unops Hplain HbinN HunN (tsize x) k x (le_n _) Hs). apply domD_dom, Hd. Qed.

Ltac start_caseD :=
  let n := fresh "n" in let c := fresh "c" in let c' := fresh "c'" in let B := fresh "B" in let E := fresh "E" in
  intros n c c' B E Hdep Hsp Hok HB HE Hpre; subst E;
  apply span_node_inv in Hsp; destruct Hsp as [-> Hsp];
  view_norm;
  destruct n as [|n]; [exfalso; cbn [tdepth] in Hdep; lia|];
  inv_spans; pos_facts; ok_facts;
  let d := fresh "d" in let f := fresh "f" in
  destruct (St c) as [d f] eqn:HS0; cbn [pre d_fun d_depth] in *; try subst f;
  assert (Hc0 : 0 <= c) by (destruct Hok; lia);
  unfold psym, pkw in *; repeat adv.

(* the first significant token after the cursor gets the entry indent *)
Ltac hit_tac :=
  first [ eapply hitok_leaf; [eassumption | dtac]
        | lazymatch goal with |- hitok ?c _ _ =>
            match goal with Hy : wokD ?k' ?y, Hs : TreeShape.span _ ?y c ?m, Hsy : TreeShape.shaped _ _ _ ?k' ?y, HS : TokenDepthProofs.St _ c = _ |- _ =>
              let i0 := fresh "i0" in let Hi0 := fresh "Hi0" in let Hlt0 := fresh "Hlt0" in
              destruct (nonempty_first (tsize y) k' y c m (le_n _) Hsy ltac:(discriminate)
                          ltac:(eapply dom_node_in; [apply domD_dom; eassumption | left; reflexivity]) Hs) as (i0 & Hi0 & Hlt0);
              let j := fresh "j" in let Hj := fresh "Hj" in
              intros j Hj _; rewrite (first_sig_unique ts _ _ _ Hj Hi0);
              refine (proj2 (Hy (tdepth (view y)) c m c _ (le_n _) Hs ltac:(assumption) ltac:(intros; lia) _ _) i0 Hi0 Hlt0);
              [rewrite HS; cbn [d_depth]; lia | rewrite HS; cbn [pre d_fun]; first [reflexivity | exact I]]
            end end ].

Ltac handlerD :=
  lazymatch goal with |- _ /\ hitok ?c ?e ?d =>
    assert (Hhit : hitok c e d) by hit_tac;
    split; [|exact Hhit];
    walk_unfold; open_views; class_tests;
    eapply emitsD_convE; [ eapply emitsD_after; [apply movesD_spaces; [assumption | exact Hhit] | chainD] | lia ]
  end.

Lemma strict_tail_nohid f r : fields_strict (f :: r) = true -> is_hid f = false ->
  match r with [] => true | _ => negb (is_hid (last (f :: r) PNone)) end = true ->
  forallb (fun x => negb (is_hid x)) r = true.
Proof.
  revert f. induction r as [|g r IH]; intros f Hs Hf Hl; [reflexivity|].
  assert (Hs' : fields_strict (g :: r) = true) by (destruct f; try discriminate Hf; exact Hs).
  cbn [forallb]. destruct (is_hid g) eqn:Eg.
  - exfalso. destruct g; try discriminate Eg. destruct r as [|h r]; [cbn in Hl; discriminate Hl|].
    cbn [fields_strict] in Hs'. destruct g; discriminate Hs'.
  - cbn [negb andb]. apply (IH g Hs' Eg). destruct r as [|h r]; [reflexivity|]. exact Hl.
Qed.

(* ------------------------------------------------------------------ a stretch without newline tokens *)
Definition nlfree (a b : Z) : Prop := forall j t, a <= j < b -> tok_at j = Some t -> is_newline t = false.

Lemma existsb_none {A} (p : A -> bool) l : (forall x, In x l -> p x = false) -> existsb p l = false.
Proof. induction l as [|x r IH]; intros H; [reflexivity|]. cbn [existsb]. rewrite (H x (or_introl eq_refl)), IH; [reflexivity | intros y Hy; apply H; right; exact Hy]. Qed.

(* chunks that tile a stretch without newline tokens: their runs hold none, so completeness (good) is all goodD asks *)
Lemma tiling_line q cs p : tiling ts q cs p -> 0 <= q -> nlfree q p -> Forall (good ts) cs -> Forall goodD cs.
Proof.
  induction 1 as [q|q ind e run cs p H1 H2 H3 H4 IH|q text cs p H IH]; intros Hq Hnl Hg; [constructor| |].
  - inversion Hg as [|c0 l0 Hg1 Hg2]; subst. pose proof (zlen_nonneg run) as Hr. pose proof (tiling_mono ts _ _ _ H4) as Hm.
    constructor; [|apply IH; [lia | intros j t Hj; apply Hnl; lia | exact Hg2]].
    cbn [WriterCursor.good] in Hg1. cbn [WriterCursorD.goodD]. destruct Hg1 as [Hg1|Hg1]; [left; exact Hg1 | right]. split; [exact Hg1|].
    intros Hex. exfalso. rewrite existsb_none in Hex; [discriminate Hex|]. intros t Hin.
    apply In_nth_error in Hin. destruct Hin as (k & Hk).
    assert (Hkl : (k < length run)%nat) by (apply nth_error_Some; congruence).
    rewrite H1 in Hk. rewrite ListX.nth_error_firstn in Hk by exact Hkl. rewrite ListX.nth_error_skipn in Hk.
    apply (Hnl (q + Z.of_nat k) t); [unfold zlen in *; lia|].
    unfold AstWriter.tok_at. destruct (q + Z.of_nat k <? 0) eqn:E0; [lia|].
    replace (Z.to_nat (q + Z.of_nat k)) with (Z.to_nat q + k)%nat by lia. exact Hk.
  - inversion Hg as [|c0 l0 Hg1 Hg2]; subst. pose proof (tiling_mono ts _ _ _ H) as Hm.
    constructor; [exact I | apply IH; [lia | intros j t Hj; apply Hnl; lia | exact Hg2]].
Qed.

(* the tail of an action that the alignment proof covers as a whole: if the first part m1 is known with the counter,
   what follows lies on one line and the counter is restored at the end, then the whole action is known with the counter *)
Lemma emitsD_tail B E E1 M m1 m2 c c1 c' L :
  (forall st, M st = (m1 >> m2) st) -> emitsB ts B M c c' L -> emitsD B E E1 m1 c c1 -> ext ts m2 ->
  (forall st st', M st = Ok st' -> w_ind st' = w_ind st) -> nlfree c1 c' ->
  emitsD B E E M c c'.
Proof.
  intros Heq HB H1 Hext Hind Hnl st Hn He.
  destruct (H1 st Hn He) as (st1 & cs1 & X1 & P1 & Q1 & I1 & O1 & G1).
  destruct (HB st Hn) as (st' & cs & X & Pp & Q & O & _ & G).
  pose proof X as X2. rewrite Heq in X2. unfold seq in X2. rewrite X1 in X2.
  assert (H0 : 0 <= w_pos st1) by (destruct Hn as [H0 _]; lia).
  destruct (Hext st1 st' H0 X2) as (cs2 & O2 & T2).
  assert (Ecs : cs = cs1 ++ cs2).
  { pose proof O as O'. rewrite O2, O1, app_assoc in O'. apply app_inv_tail in O'. rewrite <- rev_app_distr in O'.
    apply (f_equal (@rev chunk)) in O'. rewrite !rev_involutive in O'. symmetry. exact O'. }
  exists st', (cs1 ++ cs2). split; [exact X|]. split; [exact Pp|]. split; [exact Q|]. split; [rewrite (Hind _ _ X); exact He|].
  split; [rewrite O2, O1, rev_app_distr, app_assoc; reflexivity|].
  apply Forall_app. split; [exact G1|]. rewrite P1, Pp in T2.
  apply (tiling_line c1 cs2 c' T2); [lia | exact Hnl|]. rewrite Ecs in G. apply Forall_app in G. apply G.
Qed.

Ltac seq_eq :=
  let st := fresh "st" in
  intros st; unfold seq;
  repeat match goal with
         | |- context [match ?a with Ok _ => _ | Err _ => _ end] =>
             lazymatch a with context [match _ with Ok _ => _ | Err _ => _ end] => fail | _ => destruct a end
         end;
  reflexivity.

(* ------------------------------------------------------------------ if (c) ... [else ...] on one line *)
Lemma shortif_okD s e i s0 e0 sh0 cond b ep :
  mtok (pkw "if"%bs) i -> shaped cExp (Node tExpValue s0 e0 sh0 cond) -> shaped cChunk b -> shortelse ts (shaped cChunk) ep ->
  domD (Node tStatIf s e true [Kw i; Lst (Lst (cond ++ [b]) :: ep)]) = true ->
  (forall i' j x0, cond = [Paren i' j x0] -> shaped cExp x0 -> domD x0 = true -> wokD cExp x0) ->
  wokD cStat (Node tStatIf s e true [Kw i; Lst (Lst (cond ++ [b]) :: ep)]).
Proof.
  intros Hmi Hcs Hbs Heps HdomD Hsub. pose proof (domD_dom _ HdomD) as Hdom.
  assert (HAL : AstWriterAligned.wok ts cStat (Node tStatIf s e true [Kw i; Lst (Lst (cond ++ [b]) :: ep)])).
  { apply (walk_aligned ts binops unops Hplain HbinP HunP _ cStat _ (le_n _)); [eapply sh_shortif; eassumption | exact Hdom]. }
  assert (Hfen : e <= next_newline ts (cond_close (cond ++ [b]) + 1)).
  { pose proof HdomD as Hx. unfold domD in Hx. apply andb_true_iff in Hx. destruct Hx as [Hx _]. apply andb_true_iff in Hx. destruct Hx as [_ Hx].
    cbn [fenced] in Hx. apply andb_true_iff in Hx. destruct Hx as [Hx _]. cbn in Hx. unfold next_newline. lia. }
  pose proof Hdom as Hd0. unfold AstWriterAligned.dom in Hd0. repeat (apply andb_true_iff in Hd0; destruct Hd0 as [Hd0 ?]).
  match goal with H : strict _ = true |- _ => cbn in H; rename H into Hst end.
  apply andb_true_iff in Hst. destruct Hst as [Hst _]. apply andb_true_iff in Hst. destruct Hst as [Hcp _].
  destruct cond as [|p [|q cond']]; cbn [app] in *;
    [destruct b; discriminate Hcp | | destruct p; try discriminate Hcp; destruct cond'; discriminate Hcp].
  destruct p; try discriminate Hcp.
  match goal with H : TreeShape.shaped _ _ _ cExp (Node tExpValue _ _ _ [Paren _ _ _]) |- _ =>
    inversion H; subst;
    try match goal with Hn : TreeShape.shaped _ _ _ _ (Paren _ _ _) |- _ => destruct (shaped_node _ _ _ _ _ Hn) as (? & ? & ? & ? & ? & Hn'); discriminate Hn' end
  end.
  match goal with |- wokD _ (Node _ _ _ _ [Kw _; Lst (Lst [Paren ?i' ?j ?x0; ?b] :: ?ep)]) =>
    assert (Hdl : domD (Lst (Lst [Paren i' j x0; b] :: ep)) = true) by (eapply domD_node_in; [exact HdomD | right; left; reflexivity]);
    assert (Hdp : domD (Lst [Paren i' j x0; b]) = true) by (eapply domD_lst_in; [exact Hdl | left; reflexivity]);
    assert (Hdx : domD x0 = true) by (apply (domD_paren i' j x0); eapply domD_lst_in; [exact Hdp | left; reflexivity]);
    assert (Hwx : wokD cExp x0) by (apply (Hsub i' j x0 eq_refl); assumption);
    assert (Hbx : balanced cExp x0) by (apply balanced_of; assumption);
    destruct (view_is_node ts binops unops _ x0 ltac:(eassumption)) as (vt & vs & ve & vsh & vfs & Evx);
    assert (Hcc : cond_close [Paren i' j x0; b] = j) by (unfold cond_close; cbn [removelast flat_map leaves]; rewrite app_nil_r, app_assoc; apply last_last)
  end.
  rewrite Hcc in Hfen.
  match goal with |- wokD _ ?N => pose proof (fun n st st' => walk_restores_indent ts n (view N) st st') as Hind0 end.
  intros n c c' B E Hdep Hsp Hok HB HE Hpre; subst E.
  pose proof (HAL n c c' B Hdep Hsp Hok HB) as HB0. pose proof (Hind0 n) as Hind. clear Hind0.
  apply span_node_inv in Hsp; destruct Hsp as [-> Hsp].
  view_norm.
  destruct n as [|n]; [exfalso; cbn [tdepth] in Hdep; lia|].
  inv_spans; pos_facts; ok_facts.
  destruct (St c) as [d f] eqn:HS0; cbn [pre d_fun d_depth] in *; try subst f.
  assert (Hc0 : 0 <= c) by (destruct Hok; lia).
  unfold psym, pkw in *; repeat adv.
  lazymatch goal with |- _ /\ hitok ?c ?e ?d => assert (Hhit : hitok c e d) by hit_tac; split; [|exact Hhit] end.
  revert HB0 Hind. walk_unfold. cbn [if_pairs]. open_views. intros HB0 Hind.
  match goal with |- WriterCursorD.emitsD _ _ _ _ _ (?S >> ((?I >> (?X >> ?Y)) >> ?DR)) _ _ =>
    eapply (emitsD_tail _ _ _ _ (S >> I >> X) (Y >> DR)); [seq_eq | exact HB0 | | | exact Hind | ]
  end.
  - eapply emitsD_after; [apply movesD_spaces; [assumption | exact Hhit]|]. chainD.
  - repeat first [apply ext_seq | apply ext_walk | apply ext_skip | apply ext_if_pairs; intros; apply ext_walk | apply ext_dropped_else].
  - match goal with |- nlfree (?j + 1) _ =>
      match goal with Hj : [j] = ParserProofs.sig _ _ (j + 1) |- _ =>
        destruct (first_sig_inv ts _ _ Hj) as (_ & Hsj & _); pose proof (sigb_range ts _ Hsj) end;
      destruct (next_newline_spec ts (j + 1)) as (_ & _ & Hnn); [lia|];
      intros k t Hk Ht; apply (Hnn k t); [lia | rewrite tok_at_same; exact Ht] end.
Qed.

Theorem walk_depth : forall m k x, (tsize x <= m)%nat -> shaped k x -> domD x = true -> wokD k x.
Proof.
  induction m as [|m IH]; intros k x Hsz Hsh HdomD; [destruct x; cbn [tsize] in Hsz; lia|].
  pose proof (domD_dom _ HdomD) as Hdom.
  assert (IHc : forall k' y tag s e sh fs, x = Node tag s e sh fs -> In y fs -> shaped k' y -> wokD k' y /\ balanced k' y).
  { intros k' y tag s e sh fs -> Hin Hy. assert (Hdy : domD y = true) by (eapply domD_node_in; eassumption).
    split; [|apply balanced_of; assumption]. apply IH; [|exact Hy | exact Hdy].
    cbn [tsize] in Hsz. clear -Hsz Hin. induction fs as [|z fs IHf]; [destruct Hin|]. cbn [fold_right] in Hsz.
    destruct Hin as [->|Hin]; [lia | apply IHf; [lia | exact Hin]]. }
  inversion Hsh; subst.
  all: repeat match goal with
       | H : TreeShape.shaped _ _ _ cPrefix ?p \/ is_paren ?p = true |- _ =>
           let Hp := fresh "Hp" in
           assert (Hp : is_paren p = false) by (eapply npp_first; [apply (dom_npp ts); exact Hdom | reflexivity]);
           destruct H as [H|H]; [|congruence]
       | H : _ = PNone \/ name_leaf _ _ |- _ =>
           destruct H as [->|(? & ? & -> & ?)];
           [exfalso; unfold AstWriterAligned.dom in Hdom; apply andb_true_iff in Hdom; destruct Hdom as [_ Hdom]; cbn in Hdom; discriminate Hdom|]
       | H : _ = PNone \/ TreeShape.shaped _ _ _ _ _ |- _ => destruct H as [->|H]
       | H : str_leaf _ _ \/ _ \/ _ |- _ => destruct H as [(? & ? & -> & ?)|[H|H]]
       end.
  all: repeat match goal with
       | Hy : TreeShape.shaped _ _ _ ?k' ?y |- _ =>
           lazymatch goal with _ : wokD k' y |- _ => fail | _ =>
             let Hw := fresh "Hw" in let Hb := fresh "Hb" in
             destruct (IHc k' y _ _ _ _ _ eq_refl ltac:(cbn [In]; tauto) Hy) as [Hw Hb] end
       end.
  all: try solve [exfalso; unfold AstWriterAligned.dom in Hdom; apply andb_true_iff in Hdom; destruct Hdom as [_ Hdom]; cbn in Hdom; discriminate Hdom].
  all: try solve [start_caseD; handlerD].
  all: try solve [start_caseD; handlerD].
  all: try solve [start_caseD; handlerD].
  (* label *)
  4: { start_caseD.
       lazymatch goal with |- _ /\ hitok ?c ?e ?d => assert (Hhit : hitok c e d) by hit_tac; split; [|exact Hhit] end.
       walk_unfold.
       eapply emitsD_after; [apply movesD_spaces; [assumption | exact Hhit]|]. eapply emitsD_label; [eassumption | lia | assumption | dtac]. }
  (* nil false true *)
  4, 5, 6: (start_caseD;
       lazymatch goal with |- _ /\ hitok ?c ?e ?d => assert (Hhit : hitok c e d) by hit_tac; split; [|exact Hhit] end;
       walk_unfold;
       match goal with Hm : TreeShape.mtok _ _ ?i |- _ => pose proof Hm as Hmt; destruct Hm as (t & Ht & Hm) end; rewrite tok_at_same in Ht;
       match goal with Hs : [?i] = ParserProofs.sig _ _ (?i + 1) |- _ =>
         pose proof (self_of ts _ _ Hs) as Hself;
         eapply emitsD_after; [apply movesD_spaces; [assumption | exact Hhit]|];
         eapply (ev_plainD _ _ _ _ _ _ _ _ _ i t); [exact Hs | lia | dtac | exact Ht | eapply kw_not_sym; eassumption | ];
         eapply (emitsD_kw _ _ _ _ _ _ _ _ i i); [right; split; [exact Hmt | reflexivity] | exact Hself | lia | dtac]
       end).
  (* numbers, strings *)
  4, 5: (start_caseD;
       lazymatch goal with |- _ /\ hitok ?c ?e ?d => assert (Hhit : hitok c e d) by hit_tac; split; [|exact Hhit] end;
       walk_unfold; class_tests;
       match goal with Hc : TreeShape.ctok _ _ ?i ?t, Hs : [?i] = ParserProofs.sig _ _ (?i + 1) |- _ =>
         pose proof (self_of ts _ _ Hs) as Hself; pose proof (proj1 Hc) as Ht; rewrite tok_at_same in Ht;
         eapply emitsD_after; [apply movesD_spaces; [assumption | exact Hhit]|];
         eapply (ev_plainD _ _ _ _ _ _ _ _ _ i t); [exact Hs | lia | dtac | exact Ht | eapply class_not_sym; [exact (proj2 Hc) | discriminate] | ];
         eapply (emitsD_tokcode _ _ _ _ _ _ _ i i); [exact Hself | lia | dtac]
       end).
  (* a function / prefix expression / table as value *)
  4: { start_caseD.
       lazymatch goal with |- _ /\ hitok ?c ?e ?d => assert (Hhit : hitok c e d) by hit_tac; split; [|exact Hhit] end.
       walk_unfold. open_views.
       match goal with Hf : TreeShape.shaped _ _ _ cFunc ?f, Hs : TreeShape.span _ ?f ?c ?e |- _ =>
         destruct (func_first ts binops unops _ _ _ Hf Hs) as (i & Hi & Hm & Hlt); destruct Hm as (t & Ht & Hm); rewrite tok_at_same in Ht;
         eapply emitsD_after; [apply movesD_spaces; [assumption | exact Hhit]|];
         eapply (ev_plainD _ _ _ _ _ _ _ _ _ i t); [exact Hi | lia | exact (Hhit i Hi Hlt) | exact Ht | eapply kw_not_sym; exact Hm | ];
         eapply (emitsD_from_first (i + 1) _ _ _ c); [lia | leaf_stepD | exact Hi | lia | lia]
       end. }
  4: { start_caseD.
       lazymatch goal with |- _ /\ hitok ?c ?e ?d => assert (Hhit : hitok c e d) by hit_tac; split; [|exact Hhit] end.
       walk_unfold. open_views.
       match goal with Hf : TreeShape.shaped _ _ _ cPrefix ?f, Hs : TreeShape.span _ ?f ?c ?e |- _ =>
         destruct (prefix_first ts binops unops (tsize f) f c e (le_n _) Hf) as (i & t & Hi & Hc & Hlt);
           [eapply npp_in; [apply (dom_npp ts); exact Hdom | left; reflexivity] | exact Hs |];
         pose proof (proj1 Hc) as Ht; rewrite tok_at_same in Ht;
         eapply emitsD_after; [apply movesD_spaces; [assumption | exact Hhit]|];
         eapply (ev_plainD _ _ _ _ _ _ _ _ _ i t); [exact Hi | lia | exact (Hhit i Hi Hlt) | exact Ht | eapply class_not_sym; [exact (proj2 Hc) | discriminate] | ];
         eapply (emitsD_from_first (i + 1) _ _ _ c); [lia | leaf_stepD | exact Hi | lia | lia]
       end. }
  (* a parenthesised expression *)
  4: { match goal with Hy : TreeShape.shaped _ _ _ cExp ?y |- wokD _ (Node _ _ _ _ [Paren ?i ?j ?y]) =>
         assert (Hdy : domD y = true) by (apply (domD_paren i j y); eapply domD_node_in; [exact HdomD | left; reflexivity]);
         assert (wokD cExp y) by (apply IH; [cbn [tsize fold_right] in Hsz; lia | exact Hy | exact Hdy]);
         assert (balanced cExp y) by (apply balanced_of; assumption) end.
       start_caseD.
       lazymatch goal with |- _ /\ hitok ?c ?e ?d => assert (Hhit : hitok c e d) by hit_tac; split; [|exact Hhit] end.
       walk_unfold. open_views.
       eapply emitsD_after; [apply movesD_spaces; [assumption | exact Hhit]|].
       eapply ev_parenD; [eassumption | eassumption | dtac | leaf_stepD | eassumption | eassumption | reflexivity | dtac]. }
  4: { start_caseD.
       lazymatch goal with |- _ /\ hitok ?c ?e ?d => assert (Hhit : hitok c e d) by hit_tac; split; [|exact Hhit] end.
       walk_unfold. open_views.
       match goal with Hf : TreeShape.shaped _ _ _ cTable ?f, Hs : TreeShape.span _ ?f ?c ?e |- _ =>
         destruct (table_first ts binops unops _ _ _ Hf Hs) as (i & Hi & Hm & Hlt); destruct Hm as (u & Ht & Hm); rewrite tok_at_same in Ht;
         eapply emitsD_after; [apply movesD_spaces; [assumption | exact Hhit]|];
         eapply (ev_plainD _ _ _ _ _ _ _ _ _ i u); [exact Hi | lia | exact (Hhit i Hi Hlt) | exact Ht | eapply sym_not_sym; [exact Hm | reflexivity] | ];
         eapply (emitsD_from_first (i + 1) _ _ _ c); [lia | leaf_stepD | exact Hi | lia | lia]
       end. }
  (* name lists *)
  5: { start_caseD.
       lazymatch goal with |- _ /\ hitok ?c ?e ?d => assert (Hhit : hitok c e d) by hit_tac; split; [|exact Hhit] end.
       walk_unfold.
       eapply emitsD_after; [apply movesD_spaces; [assumption | exact Hhit]|].
       eapply emitsD_seq; [leaf_stepD | eapply name_rest_okD_comma; [eassumption | eassumption | lia | lia | eassumption]]. }
  5: { start_caseD.
       lazymatch goal with |- _ /\ hitok ?c ?e ?d => assert (Hhit : hitok c e d) by hit_tac; split; [|exact Hhit] end.
       walk_unfold.
       match goal with Hsr : TreeShape.spans _ ?r ?m ?m2, HSm : TokenDepthProofs.St _ ?m = _ |- _ =>
         pose proof (names_balanced_dot ts binops unops Hplain r ltac:(eassumption) m m2 Hsr ltac:(lia)) as HSe; rewrite HSm in HSe end.
       repeat adv.
       eapply emitsD_after; [apply movesD_spaces; [assumption | exact Hhit]|].
       eapply emitsD_seq; [leaf_stepD | eapply emitsD_seq; [eapply name_rest_okD_dot; [eassumption | eassumption | lia | lia | eassumption] | chainD]]. }
  5: { start_caseD.
       lazymatch goal with |- _ /\ hitok ?c ?e ?d => assert (Hhit : hitok c e d) by hit_tac; split; [|exact Hhit] end.
       walk_unfold.
       eapply emitsD_after; [apply movesD_spaces; [assumption | exact Hhit]|].
       eapply emitsD_seq; [leaf_stepD | apply emitsD_skip_r; eapply name_rest_okD_dot; [eassumption | eassumption | lia | lia | eassumption]]. }
  (* expression lists, variable lists *)
  5, 6: (match goal with
       | Hx : TreeShape.shaped _ _ _ ?k ?x0, Hr : seplist _ _ _ ?r |- wokD _ (Node _ _ _ _ [Lst (?x0 :: ?r)]) =>
           assert (Hdl : domD (Lst (x0 :: r)) = true) by (eapply domD_node_in; [exact HdomD | left; reflexivity]);
           assert (Hd0 : domD x0 = true) by (eapply domD_lst_in; [exact Hdl | left; reflexivity]);
           assert (Hw0 : wokD k x0) by (apply IH; [cbn [tsize fold_right] in Hsz; lia | exact Hx | exact Hd0]);
           assert (Hb0 : balanced k x0) by (apply balanced_of; assumption);
           assert (Hwr : forall y, In y r -> TreeShape.shaped ts binops unops k y -> wokD k y /\ balanced k y)
             by (intros y Hy Hsy; assert (Hdy : domD y = true) by (eapply domD_lst_in; [exact Hdl | right; exact Hy]);
                 split; [apply IH; [pose proof (tsize_in_list ts binops unops _ _ Hy); cbn [tsize fold_right] in Hsz; lia | exact Hsy | exact Hdy]
                        | apply balanced_of; assumption])
       end;
       start_caseD;
       lazymatch goal with |- _ /\ hitok ?c ?e ?d =>
         assert (Hhit : hitok c e d);
         [ match goal with Hs : TreeShape.span _ ?x0 c ?m, Hsy : TreeShape.shaped _ _ _ ?k' ?x0, HS : TokenDepthProofs.St _ c = _ |- _ =>
             destruct (nonempty_first (tsize x0) k' x0 c m (le_n _) Hsy ltac:(discriminate) ltac:(apply domD_dom; assumption) Hs) as (i0 & Hi0 & Hlt0);
             intros j Hj _; rewrite (first_sig_unique ts _ _ _ Hj Hi0);
             refine (proj2 (Hw0 (tdepth (view x0)) c m c _ (le_n _) Hs ltac:(assumption) ltac:(intros; lia) _ _) i0 Hi0 Hlt0);
             [rewrite HS; cbn [d_depth]; lia | rewrite HS; cbn [pre d_fun]; first [reflexivity | exact I]] end
         | split; [|exact Hhit] ] end;
       walk_unfold;
       match goal with |- context [sep_rest _ (walk _ ?n) _ _ (views ?r)] =>
         match goal with |- context [walk _ n (view ?x0)] =>
           assert (Hd : Forall (fun v => (tdepth v <= n)%nat) (view x0 :: views r)) by (apply tdepth_lst_forall'; cbn [tdepth fold_right] in Hdep |- *; lia) end end;
       inversion Hd; subst;
       eapply emitsD_after; [apply movesD_spaces; [assumption | exact Hhit]|];
       eapply emitsD_seq; [leaf_stepD |
         first [ eapply sep_rest_okD_exp; [eassumption | exact Hwr | eassumption | eassumption | lia | assumption | eassumption]
               | eapply sep_rest_okD_prefix; [eassumption | exact Hwr | eassumption | eassumption | lia | assumption | eassumption] ] ]).
  (* chunk *)
  1: { match goal with Hl : Forall _ ?l |- wokD _ (Node _ _ _ _ [Lst ?l]) =>
         assert (Hdl : domD (Lst l) = true) by (eapply domD_node_in; [exact HdomD | left; reflexivity]);
         assert (Hwl : forall y, In y l -> TreeShape.shaped ts binops unops cStat y ->
                       (wokD cStat y /\ balanced cStat y) /\ (no_paren_prefix y = true /\ AstWriterAligned.dom ts y = true))
           by (intros y Hy Hsy; assert (Hdy : domD y = true) by (eapply domD_lst_in; [exact Hdl | exact Hy]);
               split; [split; [apply IH; [pose proof (tsize_in_list ts binops unops _ _ Hy); cbn [tsize fold_right] in Hsz; lia | exact Hsy | exact Hdy] | apply balanced_of; assumption]
                      | split; [apply (dom_npp ts); apply domD_dom; exact Hdy | apply domD_dom; exact Hdy]])
       end.
       intros n c c' B E Hdep Hsp Hok HB HE Hpre. subst E.
       apply span_node_inv in Hsp. destruct Hsp as [-> Hsp]. view_norm.
       destruct n as [|n]; [exfalso; cbn [tdepth] in Hdep; lia|]. inv_spans. pos_facts. ok_facts.
       destruct (St c) as [d f] eqn:HS0. cbn [pre d_fun d_depth] in *. subst f. specialize (HB eq_refl).
       match goal with Hl : Forall _ ?l, Hsl : TreeShape.spans _ ?l c ?e |- _ =>
         assert (Hhit : hitok c e d);
         [ intros j Hj Hlt;
           destruct l as [|x l']; [inversion Hsl; subst; pose proof (sig_one_bounds ts _ _ Hj); lia|];
           inversion Hl as [|x0 l0 Hx Hl']; subst; inversion Hsl as [|xx rr cc m0 cc' Hxs Hrs]; subst;
           assert (Hc0 : 0 <= c) by (destruct Hok; lia);
           destruct Hx as [i Hi | x Hx];
           [ inversion Hxs; subst; unfold psym in *; adv;
             match goal with Hs : [i] = ParserProofs.sig _ c _ |- _ => rewrite (first_sig_unique ts _ _ _ Hj Hs) end; dtac
           | destruct (Hwl x (or_introl eq_refl) Hx) as [[Hwx Hbx] [Hnp Hdx]];
             destruct (nonempty_first (tsize x) cStat x c m0 (le_n _) Hx ltac:(discriminate) Hdx Hxs) as (i0 & Hi0 & Hlt0);
             rewrite (first_sig_unique ts _ _ _ Hj Hi0);
             refine (proj2 (Hwx (tdepth (view x)) c m0 c _ (le_n _) Hxs Hok ltac:(intros; lia) _ _) i0 Hi0 Hlt0);
             [rewrite HS0; reflexivity | rewrite HS0; reflexivity] ]
         | split; [|exact Hhit] ] end.
       walk_unfold.
       match goal with |- context [stats _ (walk _ ?n) _ (views ?l)] =>
         assert (Hd : Forall (fun v => (tdepth v <= n)%nat) (views l)) by (apply tdepth_lst_forall'; cbn [tdepth fold_right] in Hdep |- *; lia) end.
       eapply emitsD_after; [apply movesD_spaces; [assumption | exact Hhit]|].
       eapply stats_okD with (sm0 := []) (c0 := c);
         [assumption | assumption | eassumption | exact Hwl | exact Hd | constructor | intros i0 [] | constructor | eassumption | lia | assumption | exact HS0]. }
  (* if ... then ... elseif ... else ... end *)
  1: { pose proof Hdom as Hd0. unfold AstWriterAligned.dom in Hd0. repeat (apply andb_true_iff in Hd0; destruct Hd0 as [Hd0 ?]).
       match goal with H : strict _ = true |- _ => cbn in H; rename H into Hst end.
       match goal with H : no_if_do _ _ = true |- _ => cbn in H; rename H into Hnd end.
       apply andb_true_iff in Hnd. destruct Hnd as [Hthen _].
       apply andb_true_iff in Hst. destruct Hst as [Hst _]. apply andb_true_iff in Hst. destruct Hst as [Hcn Hpc]. apply negb_true_iff in Hcn.
       rewrite forallb_app in Hpc. apply andb_true_iff in Hpc. destruct Hpc as [Hpc _].
       match goal with H : is_none ?c = false -> _ |- _ => specialize (H Hcn) end.
       match goal with H : _ \/ _ |- _ => pose proof (then_not_do ts _ Hthen H) as Hkt; destruct H as [Hmt|Hdo] end;
       [| exfalso; unfold tok_is in Hthen; destruct Hdo as (u & Hu & Hmu); rewrite tok_at_same in Hu; rewrite Hu in Hthen; unfold is_kw in Hthen;
          apply andb_true_iff in Hthen; destruct Hthen as [_ Hx1]; apply zlist_eqb_eq in Hx1; cbn [matches pkw] in Hmu;
          apply tok_eqb_kw_inv in Hmu; destruct Hmu as [_ Hx2]; rewrite Hx1 in Hx2; discriminate Hx2].
       match goal with |- wokD _ (Node _ _ _ _ [Kw _; Lst (Lst [?c; Kw ?t; ?b] :: ?r ++ ?ep); Kw _]) =>
         assert (Hdl : domD (Lst (Lst [c; Kw t; b] :: r ++ ep)) = true) by (eapply domD_node_in; [exact HdomD | right; left; reflexivity]);
         assert (Hdp : domD (Lst [c; Kw t; b]) = true) by (eapply domD_lst_in; [exact Hdl | left; reflexivity]);
         assert (Hdc : domD c = true) by (eapply domD_lst_in; [exact Hdp | left; reflexivity]);
         assert (Hdb : domD b = true) by (eapply domD_lst_in; [exact Hdp | right; right; left; reflexivity]);
         assert (Hwc : wokD cExp c) by (apply IH; [cbn [tsize fold_right] in Hsz; lia | assumption | exact Hdc]);
         assert (Hbc : balanced cExp c) by (apply balanced_of; assumption);
         assert (Hwb : wokD cChunk b) by (apply IH; [cbn [tsize fold_right] in Hsz; lia | assumption | exact Hdb]);
         assert (Hbb : balanced cChunk b) by (apply balanced_of; assumption);
         assert (Hwr : forall l y k, In (Lst l) (r ++ ep) -> In y l -> TreeShape.shaped ts binops unops k y -> wokD k y /\ balanced k y)
           by (intros l y k Hl Hy Hs; assert (Hdy : domD y = true) by (eapply domD_lst_in; [eapply domD_lst_in; [exact Hdl | right; exact Hl] | exact Hy]);
               split; [apply IH;
               [pose proof (tsize_in_list ts binops unops _ _ Hy); pose proof (tsize_in_list ts binops unops _ _ Hl) as Hl2; cbn [tsize] in Hl2; cbn [tsize fold_right] in Hsz; lia
               | exact Hs | exact Hdy] | apply balanced_of; assumption])
       end.
       start_caseD.
       lazymatch goal with |- _ /\ hitok ?c ?e ?d => assert (Hhit : hitok c e d) by hit_tac; split; [|exact Hhit] end.
       walk_unfold. cbn [if_pairs]. open_views.
       match goal with |- context [if_pairs _ (walk _ ?n) _ _ _ (views ?r ++ views ?ep)] =>
         assert (Hd : Forall (fun v => (tdepth v <= n)%nat) (views r ++ views ep))
           by (assert (Hd1 : Forall (fun v => (tdepth v <= n)%nat) (Lst [view c; view b] :: views r ++ views ep))
                 by (apply tdepth_lst_forall'; cbn [tdepth fold_right] in Hdep |- *; lia); inversion Hd1; assumption) end.
       eapply emitsD_after; [apply movesD_spaces; [assumption | exact Hhit]|]. chainD.
       eapply emitsD_convIn; [|instantiate (1 := d); lia].
       eapply elseifs_okD; [assumption | eassumption | exact Hpc | eassumption | exact Hwr | exact Hd | eassumption | eassumption | eassumption | lia | assumption | ].
       match goal with HSm : TokenDepthProofs.St _ ?m1 = _ |- TokenDepthProofs.St _ ?m1 = _ => rewrite HSm; f_equal; lia end. }
  (* table constructor *)
  2: { match goal with Hl : tfields _ _ ?l |- wokD _ (Node _ _ _ _ [Kw _; Lst ?l; Kw _]) =>
         assert (Hdl : domD (Lst l) = true) by (eapply domD_node_in; [exact HdomD | right; left; reflexivity]);
         assert (Hwl : forall y, In y l -> TreeShape.shaped ts binops unops cField y -> wokD cField y /\ balanced cField y)
           by (intros y Hy Hsy; assert (Hdy : domD y = true) by (eapply domD_lst_in; [exact Hdl | exact Hy]);
               split; [apply IH; [pose proof (tsize_in_list ts binops unops _ _ Hy); cbn [tsize fold_right] in Hsz; lia | exact Hsy | exact Hdy] | apply balanced_of; assumption]);
         assert (Hst : fields_strict l = true)
           by (unfold AstWriterAligned.dom in Hdom; apply andb_true_iff in Hdom; destruct Hdom as [_ Hdom]; cbn in Hdom; apply andb_true_iff in Hdom; destruct Hdom as [Hdom _]; exact Hdom);
         assert (Hnt : match l with _ :: _ :: _ => negb (is_hid (last l PNone)) | _ => true end = true)
           by (pose proof HdomD as Hx; unfold domD in Hx; apply andb_true_iff in Hx; destruct Hx as [_ Hx]; cbn in Hx;
               apply andb_true_iff in Hx; destruct Hx as [Hx _]; destruct l as [|? [|? ?]]; first [reflexivity | exact Hx]);
         inversion Hl as [f r Hf Hr | f r Hf Hr]; subst
       end.
       - assert (f = PNone /\ r = []) as [-> ->].
         { cbn [fields_strict] in Hst. destruct f; try discriminate Hst. destruct r; [split; reflexivity | discriminate Hst]. }
         start_caseD.
         lazymatch goal with |- _ /\ hitok ?c ?e ?d => assert (Hhit : hitok c e d) by hit_tac; split; [|exact Hhit] end.
         walk_unfold.
         eapply emitsD_after; [apply movesD_spaces; [assumption | exact Hhit]|].
         eapply emitsD_seq; [leaf_stepD | eapply emitsD_after; [apply movesD_indent|];
           eapply (fieldtail_okD O) with (r := []); [assumption | apply ft_nil | reflexivity | intros y [] | constructor | constructor | eassumption | eassumption | lia | assumption | eassumption]].
       - assert (Hfh : is_hid f = false) by (destruct (shaped_node _ _ _ _ _ Hf) as (? & ? & ? & ? & ? & ->); reflexivity).
         assert (Hnh : forallb (fun x => negb (is_hid x)) r = true)
           by (apply (strict_tail_nohid f r Hst Hfh); destruct r; [reflexivity | exact Hnt]).
         destruct (Hwl f (or_introl eq_refl) Hf) as [Hwf Hbf].
         start_caseD.
         lazymatch goal with |- _ /\ hitok ?c ?e ?d => assert (Hhit : hitok c e d) by hit_tac; split; [|exact Hhit] end.
         walk_unfold.
         match goal with |- context [field_rest _ (walk _ ?n) _ (views ?r)] =>
           assert (Hd : Forall (fun v => (tdepth v <= n)%nat) (view f :: views r)) by (apply tdepth_lst_forall'; cbn [tdepth fold_right] in Hdep |- *; lia) end.
         inversion Hd; subst.
         eapply emitsD_after; [apply movesD_spaces; [assumption | exact Hhit]|].
         eapply emitsD_seq; [leaf_stepD | eapply emitsD_after; [apply movesD_indent|]; apply emitsD_assoc;
           eapply emitsD_seq; [leaf_stepD |
             eapply fieldtail_okD; [assumption | exact Hr | exact Hnh | intros y Hy; apply Hwl; right; exact Hy | eassumption | eassumption | eassumption | eassumption | lia | assumption | eassumption]]]. }
  (* if (c) ... [else ...] on one line *)
  eapply shortif_okD; [eassumption | eassumption | eassumption | eassumption | exact HdomD |].
  intros i' j x0 -> Hx0 Hdx0. apply IH; [cbn [app tsize fold_right] in Hsz; lia | exact Hx0 | exact Hdx0].
Qed.


End WD.
