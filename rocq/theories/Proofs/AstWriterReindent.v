(* luafmt's output as a function of the token list, and re-indentation invariance of whole programs
   (lemmas for Properties/C10.v).

   program_ref_fmt   inside the writer's domain the text luafmt writes is  ref_fmt (gap_fmt w) ts  (Spec/ReindentSpec.v): every
                     significant token with its own code; the white-space / comment run in front of a token rewritten by the
                     re.sub pipeline (fmt_run) with at_start = "the run begins the file", at_end = "the run ends the file" and
                     depth = the reference depth (Spec/TokenDepth.v) of the token that follows, 0 for the run that ends the file.
                     From the alignment (C09_aligned: the chunks tile the token list, every run complete) and the depth link
                     (program_depth_full).  A run WITHOUT a newline token may carry another counter (inside a one-line if); its
                     text does not depend on the counter if it holds no line end at all (gaps_tidy: fmt_run_depth_irrelevant).
   ref_fmt_reindent  ref_fmt gives the same text for two token lists that are the same program with the same line breaks
                     (reindent_equiv: the same significant tokens; corresponding runs equal after canon_ws and the removal of
                     blanks at line edges - the relation of C10_run_depends_on_norm / C10_run_depends_on_norm_end).
   program_reindent  hence the two formatted texts are equal. *)
From PV Require Import Base.Prelude Base.ListX Spec.LuaTokens Spec.LuaGrammar Spec.FmtShape Spec.TokenDepth Spec.ReindentSpec
  Model.Tokens Model.Parser Model.ParserInst Model.WriterChunks Model.AstWriter Model.WriterDomain Model.FmtSpaces Model.FmtSpacesInst
  Proofs.ParserProofs Proofs.WriterCursor Proofs.AstWriterProofs Proofs.AstWriterAligned Proofs.AstWriterTop
  Proofs.FmtSpacesProofs Proofs.FmtLinesProofs Proofs.FmtChunksProofs Proofs.TokenDepthProofs Proofs.AstWriterDepth
  Proofs.AstWriterLines Proofs.FmtLineEnd.
From Coq Require Import ZifyBool.
Ltac Zify.zify_post_hook ::= Z.to_euclidean_division_equations.

(* ------------------------------------------------------------------ the instances of Spec/ReindentSpec.v *)
(* the formatter's rewriting of one run *)
Definition gap_fmt (w : Z) (at_start at_end : bool) (depth : Z) (run : list token) : list Z :=
  fmt_run (mk_fcfg at_start at_end w depth) (run_code run).

(* two runs whose texts agree after the tab / line-end normalisation and the removal of the blanks at the edges of lines (at
   the end of the file also of the blanks that end the last line) *)
Definition run_norm_rel (at_start at_end : bool) (r1 r2 : list token) : Prop :=
  if at_end
  then strip_line_edges_end at_start (canon_ws (run_code r1)) = strip_line_edges_end at_start (canon_ws (run_code r2))
  else strip_line_edges at_start (canon_ws (run_code r1)) = strip_line_edges at_start (canon_ws (run_code r2)).

Definition reindent_equiv : list token -> list token -> Prop := layout_equiv run_norm_rel.

(* a run without a newline token holds no line end at all (no multi-line block comment in the middle of a line) *)
Definition gap_ok (r : list token) : bool := existsb is_newline r || forallb (fun c => negb (is_eolb c)) (run_code r).
Definition gaps_tidy (ts : list token) : bool :=
  let '(r0, l) := segs ts in gap_ok r0 && forallb (fun p => gap_ok (snd p)) l.

Lemma gap_fmt_nil w a e d : gap_fmt w a e d [] = [].
Proof. unfold gap_fmt, run_code. cbn [map concat]. apply fmt_run_empty. Qed.

Lemma gap_fmt_rel w a e d r1 r2 : run_norm_rel a e r1 r2 -> gap_fmt w a e d r1 = gap_fmt w a e d r2.
Proof.
  unfold run_norm_rel, gap_fmt. destruct e; intros H.
  - apply fmt_run_depends_on_norm_end; [reflexivity | exact H].
  - apply fmt_run_depends_on_norm. exact H.
Qed.

(* ------------------------------------------------------------------ ref_fmt on equivalent layouts *)
Lemma body_equiv_head R st l1 l2 : body_equiv R l1 l2 -> is_nilb l1 = is_nilb l2 /\ next_depth st l1 = next_depth st l2.
Proof.
  destruct l1 as [|[t1 r1] l1], l2 as [|[t2 r2] l2]; cbn [body_equiv]; intros H; try contradiction; [split; reflexivity|].
  destruct H as (-> & _). split; reflexivity.
Qed.

Lemma ref_body_equiv w : forall l1 l2 st, body_equiv run_norm_rel l1 l2 -> ref_body (gap_fmt w) st l1 = ref_body (gap_fmt w) st l2.
Proof.
  induction l1 as [|[t1 r1] l1 IH]; intros [|[t2 r2] l2] st H; cbn [body_equiv] in H; try contradiction; [reflexivity|].
  destruct H as (-> & Hr & Hb). cbn [ref_body]. cbv zeta.
  destruct (body_equiv_head _ (tok_depth_after st t2) _ _ Hb) as [E1 E2]. rewrite <- E1, <- E2.
  rewrite (gap_fmt_rel w _ _ _ _ _ Hr), (IH l2 _ Hb). reflexivity.
Qed.

Theorem ref_fmt_reindent w ts1 ts2 : reindent_equiv ts1 ts2 -> ref_fmt (gap_fmt w) ts1 = ref_fmt (gap_fmt w) ts2.
Proof.
  unfold reindent_equiv, layout_equiv, ref_fmt. destruct (segs ts1) as [a1 l1], (segs ts2) as [a2 l2]. intros [Hr Hb].
  destruct (body_equiv_head _ (mk_dstate 0 0) _ _ Hb) as [E1 E2]. rewrite <- E1, <- E2.
  rewrite (gap_fmt_rel w _ _ _ _ _ Hr), (ref_body_equiv w _ _ _ Hb). reflexivity.
Qed.

(* ------------------------------------------------------------------ ref_fmt on formatted code *)
Lemma gap_fmt_idem w a e d r r' : flat_map tcode r' = gap_fmt w a e d r -> gap_fmt w a e d r' = gap_fmt w a e d r.
Proof.
  intros H. unfold gap_fmt at 1. rewrite run_code_flat_map, H. unfold gap_fmt. apply fmt_run_idempotent_all.
Qed.

Lemma spelled_head G st l l' : spelled_body G st l l' -> is_nilb l' = is_nilb l /\ next_depth st l' = next_depth st l.
Proof.
  destruct l as [|[t r] l], l' as [|[t' r'] l']; cbn [spelled_body]; intros H; try contradiction; [split; reflexivity|].
  destruct H as (-> & _). split; reflexivity.
Qed.

Lemma ref_body_idem w : forall l l' st, spelled_body (gap_fmt w) st l l' ->
  ref_body (gap_fmt w) st l' = ref_body (gap_fmt w) st l.
Proof.
  induction l as [|[t r] l IH]; intros [|[t' r'] l'] st H; cbn [spelled_body] in H; try contradiction; [reflexivity|].
  cbv zeta in H. destruct H as (-> & Hr & Hb). cbn [ref_body]. cbv zeta.
  destruct (spelled_head _ (tok_depth_after st t) _ _ Hb) as [E1 E2]. rewrite E1, E2.
  rewrite (gap_fmt_idem w _ _ _ _ _ Hr), (IH l' _ Hb). reflexivity.
Qed.

(* the text of a token list, along segs *)
Fixpoint body_text (l : list (token * list token)) : list Z :=
  match l with [] => [] | (t, r) :: l' => tcode t ++ flat_map tcode r ++ body_text l' end.

Lemma segs_text ts : flat_map tcode ts = flat_map tcode (fst (segs ts)) ++ body_text (snd (segs ts)).
Proof.
  induction ts as [|t r IH]; [reflexivity|]. cbn [segs flat_map]. destruct (segs r) as [r0 l]. cbn [fst snd] in IH.
  destruct (is_trivia t); cbn [fst snd flat_map body_text app]; rewrite IH; [rewrite app_assoc|]; reflexivity.
Qed.

Lemma body_text_spelled w : forall l l' st, spelled_body (gap_fmt w) st l l' -> body_text l' = ref_body (gap_fmt w) st l.
Proof.
  induction l as [|[t r] l IH]; intros [|[t' r'] l'] st H; cbn [spelled_body] in H; try contradiction; [reflexivity|].
  cbv zeta in H. destruct H as (-> & Hr & Hb). cbn [ref_body body_text]. cbv zeta. rewrite Hr, (IH l' _ Hb). reflexivity.
Qed.

(* a token list spelled as the reference formatting of ts: its text IS that formatting, and formatting it again gives the same *)
Theorem ref_fmt_idem w ts ts' : formatted_as (gap_fmt w) ts ts' ->
  flat_map tcode ts' = ref_fmt (gap_fmt w) ts /\ ref_fmt (gap_fmt w) ts' = ref_fmt (gap_fmt w) ts.
Proof.
  unfold formatted_as, ref_fmt. rewrite (segs_text ts'). destruct (segs ts) as [a l], (segs ts') as [a' l']. cbn [fst snd].
  intros [Ha Hb]. destruct (spelled_head _ (mk_dstate 0 0) _ _ Hb) as [E1 E2]. split.
  - rewrite Ha, (body_text_spelled w _ _ _ Hb). reflexivity.
  - rewrite E1, E2, (gap_fmt_idem w _ _ _ _ _ Ha), (ref_body_idem w _ _ _ Hb). reflexivity.
Qed.

(* ------------------------------------------------------------------ runs whose text does not depend on the counter *)
Lemma fmt_run_depth_irrelevant a e w d1 d2 r : noNL (canon_ws r) ->
  fmt_run (mk_fcfg a e w d1) r = fmt_run (mk_fcfg a e w d2) r.
Proof.
  intros H. rewrite (fmt_run_lines (mk_fcfg a e w d1) r (canon_ws r) []) by (apply split_nl_noNL_line; exact H).
  rewrite (fmt_run_lines (mk_fcfg a e w d2) r (canon_ws r) []) by (apply split_nl_noNL_line; exact H). reflexivity.
Qed.

Lemma gap_ok_irrelevant w a e d1 d2 r : gap_ok r = true -> existsb is_newline r = false -> gap_fmt w a e d1 r = gap_fmt w a e d2 r.
Proof.
  unfold gap_ok. intros H Hn. rewrite Hn in H. cbn [orb] in H. unfold gap_fmt. apply fmt_run_depth_irrelevant.
  apply canon_eolfree. exact H.
Qed.

(* ------------------------------------------------------------------ segs along the token list *)
Lemma segs_trivia_app run rest : forallb is_trivia run = true ->
  segs (run ++ rest) = (run ++ fst (segs rest), snd (segs rest)).
Proof.
  induction run as [|t r IH]; intros H; cbn [app].
  - destruct (segs rest); reflexivity.
  - cbn [forallb] in H. apply andb_true_iff in H. destruct H as [Ht Hr]. cbn [segs]. rewrite (IH Hr), Ht. reflexivity.
Qed.

Lemma segs_sig t rest : is_trivia t = false -> segs (t :: rest) = ([], (t, fst (segs rest)) :: snd (segs rest)).
Proof. intros H. cbn [segs]. destruct (segs rest) as [r0 l]. rewrite H. reflexivity. Qed.

Lemma sig_codes_nth l : forall a i text, In (i, text) (sig_codes l a) ->
  a <= i /\ exists t, nth_error l (Z.to_nat (i - a)) = Some t /\ is_trivia t = false /\ text = tcode t.
Proof.
  induction l as [|t r IH]; intros a i text H; [destruct H|]. cbn [sig_codes] in H.
  assert (Hr : In (i, text) (sig_codes r (a + 1)) -> a <= i /\ exists t0, nth_error (t :: r) (Z.to_nat (i - a)) = Some t0 /\ is_trivia t0 = false /\ text = tcode t0).
  { intros Hin. destruct (IH _ _ _ Hin) as (Hle & u & Hu & Hv). split; [lia|]. exists u. split; [|exact Hv].
    replace (Z.to_nat (i - a)) with (S (Z.to_nat (i - (a + 1)))) by lia. exact Hu. }
  destruct (is_trivia t) eqn:E; [exact (Hr H)|]. destruct H as [H|H]; [|exact (Hr H)].
  injection H as <- <-. split; [lia|]. exists t. replace (Z.to_nat (a - a)) with 0%nat by lia. split; [reflexivity|]. split; [exact E | reflexivity].
Qed.

Section R.
Variable ts : list token.
Variable w : Z.
Local Notation len := (zlen ts).
Local Notation W := (fmt_spaces w).
Local Notation St := (TokenDepthProofs.St ts).
Local Notation tok_at := (AstWriter.tok_at ts).

Definition suffix (q : Z) : list token := skipn (Z.to_nat q) ts.

Lemma suffix_cons q t : 0 <= q -> tok_at q = Some t -> suffix q = t :: suffix (q + 1).
Proof.
  intros Hq Ht. unfold suffix, AstWriter.tok_at in *. destruct (q <? 0) eqn:E; [lia|].
  replace (Z.to_nat (q + 1)) with (S (Z.to_nat q)) by lia.
  revert Ht. generalize (Z.to_nat q). intros n. revert ts. induction n as [|n IH]; intros l Ht.
  - destruct l; [discriminate|]. cbn in Ht. injection Ht as ->. reflexivity.
  - destruct l; [discriminate|]. cbn [nth_error] in Ht. cbn [skipn]. apply IH. exact Ht.
Qed.

Lemma suffix_run q (run : list token) : 0 <= q -> run = firstn (length run) (suffix q) -> suffix q = run ++ suffix (q + zlen run).
Proof.
  intros Hq H. unfold suffix in *. replace (Z.to_nat (q + zlen run)) with (Z.to_nat q + length run)%nat by (unfold zlen; lia).
  rewrite <- skipn_plus. rewrite H at 1. symmetry. apply firstn_skipn.
Qed.

Lemma run_tok q (run : list token) k t : 0 <= q -> run = firstn (length run) (suffix q) -> nth_error run k = Some t ->
  tok_at (q + Z.of_nat k) = Some t.
Proof.
  intros Hq H Hk. assert (Hkl : (k < length run)%nat) by (apply nth_error_Some; congruence).
  rewrite H in Hk. rewrite ListX.nth_error_firstn in Hk by exact Hkl. unfold suffix in Hk. rewrite ListX.nth_error_skipn in Hk.
  unfold AstWriter.tok_at. destruct (q + Z.of_nat k <? 0) eqn:E0; [lia|].
  replace (Z.to_nat (q + Z.of_nat k)) with (Z.to_nat q + k)%nat by lia. exact Hk.
Qed.

Lemma run_nosig q (run : list token) : 0 <= q -> run = firstn (length run) (suffix q) -> forallb is_trivia run = true ->
  forall j, q <= j < q + zlen run -> sigb ts j = false.
Proof.
  intros Hq H Htr j Hj. destruct (nth_error run (Z.to_nat (j - q))) as [t|] eqn:Ek.
  - pose proof (run_tok q run _ t Hq H Ek) as Ht. replace (q + Z.of_nat (Z.to_nat (j - q))) with j in Ht by lia.
    unfold ParserProofs.sigb. rewrite tok_at_same, Ht. rewrite forallb_forall in Htr. rewrite (Htr t (nth_error_In _ _ Ek)). reflexivity.
  - apply nth_error_None in Ek. unfold zlen in Hj. lia.
Qed.

Definition gaps_ok_from (q : Z) : Prop :=
  gap_ok (fst (segs (suffix q))) = true /\ Forall (fun p => gap_ok (snd p) = true) (snd (segs (suffix q))).

(* the text of a chunk list that tiles the rest of the token list from q, q being the start of a run or inside the part of it
   that no earlier call has read *)
Lemma chunks_ref cs : forall q p, tiling ts q cs p -> p = len -> 0 <= q ->
  Forall (good_end ts) cs ->
  (forall i text, In (Code i text) cs -> exists t, tok_at i = Some t /\ is_trivia t = false /\ text = tcode t) ->
  (forall s ind e run, In (Trivia s ind e run) cs -> run <> [] ->
      (s + zlen run < len -> existsb is_newline run = true -> ind = token_depth ts (s + zlen run)) /\
      (s + zlen run = len -> ind = 0)) ->
  gaps_ok_from q ->
  chunks_text W cs =
  gap_fmt w (q =? 0) (is_nilb (snd (segs (suffix q)))) (next_depth (St q) (snd (segs (suffix q)))) (fst (segs (suffix q)))
  ++ ref_body (gap_fmt w) (St q) (snd (segs (suffix q))).
Proof.
  intros q p Ht. induction Ht as [q|q ind e run cs p H1 H2 H3 H4 IH|q text cs p H IH]; intros Hp Hq Hg Hc Hd Hgap.
  - subst q. unfold suffix. rewrite skipn_all2 by (unfold zlen; lia). cbn [segs fst snd ref_body]. rewrite gap_fmt_nil. reflexivity.
  - inversion Hg as [|c0 l0 Hg1 Hg2]; subst c0 l0.
    assert (Hc' : forall i text, In (Code i text) cs -> exists t, tok_at i = Some t /\ is_trivia t = false /\ text = tcode t)
      by (intros i text Hin; apply Hc; right; exact Hin).
    assert (Hd' : forall s ind e run, In (Trivia s ind e run) cs -> run <> [] ->
      (s + zlen run < len -> existsb is_newline run = true -> ind = token_depth ts (s + zlen run)) /\ (s + zlen run = len -> ind = 0))
      by (intros s0 ind0 e0 run0 Hin; apply (Hd s0 ind0 e0 run0); right; exact Hin).
    change (chunks_text W (Trivia q ind e run :: cs)) with (W q ind e run ++ chunks_text W cs).
    destruct run as [|t0 run0] eqn:Erun.
    + rewrite fmt_spaces_nil. cbn [app]. change (zlen (@nil token)) with 0 in *. rewrite Z.add_0_r in *.
      apply IH; assumption.
    + rewrite <- Erun in *. assert (Hne : run <> []) by (rewrite Erun; discriminate). cbn [good_end] in Hg1.
      destruct (Hd q ind e run (or_introl eq_refl) Hne) as [Hd1 Hd2].
      pose proof (zlen_nonneg run) as Hr0. pose proof (suffix_run q run Hq H1) as Esuf. remember (q + zlen run) as q' eqn:Eq' in *.
      pose proof (tiling_mono ts _ _ _ H4) as Hq'len.
      assert (Hrest : fst (segs (suffix q')) = []).
      { cbn [good_end] in Hg1. destruct Hg1 as [Hg1|[Hg1|Hg1]]; [contradiction| |].
        - destruct (sigb_tok ts _ Hg1) as (t' & Ht' & Htr'). assert (Hq0 : 0 <= q') by lia. rewrite (suffix_cons q' t' Hq0 Ht').
          rewrite (segs_sig _ _ Htr'). reflexivity.
        - unfold suffix. rewrite skipn_all2 by (unfold zlen in *; lia). reflexivity. }
      assert (Esegs : segs (suffix q) = (run, snd (segs (suffix q')))).
      { rewrite Esuf, (segs_trivia_app run _ H2), Hrest, app_nil_r. reflexivity. }
      assert (HSt : St q' = St q).
      { apply (S_trivia ts [] []); [lia|]. intros j Hj. apply (run_nosig q run Hq H1 H2). lia. }
      assert (Hgap' : gaps_ok_from q').
      { destruct Hgap as [_ Hgl]. rewrite Esegs in Hgl. cbn [snd] in Hgl. split; [rewrite Hrest; reflexivity | exact Hgl]. }
      rewrite (IH Hp ltac:(lia) Hg2 Hc' Hd' Hgap'). rewrite Hrest, gap_fmt_nil. cbn [app].
      rewrite Esegs. cbn [fst snd]. rewrite HSt. f_equal.
      destruct Hgap as [Hg0 _]. rewrite Esegs in Hg0. cbn [fst] in Hg0.
      unfold fmt_spaces. fold (gap_fmt w (q =? 0) e ind run).
      cbn [good_end] in Hg1. destruct Hg1 as [Hg1|[Hg1|Hg1]]; [contradiction| |].
      * (* the run ends at a significant token *)
        destruct (sigb_tok ts _ Hg1) as (t' & Ht' & Htr'). pose proof (sigb_range ts _ Hg1) as Hrange.
        assert (Ee : e = false) by (rewrite H3; lia). rewrite Ee.
        rewrite (suffix_cons q' t') by (first [lia | exact Ht']). rewrite (segs_sig _ _ Htr'). cbn [snd is_nilb next_depth].
        assert (Etd : token_depth ts q' = tok_depth_at (St q) t').
        { unfold token_depth. unfold AstWriter.tok_at in Ht'. destruct (q' <? 0) eqn:E0; [lia|]. rewrite Ht'. rewrite <- HSt. reflexivity. }
        destruct (existsb is_newline run) eqn:Enl.
        -- rewrite (Hd1 ltac:(lia) eq_refl), Etd. reflexivity.
        -- apply gap_ok_irrelevant; assumption.
      * (* the run ends the file *)
        assert (Ee : e = true) by (rewrite H3; lia). rewrite Ee, (Hd2 Hg1).
        unfold suffix. rewrite skipn_all2 by (unfold zlen in *; lia). reflexivity.
  - inversion Hg as [|c0 l0 Hg1 Hg2]; subst c0 l0.
    destruct (Hc q text (or_introl eq_refl)) as (t & Ht & Htr & ->).
    assert (Hc' : forall i text, In (Code i text) cs -> exists t, tok_at i = Some t /\ is_trivia t = false /\ text = tcode t)
      by (intros i text Hin; apply Hc; right; exact Hin).
    assert (Hd' : forall s ind e run, In (Trivia s ind e run) cs -> run <> [] ->
      (s + zlen run < len -> existsb is_newline run = true -> ind = token_depth ts (s + zlen run)) /\ (s + zlen run = len -> ind = 0))
      by (intros s0 ind0 e0 run0 Hin; apply (Hd s0 ind0 e0 run0); right; exact Hin).
    assert (Esegs : segs (suffix q) = ([], (t, fst (segs (suffix (q + 1)))) :: snd (segs (suffix (q + 1))))).
    { rewrite (suffix_cons q t Hq Ht). apply segs_sig. exact Htr. }
    assert (Hgap' : gaps_ok_from (q + 1)).
    { destruct Hgap as [_ Hgl]. rewrite Esegs in Hgl. cbn [snd] in Hgl. inversion Hgl as [|x0 l0 Hx Hl]; subst. split; [exact Hx | exact Hl]. }
    change (chunks_text W (Code q (tcode t) :: cs)) with (tcode t ++ chunks_text W cs).
    rewrite (IH Hp ltac:(lia) Hg2 Hc' Hd' Hgap'). rewrite Esegs. cbn [fst snd ref_body]. rewrite gap_fmt_nil. cbn [app]. cbv zeta.
    rewrite (S_next ts [] [] q t Ht), Htr. assert (E0 : (q + 1 =? 0) = false) by lia. rewrite E0. reflexivity.
Qed.

End R.

(* ------------------------------------------------------------------ whole programs *)
Lemma gaps_tidy_from ts : gaps_tidy ts = true -> gaps_ok_from ts 0.
Proof.
  unfold gaps_tidy, gaps_ok_from, suffix. cbn [Z.to_nat skipn]. destruct (segs ts) as [r0 l]. intros H.
  apply andb_true_iff in H. destruct H as [H1 H2]. cbn [fst snd]. split; [exact H1|]. apply Forall_forall. rewrite forallb_forall in H2. exact H2.
Qed.

(* luafmt's output is the reference formatter of Spec/ReindentSpec.v applied to the token list *)
Theorem program_ref_fmt ts w root e :
  lua_parse ts = Ok (root, e) -> consumed ts e = true -> writable ts root = true ->
  no_trailing_sep root = true -> gaps_tidy ts = true ->
  writer_text (fmt_spaces w) ts (view root) = Ok (ref_fmt (gap_fmt w) ts).
Proof.
  intros Hp Hc Hw Hts Hgt.
  destruct (writer_aligned_good ts root e Hp Hc Hw) as (cs & Hcs & Hcodes & Htil & Hgood).
  destruct (program_depth_full ts root e Hp Hc Hw Hts) as (cs' & Hcs' & Hdep).
  rewrite Hcs in Hcs'. injection Hcs' as <-.
  unfold writer_text. rewrite Hcs. f_equal.
  rewrite (chunks_ref ts w cs 0 (zlen ts) Htil eq_refl (Z.le_refl 0) Hgood).
  - unfold ref_fmt, suffix. cbn [Z.to_nat skipn]. destruct (segs ts) as [r0 l]. cbn [fst snd].
    assert (HS0 : TokenDepthProofs.St ts 0 = mk_dstate 0 0) by (unfold TokenDepthProofs.St, depth_before; destruct ts; reflexivity).
    rewrite HS0. reflexivity.
  - intros i text Hin. apply codes_of_in in Hin. rewrite Hcodes in Hin. destruct (sig_codes_nth _ _ _ _ Hin) as (Hle & t & Ht & Htr & Htx).
    exists t. split; [|split; assumption]. unfold AstWriter.tok_at. destruct (i <? 0) eqn:E0; [lia|]. rewrite Z.sub_0_r in Ht. exact Ht.
  - intros s ind e0 run Hin Hne. destruct (Hdep s ind e0 run Hin Hne) as [H1 H2]. split; [|exact H2].
    intros Hlt Hnl. exact (proj2 (H1 Hlt) Hnl).
  - apply gaps_tidy_from. exact Hgt.
Qed.

(* re-indentation invariance: two layouts of the same program with the same line breaks are formatted to the same text *)
Theorem program_reindent w ts1 ts2 root1 e1 root2 e2 :
  lua_parse ts1 = Ok (root1, e1) -> consumed ts1 e1 = true -> writable ts1 root1 = true ->
  no_trailing_sep root1 = true -> gaps_tidy ts1 = true ->
  lua_parse ts2 = Ok (root2, e2) -> consumed ts2 e2 = true -> writable ts2 root2 = true ->
  no_trailing_sep root2 = true -> gaps_tidy ts2 = true ->
  reindent_equiv ts1 ts2 ->
  writer_text (fmt_spaces w) ts1 (view root1) = writer_text (fmt_spaces w) ts2 (view root2).
Proof.
  intros P1 C1 W1 T1 G1 P2 C2 W2 T2 G2 Heq.
  rewrite (program_ref_fmt ts1 w root1 e1 P1 C1 W1 T1 G1), (program_ref_fmt ts2 w root2 e2 P2 C2 W2 T2 G2).
  rewrite (ref_fmt_reindent w ts1 ts2 Heq). reflexivity.
Qed.

(* formatting already formatted code changes nothing (token level): a token list inside the domain that is spelled as the reference
   formatting of some token list is written back byte for byte *)
Theorem program_idempotent w ts ts' root' e' :
  lua_parse ts' = Ok (root', e') -> consumed ts' e' = true -> writable ts' root' = true ->
  no_trailing_sep root' = true -> gaps_tidy ts' = true ->
  formatted_as (gap_fmt w) ts ts' ->
  writer_text (fmt_spaces w) ts' (view root') = Ok (flat_map tcode ts').
Proof.
  intros P C W T G Hf. rewrite (program_ref_fmt ts' w root' e' P C W T G). destruct (ref_fmt_idem w ts ts' Hf) as [H1 H2].
  rewrite H2, H1. reflexivity.
Qed.
