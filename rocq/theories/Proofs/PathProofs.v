(* Lemmas relating the posixpath model (Model/Paths.v) to the reference notion of location
   (Spec/PathSpec.v): normpath / abspath preserve the location, absolute normal forms
   contain no ".." component, textual containment with an aligned separator implies
   component-wise containment. *)
From PV Require Import Base.Prelude Model.Paths Spec.PathSpec.
From Coq Require Import ZifyBool.

(* ------------------------------------------------------------------ components *)
Lemma split_on_components s : split_on 47 s = components s.
Proof.
  induction s as [|c r IH]; [reflexivity|].
  cbn [split_on components]. rewrite IH. reflexivity.
Qed.

Lemma components_nonnil s : components s <> [].
Proof.
  destruct s as [|c r]; cbn [components]; [discriminate|].
  destruct (c =? 47); [discriminate|]. destruct (components r); discriminate.
Qed.

Lemma components_app_slash a b : components (a ++ 47 :: b) = components a ++ components b.
Proof.
  induction a as [|c a IH]; [reflexivity|].
  cbn [app components]. rewrite IH.
  destruct (c =? 47); [reflexivity|].
  pose proof (components_nonnil a) as Hn.
  destruct (components a) as [|h t]; [congruence|]. reflexivity.
Qed.

Lemma components_end_slash a : components (a ++ [47]) = components a ++ [[]].
Proof. apply components_app_slash. Qed.

Definition noslash (s : bytes) : Prop := existsb (fun x => x =? 47) s = false.

Lemma components_noslash_one s : noslash s -> components s = [s].
Proof.
  unfold noslash. induction s as [|c r IH]; [reflexivity|].
  cbn [existsb components]. intros H. apply orb_false_iff in H as [Hc Hr].
  rewrite Hc. rewrite (IH Hr). reflexivity.
Qed.

Lemma components_all_noslash s : Forall noslash (components s).
Proof.
  induction s as [|c r IH]; cbn [components].
  - constructor; [reflexivity | constructor].
  - destruct (c =? 47) eqn:E.
    + constructor; [reflexivity | exact IH].
    + destruct (components r) as [|h t] eqn:Er.
      * constructor; [|constructor]. unfold noslash. cbn. rewrite E. reflexivity.
      * inversion IH as [|x l Hh Ht]; subst. constructor; [|exact Ht].
        unfold noslash in *. cbn [existsb]. rewrite E, Hh. reflexivity.
Qed.

Lemma components_join l :
  l <> [] -> Forall noslash l -> components (join_with 47 l) = l.
Proof.
  induction l as [|x l IH]; [congruence|]. intros _ H.
  inversion H as [|x' l' Hx Hl]; subst.
  destruct l as [|y l].
  - cbn [join_with]. apply components_noslash_one. exact Hx.
  - change (join_with 47 (x :: y :: l)) with (x ++ 47 :: join_with 47 (y :: l)).
    rewrite components_app_slash, (components_noslash_one x Hx), IH by (congruence || assumption).
    reflexivity.
Qed.

(* ------------------------------------------------------------------ walk *)
Lemma walk_app loc a b : walk loc (a ++ b) = walk (walk loc a) b.
Proof.
  revert loc; induction a as [|c a IH]; intros loc; [reflexivity|].
  cbn [app walk]. destruct (comp_kind c) as [|p|p]; [apply IH|..]; try apply IH.
  destruct p; apply IH.
Qed.

Definition stays (c : bytes) : Prop := comp_kind c = 0.
Definition descends (c : bytes) : Prop := comp_kind c = 2.
Definition not_parent (c : bytes) : Prop := comp_kind c <> 1.

Lemma comp_kind_cases c : comp_kind c = 0 \/ comp_kind c = 1 \/ comp_kind c = 2.
Proof.
  unfold comp_kind. destruct c as [|x [|y [|z r]]]; auto.
  - destruct x as [|p|p]; auto. do 6 (destruct p as [p|p|]; auto).
  - destruct x as [|p|p]; auto. do 6 (destruct p as [p|p|]; auto).
    destruct y as [|p|p]; auto. do 6 (destruct p as [p|p|]; auto).
  - destruct x as [|p|p]; auto. do 6 (destruct p as [p|p|]; auto).
    destruct y as [|p|p]; auto. do 6 (destruct p as [p|p|]; auto).
Qed.

Lemma walk_step loc c r :
  walk loc (c :: r) =
  walk (if comp_kind c =? 0 then loc else if comp_kind c =? 1 then tl loc else c :: loc) r.
Proof.
  cbn [walk]. destruct (comp_kind_cases c) as [H|[H|H]]; rewrite H; reflexivity.
Qed.

Lemma walk_stays loc cs : Forall stays cs -> walk loc cs = loc.
Proof.
  induction 1 as [|c cs Hc _ IH]; [reflexivity|].
  rewrite walk_step. unfold stays in Hc. rewrite Hc. exact IH.
Qed.

Lemma walk_descends loc cs : Forall descends cs -> walk loc cs = rev cs ++ loc.
Proof.
  intros H. revert loc. induction H as [|c cs Hc _ IH]; intros loc; [reflexivity|].
  rewrite walk_step. unfold descends in Hc. rewrite Hc. cbv [Z.eqb Pos.eqb].
  rewrite IH. cbn [rev]. rewrite <- app_assoc. reflexivity.
Qed.

Lemma walk_grows loc cs : Forall not_parent cs -> exists ext, walk loc cs = ext ++ loc.
Proof.
  intros H. revert loc. induction H as [|c cs Hc _ IH]; intros loc.
  - exists []. reflexivity.
  - rewrite walk_step. unfold not_parent in Hc.
    destruct (comp_kind_cases c) as [E|[E|E]]; [|congruence|]; rewrite E; cbv [Z.eqb Pos.eqb].
    + apply IH.
    + destruct (IH (c :: loc)) as (ext & ->). exists (ext ++ [c]).
      rewrite <- app_assoc. reflexivity.
Qed.

(* ------------------------------------------------------------------ prefix *)
Lemma prefix_b_spec a b : prefix_b a b = true <-> under_loc a b.
Proof.
  unfold under_loc. revert b; induction a as [|x a IH]; intros b; cbn [prefix_b].
  - split; [intros _; exists b; reflexivity | reflexivity].
  - destruct b as [|y b].
    + split; [discriminate | intros (r & H); discriminate].
    + rewrite andb_true_iff, zlist_eqb_eq, IH. split.
      * intros (-> & r & ->). exists r. reflexivity.
      * intros (r & [= -> ->]). split; [reflexivity | exists r; reflexivity].
Qed.

Lemma underb_spec cwd root p : underb cwd root p = true <-> under cwd root p.
Proof. apply prefix_b_spec. Qed.

(* ------------------------------------------------------------------ locations as stacks *)
(* the location of p, innermost first *)
Definition stack (cwd p : bytes) : list bytes :=
  walk (if absolute p then [] else walk [] (components cwd)) (components p).

Lemma locate_stack cwd p : locate cwd p = rev (stack cwd p).
Proof. reflexivity. Qed.

Lemma isabs_absolute p : isabs p = absolute p.
Proof.
  unfold isabs, absolute. destruct p as [|c r]; [reflexivity|].
  cbn [starts_with]. rewrite andb_true_r.
  destruct (Z.eqb_spec 47 c) as [<-|N]; [reflexivity|].
  destruct c as [|q|q]; try reflexivity.
  do 6 (destruct q as [q|q|]; try reflexivity); congruence.
Qed.

Lemma absolute_cons p : absolute p = true -> exists r, p = 47 :: r.
Proof.
  unfold absolute. destruct p as [|c r]; [discriminate|].
  destruct c as [|q|q]; try discriminate.
  do 6 (destruct q as [q|q|]; try discriminate). intros _. exists r. reflexivity.
Qed.

Lemma absolute_app a b : a <> [] -> absolute (a ++ b) = absolute a.
Proof. destruct a; [congruence|reflexivity]. Qed.

Lemma stack_nil cwd : stack cwd [] = walk [] (components cwd).
Proof. reflexivity. Qed.

(* x ++ "/" ++ y : continue walking from x's location *)
Lemma stack_app_slash cwd x y :
  x <> [] -> stack cwd (x ++ 47 :: y) = walk (stack cwd x) (components y).
Proof.
  intros Hx. unfold stack. rewrite (absolute_app x (47 :: y) Hx).
  rewrite components_app_slash, walk_app. reflexivity.
Qed.

Lemma stack_relative cwd y :
  absolute y = false -> stack cwd y = walk (stack cwd []) (components y).
Proof. intros H. unfold stack. rewrite H. reflexivity. Qed.

Lemma stack_end_slash cwd x : x <> [] -> stack cwd (x ++ [47]) = stack cwd x.
Proof. intros Hx. rewrite stack_app_slash by exact Hx. reflexivity. Qed.

Lemma ends_with_slash_spec s : ends_with_slash s = true -> exists a, s = a ++ [47].
Proof.
  induction s as [|c r IH]; [discriminate|].
  destruct r as [|d r'].
  - cbn [ends_with_slash]. unfold is_slash. intros H. apply Z.eqb_eq in H. subst. exists []. reflexivity.
  - intros H. change (ends_with_slash (d :: r') = true) in H.
    destruct (IH H) as (a & E). exists (c :: a). rewrite E. reflexivity.
Qed.

Lemma stack_slash_only cwd y : stack cwd (47 :: y) = walk [] (components y).
Proof. reflexivity. Qed.

(* x ends with "/" : x ++ y continues from x's location *)
Lemma stack_app_endslash cwd x y :
  ends_with_slash x = true -> stack cwd (x ++ y) = walk (stack cwd x) (components y).
Proof.
  intros H. destruct (ends_with_slash_spec x H) as (a & ->).
  rewrite <- app_assoc. cbn [app].
  destruct a as [|c a].
  - reflexivity.
  - rewrite stack_app_slash by discriminate.
    rewrite stack_end_slash by discriminate. reflexivity.
Qed.

(* d is empty or ends with "/"; tail never moves up: d ++ tail lies under d *)
Lemma grow_lemma S d tail :
  d = [] \/ (exists a, d = a ++ [47]) ->
  Forall not_parent (components tail) ->
  exists ext, walk S (components (d ++ tail)) = ext ++ walk S (components d).
Proof.
  intros [->|(a & ->)] Ht.
  - cbn [app components walk comp_kind]. apply walk_grows. exact Ht.
  - rewrite <- app_assoc. cbn [app]. rewrite components_app_slash, components_end_slash.
    rewrite !walk_app. cbn [walk comp_kind]. apply walk_grows. exact Ht.
Qed.

(* ------------------------------------------------------------------ normpath *)
Definition nonstay (c : bytes) : Prop := comp_kind c <> 0.

Lemma kind_of_tests c :
  (is_empty c || is_dot c = true <-> comp_kind c = 0) /\ (is_dotdot c = true <-> comp_kind c = 1).
Proof.
  unfold is_empty, is_dot, is_dotdot, comp_kind.
  destruct c as [|x [|y [|z r]]]; cbn [orb]; try (split; split; (discriminate || reflexivity)).
  - destruct x as [|p|p]; try (split; split; (discriminate || reflexivity)).
    do 6 (destruct p as [p|p|]; try (split; split; (discriminate || reflexivity))).
  - destruct x as [|p|p]; try (split; split; (discriminate || reflexivity)).
    do 6 (destruct p as [p|p|]; try (split; split; (discriminate || reflexivity))).
    destruct y as [|p|p]; try (split; split; (discriminate || reflexivity)).
    do 6 (destruct p as [p|p|]; try (split; split; (discriminate || reflexivity))).
  - destruct x as [|p|p]; try (split; split; (discriminate || reflexivity)).
    do 6 (destruct p as [p|p|]; try (split; split; (discriminate || reflexivity))).
    destruct y as [|p|p]; try (split; split; (discriminate || reflexivity)).
    do 6 (destruct p as [p|p|]; try (split; split; (discriminate || reflexivity))).
Qed.

(* the component loop of normpath computes the same location as the reference walk *)
Lemma norm_walk rooted W cs : forall stk,
  (rooted = true -> W = []) -> Forall nonstay stk ->
  walk W (rev (norm_comps rooted cs stk)) = walk (walk W (rev stk)) cs.
Proof.
  induction cs as [|c r IH]; intros stk HW Hs; [reflexivity|].
  cbn [norm_comps]. rewrite (walk_step _ c r).
  destruct (kind_of_tests c) as [K0 K1].
  destruct (is_empty c || is_dot c) eqn:E0.
  - rewrite (proj1 K0 eq_refl). cbn [Z.eqb]. apply IH; assumption.
  - assert (N0 : comp_kind c <> 0) by (intros H; apply K0 in H; congruence).
    destruct (is_dotdot c) eqn:E1; cbn [negb].
    + rewrite (proj1 K1 eq_refl). cbn [Z.eqb].
      destruct stk as [|t stk'].
      * destruct rooted.
        -- rewrite IH by assumption. rewrite (HW eq_refl). reflexivity.
        -- rewrite IH; [|assumption|constructor; [exact N0|constructor]].
           cbn [rev app]. rewrite walk_step. rewrite (proj1 K1 eq_refl). reflexivity.
      * inversion Hs as [|t' s' Ht Hs']; subst.
        destruct (kind_of_tests t) as [_ T1].
        destruct (is_dotdot t) eqn:Et.
        -- rewrite IH; [|assumption|constructor; [exact N0|exact Hs]].
           cbn [rev]. rewrite walk_app. rewrite (walk_step _ c []). rewrite (proj1 K1 eq_refl). reflexivity.
        -- rewrite IH by assumption.
           cbn [rev]. rewrite walk_app. rewrite (walk_step _ t []).
           assert (T2 : comp_kind t = 2).
           { destruct (comp_kind_cases t) as [H|[H|H]]; [unfold nonstay in Ht; congruence| |exact H].
             apply T1 in H. congruence. }
           rewrite T2. reflexivity.
    + assert (C2 : comp_kind c = 2).
      { destruct (comp_kind_cases c) as [H|[H|H]]; [congruence| |exact H]. apply K1 in H. congruence. }
      rewrite C2. cbn [Z.eqb].
      rewrite IH; [|assumption|constructor; [exact N0|exact Hs]].
      cbn [rev]. rewrite walk_app. rewrite (walk_step _ c []). rewrite C2. reflexivity.
Qed.

(* rooted: only proper names remain on the stack *)
Lemma norm_rooted_descends cs : forall stk,
  Forall descends stk -> Forall descends (norm_comps true cs stk).
Proof.
  induction cs as [|c r IH]; intros stk Hs; [exact Hs|].
  cbn [norm_comps]. destruct (kind_of_tests c) as [K0 K1].
  destruct (is_empty c || is_dot c) eqn:E0; [apply IH; exact Hs|].
  destruct (is_dotdot c) eqn:E1; cbn [negb].
  - destruct stk as [|t stk']; [apply IH; exact Hs|].
    inversion Hs as [|t' s' Ht Hs']; subst.
    destruct (is_dotdot t) eqn:Et.
    + destruct (kind_of_tests t) as [_ T1]. apply T1 in Et. unfold descends in Ht. congruence.
    + apply IH. exact Hs'.
  - apply IH. constructor; [|exact Hs]. unfold descends.
    destruct (comp_kind_cases c) as [H|[H|H]]; [apply K0 in H; congruence | apply K1 in H; congruence | exact H].
Qed.

Lemma norm_noslash rooted cs : forall stk,
  Forall noslash cs -> Forall noslash stk -> Forall noslash (norm_comps rooted cs stk).
Proof.
  induction cs as [|c r IH]; intros stk Hc Hs; [exact Hs|].
  inversion Hc as [|c' r' Hc1 Hc2]; subst.
  cbn [norm_comps].
  destruct (is_empty c || is_dot c); [apply IH; assumption|].
  destruct (negb (is_dotdot c)); [apply IH; [assumption | constructor; assumption]|].
  destruct stk as [|t stk'].
  - destruct rooted; apply IH; try assumption. constructor; assumption.
  - inversion Hs; subst. destruct (is_dotdot t); apply IH; try assumption. constructor; assumption.
Qed.

Lemma norm_nonstay rooted cs : forall stk,
  Forall nonstay stk -> Forall nonstay (norm_comps rooted cs stk).
Proof.
  induction cs as [|c r IH]; intros stk Hs; [exact Hs|].
  cbn [norm_comps]. destruct (kind_of_tests c) as [K0 K1].
  destruct (is_empty c || is_dot c) eqn:E0; [apply IH; exact Hs|].
  assert (N0 : nonstay c) by (intros H; apply K0 in H; congruence).
  destruct (negb (is_dotdot c)); [apply IH; constructor; assumption|].
  destruct stk as [|t stk'].
  - destruct rooted; apply IH; try assumption. constructor; assumption.
  - inversion Hs; subst. destruct (is_dotdot t); apply IH; try assumption. constructor; assumption.
Qed.

Lemma initial_slashes_abs p : absolute p = true -> (1 <= initial_slashes p)%nat.
Proof.
  intros H. destruct (absolute_cons p H) as (r & ->).
  cbn [initial_slashes].
  destruct r as [|c r]; [lia|].
  destruct c as [|q|q]; try lia.
  do 6 (destruct q as [q|q|]; try lia).
  destruct r as [|c r]; [lia|].
  destruct c as [|q|q]; try lia.
  do 6 (destruct q as [q|q|]; try lia).
Qed.

Lemma initial_slashes_rel p : absolute p = false -> initial_slashes p = 0%nat.
Proof.
  unfold absolute, initial_slashes. destruct p as [|c r]; [reflexivity|].
  destruct c as [|q|q]; try reflexivity.
  do 6 (destruct q as [q|q|]; try reflexivity). discriminate.
Qed.

Lemma components_repeat_slash k s :
  components (repeat 47 k ++ s) = repeat [] k ++ components s.
Proof. induction k as [|k IH]; [reflexivity|]. cbn [repeat app components Z.eqb]. rewrite IH. reflexivity. Qed.

Lemma Forall_repeat {A} (P : A -> Prop) x k : P x -> Forall P (repeat x k).
Proof. intros H. induction k; cbn; constructor; auto. Qed.

(* shape of normpath on a non-empty path *)
Definition norm_stack (p : bytes) : list bytes :=
  norm_comps (negb (Nat.eqb (initial_slashes p) 0)) (split_on 47 p) [].

Lemma normpath_shape p :
  p <> [] ->
  normpath p = match repeat 47 (initial_slashes p) ++ join_with 47 (rev (norm_stack p)) with
               | [] => [46] | r => r end.
Proof. destruct p; [congruence|reflexivity]. Qed.

Lemma rev_nonnil {A} (l : list A) : l <> [] -> rev l <> [].
Proof. destruct l; [congruence|]. cbn. intros _ H. apply app_eq_nil in H as [_ H]. discriminate. Qed.

Lemma Forall_rev' {A} (P : A -> Prop) l : Forall P l -> Forall P (rev l).
Proof. intros H. apply Forall_forall. intros x Hx. apply in_rev in Hx. rewrite Forall_forall in H. auto. Qed.

(* components of the normal form: k empty components, then the stack bottom-up (or one
   staying component when there is nothing else) *)
Lemma normpath_components p :
  p <> [] ->
  exists k tailc, components (normpath p) = repeat [] k ++ tailc /\
    (tailc = rev (norm_stack p) \/ (norm_stack p = [] /\ Forall stays tailc)) /\
    absolute (normpath p) = absolute p.
Proof.
  intros Hp. rewrite (normpath_shape p Hp).
  set (k := initial_slashes p). set (stk := norm_stack p).
  assert (Hns : Forall noslash stk).
  { unfold stk, norm_stack. apply norm_noslash; [|constructor].
    rewrite split_on_components. apply components_all_noslash. }
  destruct (absolute p) eqn:Ha.
  - pose proof (initial_slashes_abs p Ha) as Hk. fold k in Hk.
    destruct k as [|k']; [lia|].
    cbn [repeat app]. exists (S k').
    destruct stk as [|t stk'] eqn:Es.
    + exists [[]]. cbn [rev join_with]. rewrite app_nil_r.
      change (47 :: repeat 47 k') with (repeat 47 (S k')).
      rewrite <- (app_nil_r (repeat 47 (S k'))), components_repeat_slash.
      split; [reflexivity|]. split; [right; split; [reflexivity|constructor; [reflexivity|constructor]]|].
      reflexivity.
    + exists (rev (t :: stk')).
      change (47 :: repeat 47 k' ++ join_with 47 (rev (t :: stk'))) with (repeat 47 (S k') ++ join_with 47 (rev (t :: stk'))).
      rewrite components_repeat_slash, components_join;
        [|apply rev_nonnil; discriminate|apply Forall_rev'; exact Hns].
      split; [reflexivity|]. split; [left; reflexivity|reflexivity].
  - pose proof (initial_slashes_rel p Ha) as Hk. fold k in Hk. rewrite Hk. cbn [repeat app].
    exists 0%nat. cbn [repeat app].
    destruct stk as [|t stk'] eqn:Es.
    + exists [[46]]. cbn [rev join_with]. split; [reflexivity|].
      split; [right; split; [reflexivity|constructor; [reflexivity|constructor]]|reflexivity].
    + exists (rev (t :: stk')).
      assert (Hj : components (join_with 47 (rev (t :: stk'))) = rev (t :: stk')).
      { apply components_join; [apply rev_nonnil; discriminate|apply Forall_rev'; exact Hns]. }
      assert (Hne : join_with 47 (rev (t :: stk')) <> []).
      { intros E. rewrite E in Hj. cbn [components] in Hj.
        assert (Hn : nonstay (hd [] (rev (t :: stk')))).
        { assert (Hall : Forall nonstay (rev (t :: stk'))).
          { apply Forall_rev'. rewrite <- Es. unfold stk, norm_stack. apply norm_nonstay. constructor. }
          rewrite <- Hj in Hall |- *. inversion Hall; subst. assumption. }
        rewrite <- Hj in Hn. cbn in Hn. apply Hn. reflexivity. }
      destruct (join_with 47 (rev (t :: stk'))) as [|c0 r0] eqn:Ej; [congruence|].
      split; [exact Hj|]. split; [left; reflexivity|].
      (* relative: the first byte is the first byte of a component without slash *)
      unfold absolute. destruct c0 as [|q|q]; try reflexivity.
      do 6 (destruct q as [q|q|]; try reflexivity).
      exfalso. cbn [components Z.eqb] in Hj.
      assert (Hall : Forall nonstay (rev (t :: stk'))).
      { apply Forall_rev'. rewrite <- Es. unfold stk, norm_stack. apply norm_nonstay. constructor. }
      rewrite <- Hj in Hall. inversion Hall as [|x l Hx _]; subst. apply Hx. reflexivity.
Qed.

Lemma walk_repeat_empty W k cs : walk W (repeat [] k ++ cs) = walk W cs.
Proof. induction k as [|k IH]; [reflexivity|]. cbn [repeat app walk comp_kind]. exact IH. Qed.

(* normpath preserves the location *)
Lemma stack_normpath cwd p : stack cwd (normpath p) = stack cwd p.
Proof.
  destruct p as [|c0 p0] eqn:Ep; [reflexivity|]. rewrite <- Ep.
  assert (Hp : p <> []) by (rewrite Ep; discriminate).
  destruct (normpath_components p Hp) as (k & tailc & Hc & Ht & Ha).
  unfold stack. rewrite Ha, Hc, walk_repeat_empty.
  set (W := if absolute p then [] else walk [] (components cwd)).
  assert (HW : negb (Nat.eqb (initial_slashes p) 0) = true -> W = []).
  { intros H. unfold W. destruct (absolute p) eqn:E; [reflexivity|].
    rewrite (initial_slashes_rel p E) in H. discriminate. }
  pose proof (norm_walk _ W (split_on 47 p) [] HW (Forall_nil _)) as Hn.
  fold (norm_stack p) in Hn. cbn [rev walk] in Hn. rewrite split_on_components in Hn.
  destruct Ht as [->|[Hnil Hst]].
  - exact Hn.
  - rewrite walk_stays by exact Hst. rewrite Hnil in Hn. cbn [rev walk] in Hn. exact Hn.
Qed.

Lemma locate_normpath cwd p : locate cwd (normpath p) = locate cwd p.
Proof. rewrite !locate_stack, stack_normpath. reflexivity. Qed.

Lemma normpath_absolute p : p <> [] -> absolute (normpath p) = absolute p.
Proof. intros Hp. destruct (normpath_components p Hp) as (k & t & _ & _ & H). exact H. Qed.

(* an absolute normal form has no ".." component *)
Lemma normpath_abs_no_parent p :
  absolute p = true -> Forall not_parent (components (normpath p)).
Proof.
  intros Ha. assert (Hp : p <> []) by (destruct p; [discriminate|discriminate]).
  destruct (normpath_components p Hp) as (k & tailc & Hc & Ht & _). rewrite Hc.
  apply Forall_app. split.
  - apply Forall_repeat. unfold not_parent. cbn. discriminate.
  - destruct Ht as [->|[_ Hst]].
    + apply Forall_rev'.
      assert (Hd : Forall descends (norm_stack p)).
      { unfold norm_stack.
        pose proof (initial_slashes_abs p Ha) as Hk.
        destruct (initial_slashes p) as [|k']; [lia|]. cbn [Nat.eqb negb].
        apply norm_rooted_descends. constructor. }
      eapply Forall_impl; [|exact Hd]. unfold descends, not_parent. intros a H. rewrite H. discriminate.
    + eapply Forall_impl; [|exact Hst]. unfold stays, not_parent. intros a H. rewrite H. discriminate.
Qed.

(* ------------------------------------------------------------------ join / abspath *)
Lemma join_absolute a b : absolute b = false -> a <> [] -> absolute (join a b) = absolute a.
Proof.
  intros Hb Ha. unfold join. rewrite isabs_absolute, Hb.
  destruct (is_empty a || ends_with_slash a); apply absolute_app; exact Ha.
Qed.

Lemma is_empty_spec s : is_empty s = true <-> s = [].
Proof. destruct s; cbn; split; congruence. Qed.

(* joining a relative b onto a non-empty a: walk b from a's location *)
Lemma stack_join cwd a b :
  a <> [] -> absolute b = false -> stack cwd (join a b) = walk (stack cwd a) (components b).
Proof.
  intros Ha Hb. unfold join. rewrite isabs_absolute, Hb.
  destruct (is_empty a) eqn:Ee; [apply is_empty_spec in Ee; congruence|]. cbn [orb].
  destruct (ends_with_slash a) eqn:Es.
  - apply stack_app_endslash. exact Es.
  - apply stack_app_slash. exact Ha.
Qed.

Lemma stack_abspath cwd p : absolute cwd = true -> stack cwd (abspath cwd p) = stack cwd p.
Proof.
  intros Hc. unfold abspath. rewrite stack_normpath, isabs_absolute.
  destruct (absolute p) eqn:Hp; [reflexivity|].
  assert (Hne : cwd <> []) by (destruct cwd; [discriminate|discriminate]).
  rewrite stack_join by assumption.
  unfold stack at 2. rewrite Hp. unfold stack. rewrite Hc.
  destruct (absolute_cons cwd Hc) as (r & ->). reflexivity.
Qed.

Lemma locate_abspath cwd p : absolute cwd = true -> locate cwd (abspath cwd p) = locate cwd p.
Proof. intros H. rewrite !locate_stack, stack_abspath by exact H. reflexivity. Qed.

Lemma abspath_absolute cwd p : absolute cwd = true -> absolute (abspath cwd p) = true.
Proof.
  intros Hc. unfold abspath. rewrite isabs_absolute.
  assert (Hne : cwd <> []) by (destruct cwd; [discriminate|discriminate]).
  destruct (absolute p) eqn:Hp.
  - rewrite normpath_absolute; [exact Hp|]. destruct p; [discriminate|discriminate].
  - rewrite normpath_absolute.
    + rewrite join_absolute; assumption.
    + intros E. pose proof (join_absolute cwd p Hp Hne) as H. rewrite E, Hc in H. discriminate.
Qed.

Lemma abspath_no_parent cwd p :
  absolute cwd = true -> Forall not_parent (components (abspath cwd p)).
Proof.
  intros Hc. unfold abspath. apply normpath_abs_no_parent.
  rewrite isabs_absolute.
  assert (Hne : cwd <> []) by (destruct cwd; [discriminate|discriminate]).
  destruct (absolute p) eqn:Hp; [exact Hp|]. rewrite join_absolute; assumption.
Qed.

(* ------------------------------------------------------------------ dirname *)
Lemma dir_prefix_dir_part s : dir_prefix s = dir_part s.
Proof. induction s as [|c r IH]; [reflexivity|]. cbn [dir_prefix dir_part]. unfold has_slash, is_slash. rewrite IH. reflexivity. Qed.

Lemma rstrip_slash_spec s : exists n, s = rstrip_slash s ++ repeat 47 n.
Proof.
  induction s as [|c r IH]; [exists 0%nat; reflexivity|].
  cbn [rstrip_slash]. destruct (all_slash (c :: r)) eqn:E.
  - exists (length (c :: r)). cbn [app]. unfold all_slash in E.
    clear IH. revert E. generalize (c :: r). intros l. induction l as [|x l IH]; [reflexivity|].
    cbn [forallb length repeat]. unfold is_slash at 1. intros H. apply andb_true_iff in H as [Hx Hl].
    apply Z.eqb_eq in Hx. subst. rewrite <- IH by exact Hl. reflexivity.
  - destruct IH as (n & Hn). exists n. cbn [app]. rewrite <- Hn. reflexivity.
Qed.

Lemma components_repeat_only n : Forall stays (components (repeat 47 n)).
Proof.
  induction n as [|n IH]; cbn [repeat components Z.eqb].
  - constructor; [reflexivity|constructor].
  - constructor; [reflexivity|exact IH].
Qed.

Lemma stack_trailing_slashes cwd a n : a <> [] -> stack cwd (a ++ repeat 47 n) = stack cwd a.
Proof.
  intros Ha. destruct n as [|n]; [rewrite app_nil_r; reflexivity|].
  cbn [repeat]. rewrite stack_app_slash by exact Ha.
  apply walk_stays, components_repeat_only.
Qed.

Lemma rstrip_nonnil s : all_slash s = false -> rstrip_slash s <> [].
Proof. destruct s as [|c r]; [discriminate|]. intros H. cbn [rstrip_slash]. rewrite H. discriminate. Qed.

(* dirname and the textual directory part name the same location *)
Lemma stack_dirname cwd p : stack cwd (dirname p) = stack cwd (dir_part p).
Proof.
  unfold dirname. rewrite dir_prefix_dir_part.
  destruct (negb (is_empty (dir_part p)) && negb (all_slash (dir_part p))) eqn:E; [|reflexivity].
  apply andb_true_iff in E as [_ E]. apply negb_true_iff in E.
  destruct (rstrip_slash_spec (dir_part p)) as (n & Hn).
  rewrite Hn at 2. rewrite stack_trailing_slashes; [reflexivity|]. apply rstrip_nonnil. exact E.
Qed.

Lemma locate_dirname cwd p : locate cwd (dirname p) = locate cwd (dir_part p).
Proof. rewrite !locate_stack, stack_dirname. reflexivity. Qed.

Lemma dirname_absolute p : absolute p = true -> absolute (dirname p) = true.
Proof.
  intros H. destruct (absolute_cons p H) as (r & ->).
  unfold dirname. change (dir_prefix (47 :: r)) with (47 :: dir_prefix r).
  cbn [is_empty negb andb].
  destruct (all_slash (47 :: dir_prefix r)) eqn:E; cbn [negb]; [reflexivity|].
  cbn [rstrip_slash]. rewrite E. reflexivity.
Qed.

(* ------------------------------------------------------------------ textual containment *)
(* p = root, or p continues root after a separator (root itself may end with one):
   what the patched check tests; implies component-wise containment for an absolute
   p without ".." components *)
Definition sep_aligned (root p : bytes) : Prop :=
  p = root \/ exists a r, (root = a \/ root = a ++ [47]) /\ a <> [] /\ p = a ++ 47 :: r
  \/ (root = [47] /\ p = 47 :: r).

Lemma sep_aligned_under cwd root p :
  Forall not_parent (components p) -> sep_aligned root p -> under cwd root p.
Proof.
  intros Hnp [->|(a & r & [(Hr & Ha & ->)|(-> & ->)])].
  - exists []. rewrite app_nil_r. reflexivity.
  - rewrite components_app_slash in Hnp. apply Forall_app in Hnp as [_ Hr'].
    unfold under, under_loc. rewrite !locate_stack.
    rewrite stack_app_slash by exact Ha.
    assert (Hs : stack cwd root = stack cwd a).
    { destruct Hr as [->| ->]; [reflexivity|]. apply stack_end_slash. exact Ha. }
    rewrite Hs. destruct (walk_grows (stack cwd a) (components r) Hr') as (ext & ->).
    exists (rev ext). rewrite rev_app_distr. reflexivity.
  - unfold under, under_loc. rewrite !locate_stack.
    rewrite !stack_slash_only. cbn [components walk comp_kind rev app].
    eexists. reflexivity.
Qed.
