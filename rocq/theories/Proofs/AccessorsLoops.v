(* C17, the four accessor operations with loops: get_sprite, set_sprite, get_rect_tiles,
   set_rect_tiles. The code's nested mapM / foldM over range / enumerate (every step shown
   to succeed) against the plain model's map / fold_left over zrange / indexed, for rows of
   any shape, any size and any placement (clipping at the right and bottom edges). *)
From PV Require Import Base.Prelude Base.ListX Base.PySlice Model.HexSection Model.Gfx Model.Gff Model.MapSec
  Model.Accessors Generated.K_gfx Generated.K_map
  Spec.PlainMem Proofs.RowLemmas Proofs.AccessorsBase Proofs.AccessorsSimple.
From Coq Require Import ZifyBool.
Ltac Zify.zify_post_hook ::= Z.to_euclidean_division_equations.

Lemma rows_in_spec lo hi rows : rows_in lo hi rows = true ->
  forall row v, In row rows -> In v row -> lo <= v <= hi.
Proof.
  unfold rows_in. intros H row v Hr Hv. rewrite forallb_forall in H. specialize (H row Hr).
  rewrite forallb_forall in H. specialize (H v Hv). unfold inr in H. lia.
Qed.

(* ================= map rectangles ================= *)
Lemma map_get_rect_gen m g hg x y w h :
  zlen m = 4096 -> zlen g = 8192 -> 0 <= x <= 127 -> 0 <= y <= 63 -> 1 <= w -> 1 <= h ->
  hg = true \/ y + h <= 32 ->
  map_get_rect_tiles m g hg x y w h = Ok (spec_get_rect m g x y w h).
Proof.
  intros Lm Lg Hx Hy Hw Hh Hg. unfold map_get_rect_tiles, spec_get_rect.
  rewrite assert_true by (unfold map_grt_assert_x; lia). cbn [bind].
  rewrite assert_true by (unfold map_grt_assert_w; lia). cbn [bind].
  rewrite assert_true by (unfold map_grt_assert_h; lia). cbn [bind].
  rewrite assert_true by (unfold map_grt_assert_y; lia). cbn [bind].
  rewrite assert_true by (unfold map_grt_assert_g; destruct Hg as [-> | Hg]; [cbn [negb]|destruct hg; cbn [negb]]; lia).
  cbn [bind]. rewrite !range_zrange.
  apply mapM_total. intros ty Hty. apply in_zrange in Hty.
  apply mapM_total. intros tx Htx. apply in_zrange in Htx.
  unfold map_grt_offedge. rewrite !Z.gtb_ltb.
  destruct ((63 <? ty) || (127 <? tx)) eqn:E; [reflexivity|].
  apply map_get_cell_gen; try assumption; try lia. destruct Hg as [Hg | Hg]; [left; exact Hg | right; lia].
Qed.

Lemma map_get_rect_ok m g x y w h :
  zlen m = 4096 -> zlen g = 8192 -> 0 <= x <= 127 -> 0 <= y <= 63 -> 1 <= w -> 1 <= h ->
  map_get_rect_tiles m g true x y w h = Ok (spec_get_rect m g x y w h).
Proof. intros. apply map_get_rect_gen; auto. Qed.

Definition mg_inv (st : list Z * list Z) : Prop :=
  zlen (fst st) = 4096 /\ zlen (snd st) = 8192 /\ Forall byte (fst st) /\ Forall byte (snd st).

Lemma map_set_rect_gen m g hg x y rows :
  zlen m = 4096 -> zlen g = 8192 -> Forall byte m -> Forall byte g ->
  0 <= x -> 0 <= y -> rows_in 0 255 rows = true -> hg = true \/ y + zlen rows <= 32 ->
  map_set_rect_tiles m g hg rows x y = Ok (spec_set_rect (m, g) x y rows) /\
  mg_inv (spec_set_rect (m, g) x y rows).
Proof.
  intros Lm Lg Bm Bg Hx Hy HR Hg. pose proof (rows_in_spec _ _ _ HR) as HV.
  unfold map_set_rect_tiles, spec_set_rect. rewrite enumerate_from_indexed.
  apply (foldM_total _
    (fun mg yr => let '(ty, row) := yr in
       fold_left (fun mg xv => let '(tx, v) := xv in
         if (63 <? ty + y) || (127 <? tx + x) then mg else set_cell mg (tx + x) (ty + y) v) (indexed 0 row) mg)
    mg_inv); [|unfold mg_inv; cbn [fst snd]; auto].
  intros st [ty row] Ist Hin. pose proof (in_indexed_nth _ _ _ _ Hin) as (Hty2 & _).
  apply in_indexed in Hin. destruct Hin as (Hty & Hrow).
  rewrite enumerate_from_indexed.
  apply (foldM_total _
    (fun mg xv => let '(tx, v) := xv in
       if (63 <? ty + y) || (127 <? tx + x) then mg else set_cell mg (tx + x) (ty + y) v) mg_inv); [|exact Ist].
  intros [m1 g1] [tx v] (L1 & L2 & B1 & B2) Hin. apply in_indexed in Hin. destruct Hin as (Htx & Hv).
  pose proof (HV row v Hrow Hv) as Rv. cbn [fst snd] in *.
  unfold map_srt_skip, map_srt_cx, map_srt_cy. rewrite !Z.gtb_ltb.
  destruct ((63 <? ty + y) || (127 <? tx + x)) eqn:E.
  - split; [reflexivity|]. unfold mg_inv. cbn [fst snd]. auto.
  - destruct (map_set_cell_gen m1 g1 hg (tx + x) (ty + y) v) as (E1 & A1 & A2 & A3 & A4); try assumption; try lia.
    { destruct Hg as [Hg | Hg]; [left; exact Hg | right; lia]. }
    split; [exact E1|]. unfold mg_inv. auto.
Qed.

Lemma map_set_rect_ok m g x y rows :
  zlen m = 4096 -> zlen g = 8192 -> Forall byte m -> Forall byte g ->
  0 <= x -> 0 <= y -> rows_in 0 255 rows = true ->
  map_set_rect_tiles m g true rows x y = Ok (spec_set_rect (m, g) x y rows) /\
  mg_inv (spec_set_rect (m, g) x y rows).
Proof. intros. apply map_set_rect_gen; auto. Qed.

(* ================= get_sprite ================= *)
Lemma gs_pixel_ok d ty yo tx xo :
  zlen d = 8192 -> Forall byte d -> 0 <= ty <= 15 -> 0 <= tx <= 15 -> 0 <= yo < 8 -> 0 <= xo < 8 ->
  gs_pixel d ty yo tx xo = Ok (get_px d (tx * 8 + xo) (ty * 8 + yo)).
Proof.
  intros L B Hty Htx Hyo Hxo. unfold gs_pixel, get_px, gs_data_loc, gs_even, gs_lo, gs_hi.
  replace ((ty * 8 + yo) * 64 + (tx * 8 + xo) / 2) with (ty * 64 * 8 + yo * 64 + tx * 4 + xo / 2) by lia.
  replace ((tx * 8 + xo) mod 2) with (xo mod 2) by lia.
  set (i := ty * 64 * 8 + yo * 64 + tx * 4 + xo / 2).
  assert (Hi : 0 <= i < zlen d) by (subst i; lia).
  rewrite py_get_at by exact Hi. cbn [bind].
  destruct (nib_spec _ (at_byte d i B Hi)) as (N1 & N2 & _). rewrite N1, N2. reflexivity.
Qed.

Definition gs_spec_px (d : list Z) (ty yo tx xo : Z) : Z :=
  if (15 <? tx) || (15 <? ty) then 0 else get_px d (tx * 8 + xo) (ty * 8 + yo).

Lemma gs_tile_row_ok d ty yo tx :
  zlen d = 8192 -> Forall byte d -> 0 <= ty -> 0 <= tx -> 0 <= yo < 8 ->
  gs_tile_row d ty yo tx = Ok (map (gs_spec_px d ty yo tx) (upto 8)).
Proof.
  intros L B Hty Htx Hyo. unfold gs_tile_row, gs_offedge. rewrite !Z.gtb_ltb.
  destruct ((15 <? tx) || (15 <? ty)) eqn:E.
  - f_equal. transitivity (map (fun _ : Z => 0) (upto 8)); [reflexivity|].
    apply map_ext. intros xo. unfold gs_spec_px. rewrite E. reflexivity.
  - apply mapM_total. intros xo Hxo. apply in_upto in Hxo. unfold gs_spec_px. rewrite E.
    apply gs_pixel_ok; try assumption; lia.
Qed.

Lemma get_sprite_ok d id w h :
  zlen d = 8192 -> Forall byte d -> 0 <= id <= 255 -> 1 <= w -> 1 <= h ->
  get_sprite d id w h = Ok (spec_get_sprite d id w h).
Proof.
  intros L B Hid Hw Hh. unfold get_sprite, spec_get_sprite.
  rewrite assert_true by (unfold gs_assert_id; lia). cbn [bind].
  rewrite assert_true by (unfold gs_assert_w; lia). cbn [bind].
  rewrite assert_true by (unfold gs_assert_h; lia). cbn [bind].
  unfold gs_first_row, gs_first_col. rewrite !range_zrange.
  rewrite (mapM_total _ (fun ty => map (fun yo =>
     flat_map (fun tx => map (gs_spec_px d ty yo tx) (upto 8)) (zrange (id mod 16) w)) (upto 8))).
  - cbn [bind]. rewrite <- flat_map_concat_map. reflexivity.
  - intros ty Hty. apply in_zrange in Hty.
    apply mapM_total. intros yo Hyo. apply in_upto in Hyo.
    unfold gs_row. rewrite range_zrange.
    rewrite (mapM_total _ (fun tx => map (gs_spec_px d ty yo tx) (upto 8))).
    + cbn [bind]. rewrite <- flat_map_concat_map. reflexivity.
    + intros tx Htx. apply in_zrange in Htx. apply gs_tile_row_ok; try assumption; lia.
Qed.

(* ================= set_sprite ================= *)
Definition gfx_inv (d : list Z) : Prop := zlen d = 8192 /\ Forall byte d.

Definition ss_spec_px (fx fy y : Z) (g : list Z) (xv : Z * Z) : list Z :=
  let '(x, v) := xv in
  if (v =? transparent) || (127 <? fx + x) || (127 <? fy + y) then g else set_px g (fx + x) (fy + y) v.

Lemma ss_pixel_ok fx fy y d x v :
  gfx_inv d -> 0 <= fx -> 0 <= fy -> 0 <= x -> 0 <= y -> 0 <= v <= 16 ->
  ss_pixel fx fy y d (x, v) = Ok (ss_spec_px fx fy y d (x, v)) /\ gfx_inv (ss_spec_px fx fy y d (x, v)).
Proof.
  intros (L & B) Hfx Hfy Hx Hy Hv. unfold ss_pixel, ss_spec_px, ss_skip, transparent. rewrite !Z.gtb_ltb.
  destruct (v =? 16) eqn:E1; destruct (127 <? fx + x) eqn:E2; destruct (127 <? fy + y) eqn:E3;
    cbn [orb]; try (split; [reflexivity | split; assumption]).
  unfold ss_data_loc, ss_even, ss_b_even, ss_b_odd, set_px.
  set (i := (fy + y) * 64 + (fx + x) / 2).
  assert (Hi : 0 <= i < zlen d) by (subst i; lia).
  pose proof (at_byte d i B Hi) as Hb.
  destruct (nib_spec _ Hb) as (N1 & _ & N3 & _).
  rewrite py_get_at by exact Hi. cbn [bind]. rewrite N1, N3.
  rewrite Z.shiftl_mul_pow2 by lia. change (2 ^ 4) with 16.
  replace (at_ d i mod 16 + v * 16) with (v * 16 + at_ d i mod 16) by lia.
  assert (Bv : byte (if (fx + x) mod 2 =? 0 then at_ d i / 16 * 16 + v else v * 16 + at_ d i mod 16)).
  { unfold byte in *. destruct ((fx + x) mod 2 =? 0); lia. }
  rewrite py_set_byte_put by assumption.
  split; [reflexivity|]. split; [rewrite zlen_put; exact L | apply Forall_put; assumption].
Qed.

Lemma set_sprite_ok d id xo yo rows :
  zlen d = 8192 -> Forall byte d -> 0 <= id <= 255 -> 0 <= xo -> 0 <= yo -> rows_in 0 16 rows = true ->
  set_sprite d id rows xo yo = Ok (spec_set_sprite d id xo yo rows) /\ gfx_inv (spec_set_sprite d id xo yo rows).
Proof.
  intros L B Hid Hxo Hyo HR. pose proof (rows_in_spec _ _ _ HR) as HV.
  unfold set_sprite, spec_set_sprite, ss_first_x, ss_first_y, ss_first_col, ss_first_row.
  set (fx := id mod 16 * 8 + xo). set (fy := id / 16 * 8 + yo).
  assert (Hfx : 0 <= fx) by (subst fx; lia). assert (Hfy : 0 <= fy) by (subst fy; lia).
  rewrite enumerate_from_indexed.
  apply (foldM_total _
    (fun g yr => let '(y, row) := yr in fold_left (ss_spec_px fx fy y) (indexed 0 row) g) gfx_inv);
    [|split; assumption].
  intros g [y row] Ig Hin. apply in_indexed in Hin. destruct Hin as (Hy & Hrow).
  rewrite enumerate_from_indexed.
  apply (foldM_total _ (ss_spec_px fx fy y) gfx_inv); [|exact Ig].
  intros g1 [x v] Ig1 Hin. apply in_indexed in Hin. destruct Hin as (Hx & Hv).
  apply ss_pixel_ok; try assumption. apply (HV row v Hrow Hv).
Qed.

(* ================= the four operations as steps ================= *)
Lemma getsprite_ok s id w h : wf_mem s -> in_contract (GetSprite id w h) = true -> op_ok s (GetSprite id w h).
Proof.
  intros W C. wf_destruct W. unfold in_contract, inr in C. split; [|exact W].
  unfold step_model, spec_step. cbv beta iota zeta.
  rewrite get_sprite_ok by (assumption || lia). reflexivity.
Qed.

Lemma setsprite_ok s id xo yo rows :
  wf_mem s -> in_contract (SetSprite id xo yo rows) = true -> op_ok s (SetSprite id xo yo rows).
Proof.
  intros W C. wf_destruct W. unfold in_contract in C.
  apply andb_true_iff in C. destruct C as [C HR]. unfold inr in C.
  destruct (set_sprite_ok (m_gfx s) id xo yo rows) as (E & L' & B'); try assumption; try lia.
  split.
  - unfold step_model, spec_step. cbv beta iota zeta. rewrite E. reflexivity.
  - unfold spec_step. cbn [fst]. apply wf_mem_mk; assumption.
Qed.

Lemma mapgetrect_ok s x y w h : wf_mem s -> in_contract (MapGetRect x y w h) = true -> op_ok s (MapGetRect x y w h).
Proof.
  intros W C. wf_destruct W. unfold in_contract, inr in C. split; [|exact W].
  unfold step_model, spec_step. cbv beta iota zeta.
  rewrite map_get_rect_ok by (assumption || lia). reflexivity.
Qed.

Lemma mapsetrect_ok s x y rows : wf_mem s -> in_contract (MapSetRect x y rows) = true -> op_ok s (MapSetRect x y rows).
Proof.
  intros W C. wf_destruct W. unfold in_contract in C.
  apply andb_true_iff in C. destruct C as [C HR].
  destruct (map_set_rect_ok (m_map s) (m_gfx s) x y rows) as (E & L1 & L2 & B1 & B2); try assumption; try lia.
  unfold op_ok, step_model, spec_step. cbv beta iota zeta. rewrite E.
  destruct (spec_set_rect (m_map s, m_gfx s) x y rows) as [m' g']. cbn [bind fst snd] in *.
  split; [reflexivity|]. apply wf_mem_mk; assumption.
Qed.
