(* The concrete instance (Model/ReqEmbedInst.v): pins of the regenerated shapes the hand-written
   parts rely on, and the universe of require strings of a finite file map (fuel bound). *)
From PV Require Import Base.Prelude Base.Utf8 Generated.T_lexer Generated.T_files_build Generated.T_require
  Model.Lexer Model.Tokens Model.Parser Model.ParserInst Model.Paths Model.Require Model.FilesInst
  Model.ReqEmbed Model.ReqEmbedInst Proofs.ReqEmbedProofs.
Close Scope pm_scope.

(* ---- pins: a change of any of these shapes in build.py breaks this file (and the cone of C14) ---- *)
Lemma pin_walker_names :
  walker_tokname_literals = [unBS "require"%bs; unBS "use_game_loop"%bs].
Proof. reflexivity. Qed.

(* len(arg_exps) < 1 or len(arg_exps) > 2;  len(arg_exps) == 2;  len(fields) != 1 *)
Lemma pin_walker_len_tests : walker_len_tests = [(0, 1); (1, 2); (2, 2); (3, 1)].
Proof. reflexivity. Qed.

Lemma pin_strip_shapes :
  strip_skipped_classes = [unBS "TokSpace"%bs; unBS "TokNewline"%bs; unBS "TokComment"%bs] /\
  strip_replacement_class = unBS "TokSpace"%bs /\
  strip_statement_classes = [unBS "StatFunction"%bs].
Proof. repeat split; reflexivity. Qed.

(* the escape chain replaces single bytes; the guard tests for a newline; two literals are appended *)
Lemma pin_prepend_shapes :
  forallb (fun pr => zlen (fst pr) =? 1) pkg_escape_pairs = true /\
  pkg_newline_guard = [[10]] /\ length pkg_appended_literals = 2%nat /\ nl_line_now = [10].
Proof. repeat split; reflexivity. Qed.

(* ---- the universe of a finite file map ---- *)
Lemma lookup_file_In fs p c : lookup_file fs p = Some c -> exists k, In (k, c) fs.
Proof.
  induction fs as [|[k v] r IH]; [discriminate|]. cbn.
  destruct (zlist_eqb k p).
  - intros [= ->]. exists k. left. reflexivity.
  - intros H. destruct (IH H) as (k' & Hk). exists k'. right. exact Hk.
Qed.

Section Now.
Variable cwd : bytes.
Variable fs : list (bytes * bytes).
Variable lua_path : bytes.

Lemma names_of_content_unstripped c q :
  from_lines (file_lines c) = Ok q -> incl (map fst (fst (walk_lua q))) (names_of_content c).
Proof. intros H x Hx. unfold names_of_content. rewrite H. apply in_or_app. left. exact Hx. Qed.

Lemma names_of_content_stripped c q q' :
  from_lines (file_lines c) = Ok q -> strip_lua q = Ok q' ->
  incl (map fst (fst (walk_lua q'))) (names_of_content c).
Proof. intros H H' x Hx. unfold names_of_content. rewrite H, H'. apply in_or_app. right. exact Hx. Qed.

Lemma universe_load mc rpath n gl qpath q :
  load lua from_lines strip_lua file_lines (find_in cwd fs lua_path) rpath n gl = Ok (qpath, q) ->
  incl (req_names lua walk_lua q) (universe fs mc).
Proof.
  unfold load, find_in.
  destruct (locate_require_file _ _ _ _ _ _) as [c|]; [|discriminate].
  destruct (lookup_file fs (abspath cwd c)) as [content|] eqn:Hl; [|discriminate].
  destruct (from_lines (file_lines content)) as [q0|e] eqn:Hq; [|discriminate]. cbn [bind].
  destruct (lookup_file_In _ _ _ Hl) as (k & Hk).
  assert (Hsub : incl (names_of_content content) (universe fs mc)).
  { intros x Hx. unfold universe. apply in_or_app. right. apply in_flat_map. exists (k, content). auto. }
  destruct gl.
  - cbn [bind]. intros [= <- <-]. intros x Hx. apply Hsub. eapply names_of_content_unstripped; eauto.
  - destruct (strip_lua q0) as [q1|e] eqn:Hs; [|discriminate]. cbn [bind]. intros [= <- <-].
    intros x Hx. apply Hsub. eapply names_of_content_stripped; eauto.
Qed.

Lemma universe_main mc m :
  from_lines (file_lines mc) = Ok m -> incl (req_names lua walk_lua m) (universe fs mc).
Proof.
  intros H x Hx. unfold universe. apply in_or_app. left. eapply names_of_content_unstripped; eauto.
Qed.

(* fuel_now is enough: no larger fuel changes the result of the build *)
Lemma build_fuel_now mp mc fuel' :
  (fuel_now fs mc <= fuel')%nat ->
  build_lua_now cwd fs lua_path fuel' mp mc = build_lua_now cwd fs lua_path (fuel_now fs mc) mp mc.
Proof.
  intros Hle. unfold build_lua_now.
  apply (build_fuel lua from_lines echo_lines strip_lua walk_lua file_lines check_name_now (find_in cwd fs lua_path)
                    require_lua_preamble_package require_lua_preamble_require header_line_now end_line_now nl_line_now
                    (universe fs mc)).
  - intros. eapply universe_load; eauto.
  - intros m Hm. apply universe_main, Hm.
  - unfold fuel_now. lia.
  - exact Hle.
Qed.
End Now.

(* ---- iterating a binary file loses nothing ---- *)
Lemma file_lines_from_concat s : forall cur, concat (file_lines_from s cur) = rev cur ++ s.
Proof.
  induction s as [|c r IH]; intros cur.
  - cbn. destruct cur as [|x cur]; [reflexivity|]. cbn [concat]. unfold rev'. rewrite <- rev_alt, !app_nil_r.
    reflexivity.
  - cbn [file_lines_from]. destruct (c =? 10).
    + cbn [concat]. rewrite IH. unfold rev'. rewrite <- rev_alt. cbn [rev app]. rewrite <- app_assoc. reflexivity.
    + rewrite IH. cbn [rev]. rewrite <- app_assoc. reflexivity.
Qed.

Lemma file_lines_concat c : concat (file_lines c) = c.
Proof. unfold file_lines. rewrite file_lines_from_concat. reflexivity. Qed.

(* ---- the regenerated constants end in a newline where the token-level theorem needs it ---- *)
Lemma header_line_now_nl n : ends_with_nl (header_line_now n) = true.
Proof.
  unfold header_line_now. rewrite app_assoc, ends_with_nl_app; [reflexivity | discriminate].
Qed.

Lemma constants_nl :
  nl_line_now = [10] /\ ends_with_nl end_line_now = true /\
  Forall (fun l => ends_with_nl l = true) require_lua_preamble_package /\
  Forall (fun l => ends_with_nl l = true) require_lua_preamble_require.
Proof. repeat split; repeat constructor. Qed.

(* the token-level statement for the concrete stack: what remains to be assumed is about the lexer
   stack only (chunking of the reference tokenizer, faithful echo of the lexer model) *)
Lemma build_code_tokens_now (T : Type) (sigt : bytes -> option (list T)) :
  (forall a b ta tb, ends_with_nl a = true -> sigt a = Some ta -> sigt b = Some tb ->
                     sigt (a ++ b) = Some (ta ++ tb)) ->
  (forall a ta, sigt a = Some ta -> sigt (a ++ [10]) = Some ta) ->
  sigt [] = Some [] ->
  (forall ls q, from_lines ls = Ok q -> concat (echo_lines q) = concat ls) ->
  forall cwd fs lua_path fuel main_path main_content out,
  build_code_now cwd fs lua_path fuel main_path main_content = Ok out ->
  exists r pk, build_lua_now cwd fs lua_path fuel main_path main_content = Ok (r, pk) /\
    let toks := toks T sigt in
    let lexes := lexes T sigt in
    (Forall lexes require_lua_preamble_package -> Forall lexes require_lua_preamble_require ->
     lexes end_line_now ->
     Forall (fun e => lexes (header_line_now (fst e)) /\ lexes (concat (echo_lines (snd e)))) pk ->
     lexes main_content ->
     sigt out = Some match pk with
                     | [] => toks main_content
                     | _ => concat (map toks require_lua_preamble_package)
                            ++ concat (map (fun e => toks (header_line_now (fst e))
                                                     ++ toks (concat (echo_lines (snd e))) ++ toks end_line_now) pk)
                            ++ concat (map toks require_lua_preamble_require) ++ toks main_content
                     end).
Proof.
  intros H1 H2 H3 H4 cwd fs lua_path. destruct constants_nl as (Hnl & Hend & Hpp & Hpr).
  exact (build_code_tokens lua from_lines echo_lines strip_lua walk_lua file_lines check_name_now
           (find_in cwd fs lua_path) require_lua_preamble_package require_lua_preamble_require
           header_line_now end_line_now nl_line_now T sigt H1 H2 H3 H4 file_lines_concat Hnl
           header_line_now_nl Hend Hpp Hpr).
Qed.
