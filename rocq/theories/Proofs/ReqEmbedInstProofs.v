(* The concrete instance (Model/ReqEmbedInst.v): pins of the regenerated shapes the hand-written
   parts rely on, and the universe of require strings of a finite file map (fuel bound). *)
From PV Require Import Base.Prelude Base.Utf8 Generated.T_lexer Generated.T_files_build Generated.T_require
  Model.Lexer Model.Tokens Model.Parser Model.ParserInst Model.Paths Model.Require Model.FilesInst
  Model.ReqEmbed Model.ReqEmbedInst Proofs.ReqEmbedProofs.
Close Scope pm_scope.

(* ---- pins: a change of any of these shapes in build.py breaks this file (and the cone of C14) ---- *)
Lemma pin_walker_names :
  walker_tokname_literals = [unBS "require"%bs; unBS "use_game_loop"%bs].
Proof. reflexivity. Qed.

(* len(arg_exps) < 1 or len(arg_exps) > 2;  len(arg_exps) == 2;  len(fields) != 1 *)
Lemma pin_walker_len_tests : walker_len_tests = [(0, 1); (1, 2); (2, 2); (3, 1)].
Proof. reflexivity. Qed.

Lemma pin_strip_shapes :
  strip_skipped_classes = [unBS "TokSpace"%bs; unBS "TokNewline"%bs; unBS "TokComment"%bs] /\
  strip_replacement_class = unBS "TokSpace"%bs /\
  strip_statement_classes = [unBS "StatFunction"%bs].
Proof. repeat split; reflexivity. Qed.

(* the escape chain replaces single bytes; the guard tests for a newline; two literals are appended *)
Lemma pin_prepend_shapes :
  forallb (fun pr => zlen (fst pr) =? 1) pkg_escape_pairs = true /\
  pkg_newline_guard = [[10]] /\ length pkg_appended_literals = 2%nat /\ nl_line_now = [10].
Proof. repeat split; reflexivity. Qed.

(* ---- the universe of a finite file map ---- *)
Lemma lookup_file_In fs p c : lookup_file fs p = Some c -> exists k, In (k, c) fs.
Proof.
  induction fs as [|[k v] r IH]; [discriminate|]. cbn.
  destruct (zlist_eqb k p).
  - intros [= ->]. exists k. left. reflexivity.
  - intros H. destruct (IH H) as (k' & Hk). exists k'. right. exact Hk.
Qed.

Section Now.
Variable cwd : bytes.
Variable fs : list (bytes * bytes).
Variable lua_path : bytes.

Lemma names_of_content_unstripped c q :
  from_lines (file_lines c) = Ok q -> incl (map fst (fst (walk_lua q))) (names_of_content c).
Proof. intros H x Hx. unfold names_of_content. rewrite H. apply in_or_app. left. exact Hx. Qed.

Lemma names_of_content_stripped c q q' :
  from_lines (file_lines c) = Ok q -> strip_lua q = Ok q' ->
  incl (map fst (fst (walk_lua q'))) (names_of_content c).
Proof. intros H H' x Hx. unfold names_of_content. rewrite H, H'. apply in_or_app. right. exact Hx. Qed.

Lemma universe_load mc rpath n gl qpath q :
  load lua from_lines strip_lua file_lines (find_in cwd fs lua_path) rpath n gl = Ok (qpath, q) ->
  incl (req_names lua walk_lua q) (universe fs mc).
Proof.
  unfold load, find_in.
  destruct (locate_require_file _ _ _ _ _ _) as [c|]; [|discriminate].
  destruct (lookup_file fs (abspath cwd c)) as [content|] eqn:Hl; [|discriminate].
  destruct (from_lines (file_lines content)) as [q0|e] eqn:Hq; [|discriminate]. cbn [bind].
  destruct (lookup_file_In _ _ _ Hl) as (k & Hk).
  assert (Hsub : incl (names_of_content content) (universe fs mc)).
  { intros x Hx. unfold universe. apply in_or_app. right. apply in_flat_map. exists (k, content). auto. }
  destruct gl.
  - cbn [bind]. intros [= <- <-]. intros x Hx. apply Hsub. eapply names_of_content_unstripped; eauto.
  - destruct (strip_lua q0) as [q1|e] eqn:Hs; [|discriminate]. cbn [bind]. intros [= <- <-].
    intros x Hx. apply Hsub. eapply names_of_content_stripped; eauto.
Qed.

Lemma universe_main mc m :
  from_lines (file_lines mc) = Ok m -> incl (req_names lua walk_lua m) (universe fs mc).
Proof.
  intros H x Hx. unfold universe. apply in_or_app. left. eapply names_of_content_unstripped; eauto.
Qed.

(* fuel_now is enough: no larger fuel changes the result of the build *)
Lemma build_fuel_now mp mc fuel' :
  (fuel_now fs mc <= fuel')%nat ->
  build_lua_now cwd fs lua_path fuel' mp mc = build_lua_now cwd fs lua_path (fuel_now fs mc) mp mc.
Proof.
  intros Hle. unfold build_lua_now.
  apply (build_fuel lua from_lines echo_lines strip_lua walk_lua file_lines check_name_now (find_in cwd fs lua_path)
                    require_lua_preamble_package require_lua_preamble_require header_line_now end_line_now nl_line_now
                    (universe fs mc)).
  - intros. eapply universe_load; eauto.
  - intros m Hm. apply universe_main, Hm.
  - unfold fuel_now. lia.
  - exact Hle.
Qed.
End Now.

(* ---- iterating a binary file loses nothing ---- *)
Lemma file_lines_from_concat s : forall cur, concat (file_lines_from s cur) = rev cur ++ s.
Proof.
  induction s as [|c r IH]; intros cur.
  - cbn. destruct cur as [|x cur]; [reflexivity|]. cbn [concat]. unfold rev'. rewrite <- rev_alt, !app_nil_r.
    reflexivity.
  - cbn [file_lines_from]. destruct (c =? 10).
    + cbn [concat]. rewrite IH. unfold rev'. rewrite <- rev_alt. cbn [rev app]. rewrite <- app_assoc. reflexivity.
    + rewrite IH. cbn [rev]. rewrite <- app_assoc. reflexivity.
Qed.

Lemma file_lines_concat c : concat (file_lines c) = c.
Proof. unfold file_lines. rewrite file_lines_from_concat. reflexivity. Qed.

(* ---- the regenerated constants end in a newline where the token-level theorem needs it ---- *)
Lemma header_line_now_nl n : ends_with_nl (header_line_now n) = true.
Proof.
  unfold header_line_now. rewrite app_assoc, ends_with_nl_app; [reflexivity | discriminate].
Qed.

Lemma constants_nl :
  nl_line_now = [10] /\ ends_with_nl end_line_now = true /\
  Forall (fun l => ends_with_nl l = true) require_lua_preamble_package /\
  Forall (fun l => ends_with_nl l = true) require_lua_preamble_require.
Proof. repeat split; repeat constructor. Qed.

(* the token-level statement for the concrete stack: what remains to be assumed is about the lexer
   stack only (chunking of the reference tokenizer, token-faithful echo of the lexer model) *)
Lemma build_code_tokens_now (T : Type) (sigt : bytes -> option (list T)) (good : list bytes -> Prop) :
  (forall a b ta tb, ends_with_nl a = true -> sigt a = Some ta -> sigt b = Some tb ->
                     sigt (a ++ b) = Some (ta ++ tb)) ->
  (forall a ta, sigt a = Some ta -> sigt (a ++ [10]) = Some ta) ->
  sigt [] = Some [] ->
  (forall ls q t, good ls -> from_lines ls = Ok q -> sigt (concat ls) = Some t ->
                  sigt (concat (echo_lines q)) = Some t) ->
  forall cwd fs lua_path fuel main_path main_content out,
  build_code_now cwd fs lua_path fuel main_path main_content = Ok out ->
  exists r pk, build_lua_now cwd fs lua_path fuel main_path main_content = Ok (r, pk) /\
    let toks := toks T sigt in
    let lexes := lexes T sigt in
    (Forall lexes require_lua_preamble_package -> Forall lexes require_lua_preamble_require ->
     lexes end_line_now ->
     Forall (fun e => lexes (header_line_now (fst e)) /\ lexes (concat (echo_lines (snd e)))) pk ->
     lexes main_content ->
     good (file_lines main_content) ->
     (forall m, from_lines (file_lines main_content) = Ok m ->
                good (prepend_lines lua echo_lines require_lua_preamble_package require_lua_preamble_require
                                    header_line_now end_line_now nl_line_now m pk)) ->
     sigt out = Some match pk with
                     | [] => toks main_content
                     | _ => concat (map toks require_lua_preamble_package)
                            ++ concat (map (fun e => toks (header_line_now (fst e))
                                                     ++ toks (concat (echo_lines (snd e))) ++ toks end_line_now) pk)
                            ++ concat (map toks require_lua_preamble_require) ++ toks main_content
                     end).
Proof.
  intros H1 H2 H3 H4 cwd fs lua_path. destruct constants_nl as (Hnl & Hend & Hpp & Hpr).
  exact (build_code_tokens lua from_lines echo_lines strip_lua walk_lua file_lines check_name_now
           (find_in cwd fs lua_path) require_lua_preamble_package require_lua_preamble_require
           header_line_now end_line_now nl_line_now T sigt H1 H2 H3 good H4 file_lines_concat Hnl
           header_line_now_nl Hend Hpp Hpr).
Qed.

(* ---- taking the game loop functions out only removes tokens: the significant tokens that remain
   are a subsequence of the file's ---- *)
Inductive subseq {A} : list A -> list A -> Prop :=
| sub_nil : subseq [] []
| sub_skip x l m : subseq l m -> subseq l (x :: m)
| sub_keep x l m : subseq l m -> subseq (x :: l) (x :: m).

Lemma subseq_refl {A} (l : list A) : subseq l l.
Proof. induction l; constructor; assumption. Qed.

Lemma subseq_nil_l {A} (l : list A) : subseq [] l.
Proof. induction l; constructor; assumption. Qed.

Lemma subseq_trans {A} (a b c : list A) : subseq a b -> subseq b c -> subseq a c.
Proof.
  intros Hab Hbc. revert a Hab. induction Hbc as [|x l m _ IH|x l m _ IH]; intros a Hab.
  - exact Hab.
  - constructor. apply IH, Hab.
  - inversion Hab; subst; [constructor; apply IH; assumption | constructor; apply IH; assumption].
Qed.

Lemma subseq_app {A} (a a' b b' : list A) : subseq a a' -> subseq b b' -> subseq (a ++ b) (a' ++ b').
Proof. intros Ha Hb. induction Ha; cbn; [exact Hb | constructor; assumption | constructor; assumption]. Qed.

Lemma subseq_skipn {A} n (l : list A) : subseq (skipn n l) l.
Proof.
  revert l. induction n as [|n IH]; intros l; [apply subseq_refl|].
  destruct l as [|x l]; [constructor|]. cbn [skipn]. constructor. apply IH.
Qed.

Lemma subseq_filter {A} (f : A -> bool) (a b : list A) : subseq a b -> subseq (filter f a) (filter f b).
Proof.
  intros H. induction H as [|x l m _ IH|x l m _ IH]; cbn [filter].
  - constructor.
  - destruct (f x); [constructor|]; exact IH.
  - destruct (f x); [constructor|]; exact IH.
Qed.

Lemma skipn_plus {A} a : forall k (l : list A), skipn (a + k) l = skipn k (skipn a l).
Proof.
  induction a as [|a IH]; intros k l; [reflexivity|].
  destruct l as [|x l]; [cbn; destruct k; reflexivity|]. cbn [Nat.add skipn]. apply IH.
Qed.

Definition sig_toks_of (ts : list tok) : list tok := filter (fun t => negb (is_trivia_tok t)) ts.

Lemma splice_removes ts a b : subseq (sig_toks_of (splice ts a b)) (sig_toks_of ts).
Proof.
  unfold splice, sig_toks_of. rewrite filter_app. cbn [filter].
  change (negb (is_trivia_tok space_tok)) with false. cbv iota.
  rewrite <- filter_app. apply subseq_filter.
  rewrite <- (firstn_skipn (Z.to_nat a) ts) at 3.
  apply subseq_app; [apply subseq_refl|].
  replace (Z.to_nat (Z.max a b)) with (Z.to_nat a + (Z.to_nat (Z.max a b) - Z.to_nat a))%nat by lia.
  rewrite skipn_plus. apply subseq_skipn.
Qed.

Lemma strip_stats_removes stats : forall ts ts',
  strip_stats stats ts = Ok ts' -> subseq (sig_toks_of ts') (sig_toks_of ts).
Proof.
  induction stats as [|s r IH]; intros ts ts' H.
  - cbn in H. injection H as <-. apply subseq_refl.
  - cbn [strip_stats] in H. destruct (is_game_loop_stat s); [|apply IH, H].
    destruct (start_of s) as [a|]; [|discriminate]. destruct (end_of s) as [b|]; [|discriminate].
    destruct (skip_trivia (skipn (Z.to_nat a) ts) a) as [a'|e]; [|discriminate]. cbn [bind] in H.
    eapply subseq_trans; [apply IH, H | apply splice_removes].
Qed.
