(* C20 composed with the .p8 reader of C03: what `#include NAME.p8[:n]` splices is a function of the BYTES of
   the included file.  The cart reader P8Formatter.from_file(do_includes=False) is Model/P8File.read_p8 (the model
   the C03 theorems are about; it never expands includes), with the Lua object instantiated by the lexer model and
   the echo writer (Proofs/P8FileLua.lex_read): its to_lines() are  echo (c_lua c).  Hence
     - the chunks the include sees are  p8_chunks file  (a function of the file's bytes),
     - they are the echo of the lexed lines of the file's __lua__ section ([p8_code_lines], the section
       splitter alone: no lexer involved), which the echo theorem of C06 relates to those lines byte for byte,
     - C20_expand / C20_in_place hold with the reader's result replaced by that function. *)
From PV Require Import Base.Prelude Model.Gfx Model.P8File Generated.K_p8file Generated.T_lexer Model.Lexer Model.EchoWriter
  Instances.HoldsC06 Proofs.LexerChunk Proofs.EchoProofs Proofs.P8FileLua.
From PV Require Import Model.Paths Model.Include Model.FilesInst Spec.SpliceSpec Proofs.SpliceProofs Proofs.SpliceRefine
  Generated.T_files_p8.

(* ---------- which lines the reader hands to Lua.from_lines ---------- *)
Definition is_lua_section (name : list Z) : bool :=
  match lookup_sec p8_read_sections name with Some k => k =? 5 | None => false end.

(* the lines of the last section that dispatches to the Lua reader (the section dict has one entry per name) *)
Fixpoint last_lua (secs : list (list Z * list (list Z))) : option (list (list Z)) :=
  match secs with
  | [] => None
  | (name, lines) :: r =>
    match last_lua r with
    | Some l => Some l
    | None => if is_lua_section name then Some lines else None
    end
  end.

(* the code lines of a .p8 file: header check and section splitter only *)
Definition p8_code_lines (file : list Z) : result (list (list Z)) :=
  raw <- get_raw_data file ;;
  Ok (match last_lua (raw_sections raw) with Some l => l | None => [] end).

Section Reader.
Variable lua : Type.
Variable lua_from_lines : list (list Z) -> result lua.
Variable lua_empty : lua.

Lemma apply_section_lua c name lines c1 :
  apply_section lua lua_from_lines c (name, lines) = Ok c1 ->
  if is_lua_section name then lua_from_lines lines = Ok (c_lua c1) else c_lua c1 = c_lua c.
Proof.
  unfold apply_section, is_lua_section. destruct (lookup_sec p8_read_sections name) as [k|]; [|discriminate].
  destruct (k =? 5) eqn:E5.
  - destruct (lua_from_lines lines) as [l|e]; [|discriminate]. cbn. intros [= <-]. reflexivity.
  - repeat match goal with
           | |- (if ?b then _ else _) = _ -> _ => destruct b
           end;
    try discriminate;
    match goal with
    | |- (bind ?x _) = _ -> _ => destruct x; [|discriminate]
    | _ => idtac
    end; cbn; intros [= <-]; reflexivity.
Qed.

Lemma fold_sections_lua : forall secs c0 c,
  foldM (apply_section lua lua_from_lines) secs c0 = Ok c ->
  match last_lua secs with
  | Some ls => lua_from_lines ls = Ok (c_lua c)
  | None => c_lua c = c_lua c0
  end.
Proof.
  induction secs as [|[name lines] r IH]; intros c0 c H.
  - cbn in H. injection H as <-. reflexivity.
  - cbn [foldM] in H. destruct (apply_section lua lua_from_lines c0 (name, lines)) as [c1|e] eqn:E1; [|discriminate].
    cbn in H. specialize (IH c1 c H). cbn [last_lua].
    destruct (last_lua r) as [ls|]; [exact IH|].
    pose proof (apply_section_lua c0 name lines c1 E1) as A.
    destruct (is_lua_section name); [rewrite IH; exact A|rewrite IH; exact A].
Qed.

(* the loop that fills short data sections up does not touch the Lua object (whatever its table) *)
Lemma pad_section_lua c kd c1 : pad_section lua c kd = Ok c1 -> c_lua c1 = c_lua c.
Proof.
  destruct kd as [k dflt]. unfold pad_section.
  repeat match goal with
         | |- (if ?b then _ else _) = _ -> _ => destruct b
         end; try discriminate; intros [= <-]; reflexivity.
Qed.

Lemma fold_pad_lua : forall tbl c c', foldM (pad_section lua) tbl c = Ok c' -> c_lua c' = c_lua c.
Proof.
  induction tbl as [|kd r IH]; intros c c' H.
  - cbn in H. injection H as <-. reflexivity.
  - cbn [foldM] in H. destruct (pad_section lua c kd) as [c1|e] eqn:E1; [|discriminate].
    cbn in H. rewrite (IH c1 c' H). apply (pad_section_lua c kd c1 E1).
Qed.

(* the Lua object of the cart read from [file] is Lua.from_lines of the file's code lines (the empty Lua object
   when the file has no __lua__ section) *)
Lemma read_p8_code file c :
  read_p8 lua lua_from_lines lua_empty file = Ok c ->
  exists raw, get_raw_data file = Ok raw /\
    match last_lua (raw_sections raw) with
    | Some ls => lua_from_lines ls = Ok (c_lua c)
    | None => c_lua c = lua_empty
    end.
Proof.
  unfold read_p8. destruct (get_raw_data file) as [raw|e]; [|discriminate]. cbn [bind].
  destruct (foldM (apply_section lua lua_from_lines) (raw_sections raw) (empty_cart lua lua_empty (raw_version raw)))
    as [c0|e] eqn:H; [|discriminate].
  intros P. apply fold_pad_lua in P.
  exists raw. split; [reflexivity|]. apply fold_sections_lua in H. rewrite P.
  destruct (last_lua (raw_sections raw)); exact H.
Qed.
End Reader.

(* ---------- the chunks an include of a .p8 file sees, from the file's bytes ---------- *)
Definition p8_chunks (file : list Z) : option (list (list Z)) :=
  match lex_read file with Ok c => Some (echo (c_lua c)) | Err _ => None end.

Lemma model_lex_nil : model_lex [] = Ok [].
Proof. vm_compute. reflexivity. Qed.

(* they are the echo of the lexed code lines of the file *)
Theorem p8_chunks_code file chunks :
  p8_chunks file = Some chunks ->
  exists ls, p8_code_lines file = Ok ls /\ echo_source ls = Ok chunks.
Proof.
  unfold p8_chunks, lex_read. destruct (read_p8 (list tok) model_lex [] file) as [c|e] eqn:E; [|discriminate].
  intros [= <-]. destruct (read_p8_code (list tok) model_lex [] file c E) as (raw & Hr & Hl).
  unfold p8_code_lines. rewrite Hr. cbn. unfold echo_source.
  destruct (last_lua (raw_sections raw)) as [ls|].
  - exists ls. rewrite Hl. split; reflexivity.
  - exists []. rewrite model_lex_nil, Hl. split; reflexivity.
Qed.

(* ... so, by the echo theorem (C06_echo_chunks), the code text repeats the bytes of the code lines - byte for byte
   outside quoted strings, same denotation inside - whenever those lines are split after line feeds *)
Theorem p8_chunks_echo file chunks :
  p8_chunks file = Some chunks ->
  exists ls, p8_code_lines file = Ok ls /\
    (Forall ends_lf (removelast ls) -> Forall byte (concat ls) -> holds_C06 (concat ls) (concat chunks) = true).
Proof.
  intros H. destruct (p8_chunks_code file chunks H) as (ls & Hl & He). exists ls. split; [exact Hl|].
  intros H1 H2. pose proof (model_holds_C06_chunks ls H1 H2) as M. rewrite He in M. exact M.
Qed.

(* ---------- C20_expand for a .p8 target read from bytes ---------- *)
Theorem expand_p8_bytes cwd home fs f l path tab nm p file :
  match_include_line l = Some (path, ext_p8, tab) ->
  decode_name_now path = Ok nm ->
  resolve_include_now cwd home (fs_isfile fs) f (nm ++ ext_p8) = Ok p ->
  fs_cart fs p = p8_chunks file ->
  expand_now cwd home fs (Some f) l =
  match p8_chunks file with
  | Some chunks => Ok (map (yielded 1) (lines_for_tab (Include.file_lines (concat chunks)) tab))
  | None => Err OtherError
  end.
Proof.
  intros Hm Hd Hr Hc. pose proof (expand_now_cases cwd home fs (Some f) l) as E.
  rewrite Hm, Hd, Hr in E. unfold fs_target in E.
  change (is_cart_ext ext_p8) with true in E. cbv iota in E. rewrite Hc in E.
  destruct (p8_chunks file) as [chunks|]; [|exact E].
  change (include_cart_lines_kind =? 0) with false in E. cbv iota in E. exact E.
Qed.

(* ---------- C20_in_place with the content of .p8 files given as bytes ---------- *)
(* [files name]: the bytes of the .lua / .p8 file the cart can name as [name]; [png name]: the code of a .p8.png
   cart (its reader is the subject of C04/C05).  The code of a .p8 file is computed from its bytes. *)
Definition content_of_bytes (files png : bytes -> option bytes) (name : bytes) (k : Z) : option bytes :=
  if k =? 2 then png name
  else if k =? 1 then
    match files name with
    | Some b => match p8_chunks b with Some chunks => Some (concat chunks) | None => None end
    | None => None
    end
  else files name.

(* the view describes those files: text files are read as their bytes; the reader applied to a named .p8 file
   is the model reader applied to its bytes (and succeeds) *)
Definition fs_agrees_bytes (cwd home : bytes) (fs : fsview) (f : bytes) (files png : bytes -> option bytes) : Prop :=
  forall base k, name_kind (base ++ ext_of k) = Some k -> name_local (base ++ ext_of k) = true ->
  match (if k =? 2 then png (base ++ ext_of k) else files (base ++ ext_of k)) with
  | None => (exists e, decode_name_now base = Err e) \/
            (exists nm e, decode_name_now base = Ok nm /\ resolve_include_now cwd home (fs_isfile fs) f (nm ++ ext_of k) = Err e)
  | Some x => exists nm p, decode_name_now base = Ok nm /\
      resolve_include_now cwd home (fs_isfile fs) f (nm ++ ext_of k) = Ok p /\
      (k = 0 -> fs_read fs p = Some x) /\
      (k = 1 -> fs_cart fs p = p8_chunks x /\ p8_chunks x <> None) /\
      (k = 2 -> exists chunks, fs_cart fs p = Some chunks /\ concat chunks = x)
  end.

Lemma fs_agrees_of_bytes cwd home fs f files png :
  fs_agrees_bytes cwd home fs f files png -> fs_agrees cwd home fs f (content_of_bytes files png).
Proof.
  intros H base k Hk Hl. specialize (H base k Hk Hl). unfold content_of_bytes.
  destruct (name_kind_some _ k Hk) as (_ & _ & _ & [->|[->| ->]]); cbn [Z.eqb Pos.eqb] in *.
  - destruct (files (base ++ ext_of 0)) as [x|]; [|exact H].
    destruct H as (nm & p & Hd & Hr & H0 & _ & _). exists nm, p. repeat split; try assumption.
    intros N. exfalso. apply N. reflexivity.
  - destruct (files (base ++ ext_of 1)) as [x|]; [|exact H].
    destruct H as (nm & p & Hd & Hr & _ & H1 & _). destruct (H1 eq_refl) as [Hc Hn].
    destruct (p8_chunks x) as [chunks|] eqn:E; [|congruence].
    exists nm, p. repeat split; try assumption; [discriminate|].
    intros _. exists chunks. split; [exact Hc|reflexivity].
  - destruct (png (base ++ ext_of 2)) as [x|]; [|exact H].
    destruct H as (nm & p & Hd & Hr & _ & _ & H2). exists nm, p. repeat split; try assumption; [discriminate|].
    intros _. exact (H2 eq_refl).
Qed.

Theorem in_place_p8_bytes cwd home fs f files png bodies :
  fs_agrees_bytes cwd home fs f files png ->
  Forall no_nl bodies ->
  let hs := map (fun b => b ++ [10]) bodies in
  let impl := model_outcome (process_includes_now cwd home fs (Some f) hs) in
  text_lines (concat hs) = bodies /\
  match ref_splice (content_of_bytes files png) bodies with
  | SpOk ls => exists t, impl = Some t /\ text_lines t = ls
  | SpMissing => impl = None
  | SpUndefined => True
  end.
Proof. intros H. apply refines_now, fs_agrees_of_bytes, H. Qed.
