(* C12: the whole require() recursion only touches paths under the directory of a requiring file or a
   directory designated by the load path - for ANY load path (roots: Spec/LoadPathSpec.require_roots_general);
   for load paths whose patterns have climb 0 (all sane patterns, and e.g. ?/?.lua) these are the roots of the
   extracted monitor, so its predicate holds of the model's trace. *)
From PV Require Import Base.Prelude Model.Paths Model.Require Model.FilesInst Model.RequireWalk
  Spec.PathSpec Spec.LoadPathSpec Proofs.PathProofs Proofs.RequireProofs Proofs.RequireGeneral.

Definition to_event (e : wev) : event := (if fst e then OpenRead else Probe, snd e).

Section WalkSafe.
Variable requires_of : bytes -> list bytes.
Variable isfile : bytes -> bool.
Variable lua_path cwd : bytes.

Notation pats := (split_on 59 lua_path).
Notation grow := (require_roots_general pats).

(* the roots in force cover everything a requiring file may reach *)
Definition covers (roots : list bytes) (f : bytes) : Prop :=
  forall p pat, In pat pats -> under cwd (pattern_root (dirname f) pat) p -> under_any cwd roots p = true.

Lemma under_any_app cwd' a b p : under_any cwd' (a ++ b) p = under_any cwd' a p || under_any cwd' b p.
Proof. unfold under_any. apply existsb_app. Qed.

Lemma covers_more roots f x : covers roots f -> covers (x ++ roots) f.
Proof. intros H p pat Hp Hu. rewrite under_any_app, (H p pat Hp Hu). apply orb_true_r. Qed.

Lemma stack_pattern_dir f pat :
  stack cwd (pattern_dir (dirname f) pat) = stack cwd (pattern_dir (dir_part f) pat).
Proof.
  unfold pattern_dir. destruct (absolute pat); [reflexivity|].
  pose proof (stack_dirname cwd f) as Hs.
  destruct (dirname f) as [|a0 a1] eqn:Ea; destruct (dir_part f) as [|b0 b1] eqn:Eb.
  - reflexivity.
  - exfalso. (* dirname f = [] but dir_part f nonempty: impossible *)
    unfold dirname in Ea. rewrite dir_prefix_dir_part, Eb in Ea. cbn [is_empty negb andb] in Ea.
    destruct (all_slash (b0 :: b1)) eqn:Es; cbn [negb] in Ea; [discriminate|].
    apply (rstrip_nonnil _ Es). exact Ea.
  - exfalso. unfold dirname in Ea. rewrite dir_prefix_dir_part, Eb in Ea. cbn in Ea. discriminate.
  - rewrite <- Ea, <- Eb in *.
    assert (H1 : dirname f <> []) by (rewrite Ea; discriminate).
    assert (H2 : dir_part f <> []) by (rewrite Eb; discriminate).
    rewrite !stack_app_slash by assumption. rewrite Hs. reflexivity.
Qed.

Lemma stack_pattern_root f pat :
  stack cwd (pattern_root (dirname f) pat) = stack cwd (pattern_root (dir_part f) pat).
Proof. rewrite !stack_root, stack_pattern_dir. reflexivity. Qed.

Lemma covers_own f : covers (grow f) f.
Proof.
  intros p pat Hp Hu. unfold under_any, require_roots_general. cbn [existsb]. apply orb_true_iff. right.
  apply existsb_exists. exists (pattern_root (dir_part f) pat). split; [apply in_map; exact Hp|].
  apply underb_spec. unfold under in *. rewrite !locate_stack in *. rewrite <- stack_pattern_root. exact Hu.
Qed.

Lemma growing_app grow' roots t1 t2 :
  all_opens_under_growing cwd grow' roots (t1 ++ t2) =
  all_opens_under_growing cwd grow' roots t1 && all_opens_under_growing cwd grow' (roots_after grow' roots t1) t2.
Proof.
  revert roots. induction t1 as [|[a p] t1 IH]; intros roots; [reflexivity|].
  cbn [app all_opens_under_growing roots_after]. destruct a; rewrite IH, andb_assoc; reflexivity.
Qed.

Lemma roots_after_ext grow' t : forall roots, exists ext, roots_after grow' roots t = ext ++ roots.
Proof.
  induction t as [|[a p] t IH]; intros roots; [exists []; reflexivity|].
  cbn [roots_after]. destruct a; [apply IH|].
  destruct (IH (grow' p ++ roots)) as (ext & ->). exists (ext ++ grow' p). rewrite app_assoc. reflexivity.
Qed.

Lemma probes_incl cands : forall p, In p (probes isfile cands) -> In p cands.
Proof.
  induction cands as [|c r IH]; intros p H; [exact H|]. cbn [probes] in H.
  destruct (isfile c); [destruct H as [<-|[]]; left; reflexivity|].
  destruct H as [<-|H]; [left; reflexivity|right; apply IH; exact H].
Qed.

Lemma first_file_in cands p : first_file isfile cands = Some p -> In p cands.
Proof.
  induction cands as [|c r IH]; [discriminate|]. cbn [first_file]. destruct (isfile c).
  - intros [= <-]. left. reflexivity.
  - intros H. right. apply IH. exact H.
Qed.

Lemma probes_safe roots f req :
  covers roots f -> require_filter_now req = true ->
  forall l, (forall p, In p l -> In p (require_candidates_now f lua_path req)) ->
  all_opens_under_growing cwd grow roots (map to_event (map probe_ev l)) = true.
Proof.
  intros Hc Hf. induction l as [|p l IH]; intros Hin; [reflexivity|].
  cbn [map to_event probe_ev fst snd all_opens_under_growing]. rewrite IH by (intros q Hq; apply Hin; right; exact Hq).
  rewrite andb_true_r.
  destruct (candidates_contained_general cwd f lua_path req p Hf (Hin p (or_introl eq_refl))) as (pat & Hp & Hu).
  exact (Hc p pat Hp Hu).
Qed.

(* the trace of the whole recursion is accepted by the monitor, from any roots that cover the file *)
Lemma walk_safe : forall fuel f reqs loaded roots,
  covers roots f ->
  all_opens_under_growing cwd grow roots (map to_event (fst (req_walk requires_of isfile lua_path fuel f reqs loaded))) = true.
Proof.
  induction fuel as [|k IH]; intros f reqs loaded roots Hc; [reflexivity|].
  cbn [req_walk]. destruct reqs as [|req rest]; [reflexivity|].
  destruct (require_filter_now req) eqn:Hf; cbn [negb]; [|reflexivity].
  destruct (mem_bytes req loaded); [apply IH; exact Hc|].
  set (cands := require_candidates_now f lua_path req).
  assert (Hpr : all_opens_under_growing cwd grow roots
            (map to_event (map probe_ev (probes isfile cands))) = true).
  { apply (probes_safe roots f req Hc Hf). apply probes_incl. }
  assert (Hra : roots_after grow roots (map to_event (map probe_ev (probes isfile cands))) = roots).
  { generalize (probes isfile cands). intros l. induction l as [|p l IHl]; [reflexivity|]. exact IHl. }
  destruct (first_file isfile cands) as [p|] eqn:Eff; [|exact Hpr].
  assert (Hp : under_any cwd roots p = true).
  { destruct (candidates_contained_general cwd f lua_path req p Hf (first_file_in cands p Eff)) as (pat & Hpat & Hu).
    exact (Hc p pat Hpat Hu). }
  destruct (req_walk requires_of isfile lua_path k p (requires_of p) (req :: loaded)) as [t1 r1] eqn:E1.
  assert (H1 : all_opens_under_growing cwd grow (grow p ++ roots) (map to_event t1) = true).
  { pose proof (IH p (requires_of p) (req :: loaded) (grow p ++ roots)) as H. rewrite E1 in H. apply H.
    intros q pat Hq Hu. rewrite under_any_app, (covers_own p q pat Hq Hu). reflexivity. }
  destruct r1 as [loaded'|e].
  - destruct (req_walk requires_of isfile lua_path k f rest loaded') as [t2 r2] eqn:E2.
    cbn [fst]. rewrite map_app, growing_app, Hpr, Hra. cbn [andb map to_event open_ev fst snd all_opens_under_growing].
    rewrite Hp. cbn [andb]. rewrite map_app, growing_app, H1. cbn [andb].
    destruct (roots_after_ext grow (map to_event t1) (grow p ++ roots)) as (ext & ->).
    pose proof (IH f rest loaded' (ext ++ grow p ++ roots)) as H. rewrite E2 in H. apply H.
    apply covers_more, covers_more. exact Hc.
  - cbn [fst]. rewrite map_app, growing_app, Hpr, Hra. cbn [andb map to_event open_ev fst snd all_opens_under_growing].
    rewrite Hp, H1. reflexivity.
Qed.

Lemma evaluate_require_safe fuel main :
  all_opens_under_growing cwd grow (grow main)
    (map to_event (fst (evaluate_require requires_of isfile lua_path fuel main))) = true.
Proof. apply walk_safe. apply covers_own. Qed.
End WalkSafe.

(* ---- in terms of the instance predicate the monitor evaluates ---- *)
From PV Require Import Instances.HoldsC12.

Lemma load_path_patterns_split s : load_path_patterns s = split_on 59 s.
Proof.
  induction s as [|c r IH]; [reflexivity|]. cbn [load_path_patterns split_on]. rewrite IH. reflexivity.
Qed.

Lemma relevant_nil tr : relevant [] tr = tr.
Proof.
  unfold relevant. induction tr as [|e r IH]; [reflexivity|]. cbn [filter]. unfold mentions at 1. cbn [existsb negb]. f_equal. exact IH.
Qed.

(* two root functions that agree give the same verdict *)
Lemma growing_ext cwd g1 g2 :
  (forall p, g1 p = g2 p) ->
  forall tr roots, all_opens_under_growing cwd g1 roots tr = all_opens_under_growing cwd g2 roots tr.
Proof.
  intros H. induction tr as [|[a p] tr IH]; intros roots; [reflexivity|].
  cbn [all_opens_under_growing]. destruct a; rewrite ?H, IH; reflexivity.
Qed.

Lemma roots_general_flat pats f :
  forallb pattern_flatb pats = true -> require_roots_general pats f = require_roots pats f.
Proof.
  intros H. unfold require_roots_general, require_roots. f_equal. apply map_ext_in.
  intros pat Hpat. rewrite forallb_forall in H. specialize (H pat Hpat). apply Nat.eqb_eq in H.
  apply pattern_root_climb0. exact H.
Qed.

(* ANY load path: the trace of the model satisfies the predicate the monitor evaluates *)
Lemma require_model_holds requires_of isfile lua_path cwd fuel main :
  holds_C12_require cwd lua_path main []
    (map to_event (fst (evaluate_require requires_of isfile lua_path fuel main))) = true.
Proof.
  unfold holds_C12_require. rewrite relevant_nil, load_path_patterns_split. apply evaluate_require_safe.
Qed.

(* load paths of climb 0 (all sane ones): the monitor's roots are PathSpec.require_roots, i.e. the directory of
   each requiring file and pattern_dir of each pattern, and its verdict is the one computed with them *)
Lemma holds_require_flat cwd lua_path main explicit tr :
  forallb pattern_flatb (split_on 59 lua_path) = true ->
  holds_C12_require cwd lua_path main explicit tr
  = all_opens_under_growing cwd (require_roots (split_on 59 lua_path)) (require_roots (split_on 59 lua_path) main)
      (relevant explicit tr).
Proof.
  intros Hs. unfold holds_C12_require. rewrite load_path_patterns_split.
  rewrite (roots_general_flat _ main Hs).
  apply growing_ext. intros p. apply roots_general_flat. exact Hs.
Qed.

Lemma holds_require_sane cwd lua_path main explicit tr :
  forallb pattern_saneb (split_on 59 lua_path) = true ->
  holds_C12_require cwd lua_path main explicit tr
  = all_opens_under_growing cwd (require_roots (split_on 59 lua_path)) (require_roots (split_on 59 lua_path) main)
      (relevant explicit tr).
Proof.
  intros Hs. apply holds_require_flat. rewrite forallb_forall in *.
  intros pat Hpat. apply sane_flat, Hs, Hpat.
Qed.
