(* Line-level characterisation of the formatter pipeline (Model/FmtSpaces.v).

   A text is a non-empty list of lines (no line contains a line feed) joined with "\n"; each
   substitution of the pipeline is shown to act on the lines in a simple way (strip the trailing
   blanks of every line but the last, re-indent a comment line, indent the last line, squeeze runs
   of empty lines).  The run-level theorems of Properties/C10.v are read off this form. *)
From PV Require Import Base.Prelude Model.FmtSpaces Proofs.FmtSpacesProofs.
From Coq Require Import Lia.

(* ====================================================================== lines *)
Definition noNL (l : list Z) : Prop := Forall (fun c => c <> NL) l.

Definition flat (ls : list (list Z)) : list Z := concat (map (cons NL) ls).

Definition joinl (L : list (list Z)) : list Z :=
  match L with
  | [] => []
  | l :: ls => l ++ flat ls
  end.

Fixpoint split_nl (s : list Z) : list (list Z) :=
  match s with
  | [] => [[]]
  | c :: r =>
    if c =? NL then [] :: split_nl r
    else match split_nl r with
         | l :: ls => (c :: l) :: ls
         | [] => [[c]]
         end
  end.

Lemma flat_cons l ls : flat (l :: ls) = NL :: l ++ flat ls.
Proof. reflexivity. Qed.

Lemma flat_app a b : flat (a ++ b) = flat a ++ flat b.
Proof. unfold flat. rewrite map_app, concat_app. reflexivity. Qed.

Lemma split_nl_nonempty s : split_nl s <> [].
Proof.
  destruct s as [|c r]; cbn; [discriminate|].
  destruct (c =? NL); [discriminate|]. destruct (split_nl r); discriminate.
Qed.

Lemma joinl_split s : joinl (split_nl s) = s.
Proof.
  induction s as [|c r IH]; [reflexivity|]. cbn [split_nl].
  destruct (c =? NL) eqn:E.
  - apply Z.eqb_eq in E. subst. cbn [joinl app]. rewrite <- IH at 2.
    destruct (split_nl r) as [|l ls] eqn:S; [destruct (split_nl_nonempty _ S)|].
    reflexivity.
  - destruct (split_nl r) as [|l ls] eqn:S; [destruct (split_nl_nonempty _ S)|].
    cbn [joinl] in *. cbn. f_equal. exact IH.
Qed.

Lemma split_nl_noNL s : Forall noNL (split_nl s).
Proof.
  induction s as [|c r IH]; cbn [split_nl]; [repeat constructor|].
  destruct (c =? NL) eqn:E.
  - constructor; [constructor | exact IH].
  - destruct (split_nl r) as [|l ls] eqn:S; [destruct (split_nl_nonempty _ S)|].
    inversion IH; subst. constructor; [|assumption].
    constructor; [|assumption]. intros ->. rewrite Z.eqb_refl in E. discriminate.
Qed.

(* ====================================================================== resub helpers *)
Lemma resub_skip m : forall x n y, length x = n -> resub m n (x ++ y) = resub m 0 y.
Proof.
  induction x as [|c x IH]; intros n y H; cbn in H; subst; [reflexivity|].
  cbn [app resub]. apply IH. reflexivity.
Qed.

Definition headed (h : Z -> bool) (m : matcher) : Prop :=
  forall c r, h c = false -> m (c :: r) = None.

Lemma resub_pass h m : headed h m -> forall x y,
  (forall c, In c x -> h c = false) -> resub m 0 (x ++ y) = x ++ resub m 0 y.
Proof.
  intros Hm. induction x as [|c x IH]; intros y Hx; [reflexivity|].
  cbn [app resub]. rewrite (Hm c (x ++ y)) by (apply Hx; left; reflexivity).
  f_equal. apply IH. intros d Hd. apply Hx. right. exact Hd.
Qed.

Lemma noNL_not_nl l : noNL l -> forall c, In c l -> is_nl c = false.
Proof.
  intros H c Hc. unfold noNL in H. rewrite Forall_forall in H. specialize (H c Hc).
  unfold is_nl. apply Z.eqb_neq. exact H.
Qed.

Lemma resub_pass_nl m : headed is_nl m -> forall l y, noNL l -> resub m 0 (l ++ y) = l ++ resub m 0 y.
Proof.
  intros Hm l y Hl. apply (resub_pass is_nl m Hm). apply noNL_not_nl. exact Hl.
Qed.

(* a "tail" is what may follow a line: nothing, or a line feed *)
Definition tailish (r : list Z) : Prop := r = [] \/ exists r', r = NL :: r'.

Lemma flat_tailish ls : tailish (flat ls).
Proof. destruct ls; [left; reflexivity | right; eexists; reflexivity]. Qed.

(* ---------- leading / trailing blanks of a line ---------- *)
Definition lsp (l : list Z) : nat := fst (span_p is_sp l).
Definition lstrip (l : list Z) : list Z := snd (span_p is_sp l).

Lemma span_lsp l : span_p is_sp l = (lsp l, lstrip l).
Proof. unfold lsp, lstrip. destruct (span_p is_sp l); reflexivity. Qed.

Lemma lstrip_spec l : l = repeat SP (lsp l) ++ lstrip l.
Proof.
  induction l as [|c r IH]; [reflexivity|]. unfold lsp, lstrip in *. cbn.
  destruct (is_sp c) eqn:E; [|reflexivity].
  destruct (span_p is_sp r) as [n t]. cbn in *. unfold is_sp in E. apply Z.eqb_eq in E. rewrite E.
  f_equal. exact IH.
Qed.

Lemma lstrip_head l : match lstrip l with c :: _ => is_sp c = false | [] => True end.
Proof. destruct (span_p_spec _ _ _ _ (span_lsp l)) as (_ & _ & _ & H). exact H. Qed.

Lemma span_sp_app l r : tailish r ->
  span_p is_sp (l ++ r) = (lsp l, lstrip l ++ r).
Proof.
  intros Hr. induction l as [|c l IH].
  - cbn. destruct Hr as [-> | [r' ->]]; reflexivity.
  - unfold lsp, lstrip in *. cbn. destruct (is_sp c); [|reflexivity].
    rewrite IH. destruct (span_p is_sp l). reflexivity.
Qed.

Lemma lstrip_noNL l : noNL l -> noNL (lstrip l).
Proof.
  intros H. unfold noNL in *. rewrite (lstrip_spec l) in H. apply Forall_app in H. apply H.
Qed.

Lemma lstrip_len l : (lsp l + length (lstrip l) = length l)%nat.
Proof. apply (span_len _ _ _ _ (span_lsp l)). Qed.

Lemma lstrip_idem l : lstrip (lstrip l) = lstrip l.
Proof.
  pose proof (lstrip_head l) as H. unfold lstrip at 1. destruct (lstrip l) as [|c t]; [reflexivity|].
  cbn. rewrite H. reflexivity.
Qed.

Lemma lstrip_repeat_app n l : lstrip (repeat SP n ++ l) = lstrip l.
Proof.
  induction n as [|n IH]; [reflexivity|]. unfold lstrip in *. cbn.
  destruct (span_p is_sp (repeat SP n ++ l)). cbn in *. exact IH.
Qed.

Definition starts2 (x : Z) (l : list Z) : bool :=
  match l with a :: b :: _ => (a =? x) && (b =? x) | _ => false end.

(* trailing blanks *)
Fixpoint rstrip (l : list Z) : list Z :=
  match l with
  | [] => []
  | c :: r => if forallb is_sp l then [] else c :: rstrip r
  end.

Lemma rstrip_all_sp l : forallb is_sp l = true -> rstrip l = [].
Proof. destruct l as [|c r]; [reflexivity|]. cbn [rstrip]. intros ->. reflexivity. Qed.

Lemma all_sp_lstrip l : forallb is_sp l = true <-> lstrip l = [].
Proof.
  split.
  - induction l as [|c r IH]; [reflexivity|]. cbn. rewrite andb_true_iff. intros [Hc Hr].
    unfold lstrip in *. cbn. rewrite Hc. destruct (span_p is_sp r). cbn in *. auto.
  - intros H. rewrite (lstrip_spec l), H, app_nil_r. clear H. induction (lsp l); cbn; auto.
Qed.

(* ====================================================================== substitutions, line by line *)
Definition is_nil {A} (l : list A) : bool := match l with [] => true | _ => false end.

(* apply f to every line, telling it whether the line is the last one *)
Fixpoint map_last (f : bool -> list Z -> list Z) (ls : list (list Z)) : list (list Z) :=
  match ls with
  | [] => []
  | l :: r => f (is_nil r) l :: map_last f r
  end.

(* apply g to every line but the last *)
Definition map_init (g : list Z -> list Z) (L : list (list Z)) : list (list Z) :=
  map_last (fun last l => if last then l else g l) L.

Definition map_tail (g : list Z -> list Z) (L : list (list Z)) : list (list Z) :=
  match L with [] => [] | l :: ls => l :: map g ls end.

Lemma is_nil_flat ls : is_nil (flat ls) = is_nil ls.
Proof. destruct ls; reflexivity. Qed.

Lemma resub_lines m f : headed is_nl m ->
  (forall l r, noNL l -> tailish r ->
     resub m 0 (NL :: l ++ r) = NL :: f (is_nil r) l ++ resub m 0 r) ->
  forall ls, Forall noNL ls -> resub m 0 (flat ls) = flat (map_last f ls).
Proof.
  intros Hm Hf. induction ls as [|l ls IH]; intros H; [reflexivity|].
  inversion H; subst. rewrite flat_cons. rewrite Hf by (auto using flat_tailish).
  cbn [map_last]. rewrite flat_cons, is_nil_flat, IH by assumption. reflexivity.
Qed.

Lemma resub_joinl m f : headed is_nl m ->
  (forall l r, noNL l -> tailish r ->
     resub m 0 (NL :: l ++ r) = NL :: f (is_nil r) l ++ resub m 0 r) ->
  forall l0 ls, Forall noNL (l0 :: ls) ->
  resub m 0 (joinl (l0 :: ls)) = joinl (l0 :: map_last f ls).
Proof.
  intros Hm Hf l0 ls H. inversion H; subst. cbn [joinl].
  rewrite (resub_pass_nl m Hm) by assumption. rewrite (resub_lines m f Hm Hf) by assumption. reflexivity.
Qed.

(* ---------- br'\n *xx' : re-indent a comment line ---------- *)
Definition reind (x : Z) (ind : list Z) (l : list Z) : list Z :=
  if starts2 x (lstrip l) then ind ++ lstrip l else l.

Lemma headed_nl_sp_xx x ind : headed is_nl (m_nl_sp_xx x ind).
Proof. intros c r H. unfold m_nl_sp_xx. unfold is_nl in H. rewrite H. reflexivity. Qed.

Lemma line_nl_sp_xx x ind l r : (x =? NL) = false -> noNL l -> tailish r ->
  resub (m_nl_sp_xx x ind) 0 (NL :: l ++ r) = NL :: reind x ind l ++ resub (m_nl_sp_xx x ind) 0 r.
Proof.
  intros Hx Hl Hr. cbn [resub]. unfold m_nl_sp_xx at 1. rewrite Z.eqb_refl.
  rewrite (span_sp_app l r Hr). unfold reind.
  pose proof (lstrip_spec l) as Hs. pose proof (lstrip_noNL l Hl) as Hn.
  assert (Hpass : resub (m_nl_sp_xx x ind) 0 (l ++ r) = l ++ resub (m_nl_sp_xx x ind) 0 r)
    by (apply resub_pass_nl; [apply headed_nl_sp_xx | exact Hl]).
  destruct (lstrip l) as [|a [|b l3]] eqn:E; cbn [app starts2].
  - (* blank line *) destruct Hr as [-> | [r' ->]].
    + rewrite Hpass. reflexivity.
    + destruct r' as [|b r'']; [rewrite Hpass; reflexivity|].
      replace (NL =? x) with false by (symmetry; rewrite Z.eqb_sym; exact Hx). cbn [andb].
      rewrite Hpass. reflexivity.
  - destruct Hr as [-> | [r' ->]]; cbn [app].
    + rewrite Hpass. reflexivity.
    + replace (NL =? x) with false by (symmetry; rewrite Z.eqb_sym; exact Hx). rewrite andb_false_r.
      rewrite Hpass. reflexivity.
  - destruct ((a =? x) && (b =? x)) eqn:Eab.
    + apply andb_true_iff in Eab. destruct Eab as [Ea Eb]. apply Z.eqb_eq in Ea, Eb. subst a b.
      assert (Hk : resub (m_nl_sp_xx x ind) (S (S (lsp l))) (l ++ r) = l3 ++ resub (m_nl_sp_xx x ind) 0 r).
      { rewrite Hs at 2. rewrite <- app_assoc.
        replace (S (S (lsp l))) with (lsp l + 2)%nat by lia.
        replace (repeat SP (lsp l) ++ (x :: x :: l3) ++ r) with ((repeat SP (lsp l) ++ [x; x]) ++ (l3 ++ r))
          by (rewrite <- !app_assoc; reflexivity).
        rewrite resub_skip by (rewrite app_length, repeat_length; reflexivity).
        apply resub_pass_nl; [apply headed_nl_sp_xx|].
        unfold noNL in *. inversion Hn; subst. inversion H2; subst. assumption. }
      cbn [app]. rewrite Hk. f_equal. rewrite <- !app_assoc. reflexivity.
    + rewrite Hpass. reflexivity.
Qed.

(* ---------- br'\n *\Z' : indent what follows the run ---------- *)
Definition indent_last (ind : list Z) (last : bool) (l : list Z) : list Z :=
  if last && forallb is_sp l then ind else l.

Lemma headed_nl_sp_end ind : headed is_nl (m_nl_sp_end ind).
Proof. intros c r H. unfold m_nl_sp_end. unfold is_nl in H. rewrite H. reflexivity. Qed.

Lemma line_nl_sp_end ind l r : noNL l -> tailish r ->
  resub (m_nl_sp_end ind) 0 (NL :: l ++ r) = NL :: indent_last ind (is_nil r) l ++ resub (m_nl_sp_end ind) 0 r.
Proof.
  intros Hl Hr. cbn [resub]. unfold m_nl_sp_end at 1. rewrite Z.eqb_refl.
  rewrite (span_sp_app l r Hr). unfold indent_last.
  assert (Hpass : resub (m_nl_sp_end ind) 0 (l ++ r) = l ++ resub (m_nl_sp_end ind) 0 r)
    by (apply resub_pass_nl; [apply headed_nl_sp_end | exact Hl]).
  destruct (lstrip l) as [|a l3] eqn:E; cbn [app].
  - destruct r as [|b r'].
    + cbn [is_nil andb]. rewrite (proj2 (all_sp_lstrip l) E).
      rewrite app_nil_r. pose proof (lstrip_len l) as HL. rewrite E in HL. cbn in HL.
      pose proof (resub_skip (m_nl_sp_end ind) l (lsp l) [] ltac:(lia)) as Hk. rewrite app_nil_r in Hk.
      rewrite Hk. reflexivity.
    + cbn [is_nil andb]. rewrite Hpass. reflexivity.
  - assert (forallb is_sp l = false) as ->.
    { destruct (forallb is_sp l) eqn:F; [|reflexivity]. apply all_sp_lstrip in F. congruence. }
    rewrite andb_false_r, Hpass. reflexivity.
Qed.

(* ---------- br' +\n' : strip the trailing blanks of every line that is followed by a line feed ---------- *)
Lemma m_sp1_nl_needs_nl s rep k : m_sp1_nl s = Some (rep, k) -> In NL s.
Proof.
  unfold m_sp1_nl. destruct s as [|c r]; [discriminate|]. destruct (c =? SP); [|discriminate].
  destruct (span_p is_sp r) as [n t] eqn:E. destruct t as [|d t']; [discriminate|].
  destruct (d =? NL) eqn:Ed; [|discriminate]. intros _. apply Z.eqb_eq in Ed. subst.
  destruct (span_p_spec _ _ _ _ E) as (H1 & _). right. rewrite H1. apply in_or_app. right. left. reflexivity.
Qed.

Lemma resub_sp1_nl_noNL l : noNL l -> resub m_sp1_nl 0 l = l.
Proof.
  induction l as [|c r IH]; intros H; [reflexivity|]. inversion H; subst. cbn [resub].
  destruct (m_sp1_nl (c :: r)) as [[rep k]|] eqn:E.
  - exfalso. apply m_sp1_nl_needs_nl in E. unfold noNL in H. rewrite Forall_forall in H.
    apply (H NL E). reflexivity.
  - f_equal. apply IH. assumption.
Qed.

Lemma rstrip_cons_nonsp c l : is_sp c = false -> rstrip (c :: l) = c :: rstrip l.
Proof. intros H. cbn [rstrip forallb]. rewrite H. reflexivity. Qed.

Lemma rstrip_cons_sp l : rstrip (SP :: l) = if forallb is_sp l then [] else SP :: rstrip l.
Proof. cbn [rstrip forallb]. reflexivity. Qed.

Lemma line_sp1_nl l r : noNL l ->
  resub m_sp1_nl 0 (l ++ NL :: r) = rstrip l ++ NL :: resub m_sp1_nl 0 r.
Proof.
  induction l as [|c l IH]; intros H.
  - cbn. reflexivity.
  - inversion H as [|? ? Hc Hl]; subst. cbn [app resub]. unfold m_sp1_nl at 1.
    destruct (c =? SP) eqn:Ec.
    + apply Z.eqb_eq in Ec. subst c.
      rewrite (span_sp_app l (NL :: r)) by (right; eexists; reflexivity).
      rewrite rstrip_cons_sp.
      destruct (lstrip l) as [|d l3] eqn:E; cbn [app].
      * rewrite Z.eqb_refl. rewrite (proj2 (all_sp_lstrip l) E). cbn [app]. f_equal.
        pose proof (lstrip_len l) as HL. rewrite E in HL. cbn in HL.
        change (l ++ NL :: r) with (l ++ [NL] ++ r). rewrite app_assoc.
        apply resub_skip. rewrite app_length. cbn. lia.
      * assert (Hd : d <> NL).
        { pose proof (lstrip_noNL l Hl) as Hn. rewrite E in Hn. inversion Hn; assumption. }
        apply Z.eqb_neq in Hd. rewrite Hd.
        assert (forallb is_sp l = false) as ->.
        { destruct (forallb is_sp l) eqn:F; [|reflexivity]. apply all_sp_lstrip in F. congruence. }
        cbn [app]. f_equal. apply IH. exact Hl.
    + rewrite rstrip_cons_nonsp by exact Ec. cbn [app]. f_equal. apply IH. exact Hl.
Qed.

Lemma joinl_cons2 l l' ls : joinl (l :: l' :: ls) = l ++ NL :: joinl (l' :: ls).
Proof. reflexivity. Qed.

Lemma sub_sp1_nl_lines : forall L, L <> [] -> Forall noNL L ->
  resub m_sp1_nl 0 (joinl L) = joinl (map_init rstrip L).
Proof.
  induction L as [|l L IH]; intros Hne H; [congruence|]. inversion H; subst.
  destruct L as [|l' ls].
  - cbn. rewrite app_nil_r. apply resub_sp1_nl_noNL. assumption.
  - rewrite joinl_cons2, line_sp1_nl by assumption. rewrite IH by (congruence || assumption).
    reflexivity.
Qed.

(* ---------- anchored patterns act on the first line ---------- *)
Definition head_xx (x : Z) (rep : list Z) (l : list Z) : list Z :=
  if starts2 x (lstrip l) then rep ++ skipn 2 (lstrip l) else l.

Lemma sub_head_sp_xx_lines x rep l0 ls : (x =? NL) = false ->
  sub_head_sp_xx x rep (joinl (l0 :: ls)) = joinl (head_xx x rep l0 :: ls).
Proof.
  intros Hx. cbn [joinl]. unfold sub_head_sp_xx, head_xx.
  rewrite (span_sp_app l0 (flat ls) (flat_tailish ls)).
  pose proof (lstrip_spec l0) as Hs.
  destruct (lstrip l0) as [|a [|b l3]] eqn:E; cbn [app starts2 skipn].
  - destruct ls as [|l1 ls]; [reflexivity|]. rewrite flat_cons.
    destruct (l1 ++ flat ls) as [|b t]; [reflexivity|].
    replace (NL =? x) with false by (symmetry; rewrite Z.eqb_sym; exact Hx). reflexivity.
  - destruct ls as [|l1 ls]; [reflexivity|]. rewrite flat_cons.
    replace (NL =? x) with false by (symmetry; rewrite Z.eqb_sym; exact Hx). rewrite andb_false_r. reflexivity.
  - destruct ((a =? x) && (b =? x)); [|reflexivity]. rewrite <- app_assoc. reflexivity.
Qed.

Definition head_dollar (L : list (list Z)) : list (list Z) :=
  match L with
  | [l0] => if forallb is_sp l0 then [[]] else L
  | [l0; []] => if forallb is_sp l0 then [[]; []] else L
  | _ => L
  end.

Lemma sub_head_sp_dollar_lines l0 ls : Forall noNL (l0 :: ls) ->
  sub_head_sp_dollar (joinl (l0 :: ls)) = joinl (head_dollar (l0 :: ls)).
Proof.
  intros H. inversion H as [|? ? H0 Hls]; subst. cbn [joinl]. unfold sub_head_sp_dollar.
  rewrite (span_sp_app l0 (flat ls) (flat_tailish ls)).
  pose proof (lstrip_noNL l0 H0) as Hn.
  destruct (forallb is_sp l0) eqn:F.
  - pose proof (proj1 (all_sp_lstrip l0) F) as E. rewrite E. cbn [app].
    destruct ls as [|l1 ls]; [cbn; rewrite F; reflexivity|].
    rewrite flat_cons. destruct l1 as [|c l1].
    + destruct ls as [|l2 ls]; cbn [app flat concat map head_dollar]; [rewrite Z.eqb_refl, F; reflexivity|].
      reflexivity.
    + cbn [app head_dollar]. reflexivity.
  - assert (E : lstrip l0 <> []) by (intros E; apply all_sp_lstrip in E; congruence).
    destruct (lstrip l0) as [|a l3] eqn:E2; [congruence|]. cbn [app].
    assert (Ha : (a =? NL) = false) by (apply Z.eqb_neq; inversion Hn; assumption).
    destruct l3 as [|b l3]; cbn [app].
    + destruct ls as [|l1 ls].
      * cbn [flat concat map]. rewrite Ha. cbn [head_dollar]. rewrite F. reflexivity.
      * rewrite flat_cons. cbn [head_dollar]. destruct l1; [destruct ls|]; try rewrite F; reflexivity.
    + cbn [head_dollar]. destruct ls as [|l1 ls]; [rewrite F; reflexivity|].
      destruct l1; [destruct ls|]; try rewrite F; reflexivity.
Qed.

(* ---------- br'\n\n+' -> b'\n\n' : squeeze runs of empty lines ----------
   Among the lines after the first: a run of empty lines followed by another line shrinks to one
   empty line; a run of two or more empty lines at the very end shrinks to two (the text then ends
   in exactly two line feeds). *)
Fixpoint sq (ls : list (list Z)) : list (list Z) :=
  match ls with
  | [] => []
  | l :: r =>
    if is_nil l then
      match r with
      | [] => [[]]
      | l' :: r' =>
        if is_nil l' then
          match r' with
          | [] => [[]; []]
          | _ => sq r
          end
        else [] :: sq r
      end
    else l :: sq r
  end.

Lemma headed_nl_nl1 rep : headed is_nl (m_nl_nl1 rep).
Proof. intros c r H. unfold m_nl_nl1. unfold is_nl in H. rewrite H. reflexivity. Qed.

Definition empties (e : nat) : list (list Z) := repeat [] e.

Lemma flat_empties e : flat (empties e) = repeat NL e.
Proof. induction e; cbn; [reflexivity|]. f_equal. exact IHe. Qed.

Lemma span_nl_repeat e t : span_p is_nl (repeat NL e ++ t) =
  let '(n, t') := span_p is_nl t in ((e + n)%nat, t').
Proof.
  induction e as [|e IH]; cbn [repeat app].
  - destruct (span_p is_nl t). reflexivity.
  - cbn [span_p]. unfold is_nl at 1. rewrite Z.eqb_refl. rewrite IH.
    destruct (span_p is_nl t). reflexivity.
Qed.

Lemma span_nl_line l r : noNL l -> l <> [] -> span_p is_nl (l ++ r) = (O, l ++ r).
Proof.
  intros H Hne. destruct l as [|c l]; [congruence|]. inversion H; subst. cbn.
  unfold is_nl. apply Z.eqb_neq in H2. rewrite H2. reflexivity.
Qed.

Lemma sq_drop_empty rest : rest <> [] -> sq ([] :: [] :: rest) = sq ([] :: rest).
Proof. intros H. destruct rest as [|x y]; [congruence|]. reflexivity. Qed.

Lemma sq_empties_then e l r : l <> [] -> sq ([] :: empties e ++ l :: r) = [] :: l :: sq r.
Proof.
  intros Hl. induction e as [|e IH]; cbn [empties repeat app].
  - destruct l; [congruence|]. reflexivity.
  - rewrite sq_drop_empty; [exact IH|]. destruct e; discriminate.
Qed.

Lemma sq_empties_end e : sq ([] :: empties (S e)) = [[]; []].
Proof.
  induction e as [|e IH]; [reflexivity|].
  change (empties (S (S e))) with ([] :: empties (S e)).
  rewrite sq_drop_empty; [exact IH | discriminate].
Qed.

Lemma resub_nl_nl1_empties_then e l r : noNL l -> l <> [] ->
  resub (m_nl_nl1 [NL; NL]) 0 (flat ([] :: empties e ++ l :: r)) =
  NL :: NL :: l ++ resub (m_nl_nl1 [NL; NL]) 0 (flat r).
Proof.
  intros Hl Hne. rewrite flat_cons, flat_app, flat_empties, flat_cons. cbn [app resub].
  unfold m_nl_nl1 at 1. rewrite Z.eqb_refl.
  change (repeat NL e ++ NL :: l ++ flat r) with (repeat NL e ++ [NL] ++ l ++ flat r).
  rewrite app_assoc. replace (repeat NL e ++ [NL]) with (repeat NL (S e)).
  2:{ clear. induction e; cbn; [reflexivity|]. f_equal. exact IHe. }
  rewrite span_nl_repeat, span_nl_line by assumption.
  replace (S e + 0)%nat with (S e) by lia. cbn [app]. f_equal. f_equal.
  rewrite resub_skip by (apply repeat_length).
  apply resub_pass_nl; [apply headed_nl_nl1 | exact Hl].
Qed.

Lemma resub_nl_nl1_empties_end e :
  resub (m_nl_nl1 [NL; NL]) 0 (flat ([] :: empties (S e))) = [NL; NL].
Proof.
  rewrite flat_cons, flat_empties. cbn [app resub]. unfold m_nl_nl1 at 1. rewrite Z.eqb_refl.
  rewrite <- (app_nil_r (repeat NL (S e))). rewrite span_nl_repeat. cbn [span_p].
  replace (S e + 0)%nat with (S e) by lia. cbn [app]. f_equal. f_equal.
  rewrite resub_skip by (apply repeat_length). reflexivity.
Qed.

Lemma empties_decomp (r : list (list Z)) :
  exists e rest, r = empties e ++ rest /\ (rest = [] \/ exists l r', rest = l :: r' /\ l <> []).
Proof.
  induction r as [|l r IH].
  - exists O, []. split; [reflexivity | left; reflexivity].
  - destruct l as [|c l].
    + destruct IH as (e & rest & -> & H). exists (S e), rest. split; [reflexivity | exact H].
    + exists O, ((c :: l) :: r). split; [reflexivity|]. right. exists (c :: l), r. split; [reflexivity | discriminate].
Qed.

Lemma sub_nl_nl1_flat : forall n ls, (length ls <= n)%nat -> Forall noNL ls ->
  resub (m_nl_nl1 [NL; NL]) 0 (flat ls) = flat (sq ls).
Proof.
  induction n as [|n IH]; intros ls Hn H.
  - destruct ls; [reflexivity | cbn in Hn; lia].
  - destruct ls as [|l r]; [reflexivity|]. inversion H as [|? ? Hl Hr]; subst. cbn in Hn.
    destruct l as [|c l].
    + destruct (empties_decomp r) as (e & rest & -> & [-> | (l' & r' & -> & Hne)]).
      * rewrite app_nil_r. destruct e as [|e]; [reflexivity|].
        rewrite resub_nl_nl1_empties_end, sq_empties_end. reflexivity.
      * apply Forall_app in Hr. destruct Hr as [_ Hr]. inversion Hr; subst.
        rewrite resub_nl_nl1_empties_then, sq_empties_then by assumption.
        rewrite IH; [reflexivity | | assumption].
        rewrite app_length in Hn. cbn in Hn. lia.
    + rewrite flat_cons. cbn [sq is_nil]. rewrite flat_cons.
      cbn [resub]. unfold m_nl_nl1 at 1. rewrite Z.eqb_refl.
      rewrite span_nl_line by (assumption || discriminate).
      f_equal. rewrite resub_pass_nl by (apply headed_nl_nl1 || assumption).
      f_equal. apply IH; [lia | assumption].
Qed.

Lemma sub_nl_nl1_lines l0 ls : Forall noNL (l0 :: ls) ->
  resub (m_nl_nl1 [NL; NL]) 0 (joinl (l0 :: ls)) = joinl (l0 :: sq ls).
Proof.
  intros H. inversion H; subst. cbn [joinl].
  rewrite resub_pass_nl by (apply headed_nl_nl1 || assumption).
  rewrite (sub_nl_nl1_flat (length ls)) by (lia || assumption). reflexivity.
Qed.

(* ---------- br'[ \n]+$' -> b'\n' : one line feed instead of all trailing blanks and line feeds ---------- *)
Fixpoint trail_nl (s : list Z) : list Z :=
  match s with
  | [] => []
  | c :: r => if forallb is_sp_nl s then [NL] else c :: trail_nl r
  end.

Lemma span_all p s : forallb p s = true -> span_p p s = (length s, []).
Proof.
  induction s as [|c r IH]; cbn; [reflexivity|]. rewrite andb_true_iff. intros [-> H].
  rewrite (IH H). reflexivity.
Qed.

Lemma span_not_all p s n t : span_p p s = (n, t) -> forallb p s = false -> t <> [].
Proof.
  intros E F ->. destruct (span_p_spec _ _ _ _ E) as (H1 & H2 & _). rewrite app_nil_r in H1.
  rewrite <- H1 in H2. congruence.
Qed.

Lemma sub_spnl1_end s : resub m_spnl1_end 0 s = trail_nl s.
Proof.
  induction s as [|c r IH]; [reflexivity|]. cbn [resub]. unfold m_spnl1_end at 1.
  cbn [trail_nl]. destruct (forallb is_sp_nl (c :: r)) eqn:F.
  - pose proof F as F'. cbn [forallb] in F'. apply andb_true_iff in F'. destruct F' as [Fc Fr].
    rewrite Fc. rewrite (span_all _ _ F). cbn [length app].
    pose proof (resub_skip m_spnl1_end r (length r) [] eq_refl) as Hk. rewrite app_nil_r in Hk.
    rewrite Hk. reflexivity.
  - destruct (is_sp_nl c) eqn:Fc.
    + destruct (span_p is_sp_nl (c :: r)) as [n t] eqn:E.
      pose proof (span_not_all _ _ _ _ E F) as Ht. destruct t; [congruence|]. f_equal. exact IH.
    + f_equal. exact IH.
Qed.
