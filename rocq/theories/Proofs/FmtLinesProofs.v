(* Line-level characterisation of the formatter pipeline (Model/FmtSpaces.v).

   A text is a non-empty list of lines (no line contains a line feed) joined with "\n"; each
   substitution of the pipeline is shown to act on the lines in a simple way (strip the trailing
   blanks of every line but the last, re-indent a comment line, indent the last line, squeeze runs
   of empty lines).  The run-level theorems of Properties/C10.v are read off this form. *)
From PV Require Import Base.Prelude Model.FmtSpaces Proofs.FmtSpacesProofs.
From Coq Require Import Lia.

(* ====================================================================== lines *)
Definition noNL (l : list Z) : Prop := Forall (fun c => c <> NL) l.

Definition flat (ls : list (list Z)) : list Z := concat (map (cons NL) ls).

Definition joinl (L : list (list Z)) : list Z :=
  match L with
  | [] => []
  | l :: ls => l ++ flat ls
  end.

Fixpoint split_nl (s : list Z) : list (list Z) :=
  match s with
  | [] => [[]]
  | c :: r =>
    if c =? NL then [] :: split_nl r
    else match split_nl r with
         | l :: ls => (c :: l) :: ls
         | [] => [[c]]
         end
  end.

Lemma flat_cons l ls : flat (l :: ls) = NL :: l ++ flat ls.
Proof. reflexivity. Qed.

Lemma flat_app a b : flat (a ++ b) = flat a ++ flat b.
Proof. unfold flat. rewrite map_app, concat_app. reflexivity. Qed.

Lemma split_nl_nonempty s : split_nl s <> [].
Proof.
  destruct s as [|c r]; cbn; [discriminate|].
  destruct (c =? NL); [discriminate|]. destruct (split_nl r); discriminate.
Qed.

Lemma joinl_split s : joinl (split_nl s) = s.
Proof.
  induction s as [|c r IH]; [reflexivity|]. cbn [split_nl].
  destruct (c =? NL) eqn:E.
  - apply Z.eqb_eq in E. subst. cbn [joinl app]. rewrite <- IH at 2.
    destruct (split_nl r) as [|l ls] eqn:S; [destruct (split_nl_nonempty _ S)|].
    reflexivity.
  - destruct (split_nl r) as [|l ls] eqn:S; [destruct (split_nl_nonempty _ S)|].
    cbn [joinl] in *. cbn. f_equal. exact IH.
Qed.

Lemma split_nl_noNL s : Forall noNL (split_nl s).
Proof.
  induction s as [|c r IH]; cbn [split_nl]; [repeat constructor|].
  destruct (c =? NL) eqn:E.
  - constructor; [constructor | exact IH].
  - destruct (split_nl r) as [|l ls] eqn:S; [destruct (split_nl_nonempty _ S)|].
    inversion IH; subst. constructor; [|assumption].
    constructor; [|assumption]. intros ->. rewrite Z.eqb_refl in E. discriminate.
Qed.

(* ====================================================================== resub helpers *)
Lemma resub_skip m : forall x n y, length x = n -> resub m n (x ++ y) = resub m 0 y.
Proof.
  induction x as [|c x IH]; intros n y H; cbn in H; subst; [reflexivity|].
  cbn [app resub]. apply IH. reflexivity.
Qed.

Definition headed (h : Z -> bool) (m : matcher) : Prop :=
  forall c r, h c = false -> m (c :: r) = None.

Lemma resub_pass h m : headed h m -> forall x y,
  (forall c, In c x -> h c = false) -> resub m 0 (x ++ y) = x ++ resub m 0 y.
Proof.
  intros Hm. induction x as [|c x IH]; intros y Hx; [reflexivity|].
  cbn [app resub]. rewrite (Hm c (x ++ y)) by (apply Hx; left; reflexivity).
  f_equal. apply IH. intros d Hd. apply Hx. right. exact Hd.
Qed.

Lemma noNL_not_nl l : noNL l -> forall c, In c l -> is_nl c = false.
Proof.
  intros H c Hc. unfold noNL in H. rewrite Forall_forall in H. specialize (H c Hc).
  unfold is_nl. apply Z.eqb_neq. exact H.
Qed.

Lemma resub_pass_nl m : headed is_nl m -> forall l y, noNL l -> resub m 0 (l ++ y) = l ++ resub m 0 y.
Proof.
  intros Hm l y Hl. apply (resub_pass is_nl m Hm). apply noNL_not_nl. exact Hl.
Qed.

(* a "tail" is what may follow a line: nothing, or a line feed *)
Definition tailish (r : list Z) : Prop := r = [] \/ exists r', r = NL :: r'.

Lemma flat_tailish ls : tailish (flat ls).
Proof. destruct ls; [left; reflexivity | right; eexists; reflexivity]. Qed.

(* ---------- leading / trailing blanks of a line ---------- *)
Definition lsp (l : list Z) : nat := fst (span_p is_sp l).
Definition lstrip (l : list Z) : list Z := snd (span_p is_sp l).

Lemma span_lsp l : span_p is_sp l = (lsp l, lstrip l).
Proof. unfold lsp, lstrip. destruct (span_p is_sp l); reflexivity. Qed.

Lemma lstrip_spec l : l = repeat SP (lsp l) ++ lstrip l.
Proof.
  induction l as [|c r IH]; [reflexivity|]. unfold lsp, lstrip in *. cbn.
  destruct (is_sp c) eqn:E; [|reflexivity].
  destruct (span_p is_sp r) as [n t]. cbn in *. unfold is_sp in E. apply Z.eqb_eq in E. rewrite E.
  f_equal. exact IH.
Qed.

Lemma lstrip_head l : match lstrip l with c :: _ => is_sp c = false | [] => True end.
Proof. destruct (span_p_spec _ _ _ _ (span_lsp l)) as (_ & _ & _ & H). exact H. Qed.

Lemma span_sp_app l r : tailish r ->
  span_p is_sp (l ++ r) = (lsp l, lstrip l ++ r).
Proof.
  intros Hr. induction l as [|c l IH].
  - cbn. destruct Hr as [-> | [r' ->]]; reflexivity.
  - unfold lsp, lstrip in *. cbn. destruct (is_sp c); [|reflexivity].
    rewrite IH. destruct (span_p is_sp l). reflexivity.
Qed.

Lemma lstrip_noNL l : noNL l -> noNL (lstrip l).
Proof.
  intros H. unfold noNL in *. rewrite (lstrip_spec l) in H. apply Forall_app in H. apply H.
Qed.

Lemma lstrip_len l : (lsp l + length (lstrip l) = length l)%nat.
Proof. apply (span_len _ _ _ _ (span_lsp l)). Qed.

Lemma lstrip_idem l : lstrip (lstrip l) = lstrip l.
Proof.
  pose proof (lstrip_head l) as H. unfold lstrip at 1. destruct (lstrip l) as [|c t]; [reflexivity|].
  cbn. rewrite H. reflexivity.
Qed.

Lemma lstrip_repeat_app n l : lstrip (repeat SP n ++ l) = lstrip l.
Proof.
  induction n as [|n IH]; [reflexivity|]. unfold lstrip in *. cbn.
  destruct (span_p is_sp (repeat SP n ++ l)). cbn in *. exact IH.
Qed.

Definition starts2 (x : Z) (l : list Z) : bool :=
  match l with a :: b :: _ => (a =? x) && (b =? x) | _ => false end.

(* trailing blanks *)
Fixpoint rstrip (l : list Z) : list Z :=
  match l with
  | [] => []
  | c :: r => if forallb is_sp l then [] else c :: rstrip r
  end.

Lemma rstrip_all_sp l : forallb is_sp l = true -> rstrip l = [].
Proof. destruct l as [|c r]; [reflexivity|]. cbn [rstrip]. intros ->. reflexivity. Qed.

Lemma all_sp_lstrip l : forallb is_sp l = true <-> lstrip l = [].
Proof.
  split.
  - induction l as [|c r IH]; [reflexivity|]. cbn. rewrite andb_true_iff. intros [Hc Hr].
    unfold lstrip in *. cbn. rewrite Hc. destruct (span_p is_sp r). cbn in *. auto.
  - intros H. rewrite (lstrip_spec l), H, app_nil_r. clear H. induction (lsp l); cbn; auto.
Qed.

(* ====================================================================== substitutions, line by line *)
Definition is_nil {A} (l : list A) : bool := match l with [] => true | _ => false end.

(* apply f to every line, telling it whether the line is the last one *)
Fixpoint map_last (f : bool -> list Z -> list Z) (ls : list (list Z)) : list (list Z) :=
  match ls with
  | [] => []
  | l :: r => f (is_nil r) l :: map_last f r
  end.

(* apply g to every line but the last *)
Definition map_init (g : list Z -> list Z) (L : list (list Z)) : list (list Z) :=
  map_last (fun last l => if last then l else g l) L.

Definition map_tail (g : list Z -> list Z) (L : list (list Z)) : list (list Z) :=
  match L with [] => [] | l :: ls => l :: map g ls end.

Lemma is_nil_flat ls : is_nil (flat ls) = is_nil ls.
Proof. destruct ls; reflexivity. Qed.

Lemma resub_lines m f : headed is_nl m ->
  (forall l r, noNL l -> tailish r ->
     resub m 0 (NL :: l ++ r) = NL :: f (is_nil r) l ++ resub m 0 r) ->
  forall ls, Forall noNL ls -> resub m 0 (flat ls) = flat (map_last f ls).
Proof.
  intros Hm Hf. induction ls as [|l ls IH]; intros H; [reflexivity|].
  inversion H; subst. rewrite flat_cons. rewrite Hf by (auto using flat_tailish).
  cbn [map_last]. rewrite flat_cons, is_nil_flat, IH by assumption. reflexivity.
Qed.

Lemma resub_joinl m f : headed is_nl m ->
  (forall l r, noNL l -> tailish r ->
     resub m 0 (NL :: l ++ r) = NL :: f (is_nil r) l ++ resub m 0 r) ->
  forall l0 ls, Forall noNL (l0 :: ls) ->
  resub m 0 (joinl (l0 :: ls)) = joinl (l0 :: map_last f ls).
Proof.
  intros Hm Hf l0 ls H. inversion H; subst. cbn [joinl].
  rewrite (resub_pass_nl m Hm) by assumption. rewrite (resub_lines m f Hm Hf) by assumption. reflexivity.
Qed.

(* ---------- br'\n *xx' : re-indent a comment line ---------- *)
Definition reind (x : Z) (ind : list Z) (l : list Z) : list Z :=
  if starts2 x (lstrip l) then ind ++ lstrip l else l.

Lemma headed_nl_sp_xx x ind : headed is_nl (m_nl_sp_xx x ind).
Proof. intros c r H. unfold m_nl_sp_xx. unfold is_nl in H. rewrite H. reflexivity. Qed.

Lemma line_nl_sp_xx x ind l r : (x =? NL) = false -> noNL l -> tailish r ->
  resub (m_nl_sp_xx x ind) 0 (NL :: l ++ r) = NL :: reind x ind l ++ resub (m_nl_sp_xx x ind) 0 r.
Proof.
  intros Hx Hl Hr. cbn [resub]. unfold m_nl_sp_xx at 1. rewrite Z.eqb_refl.
  rewrite (span_sp_app l r Hr). unfold reind.
  pose proof (lstrip_spec l) as Hs. pose proof (lstrip_noNL l Hl) as Hn.
  assert (Hpass : resub (m_nl_sp_xx x ind) 0 (l ++ r) = l ++ resub (m_nl_sp_xx x ind) 0 r)
    by (apply resub_pass_nl; [apply headed_nl_sp_xx | exact Hl]).
  destruct (lstrip l) as [|a [|b l3]] eqn:E; cbn [app starts2].
  - (* blank line *) destruct Hr as [-> | [r' ->]].
    + rewrite Hpass. reflexivity.
    + destruct r' as [|b r'']; [rewrite Hpass; reflexivity|].
      replace (NL =? x) with false by (symmetry; rewrite Z.eqb_sym; exact Hx). cbn [andb].
      rewrite Hpass. reflexivity.
  - destruct Hr as [-> | [r' ->]]; cbn [app].
    + rewrite Hpass. reflexivity.
    + replace (NL =? x) with false by (symmetry; rewrite Z.eqb_sym; exact Hx). rewrite andb_false_r.
      rewrite Hpass. reflexivity.
  - destruct ((a =? x) && (b =? x)) eqn:Eab.
    + apply andb_true_iff in Eab. destruct Eab as [Ea Eb]. apply Z.eqb_eq in Ea, Eb. subst a b.
      assert (Hk : resub (m_nl_sp_xx x ind) (S (S (lsp l))) (l ++ r) = l3 ++ resub (m_nl_sp_xx x ind) 0 r).
      { rewrite Hs at 2. rewrite <- app_assoc.
        replace (S (S (lsp l))) with (lsp l + 2)%nat by lia.
        replace (repeat SP (lsp l) ++ (x :: x :: l3) ++ r) with ((repeat SP (lsp l) ++ [x; x]) ++ (l3 ++ r))
          by (rewrite <- !app_assoc; reflexivity).
        rewrite resub_skip by (rewrite app_length, repeat_length; reflexivity).
        apply resub_pass_nl; [apply headed_nl_sp_xx|].
        unfold noNL in *. inversion Hn; subst. inversion H2; subst. assumption. }
      cbn [app]. rewrite Hk. f_equal. rewrite <- !app_assoc. reflexivity.
    + rewrite Hpass. reflexivity.
Qed.

(* ---------- br'\n *\Z' : indent what follows the run ---------- *)
Definition indent_last (ind : list Z) (last : bool) (l : list Z) : list Z :=
  if last && forallb is_sp l then ind else l.

Lemma headed_nl_sp_end ind : headed is_nl (m_nl_sp_end ind).
Proof. intros c r H. unfold m_nl_sp_end. unfold is_nl in H. rewrite H. reflexivity. Qed.

Lemma line_nl_sp_end ind l r : noNL l -> tailish r ->
  resub (m_nl_sp_end ind) 0 (NL :: l ++ r) = NL :: indent_last ind (is_nil r) l ++ resub (m_nl_sp_end ind) 0 r.
Proof.
  intros Hl Hr. cbn [resub]. unfold m_nl_sp_end at 1. rewrite Z.eqb_refl.
  rewrite (span_sp_app l r Hr). unfold indent_last.
  assert (Hpass : resub (m_nl_sp_end ind) 0 (l ++ r) = l ++ resub (m_nl_sp_end ind) 0 r)
    by (apply resub_pass_nl; [apply headed_nl_sp_end | exact Hl]).
  destruct (lstrip l) as [|a l3] eqn:E; cbn [app].
  - destruct r as [|b r'].
    + cbn [is_nil andb]. rewrite (proj2 (all_sp_lstrip l) E).
      rewrite app_nil_r. pose proof (lstrip_len l) as HL. rewrite E in HL. cbn in HL.
      pose proof (resub_skip (m_nl_sp_end ind) l (lsp l) [] ltac:(lia)) as Hk. rewrite app_nil_r in Hk.
      rewrite Hk. reflexivity.
    + cbn [is_nil andb]. rewrite Hpass. reflexivity.
  - assert (forallb is_sp l = false) as ->.
    { destruct (forallb is_sp l) eqn:F; [|reflexivity]. apply all_sp_lstrip in F. congruence. }
    rewrite andb_false_r, Hpass. reflexivity.
Qed.

(* ---------- br' +\n' : strip the trailing blanks of every line that is followed by a line feed ---------- *)
Lemma m_sp1_nl_needs_nl s rep k : m_sp1_nl s = Some (rep, k) -> In NL s.
Proof.
  unfold m_sp1_nl. destruct s as [|c r]; [discriminate|]. destruct (c =? SP); [|discriminate].
  destruct (span_p is_sp r) as [n t] eqn:E. destruct t as [|d t']; [discriminate|].
  destruct (d =? NL) eqn:Ed; [|discriminate]. intros _. apply Z.eqb_eq in Ed. subst.
  destruct (span_p_spec _ _ _ _ E) as (H1 & _). right. rewrite H1. apply in_or_app. right. left. reflexivity.
Qed.

Lemma resub_sp1_nl_noNL l : noNL l -> resub m_sp1_nl 0 l = l.
Proof.
  induction l as [|c r IH]; intros H; [reflexivity|]. inversion H; subst. cbn [resub].
  destruct (m_sp1_nl (c :: r)) as [[rep k]|] eqn:E.
  - exfalso. apply m_sp1_nl_needs_nl in E. unfold noNL in H. rewrite Forall_forall in H.
    apply (H NL E). reflexivity.
  - f_equal. apply IH. assumption.
Qed.

Lemma rstrip_cons_nonsp c l : is_sp c = false -> rstrip (c :: l) = c :: rstrip l.
Proof. intros H. cbn [rstrip forallb]. rewrite H. reflexivity. Qed.

Lemma rstrip_cons_sp l : rstrip (SP :: l) = if forallb is_sp l then [] else SP :: rstrip l.
Proof. cbn [rstrip forallb]. reflexivity. Qed.

Lemma line_sp1_nl l r : noNL l ->
  resub m_sp1_nl 0 (l ++ NL :: r) = rstrip l ++ NL :: resub m_sp1_nl 0 r.
Proof.
  induction l as [|c l IH]; intros H.
  - cbn. reflexivity.
  - inversion H as [|? ? Hc Hl]; subst. cbn [app resub]. unfold m_sp1_nl at 1.
    destruct (c =? SP) eqn:Ec.
    + apply Z.eqb_eq in Ec. subst c.
      rewrite (span_sp_app l (NL :: r)) by (right; eexists; reflexivity).
      rewrite rstrip_cons_sp.
      destruct (lstrip l) as [|d l3] eqn:E; cbn [app].
      * rewrite Z.eqb_refl. rewrite (proj2 (all_sp_lstrip l) E). cbn [app]. f_equal.
        pose proof (lstrip_len l) as HL. rewrite E in HL. cbn in HL.
        change (l ++ NL :: r) with (l ++ [NL] ++ r). rewrite app_assoc.
        apply resub_skip. rewrite app_length. cbn. lia.
      * assert (Hd : d <> NL).
        { pose proof (lstrip_noNL l Hl) as Hn. rewrite E in Hn. inversion Hn; assumption. }
        apply Z.eqb_neq in Hd. rewrite Hd.
        assert (forallb is_sp l = false) as ->.
        { destruct (forallb is_sp l) eqn:F; [|reflexivity]. apply all_sp_lstrip in F. congruence. }
        cbn [app]. f_equal. apply IH. exact Hl.
    + rewrite rstrip_cons_nonsp by exact Ec. cbn [app]. f_equal. apply IH. exact Hl.
Qed.

Lemma joinl_cons2 l l' ls : joinl (l :: l' :: ls) = l ++ NL :: joinl (l' :: ls).
Proof. reflexivity. Qed.

Lemma sub_sp1_nl_lines : forall L, L <> [] -> Forall noNL L ->
  resub m_sp1_nl 0 (joinl L) = joinl (map_init rstrip L).
Proof.
  induction L as [|l L IH]; intros Hne H; [congruence|]. inversion H; subst.
  destruct L as [|l' ls].
  - cbn. rewrite app_nil_r. apply resub_sp1_nl_noNL. assumption.
  - rewrite joinl_cons2, line_sp1_nl by assumption. rewrite IH by (congruence || assumption).
    reflexivity.
Qed.

(* ---------- anchored patterns act on the first line ---------- *)
Definition head_xx (x : Z) (rep : list Z) (l : list Z) : list Z :=
  if starts2 x (lstrip l) then rep ++ skipn 2 (lstrip l) else l.

Lemma sub_head_sp_xx_lines x rep l0 ls : (x =? NL) = false ->
  sub_head_sp_xx x rep (joinl (l0 :: ls)) = joinl (head_xx x rep l0 :: ls).
Proof.
  intros Hx. cbn [joinl]. unfold sub_head_sp_xx, head_xx.
  rewrite (span_sp_app l0 (flat ls) (flat_tailish ls)).
  pose proof (lstrip_spec l0) as Hs.
  destruct (lstrip l0) as [|a [|b l3]] eqn:E; cbn [app starts2 skipn].
  - destruct ls as [|l1 ls]; [reflexivity|]. rewrite flat_cons.
    destruct (l1 ++ flat ls) as [|b t]; [reflexivity|].
    replace (NL =? x) with false by (symmetry; rewrite Z.eqb_sym; exact Hx). reflexivity.
  - destruct ls as [|l1 ls]; [reflexivity|]. rewrite flat_cons.
    replace (NL =? x) with false by (symmetry; rewrite Z.eqb_sym; exact Hx). rewrite andb_false_r. reflexivity.
  - destruct ((a =? x) && (b =? x)); [|reflexivity]. rewrite <- app_assoc. reflexivity.
Qed.

Definition head_dollar (L : list (list Z)) : list (list Z) :=
  match L with
  | [l0] => if forallb is_sp l0 then [[]] else L
  | [l0; []] => if forallb is_sp l0 then [[]; []] else L
  | _ => L
  end.

Lemma sub_head_sp_dollar_lines l0 ls : Forall noNL (l0 :: ls) ->
  sub_head_sp_dollar (joinl (l0 :: ls)) = joinl (head_dollar (l0 :: ls)).
Proof.
  intros H. inversion H as [|? ? H0 Hls]; subst. cbn [joinl]. unfold sub_head_sp_dollar.
  rewrite (span_sp_app l0 (flat ls) (flat_tailish ls)).
  pose proof (lstrip_noNL l0 H0) as Hn.
  destruct (forallb is_sp l0) eqn:F.
  - pose proof (proj1 (all_sp_lstrip l0) F) as E. rewrite E. cbn [app].
    destruct ls as [|l1 ls]; [cbn; rewrite F; reflexivity|].
    rewrite flat_cons. destruct l1 as [|c l1].
    + destruct ls as [|l2 ls]; cbn [app flat concat map head_dollar]; [rewrite Z.eqb_refl, F; reflexivity|].
      reflexivity.
    + cbn [app head_dollar]. reflexivity.
  - assert (E : lstrip l0 <> []) by (intros E; apply all_sp_lstrip in E; congruence).
    destruct (lstrip l0) as [|a l3] eqn:E2; [congruence|]. cbn [app].
    assert (Ha : (a =? NL) = false) by (apply Z.eqb_neq; inversion Hn; assumption).
    destruct l3 as [|b l3]; cbn [app].
    + destruct ls as [|l1 ls].
      * cbn [flat concat map]. rewrite Ha. cbn [head_dollar]. rewrite F. reflexivity.
      * rewrite flat_cons. cbn [head_dollar]. destruct l1; [destruct ls|]; try rewrite F; reflexivity.
    + cbn [head_dollar]. destruct ls as [|l1 ls]; [rewrite F; reflexivity|].
      destruct l1; [destruct ls|]; try rewrite F; reflexivity.
Qed.

(* ---------- br'\n\n+' -> b'\n\n' : squeeze runs of empty lines ----------
   Among the lines after the first: a run of empty lines followed by another line shrinks to one
   empty line; a run of two or more empty lines at the very end shrinks to two (the text then ends
   in exactly two line feeds). *)
Fixpoint sq (ls : list (list Z)) : list (list Z) :=
  match ls with
  | [] => []
  | l :: r =>
    if is_nil l then
      match r with
      | [] => [[]]
      | l' :: r' =>
        if is_nil l' then
          match r' with
          | [] => [[]; []]
          | _ => sq r
          end
        else [] :: sq r
      end
    else l :: sq r
  end.

Lemma headed_nl_nl1 rep : headed is_nl (m_nl_nl1 rep).
Proof. intros c r H. unfold m_nl_nl1. unfold is_nl in H. rewrite H. reflexivity. Qed.

Definition empties (e : nat) : list (list Z) := repeat [] e.

Lemma flat_empties e : flat (empties e) = repeat NL e.
Proof. induction e; cbn; [reflexivity|]. f_equal. exact IHe. Qed.

Lemma span_nl_repeat e t : span_p is_nl (repeat NL e ++ t) =
  let '(n, t') := span_p is_nl t in ((e + n)%nat, t').
Proof.
  induction e as [|e IH]; cbn [repeat app].
  - destruct (span_p is_nl t). reflexivity.
  - cbn [span_p]. unfold is_nl at 1. rewrite Z.eqb_refl. rewrite IH.
    destruct (span_p is_nl t). reflexivity.
Qed.

Lemma span_nl_line l r : noNL l -> l <> [] -> span_p is_nl (l ++ r) = (O, l ++ r).
Proof.
  intros H Hne. destruct l as [|c l]; [congruence|]. inversion H; subst. cbn.
  unfold is_nl. apply Z.eqb_neq in H2. rewrite H2. reflexivity.
Qed.

Lemma sq_drop_empty rest : rest <> [] -> sq ([] :: [] :: rest) = sq ([] :: rest).
Proof. intros H. destruct rest as [|x y]; [congruence|]. reflexivity. Qed.

Lemma sq_empties_then e l r : l <> [] -> sq ([] :: empties e ++ l :: r) = [] :: l :: sq r.
Proof.
  intros Hl. induction e as [|e IH]; cbn [empties repeat app].
  - destruct l; [congruence|]. reflexivity.
  - rewrite sq_drop_empty; [exact IH|]. destruct e; discriminate.
Qed.

Lemma sq_empties_end e : sq ([] :: empties (S e)) = [[]; []].
Proof.
  induction e as [|e IH]; [reflexivity|].
  change (empties (S (S e))) with ([] :: empties (S e)).
  rewrite sq_drop_empty; [exact IH | discriminate].
Qed.

Lemma resub_nl_nl1_empties_then e l r : noNL l -> l <> [] ->
  resub (m_nl_nl1 [NL; NL]) 0 (flat ([] :: empties e ++ l :: r)) =
  NL :: NL :: l ++ resub (m_nl_nl1 [NL; NL]) 0 (flat r).
Proof.
  intros Hl Hne. rewrite flat_cons, flat_app, flat_empties, flat_cons. cbn [app resub].
  unfold m_nl_nl1 at 1. rewrite Z.eqb_refl.
  change (repeat NL e ++ NL :: l ++ flat r) with (repeat NL e ++ [NL] ++ l ++ flat r).
  rewrite app_assoc. replace (repeat NL e ++ [NL]) with (repeat NL (S e)).
  2:{ clear. induction e; cbn; [reflexivity|]. f_equal. exact IHe. }
  rewrite span_nl_repeat, span_nl_line by assumption.
  replace (S e + 0)%nat with (S e) by lia. cbn [app]. f_equal. f_equal.
  rewrite resub_skip by (apply repeat_length).
  apply resub_pass_nl; [apply headed_nl_nl1 | exact Hl].
Qed.

Lemma resub_nl_nl1_empties_end e :
  resub (m_nl_nl1 [NL; NL]) 0 (flat ([] :: empties (S e))) = [NL; NL].
Proof.
  rewrite flat_cons, flat_empties. cbn [app resub]. unfold m_nl_nl1 at 1. rewrite Z.eqb_refl.
  rewrite <- (app_nil_r (repeat NL (S e))). rewrite span_nl_repeat. cbn [span_p].
  replace (S e + 0)%nat with (S e) by lia. cbn [app]. f_equal. f_equal.
  rewrite resub_skip by (apply repeat_length). reflexivity.
Qed.

Lemma empties_decomp (r : list (list Z)) :
  exists e rest, r = empties e ++ rest /\ (rest = [] \/ exists l r', rest = l :: r' /\ l <> []).
Proof.
  induction r as [|l r IH].
  - exists O, []. split; [reflexivity | left; reflexivity].
  - destruct l as [|c l].
    + destruct IH as (e & rest & -> & H). exists (S e), rest. split; [reflexivity | exact H].
    + exists O, ((c :: l) :: r). split; [reflexivity|]. right. exists (c :: l), r. split; [reflexivity | discriminate].
Qed.

Lemma sub_nl_nl1_flat : forall n ls, (length ls <= n)%nat -> Forall noNL ls ->
  resub (m_nl_nl1 [NL; NL]) 0 (flat ls) = flat (sq ls).
Proof.
  induction n as [|n IH]; intros ls Hn H.
  - destruct ls; [reflexivity | cbn in Hn; lia].
  - destruct ls as [|l r]; [reflexivity|]. inversion H as [|? ? Hl Hr]; subst. cbn in Hn.
    destruct l as [|c l].
    + destruct (empties_decomp r) as (e & rest & -> & [-> | (l' & r' & -> & Hne)]).
      * rewrite app_nil_r. destruct e as [|e]; [reflexivity|].
        rewrite resub_nl_nl1_empties_end, sq_empties_end. reflexivity.
      * apply Forall_app in Hr. destruct Hr as [_ Hr]. inversion Hr; subst.
        rewrite resub_nl_nl1_empties_then, sq_empties_then by assumption.
        rewrite IH; [reflexivity | | assumption].
        rewrite app_length in Hn. cbn in Hn. lia.
    + rewrite flat_cons. cbn [sq is_nil]. rewrite flat_cons.
      cbn [resub]. unfold m_nl_nl1 at 1. rewrite Z.eqb_refl.
      rewrite span_nl_line by (assumption || discriminate).
      f_equal. rewrite resub_pass_nl by (apply headed_nl_nl1 || assumption).
      f_equal. apply IH; [lia | assumption].
Qed.

Lemma sub_nl_nl1_lines l0 ls : Forall noNL (l0 :: ls) ->
  resub (m_nl_nl1 [NL; NL]) 0 (joinl (l0 :: ls)) = joinl (l0 :: sq ls).
Proof.
  intros H. inversion H; subst. cbn [joinl].
  rewrite resub_pass_nl by (apply headed_nl_nl1 || assumption).
  rewrite (sub_nl_nl1_flat (length ls)) by (lia || assumption). reflexivity.
Qed.

(* ---------- the end of the file:  br'[ \n]*\n[ \n]*\Z' -> b'\n'  then  br' +\Z' -> b'' ----------
   all trailing blanks and line feeds go; one line feed is written in their place if there was one *)
Fixpoint trail_nl (s : list Z) : list Z :=
  match s with
  | [] => []
  | c :: r => if forallb is_sp_nl s then (if existsb is_nl s then [NL] else []) else c :: trail_nl r
  end.

Fixpoint trail_a (s : list Z) : list Z :=
  match s with
  | [] => []
  | c :: r => if forallb is_sp_nl s && existsb is_nl s then [NL] else c :: trail_a r
  end.

Fixpoint trail_b (s : list Z) : list Z :=
  match s with
  | [] => []
  | c :: r => if forallb is_sp s then [] else c :: trail_b r
  end.

Lemma span_all p s : forallb p s = true -> span_p p s = (length s, []).
Proof.
  induction s as [|c r IH]; cbn; [reflexivity|]. rewrite andb_true_iff. intros [-> H].
  rewrite (IH H). reflexivity.
Qed.

Lemma span_not_all p s n t : span_p p s = (n, t) -> forallb p s = false -> t <> [].
Proof.
  intros E F ->. destruct (span_p_spec _ _ _ _ E) as (H1 & H2 & _). rewrite app_nil_r in H1.
  rewrite <- H1 in H2. congruence.
Qed.

Lemma sub_spnl_nl_end s : resub m_spnl_nl_end 0 s = trail_a s.
Proof.
  induction s as [|c r IH]; [reflexivity|]. cbn [resub]. unfold m_spnl_nl_end at 1.
  cbn [trail_a]. destruct (forallb is_sp_nl (c :: r)) eqn:F.
  - pose proof F as F'. cbn [forallb] in F'. apply andb_true_iff in F'. destruct F' as [Fc Fr].
    rewrite Fc. rewrite (span_all _ _ F). cbn [andb]. destruct (existsb is_nl (c :: r)).
    + cbn [length app].
      pose proof (resub_skip m_spnl_nl_end r (length r) [] eq_refl) as Hk. rewrite app_nil_r in Hk.
      rewrite Hk. reflexivity.
    + f_equal. exact IH.
  - cbn [andb]. destruct (is_sp_nl c) eqn:Fc.
    + destruct (span_p is_sp_nl (c :: r)) as [n t] eqn:E.
      pose proof (span_not_all _ _ _ _ E F) as Ht. destruct t; [congruence|]. f_equal. exact IH.
    + f_equal. exact IH.
Qed.

Lemma sub_sp1_end s : resub m_sp1_end 0 s = trail_b s.
Proof.
  induction s as [|c r IH]; [reflexivity|]. cbn [resub]. unfold m_sp1_end at 1.
  cbn [trail_b]. destruct (forallb is_sp (c :: r)) eqn:F.
  - pose proof F as F'. cbn [forallb] in F'. apply andb_true_iff in F'. destruct F' as [Fc Fr].
    unfold is_sp in Fc at 1. rewrite Fc. rewrite (span_all _ _ F). cbn [length app].
    pose proof (resub_skip m_sp1_end r (length r) [] eq_refl) as Hk. rewrite app_nil_r in Hk.
    rewrite Hk. reflexivity.
  - destruct (c =? SP) eqn:Fc.
    + destruct (span_p is_sp (c :: r)) as [n t] eqn:E.
      pose proof (span_not_all _ _ _ _ E F) as Ht. destruct t; [congruence|]. f_equal. exact IH.
    + f_equal. exact IH.
Qed.

Lemma all_sp_all_spnl s : forallb is_sp s = true -> forallb is_sp_nl s = true.
Proof. apply forallb_impl. unfold is_sp, is_sp_nl. intros x ->. reflexivity. Qed.

Lemma all_spnl_no_nl s : forallb is_sp_nl s = true -> existsb is_nl s = false -> forallb is_sp s = true.
Proof.
  induction s as [|c r IH]; [reflexivity|]. cbn [forallb existsb]. rewrite andb_true_iff, orb_false_iff.
  intros [Hc Hr] [Nc Nr]. rewrite (IH Hr Nr), andb_true_r. unfold is_sp_nl in Hc. unfold is_nl in Nc. unfold is_sp.
  rewrite Nc, orb_false_r in Hc. exact Hc.
Qed.

Lemma trail_a_all_spnl s : forallb is_sp_nl (trail_a s) = forallb is_sp_nl s.
Proof.
  induction s as [|c r IH]; [reflexivity|]. cbn [trail_a]. destruct (forallb is_sp_nl (c :: r)) eqn:F.
  - cbn [andb]. destruct (existsb is_nl (c :: r)); [reflexivity|]. cbn [forallb] in *. rewrite IH. exact F.
  - cbn [andb forallb] in *. rewrite IH. exact F.
Qed.

Lemma trail_a_no_nl s : existsb is_nl s = false -> trail_a s = s.
Proof.
  induction s as [|c r IH]; intros H; [reflexivity|]. cbn [trail_a]. rewrite H, andb_false_r. f_equal. apply IH.
  cbn [existsb] in H. apply orb_false_iff in H. apply H.
Qed.

Lemma sub_end_of_file s : resub m_sp1_end 0 (resub m_spnl_nl_end 0 s) = trail_nl s.
Proof.
  rewrite sub_spnl_nl_end, sub_sp1_end. induction s as [|c r IH]; [reflexivity|].
  cbn [trail_nl]. destruct (forallb is_sp_nl (c :: r)) eqn:F.
  - destruct (existsb is_nl (c :: r)) eqn:N.
    + cbn [trail_a]. rewrite F, N. reflexivity.
    + rewrite (trail_a_no_nl _ N). pose proof (all_spnl_no_nl _ F N) as A. cbn [trail_b]. rewrite A. reflexivity.
  - cbn [trail_a]. rewrite F. cbn [andb trail_b].
    assert (A : forallb is_sp (c :: trail_a r) = false).
    { destruct (forallb is_sp (c :: trail_a r)) eqn:A; [|reflexivity]. apply all_sp_all_spnl in A.
      cbn [forallb] in A, F. rewrite trail_a_all_spnl in A. congruence. }
    rewrite A. f_equal. exact IH.
Qed.

Lemma trail_nl_allspnl s : forallb is_sp_nl s = true ->
  trail_nl s = if existsb is_nl s then [NL] else [].
Proof.
  destruct s as [|c r]; [reflexivity|]. intros H. cbn [trail_nl]. rewrite H. reflexivity.
Qed.

Lemma trail_nl_core a c b : is_sp_nl c = false -> forallb is_sp_nl b = true ->
  trail_nl (a ++ c :: b) = a ++ c :: (if existsb is_nl b then [NL] else []).
Proof.
  intros Hc Hb. induction a as [|x a IH].
  - cbn [app trail_nl forallb]. rewrite Hc. cbn [andb]. f_equal. apply trail_nl_allspnl. exact Hb.
  - cbn [app trail_nl]. assert (F : forallb is_sp_nl (x :: a ++ c :: b) = false).
    { cbn [forallb]. rewrite forallb_app. cbn [forallb]. rewrite Hc. rewrite andb_false_l, !andb_false_r. reflexivity. }
    rewrite F. f_equal. exact IH.
Qed.

(* the text is all blanks and line feeds, or it has a last byte that is neither *)
Lemma spnl_decomp s : forallb is_sp_nl s = true \/
  exists a c b, s = a ++ c :: b /\ is_sp_nl c = false /\ forallb is_sp_nl b = true.
Proof.
  induction s as [|x r IH]; [left; reflexivity|].
  destruct IH as [Hr | (a & c & b & -> & Hc & Hb)].
  - destruct (is_sp_nl x) eqn:Hx.
    + left. cbn [forallb]. rewrite Hx, Hr. reflexivity.
    + right. exists [], x, r. auto.
  - right. exists (x :: a), c, b. auto.
Qed.

Lemma trail_nl_spec s :
  (forallb is_sp_nl s = true /\ trail_nl s = if existsb is_nl s then [NL] else []) \/
  (exists a c b, s = a ++ c :: b /\ is_sp_nl c = false /\ forallb is_sp_nl b = true /\
                 trail_nl s = a ++ c :: (if existsb is_nl b then [NL] else [])).
Proof.
  destruct (spnl_decomp s) as [H | (a & c & b & -> & Hc & Hb)].
  - left. split; [exact H | apply trail_nl_allspnl; exact H].
  - right. exists a, c, b. repeat split; try assumption. apply trail_nl_core; assumption.
Qed.

(* ====================================================================== the whole pipeline on lines *)
(* steps 1-4: tabs become spaces, every form of line end becomes "\n" *)
Definition canon_ws (r : list Z) : list Z :=
  resub (m_byte CR NL) 0 (resub (m_pair NL CR NL) 0 (resub (m_pair CR NL NL) 0 (resub (m_byte TAB SP) 0 r))).

Definition is_single_empty (t : list (list Z)) : bool :=
  match t with [[]] => true | _ => false end.

Definition dollar_head (h : list Z) (t : list (list Z)) : list Z :=
  if forallb is_sp h && (is_nil t || is_single_empty t) then [] else h.

Lemma head_dollar_cons h t : head_dollar (h :: t) = dollar_head h t :: t.
Proof.
  unfold dollar_head. destruct t as [|[|c l1] [|l2 t]]; cbn [head_dollar is_nil is_single_empty orb];
    try rewrite andb_false_r; try rewrite andb_true_r; try reflexivity;
    destruct (forallb is_sp h); reflexivity.
Qed.

Definition fmt_head (cfg : fcfg) (l0 : list Z) (ls : list (list Z)) : list Z :=
  let h := if is_nil ls then l0 else rstrip l0 in
  if f_at_start cfg
  then head_xx SLASH [SLASH; SLASH] (head_xx DASH [DASH; DASH] h)
  else head_xx DASH [SP; SP; DASH; DASH] h.

Definition fmt_tail (cfg : fcfg) (ls : list (list Z)) : list (list Z) :=
  let ind := indent_bytes cfg in
  map_last (indent_last ind) (map (reind SLASH ind) (map (reind DASH ind) (map_init rstrip ls))).

(* the lines of the formatted run, before the end-of-file rule *)
Definition fmt_lines (cfg : fcfg) (l0 : list Z) (ls : list (list Z)) : list (list Z) :=
  let h := fmt_head cfg l0 ls in
  let t := fmt_tail cfg ls in
  (if f_at_start cfg then dollar_head h t else h) :: sq t.

Lemma map_last_const g ls : map_last (fun _ => g) ls = map g ls.
Proof. induction ls as [|l r IH]; cbn; [reflexivity|]. f_equal. exact IH. Qed.

Lemma noNL_app a b : noNL a -> noNL b -> noNL (a ++ b).
Proof. intros; apply Forall_app; split; assumption. Qed.

Lemma noNL_rstrip l : noNL l -> noNL (rstrip l).
Proof.
  induction l as [|c r IH]; intros H; [constructor|]. inversion H; subst. cbn [rstrip].
  destruct (forallb is_sp (c :: r)); [constructor|]. constructor; [assumption | apply IH; assumption].
Qed.

Lemma noNL_repeat_sp n : noNL (repeat SP n).
Proof. induction n; cbn; constructor; [discriminate | assumption]. Qed.

Lemma noNL_reind x ind l : noNL ind -> noNL l -> noNL (reind x ind l).
Proof.
  intros Hi Hl. unfold reind. destruct (starts2 x (lstrip l)); [|exact Hl].
  apply noNL_app; [exact Hi | apply lstrip_noNL; exact Hl].
Qed.

Lemma noNL_skipn n l : noNL l -> noNL (skipn n l).
Proof. intros H. unfold noNL. apply Forall_forall. intros c Hc. unfold noNL in H. rewrite Forall_forall in H.
  apply H. rewrite <- (firstn_skipn n l). apply in_or_app. right. exact Hc. Qed.

Lemma noNL_head_xx x rep l : noNL rep -> noNL l -> noNL (head_xx x rep l).
Proof.
  intros Hr Hl. unfold head_xx. destruct (starts2 x (lstrip l)); [|exact Hl].
  apply noNL_app; [exact Hr | apply noNL_skipn, lstrip_noNL; exact Hl].
Qed.

Lemma noNL_indent_last ind b l : noNL ind -> noNL l -> noNL (indent_last ind b l).
Proof. intros Hi Hl. unfold indent_last. destruct (b && forallb is_sp l); assumption. Qed.

Lemma Forall_map_last (P : list Z -> Prop) f ls :
  (forall b l, P l -> P (f b l)) -> Forall P ls -> Forall P (map_last f ls).
Proof.
  intros Hf. induction ls as [|l r IH]; intros H; [constructor|]. inversion H; subst.
  cbn [map_last]. constructor; auto.
Qed.

Lemma Forall_map' (P : list Z -> Prop) g ls :
  (forall l, P l -> P (g l)) -> Forall P ls -> Forall P (map g ls).
Proof.
  intros Hg H. induction H; cbn; constructor; auto.
Qed.

Lemma noNL_map_init_rstrip ls : Forall noNL ls -> Forall noNL (map_init rstrip ls).
Proof.
  apply Forall_map_last. intros b l Hl. destruct b; [exact Hl | apply noNL_rstrip; exact Hl].
Qed.

Lemma noNL_lit2 a b : a <> NL -> b <> NL -> noNL [a; b].
Proof. intros; repeat constructor; assumption. Qed.

Lemma noNL_fmt_tail cfg ls : Forall noNL ls -> Forall noNL (fmt_tail cfg ls).
Proof.
  intros H. unfold fmt_tail, indent_bytes.
  apply Forall_map_last; [intros; apply noNL_indent_last; [apply noNL_repeat_sp | assumption]|].
  apply Forall_map'; [intros; apply noNL_reind; [apply noNL_repeat_sp | assumption]|].
  apply Forall_map'; [intros; apply noNL_reind; [apply noNL_repeat_sp | assumption]|].
  apply noNL_map_init_rstrip. exact H.
Qed.

Theorem fmt_run_lines cfg r l0 ls : split_nl (canon_ws r) = l0 :: ls ->
  fmt_run cfg r =
  (if f_at_end cfg then trail_nl (joinl (fmt_lines cfg l0 ls)) else joinl (fmt_lines cfg l0 ls)).
Proof.
  intros HS. rewrite fmt_run_eq. unfold fmt_run_unfolded. fold (canon_ws r).
  pose proof (split_nl_noNL (canon_ws r)) as HN. rewrite HS in HN.
  rewrite <- (joinl_split (canon_ws r)), HS.
  inversion HN as [|? ? H0 Hls]; subst.
  set (ind := indent_bytes cfg).
  assert (Hind : noNL ind) by apply noNL_repeat_sp.
  (* 5 *)
  rewrite sub_sp1_nl_lines by (discriminate || assumption).
  change (map_init rstrip (l0 :: ls)) with ((if is_nil ls then l0 else rstrip l0) :: map_init rstrip ls).
  set (h5 := if is_nil ls then l0 else rstrip l0).
  assert (Hh5 : noNL h5) by (unfold h5; destruct (is_nil ls); [assumption | apply noNL_rstrip; assumption]).
  pose proof (noNL_map_init_rstrip ls Hls) as Ht5.
  set (t5 := map_init rstrip ls) in *.
  (* 6 *)
  set (h6 := if f_at_start cfg then h5 else head_xx DASH [SP; SP; DASH; DASH] h5).
  assert (E6 : (if negb (f_at_start cfg) then sub_head_sp_xx DASH [SP; SP; DASH; DASH] (joinl (h5 :: t5)) else joinl (h5 :: t5))
               = joinl (h6 :: t5)).
  { unfold h6. destruct (f_at_start cfg); cbn [negb]; [reflexivity|]. apply sub_head_sp_xx_lines. reflexivity. }
  rewrite E6. clear E6.
  assert (Hh6 : noNL h6).
  { unfold h6. destruct (f_at_start cfg); [assumption|]. apply noNL_head_xx; [|assumption].
    repeat constructor; discriminate. }
  (* 7, 7b *)
  rewrite (resub_joinl _ (fun _ => reind DASH ind)) by
    (apply headed_nl_sp_xx || (intros; apply line_nl_sp_xx; (reflexivity || assumption)) || (constructor; assumption)).
  rewrite map_last_const.
  assert (Ht7 : Forall noNL (map (reind DASH ind) t5))
    by (apply Forall_map'; [intros; apply noNL_reind; assumption | assumption]).
  rewrite (resub_joinl _ (fun _ => reind SLASH ind)) by
    (apply headed_nl_sp_xx || (intros; apply line_nl_sp_xx; (reflexivity || assumption)) || (constructor; assumption)).
  rewrite map_last_const.
  assert (Ht7b : Forall noNL (map (reind SLASH ind) (map (reind DASH ind) t5)))
    by (apply Forall_map'; [intros; apply noNL_reind; assumption | assumption]).
  set (t7 := map (reind SLASH ind) (map (reind DASH ind) t5)) in *.
  (* 8, 8b *)
  set (h8 := if f_at_start cfg then head_xx SLASH [SLASH; SLASH] (head_xx DASH [DASH; DASH] h6) else h6).
  assert (E8 : (if f_at_start cfg
                then sub_head_sp_xx SLASH [SLASH; SLASH]
                       (if f_at_start cfg then sub_head_sp_xx DASH [DASH; DASH] (joinl (h6 :: t7)) else joinl (h6 :: t7))
                else (if f_at_start cfg then sub_head_sp_xx DASH [DASH; DASH] (joinl (h6 :: t7)) else joinl (h6 :: t7)))
               = joinl (h8 :: t7)).
  { unfold h8. destruct (f_at_start cfg); [|reflexivity].
    rewrite sub_head_sp_xx_lines by reflexivity. apply sub_head_sp_xx_lines. reflexivity. }
  rewrite E8. clear E8.
  assert (Hh8 : noNL h8).
  { unfold h8. destruct (f_at_start cfg); [|assumption].
    apply noNL_head_xx; [repeat constructor; discriminate|].
    apply noNL_head_xx; [repeat constructor; discriminate | assumption]. }
  (* 9 *)
  rewrite (resub_joinl _ (indent_last ind)) by
    (apply headed_nl_sp_end || (intros; apply line_nl_sp_end; assumption) || (constructor; assumption)).
  assert (Ht9 : Forall noNL (map_last (indent_last ind) t7))
    by (apply Forall_map_last; [intros; apply noNL_indent_last; assumption | assumption]).
  set (t9 := map_last (indent_last ind) t7) in *.
  (* 10 *)
  set (h10 := if f_at_start cfg then dollar_head h8 t9 else h8).
  assert (E10 : (if f_at_start cfg then sub_head_sp_dollar (joinl (h8 :: t9)) else joinl (h8 :: t9)) = joinl (h10 :: t9)).
  { unfold h10. destruct (f_at_start cfg); [|reflexivity].
    rewrite sub_head_sp_dollar_lines by (constructor; assumption). rewrite head_dollar_cons. reflexivity. }
  rewrite E10. clear E10.
  assert (Hh10 : noNL h10).
  { unfold h10, dollar_head. destruct (f_at_start cfg); [|assumption].
    destruct (forallb is_sp h8 && _); [constructor | assumption]. }
  (* 11 *)
  rewrite sub_nl_nl1_lines by (constructor; assumption).
  (* 12 *)
  rewrite sub_end_of_file.
  assert (EL : h10 :: sq t9 = fmt_lines cfg l0 ls).
  { unfold fmt_lines, fmt_head, fmt_tail. fold ind. fold t5. fold h5. unfold h10, h8, h6, t9, t7.
    destruct (f_at_start cfg); reflexivity. }
  rewrite EL. reflexivity.
Qed.

(* ====================================================================== reading texts as lines *)
Lemma split_nl_app_nl p s : split_nl (p ++ NL :: s) = split_nl p ++ split_nl s.
Proof.
  induction p as [|c p IH]; [reflexivity|]. cbn [app split_nl].
  destruct (c =? NL); [rewrite IH; reflexivity|].
  rewrite IH. destruct (split_nl p) as [|l t] eqn:E; [destruct (split_nl_nonempty _ E)|]. reflexivity.
Qed.

Lemma split_nl_noNL_line l : noNL l -> split_nl l = [l].
Proof.
  induction l as [|c l IH]; intros H; [reflexivity|]. inversion H; subst. cbn [split_nl].
  apply Z.eqb_neq in H2. rewrite H2, IH by assumption. reflexivity.
Qed.

Lemma split_joinl l0 ls : Forall noNL (l0 :: ls) -> split_nl (joinl (l0 :: ls)) = l0 :: ls.
Proof.
  revert l0. induction ls as [|l1 ls IH]; intros l0 H; inversion H; subst.
  - cbn [joinl flat concat map]. rewrite app_nil_r. apply split_nl_noNL_line. assumption.
  - rewrite joinl_cons2, split_nl_app_nl, IH by assumption.
    rewrite split_nl_noNL_line by assumption. reflexivity.
Qed.

(* ====================================================================== shape of the formatted lines *)
Lemma last_app' {A} (a b : list A) d : b <> [] -> last (a ++ b) d = last b d.
Proof.
  intros Hb. induction a as [|x a IH]; [reflexivity|]. cbn [app].
  destruct (a ++ b) eqn:E; [destruct a; [cbn in E; congruence | discriminate]|].
  cbn [last]. exact IH.
Qed.

Lemma sq_nonempty : forall n t, (length t <= n)%nat -> t <> [] -> sq t <> [].
Proof.
  induction n as [|n IH]; intros t Hn Hne; [destruct t; [congruence | cbn in Hn; lia]|].
  destruct t as [|l r]; [congruence|]. cbn in Hn. cbn [sq].
  destruct (is_nil l); [|discriminate].
  destruct r as [|l' r']; [discriminate|]. destruct (is_nil l'); [|discriminate].
  destruct r' as [|x r'']; [discriminate|]. apply IH; [cbn in *; lia | discriminate].
Qed.

Lemma last_sq (t : list (list Z)) d : t <> [] -> last (sq t) d = last t d.
Proof.
  assert (G : forall n t, (length t <= n)%nat -> t <> [] -> last (sq t) d = last t d).
  { induction n as [|n IH]; intros t0 Hn Hne; [destruct t0; [congruence | cbn in Hn; lia]|].
    destruct t0 as [|l r]; [congruence|]. cbn in Hn.
    destruct l as [|c l].
    - destruct (empties_decomp r) as (e & rest & -> & [-> | (l' & r' & -> & Hl')]).
      + rewrite app_nil_r. destruct e as [|e]; [reflexivity|].
        rewrite sq_empties_end. change ([] :: empties (S e)) with (empties (S (S e))).
        clear. induction e as [|e IH]; [reflexivity|]. exact IH.
      + rewrite sq_empties_then by assumption.
        change ([] :: empties e ++ l' :: r') with (([] :: empties e) ++ l' :: r').
        rewrite last_app' by discriminate.
        destruct r' as [|x r'].
        * destruct l'; [congruence|]. reflexivity.
        * change ([] :: l' :: sq (x :: r')) with ([[]; l'] ++ sq (x :: r')).
          rewrite last_app' by (apply (sq_nonempty (length (x :: r'))); [lia | discriminate]).
          change (l' :: x :: r') with ([l'] ++ x :: r'). rewrite last_app' by discriminate.
          apply IH; [|discriminate]. rewrite app_length in Hn. cbn in *. lia.
    - cbn [sq is_nil]. destruct r as [|x r]; [reflexivity|].
      change ((c :: l) :: sq (x :: r)) with ([c :: l] ++ sq (x :: r)).
      rewrite last_app' by (apply (sq_nonempty (length (x :: r))); [lia | discriminate]).
      change ((c :: l) :: x :: r) with ([c :: l] ++ x :: r). rewrite last_app' by discriminate.
      apply IH; [cbn in *; lia | discriminate]. }
  intros H. apply (G (length t)); [lia | exact H].
Qed.

(* the squeeze, read as a filter: an empty line is dropped when the next line is empty too and is
   not the last one *)
Fixpoint sq' (ls : list (list Z)) : list (list Z) :=
  match ls with
  | [] => []
  | l :: r =>
    match r with
    | l' :: (_ :: _) => if is_nil l && is_nil l' then sq' r else l :: sq' r
    | _ => l :: sq' r
    end
  end.

Lemma sq'_cons_nonempty l r : l <> [] -> sq' (l :: r) = l :: sq' r.
Proof. intros H. destruct l; [congruence|]. destruct r as [|l' [|x y]]; reflexivity. Qed.

Lemma sq'_drop_empty rest : rest <> [] -> sq' ([] :: [] :: rest) = sq' ([] :: rest).
Proof. intros H. destruct rest as [|x y]; [congruence|]. reflexivity. Qed.

Lemma sq'_empties_then e l r : l <> [] -> sq' ([] :: empties e ++ l :: r) = [] :: l :: sq' r.
Proof.
  intros Hl. induction e as [|e IH]; cbn [empties repeat app].
  - destruct l; [congruence|]. destruct r as [|x1 [|y1 z1]]; reflexivity.
  - rewrite sq'_drop_empty; [exact IH|]. destruct e; discriminate.
Qed.

Lemma sq'_empties_end e : sq' ([] :: empties (S e)) = [[]; []].
Proof.
  induction e as [|e IH]; [reflexivity|].
  change (empties (S (S e))) with ([] :: empties (S e)).
  rewrite sq'_drop_empty; [exact IH | discriminate].
Qed.

Lemma sq_eq t : sq t = sq' t.
Proof.
  assert (G : forall n t, (length t <= n)%nat -> sq t = sq' t).
  { induction n as [|n IH]; intros t0 Hn; [destruct t0; [reflexivity | cbn in Hn; lia]|].
    destruct t0 as [|l r]; [reflexivity|]. cbn in Hn. destruct l as [|c l].
    - destruct (empties_decomp r) as (e & rest & -> & [-> | (l' & r' & -> & Hl')]).
      + rewrite app_nil_r. destruct e as [|e]; [reflexivity|].
        rewrite sq_empties_end, sq'_empties_end. reflexivity.
      + rewrite sq_empties_then, sq'_empties_then by assumption. rewrite IH; [reflexivity|].
        rewrite app_length in Hn. cbn in *. lia.
    - rewrite sq'_cons_nonempty by discriminate. cbn [sq is_nil]. rewrite IH by lia. reflexivity. }
  apply (G (length t)). lia.
Qed.

Lemma sq'_In x t : In x (sq' t) -> In x t.
Proof.
  induction t as [|l r IH]; [auto|]. cbn [sq'].
  destruct r as [|l' [|y1 z1]].
  - auto.
  - intros [H | H]; [left; exact H | right; apply IH; exact H].
  - destruct (is_nil l && is_nil l'); intros H.
    + right. apply IH. exact H.
    + destruct H as [H | H]; [left; exact H | right; apply IH; exact H].
Qed.

Lemma Forall_sq (P : list Z -> Prop) t : Forall P t -> Forall P (sq t).
Proof.
  rewrite sq_eq, !Forall_forall. intros H x Hx. apply H, sq'_In, Hx.
Qed.

(* all lines but the last *)
Lemma sq'_nonempty t : t <> [] -> sq' t <> [].
Proof.
  induction t as [|l r IH]; [congruence|]. intros _. cbn [sq'].
  destruct r as [|l' [|y1 z1]]; try discriminate.
  destruct (is_nil l && is_nil l'); [apply IH; discriminate | discriminate].
Qed.

Lemma removelast_cons {A} (x : A) l : l <> [] -> removelast (x :: l) = x :: removelast l.
Proof. destruct l; [congruence | reflexivity]. Qed.

Lemma sq'_init_In x t : In x (removelast (sq' t)) -> In x (removelast t).
Proof.
  induction t as [|l r IH]; [auto|]. cbn [sq'].
  destruct r as [|l' [|y1 z1]].
  - auto.
  - cbn. auto.
  - assert (Hne : l' :: y1 :: z1 <> []) by discriminate.
    rewrite (removelast_cons l) by exact Hne.
    destruct (is_nil l && is_nil l'); intros H.
    + right. apply IH. exact H.
    + rewrite removelast_cons in H by (apply sq'_nonempty; exact Hne).
      destruct H as [H | H]; [left; exact H | right; apply IH; exact H].
Qed.

(* ---------- noNL of the formatted lines ---------- *)
Lemma noNL_fmt_lines cfg l0 ls : Forall noNL (l0 :: ls) -> Forall noNL (fmt_lines cfg l0 ls).
Proof.
  intros H. inversion H; subst. unfold fmt_lines. constructor.
  - assert (Hh : noNL (fmt_head cfg l0 ls)).
    { unfold fmt_head.
      assert (noNL (if is_nil ls then l0 else rstrip l0))
        by (destruct (is_nil ls); [assumption | apply noNL_rstrip; assumption]).
      destruct (f_at_start cfg); repeat (apply noNL_head_xx; [repeat constructor; discriminate|]); assumption. }
    destruct (f_at_start cfg); [|exact Hh]. unfold dollar_head.
    destruct (forallb is_sp (fmt_head cfg l0 ls) && _); [constructor | exact Hh].
  - apply Forall_sq, noNL_fmt_tail. assumption.
Qed.

Lemma map_last_nonempty f t : t <> [] -> map_last f t <> [].
Proof. destruct t; [congruence | discriminate]. Qed.

Lemma last_cons {A} (a : A) b d : b <> [] -> last (a :: b) d = last b d.
Proof. destruct b; [congruence | reflexivity]. Qed.

Lemma last_map_last f t d : t <> [] -> last (map_last f t) d = f true (last t d).
Proof.
  induction t as [|l r IH]; [congruence|]. intros _. destruct r as [|l' r']; [reflexivity|].
  change (map_last f (l :: l' :: r')) with (f false l :: map_last f (l' :: r')).
  rewrite last_cons by (apply map_last_nonempty; discriminate).
  rewrite IH by discriminate. reflexivity.
Qed.

(* ====================================================================== G: the token after the run is indented *)
Theorem fmt_run_indent cfg r p q : f_at_end cfg = false ->
  fmt_run cfg r = p ++ NL :: q -> noNL q -> forallb is_sp q = true -> q = indent_bytes cfg.
Proof.
  intros He Ho Hq Hsp.
  destruct (split_nl (canon_ws r)) as [|l0 ls] eqn:HS; [destruct (split_nl_nonempty _ HS)|].
  rewrite (fmt_run_lines cfg r l0 ls HS), He in Ho.
  pose proof (split_nl_noNL (canon_ws r)) as HN. rewrite HS in HN.
  pose proof (noNL_fmt_lines cfg l0 ls HN) as HM.
  apply (f_equal split_nl) in Ho.
  unfold fmt_lines in Ho, HM. rewrite split_joinl in Ho by exact HM.
  rewrite split_nl_app_nl, (split_nl_noNL_line q Hq) in Ho.
  destruct (split_nl p) as [|p0 pt] eqn:EP; [destruct (split_nl_nonempty _ EP)|].
  cbn [app] in Ho. injection Ho as _ Ho.
  assert (Hl : last (sq (fmt_tail cfg ls)) [] = q) by (rewrite Ho; apply last_last).
  assert (Hne : fmt_tail cfg ls <> []).
  { intros E. rewrite E in Ho. cbn in Ho. destruct pt; discriminate. }
  rewrite last_sq in Hl by exact Hne. unfold fmt_tail in Hl, Hne.
  rewrite last_map_last in Hl.
  2:{ intros E. apply Hne. rewrite E. reflexivity. }
  unfold indent_last in Hl. cbn [andb] in Hl.
  destruct (forallb is_sp (last _ _)) eqn:F; [congruence|]. rewrite Hl in F. congruence.
Qed.

(* ====================================================================== B: no line of the run ends in a blank *)
Fixpoint has_sp_nl (s : list Z) : bool :=
  match s with
  | a :: ((b :: _) as r) => ((a =? SP) && (b =? NL)) || has_sp_nl r
  | _ => false
  end.

Fixpoint ends_sp (l : list Z) : bool :=
  match l with
  | [] => false
  | c :: r => match r with [] => c =? SP | _ => ends_sp r end
  end.

Lemma has_sp_nl_noNL l : noNL l -> has_sp_nl l = false.
Proof.
  induction l as [|c l IH]; intros H; [reflexivity|]. inversion H; subst.
  destruct l as [|d l]; [reflexivity|]. cbn [has_sp_nl]. inversion H3; subst.
  apply Z.eqb_neq in H4. rewrite H4, andb_false_r. cbn [orb]. apply IH. assumption.
Qed.

Lemma has_sp_nl_line l s : noNL l -> has_sp_nl (l ++ NL :: s) = ends_sp l || has_sp_nl s.
Proof.
  induction l as [|c l IH]; intros H.
  - cbn [app ends_sp orb]. destruct s as [|b s]; [reflexivity|]. cbn [has_sp_nl]. reflexivity.
  - inversion H; subst. destruct l as [|d l].
    + cbn [app has_sp_nl ends_sp]. rewrite Z.eqb_refl, andb_true_r.
      destruct s as [|b s]; [cbn; rewrite orb_false_r; reflexivity|]. cbn [has_sp_nl]. reflexivity.
    + cbn [app has_sp_nl ends_sp]. inversion H3; subst. apply Z.eqb_neq in H4.
      rewrite H4, andb_false_r. cbn [orb]. apply IH. assumption.
Qed.

Lemma has_sp_nl_joinl : forall L, Forall noNL L ->
  has_sp_nl (joinl L) = existsb ends_sp (removelast L).
Proof.
  induction L as [|l L IH]; intros H; [reflexivity|]. inversion H; subst.
  destruct L as [|l' ls].
  - cbn. rewrite app_nil_r. apply has_sp_nl_noNL. assumption.
  - rewrite joinl_cons2, has_sp_nl_line by assumption. rewrite IH by assumption.
    rewrite (removelast_cons l) by discriminate. reflexivity.
Qed.

Lemma ends_sp_app a b : b <> [] -> ends_sp (a ++ b) = ends_sp b.
Proof.
  intros Hb. induction a as [|c a IH]; [reflexivity|]. cbn [app ends_sp].
  destruct (a ++ b) eqn:E; [destruct a; [cbn in E; congruence | discriminate]|]. exact IH.
Qed.

Lemma rstrip_nil l : rstrip l = [] -> forallb is_sp l = true.
Proof.
  destruct l as [|c l]; [reflexivity|]. cbn [rstrip].
  destruct (forallb is_sp (c :: l)); [reflexivity | discriminate].
Qed.

Lemma ends_sp_rstrip l : ends_sp (rstrip l) = false.
Proof.
  induction l as [|c l IH]; [reflexivity|]. cbn [rstrip].
  destruct (forallb is_sp (c :: l)) eqn:F; [reflexivity|]. cbn [ends_sp].
  destruct (rstrip l) eqn:E; [|exact IH].
  apply rstrip_nil in E. cbn [forallb] in F. rewrite E, andb_true_r in F. exact F.
Qed.

Lemma ends_sp_lstrip l : ends_sp l = false -> ends_sp (lstrip l) = false.
Proof.
  intros H. destruct (lstrip l) eqn:E; [reflexivity|]. rewrite <- E.
  rewrite (lstrip_spec l) in H. rewrite ends_sp_app in H by (rewrite E; discriminate). exact H.
Qed.

Lemma starts2_nonempty x l : starts2 x l = true -> l <> [].
Proof. destruct l; [discriminate | discriminate]. Qed.

Lemma ends_sp_reind x ind l : ends_sp l = false -> ends_sp (reind x ind l) = false.
Proof.
  intros H. unfold reind. destruct (starts2 x (lstrip l)) eqn:S; [|exact H].
  rewrite ends_sp_app by (apply (starts2_nonempty x); exact S). apply ends_sp_lstrip. exact H.
Qed.

Lemma ends_sp_head_xx x rep l : (x =? SP) = false -> ends_sp l = false ->
  ends_sp (head_xx x (rep ++ [x; x]) l) = false.
Proof.
  intros Hx H. unfold head_xx. destruct (starts2 x (lstrip l)) eqn:S; [|exact H].
  pose proof (ends_sp_lstrip l H) as HL.
  destruct (lstrip l) as [|a [|b t]]; try discriminate. cbn [skipn].
  destruct t as [|c t].
  - rewrite app_nil_r, ends_sp_app by discriminate. cbn. exact Hx.
  - rewrite ends_sp_app by discriminate. exact HL.
Qed.

Lemma removelast_map {A B} (g : A -> B) l : removelast (map g l) = map g (removelast l).
Proof.
  induction l as [|a l IH]; [reflexivity|]. destruct l as [|b l]; [reflexivity|].
  change (map g (a :: b :: l)) with (g a :: map g (b :: l)).
  rewrite (removelast_cons (g a)) by (cbn; discriminate).
  rewrite (removelast_cons a) by discriminate. cbn [map]. f_equal. exact IH.
Qed.

Lemma removelast_map_last f t : removelast (map_last f t) = map (f false) (removelast t).
Proof.
  induction t as [|a l IH]; [reflexivity|]. destruct l as [|b l]; [reflexivity|].
  change (map_last f (a :: b :: l)) with (f false a :: map_last f (b :: l)).
  rewrite (removelast_cons (f false a)) by (apply map_last_nonempty; discriminate).
  rewrite (removelast_cons a) by discriminate. cbn [map]. f_equal. exact IH.
Qed.

Lemma fmt_tail_init cfg ls x : In x (removelast (fmt_tail cfg ls)) ->
  exists y, In y (removelast ls) /\
            x = reind SLASH (indent_bytes cfg) (reind DASH (indent_bytes cfg) (rstrip y)).
Proof.
  unfold fmt_tail, map_init. rewrite removelast_map_last, map_map.
  rewrite !removelast_map, removelast_map_last, !map_map. rewrite in_map_iff.
  intros (y & <- & Hy). exists y. split; [exact Hy|]. unfold indent_last. reflexivity.
Qed.

Lemma fmt_lines_init_ends cfg l0 ls x :
  In x (removelast (fmt_lines cfg l0 ls)) -> ends_sp x = false.
Proof.
  unfold fmt_lines. set (t := fmt_tail cfg ls). intros H.
  destruct (sq t) as [|s1 st] eqn:ES; [destruct H|].
  rewrite removelast_cons in H by discriminate. destruct H as [H | H].
  - (* the first line: it is followed by a line feed, so ls is not empty *)
    assert (Hls : is_nil ls = false).
    { destruct ls; [|reflexivity]. subst t. cbn in ES. discriminate. }
    assert (Hh : ends_sp (fmt_head cfg l0 ls) = false).
    { unfold fmt_head. rewrite Hls. destruct (f_at_start cfg).
      - apply (ends_sp_head_xx SLASH []); [reflexivity|].
        apply (ends_sp_head_xx DASH []); [reflexivity|]. apply ends_sp_rstrip.
      - apply (ends_sp_head_xx DASH [SP; SP]); [reflexivity|]. apply ends_sp_rstrip. }
    subst x. destruct (f_at_start cfg); [|exact Hh]. unfold dollar_head.
    destruct (forallb is_sp _ && _); [reflexivity | exact Hh].
  - rewrite <- ES, sq_eq in H. apply sq'_init_In in H. subst t.
    apply fmt_tail_init in H. destruct H as (y & _ & ->).
    apply ends_sp_reind, ends_sp_reind, ends_sp_rstrip.
Qed.

Lemma existsb_false {A} (p : A -> bool) l : (forall x, In x l -> p x = false) -> existsb p l = false.
Proof.
  intros H. induction l as [|a l IH]; [reflexivity|]. cbn. rewrite H by (left; reflexivity).
  apply IH. intros x Hx. apply H. right. exact Hx.
Qed.

Definition starts_nl (t : list Z) : bool := match t with c :: _ => c =? NL | [] => false end.

Lemma has_sp_nl_app a b :
  has_sp_nl (a ++ b) = has_sp_nl a || has_sp_nl b || (ends_sp a && starts_nl b).
Proof.
  induction a as [|c a IH].
  - cbn. rewrite orb_false_r. reflexivity.
  - destruct a as [|d a'].
    + cbn [app has_sp_nl ends_sp]. destruct b as [|e b']; cbn [starts_nl has_sp_nl].
      * rewrite andb_false_r. reflexivity.
      * destruct ((c =? SP) && (e =? NL)); cbn; [rewrite orb_true_r|rewrite orb_false_r]; reflexivity.
    + change ((c :: d :: a') ++ b) with (c :: (d :: a') ++ b).
      change (has_sp_nl (c :: (d :: a') ++ b)) with (((c =? SP) && (d =? NL)) || has_sp_nl ((d :: a') ++ b)).
      rewrite IH. change (has_sp_nl (c :: d :: a')) with (((c =? SP) && (d =? NL)) || has_sp_nl (d :: a')).
      change (ends_sp (c :: d :: a')) with (ends_sp (d :: a')).
      rewrite !orb_assoc. reflexivity.
Qed.

Lemma has_sp_nl_prefix a b : has_sp_nl (a ++ b) = false -> has_sp_nl a = false.
Proof. rewrite has_sp_nl_app, !orb_false_iff. intros [[H _] _]. exact H. Qed.

Lemma has_sp_nl_trail_nl s : has_sp_nl s = false -> has_sp_nl (trail_nl s) = false.
Proof.
  intros H. destruct (trail_nl_spec s) as [[_ ->] | (a & c & b & -> & Hc & _ & ->)].
  - destruct (existsb is_nl s); reflexivity.
  - assert (Hp : has_sp_nl (a ++ [c]) = false).
    { apply (has_sp_nl_prefix _ b). rewrite <- app_assoc. exact H. }
    destruct (existsb is_nl b); [|exact Hp].
    change (a ++ [c; NL]) with (a ++ [c] ++ [NL]). rewrite app_assoc, has_sp_nl_app, Hp.
    rewrite ends_sp_app by discriminate. cbn. unfold is_sp_nl in Hc. apply orb_false_iff in Hc. destruct Hc as [-> _]. reflexivity.
Qed.

Theorem fmt_run_no_trailing_blank cfg r : has_sp_nl (fmt_run cfg r) = false.
Proof.
  destruct (split_nl (canon_ws r)) as [|l0 ls] eqn:HS; [destruct (split_nl_nonempty _ HS)|].
  rewrite (fmt_run_lines cfg r l0 ls HS).
  pose proof (split_nl_noNL (canon_ws r)) as HN. rewrite HS in HN.
  pose proof (noNL_fmt_lines cfg l0 ls HN) as HM.
  assert (E : has_sp_nl (joinl (fmt_lines cfg l0 ls)) = false).
  { rewrite has_sp_nl_joinl by exact HM. apply existsb_false. apply fmt_lines_init_ends. }
  destruct (f_at_end cfg); [apply has_sp_nl_trail_nl|]; exact E.
Qed.

(* ====================================================================== C: at most one blank line in a row *)
Fixpoint has3nl (s : list Z) : bool :=
  match s with
  | a :: ((b :: c :: _) as r) => ((a =? NL) && (b =? NL) && (c =? NL)) || has3nl r
  | _ => false
  end.

(* two empty lines in a row that are followed by a further line *)
Fixpoint dbl (t : list (list Z)) : bool :=
  match t with
  | [] => false
  | l :: r => match r with
              | l' :: (_ :: _) => (is_nil l && is_nil l') || dbl r
              | _ => false
              end
  end.

Lemma has3nl_nonNL c s : c <> NL -> has3nl (c :: s) = has3nl s.
Proof.
  intros H. apply Z.eqb_neq in H. destruct s as [|b [|d t]]; try reflexivity.
  cbn [has3nl]. rewrite H. reflexivity.
Qed.

Lemma has3nl_pass l s : noNL l -> has3nl (l ++ s) = has3nl s.
Proof.
  induction l as [|c l IH]; intros H; [reflexivity|]. inversion H; subst.
  cbn [app]. rewrite has3nl_nonNL by assumption. apply IH. assumption.
Qed.

Lemma has3nl_nl_line c l s : c <> NL -> has3nl (NL :: (c :: l) ++ s) = has3nl ((c :: l) ++ s).
Proof.
  intros H. cbn [app]. apply Z.eqb_neq in H. destruct (l ++ s) as [|d t].
  - reflexivity.
  - cbn [has3nl]. rewrite H, andb_false_r. reflexivity.
Qed.

Lemma has3nl_flat t : Forall noNL t -> has3nl (flat t) = dbl t.
Proof.
  induction t as [|l r IH]; intros H; [reflexivity|]. inversion H as [|? ? Hl Hr]; subst.
  specialize (IH Hr). rewrite flat_cons. destruct l as [|c l].
  - cbn [app is_nil andb]. destruct r as [|l' r'].
    + reflexivity.
    + rewrite flat_cons in *. inversion Hr as [|? ? Hl' Hr']; subst. destruct l' as [|c' l'].
      * cbn [app is_nil] in *. destruct r' as [|y1 z1].
        -- reflexivity.
        -- rewrite flat_cons in *. cbn [dbl is_nil andb orb]. cbn [has3nl]. rewrite Z.eqb_refl. reflexivity.
      * inversion Hl'; subst.
        assert (E : has3nl (NL :: NL :: (c' :: l') ++ flat r') = has3nl (NL :: (c' :: l') ++ flat r')).
        { cbn [app has3nl]. apply Z.eqb_neq in H2. rewrite H2, andb_false_r. reflexivity. }
        rewrite E, IH. destruct r' as [|y1 z1]; reflexivity.
  - inversion Hl; subst. rewrite has3nl_nl_line by assumption.
    rewrite has3nl_pass by assumption. rewrite IH.
    destruct r as [|l' [|y1 z1]]; reflexivity.
Qed.

Lemma dbl_sq' t : dbl (sq' t) = false.
Proof.
  induction t as [|l r IH]; [reflexivity|]. cbn [sq'].
  destruct r as [|l' [|y1 z1]].
  - reflexivity.
  - reflexivity.
  - destruct (is_nil l && is_nil l') eqn:E; [exact IH|].
    assert (Hs : exists s1 st, sq' (l' :: y1 :: z1) = s1 :: st /\ (is_nil l' = false -> s1 = l')).
    { destruct l' as [|c' l'].
      - destruct (sq' ([] :: y1 :: z1)) as [|s1 st] eqn:ES;
          [exfalso; apply (sq'_nonempty ([] :: y1 :: z1)); [discriminate | exact ES]|].
        exists s1, st. split; [reflexivity | discriminate].
      - rewrite sq'_cons_nonempty by discriminate. eexists _, _. split; [reflexivity | reflexivity]. }
    destruct Hs as (s1 & st & ES & Hs1). rewrite ES in *.
    destruct st as [|s2 st']; [reflexivity|].
    change (dbl (l :: s1 :: s2 :: st')) with ((is_nil l && is_nil s1) || dbl (s1 :: s2 :: st')).
    rewrite IH, orb_false_r.
    destruct (is_nil l) eqn:El; [|reflexivity]. cbn [andb] in E. rewrite (Hs1 E). cbn [andb]. exact E.
Qed.

Lemma has3nl_prefix a b : has3nl (a ++ b) = false -> has3nl a = false.
Proof.
  induction a as [|x a IH]; [reflexivity|]. destruct a as [|y1 [|z1 a']]; try reflexivity.
  cbn [app has3nl]. intros H. apply orb_false_iff in H. destruct H as [H1 H2]. rewrite H1. cbn [orb].
  apply IH. exact H2.
Qed.

Lemma has3nl_snoc_nl a c : c <> NL -> has3nl (a ++ [c; NL]) = has3nl (a ++ [c]).
Proof.
  intros Hc. apply Z.eqb_neq in Hc. induction a as [|x a IH].
  - reflexivity.
  - destruct a as [|y1 a'].
    + cbn [app has3nl]. rewrite Hc, andb_false_r. reflexivity.
    + destruct a' as [|z1 a''].
      * cbn [app] in *. cbn [has3nl]. rewrite Hc, !andb_false_r. reflexivity.
      * cbn [app] in *. cbn [has3nl]. cbn [has3nl] in IH. rewrite IH. reflexivity.
Qed.

Lemma has3nl_trail_nl s : has3nl s = false -> has3nl (trail_nl s) = false.
Proof.
  intros H. destruct (trail_nl_spec s) as [[_ ->] | (a & c & b & -> & Hc & _ & ->)].
  - destruct (existsb is_nl s); reflexivity.
  - assert (Hc' : c <> NL).
    { intros ->. unfold is_sp_nl in Hc. rewrite Z.eqb_refl, orb_true_r in Hc. discriminate. }
    assert (Hp : has3nl (a ++ [c]) = false).
    { apply (has3nl_prefix _ b). rewrite <- app_assoc. exact H. }
    destruct (existsb is_nl b); [|exact Hp]. rewrite has3nl_snoc_nl by exact Hc'. exact Hp.
Qed.

Theorem fmt_run_blank_lines cfg r : has3nl (fmt_run cfg r) = false.
Proof.
  destruct (split_nl (canon_ws r)) as [|l0 ls] eqn:HS; [destruct (split_nl_nonempty _ HS)|].
  rewrite (fmt_run_lines cfg r l0 ls HS).
  pose proof (split_nl_noNL (canon_ws r)) as HN. rewrite HS in HN.
  pose proof (noNL_fmt_lines cfg l0 ls HN) as HM.
  assert (E : has3nl (joinl (fmt_lines cfg l0 ls)) = false).
  { unfold fmt_lines in *. inversion HM; subst. cbn [joinl]. rewrite has3nl_pass by assumption.
    rewrite has3nl_flat by assumption. rewrite sq_eq. apply dbl_sq'. }
  destruct (f_at_end cfg); [apply has3nl_trail_nl|]; exact E.
Qed.

(* ====================================================================== D: the end of the file *)
Theorem fmt_run_end cfg r : f_at_end cfg = true ->
  fmt_run cfg r = [] \/ fmt_run cfg r = [NL] \/
  exists a c, is_sp_nl c = false /\ (fmt_run cfg r = a ++ [c] \/ fmt_run cfg r = a ++ [c; NL]).
Proof.
  intros He.
  destruct (split_nl (canon_ws r)) as [|l0 ls] eqn:HS; [destruct (split_nl_nonempty _ HS)|].
  rewrite (fmt_run_lines cfg r l0 ls HS), He.
  destruct (trail_nl_spec (joinl (fmt_lines cfg l0 ls))) as [[_ ->] | (a & c & b & _ & Hc & _ & ->)].
  - destruct (existsb is_nl _); auto.
  - right. right. exists a, c. split; [exact Hc|]. destruct (existsb is_nl b); auto.
Qed.

(* ====================================================================== E: only the text modulo line-edge blanks matters *)
Definition is_cmt (l : list Z) : bool := starts2 DASH l || starts2 SLASH l.

(* leading edge of a line: its blanks are layout when the line is blank or a comment line *)
Definition lnorm (l : list Z) : list Z :=
  let s := lstrip l in if is_nil s || is_cmt s then s else l.

(* The lines of a run with the edge blanks removed: trailing blanks of every line that is followed by
   a line feed; leading blanks of every line after the first (and of the first one at the start of
   the file) when the line is blank or begins with a comment.  Leading blanks of other lines are
   kept: such a line continues a multi-line comment, its text is token content. *)
Definition edge_strip (at_start : bool) (L : list (list Z)) : list (list Z) :=
  match L with
  | [] => []
  | l0 :: ls =>
    (let h := if is_nil ls then l0 else rstrip l0 in if at_start then lnorm h else h)
    :: map_last (fun last l => lnorm (if last then l else rstrip l)) ls
  end.

Definition strip_line_edges (at_start : bool) (s : list Z) : list Z :=
  joinl (edge_strip at_start (split_nl s)).

(* one line of the tail, all substitutions at once *)
(* the two comment rules after one another *)
Definition reind2 (ind l : list Z) : list Z := reind SLASH ind (reind DASH ind l).

Definition tail_line (ind : list Z) (last : bool) (l : list Z) : list Z :=
  indent_last ind last (reind2 ind (if last then l else rstrip l)).

Lemma map_map_last g f ls : map g (map_last f ls) = map_last (fun b l => g (f b l)) ls.
Proof. induction ls as [|l r IH]; [reflexivity|]. cbn [map_last map]. f_equal. exact IH. Qed.

Lemma is_nil_map_last f ls : is_nil (map_last f ls) = is_nil ls.
Proof. destruct ls; reflexivity. Qed.

Lemma map_last_map_last f g ls :
  map_last f (map_last g ls) = map_last (fun b l => f b (g b l)) ls.
Proof.
  induction ls as [|l r IH]; [reflexivity|]. cbn [map_last]. rewrite is_nil_map_last. f_equal. exact IH.
Qed.

Lemma map_last_ext f g ls : (forall b l, f b l = g b l) -> map_last f ls = map_last g ls.
Proof. intros H. induction ls as [|l r IH]; [reflexivity|]. cbn [map_last]. rewrite H, IH. reflexivity. Qed.

Lemma fmt_tail_lines cfg ls : fmt_tail cfg ls = map_last (tail_line (indent_bytes cfg)) ls.
Proof.
  unfold fmt_tail, map_init. rewrite !map_map_last, map_last_map_last. apply map_last_ext.
  intros b l. unfold tail_line. destruct b; reflexivity.
Qed.

Lemma rstrip_fixed l : ends_sp l = false -> rstrip l = l.
Proof.
  induction l as [|c l IH]; intros H; [reflexivity|]. cbn [rstrip].
  destruct (forallb is_sp (c :: l)) eqn:F.
  - exfalso. clear IH. revert c H F. induction l as [|d l IHl]; intros c H F.
    + cbn in *. rewrite andb_true_r in F. unfold is_sp in F. congruence.
    + cbn [forallb] in F. apply andb_true_iff in F. destruct F as [_ F]. apply (IHl d); [exact H | exact F].
  - f_equal. apply IH. destruct l; [reflexivity | exact H].
Qed.

Lemma rstrip_idem l : rstrip (rstrip l) = rstrip l.
Proof. apply rstrip_fixed, ends_sp_rstrip. Qed.

Lemma rstripped_blank l : ends_sp l = false -> lstrip l = [] -> l = [].
Proof.
  intros H E. apply all_sp_lstrip in E. rewrite <- (rstrip_fixed l H). apply rstrip_all_sp. exact E.
Qed.

Lemma starts2_D_not_S l : starts2 DASH l = true -> starts2 SLASH l = false.
Proof.
  destruct l as [|a [|b t]]; try discriminate. cbn [starts2]. rewrite !andb_true_iff, !Z.eqb_eq.
  intros [-> _]. reflexivity.
Qed.

Lemma lstrip_ind n l : lstrip (repeat SP n ++ l) = lstrip l.
Proof. apply lstrip_repeat_app. Qed.

Lemma reind2_spec n l :
  reind2 (repeat SP n) l = if is_cmt (lstrip l) then repeat SP n ++ lstrip l else l.
Proof.
  unfold reind2, reind at 2, is_cmt. destruct (starts2 DASH (lstrip l)) eqn:D; cbn [orb].
  - unfold reind. rewrite lstrip_ind, lstrip_idem, (starts2_D_not_S _ D). reflexivity.
  - unfold reind. destruct (starts2 SLASH (lstrip l)); reflexivity.
Qed.

Lemma reind2_lnorm n l : ends_sp l = false \/ lstrip l <> [] ->
  reind2 (repeat SP n) (lnorm l) = reind2 (repeat SP n) l.
Proof.
  intros H. rewrite !reind2_spec. unfold lnorm.
  destruct (lstrip l) as [|a t] eqn:E.
  - cbn [is_nil orb]. destruct H as [H | H]; [|congruence].
    rewrite (rstripped_blank l H E). reflexivity.
  - cbn [is_nil orb]. destruct (is_cmt (a :: t)) eqn:C.
    + rewrite <- E, lstrip_idem, E, C. reflexivity.
    + rewrite E, C. reflexivity.
Qed.

Lemma ends_sp_lnorm l : ends_sp l = false -> ends_sp (lnorm l) = false.
Proof.
  intros H. unfold lnorm. destruct (is_nil (lstrip l) || is_cmt (lstrip l)); [apply ends_sp_lstrip|]; exact H.
Qed.

Lemma tail_line_lnorm n last l :
  tail_line (repeat SP n) last (lnorm (if last then l else rstrip l)) = tail_line (repeat SP n) last l.
Proof.
  unfold tail_line. destruct last.
  - (* the last line: blanks before the end of the run *)
    destruct (lstrip l) eqn:E.
    + assert (Hn : lnorm l = []) by (unfold lnorm; rewrite E; reflexivity).
      rewrite Hn. rewrite !reind2_spec, E. cbn [lstrip span_p snd is_cmt starts2 orb].
      unfold indent_last. cbn [andb forallb]. rewrite (proj2 (all_sp_lstrip l) E). reflexivity.
    + rewrite reind2_lnorm by (right; congruence). reflexivity.
  - rewrite rstrip_fixed by (apply ends_sp_lnorm, ends_sp_rstrip).
    rewrite reind2_lnorm by (left; apply ends_sp_rstrip). reflexivity.
Qed.

Lemma fmt_tail_edge cfg at_start l0 ls :
  fmt_tail cfg (tl (edge_strip at_start (l0 :: ls))) = fmt_tail cfg ls.
Proof.
  cbn [edge_strip tl]. rewrite !fmt_tail_lines, map_last_map_last. apply map_last_ext.
  intros b l. unfold indent_bytes. apply tail_line_lnorm.
Qed.

Lemma head_xx_blank x rep l : lstrip l = [] -> head_xx x rep l = l.
Proof. intros E. unfold head_xx. rewrite E. reflexivity. Qed.

Lemma head_xx_lstrip x rep l : starts2 x (lstrip l) = true -> head_xx x rep (lstrip l) = head_xx x rep l.
Proof. intros S. unfold head_xx. rewrite lstrip_idem, S. reflexivity. Qed.

Lemma lstrip_head_xx_other x y rep l : starts2 y (lstrip l) = true -> starts2 x (lstrip l) = false ->
  head_xx x rep l = l.
Proof. intros _ S. unfold head_xx. rewrite S. reflexivity. Qed.

Definition head_start (l : list Z) : list Z :=
  head_xx SLASH [SLASH; SLASH] (head_xx DASH [DASH; DASH] l).

Lemma head_start_spec l :
  head_start l = if is_cmt (lstrip l) then lstrip l else l.
Proof.
  unfold head_start, is_cmt. destruct (starts2 DASH (lstrip l)) eqn:D; cbn [orb].
  - assert (E1 : head_xx DASH [DASH; DASH] l = lstrip l).
    { unfold head_xx. rewrite D. destruct (lstrip l) as [|a [|b t]]; try discriminate.
      cbn [starts2] in D. apply andb_true_iff in D. destruct D as [Da Db]. apply Z.eqb_eq in Da, Db. subst.
      reflexivity. }
    rewrite E1. unfold head_xx. rewrite lstrip_idem, (starts2_D_not_S _ D). reflexivity.
  - assert (E1 : head_xx DASH [DASH; DASH] l = l) by (unfold head_xx; rewrite D; reflexivity).
    rewrite E1. unfold head_xx. destruct (starts2 SLASH (lstrip l)) eqn:S; [|reflexivity].
    destruct (lstrip l) as [|a [|b t]]; try discriminate.
    cbn [starts2] in S. apply andb_true_iff in S. destruct S as [Sa Sb]. apply Z.eqb_eq in Sa, Sb. subst.
    reflexivity.
Qed.

Lemma head_start_lnorm l : ends_sp l = false \/ lstrip l <> [] -> head_start (lnorm l) = head_start l.
Proof.
  intros H. rewrite !head_start_spec. unfold lnorm.
  destruct (lstrip l) as [|a t] eqn:E.
  - cbn [is_nil orb]. destruct H as [H | H]; [|congruence]. rewrite (rstripped_blank l H E). reflexivity.
  - cbn [is_nil orb]. destruct (is_cmt (a :: t)) eqn:C.
    + rewrite <- E, lstrip_idem, E, C. reflexivity.
    + rewrite E, C. reflexivity.
Qed.

Lemma is_nil_tl_edge at_start l0 ls : is_nil (tl (edge_strip at_start (l0 :: ls))) = is_nil ls.
Proof. cbn [edge_strip tl]. apply is_nil_map_last. Qed.

Lemma all_sp_head_start l : forallb is_sp l = true -> head_start l = l.
Proof.
  intros H. apply all_sp_lstrip in H. rewrite head_start_spec, H. reflexivity.
Qed.

Lemma fmt_lines_edge cfg l0 ls :
  fmt_lines cfg (hd [] (edge_strip (f_at_start cfg) (l0 :: ls))) (tl (edge_strip (f_at_start cfg) (l0 :: ls)))
  = fmt_lines cfg l0 ls.
Proof.
  unfold fmt_lines. rewrite fmt_tail_edge. unfold fmt_head. rewrite is_nil_tl_edge.
  cbn [edge_strip hd]. fold (head_start (if is_nil ls then l0 else rstrip l0)).
  destruct (f_at_start cfg) eqn:A.
  - fold (head_start (if is_nil ls then lnorm (if is_nil ls then l0 else rstrip l0)
                      else rstrip (lnorm (if is_nil ls then l0 else rstrip l0)))).
    f_equal. destruct (is_nil ls) eqn:N.
    + (* a single line *)
      assert (Ht : fmt_tail cfg ls = []) by (destruct ls; [reflexivity | discriminate]).
      rewrite Ht. unfold dollar_head. cbn [is_nil orb]. rewrite !andb_true_r.
      destruct (lstrip l0) eqn:E.
      * assert (Hn : lnorm l0 = []) by (unfold lnorm; rewrite E; reflexivity).
        rewrite Hn. rewrite (all_sp_head_start l0) by (apply all_sp_lstrip; exact E).
        cbn. rewrite (proj2 (all_sp_lstrip l0) E). reflexivity.
      * rewrite head_start_lnorm by (right; congruence). reflexivity.
    + rewrite rstrip_fixed by (apply ends_sp_lnorm, ends_sp_rstrip).
      rewrite head_start_lnorm by (left; apply ends_sp_rstrip). reflexivity.
  - f_equal. destruct (is_nil ls); [reflexivity|]. rewrite rstrip_idem. reflexivity.
Qed.

Lemma noNL_lnorm l : noNL l -> noNL (lnorm l).
Proof. intros H. unfold lnorm. destruct (_ || _); [apply lstrip_noNL|]; exact H. Qed.

Lemma noNL_edge_strip a L : Forall noNL L -> Forall noNL (edge_strip a L).
Proof.
  intros H. destruct L as [|l0 ls]; [constructor|]. inversion H; subst. cbn [edge_strip]. constructor.
  - assert (noNL (if is_nil ls then l0 else rstrip l0))
      by (destruct (is_nil ls); [assumption | apply noNL_rstrip; assumption]).
    destruct a; [apply noNL_lnorm|]; assumption.
  - apply Forall_map_last; [|assumption]. intros b l Hl. apply noNL_lnorm.
    destruct b; [assumption | apply noNL_rstrip; assumption].
Qed.

Theorem fmt_run_depends_on_norm cfg r1 r2 :
  strip_line_edges (f_at_start cfg) (canon_ws r1) = strip_line_edges (f_at_start cfg) (canon_ws r2) ->
  fmt_run cfg r1 = fmt_run cfg r2.
Proof.
  unfold strip_line_edges. intros H.
  destruct (split_nl (canon_ws r1)) as [|a1 t1] eqn:S1; [destruct (split_nl_nonempty _ S1)|].
  destruct (split_nl (canon_ws r2)) as [|a2 t2] eqn:S2; [destruct (split_nl_nonempty _ S2)|].
  pose proof (split_nl_noNL (canon_ws r1)) as N1. rewrite S1 in N1.
  pose proof (split_nl_noNL (canon_ws r2)) as N2. rewrite S2 in N2.
  apply (f_equal split_nl) in H.
  assert (E1 : exists x y, edge_strip (f_at_start cfg) (a1 :: t1) = x :: y) by (eexists _, _; reflexivity).
  assert (E2 : exists x y, edge_strip (f_at_start cfg) (a2 :: t2) = x :: y) by (eexists _, _; reflexivity).
  destruct E1 as (x1 & y1 & E1). destruct E2 as (x2 & y2 & E2).
  pose proof (noNL_edge_strip (f_at_start cfg) _ N1) as M1.
  pose proof (noNL_edge_strip (f_at_start cfg) _ N2) as M2.
  rewrite E1 in H, M1. rewrite E2 in H, M2. rewrite !split_joinl in H by assumption.
  rewrite (fmt_run_lines cfg r1 a1 t1 S1), (fmt_run_lines cfg r2 a2 t2 S2).
  rewrite <- (fmt_lines_edge cfg a1 t1), <- (fmt_lines_edge cfg a2 t2).
  rewrite E1, E2, H. reflexivity.
Qed.

(* ====================================================================== F: formatting a formatted run changes nothing *)
(* ---------- no tabs and carriage returns after the first four substitutions, nor later ---------- *)
Definition clean (s : list Z) : Prop := Forall (fun c => c <> TAB /\ c <> CR) s.

Lemma resub_chars (P : Z -> Prop) m :
  (forall s rep k, m s = Some (rep, k) -> Forall P rep) ->
  forall s skip, Forall P s -> Forall P (resub m skip s).
Proof.
  intros Hm. induction s as [|c r IH]; intros skip H; [constructor|]. inversion H; subst.
  cbn [resub]. destruct skip as [|k]; [|apply IH; assumption].
  destruct (m (c :: r)) as [[rep [|k]]|] eqn:E.
  - constructor; [assumption | apply IH; assumption].
  - apply Forall_app. split; [apply (Hm _ _ _ E) | apply IH; assumption].
  - constructor; [assumption | apply IH; assumption].
Qed.

Lemma resub_byte_out a b : a <> b -> forall s k, ~ In a (resub (m_byte a b) k s).
Proof.
  intros Hab. induction s as [|c r IH]; intros k; [intros []|]. cbn [resub].
  destruct k as [|k]; [|apply IH]. unfold m_byte at 1. destruct (c =? a) eqn:E.
  - cbn [app]. intros [H | H]; [congruence | exact (IH _ H)].
  - apply Z.eqb_neq in E. intros [H | H]; [congruence | exact (IH _ H)].
Qed.

Lemma m_byte_rep (P : Z -> Prop) a b s rep k : P b -> m_byte a b s = Some (rep, k) -> Forall P rep.
Proof.
  intros Hb. unfold m_byte. destruct s as [|c r]; [discriminate|]. destruct (c =? a); [|discriminate].
  intros [= <- _]. repeat constructor. exact Hb.
Qed.

Lemma m_pair_rep (P : Z -> Prop) a b c s rep k : P c -> m_pair a b c s = Some (rep, k) -> Forall P rep.
Proof.
  intros Hc. unfold m_pair. destruct s as [|x [|y t]]; try discriminate.
  destruct ((x =? a) && (y =? b)); [|discriminate]. intros [= <- _]. repeat constructor. exact Hc.
Qed.

Lemma canon_ws_clean r : clean (canon_ws r).
Proof.
  unfold clean, canon_ws. apply Forall_forall. intros c Hc. split.
  - intros ->. revert Hc. set (s1 := resub (m_byte TAB SP) 0 r).
    assert (H1 : Forall (fun c => c <> TAB) s1).
    { apply Forall_forall. intros c Hc ->. exact (resub_byte_out TAB SP ltac:(discriminate) r 0%nat Hc). }
    assert (H4 : Forall (fun c => c <> TAB)
                   (resub (m_byte CR NL) 0 (resub (m_pair NL CR NL) 0 (resub (m_pair CR NL NL) 0 s1)))).
    { apply resub_chars; [intros s rep k; apply m_byte_rep; discriminate|].
      apply resub_chars; [intros s rep k; apply m_pair_rep; discriminate|].
      apply resub_chars; [intros s rep k; apply m_pair_rep; discriminate|]. exact H1. }
    rewrite Forall_forall in H4. intros Hc. exact (H4 _ Hc eq_refl).
  - intros ->. exact (resub_byte_out CR NL ltac:(discriminate) _ 0%nat Hc).
Qed.

Lemma resub_byte_id a b s : ~ In a s -> resub (m_byte a b) 0 s = s.
Proof.
  induction s as [|c r IH]; intros H; [reflexivity|]. cbn [resub]. unfold m_byte at 1.
  destruct (c =? a) eqn:E; [apply Z.eqb_eq in E; subst; exfalso; apply H; left; reflexivity|].
  f_equal. apply IH. intros Hr. apply H. right. exact Hr.
Qed.

Lemma resub_pair_id a b c s : ~ In a s \/ ~ In b s -> resub (m_pair a b c) 0 s = s.
Proof.
  induction s as [|x r IH]; intros H; [reflexivity|]. cbn [resub]. unfold m_pair at 1.
  assert (Hr : ~ In a r \/ ~ In b r) by (destruct H as [H | H]; [left | right]; intros Hr; apply H; right; exact Hr).
  destruct r as [|y t].
  - reflexivity.
  - destruct ((x =? a) && (y =? b)) eqn:E.
    + apply andb_true_iff in E. destruct E as [E1 E2]. apply Z.eqb_eq in E1, E2. subst. exfalso.
      destruct H as [H | H]; apply H; [left; reflexivity | right; left; reflexivity].
    + f_equal. apply IH. exact Hr.
Qed.

Lemma canon_ws_id s : clean s -> canon_ws s = s.
Proof.
  intros H. unfold clean in H. rewrite Forall_forall in H.
  assert (HT : ~ In TAB s) by (intros Hc; destruct (H _ Hc) as [H1 _]; congruence).
  assert (HC : ~ In CR s) by (intros Hc; destruct (H _ Hc) as [_ H1]; congruence).
  unfold canon_ws. rewrite (resub_byte_id TAB SP s HT).
  rewrite (resub_pair_id CR NL NL s) by (left; exact HC).
  rewrite (resub_pair_id NL CR NL s) by (right; exact HC).
  apply resub_byte_id. exact HC.
Qed.

Definition cleanc (c : Z) : Prop := c <> TAB /\ c <> CR.

Lemma clean_repeat_sp n : Forall cleanc (repeat SP n).
Proof. induction n; cbn; constructor; [split; discriminate | assumption]. Qed.

Lemma span_keeps (P : Z -> Prop) p s n t : span_p p s = (n, t) -> Forall P s -> Forall P t.
Proof.
  intros E H. destruct (span_p_spec _ _ _ _ E) as (H1 & _). rewrite H1 in H. apply Forall_app in H. apply H.
Qed.

Lemma sub_head_sp_xx_chars (P : Z -> Prop) x rep s : Forall P rep -> Forall P s -> Forall P (sub_head_sp_xx x rep s).
Proof.
  intros Hr Hs. unfold sub_head_sp_xx. destruct (span_p is_sp s) as [n t] eqn:E.
  pose proof (span_keeps P _ _ _ _ E Hs) as Ht.
  destruct t as [|a [|b t']]; try assumption. destruct ((a =? x) && (b =? x)); [|assumption].
  apply Forall_app. split; [assumption|]. inversion Ht; subst. inversion H2; subst. assumption.
Qed.

Lemma sub_head_sp_dollar_chars (P : Z -> Prop) s : Forall P s -> Forall P (sub_head_sp_dollar s).
Proof.
  intros Hs. unfold sub_head_sp_dollar. destruct (span_p is_sp s) as [n t] eqn:E.
  pose proof (span_keeps P _ _ _ _ E Hs) as Ht.
  destruct t as [|c [|d t']]; [constructor | | assumption].
  destruct (c =? NL) eqn:Ec; [|assumption]. apply Z.eqb_eq in Ec. subst c. exact Ht.
Qed.

Ltac fc := repeat (apply Forall_cons || apply Forall_nil); try assumption; try (split; discriminate).

Lemma fmt_run_clean cfg r : clean (fmt_run cfg r).
Proof.
  rewrite fmt_run_eq. unfold fmt_run_unfolded. fold (canon_ws r). unfold clean. fold cleanc.
  pose proof (canon_ws_clean r) as H0. unfold clean in H0. fold cleanc in H0.
  assert (Hnl : cleanc NL) by (split; discriminate).
  assert (Hind : Forall cleanc (indent_bytes cfg)) by apply clean_repeat_sp.
  assert (Hxx : forall x, cleanc x -> forall s rep k, m_nl_sp_xx x (indent_bytes cfg) s = Some (rep, k) -> Forall cleanc rep).
  { intros x Hx s rep k. unfold m_nl_sp_xx. destruct s as [|c t]; [discriminate|]. destruct (c =? NL); [|discriminate].
    destruct (span_p is_sp t) as [n u]. destruct u as [|a [|b u']]; try discriminate.
    destruct ((a =? x) && (b =? x)); [|discriminate]. intros [= <- _].
    apply Forall_cons; [exact Hnl|]. apply Forall_app. split; [exact Hind | fc]. }
  assert (H5 : Forall cleanc (resub m_sp1_nl 0 (canon_ws r))).
  { apply resub_chars; [|exact H0]. intros s rep k. unfold m_sp1_nl. destruct s as [|c t]; [discriminate|].
    destruct (c =? SP); [|discriminate]. destruct (span_p is_sp t) as [n u]. destruct u as [|d u']; [discriminate|].
    destruct (d =? NL); [|discriminate]. intros [= <- _]. fc. }
  set (s5 := resub m_sp1_nl 0 (canon_ws r)) in *.
  assert (H6 : Forall cleanc (if negb (f_at_start cfg) then sub_head_sp_xx DASH [SP; SP; DASH; DASH] s5 else s5)).
  { destruct (negb (f_at_start cfg)); [|exact H5]. apply sub_head_sp_xx_chars; [|exact H5].
    fc. }
  set (s6 := if negb (f_at_start cfg) then _ else s5) in *.
  assert (H7 : Forall cleanc (resub (m_nl_sp_xx SLASH (indent_bytes cfg)) 0 (resub (m_nl_sp_xx DASH (indent_bytes cfg)) 0 s6))).
  { apply resub_chars; [apply Hxx; split; discriminate|]. apply resub_chars; [apply Hxx; split; discriminate|]. exact H6. }
  set (s7 := resub (m_nl_sp_xx SLASH _) 0 _) in *.
  assert (H8 : Forall cleanc (if f_at_start cfg then sub_head_sp_xx SLASH [SLASH; SLASH]
                                (if f_at_start cfg then sub_head_sp_xx DASH [DASH; DASH] s7 else s7)
                              else (if f_at_start cfg then sub_head_sp_xx DASH [DASH; DASH] s7 else s7))).
  { destruct (f_at_start cfg); [|exact H7].
    apply sub_head_sp_xx_chars; [fc|].
    apply sub_head_sp_xx_chars; [fc | exact H7]. }
  set (s8 := if f_at_start cfg then sub_head_sp_xx SLASH _ _ else _) in *.
  assert (H9 : Forall cleanc (resub (m_nl_sp_end (indent_bytes cfg)) 0 s8)).
  { apply resub_chars; [|exact H8]. intros s rep k. unfold m_nl_sp_end. destruct s as [|c t]; [discriminate|].
    destruct (c =? NL); [|discriminate]. destruct (span_p is_sp t) as [n u]. destruct u; [|discriminate].
    intros [= <- _]. apply Forall_cons; [exact Hnl | exact Hind]. }
  set (s9 := resub (m_nl_sp_end _) 0 s8) in *.
  assert (H10 : Forall cleanc (if f_at_start cfg then sub_head_sp_dollar s9 else s9)).
  { destruct (f_at_start cfg); [apply sub_head_sp_dollar_chars|]; exact H9. }
  set (s10 := if f_at_start cfg then sub_head_sp_dollar s9 else s9) in *.
  assert (H11 : Forall cleanc (resub (m_nl_nl1 [NL; NL]) 0 s10)).
  { apply resub_chars; [|exact H10]. intros s rep k. unfold m_nl_nl1. destruct s as [|c t]; [discriminate|].
    destruct (c =? NL); [|discriminate]. destruct (span_p is_nl t) as [n u]. destruct n; [discriminate|].
    intros [= <- _]. fc. }
  destruct (f_at_end cfg); [|exact H11].
  apply resub_chars.
  { intros s rep k. unfold m_sp1_end. destruct s as [|c t]; [discriminate|].
    destruct (c =? SP); [|discriminate]. destruct (span_p is_sp (c :: t)) as [n u]. destruct u; [|discriminate].
    intros [= <- _]. constructor. }
  apply resub_chars; [|exact H11]. intros s rep k. unfold m_spnl_nl_end. destruct s as [|c t]; [discriminate|].
  destruct (is_sp_nl c); [|discriminate]. destruct (span_p is_sp_nl (c :: t)) as [n u]. destruct u; [|discriminate].
  destruct (existsb is_nl (c :: t)); [|discriminate]. intros [= <- _]. fc.
Qed.

(* ---------- the formatted lines are a fixed point of the line pipeline ---------- *)
Lemma lstrip_repeat_sp n : lstrip (repeat SP n) = [].
Proof. rewrite <- (app_nil_r (repeat SP n)), lstrip_repeat_app. reflexivity. Qed.

Lemma all_sp_repeat n : forallb is_sp (repeat SP n) = true.
Proof. induction n; cbn; auto. Qed.

Lemma reind2_idem n l : reind2 (repeat SP n) (reind2 (repeat SP n) l) = reind2 (repeat SP n) l.
Proof.
  rewrite (reind2_spec n l). destruct (is_cmt (lstrip l)) eqn:C.
  - rewrite reind2_spec, lstrip_ind, lstrip_idem, C. reflexivity.
  - rewrite reind2_spec, C. reflexivity.
Qed.

Lemma ends_sp_reind2 n l : ends_sp l = false -> ends_sp (reind2 (repeat SP n) l) = false.
Proof. intros H. unfold reind2. apply ends_sp_reind, ends_sp_reind. exact H. Qed.

Lemma tail_line_idem n last l :
  tail_line (repeat SP n) last (tail_line (repeat SP n) last l) = tail_line (repeat SP n) last l.
Proof.
  unfold tail_line. destruct last.
  - unfold indent_last. cbn [andb]. destruct (forallb is_sp (reind2 (repeat SP n) l)) eqn:F.
    + rewrite reind2_spec, lstrip_repeat_sp. cbn [is_cmt starts2 orb]. rewrite all_sp_repeat. reflexivity.
    + rewrite reind2_idem, F. reflexivity.
  - unfold indent_last. cbn [andb].
    rewrite rstrip_fixed by (apply ends_sp_reind2, ends_sp_rstrip). apply reind2_idem.
Qed.

Lemma map_last_fix f L :
  (forall x, In x (removelast L) -> f false x = x) ->
  (L <> [] -> f true (last L []) = last L []) -> map_last f L = L.
Proof.
  induction L as [|a L IH]; intros H1 H2; [reflexivity|]. destruct L as [|b L].
  - cbn. f_equal. apply (H2 ltac:(discriminate)).
  - change (map_last f (a :: b :: L)) with (f false a :: map_last f (b :: L)). f_equal.
    + apply H1. left. reflexivity.
    + apply IH.
      * intros x Hx. apply H1. rewrite removelast_cons by discriminate. right. exact Hx.
      * intros _. apply (H2 ltac:(discriminate)).
Qed.

Lemma sq'_fixed t : dbl t = false -> sq' t = t.
Proof.
  induction t as [|l r IH]; intros H; [reflexivity|]. cbn [sq']. destruct r as [|l' [|y1 z1]].
  - reflexivity.
  - reflexivity.
  - cbn [dbl] in H. apply orb_false_iff in H. destruct H as [H1 H2]. rewrite H1. f_equal. apply IH. exact H2.
Qed.

Lemma sq_sq t : sq (sq t) = sq t.
Proof. rewrite !sq_eq. apply sq'_fixed, dbl_sq'. Qed.

Lemma is_nil_sq t : is_nil (sq t) = is_nil t.
Proof.
  destruct t as [|l r]; [reflexivity|]. rewrite sq_eq.
  destruct (sq' (l :: r)) eqn:E; [exfalso; apply (sq'_nonempty (l :: r)); [discriminate | exact E] | reflexivity].
Qed.

Lemma sq'_len2 t : (2 <= length t)%nat -> (2 <= length (sq' t))%nat.
Proof.
  induction t as [|l r IH]; intros H; [cbn in H; lia|]. cbn [sq']. destruct r as [|l' [|y1 z1]].
  - cbn in H. lia.
  - cbn. lia.
  - assert (H2 : (2 <= length (sq' (l' :: y1 :: z1)))%nat) by (apply IH; cbn; lia).
    destruct (is_nil l && is_nil l'); [exact H2 | cbn [length]; lia].
Qed.

Lemma is_single_empty_sq t : is_single_empty (sq t) = is_single_empty t.
Proof.
  rewrite sq_eq. destruct t as [|l [|l' r]]; try reflexivity.
  pose proof (sq'_len2 (l :: l' :: r) ltac:(cbn; lia)) as H.
  destruct (sq' (l :: l' :: r)) as [|a [|b u]]; cbn in H; try lia.
  cbn [is_single_empty]. destruct a; destruct l; reflexivity.
Qed.

Lemma head_start_idem l : head_start (head_start l) = head_start l.
Proof.
  rewrite (head_start_spec l). destruct (is_cmt (lstrip l)) eqn:C.
  - rewrite head_start_spec, lstrip_idem, C. reflexivity.
  - rewrite head_start_spec, C. reflexivity.
Qed.

Lemma head_mid_idem l :
  head_xx DASH [SP; SP; DASH; DASH] (head_xx DASH [SP; SP; DASH; DASH] l) = head_xx DASH [SP; SP; DASH; DASH] l.
Proof.
  assert (E : head_xx DASH [SP; SP; DASH; DASH] l = l \/
              exists t, head_xx DASH [SP; SP; DASH; DASH] l = [SP; SP; DASH; DASH] ++ t).
  { unfold head_xx. destruct (starts2 DASH (lstrip l)); [right; eexists; reflexivity | left; reflexivity]. }
  destruct E as [E | [t E]]; rewrite E; [exact E|]. reflexivity.
Qed.

Lemma ends_sp_head_start l : ends_sp l = false -> ends_sp (head_start l) = false.
Proof.
  intros H. unfold head_start. apply (ends_sp_head_xx SLASH []); [reflexivity|].
  apply (ends_sp_head_xx DASH []); [reflexivity | exact H].
Qed.

Theorem fmt_lines_idem cfg l0 ls m0 ms : fmt_lines cfg l0 ls = m0 :: ms ->
  fmt_lines cfg m0 ms = m0 :: ms.
Proof.
  unfold fmt_lines at 1. intros [= H0 Hs].
  set (t := fmt_tail cfg ls) in *. set (h := fmt_head cfg l0 ls) in *.
  assert (Et : fmt_tail cfg ms = ms).
  { rewrite fmt_tail_lines. unfold indent_bytes. apply map_last_fix.
    - intros x Hx. rewrite <- Hs, sq_eq in Hx. apply sq'_init_In in Hx. subst t.
      rewrite fmt_tail_lines, removelast_map_last in Hx. apply in_map_iff in Hx.
      destruct Hx as (y & <- & _). apply tail_line_idem.
    - intros Hne. rewrite <- Hs. rewrite <- Hs in Hne.
      assert (Ht : t <> []) by (intros E; apply Hne; rewrite E; reflexivity).
      rewrite last_sq by exact Ht. subst t. rewrite fmt_tail_lines in *.
      assert (Hls : ls <> []) by (intros E; apply Ht; rewrite E; reflexivity).
      rewrite last_map_last by exact Hls. apply tail_line_idem. }
  unfold fmt_lines. rewrite Et. f_equal; [|rewrite <- Hs; apply sq_sq].
  assert (Nms : is_nil ms = is_nil ls).
  { rewrite <- Hs, is_nil_sq. subst t. unfold fmt_tail. rewrite is_nil_map_last.
    destruct ls; reflexivity. }
  unfold fmt_head at 1. rewrite Nms.
  assert (Hh5 : is_nil ls = false -> ends_sp (if is_nil ls then l0 else rstrip l0) = false)
    by (intros ->; apply ends_sp_rstrip).
  destruct (f_at_start cfg) eqn:A.
  - fold (head_start (if is_nil ls then m0 else rstrip m0)).
    assert (Eh : h = head_start (if is_nil ls then l0 else rstrip l0)) by (unfold h, fmt_head; rewrite A; reflexivity).
    assert (Hends : is_nil ls = false -> ends_sp h = false)
      by (intros N; rewrite Eh; apply ends_sp_head_start, Hh5, N).
    unfold dollar_head in H0.
    destruct (forallb is_sp h && (is_nil t || is_single_empty t)) eqn:C.
    + subst m0. assert (E0 : (if is_nil ls then [] else rstrip []) = ([] : list Z)) by (destruct (is_nil ls); reflexivity).
      rewrite E0. unfold dollar_head. cbn. destruct (is_nil ms || is_single_empty ms); reflexivity.
    + subst m0.
      assert (E1 : (if is_nil ls then h else rstrip h) = h).
      { destruct (is_nil ls) eqn:N; [reflexivity|]. apply rstrip_fixed, Hends. reflexivity. }
      rewrite E1, Eh, head_start_idem, <- Eh. unfold dollar_head.
      rewrite <- Hs, is_nil_sq, is_single_empty_sq, C. reflexivity.
  - assert (Eh : h = head_xx DASH [SP; SP; DASH; DASH] (if is_nil ls then l0 else rstrip l0))
      by (unfold h, fmt_head; rewrite A; reflexivity).
    subst m0.
    assert (E1 : (if is_nil ls then h else rstrip h) = h).
    { destruct (is_nil ls) eqn:N; [reflexivity|]. apply rstrip_fixed. rewrite Eh.
      apply (ends_sp_head_xx DASH [SP; SP]); [reflexivity|]. apply ends_sp_rstrip. }
    unfold fmt_head. rewrite Nms, A, E1. rewrite Eh at 1. rewrite head_mid_idem. symmetry. exact Eh.
Qed.

Theorem fmt_run_idempotent cfg r : f_at_end cfg = false -> fmt_run cfg (fmt_run cfg r) = fmt_run cfg r.
Proof.
  intros He.
  destruct (split_nl (canon_ws r)) as [|l0 ls] eqn:HS; [destruct (split_nl_nonempty _ HS)|].
  pose proof (split_nl_noNL (canon_ws r)) as HN. rewrite HS in HN.
  pose proof (noNL_fmt_lines cfg l0 ls HN) as HM.
  pose proof (fmt_run_clean cfg r) as Hc.
  pose proof (fmt_run_lines cfg r l0 ls HS) as E. rewrite He in E.
  destruct (fmt_lines cfg l0 ls) as [|m0 ms] eqn:EM; [discriminate|].
  assert (S2 : split_nl (canon_ws (fmt_run cfg r)) = m0 :: ms).
  { rewrite canon_ws_id by exact Hc. rewrite E. apply split_joinl. exact HM. }
  rewrite (fmt_run_lines cfg (fmt_run cfg r) m0 ms S2), He.
  rewrite (fmt_lines_idem cfg l0 ls m0 ms EM). symmetry. exact E.
Qed.

(* ====================================================================== F at the end of the file *)
(* ---------- more about lines ---------- *)
Lemma split_nl_app_gen x y :
  split_nl (x ++ y) =
  removelast (split_nl x) ++ [last (split_nl x) [] ++ hd [] (split_nl y)] ++ tl (split_nl y).
Proof.
  induction x as [|c x IH].
  - cbn [app split_nl removelast last]. destruct (split_nl y) as [|l t] eqn:E; [destruct (split_nl_nonempty _ E)|]. reflexivity.
  - cbn [app split_nl]. destruct (c =? NL).
    + rewrite IH. destruct (split_nl x) as [|l ls] eqn:E; [destruct (split_nl_nonempty _ E)|].
      change (removelast ([] :: l :: ls)) with ([] :: removelast (l :: ls)).
      change (last ([] :: l :: ls) []) with (last (l :: ls) []). reflexivity.
    + rewrite IH. destruct (split_nl x) as [|l ls] eqn:E; [destruct (split_nl_nonempty _ E)|].
      destruct ls as [|l2 ls].
      * reflexivity.
      * change (removelast ((c :: l) :: l2 :: ls)) with ((c :: l) :: removelast (l2 :: ls)).
        change (removelast (l :: l2 :: ls)) with (l :: removelast (l2 :: ls)).
        change (last ((c :: l) :: l2 :: ls) []) with (last (l2 :: ls) []).
        change (last (l :: l2 :: ls) []) with (last (l2 :: ls) []). reflexivity.
Qed.

Lemma map_last_snoc f l x : map_last f (l ++ [x]) = map (f false) l ++ [f true x].
Proof.
  induction l as [|a l IH]; [reflexivity|]. cbn [app map_last map].
  assert (E : is_nil (l ++ [x]) = false) by (destruct l; reflexivity). rewrite E, IH. reflexivity.
Qed.

Lemma map_last_fix_inv f L : map_last f L = L ->
  (forall x, In x (removelast L) -> f false x = x) /\ (L <> [] -> f true (last L []) = last L []).
Proof.
  induction L as [|a L IH]; intros H; [split; [intros x [] | congruence]|].
  destruct L as [|b L].
  - cbn in H. split; [intros x [] | intros _; cbn; congruence].
  - change (map_last f (a :: b :: L)) with (f false a :: map_last f (b :: L)) in H.
    remember (map_last f (b :: L)) as Y eqn:EY. injection H as Ha Hr. subst Y.
    destruct (IH Hr) as [I1 I2]. split.
    + intros x Hx. change (removelast (a :: b :: L)) with (a :: removelast (b :: L)) in Hx.
      destruct Hx as [<- | Hx]; [exact Ha | apply I1; exact Hx].
    + intros _. change (last (a :: b :: L) []) with (last (b :: L) []). apply I2. discriminate.
Qed.

Lemma joinl_snoc L x : L <> [] -> joinl (L ++ [x]) = joinl L ++ NL :: x.
Proof.
  destruct L as [|l ls]; [congruence|]. intros _. cbn [app joinl]. rewrite flat_app, <- app_assoc.
  cbn [flat map concat]. rewrite app_nil_r. reflexivity.
Qed.

(* ---------- blanks appended to a line that is not blank ---------- *)
Lemma ends_sp_all_sp s : forallb is_sp s = true -> s <> [] -> ends_sp s = true.
Proof.
  induction s as [|c s IH]; intros H Hne; [congruence|]. cbn [forallb] in H. apply andb_true_iff in H.
  destruct H as [Hc Hs]. cbn [ends_sp]. destruct s; [exact Hc | apply IH; [exact Hs | discriminate]].
Qed.

Lemma ends_sp_not_all_sp v : ends_sp v = false -> v <> [] -> forallb is_sp v = false.
Proof.
  intros H Hne. destruct (forallb is_sp v) eqn:F; [|reflexivity]. rewrite (ends_sp_all_sp v F Hne) in H. discriminate.
Qed.

Lemma rstrip_app_sp v s : forallb is_sp s = true -> ends_sp v = false -> v <> [] -> rstrip (v ++ s) = v.
Proof.
  intros Hs. induction v as [|c v IH]; intros He Hne; [congruence|].
  assert (F : forallb is_sp ((c :: v) ++ s) = false).
  { rewrite forallb_app, (ends_sp_not_all_sp (c :: v) He Hne). reflexivity. }
  cbn [app rstrip]. cbn [app] in F. rewrite F. f_equal. destruct v as [|d v].
  - cbn [app]. apply rstrip_all_sp. exact Hs.
  - apply IH; [exact He | discriminate].
Qed.

Lemma lstrip_app_nonblank v s : lstrip v <> [] -> lstrip (v ++ s) = lstrip v ++ s.
Proof.
  induction v as [|c v IH]; intros H; [cbn in H; congruence|]. unfold lstrip in *. cbn [app span_p] in *.
  destruct (is_sp c) eqn:E; [|reflexivity].
  destruct (span_p is_sp v) as [n t] eqn:E1. destruct (span_p is_sp (v ++ s)) as [n2 t2] eqn:E2.
  cbn [snd] in *. apply IH. exact H.
Qed.

Lemma starts2_app_sp x u s : (x =? SP) = false -> u <> [] -> forallb is_sp s = true ->
  starts2 x (u ++ s) = starts2 x u.
Proof.
  intros Hx Hu Hs. destruct u as [|a [|b u]]; [congruence | | reflexivity].
  cbn [app starts2]. destruct s as [|c s]; [reflexivity|]. cbn [forallb] in Hs. apply andb_true_iff in Hs.
  destruct Hs as [Hc _]. unfold is_sp in Hc. apply Z.eqb_eq in Hc. subst c.
  rewrite (Z.eqb_sym SP x), Hx, andb_false_r. reflexivity.
Qed.

Lemma is_cmt_app_sp u s : u <> [] -> forallb is_sp s = true -> is_cmt (u ++ s) = is_cmt u.
Proof. intros Hu Hs. unfold is_cmt. rewrite !starts2_app_sp by (reflexivity || assumption). reflexivity. Qed.

Lemma reind2_app_sp n v s : lstrip v <> [] -> forallb is_sp s = true ->
  reind2 (repeat SP n) (v ++ s) = reind2 (repeat SP n) v ++ s.
Proof.
  intros Hv Hs. rewrite !reind2_spec, (lstrip_app_nonblank v s Hv), (is_cmt_app_sp _ s Hv Hs).
  destruct (is_cmt (lstrip v)); [rewrite app_assoc|]; reflexivity.
Qed.

Lemma head_start_app_sp v s : lstrip v <> [] -> forallb is_sp s = true -> head_start (v ++ s) = head_start v ++ s.
Proof.
  intros Hv Hs. rewrite !head_start_spec, (lstrip_app_nonblank v s Hv), (is_cmt_app_sp _ s Hv Hs).
  destruct (is_cmt (lstrip v)); reflexivity.
Qed.

Lemma head_xx_app_sp x rep v s : (x =? SP) = false -> lstrip v <> [] -> forallb is_sp s = true ->
  head_xx x rep (v ++ s) = head_xx x rep v ++ s.
Proof.
  intros Hx Hv Hs. unfold head_xx. rewrite (lstrip_app_nonblank v s Hv), (starts2_app_sp x _ s Hx Hv Hs).
  destruct (starts2 x (lstrip v)) eqn:S; [|reflexivity].
  destruct (lstrip v) as [|a [|b t]]; try discriminate. cbn [app skipn]. rewrite <- app_assoc. reflexivity.
Qed.

Lemma lstrip_nonblank v : forallb is_sp v = false -> lstrip v <> [].
Proof. intros H E. apply all_sp_lstrip in E. congruence. Qed.

(* the lines of a text made of blanks and line feeds only *)
Lemma split_nl_spnl b : forallb is_sp_nl b = true -> Forall (fun l => forallb is_sp l = true) (split_nl b).
Proof.
  induction b as [|c b IH]; intros H; [repeat constructor|]. cbn [forallb] in H. apply andb_true_iff in H.
  destruct H as [Hc Hb]. specialize (IH Hb). cbn [split_nl]. destruct (c =? NL) eqn:E.
  - constructor; [reflexivity | exact IH].
  - destruct (split_nl b) as [|l t] eqn:S; [destruct (split_nl_nonempty _ S)|]. inversion IH; subst.
    constructor; [|assumption]. cbn [forallb]. unfold is_sp_nl in Hc. rewrite E, orb_false_r in Hc. unfold is_sp. rewrite Hc. assumption.
Qed.

(* two empty lines in a row: only the lines before a non-empty line matter *)
Lemma dbl_cons3 p l' r' : r' <> [] -> dbl (p :: l' :: r') = (is_nil p && is_nil l') || dbl (l' :: r').
Proof. destruct r'; [congruence | reflexivity]. Qed.

Lemma dbl_swap_tail P x Q x' y : x <> [] -> x' <> [] -> dbl (P ++ x :: Q) = false -> dbl (P ++ [x'; y]) = false.
Proof.
  intros Hx Hx'. induction P as [|p P IH]; intros H.
  - reflexivity.
  - destruct P as [|p' P''].
    + cbn [app]. rewrite dbl_cons3 by discriminate. destruct x'; [congruence|]. cbn [is_nil]. rewrite andb_false_r. reflexivity.
    + cbn [app] in *. rewrite dbl_cons3 by (destruct P''; discriminate).
      rewrite dbl_cons3 in H by (destruct P''; discriminate).
      apply orb_false_iff in H. destruct H as [H1 H2]. rewrite H1. cbn [orb]. apply IH. exact H2.
Qed.

(* ---------- what "the lines are a fixed point" gives, line by line ---------- *)
Lemma fmt_tail_fixed cfg l0 ls m0 ms : fmt_lines cfg l0 ls = m0 :: ms -> fmt_tail cfg ms = ms.
Proof.
  unfold fmt_lines. intros [= _ Hs]. set (t := fmt_tail cfg ls) in *.
  rewrite fmt_tail_lines. unfold indent_bytes. apply map_last_fix.
  - intros x Hx. rewrite <- Hs, sq_eq in Hx. apply sq'_init_In in Hx. subst t.
    rewrite fmt_tail_lines, removelast_map_last in Hx. apply in_map_iff in Hx.
    destruct Hx as (y & <- & _). apply tail_line_idem.
  - intros Hne. rewrite <- Hs. rewrite <- Hs in Hne.
    assert (Ht : t <> []) by (intros E; apply Hne; rewrite E; reflexivity).
    rewrite last_sq by exact Ht. subst t. rewrite fmt_tail_lines in *.
    assert (Hls : ls <> []) by (intros E; apply Ht; rewrite E; reflexivity).
    rewrite last_map_last by exact Hls. apply tail_line_idem.
Qed.

Lemma fmt_lines_fixed_facts cfg l0 ls m0 ms : fmt_lines cfg l0 ls = m0 :: ms ->
  fmt_tail cfg ms = ms /\ sq ms = ms /\
  (if f_at_start cfg then dollar_head (fmt_head cfg m0 ms) ms else fmt_head cfg m0 ms) = m0.
Proof.
  intros H. pose proof (fmt_tail_fixed cfg l0 ls m0 ms H) as Et.
  pose proof (fmt_lines_idem cfg l0 ls m0 ms H) as Hi. unfold fmt_lines in Hi. rewrite Et in Hi.
  injection Hi as Hh Hs. auto.
Qed.

Lemma tail_line_nil ind : tail_line ind true [] = ind.
Proof. reflexivity. Qed.

Lemma sq_single l : sq [l] = [l].
Proof. destruct l; reflexivity. Qed.

Lemma all_sp_reind2 n v : forallb is_sp (reind2 (repeat SP n) v) = forallb is_sp v.
Proof.
  rewrite reind2_spec. destruct (is_cmt (lstrip v)) eqn:C; [|reflexivity].
  rewrite forallb_app, all_sp_repeat. cbn [andb].
  assert (Hn : lstrip v <> []) by (intros E; rewrite E in C; discriminate).
  destruct (forallb is_sp v) eqn:F; [apply all_sp_lstrip in F; congruence|].
  pose proof (lstrip_head v) as Hh. destruct (lstrip v) as [|c t]; [congruence|]. cbn [forallb]. rewrite Hh. reflexivity.
Qed.

Lemma last_snoc {A} (l : list A) x d : last (l ++ [x]) d = x.
Proof. apply last_last. Qed.

Lemma in_removelast_app {A} (x : A) l y z : In x l -> In x (removelast (l ++ y :: z)).
Proof.
  intros H. induction l as [|a l IH]; [destruct H|]. cbn [app].
  rewrite removelast_cons by (destruct l; discriminate). destruct H as [-> | H]; [left; reflexivity | right; apply IH; exact H].
Qed.

Lemma dollar_head_keep h t : is_nil t = false -> is_single_empty t = false -> dollar_head h t = h.
Proof. intros H1 H2. unfold dollar_head. rewrite H1, H2, andb_false_r. reflexivity. Qed.

Lemma fmt_head_tail_irrelevant cfg h t1 t2 : is_nil t1 = is_nil t2 -> fmt_head cfg h t1 = fmt_head cfg h t2.
Proof. intros H. unfold fmt_head. rewrite H. reflexivity. Qed.

(* the text of the file's last run after its trailing white space was cut (K = a ++ [c]) and one line feed
   appended: its lines are K's lines, unchanged, and the line that holds the indentation *)
Lemma fmt_lines_end_fixed cfg m0 ms a c b :
  Forall noNL (m0 :: ms) ->
  fmt_tail cfg ms = ms -> sq ms = ms ->
  (if f_at_start cfg then dollar_head (fmt_head cfg m0 ms) ms else fmt_head cfg m0 ms) = m0 ->
  joinl (m0 :: ms) = (a ++ [c]) ++ b -> is_sp_nl c = false -> forallb is_sp_nl b = true ->
  exists k0 ks, split_nl (a ++ [c]) = k0 :: ks /\
                fmt_lines cfg k0 (ks ++ [[]]) = (k0 :: ks) ++ [indent_bytes cfg].
Proof.
  intros HM Et Es Eh EJ Hc Hb.
  assert (HcSP : c <> SP) by (intros ->; discriminate).
  assert (HcNL : c <> NL) by (intros ->; discriminate).
  (* the lines of K and of K ++ b *)
  pose proof (split_joinl m0 ms HM) as HL. rewrite EJ in HL.
  rewrite split_nl_app_gen in HL.
  destruct (split_nl b) as [|spl R] eqn:Eb; [destruct (split_nl_nonempty _ Eb)|].
  pose proof (split_nl_spnl b Hb) as Hbl. rewrite Eb in Hbl. inversion Hbl as [|? ? Hspl HR]; subst.
  cbn [hd tl] in HL.
  assert (EK : split_nl (a ++ [c]) = removelast (split_nl a) ++ [last (split_nl a) [] ++ [c]]).
  { rewrite split_nl_app_gen. cbn [split_nl]. apply Z.eqb_neq in HcNL. rewrite HcNL. cbn [hd tl]. rewrite app_nil_r. reflexivity. }
  set (I := removelast (split_nl a)) in *. set (lastK := last (split_nl a) [] ++ [c]) in *.
  rewrite EK in HL. rewrite removelast_last, last_snoc in HL.
  assert (HlK1 : lastK <> []) by (unfold lastK; destruct (last (split_nl a) []); discriminate).
  assert (HlK2 : ends_sp lastK = false).
  { unfold lastK. rewrite ends_sp_app by discriminate. cbn. apply Z.eqb_neq. exact HcSP. }
  assert (HlK3 : forallb is_sp lastK = false) by (apply ends_sp_not_all_sp; assumption).
  assert (HlK4 : lstrip lastK <> []) by (apply lstrip_nonblank; exact HlK3).
  set (n := (Z.to_nat (f_width cfg) * Z.to_nat (f_depth cfg))%nat).
  assert (Eind : indent_bytes cfg = repeat SP n) by reflexivity.
  assert (Espl : ends_sp (lastK ++ spl) = false -> spl = []).
  { intros H. destruct spl as [|s0 spl']; [reflexivity|]. rewrite ends_sp_app in H by discriminate.
    rewrite ends_sp_all_sp in H by (assumption || discriminate). discriminate. }
  rewrite EK. destruct I as [|i0 I'] eqn:EI.
  - (* K is a single line *)
    cbn [app] in HL. injection HL as Em0 Ems. exists lastK, []. split; [reflexivity|].
    cbn [app]. unfold fmt_lines. rewrite fmt_tail_lines. cbn [map_last is_nil]. rewrite tail_line_nil, sq_single.
    assert (EH : fmt_head cfg lastK [[]] = lastK).
    { unfold fmt_head. cbn [is_nil]. rewrite (rstrip_fixed lastK HlK2).
      unfold fmt_head in Eh. rewrite <- Em0 in Eh.
      destruct (f_at_start cfg) eqn:A.
      - fold (head_start (if is_nil ms then lastK ++ spl else rstrip (lastK ++ spl))) in Eh. fold (head_start lastK).
        assert (Eh' : head_start (if is_nil ms then lastK ++ spl else rstrip (lastK ++ spl)) = lastK ++ spl).
        { unfold dollar_head in Eh. destruct (forallb is_sp _ && _); [|exact Eh].
          destruct lastK; [congruence | discriminate]. }
        destruct (is_nil ms).
        + rewrite head_start_app_sp in Eh' by assumption. apply app_inv_tail in Eh'. exact Eh'.
        + rewrite rstrip_app_sp in Eh' by assumption.
          assert (S0 : spl = []) by (apply Espl; rewrite <- Eh'; apply ends_sp_head_start; exact HlK2).
          rewrite S0, app_nil_r in Eh'. exact Eh'.
      - destruct (is_nil ms).
        + rewrite head_xx_app_sp in Eh by (reflexivity || assumption). apply app_inv_tail in Eh. exact Eh.
        + rewrite rstrip_app_sp in Eh by assumption.
          assert (S0 : spl = []).
          { apply Espl. rewrite <- Eh. apply (ends_sp_head_xx DASH [SP; SP]); [reflexivity | exact HlK2]. }
          rewrite S0, app_nil_r in Eh. exact Eh. }
    rewrite EH. destruct (f_at_start cfg); [|reflexivity].
    unfold dollar_head. rewrite HlK3. reflexivity.
  - (* K has several lines: the first one is the first line of the fixed point *)
    cbn [app] in HL. injection HL as Em0 Ems. subst i0. exists m0, (I' ++ [lastK]). split; [reflexivity|].
    (* the tail *)
    assert (Et2 : fmt_tail cfg ((I' ++ [lastK]) ++ [[]]) = (I' ++ [lastK]) ++ [indent_bytes cfg]).
    { rewrite fmt_tail_lines, map_last_snoc, tail_line_nil. f_equal.
      rewrite fmt_tail_lines in Et. destruct (map_last_fix_inv _ _ Et) as [F1 F2].
      rewrite map_app. cbn [map]. f_equal.
      - rewrite <- (map_id I') at 2. apply map_ext_in. intros x Hx. apply F1. rewrite <- Ems.
        apply in_removelast_app. exact Hx.
      - f_equal. unfold tail_line, indent_last. cbn [andb]. rewrite (rstrip_fixed lastK HlK2). rewrite Eind in *.
        destruct R as [|r0 R'].
        + (* lastK ++ spl is the last line of the fixed point *)
          assert (Hl : last ms [] = lastK ++ spl) by (rewrite <- Ems; apply last_last).
          assert (Hne : ms <> []) by (rewrite <- Ems; destruct I'; discriminate).
          specialize (F2 Hne). rewrite Hl in F2. unfold tail_line, indent_last in F2. cbn [andb] in F2.
          rewrite reind2_app_sp in F2 by assumption.
          rewrite forallb_app, all_sp_reind2, HlK3 in F2. cbn [andb] in F2. apply app_inv_tail in F2. exact F2.
        + (* lastK ++ spl is followed by further (blank) lines *)
          assert (Hin : In (lastK ++ spl) (removelast ms)).
          { rewrite <- Ems. clear. induction I' as [|i I' IH]; cbn [app].
            - left. reflexivity.
            - rewrite removelast_cons by (destruct I'; discriminate). right. exact IH. }
          specialize (F1 _ Hin). unfold tail_line, indent_last in F1. cbn [andb] in F1.
          rewrite rstrip_app_sp in F1 by assumption.
          assert (S0 : spl = []) by (apply Espl; rewrite <- F1; apply ends_sp_reind2; exact HlK2).
          rewrite S0, app_nil_r in F1. exact F1. }
    unfold fmt_lines. rewrite Et2.
    (* no squeeze *)
    assert (Esq : sq ((I' ++ [lastK]) ++ [indent_bytes cfg]) = (I' ++ [lastK]) ++ [indent_bytes cfg]).
    { rewrite sq_eq. apply sq'_fixed. rewrite <- app_assoc. cbn [app].
      apply (dbl_swap_tail I' (lastK ++ spl) R lastK (indent_bytes cfg)); [destruct lastK; [congruence | discriminate] | exact HlK1 |].
      rewrite Ems. rewrite <- Es, sq_eq. apply dbl_sq'. }
    rewrite Esq. cbn [app]. f_equal.
    (* the head *)
    assert (N1 : is_nil ms = false) by (rewrite <- Ems; destruct I'; reflexivity).
    assert (N2 : is_single_empty ms = false).
    { rewrite <- Ems. destruct I' as [|i I'']; cbn [app].
      - destruct lastK; [congruence|]. reflexivity.
      - destruct I''; cbn [app]; destruct i; reflexivity. }
    assert (N3 : is_nil ((I' ++ [lastK]) ++ [[]]) = false) by (destruct I'; reflexivity).
    assert (N4 : is_single_empty ((I' ++ [lastK]) ++ [indent_bytes cfg]) = false).
    { destruct I' as [|i [|i2 I3]]; cbn [app]; [destruct lastK | destruct i | destruct i]; reflexivity. }
    rewrite (fmt_head_tail_irrelevant cfg m0 _ ms) by (rewrite N1, N3; reflexivity).
    destruct (f_at_start cfg).
    + rewrite dollar_head_keep in Eh by assumption. rewrite dollar_head_keep; [exact Eh | destruct I'; reflexivity | exact N4].
    + exact Eh.
Qed.

Lemma fmt_run_empty cfg : fmt_run cfg [] = [].
Proof. destruct cfg as [[|] [|] w d]; reflexivity. Qed.

Lemma fmt_run_nl_end cfg : f_at_end cfg = true -> fmt_run cfg [NL] = [NL].
Proof.
  intros He.
  assert (S : split_nl (canon_ws [NL]) = [[]; []]) by reflexivity.
  rewrite (fmt_run_lines cfg [NL] [] [[]] S), He.
  unfold fmt_lines. rewrite fmt_tail_lines. cbn [map_last is_nil]. rewrite tail_line_nil, sq_single.
  assert (EH : fmt_head cfg [] [[]] = []) by (unfold fmt_head; destruct (f_at_start cfg); reflexivity).
  rewrite EH.
  assert (ED : (if f_at_start cfg then dollar_head [] [indent_bytes cfg] else []) = [])
    by (destruct (f_at_start cfg); [unfold dollar_head; destruct (_ && _)|]; reflexivity).
  rewrite ED. cbn [joinl flat map concat app]. rewrite app_nil_r.
  rewrite trail_nl_allspnl; [reflexivity|]. cbn [forallb]. unfold indent_bytes.
  clear. induction (Z.to_nat (f_width cfg) * Z.to_nat (f_depth cfg))%nat; cbn; auto.
Qed.


Lemma dbl_swap_last P x x' : x <> [] -> x' <> [] -> dbl (P ++ [x]) = false -> dbl (P ++ [x']) = false.
Proof.
  intros Hx Hx'. induction P as [|p P IH]; intros H; [reflexivity|].
  destruct P as [|p' P'']; [reflexivity|].
  cbn [app] in *. destruct P'' as [|p2 P3].
  - cbn [app dbl] in *. exact H.
  - rewrite dbl_cons3 by (cbn; discriminate). rewrite dbl_cons3 in H by (cbn; discriminate).
    apply orb_false_iff in H. destruct H as [H1 H2]. rewrite H1. cbn [orb]. apply IH. exact H2.
Qed.

(* the same text cut after its last byte that is neither blank nor line feed, when only blanks followed:
   its lines are a fixed point as they are *)
Lemma fmt_lines_end_fixed_nonl cfg m0 ms a c b :
  Forall noNL (m0 :: ms) ->
  fmt_tail cfg ms = ms -> sq ms = ms ->
  (if f_at_start cfg then dollar_head (fmt_head cfg m0 ms) ms else fmt_head cfg m0 ms) = m0 ->
  joinl (m0 :: ms) = (a ++ [c]) ++ b -> is_sp_nl c = false -> forallb is_sp b = true ->
  exists k0 ks, split_nl (a ++ [c]) = k0 :: ks /\ fmt_lines cfg k0 ks = k0 :: ks.
Proof.
  intros HM Et Es Eh EJ Hc Hb.
  assert (HcSP : c <> SP) by (intros ->; discriminate).
  assert (HcNL : c <> NL) by (intros ->; discriminate).
  assert (HbN : noNL b).
  { unfold noNL. apply Forall_forall. intros x Hx ->. rewrite forallb_forall in Hb. specialize (Hb NL Hx). discriminate. }
  pose proof (split_joinl m0 ms HM) as HL. rewrite EJ in HL.
  rewrite split_nl_app_gen, (split_nl_noNL_line b HbN) in HL. cbn [hd tl] in HL. rewrite app_nil_r in HL.
  assert (EK : split_nl (a ++ [c]) = removelast (split_nl a) ++ [last (split_nl a) [] ++ [c]]).
  { rewrite split_nl_app_gen. cbn [split_nl]. apply Z.eqb_neq in HcNL. rewrite HcNL. cbn [hd tl]. rewrite app_nil_r. reflexivity. }
  set (I := removelast (split_nl a)) in *. set (lastK := last (split_nl a) [] ++ [c]) in *.
  rewrite EK in HL. rewrite removelast_last, last_snoc in HL.
  assert (HlK1 : lastK <> []) by (unfold lastK; destruct (last (split_nl a) []); discriminate).
  assert (HlK2 : ends_sp lastK = false).
  { unfold lastK. rewrite ends_sp_app by discriminate. cbn. apply Z.eqb_neq. exact HcSP. }
  assert (HlK3 : forallb is_sp lastK = false) by (apply ends_sp_not_all_sp; assumption).
  assert (HlK4 : lstrip lastK <> []) by (apply lstrip_nonblank; exact HlK3).
  set (n := (Z.to_nat (f_width cfg) * Z.to_nat (f_depth cfg))%nat).
  assert (Eind : indent_bytes cfg = repeat SP n) by reflexivity.
  rewrite EK. destruct I as [|i0 I'] eqn:EI.
  - cbn [app] in HL. injection HL as Em0 Ems. exists lastK, []. split; [reflexivity|].
    unfold fmt_lines. change (fmt_tail cfg []) with (@nil (list Z)). cbn [sq].
    assert (EH : fmt_head cfg lastK [] = lastK).
    { unfold fmt_head. cbn [is_nil]. unfold fmt_head in Eh. rewrite <- Em0, <- Ems in Eh. cbn [is_nil] in Eh.
      destruct (f_at_start cfg) eqn:A.
      - fold (head_start (lastK ++ b)) in Eh. fold (head_start lastK).
        assert (Eh' : head_start (lastK ++ b) = lastK ++ b).
        { unfold dollar_head in Eh. destruct (forallb is_sp _ && _); [|exact Eh]. destruct lastK; [congruence | discriminate]. }
        rewrite head_start_app_sp in Eh' by assumption. apply app_inv_tail in Eh'. exact Eh'.
      - rewrite head_xx_app_sp in Eh by (reflexivity || assumption). apply app_inv_tail in Eh. exact Eh. }
    rewrite EH. destruct (f_at_start cfg); [|reflexivity]. unfold dollar_head. rewrite HlK3. reflexivity.
  - cbn [app] in HL. injection HL as Em0 Ems. subst i0. exists m0, (I' ++ [lastK]). split; [reflexivity|].
    assert (Et2 : fmt_tail cfg (I' ++ [lastK]) = I' ++ [lastK]).
    { rewrite fmt_tail_lines, map_last_snoc.
      rewrite fmt_tail_lines in Et. destruct (map_last_fix_inv _ _ Et) as [F1 F2]. f_equal.
      - rewrite <- (map_id I') at 2. apply map_ext_in. intros x Hx. apply F1. rewrite <- Ems.
        apply in_removelast_app. exact Hx.
      - f_equal. rewrite Eind in *.
        assert (Hl : last ms [] = lastK ++ b) by (rewrite <- Ems; apply last_last).
        assert (Hne : ms <> []) by (rewrite <- Ems; destruct I'; discriminate).
        specialize (F2 Hne). rewrite Hl in F2. unfold tail_line, indent_last in *. cbn [andb] in *.
        rewrite reind2_app_sp in F2 by assumption.
        rewrite forallb_app, all_sp_reind2, HlK3 in F2. cbn [andb] in F2. apply app_inv_tail in F2.
        rewrite all_sp_reind2, HlK3. exact F2. }
    unfold fmt_lines. rewrite Et2.
    assert (Esq : sq (I' ++ [lastK]) = I' ++ [lastK]).
    { rewrite sq_eq. apply sq'_fixed.
      apply (dbl_swap_last I' (lastK ++ b) lastK); [destruct lastK; [congruence | discriminate] | exact HlK1 |].
      rewrite Ems. rewrite <- Es, sq_eq. apply dbl_sq'. }
    rewrite Esq. f_equal.
    assert (N1 : is_nil ms = false) by (rewrite <- Ems; destruct I'; reflexivity).
    assert (N2 : is_single_empty ms = false).
    { rewrite <- Ems. destruct I' as [|i I'']; cbn [app].
      - destruct lastK; [congruence|]. reflexivity.
      - destruct I''; cbn [app]; destruct i; reflexivity. }
    assert (N3 : is_nil (I' ++ [lastK]) = false) by (destruct I'; reflexivity).
    assert (N4 : is_single_empty (I' ++ [lastK]) = false).
    { destruct I' as [|i I'']; cbn [app].
      - destruct lastK; [congruence|]. reflexivity.
      - destruct I''; cbn [app]; destruct i; reflexivity. }
    rewrite (fmt_head_tail_irrelevant cfg m0 _ ms) by (rewrite N1, N3; reflexivity).
    destruct (f_at_start cfg).
    + rewrite dollar_head_keep in Eh by assumption. rewrite dollar_head_keep; assumption.
    + exact Eh.
Qed.

Lemma all_spnl_repeat_sp n : forallb is_sp_nl (repeat SP n) = true.
Proof. induction n; cbn; auto. Qed.

Theorem fmt_run_idempotent_end cfg r : f_at_end cfg = true -> fmt_run cfg (fmt_run cfg r) = fmt_run cfg r.
Proof.
  intros He.
  destruct (split_nl (canon_ws r)) as [|l0 ls] eqn:HS; [destruct (split_nl_nonempty _ HS)|].
  pose proof (split_nl_noNL (canon_ws r)) as HN. rewrite HS in HN.
  pose proof (noNL_fmt_lines cfg l0 ls HN) as HM.
  pose proof (fmt_run_clean cfg r) as Hc.
  pose proof (fmt_run_lines cfg r l0 ls HS) as E. rewrite He in E.
  destruct (fmt_lines cfg l0 ls) as [|m0 ms] eqn:EM; [discriminate|].
  destruct (fmt_lines_fixed_facts cfg l0 ls m0 ms EM) as (Ft & Fs & Fh).
  destruct (trail_nl_spec (joinl (m0 :: ms))) as [[HJ Eo] | (a & c & b & EJ & Hc0 & Hb & Eo)].
  - rewrite E, Eo. destruct (existsb is_nl _); [apply fmt_run_nl_end; exact He | apply fmt_run_empty].
  - assert (EJ' : joinl (m0 :: ms) = (a ++ [c]) ++ b) by (rewrite EJ, <- app_assoc; reflexivity).
    destruct (existsb is_nl b) eqn:Nb.
    + destruct (fmt_lines_end_fixed cfg m0 ms a c b HM Ft Fs Fh EJ' Hc0 Hb) as (k0 & ks & EK & EF).
      assert (Eo2 : fmt_run cfg r = (a ++ [c]) ++ [NL]) by (rewrite E, Eo, <- app_assoc; reflexivity).
      assert (S2 : split_nl (canon_ws (fmt_run cfg r)) = k0 :: (ks ++ [[]])).
      { rewrite canon_ws_id by exact Hc. rewrite Eo2, split_nl_app_nl, EK. reflexivity. }
      rewrite (fmt_run_lines cfg (fmt_run cfg r) k0 (ks ++ [[]]) S2), He, EF.
      rewrite joinl_snoc by discriminate. rewrite <- EK, joinl_split.
      rewrite <- app_assoc. cbn [app]. rewrite trail_nl_core; [| exact Hc0 |].
      * assert (X : existsb is_nl (NL :: indent_bytes cfg) = true) by reflexivity.
        rewrite X, Eo2, <- app_assoc. reflexivity.
      * cbn [forallb]. unfold indent_bytes. rewrite all_spnl_repeat_sp. reflexivity.
    + pose proof (all_spnl_no_nl b Hb Nb) as Hbs.
      destruct (fmt_lines_end_fixed_nonl cfg m0 ms a c b HM Ft Fs Fh EJ' Hc0 Hbs) as (k0 & ks & EK & EF).
      assert (Eo2 : fmt_run cfg r = a ++ [c]) by (rewrite E, Eo; reflexivity).
      assert (S2 : split_nl (canon_ws (fmt_run cfg r)) = k0 :: ks).
      { rewrite canon_ws_id by exact Hc. rewrite Eo2. exact EK. }
      rewrite (fmt_run_lines cfg (fmt_run cfg r) k0 ks S2), He, EF.
      rewrite <- EK, joinl_split.
      change (a ++ [c]) with (a ++ c :: []). rewrite trail_nl_core by (assumption || reflexivity).
      cbn [existsb]. rewrite Eo2. reflexivity.
Qed.

Theorem fmt_run_idempotent_all cfg r : fmt_run cfg (fmt_run cfg r) = fmt_run cfg r.
Proof.
  destruct (f_at_end cfg) eqn:E; [apply fmt_run_idempotent_end | apply fmt_run_idempotent]; exact E.
Qed.

(* ---------- blanks after the last token of a file that has no final newline ----------
   (the third fix: they used to become a newline, so that adding trailing spaces to the last line changed
   the output) *)
Theorem fmt_run_end_only_blanks cfg r : f_at_end cfg = true -> forallb is_sp r = true -> fmt_run cfg r = [].
Proof.
  intros He Hr.
  assert (Hc : clean r).
  { unfold clean. apply Forall_forall. intros x Hx. rewrite forallb_forall in Hr. specialize (Hr x Hx).
    unfold is_sp in Hr. apply Z.eqb_eq in Hr. subst x. split; discriminate. }
  assert (Hn : noNL r).
  { unfold noNL. apply Forall_forall. intros x Hx ->. rewrite forallb_forall in Hr. specialize (Hr NL Hx). discriminate. }
  assert (S : split_nl (canon_ws r) = [r]) by (rewrite canon_ws_id by exact Hc; apply split_nl_noNL_line; exact Hn).
  rewrite (fmt_run_lines cfg r r [] S), He. unfold fmt_lines. change (fmt_tail cfg []) with (@nil (list Z)). cbn [sq].
  pose proof (proj1 (all_sp_lstrip r) Hr) as El.
  assert (EH : fmt_head cfg r [] = r).
  { unfold fmt_head. cbn [is_nil]. destruct (f_at_start cfg).
    - rewrite (head_xx_blank DASH _ r El). apply head_xx_blank. exact El.
    - apply head_xx_blank. exact El. }
  rewrite EH.
  assert (EA : forallb is_sp_nl (if f_at_start cfg then dollar_head r [] else r) = true /\
               existsb is_nl (if f_at_start cfg then dollar_head r [] else r) = false).
  { destruct (f_at_start cfg).
    - unfold dollar_head. rewrite Hr. cbn. auto.
    - split; [apply all_sp_all_spnl; exact Hr|].
      destruct (existsb is_nl r) eqn:N; [|reflexivity]. apply existsb_exists in N. destruct N as (x & Hx & Hx2).
      unfold is_nl in Hx2. apply Z.eqb_eq in Hx2. subst x. unfold noNL in Hn. rewrite Forall_forall in Hn. destruct (Hn NL Hx eq_refl). }
  destruct EA as [A1 A2]. cbn [joinl flat map concat]. rewrite app_nil_r.
  rewrite trail_nl_allspnl by exact A1. rewrite A2. reflexivity.
Qed.

(* ====================================================================== E at the end of the file:
   also the blanks that end the last line of the file are layout *)
Definition rstrip_last (L : list (list Z)) : list (list Z) :=
  match L with
  | [] => []
  | _ => removelast L ++ [rstrip (last L [])]
  end.

Definition strip_line_edges_end (at_start : bool) (s : list Z) : list Z :=
  joinl (edge_strip at_start (rstrip_last (split_nl s))).

Lemma rstrip_decomp l : exists sp, l = rstrip l ++ sp /\ forallb is_sp sp = true.
Proof.
  induction l as [|c l IH]; [exists []; auto|]. cbn [rstrip]. destruct (forallb is_sp (c :: l)) eqn:F.
  - exists (c :: l). auto.
  - destruct IH as (sp & E & Hs). exists sp. split; [cbn [app]; f_equal; exact E | exact Hs].
Qed.

Lemma trail_nl_app_sp x sp : forallb is_sp sp = true -> trail_nl (x ++ sp) = trail_nl x.
Proof.
  intros Hs. pose proof (all_sp_all_spnl sp Hs) as Hs2.
  assert (Hn : existsb is_nl sp = false).
  { destruct (existsb is_nl sp) eqn:N; [|reflexivity]. apply existsb_exists in N. destruct N as (y & Hy & Hy2).
    rewrite forallb_forall in Hs. specialize (Hs y Hy). unfold is_sp in Hs. unfold is_nl in Hy2.
    apply Z.eqb_eq in Hs, Hy2. subst. discriminate. }
  destruct (spnl_decomp x) as [H | (a & c & b & -> & Hc & Hb)].
  - rewrite !trail_nl_allspnl by (try rewrite forallb_app, H, Hs2; reflexivity || assumption).
    rewrite existsb_app, Hn, orb_false_r. reflexivity.
  - rewrite <- app_assoc. cbn [app]. rewrite !trail_nl_core by (try rewrite forallb_app, Hb, Hs2; reflexivity || assumption).
    rewrite existsb_app, Hn, orb_false_r. reflexivity.
Qed.

Lemma joinl_last_app L x sp : joinl (L ++ [x ++ sp]) = joinl (L ++ [x]) ++ sp.
Proof.
  destruct L as [|l ls].
  - cbn. rewrite !app_nil_r. reflexivity.
  - rewrite !joinl_snoc by discriminate. rewrite <- app_assoc. reflexivity.
Qed.

(* the squeeze does not look at a non-empty last line *)
Lemma sq'_step t t1 r' : r' <> [] ->
  sq' (t :: t1 :: r') = if is_nil t && is_nil t1 then sq' (t1 :: r') else t :: sq' (t1 :: r').
Proof. destruct r'; [congruence | reflexivity]. Qed.

Lemma sq'_last_nonempty T : exists T', forall y, y <> [] -> sq' (T ++ [y]) = T' ++ [y].
Proof.
  induction T as [|t T IH].
  - exists []. intros y _. reflexivity.
  - destruct IH as (T' & IH). destruct T as [|t1 T1].
    + exists [t]. intros y Hy. reflexivity.
    + destruct (is_nil t && is_nil t1) eqn:D.
      * exists T'. intros y Hy. change ((t :: t1 :: T1) ++ [y]) with (t :: t1 :: (T1 ++ [y])).
        rewrite sq'_step by (destruct T1; discriminate). rewrite D. apply (IH y Hy).
      * exists (t :: T'). intros y Hy. change ((t :: t1 :: T1) ++ [y]) with (t :: t1 :: (T1 ++ [y])).
        rewrite sq'_step by (destruct T1; discriminate). rewrite D. cbn [app]. f_equal. apply (IH y Hy).
Qed.

Lemma fmt_lines_rstrip_last cfg l0 ls : Forall noNL (l0 :: ls) ->
  trail_nl (joinl (fmt_lines cfg (hd [] (rstrip_last (l0 :: ls))) (tl (rstrip_last (l0 :: ls)))))
  = trail_nl (joinl (fmt_lines cfg l0 ls)).
Proof.
  intros HN. set (n := (Z.to_nat (f_width cfg) * Z.to_nat (f_depth cfg))%nat).
  assert (Eind : indent_bytes cfg = repeat SP n) by reflexivity.
  destruct ls as [|l1 ls'] using rev_ind.
  - (* a single line *)
    cbn [rstrip_last removelast last app hd tl].
    destruct (rstrip_decomp l0) as (sp & E & Hs). remember (rstrip l0) as v eqn:Dv.
    unfold fmt_lines. change (fmt_tail cfg []) with (@nil (list Z)). cbn [sq joinl flat map concat]. rewrite !app_nil_r.
    unfold fmt_head. cbn [is_nil].
    destruct (forallb is_sp l0) eqn:B.
    + (* blank *)
      assert (Ev : v = []) by (rewrite Dv; apply rstrip_all_sp; exact B).
      pose proof (proj1 (all_sp_lstrip l0) B) as El.
      rewrite Ev. destruct (f_at_start cfg).
      * rewrite (head_xx_blank DASH _ l0 El), (head_xx_blank SLASH _ l0 El). unfold dollar_head. rewrite B. reflexivity.
      * rewrite (head_xx_blank DASH _ l0 El). cbn.
        rewrite trail_nl_allspnl by (apply all_sp_all_spnl; exact B).
        assert (Hn : existsb is_nl l0 = false).
        { destruct (existsb is_nl l0) eqn:N; [|reflexivity]. apply existsb_exists in N. destruct N as (y & Hy & Hy2).
          rewrite forallb_forall in B. specialize (B y Hy). unfold is_sp in B. unfold is_nl in Hy2.
          apply Z.eqb_eq in B, Hy2. subst. discriminate. }
        rewrite Hn. reflexivity.
    + assert (Hv : lstrip v <> []).
      { apply lstrip_nonblank. destruct (forallb is_sp v) eqn:F; [|reflexivity].
        rewrite E, forallb_app, F, Hs in B. discriminate. }
      destruct (f_at_start cfg); rewrite E.
      * fold (head_start v). fold (head_start (v ++ sp)). rewrite head_start_app_sp by assumption.
        unfold dollar_head. cbn [is_nil orb]. rewrite !andb_true_r, forallb_app, Hs, andb_true_r.
        destruct (forallb is_sp (head_start v)); [reflexivity|]. symmetry. apply trail_nl_app_sp. exact Hs.
      * rewrite head_xx_app_sp by (reflexivity || assumption). symmetry. apply trail_nl_app_sp. exact Hs.
  - (* the last line is a later one *)
    clear IHls'. set (P := ls') in *. set (x := l1) in *.
    assert (ERL : rstrip_last (l0 :: P ++ [x]) = l0 :: P ++ [rstrip x]).
    { unfold rstrip_last. change (l0 :: P ++ [x]) with ((l0 :: P) ++ [x]). rewrite removelast_last, last_last. reflexivity. }
    rewrite ERL. cbn [hd tl].
    destruct (rstrip_decomp x) as (sp & E & Hs). remember (rstrip x) as v eqn:Dv.
    unfold fmt_lines.
    rewrite (fmt_head_tail_irrelevant cfg l0 (P ++ [v]) (P ++ [x])) by (destruct P; reflexivity).
    rewrite !fmt_tail_lines, !map_last_snoc.
    set (T := map (tail_line (indent_bytes cfg) false) P).
    destruct (forallb is_sp x) eqn:B.
    + assert (Ev : v = []) by (rewrite Dv; apply rstrip_all_sp; exact B).
      assert (E1 : tail_line (indent_bytes cfg) true x = tail_line (indent_bytes cfg) true v).
      { rewrite Ev. unfold tail_line, indent_last. cbn [andb]. rewrite Eind, !all_sp_reind2, B. reflexivity. }
      rewrite E1. reflexivity.
    + assert (Hv : lstrip v <> []).
      { apply lstrip_nonblank. destruct (forallb is_sp v) eqn:F; [|reflexivity].
        rewrite E, forallb_app, F, Hs in B. discriminate. }
      assert (Bv : forallb is_sp v = false).
      { destruct (forallb is_sp v) eqn:F; [|reflexivity]. apply all_sp_lstrip in F. congruence. }
      set (y := tail_line (indent_bytes cfg) true v).
      assert (E1 : tail_line (indent_bytes cfg) true x = y ++ sp).
      { unfold y, tail_line, indent_last. cbn [andb]. rewrite E. rewrite Eind, reind2_app_sp by assumption.
        rewrite forallb_app, !all_sp_reind2, Bv. reflexivity. }
      assert (Hy : y <> []).
      { unfold y, tail_line, indent_last. cbn [andb]. rewrite Eind, all_sp_reind2, Bv.
        intros Ey. pose proof (all_sp_reind2 n v) as A. rewrite Ey, Bv in A. discriminate. }
      assert (Hys : y ++ sp <> []) by (destruct y; [congruence | discriminate]).
      rewrite E1. destruct (sq'_last_nonempty T) as (T' & HT). rewrite !sq_eq, (HT y Hy), (HT (y ++ sp) Hys).
      assert (D : forall h z, z <> [] -> dollar_head h (T ++ [z]) = h).
      { intros h z Hz. apply dollar_head_keep; [destruct T; reflexivity|].
        destruct T as [|a [|b T'']]; cbn [app]; [destruct z; [congruence | reflexivity] | destruct a; reflexivity | destruct a; reflexivity]. }
      set (h := fmt_head cfg l0 (P ++ [x])).
      assert (EH : (if f_at_start cfg then dollar_head h (T ++ [y ++ sp]) else h) = (if f_at_start cfg then dollar_head h (T ++ [y]) else h)).
      { destruct (f_at_start cfg); [rewrite !D by assumption|]; reflexivity. }
      rewrite EH. set (h' := if f_at_start cfg then dollar_head h (T ++ [y]) else h).
      change (h' :: T' ++ [y ++ sp]) with ((h' :: T') ++ [y ++ sp]). change (h' :: T' ++ [y]) with ((h' :: T') ++ [y]).
      rewrite joinl_last_app. symmetry. apply trail_nl_app_sp. exact Hs.
Qed.

Lemma noNL_rstrip_last L : Forall noNL L -> Forall noNL (rstrip_last L).
Proof.
  intros H. destruct L as [|l L']; [constructor|]. unfold rstrip_last. apply Forall_app. split.
  - rewrite Forall_forall in *. intros x Hx. apply H. destruct (exists_last (l := l :: L') ltac:(discriminate)) as (q & z & E).
    rewrite E in *. rewrite removelast_last in Hx. apply in_or_app. left. exact Hx.
  - constructor; [|constructor]. apply noNL_rstrip. rewrite Forall_forall in H. apply H.
    destruct (exists_last (l := l :: L') ltac:(discriminate)) as (q & z & E). rewrite E, last_last.
    apply in_or_app. right. left. reflexivity.
Qed.

Theorem fmt_run_depends_on_norm_end cfg r1 r2 : f_at_end cfg = true ->
  strip_line_edges_end (f_at_start cfg) (canon_ws r1) = strip_line_edges_end (f_at_start cfg) (canon_ws r2) ->
  fmt_run cfg r1 = fmt_run cfg r2.
Proof.
  unfold strip_line_edges_end. intros He H.
  destruct (split_nl (canon_ws r1)) as [|a1 t1] eqn:S1; [destruct (split_nl_nonempty _ S1)|].
  destruct (split_nl (canon_ws r2)) as [|a2 t2] eqn:S2; [destruct (split_nl_nonempty _ S2)|].
  pose proof (split_nl_noNL (canon_ws r1)) as N1. rewrite S1 in N1.
  pose proof (split_nl_noNL (canon_ws r2)) as N2. rewrite S2 in N2.
  rewrite (fmt_run_lines cfg r1 a1 t1 S1), (fmt_run_lines cfg r2 a2 t2 S2), He.
  rewrite <- (fmt_lines_rstrip_last cfg a1 t1 N1), <- (fmt_lines_rstrip_last cfg a2 t2 N2).
  pose proof (noNL_rstrip_last _ N1) as M1. pose proof (noNL_rstrip_last _ N2) as M2.
  destruct (rstrip_last (a1 :: t1)) as [|b1 u1] eqn:R1; [destruct t1; discriminate|].
  destruct (rstrip_last (a2 :: t2)) as [|b2 u2] eqn:R2; [destruct t2; discriminate|].
  cbn [hd tl].
  apply (f_equal split_nl) in H.
  assert (E1 : exists x y, edge_strip (f_at_start cfg) (b1 :: u1) = x :: y) by (eexists _, _; reflexivity).
  assert (E2 : exists x y, edge_strip (f_at_start cfg) (b2 :: u2) = x :: y) by (eexists _, _; reflexivity).
  destruct E1 as (x1 & y1 & E1). destruct E2 as (x2 & y2 & E2).
  pose proof (noNL_edge_strip (f_at_start cfg) _ M1) as K1.
  pose proof (noNL_edge_strip (f_at_start cfg) _ M2) as K2.
  rewrite E1 in H, K1. rewrite E2 in H, K2. rewrite !split_joinl in H by assumption.
  rewrite <- (fmt_lines_edge cfg b1 u1), <- (fmt_lines_edge cfg b2 u2).
  rewrite E1, E2, H. reflexivity.
Qed.
