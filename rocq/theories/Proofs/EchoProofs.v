(* C06: the echo writer over the lexer model. *)
From PV Require Import Base.Prelude Generated.T_lexer Model.Lexer Model.EchoWriter Spec.LuaLex
  Instances.HoldsC07 Instances.HoldsC06
  Proofs.LexerProofs Proofs.LexerInv Proofs.LexerSpec Proofs.LexerStr Proofs.LexerEnc Proofs.LexerNum
  Proofs.LexerAgree Proofs.LexerMain Proofs.LexerView Proofs.LexerChunk.
From Coq Require Import ZifyBool.

(* ---------- the writer only concatenates the codes *)
Lemma echo_lines_concat ts : forall strs,
  concat (echo_lines ts strs) = concat (rev strs) ++ concat (map tok_code ts).
Proof.
  induction ts as [|t r IH]; intros strs; cbn [echo_lines map concat].
  - destruct strs as [|x strs]; [reflexivity|]. unfold join_rev. rewrite rev'_eq. cbn [concat]. rewrite !app_nil_r. reflexivity.
  - destruct (is_newline_tok t).
    + cbn [concat]. rewrite IH. unfold join_rev. rewrite rev'_eq. cbn [rev concat app]. rewrite concat_app. cbn [concat].
      rewrite app_nil_r, <- app_assoc. reflexivity.
    + rewrite IH. cbn [rev]. rewrite concat_app. cbn [concat]. rewrite app_nil_r, <- app_assoc. reflexivity.
Qed.

Lemma echo_concat ts : concat (echo ts) = concat (map tok_code ts).
Proof. unfold echo. rewrite echo_lines_concat. reflexivity. Qed.

(* every yielded line but the last ends with the code of a newline token *)

(* ---------- code = extent for every token that is not a quoted string (any input, any chunking) *)
Definition tok_ok (t : tok) : Prop :=
  match t_kind t with
  | KString =>
    match t_ml t with
    | Some eqs => t_ext t = 91 :: eqs ++ 91 :: t_data t ++ 93 :: eqs ++ [93]
    | None => exists q raw, t_quote t = [q] /\ t_ext t = q :: raw
    end
  | _ => t_data t = t_ext t
  end.

Definition state_ok (ms : mstate) : Prop :=
  match ms with
  | InLongString eqs acc _ _ ext => rev ext = 91 :: eqs ++ 91 :: rev acc
  | InString delim _ _ _ ext => exists raw, rev ext = delim :: raw
  | _ => True
  end.

Lemma process_token_ok ms l c s ms' ot piece rest :
  state_ok ms -> process_token ms l c s = Ok (Some (ms', ot, piece, rest)) ->
  state_ok ms' /\ match ot with Some t => tok_ok t | None => True end.
Proof.
  intros Hok H. destruct ms as [|delim acc sl sc ext|acc sl sc|eqs acc sl sc ext]; cbn [process_token] in H.
  - destruct (drop_prefix [45; 45; 91; 91] s) as [r0|]; [inversion H; subst; cbn; auto|].
    destruct (match_long_open s) as [[eqs r1]|].
    { inversion H; subst. split; [|exact I]. cbn [state_ok]. rewrite rev'_eq, rev_involutive. reflexivity. }
    destruct s as [|c0 r]; [discriminate|].
    destruct ((c0 =? 39) || (c0 =? 34)).
    { inversion H; subst. split; [|exact I]. cbn. exists []. reflexivity. }
    destruct (first_matcher token_matchers (c0 :: r)) as [[[k a] r']|] eqn:E; [|discriminate].
    inversion H; subst. split; [exact I|]. unfold tok_ok. cbn [t_kind t_data t_ext t_ml].
    (* no matcher row has class KString *)
    assert (Hk : k <> KString).
    { clear -E. assert (T : forallb (fun mk => negb (kind_code (snd mk) =? 3)) token_matchers = true) by (vm_compute; reflexivity).
      revert E. generalize token_matchers T. clear T. intros tbl. induction tbl as [|[m k0] tbl IH]; intros T E; [discriminate|].
      cbn [forallb] in T. apply andb_true_iff in T. destruct T as [T1 T2]. cbn [first_matcher] in E.
      destruct (run_matcher m (c0 :: r)) as [[x y]|].
      - inversion E; subst. cbn [snd] in T1. intros ->. discriminate.
      - apply (IH T2 E). }
    destruct k; try reflexivity. congruence.
  - destruct s as [|c0 r0]; [discriminate|]. destruct Hok as [raw0 Hraw].
    destruct (scan_string (length (c0 :: r0)) delim (c0 :: r0) acc []) as [[acc' pc rest'|acc' pc]|e]; [| |discriminate];
      inversion H; subst.
    + split; [exact I|]. unfold tok_ok. cbn [t_kind t_ml t_quote t_ext]. exists delim, (raw0 ++ rev pc). split; [reflexivity|].
      rewrite rev_append_rev, rev'_eq, Hraw. reflexivity.
    + split; [|exact I]. cbn [state_ok]. exists (raw0 ++ rev pc). rewrite rev_app_distr, Hraw. reflexivity.
  - destruct (find_rbrackets s) as [[a rest']|].
    + inversion H; subst. split; [exact I | reflexivity].
    + destruct s as [|c0 r0]; [discriminate|]. inversion H; subst. split; exact I.
  - cbn [state_ok] in Hok. destruct (find_long_close (93 :: eqs ++ [93]) s) as [[a rest']|].
    + inversion H; subst. split; [exact I|]. unfold tok_ok. cbn [t_kind t_ml t_data t_ext].
      rewrite !rev_append_rev, Hok. cbn [app]. rewrite <- !app_assoc. cbn [app]. reflexivity.
    + destruct s as [|c0 r0]; [discriminate|]. remember (c0 :: r0) as s0. inversion H; subst ms' ot piece rest.
      split; [|exact I]. cbn [state_ok]. rewrite !rev_append_rev, !rev_app_distr, !rev_involutive, Hok.
      cbn [app]. rewrite <- !app_assoc. reflexivity.
Qed.

Definition st_ok (st : lexst) : Prop := state_ok (l_state st) /\ Forall tok_ok (l_toks_rev st).

Lemma process_line_ok fuel : forall st s st', st_ok st -> process_line fuel st s = Ok st' -> st_ok st'.
Proof.
  induction fuel as [|f IH]; intros st s st' Hok H; [discriminate|]. rewrite process_line_S in H.
  destruct (process_token (l_state st) (l_line st) (l_col st) s) as [[[[[ms ot] piece] rest]|]|e] eqn:E; [| |discriminate].
  - destruct (is_nil piece).
    + destruct (is_nil s); [|discriminate]. inversion H; subst. exact Hok.
    + destruct Hok as [H1 H2]. destruct (process_token_ok _ _ _ _ _ _ _ _ H1 E) as [K1 K2].
      destruct (advance (l_line st, l_col st) piece) as [l' c']. apply IH in H; [exact H|].
      split; [exact K1|]. cbn [l_toks_rev]. destruct ot as [t|]; [constructor; assumption | exact H2].
  - destruct (is_nil s); [|discriminate]. inversion H; subst. exact Hok.
Qed.

Lemma process_chunks_ok cs : forall st st', st_ok st -> process_chunks st cs = Ok st' -> st_ok st'.
Proof.
  induction cs as [|c cs IH]; intros st st' Hok H; cbn [process_chunks] in H; [inversion H; subst; exact Hok|].
  destruct (process_line (S (length c)) st c) as [st1|e] eqn:E; [|discriminate].
  apply (IH st1 st'); [apply (process_line_ok _ _ _ _ Hok E) | exact H].
Qed.

Lemma model_lex_tok_ok chunks ts : model_lex chunks = Ok ts -> Forall tok_ok ts.
Proof.
  unfold model_lex. destruct (process_chunks init_lexst chunks) as [st|e] eqn:E; [|discriminate].
  assert (Hi : st_ok init_lexst) by (split; [exact I | constructor]).
  destruct (process_chunks_ok _ _ _ Hi E) as [_ HF]. destruct (l_state st); try discriminate.
  intros H; inversion H; subst. rewrite rev'_eq. apply Forall_rev. exact HF.
Qed.

Definition quoted_tok (t : tok) : bool :=
  match t_kind t, t_ml t with KString, None => true | _, _ => false end.

Lemma tok_ok_code t : tok_ok t -> quoted_tok t = false -> tok_code t = t_ext t.
Proof.
  unfold tok_ok, quoted_tok, tok_code. destruct (t_kind t); try (intros H _; exact H).
  destruct (t_ml t) as [eqs|]; [|discriminate]. intros H _. symmetry. exact H.
Qed.

Lemma code_is_extent chunks ts : model_lex chunks = Ok ts ->
  Forall (fun t => quoted_tok t = false -> tok_code t = t_ext t) ts.
Proof.
  intros H. apply model_lex_tok_ok in H. rewrite Forall_forall in *. intros t Ht Hq. apply tok_ok_code; [apply H; exact Ht | exact Hq].
Qed.

(* ---------- quoted strings of the reference: the quote and the bytes *)
Definition qs_ok (s : stok) : Prop :=
  is_quoted s = true -> exists q, (q = 34 \/ q = 39) /\ firstn 1 (s_raw s) = [q] /\ Forall byte (s_text s).

Lemma spec_step_quoted s t rest : Forall byte s -> spec_step s = Some (t, rest) -> qs_ok t.
Proof.
  intros HB H Hq. destruct s as [|c r]; [discriminate|]. unfold spec_step in H.
  assert (Sym : forall x y, spec_symbol x = Some (t, y) -> False).
  { intros x y Hs. destruct (spec_symbol_inv _ _ _ Hs) as (z & _ & _ & -> & _). discriminate Hq. }
  assert (Num : forall x y, spec_number x = Some (t, y) -> False).
  { intros x y Hs. unfold spec_number in Hs. destruct (num_split x) as [run rs].
    destruct (spec_numeral run) as [[n d]|]; [|discriminate]. inversion Hs; subst. discriminate Hq. }
  assert (Lc : forall x y, line_comment x = Some (t, y) -> False).
  { intros x y Hs. unfold line_comment in Hs. destruct (span _ x). inversion Hs; subst. discriminate Hq. }
  destruct (is_blank c). { destruct (span is_blank (c :: r)). inversion H; subst. discriminate Hq. }
  destruct (c =? 10). { inversion H; subst. discriminate Hq. }
  destruct (c =? 13).
  { destruct r as [|y r']; [discriminate|]. rewrite match10 in H. destruct (y =? 10); [|discriminate].
    inversion H; subst. discriminate Hq. }
  destruct (c =? 45).
  { destruct r as [|y r2]; [exfalso; eapply Sym; exact H|]. rewrite match45 in H.
    destruct (y =? 45); [|exfalso; eapply Sym; exact H].
    destruct r2 as [|z r3]; [exfalso; eapply Lc; exact H|]. rewrite match91 in H.
    destruct (z =? 91); [|exfalso; eapply Lc; exact H].
    destruct (long_open r3 0) as [[lvl r4]|]; [|exfalso; eapply Lc; exact H].
    destruct (lvl =? 0); [|discriminate]. destruct (long_body 0 r4) as [[[b cl] rs]|]; [|discriminate].
    inversion H; subst. discriminate Hq. }
  destruct (c =? 47).
  { destruct r as [|y r2]; [exfalso; eapply Sym; exact H|]. rewrite match47 in H.
    destruct (y =? 47); [exfalso; eapply Lc; exact H | exfalso; eapply Sym; exact H]. }
  destruct (c =? 91).
  { destruct (long_open r 0) as [[lvl r2]|] eqn:Lo.
    - destruct (long_open_match _ _ _ _ (Z.le_refl 0) Lo) as [Hl _].
      destruct (long_body (Z.to_nat lvl) r2) as [[[b cl] rs]|]; [|discriminate]. inversion H; subst.
      unfold is_quoted in Hq. cbn [s_kind s_long] in Hq. lia.
    - destruct r as [|y r2]; [exfalso; eapply Sym; exact H|]. rewrite match61 in H.
      destruct (y =? 61); [discriminate | exfalso; eapply Sym; exact H]. }
  destruct ((c =? 34) || (c =? 39)) eqn:Cq.
  { destruct (unescape_until c r) as [[[v raw] rs]|] eqn:U; [|discriminate]. inversion H; subst.
    exists c. split; [lia|]. split; [reflexivity|]. cbn [s_text].
    inversion HB; subst. apply (unescape_until_bytes c r v raw rest); assumption. }
  destruct (is_digit c); [exfalso; eapply Num; exact H|].
  destruct (c =? 46).
  { destruct r as [|d r']; [exfalso; eapply Sym; exact H|].
    destruct (is_digit d); [exfalso; eapply Num; exact H | exfalso; eapply Sym; exact H]. }
  destruct (is_name_start c).
  { destruct (span is_name_char (c :: r)) as [a b]. destruct (mem_bytes a spec_keywords); inversion H; subst; discriminate Hq. }
  destruct (c =? 58).
  { destruct r as [|y r2]; [exfalso; eapply Sym; exact H|]. rewrite match58 in H.
    destruct (y =? 58); [|exfalso; eapply Sym; exact H].
    destruct (span is_name_char r2) as [a b]. destruct a as [|n0 a']; [discriminate|].
    destruct (strip_prefix [58; 58] b); [|discriminate]. destruct (is_name_start n0); [|discriminate].
    inversion H; subst. discriminate Hq. }
  destruct (c =? 63). { inversion H; subst. discriminate Hq. }
  exfalso; eapply Sym; exact H.
Qed.

Lemma spec_toks_qs l c s ts : spec_toks l c s ts -> Forall byte s -> crlf_only s = true -> Forall qs_ok ts.
Proof.
  induction 1 as [l c | l c s t rest l' c' ts Es Hne Ha Hts IH]; intros HB Hcr; [constructor|].
  destruct (step_agrees s t rest l c HB Hcr Es Hne) as (tk & St & Hext & _ & _).
  destruct St as [Hsplit _ _ _ _]. rewrite Hext in Hsplit.
  constructor.
  - pose proof (spec_step_quoted s t rest HB Es) as Q. unfold qs_ok, is_quoted, at_pos in *. cbn [s_kind s_long s_raw s_text]. exact Q.
  - apply IH; [apply (Forall_app_r' _ (s_raw t)); rewrite <- Hsplit; exact HB
              | apply (crlf_only_app (s_raw t)); rewrite <- Hsplit; exact Hcr].
Qed.

Lemma spec_lex_qs src ss : Forall byte src -> spec_lex src = Some ss -> Forall qs_ok ss.
Proof.
  intros HB H. unfold spec_lex in H. destruct (crlf_only src) eqn:Hcr; [|discriminate].
  destruct (spec_lex_fuel_toks _ _ _ _ _ _ H) as (ts & -> & Hts). cbn [rev app].
  apply (spec_toks_qs 0 0 src ts Hts HB Hcr).
Qed.

(* ---------- the echoed text walks along the reference tokens of the source *)
Lemma strip_prefix_app k b : strip_prefix k (k ++ b) = Some b.
Proof. rewrite <- drop_strip. apply drop_prefix_app. Qed.

Lemma walk_codes ss : forall ts k, Forall2 agree ss ts -> Forall qs_ok ss ->
  walk ss (concat (map tok_code ts)) k = None.
Proof.
  induction ss as [|s ss IH]; intros ts k Hag Hq; inversion Hag as [|? t ? ts' Hst Hag']; subst; [reflexivity|].
  inversion Hq as [|? ? Hqs Hq']; subst. cbn [map concat walk].
  pose proof (agree_code s t Hst) as Hc. inversion Hc as [[Hk Hcode]]. rewrite Hcode.
  destruct (is_quoted s) eqn:Q.
  - destruct (Hqs Q) as (q & Hq34 & Hfirst & Hbytes).
    unfold spec_code. unfold is_quoted in Q. destruct (s_kind s); try discriminate. rewrite Q, Hfirst.
    unfold reencode. cbn [app]. rewrite zlist_eqb_refl, <- app_assoc. cbn [app].
    rewrite (reencode_lexes q (s_text s) _ Hq34 Hbytes), zlist_eqb_refl. apply IH; assumption.
  - assert (E : spec_code s = s_raw s).
    { unfold spec_code. unfold is_quoted in Q. destruct (s_kind s); try reflexivity. rewrite Q. reflexivity. }
    rewrite E, strip_prefix_app. apply IH; assumption.
Qed.

(* the monitor predicate on the model's own echo: for EVERY byte string, in the dialect the source is
   lexed and echoed faithfully; outside the dialect no claim *)
Theorem model_holds_C06 src : Forall byte src ->
  match echo_source [src] with
  | Ok lines => holds_C06 src (concat lines) = true
  | Err _ => holds_C06_error src = true
  end.
Proof.
  intros HB. unfold echo_source, holds_C06, holds_C06_error, diff_C06. destruct (spec_lex src) as [ss|] eqn:Es.
  - destruct (lex_agrees src ss HB Es) as (ts & -> & Hag). rewrite echo_concat.
    rewrite (walk_codes ss ts 0 Hag (spec_lex_qs src ss HB Es)). reflexivity.
  - destruct (model_lex [src]); reflexivity.
Qed.

(* the source spelling of a quoted string denotes, by the reference decoder, the bytes the lexer stores *)
Theorem string_decode_agrees q body v :
  q = 34 \/ q = 39 -> Forall byte body -> crlf_only (body ++ [q]) = true ->
  spec_unescape q body = Some v ->
  exists pc, scan_string (S (length body)) q (body ++ [q]) [] [] = Ok (SClosed (rev v) pc []).
Proof.
  intros Hq HB Hcr H. unfold spec_unescape in H.
  destruct (unescape_until q (body ++ [q])) as [[[v0 raw] rest]|] eqn:U; [|discriminate].
  destruct rest; [|discriminate]. inversion H; subst v0.
  assert (HB' : Forall byte (body ++ [q])) by (apply Forall_app; split; [exact HB | constructor; [destruct Hq; subst; cls | constructor]]).
  exists (rev raw ++ []). rewrite <- (app_nil_r (rev v)).
  apply (string_scan_agrees q (body ++ [q]) v raw [] Hq HB' Hcr U). rewrite app_length. cbn. lia.
Qed.

(* ---------- per-line chunks (the .p8 path): same tokens, same written text *)
Theorem model_holds_C07_chunks ls : Forall ends_lf (removelast ls) -> Forall byte (concat ls) ->
  match model_lex ls with
  | Ok ts => holds_C07 (concat ls) (map observe ts) = true
  | Err _ => holds_C07_error (concat ls) = true
  end.
Proof. intros HF HB. rewrite (model_lex_chunking ls HF). apply model_holds_C07. exact HB. Qed.

Theorem echo_source_chunking ls : Forall ends_lf (removelast ls) -> echo_source ls = echo_source [concat ls].
Proof. intros HF. unfold echo_source. rewrite (model_lex_chunking ls HF). reflexivity. Qed.

Theorem model_holds_C06_chunks ls : Forall ends_lf (removelast ls) -> Forall byte (concat ls) ->
  match echo_source ls with
  | Ok lines => holds_C06 (concat ls) (concat lines) = true
  | Err _ => holds_C06_error (concat ls) = true
  end.
Proof. intros HF HB. rewrite (echo_source_chunking ls HF). apply model_holds_C06. exact HB. Qed.

(* ---------- Lua.get_token_count *)
Definition kw_ok (s : stok) : Prop := In (s_raw s) spec_keywords \/ s_kind s <> SKeyword.

Lemma spec_step_keyword s t rest : spec_step s = Some (t, rest) -> kw_ok t.
Proof.
  intros H. unfold kw_ok. destruct s as [|c r]; [discriminate|]. unfold spec_step in H.
  assert (Sym : forall x y, spec_symbol x = Some (t, y) -> s_kind t <> SKeyword).
  { intros x y Hs. destruct (spec_symbol_inv _ _ _ Hs) as (z & _ & _ & -> & _). discriminate. }
  assert (Num : forall x y, spec_number x = Some (t, y) -> s_kind t <> SKeyword).
  { intros x y Hs. unfold spec_number in Hs. destruct (num_split x) as [run rs].
    destruct (spec_numeral run) as [[n d]|]; [|discriminate]. inversion Hs; subst. discriminate. }
  assert (Lc : forall x y, line_comment x = Some (t, y) -> s_kind t <> SKeyword).
  { intros x y Hs. unfold line_comment in Hs. destruct (span _ x). inversion Hs; subst. discriminate. }
  destruct (is_blank c). { destruct (span is_blank (c :: r)). inversion H; subst. right; discriminate. }
  destruct (c =? 10). { inversion H; subst. right; discriminate. }
  destruct (c =? 13).
  { destruct r as [|y r']; [discriminate|]. rewrite match10 in H. destruct (y =? 10); [|discriminate].
    inversion H; subst. right; discriminate. }
  destruct (c =? 45).
  { destruct r as [|y r2]; [right; eapply Sym; exact H|]. rewrite match45 in H.
    destruct (y =? 45); [|right; eapply Sym; exact H].
    destruct r2 as [|z r3]; [right; eapply Lc; exact H|]. rewrite match91 in H.
    destruct (z =? 91); [|right; eapply Lc; exact H].
    destruct (long_open r3 0) as [[lvl r4]|]; [|right; eapply Lc; exact H].
    destruct (lvl =? 0); [|discriminate]. destruct (long_body 0 r4) as [[[b cl] rs]|]; [|discriminate].
    inversion H; subst. right; discriminate. }
  destruct (c =? 47).
  { destruct r as [|y r2]; [right; eapply Sym; exact H|]. rewrite match47 in H.
    destruct (y =? 47); [right; eapply Lc; exact H | right; eapply Sym; exact H]. }
  destruct (c =? 91).
  { destruct (long_open r 0) as [[lvl r2]|].
    - destruct (long_body (Z.to_nat lvl) r2) as [[[b cl] rs]|]; [|discriminate]. inversion H; subst. right; discriminate.
    - destruct r as [|y r2]; [right; eapply Sym; exact H|]. rewrite match61 in H.
      destruct (y =? 61); [discriminate | right; eapply Sym; exact H]. }
  destruct ((c =? 34) || (c =? 39)).
  { destruct (unescape_until c r) as [[[v raw] rs]|]; [|discriminate]. inversion H; subst. right; discriminate. }
  destruct (is_digit c); [right; eapply Num; exact H|].
  destruct (c =? 46).
  { destruct r as [|d r']; [right; eapply Sym; exact H|].
    destruct (is_digit d); [right; eapply Num; exact H | right; eapply Sym; exact H]. }
  destruct (is_name_start c).
  { destruct (span is_name_char (c :: r)) as [a b]. destruct (mem_bytes a spec_keywords) eqn:M; inversion H; subst.
    - left. apply mem_bytes_In. exact M.
    - right. discriminate. }
  destruct (c =? 58).
  { destruct r as [|y r2]; [right; eapply Sym; exact H|]. rewrite match58 in H.
    destruct (y =? 58); [|right; eapply Sym; exact H].
    destruct (span is_name_char r2) as [a b]. destruct a as [|n0 a']; [discriminate|].
    destruct (strip_prefix [58; 58] b); [|discriminate]. destruct (is_name_start n0); [|discriminate].
    inversion H; subst. right; discriminate. }
  destruct (c =? 63). { inversion H; subst. right; discriminate. }
  right; eapply Sym; exact H.
Qed.

Lemma spec_toks_kw l c s ts : spec_toks l c s ts -> Forall kw_ok ts.
Proof.
  induction 1 as [l c | l c s t rest l' c' ts Es Hne Ha Hts IH]; [constructor|]. constructor; [|exact IH].
  pose proof (spec_step_keyword s t rest Es) as K. unfold kw_ok, at_pos in *. exact K.
Qed.

Lemma token_count_agree ss : forall ts a, Forall2 agree ss ts -> Forall kw_ok ss ->
  fold_left (fun a t => a + token_weight t) ts a = fold_left (fun a t => a + spec_token_weight_e t) ss a.
Proof.
  induction ss as [|s ss IH]; intros ts a Hag Hk; inversion Hag as [|? t ? ts' Hst Hag']; subst; [reflexivity|].
  inversion Hk as [|? ? Hs Hk']; subst. cbn [fold_left]. rewrite (token_weight_agree s t Hst Hs). apply IH; assumption.
Qed.

(* Lua.get_token_count on the tokens of a source of the dialect is the counting rule applied to its reference tokens *)
Theorem token_count_spec src ss : Forall byte src -> spec_lex src = Some ss ->
  exists ts, model_lex [src] = Ok ts /\ token_count ts = spec_token_count_e ss.
Proof.
  intros HB H. destruct (lex_agrees src ss HB H) as (ts & Hm & Hag). exists ts. split; [exact Hm|].
  unfold token_count, spec_token_count_e. apply token_count_agree; [exact Hag|].
  unfold spec_lex in H. destruct (crlf_only src); [|discriminate].
  destruct (spec_lex_fuel_toks _ _ _ _ _ _ H) as (ts' & -> & Hts). cbn [rev app]. apply (spec_toks_kw 0 0 src ts' Hts).
Qed.

(* ---------- the written text of a source of the dialect keeps the line-end discipline (no lone CR) *)
Lemma crlf_only_app_intro a : forall b, crlf_only a = true -> last a 0 <> 13 -> crlf_only b = true -> crlf_only (a ++ b) = true.
Proof.
  induction a as [|x a IH]; intros b Ha Hl Hb; [exact Hb|]. cbn [app crlf_only] in *.
  apply andb_true_iff in Ha. destruct Ha as [H1 H2]. apply andb_true_iff. split.
  - destruct (x =? 13) eqn:E; [|reflexivity]. destruct a as [|y a]; [apply Z.eqb_eq in E; cbn in Hl; congruence|]. exact H1.
  - destruct a as [|y a]; [exact Hb|]. apply IH; [exact H2 | exact Hl | exact Hb].
Qed.

Lemma no_cr_crlf l : ~ In 13 l -> crlf_only l = true /\ last l 0 <> 13.
Proof.
  induction l as [|x l IH]; intros H; [split; [reflexivity | cbn; lia]|].
  assert (Hx : x <> 13) by (intros ->; apply H; left; reflexivity).
  destruct (IH (fun Hin => H (or_intror Hin))) as [I1 I2]. split.
  - cbn [crlf_only]. assert (E : (x =? 13) = false) by lia. rewrite E, I1. reflexivity.
  - destruct l as [|y l]; [cbn; exact Hx | exact I2].
Qed.

Lemma rev_escapes_no_cr_sweep :
  forallb (fun kv => negb (existsb (Z.eqb 13) (snd kv))) string_reverse_escapes = true
  /\ (match lookup_bytes string_reverse_escapes [13] with Some _ => true | None => false end) = true.
Proof. vm_compute. split; reflexivity. Qed.

Lemma lookup_in m : forall k v, lookup_bytes m k = Some v -> In (k, v) m \/ exists k', In (k', v) m.
Proof.
  induction m as [|[k0 v0] m IH]; intros k v H; [discriminate|]. cbn [lookup_bytes] in H.
  destruct (zlist_eqb k0 k); [inversion H; subst; right; exists k0; left; reflexivity|].
  destruct (IH k v H) as [Hin|[k' Hin]]; [left; right; exact Hin | right; exists k'; right; exact Hin].
Qed.

Lemma escape_bytes_no_cr q v : q <> 13 -> ~ In 13 (escape_bytes [q] v).
Proof.
  intros Hq. induction v as [|c r IH]; [intros []|]. cbn [escape_bytes].
  destruct rev_escapes_no_cr_sweep as [Sw S13].
  destruct (lookup_bytes string_reverse_escapes [c]) as [e|] eqn:L.
  - assert (He : ~ In 13 e).
    { rewrite forallb_forall in Sw. destruct (lookup_in _ _ _ L) as [Hin|[k' Hin]]; specialize (Sw _ Hin); cbn [snd] in Sw;
        intros H13; assert (X : existsb (Z.eqb 13) e = true) by (apply existsb_exists; exists 13; split; [exact H13 | reflexivity]);
        rewrite X in Sw; discriminate. }
    intros [H|H]; [discriminate|]. apply in_app_or in H. destruct H as [H|H]; [|exact (IH H)].
    destruct (all_digits e && match r with d :: _ => m_digit d | [] => false end); [|exact (He H)].
    unfold rjust3 in H. apply in_app_or in H. destruct H as [H|H]; [apply repeat_spec in H; discriminate | exact (He H)].
  - assert (Nc : c <> 13) by (intros ->; rewrite L in S13; discriminate).
    destruct (zlist_eqb [c] [q]).
    + intros [H|[H|H]]; [discriminate | congruence | exact (IH H)].
    + intros [H|H]; [congruence | exact (IH H)].
Qed.

Lemma spec_toks_raw_ok l c s ts : spec_toks l c s ts -> Forall byte s -> crlf_only s = true ->
  Forall (fun t => crlf_only (s_raw t) = true /\ last (s_raw t) 0 <> 13) ts.
Proof.
  induction 1 as [l c | l c s t rest l' c' ts Es Hne Ha Hts IH]; intros HB Hcr; [constructor|].
  destruct (step_agrees s t rest l c HB Hcr Es Hne) as (tk & St & Hext & _ & Hlast).
  destruct St as [Hsplit _ _ _ _]. rewrite Hext in Hsplit. constructor.
  - cbn [at_pos s_raw]. split; [|exact Hlast]. apply (crlf_only_prefix _ rest); [rewrite <- Hsplit; exact Hcr | exact Hlast].
  - apply IH; [apply (Forall_app_r' _ (s_raw t)); rewrite <- Hsplit; exact HB
              | apply (crlf_only_app (s_raw t)); rewrite <- Hsplit; exact Hcr].
Qed.

Lemma crlf_only_concat l : Forall (fun x => crlf_only x = true /\ last x 0 <> 13) l -> crlf_only (concat l) = true.
Proof.
  induction 1 as [|x l [H1 H2] _ IH]; [reflexivity|]. cbn [concat]. apply crlf_only_app_intro; assumption.
Qed.

Theorem echo_crlf_only src ss : Forall byte src -> spec_lex src = Some ss ->
  exists lines, echo_source [src] = Ok lines /\ crlf_only (concat lines) = true.
Proof.
  intros HB H. destruct (lex_agrees_code src ss HB H) as (ts & Hm & Hcodes & _).
  exists (echo ts). unfold echo_source. rewrite Hm. split; [reflexivity|]. rewrite echo_concat.
  replace (map tok_code ts) with (map spec_code ss).
  2: { apply (f_equal (map snd)) in Hcodes. rewrite !map_map in Hcodes. cbn [snd] in Hcodes. symmetry. exact Hcodes. }
  apply crlf_only_concat.
  pose proof (spec_lex_qs src ss HB H) as Hq.
  assert (Hraw : Forall (fun t => crlf_only (s_raw t) = true /\ last (s_raw t) 0 <> 13) ss).
  { unfold spec_lex in H. destruct (crlf_only src) eqn:Hcr; [|discriminate].
    destruct (spec_lex_fuel_toks _ _ _ _ _ _ H) as (ts0 & -> & Hts). cbn [rev app]. apply (spec_toks_raw_ok 0 0 src ts0 Hts HB Hcr). }
  clear -Hq Hraw. induction ss as [|s ss IH]; [constructor|].
  inversion Hq as [|? ? Q1 Q2]; subst. inversion Hraw as [|? ? R1 R2]; subst. cbn [map]. constructor; [|apply IH; assumption].
  destruct (is_quoted s) eqn:Q.
  - destruct (Q1 Q) as (q & Hq34 & Hfirst & _). unfold spec_code. unfold is_quoted in Q. destruct (s_kind s); try discriminate.
    rewrite Q, Hfirst. unfold reencode. apply no_cr_crlf. intros Hin. apply in_app_or in Hin.
    assert (Nq : q <> 13) by (destruct Hq34; subst; lia).
    destruct Hin as [[E|[]]|Hin]; [congruence|]. apply in_app_or in Hin. destruct Hin as [Hin|[E|[]]]; [|congruence].
    exact (escape_bytes_no_cr q _ Nq Hin).
  - assert (E : spec_code s = s_raw s).
    { unfold spec_code. unfold is_quoted in Q. destruct (s_kind s); try reflexivity. rewrite Q. reflexivity. }
    rewrite E. exact R1.
Qed.
