(* C03 with the Lua object instantiated by the lexer model: lua = the token list, Lua.from_lines = model_lex,
   Lua.to_lines() = the echo writer (Model/EchoWriter.v). The echo-stability hypotheses of the abstract
   theorems are discharged from Proofs/EchoStable.v; what remains assumed is named in the statements. *)
From PV Require Import Base.Prelude Base.ListX Model.P8File Generated.T_lexer Model.Lexer Model.EchoWriter
  Spec.P8Format Spec.P8FileSpec
  Proofs.LexerChunk Proofs.EchoStable
  Proofs.P8FileLines Proofs.P8FileWrite Proofs.P8FileRoundtrip Proofs.P8FileRewrite.
From Coq Require Import ZifyBool.

Definition lex_cart := cart (list tok).
Definition lex_write (c : lex_cart) : result (list Z) := write_p8 (list tok) model_lex echo c.
Definition lex_read (file : list Z) : result lex_cart := read_p8 (list tok) model_lex [] file.

Lemma last_nonempty (chunks : list (list Z)) : Forall (fun c => c <> []) chunks ->
  match rev chunks with [] => True | l :: _ => l <> [] end.
Proof.
  intros H. destruct (rev chunks) as [|l r] eqn:E; [exact I|].
  rewrite Forall_forall in H. apply H. apply in_rev. rewrite E. left. reflexivity.
Qed.

Lemma nl_line_ends_lf l : nl_line l -> ends_lf l.
Proof. intros (b & -> & _). exists b. reflexivity. Qed.

Lemma Forall_removelast {A} (P : A -> Prop) l : Forall P l -> Forall P (removelast l).
Proof.
  induction 1 as [|x l Hx Hl IH]; [constructor|]. cbn [removelast]. destruct l; [constructor|].
  constructor; assumption.
Qed.

(* the cart's Lua object was produced by the lexer from text split after line feeds (or one chunk) *)
Definition from_lexer (c : lex_cart) : Prop :=
  exists ls0, Forall ends_lf (removelast ls0) /\ model_lex ls0 = Ok (c_lua c).

Theorem p8_roundtrip_lexer (c : lex_cart) l0 :
  wf_cart (list tok) echo c -> from_lexer c ->
  model_lex (echo (c_lua c)) = Ok l0 ->                               (* the writer's sanity re-lex of its own lines *)
  code_in_format (concat (echo (c_lua c))) = true ->
  exists file l',
    lex_write c = Ok file /\
    lex_read file = Ok (norm_cart (list tok) c l') /\
    concat (echo l') = supply_nl (concat (echo (c_lua c))) /\
    (forall l1, model_lex (echo l') = Ok l1 -> lex_write (norm_cart (list tok) c l') = Ok file).
Proof.
  intros W (ls0 & HF0 & HL0) Hs Hf.
  assert (E0 : echo_source ls0 = Ok (echo (c_lua c))) by (unfold echo_source; rewrite HL0; reflexivity).
  assert (He : ended_flag (echo (c_lua c)) = ends_with_nl (code_text (list tok) echo c)).
  { apply ended_flag_text. apply last_nonempty. apply (echo_chunks_nonempty ls0). exact E0. }
  destruct (p8_roundtrip (list tok) model_lex echo [] c l0 W Hs He Hf) as (file & Wf & Ff & Rf).
  pose proof W as (_ & _ & _ & _ & _ & _ & _ & _ & _ & _ & _ & _ & Hch).
  destruct (code_lines_facts (list tok) echo c Hch) as (FN & CC & _).
  assert (HF' : Forall ends_lf (removelast (code_lines (list tok) echo c))).
  { apply Forall_removelast. eapply Forall_impl; [|exact FN]. intros a Ha. apply nl_line_ends_lf. exact Ha. }
  (* re-lexing the written text succeeds and echoes it *)
  assert (X : exists lines', echo_source (code_lines (list tok) echo c) = Ok lines' /\
                             concat lines' = supply_nl (code_text (list tok) echo c)).
  { unfold supply_nl in *. destruct (ends_nl (code_text (list tok) echo c)) eqn:En.
    - apply (echo_idempotent ls0 _ HF0 E0); [exact CC | exact HF'].
    - apply (echo_idempotent_lf ls0 _ HF0 E0); [exact CC | exact HF']. }
  destruct X as (lines' & X1 & X2). unfold echo_source in X1.
  destruct (model_lex (code_lines (list tok) echo c)) as [l'|e] eqn:EL; [|discriminate].
  injection X1 as <-.
  exists file, l'. split; [exact Wf|]. split; [unfold lex_read; rewrite Rf; reflexivity|]. split; [exact X2|].
  intros l1 H1. unfold lex_write.
  rewrite (p8_rewrite (list tok) model_lex echo [] c l0 l' W Hs He Hf); [exact Wf|].
  split; [exact X2|]. split.
  - apply ended_flag_text. apply last_nonempty.
    apply (echo_chunks_nonempty (code_lines (list tok) echo c)). unfold echo_source. rewrite EL. reflexivity.
  - exists l1. exact H1.
Qed.
