(* Whole-program consequences of the alignment (lemmas for Properties/C10.v): for a tree built by the parser,
   inside the writer's domain, the chunk list of the writer satisfies the hypotheses the chunk-level theorems
   of Proofs/FmtChunksProofs.v were stated under:
     separated   two white-space runs are never adjacent (every run the walk reads is complete: it stops at a
                 significant token or at the end of the list, never at the end position of a node)
     no_end      no run before a code token reaches the end of the list
     codes_ok    the code texts are the codes of the input's tokens (tidy by a check on the token list). *)
From PV Require Import Base.Prelude Base.ListX Spec.LuaTokens Spec.LuaGrammar Model.Tokens Model.Parser Model.ParserInst Model.WriterChunks
  Model.AstWriter Model.WriterDomain Model.FmtSpaces Model.FmtSpacesInst
  Proofs.ParserProofs Proofs.ParserTheorems Proofs.TreeShape Proofs.ParserShape Proofs.WriterCursor Proofs.AstWriterProofs
  Proofs.AstWriterAligned Proofs.AstWriterTop Proofs.AstWriterIndent Proofs.FmtSpacesProofs Proofs.FmtLinesProofs Proofs.FmtChunksProofs.
From Coq Require Import ZifyBool.
Ltac Zify.zify_post_hook ::= Z.to_euclidean_division_equations.

(* ------------------------------------------------------------------ token codes (checked on the token list) *)
(* a code text: not empty, does not begin with a line feed, does not end in a blank or a line feed *)
Definition code_okb (text : list Z) : bool :=
  negb (starts_nl text) && match rev text with c :: _ => negb (c =? SP) && negb (c =? NL) | [] => false end.

Lemma code_okb_ok text : code_okb text = true -> code_ok text.
Proof.
  unfold code_okb, code_ok. intros H. apply andb_true_iff in H. destruct H as [H1 H2]. apply negb_true_iff in H1.
  split; [exact H1|]. destruct (rev text) as [|c r] eqn:E; [discriminate|].
  apply andb_true_iff in H2. destruct H2 as [H2 H3]. apply negb_true_iff in H2. apply negb_true_iff in H3.
  exists (rev r), c. split; [|split; [apply Z.eqb_neq; exact H2 | apply Z.eqb_neq; exact H3]].
  rewrite <- (rev_involutive text), E. reflexivity.
Qed.

(* every significant token has a tidy code without "blank, line feed" and without three line feeds in a row *)
Definition codes_tidy (ts : list token) : bool :=
  forallb (fun t => is_trivia t || (code_okb (tcode t) && negb (has_sp_nl (tcode t)) && negb (has3nl (tcode t)))) ts.

Section L.
Variable ts : list token.
Local Notation len := (zlen ts).

(* a non-empty run that tiles from q: the token at q is white space *)
Lemma run_head_trivia q (run : list token) t r : run = t :: r -> run = firstn (length run) (skipn (Z.to_nat q) ts) -> 0 <= q ->
  forallb is_trivia run = true -> sigb ts q = false /\ q < len.
Proof.
  intros -> H1 Hq H2. cbn [forallb] in H2. apply andb_true_iff in H2. destruct H2 as [H2 _].
  assert (Ht : nth_error ts (Z.to_nat q) = Some t).
  { assert (E : nth_error (t :: r) 0 = Some t) by reflexivity. rewrite H1 in E.
    rewrite ListX.nth_error_firstn in E by (cbn [length]; lia). rewrite ListX.nth_error_skipn, Nat.add_0_r in E. exact E. }
  split.
  - unfold sigb, ParserProofs.tok_at. destruct (q <? 0) eqn:E0; [lia|]. rewrite Ht, H2. reflexivity.
  - assert (Hn : nth_error ts (Z.to_nat q) <> None) by congruence. apply nth_error_Some in Hn. unfold zlen. lia.
Qed.

Lemma separated_aux q cs p : tiling ts q cs p -> 0 <= q -> Forall (good_end ts) cs ->
  forall b, (b = true -> sigb ts q = true \/ q = len) ->
  forall A s ind e t r B, cs = A ++ Trivia s ind e (t :: r) :: B -> after_trivia b A = false.
Proof.
  induction 1 as [q|q ind0 e0 run cs p H1 H2 H3 H4 IH|q text cs p H IH]; intros Hq Hg b Hb A s ind e t r B Hcs.
  - destruct A; discriminate.
  - inversion Hg as [|c0 l0 Hg1 Hg2]; subst. pose proof (zlen_nonneg run) as Hr. destruct A as [|c A].
    + injection Hcs as Es Ei Ee Er. cbn [after_trivia]. destruct b; [|reflexivity]. exfalso.
      destruct (run_head_trivia q run t r Er H1 Hq H2) as [Hs Hl]. destruct (Hb eq_refl) as [Hb1|Hb1]; [congruence | lia].
    + injection Hcs as <- Hcs. destruct run as [|t0 r0].
      * cbn [after_trivia]. rewrite zlen_nil in *. replace (q + 0) with q in * by lia. eapply IH; [lia | exact Hg2 | exact Hb | exact Hcs].
      * cbn [after_trivia]. eapply IH; [lia | exact Hg2 | | exact Hcs]. intros _.
        cbn [WriterCursor.good_end] in Hg1. destruct Hg1 as [Hg1|Hg1]; [discriminate | exact Hg1].
  - inversion Hg as [|c0 l0 Hg1 Hg2]; subst. destruct A as [|c A]; [discriminate|]. injection Hcs as <- Hcs.
    cbn [after_trivia]. eapply IH; [lia | exact Hg2 | intros Hf; discriminate Hf | exact Hcs].
Qed.

Lemma tiling_separated cs p : tiling ts 0 cs p -> Forall (good_end ts) cs -> separated cs.
Proof.
  intros Ht Hg A s ind e t r B Hcs. eapply (separated_aux 0 cs p Ht (Z.le_refl 0) Hg false); [intros Hf; discriminate Hf | exact Hcs].
Qed.

(* a run that reaches the end of the list is not followed by a code chunk *)
Lemma tiling_app_inv q A B p : tiling ts q (A ++ B) p -> exists m, tiling ts q A m /\ tiling ts m B p.
Proof.
  revert q. induction A as [|c A IH]; intros q H; cbn [app] in H.
  - exists q. split; [constructor | exact H].
  - inversion H; subst;
      match goal with Hr : tiling ts _ (A ++ B) p |- _ => destruct (IH _ Hr) as (m & Ha & Hb) end;
      exists m; (split; [first [apply til_trivia; [assumption | assumption | reflexivity | assumption] | apply til_code; assumption] | exact Hb]).
Qed.

Lemma tiling_no_end A i text B : tiling ts 0 (A ++ Code i text :: B) len -> no_end A.
Proof.
  intros Ht s ind r Hin. apply in_split in Hin. destruct Hin as (A1 & A2 & ->).
  rewrite <- app_assoc in Ht. cbn [app] in Ht.
  destruct (tiling_app_inv _ _ _ _ Ht) as (m & _ & Ht2). inversion Ht2; subst.
  match goal with He : true = (_ =? _) |- _ => symmetry in He; apply Z.eqb_eq in He; rename He into Hend end.
  match goal with Hr : tiling ts (s + zlen r) (A2 ++ Code i text :: B) len |- _ =>
    destruct (tiling_app_inv _ _ _ _ Hr) as (m2 & Ha & Hb) end.
  apply tiling_mono in Ha. inversion Hb; subst. match goal with Hc : tiling ts (_ + 1) B len |- _ => apply tiling_mono in Hc end. lia.
Qed.

(* the code texts are the codes of the tokens *)
Lemma sig_codes_in l : forall a i text, In (i, text) (sig_codes l a) -> exists t, In t l /\ is_trivia t = false /\ text = tcode t.
Proof.
  induction l as [|t r IH]; intros a i text H; [destruct H|]. cbn [sig_codes] in H. destruct (is_trivia t) eqn:E.
  - destruct (IH _ _ _ H) as (u & Hu & Hv). exists u. split; [right; exact Hu | exact Hv].
  - destruct H as [H|H].
    + injection H as _ <-. exists t. split; [left; reflexivity | split; [exact E | reflexivity]].
    + destruct (IH _ _ _ H) as (u & Hu & Hv). exists u. split; [right; exact Hu | exact Hv].
Qed.

Lemma codes_of_in cs i text : In (Code i text) cs -> In (i, text) (codes_of cs).
Proof.
  unfold codes_of. intros H. apply in_flat_map. exists (Code i text). split; [exact H | left; reflexivity].
Qed.

Lemma tidy_codes cs : codes_tidy ts = true -> codes_of cs = sig_codes ts 0 ->
  codes_ok cs /\ (forall i text, In (Code i text) cs -> has_sp_nl text = false /\ has3nl text = false).
Proof.
  intros Ht Hc. unfold codes_tidy in Ht. rewrite forallb_forall in Ht.
  assert (H : forall i text, In (Code i text) cs -> code_ok text /\ has_sp_nl text = false /\ has3nl text = false).
  { intros i text Hin. apply codes_of_in in Hin. rewrite Hc in Hin. destruct (sig_codes_in _ _ _ _ Hin) as (t & Hin2 & Htr & ->).
    specialize (Ht t Hin2). rewrite Htr in Ht. cbn [orb] in Ht. apply andb_true_iff in Ht. destruct Ht as [Ht H3].
    apply andb_true_iff in Ht. destruct Ht as [H1 H2]. apply negb_true_iff in H2. apply negb_true_iff in H3.
    split; [apply code_okb_ok; exact H1 | split; assumption]. }
  split; [intros i text Hin; apply (H i text Hin) | intros i text Hin; apply (H i text Hin)].
Qed.


Lemma last_ind_in acc A ind : last_ind acc A = Some ind ->
  acc = Some ind \/ exists s e r, In (Trivia s ind e r) A.
Proof.
  revert acc. induction A as [|c A IH]; intros acc H; [left; exact H|].
  destruct c as [s i e [|t r] | j text]; cbn [last_ind] in H.
  - destruct (IH _ H) as [Ha|(s' & e' & r' & Hin)]; [left; exact Ha | right; exists s', e', r'; right; exact Hin].
  - destruct (IH _ H) as [Ha|(s' & e' & r' & Hin)]; [injection Ha as ->; right; exists s, e, (t :: r); left; reflexivity | right; exists s', e', r'; right; exact Hin].
  - destruct (IH _ H) as [Ha|(s' & e' & r' & Hin)]; [left; exact Ha | right; exists s', e', r'; right; exact Hin].
Qed.

(* ------------------------------------------------------------------ whole programs *)
(* the chunk list of the writer on a parser tree inside the domain, with everything the chunk-level theorems ask for *)
Theorem program_chunks root e :
  lua_parse ts = Ok (root, e) -> consumed ts e = true -> writable ts root = true -> codes_tidy ts = true ->
  exists cs, writer_chunks ts (view root) = Ok (cs, len) /\ codes_of cs = sig_codes ts 0 /\ tiling ts 0 cs len /\
             separated cs /\ codes_ok cs /\
             (forall i text, In (Code i text) cs -> has_sp_nl text = false /\ has3nl text = false) /\
             (forall A i text B, cs = A ++ Code i text :: B -> no_end A) /\
             Forall (ind_ge 0) cs.
Proof.
  intros Hp Hc Hw Ht. destruct (writer_aligned_good ts root e Hp Hc Hw) as (cs & Hcs & Hcodes & Htil & Hgood).
  destruct (tidy_codes cs Ht Hcodes) as [Hok Hflat].
  exists cs. split; [exact Hcs|]. split; [exact Hcodes|]. split; [exact Htil|].
  split; [eapply tiling_separated; eassumption|]. split; [exact Hok|]. split; [exact Hflat|].
  split; [intros A i text B ->; eapply tiling_no_end; exact Htil | exact (writer_indent_balanced ts _ _ _ Hcs)].
Qed.

(* no line of the formatted program ends in a blank, never two blank lines in a row *)
Theorem program_shape w root e :
  lua_parse ts = Ok (root, e) -> consumed ts e = true -> writable ts root = true -> codes_tidy ts = true ->
  exists out, writer_text (fmt_spaces w) ts (view root) = Ok out /\ has_sp_nl out = false /\ has3nl out = false.
Proof.
  intros Hp Hc Hw Ht. destruct (program_chunks root e Hp Hc Hw Ht) as (cs & Hcs & _ & _ & Hsep & Hok & Hflat & _).
  exists (chunks_text (fmt_spaces w) cs). split; [unfold writer_text; rewrite Hcs; reflexivity|].
  exact (chunks_shape w cs Hsep Hok Hflat).
Qed.

(* a code token that begins a line is indented by indentwidth x the writer's nesting counter (>= 0) at the
   white-space run before it *)
Theorem program_indent_counter w root e :
  lua_parse ts = Ok (root, e) -> consumed ts e = true -> writable ts root = true -> codes_tidy ts = true ->
  exists cs, writer_text (fmt_spaces w) ts (view root) = Ok (chunks_text (fmt_spaces w) cs) /\ codes_of cs = sig_codes ts 0 /\
    forall A i text B p q, cs = A ++ Code i text :: B ->
      chunks_text (fmt_spaces w) A = p ++ NL :: q -> noNL q -> forallb is_sp q = true ->
      exists ind, last_ind None A = Some ind /\ 0 <= ind /\ q = repeat SP (Z.to_nat w * Z.to_nat ind).
Proof.
  intros Hp Hc Hw Ht. destruct (program_chunks root e Hp Hc Hw Ht) as (cs & Hcs & Hcodes & _ & Hsep & Hok & _ & Hne & Hind).
  exists cs. split; [unfold writer_text; rewrite Hcs; reflexivity|]. split; [exact Hcodes|].
  intros A i text B p q HA Htxt Hq Hsp.
  destruct (chunks_token_indent w cs A i text B p q HA Hsep Hok (Hne A i text B HA) Htxt Hq Hsp) as (ind & Hl & Hqq).
  exists ind. split; [exact Hl|]. split; [|exact Hqq].
  destruct (last_ind_in _ _ _ Hl) as [Hx|(s0 & e0 & r0 & Hin)]; [discriminate Hx|].
  rewrite Forall_forall in Hind. specialize (Hind (Trivia s0 ind e0 r0)). cbn [ind_ge] in Hind. apply Hind.
  rewrite HA. apply in_or_app. left. exact Hin.
Qed.

(* ------------------------------------------------------------------ the end of the output *)
(* the text is empty, or a single line feed, or ends in a byte that is neither blank nor line feed, followed by at most one
   line feed: no blank lines and no blanks at the end *)
Definition end_ok (t : list Z) : Prop :=
  t = [] \/ t = [NL] \/ exists a c, is_sp_nl c = false /\ (t = a ++ [c] \/ t = a ++ [c; NL]).

Lemma not_sp_nl c : c <> SP -> c <> NL -> is_sp_nl c = false.
Proof. intros H1 H2. unfold is_sp_nl. apply orb_false_iff. split; apply Z.eqb_neq; assumption. Qed.

(* a non-empty run at the end of a tiling up to the end of the list: no earlier run reaches the end *)
Lemma tiling_no_end_run A s ind e t r q : tiling ts q (A ++ [Trivia s ind e (t :: r)]) len -> no_end A.
Proof.
  intros Ht s1 ind1 r1 Hin. apply in_split in Hin. destruct Hin as (A1 & A2 & ->).
  rewrite <- app_assoc in Ht. cbn [app] in Ht.
  destruct (tiling_app_inv _ _ _ _ Ht) as (m & _ & Ht2). inversion Ht2; subst.
  match goal with He : true = (_ =? _) |- _ => symmetry in He; apply Z.eqb_eq in He; rename He into Hend end.
  match goal with Hr : tiling ts (s1 + zlen r1) (A2 ++ _) len |- _ => destruct (tiling_app_inv _ _ _ _ Hr) as (m2 & Ha & Hb) end.
  apply tiling_mono in Ha. inversion Hb; subst. match goal with Hc : tiling ts _ [] len |- _ => apply tiling_mono in Hc end.
  rewrite zlen_cons in *. pose proof (zlen_nonneg r). lia.
Qed.

Lemma separated_prefix A B : separated (A ++ B) -> separated A.
Proof. intros H A1 s ind e t r B1 E. apply (H A1 s ind e t r (B1 ++ B)). rewrite E, <- app_assoc. reflexivity. Qed.

Lemma codes_ok_prefix A B : codes_ok (A ++ B) -> codes_ok A.
Proof. intros H i text Hin. apply (H i text). apply in_or_app. left. exact Hin. Qed.

Lemma chunks_end_ok w cs : forall q, separated cs -> codes_ok cs -> tiling ts q cs len -> end_ok (chunks_text (fmt_spaces w) cs).
Proof.
  induction cs as [|c cs IH] using rev_ind; intros q Hsep Hok Ht; [left; reflexivity|].
  rewrite chunks_text_app, chunks_text_one. destruct (tiling_app_inv _ _ _ _ Ht) as (m & Ht1 & Ht2).
  destruct c as [s ind e [|t r] | i text]; cbn [chunk_text].
  - rewrite fmt_spaces_nil, app_nil_r.
    assert (m = len) by (inversion Ht2; subst; match goal with H : tiling ts _ [] _ |- _ => inversion H; subst end; change (zlen (@nil token)) with 0; lia).
    subst m. exact (IH q (separated_prefix _ _ Hsep) (codes_ok_prefix _ _ Hok) Ht1).
  - assert (He : e = true).
    { inversion Ht2; subst. match goal with H : tiling ts _ [] _ |- _ => inversion H; subst end. lia. }
    subst e. pose proof (tiling_no_end_run cs s ind true t r q Ht) as Hne.
    assert (Hb : after_trivia false cs = false) by (apply (Hsep cs s ind true t r []); reflexivity).
    destruct (chunk_lines_inv w (cs ++ [Trivia s ind true (t :: r)]) Hsep Hok cs [Trivia s ind true (t :: r)] eq_refl Hne) as [Ha _].
    cbv zeta in Ha. specialize (Ha Hb). unfold fmt_spaces at 2.
    destruct (fmt_run_end (mk_fcfg (s =? 0) true w ind) (run_code (t :: r)) eq_refl) as [E | [E | (a & c & Hc & [E | E])]]; rewrite E.
    + rewrite app_nil_r. destruct Ha as [Ha | (t' & c & Et & Hc1 & Hc2)]; [left; exact Ha|].
      right. right. exists t', c. split; [apply not_sp_nl; assumption | left; exact Et].
    + destruct Ha as [Ha | (t' & c & Et & Hc1 & Hc2)]; [rewrite Ha; right; left; reflexivity|].
      right. right. exists t', c. split; [apply not_sp_nl; assumption|]. right. rewrite Et, <- app_assoc. reflexivity.
    + right. right. exists (chunks_text (fmt_spaces w) cs ++ a), c. split; [exact Hc|]. left. rewrite <- app_assoc. reflexivity.
    + right. right. exists (chunks_text (fmt_spaces w) cs ++ a), c. split; [exact Hc|]. right. rewrite <- app_assoc. reflexivity.
  - destruct (Hok i text) as [_ (t' & c & Et & Hc1 & Hc2)]; [apply in_or_app; right; left; reflexivity|].
    right. right. exists (chunks_text (fmt_spaces w) cs ++ t'), c. split; [apply not_sp_nl; assumption|]. left. rewrite Et, app_assoc. reflexivity.
Qed.

(* no blank lines and no blanks at the end of the formatted program *)
Theorem program_end w root e :
  lua_parse ts = Ok (root, e) -> consumed ts e = true -> writable ts root = true -> codes_tidy ts = true ->
  exists out, writer_text (fmt_spaces w) ts (view root) = Ok out /\ end_ok out.
Proof.
  intros Hp Hc Hw Ht. destruct (program_chunks root e Hp Hc Hw Ht) as (cs & Hcs & _ & Htil & Hsep & Hok & _).
  exists (chunks_text (fmt_spaces w) cs). split; [unfold writer_text; rewrite Hcs; reflexivity|].
  exact (chunks_end_ok w cs 0 Hsep Hok Htil).
Qed.

End L.

(* ------------------------------------------------------------------ the nesting counter is the reference depth *)
From PV Require Import Spec.FmtShape Spec.TokenDepth Proofs.WriterCursorD Proofs.TokenDepthProofs Proofs.AstWriterDepth Proofs.FmtLineEnd.

Lemma lua_binops_neutral : forallb neutral_pat lua_binops = true.
Proof. vm_compute. reflexivity. Qed.
Lemma lua_unops_neutral : forallb neutral_pat lua_unops = true.
Proof. vm_compute. reflexivity. Qed.

Section LD.
Variable ts : list token.
Local Notation len := (zlen ts).

(* program_depth, and: the run that reaches the end of the list is passed the indent 0 *)
Theorem program_depth_full root e :
  lua_parse ts = Ok (root, e) -> consumed ts e = true -> writable ts root = true ->
  no_trailing_sep root = true ->
  exists cs, writer_chunks ts (view root) = Ok (cs, len) /\
    forall s ind at_end run, In (Trivia s ind at_end run) cs -> run <> [] ->
      (s + zlen run < len ->
       sigb ts (s + zlen run) = true /\ (existsb is_newline run = true -> ind = token_depth ts (s + zlen run))) /\
      (s + zlen run = len -> ind = 0).
Proof.
  intros Hp Hc Hw Hts.
  destruct (parse_shape ts lua_binops lua_unops lua_binops_nontrivia lua_unops_nontrivia root e Hp) as (He & Hsp & Hsh & fs & Hroot).
  assert (Hfen : fenced ts root = true).
  { pose proof (lua_parse_spec ts) as S. rewrite Hp in S. destruct S as (_ & _ & Hwf & _). exact (wf_fenced ts root e Hwf). }
  pose proof Hw as Hw0. unfold writable in Hw. repeat (apply andb_true_iff in Hw; destruct Hw as [Hw ?]).
  assert (Hdom : dom ts root = true) by (unfold dom; repeat (apply andb_true_iff; split); assumption).
  assert (HdomD : domD ts root = true) by (unfold domD; apply andb_true_iff; split; [apply andb_true_iff; split|]; assumption).
  pose proof (walk_depth ts lua_binops lua_unops Hw lua_binops_ptok lua_unops_ptok lua_binops_neutral lua_unops_neutral
                (tsize root) cChunk root (le_n _) Hsh HdomD) as Hwok.
  destruct (consumed_nosig ts e Hc) as (_ & Hns).
  assert (HS0 : St ts 0 = mk_dstate 0 0) by (unfold St, depth_before; destruct ts; reflexivity).
  destruct (Hwok (2 * tdepth (view root) + 2)%nat 0 e 0 0 ltac:(lia) Hsp (okpos_0 ts) ltac:(intros; lia)
              ltac:(rewrite HS0; reflexivity) ltac:(rewrite HS0; reflexivity)) as [Hem _].
  destruct (Hem (mkW 0 0 [])) as (st1 & cs1 & E1 & P1 & _ & I1 & O1 & G1); [change (nearB ts 0 0 0); apply nearB_exact; lia | reflexivity|].
  cbn [w_out] in O1. rewrite app_nil_r in O1.
  subst root. rewrite view_node in *. unfold writer_chunks.
  assert (Hat : AstWriter.all_trivia (skipn (Z.to_nat e) ts) = true).
  { unfold consumed in Hc. apply andb_true_iff in Hc. destruct Hc as [_ Hc]. rewrite <- all_trivia_same. exact Hc. }
  rewrite Hat. cbn [negb]. unfold seq. rewrite E1. unfold spaces_to. cbn [w_pos]. rewrite P1.
  unfold ntok. rewrite trailing_run by (first [lia | exact Hns]).
  eexists. split; [reflexivity|]. unfold rev'. rewrite <- rev_alt. cbn [w_out rev]. rewrite O1, rev_involutive.
  intros s ind at_end run Hin Hne. apply in_app_or in Hin. destruct Hin as [Hin|[Hin|[]]].
  - rewrite Forall_forall in G1. specialize (G1 _ Hin). cbn [goodD] in G1. destruct G1 as [G1|G1]; [contradiction|].
    split; [intros _; exact G1|]. intros Heq. exfalso. destruct G1 as [G1 _]. apply sigb_range in G1. lia.
  - injection Hin as <- <- _ <-. split; [|intros _; exact I1].
    intros Hlt. exfalso. rewrite trailing_run in Hlt by (first [lia | exact Hns]). lia.
Qed.

(* every non-empty white-space run that ends before the end of the list ends at a significant token i and - if it holds a
   newline token - was passed the indent token_depth ts i *)
Theorem program_depth root e :
  lua_parse ts = Ok (root, e) -> consumed ts e = true -> writable ts root = true ->
  no_trailing_sep root = true ->
  exists cs, writer_chunks ts (view root) = Ok (cs, len) /\
    forall s ind at_end run, In (Trivia s ind at_end run) cs -> run <> [] -> s + zlen run < len ->
      sigb ts (s + zlen run) = true /\ (existsb is_newline run = true -> ind = token_depth ts (s + zlen run)).
Proof.
  intros Hp Hc Hw Hts. destruct (program_depth_full root e Hp Hc Hw Hts) as (cs & Hcs & H). exists cs. split; [exact Hcs|].
  intros s ind at_end run Hin Hne Hlt. exact (proj1 (H s ind at_end run Hin Hne) Hlt).
Qed.


(* the white-space run whose text ends a prefix A of the chunk list: A is "after a run", so its last non-empty chunk is
   a run; it ends where A ends, and its indent is last_ind *)
Lemma after_last A : forall q m, tiling ts q A m -> after_trivia false A = true ->
  exists s ind e run, run <> [] /\ In (Trivia s ind e run) A /\ s + zlen run = m /\ last_ind None A = Some ind.
Proof.
  induction A as [|c A IH] using rev_ind; intros q m Ht Ha; [discriminate Ha|].
  destruct (tiling_app_inv ts _ _ _ _ Ht) as (m1 & Ht1 & Ht2).
  rewrite after_trivia_app in Ha. rewrite last_ind_app.
  destruct c as [s ind e [|t r] | j text]; cbn [after_trivia last_ind] in *.
  - inversion Ht2; subst. match goal with H : tiling ts _ [] _ |- _ => inversion H; subst end.
    destruct (IH _ _ Ht1 Ha) as (s' & ind' & e' & run' & Hne & Hin & Hm & Hl).
    exists s', ind', e', run'. split; [exact Hne|]. split; [apply in_or_app; left; exact Hin|].
    split; [change (zlen []) with 0; lia | exact Hl].
  - inversion Ht2; subst. match goal with H : tiling ts _ [] _ |- _ => inversion H; subst end.
    exists s, ind, (s + zlen (t :: r) =? zlen ts), (t :: r). split; [discriminate|].
    split; [apply in_or_app; right; left; reflexivity|]. split; reflexivity.
  - discriminate Ha.
Qed.

Lemma line_start_not_code (p q t' : list Z) c : p ++ NL :: q = t' ++ [c] -> c <> SP -> c <> NL -> forallb is_sp q = true -> False.
Proof.
  intros Ht Hc1 Hc2 Hsp. destruct q as [|cq q'] using rev_ind.
  - apply app_inj_tail in Ht. destruct Ht as [_ Ht]. congruence.
  - clear IHq'. change (p ++ NL :: q' ++ [cq]) with (p ++ (NL :: q') ++ [cq]) in Ht.
    rewrite app_assoc in Ht. apply app_inj_tail in Ht. destruct Ht as [_ Ht]. subst cq.
    rewrite all_sp_app in Hsp. apply andb_true_iff in Hsp. destruct Hsp as [_ Hsp]. cbn in Hsp.
    rewrite andb_true_r in Hsp. unfold is_sp in Hsp. apply Z.eqb_eq in Hsp. contradiction.
Qed.

(* a white-space chunk of a tiling holds tokens of the list, all of them white space / comments *)
Lemma tiling_in A : forall q m s ind e run, tiling ts q A m -> In (Trivia s ind e run) A ->
  forallb is_trivia run = true /\ forall t, In t run -> In t ts.
Proof.
  induction A as [|c A IH]; intros q m s ind e run Ht Hin; [destruct Hin|].
  inversion Ht; subst.
  - destruct Hin as [Hin|Hin]; [|eapply IH; eassumption]. injection Hin as <- <- <- <-.
    split; [assumption|]. intros t Hin.
    match goal with H : run0 = firstn _ _ |- _ => rewrite H in Hin end.
    rewrite <- (firstn_skipn (Z.to_nat q) ts). apply in_or_app. right.
    rewrite <- (firstn_skipn (length run0) (skipn (Z.to_nat q) ts)). apply in_or_app. left. exact Hin.
  - destruct Hin as [Hin|Hin]; [discriminate Hin | eapply IH; eassumption].
Qed.

(* the run whose formatted text ends a prefix A of the chunk list in "line feed, blanks": it is the last non-empty chunk of A,
   ends where A ends, carries last_ind, and its own text ends in that line feed and those blanks *)
Lemma line_run w cs : separated cs -> codes_ok cs -> forall A B q0 m p q, cs = A ++ B -> tiling ts q0 A m -> no_end A ->
  chunks_text (fmt_spaces w) A = p ++ NL :: q -> noNL q -> forallb is_sp q = true ->
  exists s ind run p2, In (Trivia s ind false run) A /\ run <> [] /\ s + zlen run = m /\ last_ind None A = Some ind /\
    fmt_spaces w s ind false run = p2 ++ NL :: q.
Proof.
  intros Hsep Hok. induction A as [|c A IH] using rev_ind; intros B q0 m p q Hcs Ht Hne Htxt Hq Hsp.
  - destruct p; discriminate Htxt.
  - rewrite <- app_assoc in Hcs. cbn [app] in Hcs.
    assert (HneA : no_end A) by (intros s ind r Hin; apply (Hne s ind r); apply in_or_app; left; exact Hin).
    destruct (tiling_app_inv ts _ _ _ _ Ht) as (m1 & Ht1 & Ht2).
    rewrite chunks_text_app, chunks_text_one in Htxt. rewrite last_ind_app.
    destruct c as [s ind e [|x run] | i text].
    + cbn [chunk_text] in Htxt. rewrite fmt_spaces_nil, app_nil_r in Htxt.
      assert (Em : m = m1).
      { inversion Ht2; subst. match goal with H : tiling ts _ [] _ |- _ => inversion H; subst end. change (zlen (@nil token)) with 0. lia. }
      subst m.
      destruct (IH (Trivia s ind e [] :: B) q0 m1 p q Hcs Ht1 HneA Htxt Hq Hsp) as (s' & ind' & run' & p2 & Hin & Hr & Hm & Hl & Ho).
      exists s', ind', run', p2. split; [apply in_or_app; left; exact Hin|]. split; [exact Hr|]. split; [exact Hm|]. split; [exact Hl | exact Ho].
    + assert (Hb : after_trivia false A = false) by (apply (Hsep A s ind e x run B); exact Hcs).
      assert (He : e = false).
      { destruct e; [|reflexivity]. exfalso. apply (Hne s ind (x :: run)). apply in_or_app. right. left. reflexivity. }
      subst e. cbn [chunk_text] in Htxt. set (o := fmt_spaces w s ind false (x :: run)) in *. set (t := chunks_text (fmt_spaces w) A) in *.
      destruct (noNL_or_in o) as [Ho | Ho].
      * exfalso. destruct (chunk_lines_inv w cs Hsep Hok A (Trivia s ind false (x :: run) :: B) Hcs HneA) as [IHa _]. cbv zeta in IHa. fold t in IHa.
        assert (Hin : In NL (t ++ o)) by (rewrite Htxt; apply in_or_app; right; left; reflexivity).
        apply in_app_or in Hin. destruct Hin as [Hin | Hin].
        2:{ unfold noNL in Ho. rewrite Forall_forall in Ho. exact (Ho NL Hin eq_refl). }
        apply (f_equal lastline) in Htxt. rewrite lastline_nl in Htxt by exact Hq. rewrite lastline_app_noNL in Htxt by exact Ho.
        destruct (IHa Hb) as [Et | (t' & c0 & Et & Hc1 & Hc2)]; [rewrite Et in Hin; destruct Hin|].
        rewrite Et in Htxt. unfold lastline in Htxt. rewrite (split_nl_app_noNL t' [c0]) in Htxt by (repeat constructor; exact Hc2).
        rewrite last_last in Htxt. subst q. rewrite !all_sp_app in Hsp.
        apply andb_true_iff in Hsp. destruct Hsp as [Hsp _]. apply andb_true_iff in Hsp. destruct Hsp as [_ Hsp].
        cbn in Hsp. rewrite andb_true_r in Hsp. unfold is_sp in Hsp. apply Z.eqb_eq in Hsp. contradiction.
      * destruct (last_nl_split o Ho) as (p2 & q2 & Eo & Hq2).
        assert (Eq : q = q2).
        { apply (f_equal lastline) in Htxt. rewrite lastline_nl in Htxt by exact Hq.
          rewrite Eo, app_assoc, lastline_nl in Htxt by exact Hq2. symmetry. exact Htxt. }
        subst q2.
        assert (Em : s + zlen (x :: run) = m).
        { inversion Ht2; subst. match goal with H : tiling ts _ [] _ |- _ => inversion H; subst end. reflexivity. }
        exists s, ind, (x :: run), p2. split; [apply in_or_app; right; left; reflexivity|]. split; [discriminate|].
        split; [exact Em|]. split; [reflexivity | exact Eo].
    + exfalso. cbn [chunk_text] in Htxt.
      destruct (Hok i text) as [_ (t' & c0 & Et & Hc1 & Hc2)]; [rewrite Hcs; apply in_or_app; right; left; reflexivity|].
      rewrite Et, app_assoc in Htxt. symmetry in Htxt. exact (line_start_not_code _ _ _ _ Htxt Hc1 Hc2 Hsp).
Qed.

(* C10's indentation clause for whole programs: a code token i that begins a line of luafmt's output is preceded by
   exactly indentwidth x (reference depth at token i) spaces *)
Theorem program_indent w root e :
  lua_parse ts = Ok (root, e) -> consumed ts e = true -> writable ts root = true -> codes_tidy ts = true ->
  trivia_tidy ts = true -> no_trailing_sep root = true ->
  exists cs, writer_text (fmt_spaces w) ts (view root) = Ok (chunks_text (fmt_spaces w) cs) /\ codes_of cs = sig_codes ts 0 /\
    forall A i text B p q, cs = A ++ Code i text :: B ->
      chunks_text (fmt_spaces w) A = p ++ NL :: q -> noNL q -> forallb is_sp q = true ->
      sigb ts i = true /\ 0 <= token_depth ts i /\ q = repeat SP (Z.to_nat w * Z.to_nat (token_depth ts i)).
Proof.
  intros Hp Hc Hw Ht Htt Htr.
  destruct (program_chunks ts root e Hp Hc Hw Ht) as (cs & Hcs & Hcodes & Htil & Hsep & Hok & _ & Hne & Hind).
  destruct (program_depth root e Hp Hc Hw Htr) as (cs' & Hcs' & Hdep).
  rewrite Hcs in Hcs'. injection Hcs' as <-.
  exists cs. split; [unfold writer_text; rewrite Hcs; reflexivity|]. split; [exact Hcodes|].
  intros A i text B p q HA Htxt Hq Hsp.
  rewrite HA in Htil. destruct (tiling_app_inv ts _ _ _ _ Htil) as (m & HtA & HtB).
  assert (Hmi : m = i /\ i + 1 <= len).
  { inversion HtB; subst. match goal with H : tiling ts (_ + 1) B _ |- _ => apply tiling_mono in H end. split; [reflexivity | lia]. }
  destruct Hmi as [-> Hlt].
  destruct (line_run w cs Hsep Hok A (Code i text :: B) 0 i p q HA HtA (Hne A i text B HA) Htxt Hq Hsp)
    as (s0 & ind & run0 & p2 & Hin0 & Hne0 & Hm0 & Hl0 & Ho).
  assert (Hincs : In (Trivia s0 ind false run0) cs) by (rewrite HA; apply in_or_app; left; exact Hin0).
  destruct (tiling_in A 0 i s0 ind false run0 HtA Hin0) as [Htriv Hsub].
  assert (Hnl : existsb is_newline run0 = true).
  { apply (tidy_run_newline w s0 ind run0 p2 q); [|exact Ho | exact Hq | exact Hsp].
    apply Forall_forall. intros t Hin. unfold trivia_tidy in Htt. rewrite forallb_forall in Htt. specialize (Htt t (Hsub t Hin)).
    rewrite forallb_forall in Htriv. rewrite (Htriv t Hin) in Htt. cbn [negb orb] in Htt.
    apply orb_true_iff in Htt. destruct Htt as [Htt|Htt]; [left; exact Htt | right; apply negb_true_iff; exact Htt]. }
  destruct (Hdep s0 ind false run0 Hincs Hne0 ltac:(lia)) as [Hsig Hd]. rewrite Hm0 in Hsig, Hd. specialize (Hd Hnl).
  rewrite <- Hd. split; [exact Hsig|]. split.
  - rewrite Forall_forall in Hind. exact (Hind _ Hincs).
  - unfold fmt_spaces in Ho. exact (fmt_run_indent (mk_fcfg (s0 =? 0) false w ind) (run_code run0) p2 q eq_refl Ho Hq Hsp).
Qed.


(* ------------------------------------------------------------------ the first line *)
Definition no_code (A : list chunk) : Prop := forall i text, ~ In (Code i text) A.

Lemma after_trivia_true_no_code A : no_code A -> after_trivia true A = true.
Proof.
  induction A as [|c A IH]; intros Hn; [reflexivity|].
  assert (Hn' : no_code A) by (intros i text Hin; apply (Hn i text); right; exact Hin).
  destruct c as [s ind e [|t r] | i text]; cbn [after_trivia]; [apply IH; exact Hn' | apply IH; exact Hn'|].
  exfalso. apply (Hn i text). left. reflexivity.
Qed.

(* before the first code chunk, a non-empty run that no non-empty run precedes starts where the list starts *)
Lemma first_run_start A1 : forall q A2 s ind e r m, tiling ts q (A1 ++ Trivia s ind e r :: A2) m ->
  no_code A1 -> after_trivia false A1 = false -> s = q.
Proof.
  induction A1 as [|c A1 IH]; intros q A2 s ind e r m Ht Hn Ha; cbn [app] in Ht.
  - inversion Ht; subst. reflexivity.
  - assert (Hn' : no_code A1) by (intros i text Hin; apply (Hn i text); right; exact Hin).
    destruct c as [s' ind' e' [|t' r'] | i text]; cbn [after_trivia] in Ha.
    + inversion Ht; subst. change (zlen []) with 0 in *.
      match goal with H : tiling ts (_ + 0) _ _ |- _ => rewrite Z.add_0_r in H; exact (IH _ _ _ _ _ _ _ H Hn' Ha) end.
    + rewrite (after_trivia_true_no_code A1 Hn') in Ha. discriminate Ha.
    + exfalso. apply (Hn i text). left. reflexivity.
Qed.

Lemma all_sp_chunk W A c : In c A -> forallb is_sp (chunks_text W A) = true -> forallb is_sp (chunk_text W c) = true.
Proof.
  intros Hin Hsp. apply in_split in Hin. destruct Hin as (A1 & A2 & ->).
  change (c :: A2) with ([c] ++ A2) in Hsp. rewrite !chunks_text_app, chunks_text_one, !all_sp_app in Hsp.
  apply andb_true_iff in Hsp. destruct Hsp as [_ Hsp]. apply andb_true_iff in Hsp. destruct Hsp as [Hsp _]. exact Hsp.
Qed.

(* a prefix of luafmt's output that is one line of blanks is empty: what begins the first line sits at column 0 *)
Theorem program_first_line w root e :
  lua_parse ts = Ok (root, e) -> consumed ts e = true -> writable ts root = true -> codes_tidy ts = true ->
  exists cs, writer_text (fmt_spaces w) ts (view root) = Ok (chunks_text (fmt_spaces w) cs) /\ codes_of cs = sig_codes ts 0 /\
    forall A B, cs = A ++ B -> noNL (chunks_text (fmt_spaces w) A) -> forallb is_sp (chunks_text (fmt_spaces w) A) = true ->
      chunks_text (fmt_spaces w) A = [].
Proof.
  intros Hp Hc Hw Ht.
  destruct (program_chunks ts root e Hp Hc Hw Ht) as (cs & Hcs & Hcodes & Htil & Hsep & Hok & _ & _ & _).
  exists cs. split; [unfold writer_text; rewrite Hcs; reflexivity|]. split; [exact Hcodes|].
  intros A B HA Hn Hsp. apply (chunks_first_line w cs A B HA Hok); [|exact Hn | exact Hsp].
  assert (Hnc : no_code A).
  { intros i text Hin. pose proof (all_sp_chunk _ _ _ Hin Hsp) as Hs. cbn [chunk_text] in Hs.
    destruct (Hok i text) as [_ (t' & c & Et & Hc1 & _)]; [rewrite HA; apply in_or_app; left; exact Hin|].
    rewrite Et, all_sp_app in Hs. apply andb_true_iff in Hs. destruct Hs as [_ Hs]. cbn in Hs. rewrite andb_true_r in Hs.
    unfold is_sp in Hs. apply Z.eqb_eq in Hs. contradiction. }
  intros s ind e0 r Hin Hr. apply in_split in Hin. destruct Hin as (A1 & A2 & EA).
  assert (Hnc1 : no_code A1) by (intros i text Hin; apply (Hnc i text); rewrite EA; apply in_or_app; left; exact Hin).
  destruct r as [|t r]; [contradiction Hr; reflexivity|].
  assert (Ha1 : after_trivia false A1 = false).
  { apply (Hsep A1 s ind e0 t r (A2 ++ B)). rewrite HA, EA, <- app_assoc. reflexivity. }
  rewrite HA, EA, <- app_assoc in Htil. cbn [app] in Htil.
  exact (first_run_start A1 0 (A2 ++ B) s ind e0 (t :: r) _ Htil Hnc1 Ha1).
Qed.

End LD.
