(* Agreement of the lexer model with the reference grammar, part 2: one token at a time. *)
From PV Require Import Base.Prelude Generated.T_lexer Model.Lexer Spec.LuaLex Instances.HoldsC07
  Proofs.LexerProofs Proofs.LexerInv Proofs.LexerSpec Proofs.LexerStr.
From Coq Require Import ZifyBool.

(* what the harness observes of a token of the implementation, computed on a token of the model *)
Definition observe (t : tok) : itok :=
  mk_itok (kind_code (t_kind t)) (t_data t) (t_line t) (t_col t) (t_quote t) (t_ml t)
    (match t_kind t with
     | KNumber => match tok_value (t_data t) with Ok v => Some v | Err _ => None end
     | _ => None
     end)
    (match t_kind t with KString => tok_str_value t | _ => [] end).

(* ---------- big steps of the model: one token from the Normal state *)
Definition next_state (st : lexst) (tk : tok) : lexst :=
  let '(l', c') := advance (l_line st, l_col st) (t_ext tk) in
  mk_lexst Normal l' c' (tk :: l_toks_rev st).

Record Step (l c : Z) (s : list Z) (tk : tok) (rest : list Z) : Prop := mk_Step {
  step_split : s = t_ext tk ++ rest;
  step_ne : t_ext tk <> [];
  step_line : t_line tk = l;
  step_col : t_col tk = c;
  step_run : forall st fuel, l_state st = Normal -> l_line st = l -> l_col st = c -> (length s < fuel)%nat ->
    process_line fuel st s = process_line fuel (next_state st tk) rest
}.

Lemma is_nil_ne {A} (l : list A) : l <> [] -> is_nil l = false.
Proof. destruct l; [congruence | reflexivity]. Qed.

Lemma ne_length {A} (l : list A) : l <> [] -> (0 < length l)%nat.
Proof. destruct l; [congruence | cbn; lia]. Qed.

Lemma process_line_S f st s : process_line (S f) st s =
  match process_token (l_state st) (l_line st) (l_col st) s with
  | Err e => Err e
  | Ok None => if is_nil s then Ok st else Err LexerError
  | Ok (Some (ms, ot, piece, rest)) =>
    if is_nil piece then (if is_nil s then Ok st else Err LexerError)
    else
      let '(l', c') := advance (l_line st, l_col st) piece in
      let toks := match ot with Some t => t :: l_toks_rev st | None => l_toks_rev st end in
      process_line f (mk_lexst ms l' c' toks) rest
  end.
Proof. reflexivity. Qed.

Lemma Step_one l c s tk a rest :
  process_token Normal l c s = Ok (Some (Normal, Some tk, a, rest)) ->
  a <> [] -> t_ext tk = a -> t_line tk = l -> t_col tk = c -> Step l c s tk rest.
Proof.
  intros H Ha He Hl Hc. pose proof (process_token_split _ _ _ _ _ _ _ _ H) as Hs.
  split; try assumption; [rewrite He; exact Hs | rewrite He; exact Ha|].
  intros st fuel Es El Ec Hf. destruct fuel as [|f]; [lia|]. rewrite (process_line_S f st s).
  rewrite Es, El, Ec, H, (is_nil_ne _ Ha). unfold next_state. rewrite El, Ec, He.
  destruct (advance (l, c) a) as [l' c'].
  pose proof (ne_length _ Ha). assert (length s = (length a + length rest)%nat) by (subst s; apply app_length).
  apply (process_line_fuel (length rest)); lia.
Qed.

Lemma Step_two l c s ms p1 r1 tk p2 rest :
  process_token Normal l c s = Ok (Some (ms, None, p1, r1)) -> p1 <> [] ->
  (forall l1 c1, process_token ms l1 c1 r1 = Ok (Some (Normal, Some tk, p2, rest))) -> p2 <> [] ->
  t_ext tk = p1 ++ p2 -> t_line tk = l -> t_col tk = c -> Step l c s tk rest.
Proof.
  intros H1 Hp1 H2 Hp2 He Hl Hc.
  pose proof (process_token_split _ _ _ _ _ _ _ _ H1) as Hs1.
  pose proof (process_token_split _ _ _ _ _ _ _ _ (H2 0 0)) as Hs2.
  split; try assumption.
  - rewrite He, <- app_assoc, <- Hs2. exact Hs1.
  - rewrite He. destruct p1; [congruence | discriminate].
  - intros st fuel Es El Ec Hf.
    pose proof (ne_length _ Hp1). pose proof (ne_length _ Hp2).
    assert (L1 : length s = (length p1 + length r1)%nat) by (subst s; apply app_length).
    assert (L2 : length r1 = (length p2 + length rest)%nat) by (subst r1; apply app_length).
    destruct fuel as [|[|f]]; try lia. rewrite (process_line_S (S f) st s).
    rewrite Es, El, Ec, H1, (is_nil_ne _ Hp1).
    destruct (advance (l, c) p1) as [l1 c1] eqn:A1. rewrite process_line_S. cbn [l_state l_line l_col l_toks_rev].
    rewrite (H2 l1 c1), (is_nil_ne _ Hp2).
    unfold next_state. rewrite El, Ec, He, advance_app, A1.
    destruct (advance (l1, c1) p2) as [l' c'].
    apply (process_line_fuel (length rest)); lia.
Qed.

(* ---------- the monitor's comparison, unfolded *)
Lemma tok_diff_simple t tk l c :
  s_kind t <> SString -> s_kind t <> SNumber ->
  skind_code (s_kind t) = kind_code (t_kind tk) -> t_data tk = s_raw t -> t_line tk = l -> t_col tk = c ->
  tok_diff (at_pos t l c) (observe tk) = 0.
Proof.
  intros N1 N2 Hk Hd Hl Hc. unfold tok_diff, at_pos, observe.
  cbn [s_kind s_raw s_text s_num s_den s_long s_line s_col i_kind i_data i_line i_col i_quote i_ml i_val i_sval].
  rewrite Hk, Z.eqb_refl, Hd, Hl, Hc, !Z.eqb_refl. cbn [negb].
  assert (Z : zlist_eqb (s_raw t) (s_raw t) = true) by (apply zlist_eqb_eq; reflexivity).
  destruct (s_kind t); try congruence; rewrite Z; reflexivity.
Qed.

(* ---------- the Normal branch of _process_token when no multi-line opener applies *)
Lemma normal_matchers l col c r :
  byte c -> c <> 39 -> c <> 34 ->
  drop_prefix [45; 45; 91; 91] (c :: r) = None -> match_long_open (c :: r) = None ->
  process_token Normal l col (c :: r) =
    match first_matcher (expected c) (c :: r) with
    | Some (k, a, rest') => Ok (Some (Normal, Some (mk_tok k a l col [] None a), a, rest'))
    | None => Ok None
    end.
Proof.
  intros Hb N39 N34 H1 H2. cbn [process_token]. rewrite H1, H2.
  assert (E : (c =? 39) || (c =? 34) = false) by lia. rewrite E.
  rewrite (first_matcher_expected c r Hb). reflexivity.
Qed.

Lemma drop4_ne c r : c <> 45 -> drop_prefix [45; 45; 91; 91] (c :: r) = None.
Proof. intros N. apply drop_prefix_hd_ne. lia. Qed.

Lemma long_open_ne c r : c <> 91 -> match_long_open (c :: r) = None.
Proof. intros N. unfold match_long_open. cbn [hd_is]. assert (E : (c =? 91) = false) by lia. rewrite E. reflexivity. Qed.

(* a token found by the matcher table *)
Lemma Step_matcher l col c r k a rest t :
  byte c -> c <> 39 -> c <> 34 -> c <> 45 -> c <> 91 ->
  first_matcher (expected c) (c :: r) = Some (k, a, rest) -> a <> [] ->
  s_raw t = a -> s_kind t <> SString -> s_kind t <> SNumber -> skind_code (s_kind t) = kind_code k ->
  exists tk, Step l col (c :: r) tk rest /\ t_ext tk = s_raw t /\ tok_diff (at_pos t l col) (observe tk) = 0.
Proof.
  intros Hb N39 N34 N45 N91 Hm Ha Hr K1 K2 Hk.
  exists (mk_tok k a l col [] None a). split; [|split].
  - apply (Step_one l col (c :: r) _ a rest); try reflexivity; [|exact Ha].
    rewrite (normal_matchers l col c r Hb N39 N34 (drop4_ne c r N45) (long_open_ne c r N91)), Hm. reflexivity.
  - cbn. symmetry. exact Hr.
  - apply tok_diff_simple; try assumption; cbn; congruence.
Qed.

(* ---------- blanks, line ends, ? *)
Ltac cls := cbv beta delta [m_name_start m_name_char m_alpha m_digit m_blank m_word m_hex m_bin
  is_blank is_eol is_digit is_name_start is_name_char is_alpha is_alnum is_hex is_lower_hex is_upper_hex is_bin byte] in *; lia.

Lemma expected_blank c : m_blank c = true -> expected c = [(MSpace, KSpace)].
Proof.
  intros H. unfold expected. assert (E1 : m_name_start c = false) by cls. assert (E2 : m_digit c = false) by cls.
  rewrite E1, E2, H. reflexivity.
Qed.

Lemma step_blank l col c r : byte c -> is_blank c = true ->
  let '(a, b) := span is_blank (c :: r) in
  exists tk, Step l col (c :: r) tk b /\ t_ext tk = a /\
             tok_diff (at_pos (mk SSpace a a) l col) (observe tk) = 0.
Proof.
  intros Hb Hc. destruct (span is_blank (c :: r)) as [a b] eqn:E.
  assert (Ha : a <> []). { cbn [span] in E. rewrite Hc in E. destruct (span is_blank r). inversion E. discriminate. }
  apply (Step_matcher l col c r KSpace a b (mk SSpace a a)); try assumption; try reflexivity; try cls; try discriminate.
  rewrite (expected_blank c Hc). cbn [first_matcher run_matcher]. unfold take_while1.
  rewrite take_while_span. change m_blank with is_blank. rewrite E, (is_nil_ne _ Ha). reflexivity.
Qed.

Lemma step_lf l col r :
  exists tk, Step l col (10 :: r) tk r /\ t_ext tk = [10] /\
             tok_diff (at_pos (mk SNewline [10] [10]) l col) (observe tk) = 0.
Proof.
  apply (Step_matcher l col 10 r KNewline [10] r (mk SNewline [10] [10])); try reflexivity; try discriminate; cls.
Qed.

Lemma step_crlf l col r :
  exists tk, Step l col (13 :: 10 :: r) tk r /\ t_ext tk = [13; 10] /\
             tok_diff (at_pos (mk SNewline [13; 10] [13; 10]) l col) (observe tk) = 0.
Proof.
  apply (Step_matcher l col 13 (10 :: r) KNewline [13; 10] r (mk SNewline [13; 10] [13; 10]));
    try reflexivity; try discriminate; cls.
Qed.

Lemma step_qmark l col r :
  exists tk, Step l col (63 :: r) tk r /\ t_ext tk = [63] /\
             tok_diff (at_pos (mk SName [63] [63]) l col) (observe tk) = 0.
Proof.
  apply (Step_matcher l col 63 r KName [63] r (mk SName [63] [63])); try reflexivity; try discriminate; cls.
Qed.

(* a token found by the matcher table, general form *)
Lemma Step_matcher' l col c r k a rest t :
  byte c -> c <> 39 -> c <> 34 ->
  drop_prefix [45; 45; 91; 91] (c :: r) = None -> match_long_open (c :: r) = None ->
  first_matcher (expected c) (c :: r) = Some (k, a, rest) -> a <> [] ->
  s_raw t = a -> s_kind t <> SString -> s_kind t <> SNumber -> skind_code (s_kind t) = kind_code k ->
  exists tk, Step l col (c :: r) tk rest /\ t_ext tk = s_raw t /\ tok_diff (at_pos t l col) (observe tk) = 0.
Proof.
  intros Hb N39 N34 H1 H2 Hm Ha Hr K1 K2 Hk.
  exists (mk_tok k a l col [] None a). split; [|split].
  - apply (Step_one l col (c :: r) _ a rest); try reflexivity; [|exact Ha].
    rewrite (normal_matchers l col c r Hb N39 N34 H1 H2), Hm. reflexivity.
  - cbn. symmetry. exact Hr.
  - apply tok_diff_simple; try assumption; cbn; congruence.
Qed.

(* ---------- names and keywords *)
Lemma kw_shape_sweep : forallb (fun k => negb (is_nil k) && forallb m_alpha k) keyword_order = true.
Proof. vm_compute. reflexivity. Qed.

Lemma kw_same_set : same_set keyword_order spec_keywords = true.
Proof. vm_compute. reflexivity. Qed.

Lemma kw_shape k : In k keyword_order -> k <> [] /\ forallb m_alpha k = true.
Proof.
  intros H. pose proof kw_shape_sweep as S. rewrite forallb_forall in S. specialize (S k H).
  apply andb_true_iff in S. destruct S as [S1 S2]. split; [|exact S2]. destruct k; [discriminate | congruence].
Qed.

Lemma span_app_all p k : forall r, forallb p k = true ->
  span p (k ++ r) = let '(a, b) := span p r in (k ++ a, b).
Proof.
  induction k as [|x k IH]; intros r H; cbn [app].
  - destruct (span p r); reflexivity.
  - cbn in H. apply andb_true_iff in H. destruct H as [Hx Hk]. cbn [span]. rewrite Hx, (IH r Hk).
    destruct (span p r); reflexivity.
Qed.

Lemma drop_prefix_app k : forall b, drop_prefix k (k ++ b) = Some b.
Proof. induction k as [|x k IH]; intros b; cbn; [reflexivity|]. rewrite Z.eqb_refl. apply IH. Qed.

Lemma zlist_eqb_refl a : zlist_eqb a a = true.
Proof. apply zlist_eqb_eq. reflexivity. Qed.

Lemma zlist_eqb_sym a b : zlist_eqb a b = zlist_eqb b a.
Proof.
  destruct (zlist_eqb a b) eqn:E1; destruct (zlist_eqb b a) eqn:E2; try reflexivity.
  - apply zlist_eqb_eq in E1. subst. rewrite zlist_eqb_refl in E2. discriminate.
  - apply zlist_eqb_eq in E2. subst. rewrite zlist_eqb_refl in E1. discriminate.
Qed.

Lemma zlist_eqb_app_ne k x a : zlist_eqb k (k ++ x :: a) = false.
Proof.
  destruct (zlist_eqb k (k ++ x :: a)) eqn:E; [|reflexivity]. apply zlist_eqb_eq in E.
  apply (f_equal (@length Z)) in E. rewrite app_length in E. cbn in E. lia.
Qed.

Lemma alpha_name_chars k : forallb m_alpha k = true -> forallb is_name_char k = true.
Proof.
  intros H. rewrite forallb_forall in *. intros x Hx. specialize (H x Hx). cls.
Qed.

Lemma scan_keyword_span k s a b :
  k <> [] -> forallb m_alpha k = true -> span is_name_char s = (a, b) ->
  scan_keyword k s = if zlist_eqb k a then Some (k, b) else None.
Proof.
  destruct k as [|k0 k']; [congruence|]. intros _ Hk Hs. unfold scan_keyword.
  assert (W : m_word k0 = true). { cbn in Hk. apply andb_true_iff in Hk. destruct Hk as [Hk _]. cls. }
  rewrite W. pose proof (alpha_name_chars _ Hk) as Hn. remember (k0 :: k') as k eqn:Ek. clear Ek W Hk.
  destruct (drop_prefix k s) as [r'|] eqn:D.
  - apply drop_prefix_split in D. subst s. rewrite (span_app_all _ _ _ Hn) in Hs.
    destruct (span is_name_char r') as [a' b'] eqn:E. inversion Hs; subst a b. clear Hs.
    destruct r' as [|x r''].
    + cbn in E. inversion E; subst. rewrite app_nil_r, zlist_eqb_refl. reflexivity.
    + cbn [span] in E. change (m_name_char x) with (is_name_char x). destruct (is_name_char x).
      * destruct (span is_name_char r'') as [a2 b2]. inversion E; subst. rewrite zlist_eqb_app_ne. reflexivity.
      * inversion E; subst. rewrite app_nil_r, zlist_eqb_refl. reflexivity.
  - destruct (zlist_eqb k a) eqn:E; [|reflexivity]. apply zlist_eqb_eq in E. subst a.
    apply span_split in Hs. subst s. rewrite drop_prefix_app in D. discriminate.
Qed.

Lemma first_matcher_kw ks tail s a b :
  Forall (fun k => k <> [] /\ forallb m_alpha k = true) ks -> span is_name_char s = (a, b) ->
  first_matcher (map kwrow ks ++ tail) s =
    if mem_bytes a ks then Some (KKeyword, a, b) else first_matcher tail s.
Proof.
  intros HF Hs. induction ks as [|k ks IH]; [reflexivity|].
  inversion HF as [|? ? [Hk1 Hk2] HF']; subst. cbn [map app first_matcher kwrow run_matcher].
  rewrite (scan_keyword_span k s a b Hk1 Hk2 Hs). unfold mem_bytes. cbn [existsb]. rewrite (zlist_eqb_sym a k).
  destruct (zlist_eqb k a) eqn:E.
  - apply zlist_eqb_eq in E. subst. reflexivity.
  - cbn [orb]. apply IH. exact HF'.
Qed.

Lemma mem_filter_hd c a' l : mem_bytes (c :: a') (filter (hd_eq c) l) = mem_bytes (c :: a') l.
Proof.
  unfold mem_bytes. induction l as [|x l IH]; [reflexivity|]. cbn [filter existsb].
  destruct (hd_eq c x) eqn:H.
  - cbn [existsb]. rewrite IH. reflexivity.
  - rewrite IH. destruct x as [|x0 x']; [reflexivity|]. cbn [hd_eq] in H. cbn [zlist_eqb].
    rewrite Z.eqb_sym, H. reflexivity.
Qed.

Lemma mem_same_set l1 l2 x : same_set l1 l2 = true -> mem_bytes x l1 = mem_bytes x l2.
Proof.
  unfold same_set. intros H. apply andb_true_iff in H. destruct H as [H12 H21].
  rewrite forallb_forall in H12, H21. apply Bool.eq_iff_eq_true. rewrite !mem_bytes_In. split; intros Hx.
  - apply mem_bytes_In. apply H12. exact Hx.
  - apply mem_bytes_In. apply H21. exact Hx.
Qed.

Lemma step_name l col c r : byte c -> is_name_start c = true ->
  let '(a, b) := span is_name_char (c :: r) in
  exists tk, Step l col (c :: r) tk b /\ t_ext tk = a /\
    tok_diff (at_pos (mk (if mem_bytes a spec_keywords then SKeyword else SName) a a) l col) (observe tk) = 0.
Proof.
  intros Hb Hc. destruct (span is_name_char (c :: r)) as [a b] eqn:E.
  assert (Hnc : is_name_char c = true) by (unfold is_name_char; rewrite Hc; reflexivity).
  assert (Ea : exists a', a = c :: a' /\ span is_name_char r = (a', b)).
  { cbn [span] in E. rewrite Hnc in E. destruct (span is_name_char r) as [a' b']. inversion E; subst.
    eexists; split; reflexivity. }
  destruct Ea as (a' & -> & Er).
  assert (Hm : first_matcher (expected c) (c :: r) =
               Some (if mem_bytes (c :: a') spec_keywords then KKeyword else KName, c :: a', b)).
  { unfold expected. change (m_name_start c) with (is_name_start c). rewrite Hc. unfold kw_rows.
    assert (HF : Forall (fun k => k <> [] /\ forallb m_alpha k = true) (filter (hd_eq c) keyword_order)).
    { apply Forall_forall. intros k Hk. apply filter_In in Hk. apply kw_shape. tauto. }
    rewrite (first_matcher_kw _ _ _ _ _ HF E).
    rewrite mem_filter_hd, (mem_same_set _ _ _ kw_same_set).
    destruct (mem_bytes (c :: a') spec_keywords); [reflexivity|].
    cbn [first_matcher run_matcher scan_name]. change (m_name_start c) with (is_name_start c). rewrite Hc.
    rewrite take_while_span. change m_name_char with is_name_char. rewrite Er. reflexivity. }
  apply (Step_matcher l col c r (if mem_bytes (c :: a') spec_keywords then KKeyword else KName) (c :: a') b
           (mk (if mem_bytes (c :: a') spec_keywords then SKeyword else SName) (c :: a') (c :: a')));
    try assumption; try reflexivity; try cls; try discriminate;
    destruct (mem_bytes (c :: a') spec_keywords); cbn; congruence.
Qed.

(* ---------- symbols *)
Lemma sym_nonempty_sweep : forallb (fun x => negb (is_nil x)) symbols = true.
Proof. vm_compute. reflexivity. Qed.

Lemma spec_sym_nonempty_sweep : forallb (fun x => negb (is_nil x)) spec_symbols = true.
Proof. vm_compute. reflexivity. Qed.

Lemma nonempty_of_sweep l : forallb (fun x : list Z => negb (is_nil x)) l = true -> Forall (fun x => x <> []) l.
Proof.
  intros H. rewrite forallb_forall in H. apply Forall_forall. intros x Hx. specialize (H x Hx).
  destruct x; [discriminate | congruence].
Qed.

Lemma first_match_filter c r : forall l, Forall (fun x => x <> []) l ->
  first_match (filter (hd_eq c) l) (c :: r) = first_match l (c :: r).
Proof.
  induction l as [|x l IH]; intros HF; [reflexivity|]. inversion HF as [|? ? Hx HF']; subst.
  cbn [filter]. destruct (hd_eq c x) eqn:H.
  - cbn [first_match]. destruct (starts_with x (c :: r)); [reflexivity | apply IH; exact HF'].
  - cbn [first_match]. destruct x as [|x0 x']; [congruence|]. cbn [hd_eq] in H. cbn [starts_with]. rewrite H.
    cbn [andb]. apply IH. exact HF'.
Qed.

Lemma Forall_filter {A} (P : A -> Prop) f l : Forall P l -> Forall P (filter f l).
Proof. intros H. apply Forall_forall. intros x Hx. apply filter_In in Hx. rewrite Forall_forall in H. apply H. tauto. Qed.

Lemma first_matcher_sym_rows c r :
  first_matcher (sym_rows c) (c :: r) =
    match longest_match spec_symbols (c :: r) with
    | Some x => match drop_prefix x (c :: r) with Some rest => Some (KSymbol, x, rest) | None => None end
    | None => None
    end.
Proof.
  unfold sym_rows. pose proof (nonempty_of_sweep _ sym_nonempty_sweep) as HF.
  change (map symrow (filter (hd_eq c) symbols)) with (map (fun x => (MSymbol x, KSymbol)) (filter (hd_eq c) symbols)).
  rewrite first_matcher_symbols by (apply Forall_filter; exact HF).
  rewrite (first_match_filter c r symbols HF), symbols_longest_spec. reflexivity.
Qed.

Lemma spec_symbol_inv s t rest : spec_symbol s = Some (t, rest) ->
  exists x, longest_match spec_symbols s = Some x /\ strip_prefix x s = Some rest /\ t = mk SSymbol x x /\ x <> [].
Proof.
  unfold spec_symbol. destruct (longest_match spec_symbols s) as [x|] eqn:L; [|discriminate].
  destruct (strip_prefix x s) as [rest0|] eqn:S; [|discriminate]. intros H.
  assert (Hx : x <> []).
  { destruct (longest_match_some _ _ _ L) as (Hin & _ & _).
    pose proof (nonempty_of_sweep _ spec_sym_nonempty_sweep) as HF. rewrite Forall_forall in HF. apply HF. exact Hin. }
  exists x. destruct rest0 as [|y rest1].
  - inversion H; subst. repeat split; try reflexivity; assumption.
  - rewrite match61 in H. destruct (y =? 61).
    + destruct (mem_bytes x later_compound_bases); [discriminate|]. inversion H; subst. repeat split; try reflexivity; assumption.
    + inversion H; subst. repeat split; try reflexivity; assumption.
Qed.

Lemma step_symbol l col c r t rest :
  byte c -> m_name_start c = false -> m_digit c = false -> m_blank c = false ->
  c <> 10 -> c <> 13 -> c <> 63 -> c <> 39 -> c <> 34 ->
  drop_prefix [45; 45; 91; 91] (c :: r) = None -> match_long_open (c :: r) = None ->
  first_matcher (pre_rows c) (c :: r) = None ->
  spec_symbol (c :: r) = Some (t, rest) ->
  exists tk, Step l col (c :: r) tk rest /\ t_ext tk = s_raw t /\ tok_diff (at_pos t l col) (observe tk) = 0.
Proof.
  intros Hb E1 E2 E3 N10 N13 N63 N39 N34 H1 H2 Hp Hs.
  destruct (spec_symbol_inv _ _ _ Hs) as (x & L & S & -> & Hx).
  apply (Step_matcher' l col c r KSymbol x rest); try assumption; try reflexivity; try discriminate.
  unfold expected. rewrite E1, E2, E3.
  assert (F1 : (c =? 10) = false) by lia. assert (F2 : (c =? 13) = false) by lia. assert (F3 : (c =? 63) = false) by lia.
  rewrite F1, F2, F3, first_matcher_app, Hp, first_matcher_sym_rows, L, drop_strip, S. reflexivity.
Qed.

(* ---------- the last byte of a token is never a carriage return *)
Lemma last_forallb (p : Z -> bool) a : a <> [] -> forallb p a = true -> p (last a 0) = true.
Proof.
  induction a as [|x a IH]; intros Hne H; [congruence|]. cbn in H. apply andb_true_iff in H. destruct H as [Hx Ha].
  destruct a as [|y a]; [exact Hx|]. change (last (x :: y :: a) 0) with (last (y :: a) 0). apply IH; [discriminate | exact Ha].
Qed.

Lemma last_app_one {A} (a : list A) x d : last (a ++ [x]) d = x.
Proof. apply last_last. Qed.

Lemma crlf_only_before a : forall y rest, crlf_only (a ++ y :: rest) = true -> y <> 10 -> crlf_only a = true.
Proof.
  induction a as [|x a IH]; intros y rest H Hy; [reflexivity|].
  cbn [app] in H. pose proof (crlf_only_cons _ _ H) as Hr. cbn [crlf_only]. apply andb_true_iff. split.
  - destruct (Z.eqb_spec x 13) as [->|N]; [|reflexivity].
    destruct (LexerSpec.crlf_only_cr _ H) as [r' E]. destruct a as [|z a]; cbn [app] in E; inversion E; subst; [congruence | reflexivity].
  - apply (IH y rest Hr Hy).
Qed.

(* ---------- line comments *)
Lemma expected_45 : expected 45 = (MCommentDash, KComment) :: sym_rows 45.
Proof. reflexivity. Qed.
Lemma expected_47 : expected 47 = (MCommentSlash, KComment) :: sym_rows 47.
Proof. reflexivity. Qed.
Lemma expected_58 : expected 58 = (MLabel, KLabel) :: sym_rows 58.
Proof. reflexivity. Qed.
Lemma expected_46 : expected 46 = (MNumDecFrac, KNumber) :: sym_rows 46.
Proof. reflexivity. Qed.

Definition not_eol (x : Z) : bool := negb (is_eol x).

Lemma span_not_eol s : span m_not_eol s = span not_eol s.
Proof. apply span_ext. intros c. apply m_not_eol_eq. Qed.

Lemma step_line_comment l col c r2 : c = 45 \/ c = 47 ->
  drop_prefix [45; 45; 91; 91] (c :: c :: r2) = None ->
  let '(a, b) := span not_eol (c :: c :: r2) in
  exists tk, Step l col (c :: c :: r2) tk b /\ t_ext tk = a /\
             tok_diff (at_pos (mk SComment a a) l col) (observe tk) = 0 /\ last a 0 <> 13.
Proof.
  intros Hc H1. destruct (span not_eol (c :: c :: r2)) as [a b] eqn:E.
  assert (Nc : not_eol c = true) by (destruct Hc; subst; reflexivity).
  destruct (span not_eol r2) as [a' b'] eqn:E2.
  assert (Ea : a = c :: c :: a' /\ b = b'). { cbn [span] in E. rewrite Nc, E2 in E. inversion E. split; reflexivity. }
  destruct Ea as [-> ->].
  assert (Hm : first_matcher (expected c) (c :: c :: r2) = Some (KComment, c :: c :: a', b')).
  { destruct Hc; subst c.
    - rewrite expected_45. cbn [first_matcher run_matcher drop_prefix]. change (45 =? 45) with true. cbv iota.
      rewrite take_while_span, span_not_eol, E2. reflexivity.
    - rewrite expected_47. cbn [first_matcher run_matcher drop_prefix]. change (47 =? 47) with true. cbv iota.
      rewrite take_while_span, span_not_eol, E2. reflexivity. }
  assert (Hl : last (c :: c :: a') 0 <> 13).
  { assert (P : not_eol (last (c :: c :: a') 0) = true).
    { apply last_forallb; [discriminate|]. pose proof (span_all _ _ _ _ E) as A. exact A. }
    intros C. rewrite C in P. discriminate. }
  destruct (Step_matcher' l col c (c :: r2) KComment (c :: c :: a') b' (mk SComment (c :: c :: a') (c :: c :: a')))
    as (tk & S1 & S2 & S3); try assumption; try reflexivity; try discriminate.
  - destruct Hc; subst; cls.
  - destruct Hc; subst; lia.
  - destruct Hc; subst; lia.
  - apply long_open_ne. destruct Hc; subst; lia.
  - exists tk. split; [exact S1 | split; [exact S2 | split; [exact S3 | exact Hl]]].
Qed.

(* ---------- block comments *)
Lemma step_block_comment l col r4 b cl rest :
  long_body 0 r4 = Some (b, cl, rest) ->
  let raw := 45 :: 45 :: 91 :: 91 :: b ++ cl in
  exists tk, Step l col (45 :: 45 :: 91 :: 91 :: r4) tk rest /\ t_ext tk = raw /\
             tok_diff (at_pos (mk SComment raw raw) l col) (observe tk) = 0 /\ last raw 0 <> 13.
Proof.
  intros H. destruct (long_body_find _ _ _ _ _ H) as [-> F]. cbn [repeat app] in *.
  apply find_rbrackets_long in F. cbv zeta.
  set (raw := 45 :: 45 :: 91 :: 91 :: b ++ [93; 93]).
  exists (mk_tok KComment raw l col [] None raw). split; [|split; [|split]].
  - apply (Step_two l col _ (InComment [91; 91; 45; 45] l col) [45; 45; 91; 91] r4 _ (b ++ [93; 93]) rest);
      try reflexivity; try discriminate.
    + intros l1 c1. cbn [process_token]. rewrite F. reflexivity.
    + destruct b; discriminate.
  - reflexivity.
  - apply tok_diff_simple; try reflexivity; discriminate.
  - unfold raw.
    replace (45 :: 45 :: 91 :: 91 :: b ++ [93; 93]) with ((45 :: 45 :: 91 :: 91 :: b ++ [93]) ++ [93]).
    + rewrite last_app_one. lia.
    + cbn [app]. rewrite <- app_assoc. reflexivity.
Qed.

(* ---------- labels *)
Lemma step_label l col r2 a b rest n0 a' :
  span is_name_char r2 = (a, b) -> a = n0 :: a' -> is_name_start n0 = true -> strip_prefix [58; 58] b = Some rest ->
  let raw := 58 :: 58 :: a ++ [58; 58] in
  exists tk, Step l col (58 :: 58 :: r2) tk rest /\ t_ext tk = raw /\
             tok_diff (at_pos (mk SLabel raw a) l col) (observe tk) = 0 /\ last raw 0 <> 13.
Proof.
  intros E -> Hn S. cbv zeta.
  assert (Hm : first_matcher (expected 58) (58 :: 58 :: r2) = Some (KLabel, 58 :: 58 :: (n0 :: a') ++ [58; 58], rest)).
  { rewrite expected_58. cbn [first_matcher run_matcher]. unfold scan_label.
    change (58 :: 58 :: r2) with ([58; 58] ++ r2). rewrite drop_prefix_app.
    destruct r2 as [|x r2']; [discriminate|]. cbn [span] in E.
    destruct (is_name_char x) eqn:Hx; [|discriminate].
    destruct (span is_name_char r2') as [a2 b2] eqn:E2. inversion E; subst x a2 b2.
    unfold scan_name. change (m_name_start n0) with (is_name_start n0). rewrite Hn, take_while_span.
    change m_name_char with is_name_char. rewrite E2, drop_strip, S. reflexivity. }
  destruct (Step_matcher l col 58 (58 :: r2) KLabel (58 :: 58 :: (n0 :: a') ++ [58; 58]) rest
              (mk SLabel (58 :: 58 :: (n0 :: a') ++ [58; 58]) (n0 :: a')))
    as (tk & S1 & S2 & S3); try assumption; try reflexivity; try discriminate; try cls.
  exists tk. split; [exact S1 | split; [exact S2 | split; [exact S3 |]]].
  replace (58 :: 58 :: (n0 :: a') ++ [58; 58]) with ((58 :: 58 :: (n0 :: a') ++ [58]) ++ [58]).
  - rewrite last_app_one. lia.
  - cbn [app]. rewrite <- app_assoc. reflexivity.
Qed.

(* ---------- long strings *)
Lemma tok_diff_long t tk l c lvl :
  s_kind t = SString -> kind_code (t_kind tk) = 3 -> s_long t = lvl -> 0 <= lvl ->
  s_text t = tok_str_value tk -> t_kind tk = KString ->
  t_ml tk = Some (repeat 61 (Z.to_nat lvl)) ->
  s_raw t = 91 :: repeat 61 (Z.to_nat lvl) ++ 91 :: t_data tk ++ 93 :: repeat 61 (Z.to_nat lvl) ++ [93] ->
  t_line tk = l -> t_col tk = c ->
  tok_diff (at_pos t l c) (observe tk) = 0.
Proof.
  intros Hk Hk2 Hlong Hl0 Htext Hks Hml Hraw Hl Hc. unfold tok_diff, at_pos, observe.
  cbn [s_kind s_raw s_text s_num s_den s_long s_line s_col i_kind i_data i_line i_col i_quote i_ml i_val i_sval].
  rewrite Hk, Hk2, Hks, Hlong, Hl, Hc, Hml, Hraw, <- Htext. cbn [skind_code]. change (3 =? 3) with true. cbn [negb].
  rewrite !zlist_eqb_refl. cbn [negb opt_list_eqb].
  assert (E : (lvl <? 0) = false) by lia. rewrite E, !zlist_eqb_refl, !Z.eqb_refl. reflexivity.
Qed.

Lemma step_long_string l col r lvl r2 b cl rest :
  long_open r 0 = Some (lvl, r2) -> long_body (Z.to_nat lvl) r2 = Some (b, cl, rest) -> crlf_only b = true ->
  let eqs := repeat 61 (Z.to_nat lvl) in
  let raw := 91 :: eqs ++ 91 :: b ++ cl in
  exists tk, Step l col (91 :: r) tk rest /\ t_ext tk = raw /\
    tok_diff (at_pos (mk_stok SString raw (long_string_value b) 0 1 lvl 0 0) l col) (observe tk) = 0 /\
    last raw 0 <> 13.
Proof.
  intros Ho Hb Hcr. cbv zeta.
  destruct (long_open_match _ _ _ _ (Z.le_refl 0) Ho) as [Hl0 _].
  pose proof (match_long_open_spec _ _ _ Ho) as Mo.
  destruct (long_body_find _ _ _ _ _ Hb) as [-> F].
  set (eqs := repeat 61 (Z.to_nat lvl)) in *.
  set (raw := 91 :: eqs ++ 91 :: b ++ 93 :: eqs ++ [93]).
  exists (mk_tok KString b l col [] (Some eqs) raw). split; [|split; [|split]].
  - apply (Step_two l col _ (InLongString eqs [] l col (rev' (91 :: eqs ++ [91]))) (91 :: eqs ++ [91]) r2 _
             (b ++ 93 :: eqs ++ [93]) rest); try reflexivity; try discriminate.
    + cbn [process_token]. rewrite (drop4_ne 91 r) by lia. rewrite Mo. reflexivity.
    + intros l1 c1. cbn [process_token]. rewrite F. cbn [rev_append]. rewrite rev_append_rev, rev'_eq, rev_involutive.
      unfold raw. cbn [app]. rewrite <- !app_assoc. reflexivity.
    + destruct b; discriminate.
    + unfold raw. cbn [t_ext app]. rewrite <- !app_assoc. reflexivity.
  - reflexivity.
  - apply (tok_diff_long _ _ l col lvl); try reflexivity; try assumption.
    cbn [s_text t_data]. unfold tok_str_value. cbn [t_ml t_data]. rewrite (long_value_agrees b Hcr). reflexivity.
  - unfold raw.
    replace (91 :: eqs ++ 91 :: b ++ 93 :: eqs ++ [93]) with ((91 :: eqs ++ 91 :: b ++ 93 :: eqs) ++ [93]).
    + rewrite last_app_one. lia.
    + cbn [app]. rewrite <- !app_assoc. cbn [app]. rewrite <- !app_assoc. reflexivity.
Qed.

(* ---------- quoted strings *)
Lemma unescape_until_last q n : forall s v raw rest, (length s <= n)%nat ->
  unescape_until q s = Some (v, raw, rest) -> exists raw', raw = raw' ++ [q].
Proof.
  induction n as [|n IH]; intros s v raw rest Hn H.
  - destruct s; [discriminate | cbn in Hn; lia].
  - destruct s as [|c r]; [discriminate|]. cbn [length] in Hn.
    destruct (Z.eqb_spec c q) as [->|Nq].
    + cbn [unescape_until] in H. rewrite Z.eqb_refl in H. inversion H; subst. exists []. reflexivity.
    + destruct (Z.eqb_spec c 92) as [->|N92].
      * rewrite unescape_backslash in H by lia.
        destruct (spec_escape r) as [[[x used] r']|] eqn:Es; [|discriminate].
        pose proof (spec_escape_split _ _ _ _ Es) as Hs.
        destruct (unescape_until q r') as [[[v1 raw1] rest1]|] eqn:U; [|discriminate].
        cbn [ucons] in H. inversion H; subst.
        destruct (IH r' v1 raw1 rest) as [raw' ->]; [rewrite app_length in Hn; lia | exact U |].
        exists (92 :: used ++ raw'). cbn [app]. rewrite <- app_assoc. reflexivity.
      * cbn [unescape_until] in H. assert (E1 : (c =? q) = false) by lia. assert (E2 : (c =? 92) = false) by lia.
        rewrite E1, E2 in H. destruct (is_eol c); [discriminate|].
        destruct (unescape_until q r) as [[[v1 raw1] rest1]|] eqn:U; [|discriminate].
        cbn [ucons] in H. inversion H; subst.
        destruct (IH r v1 raw1 rest) as [raw' ->]; [lia | exact U |].
        exists (c :: raw'). reflexivity.
Qed.

Lemma tok_diff_quoted t tk l c q :
  s_kind t = SString -> t_kind tk = KString -> s_long t = -1 ->
  s_text t = t_data tk -> t_ml tk = None -> t_quote tk = [q] -> firstn 1 (s_raw t) = [q] ->
  t_line tk = l -> t_col tk = c ->
  tok_diff (at_pos t l c) (observe tk) = 0.
Proof.
  intros Hk Hks Hlong Htext Hml Hq Hraw Hl Hc. unfold tok_diff, at_pos, observe.
  cbn [s_kind s_raw s_text s_num s_den s_long s_line s_col i_kind i_data i_line i_col i_quote i_ml i_val i_sval].
  unfold tok_str_value. rewrite Hk, Hks, Hlong, Hl, Hc, Hml, Hq, Hraw, Htext. cbn [skind_code kind_code].
  change (3 =? 3) with true. cbn [negb]. rewrite !zlist_eqb_refl. cbn [negb opt_list_eqb].
  change (-1 <? 0) with true. cbn [andb]. rewrite !Z.eqb_refl. reflexivity.
Qed.

Lemma step_quoted l col q r v raw rest :
  q = 34 \/ q = 39 -> Forall byte r -> crlf_only r = true ->
  unescape_until q r = Some (v, raw, rest) ->
  exists tk, Step l col (q :: r) tk rest /\ t_ext tk = q :: raw /\
    tok_diff (at_pos (mk_stok SString (q :: raw) v 0 1 (-1) 0 0) l col) (observe tk) = 0 /\
    last (q :: raw) 0 <> 13.
Proof.
  intros Hq Hb Hcr U.
  pose proof (string_scan_agrees q r v raw rest Hq Hb Hcr U (length r) [] [] (Nat.le_refl _)) as Sc.
  destruct (unescape_until_last q (length r) r v raw rest (Nat.le_refl _) U) as [raw' Eraw].
  assert (Hrne : raw <> []) by (subst raw; destruct raw'; discriminate).
  assert (Hr : r <> []) by (destruct r; [discriminate | discriminate]).
  exists (mk_tok KString v l col [q] None (q :: raw)). split; [|split; [|split]].
  - apply (Step_two l col _ (InString q [] l col [q]) [q] r _ raw rest); try reflexivity; try discriminate; try assumption.
    + cbn [process_token]. rewrite (drop4_ne q r) by (destruct Hq; subst; lia).
      rewrite (long_open_ne q r) by (destruct Hq; subst; lia).
      assert (E : (q =? 39) || (q =? 34) = true) by (destruct Hq; subst; reflexivity). rewrite E. reflexivity.
    + intros l1 c1. cbn [process_token]. destruct r as [|c0 r0]; [congruence|].
      rewrite Sc. rewrite !app_nil_r, !rev'_eq, !rev_involutive. reflexivity.
  - reflexivity.
  - apply (tok_diff_quoted _ _ l col q); reflexivity.
  - subst raw. change (q :: raw' ++ [q]) with ((q :: raw') ++ [q]). rewrite last_app_one. destruct Hq; subst; lia.
Qed.
