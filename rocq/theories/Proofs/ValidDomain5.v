(* Valid programs lie inside the writer domain, part 5: copy of the second half of Proofs/ParserComplete5.v (the
   one-line if) with the relations of Proofs/ValidDomain1.v; the first half (consumption, indices, newlines) is
   imported unchanged.  Differences are marked (* VD *). *)
From PV Require Import Base.Prelude Base.PySlice Spec.LuaTokens Spec.LuaGrammar Model.Tokens Model.Parser Model.ParserInst
  Model.AstWriter Model.WriterDomain Proofs.ParserProofs Proofs.ParserSpecs Proofs.ParserTheorems Proofs.ParserComplete1 Proofs.ParserComplete2
  Proofs.ParserComplete5 Proofs.ValidDomain1 Proofs.ValidDomain3 Proofs.ValidDomain4.
From Coq Require Import ZifyBool.
Ltac Zify.zify_post_hook ::= Z.to_euclidean_division_equations.

Lemma RT_bind2 {A B} ts (m : M A) (f : A -> M B) st mx1 mx2 (Q : A -> Z -> Prop) (Q' : B -> Z -> Prop) :
  RT ts (m st) mx1 Q -> (forall a p', p' <= zlen ts -> Q a p' -> RT ts (f a (p', mx1)) mx2 Q') -> RT ts (bindM m f st) mx2 Q'.
Proof. intros (a & p' & E & Hl & H) Hf. rewrite (bind_ok _ _ _ _ _ E). apply Hf; assumption. Qed.

Lemma views_hidden hs : forallb is_hidden hs = true -> views hs = [].
Proof.
  induction hs as [|x r IH]; [reflexivity|]. cbn [forallb]. intros H. apply andb_true_iff in H. destruct H as [H1 H2].
  rewrite views_cons, H1. apply IH, H2.
Qed.

Lemma all2v_single ts nts g v : all2v ts nts [g] [v] = true -> is_hidden v = false -> den ts nts g v = true.            (* VD *)
Proof.
  intros H Hv. apply den_intro; [apply ParserComplete5.all2v_single; [apply all2v_old in H; exact H | exact Hv]|].
  apply all2v_dom in H. cbn [forallb] in H. apply andb_true_iff in H. apply H.
Qed.

Lemma all2d_nil_hidden l : all2d l [] = true -> forallb is_hidden l = true.
Proof.
  induction l as [|x l IH]; [reflexivity|]. rewrite all2d_cons. cbn [forallb]. destruct (is_hidden x); [exact IH | discriminate].
Qed.

Lemma views_visible l : views l = [] -> visible l = [].
Proof.
  unfold visible. induction l as [|x l IH]; [reflexivity|]. rewrite views_cons. cbn [filter].
  destruct (is_hidden x); cbn [negb]; [exact IH | discriminate].
Qed.

Lemma chunk_has_stats_den ts nts a b sh l2 p p' fs :
  den ts nts (Node tChunk a b sh [Lst l2]) (Node tChunk p p' false [Lst fs]) = true ->
  existsb (fun y => negb (is_hidden y)) l2 = true -> chunk_has_stats (Node tChunk p p' false [Lst fs]) = true.
Proof.
  intros Hd He. apply den_old in Hd. unfold chunk_has_stats, first_field, visible. cbn [strip_paren filter is_hidden negb].   (* VD *)
  destruct (filter (fun x => negb (is_hidden x)) fs) eqn:Ev; [|reflexivity]. exfalso.
  unfold ParserComplete1.den in Hd. rewrite view_node, denotes_node in Hd. change (tChunk =? tChain) with false in Hd. cbv iota in Hd.
  apply andb_true_iff in Hd. destruct Hd as [_ Hd]. rewrite views_cons in Hd. cbn [is_hidden] in Hd. rewrite view_lst, views_nil in Hd.
  rewrite all2d_cons in Hd. cbn [is_hidden] in Hd. apply andb_true_iff in Hd. destruct Hd as [Hd _]. rewrite denotes_lst in Hd.
  assert (Hvs : views fs = []).
  { clear -Ev. induction fs as [|x fs IH]; [reflexivity|]. rewrite views_cons. cbn [filter] in Ev.
    destruct (is_hidden x); cbn [negb] in Ev; [apply IH, Ev | discriminate Ev]. }
  rewrite Hvs in Hd. apply all2d_nil_hidden in Hd. apply existsb_exists in He. destruct He as (y & Hin & Hy).
  rewrite forallb_forall in Hd. rewrite (Hd y Hin) in Hy. discriminate.
Qed.

Definition body_first : list pat := psym ";"%bs :: pkw "return"%bs :: stat_first_nodo.

Lemma shortif_body_head n a b sh x r s s' : g_chunk n (Node tChunk a b sh [Lst (x :: r)]) s = Some s' ->
  pguard false (x :: r) = true -> is_tag x tStatDo = false -> hd_in body_first s.
Proof.
  intros H Hp Hd. destruct n; [discriminate|]. cbn [g_chunk] in H. change (tChunk =? tChunk) with true in H. cbv iota in H.
  destruct n; [discriminate|]. cbn [g_stats] in H. destruct x; try (cbn [is_tag] in H; apply obind_some in H; destruct H as (s1 & H & _); destruct n; discriminate H).
  - destruct (is_tag (Node tag s0 e short fields) tStatReturn).
    + gmatch H; hd_first H.
    + apply obind_some in H. destruct H as (s1 & H & _). cbn [pguard orb] in Hp. apply andb_true_iff in Hp. destruct Hp as [Hp _].
      apply negb_true_iff in Hp. pose proof (g_stat_head_nodo _ _ _ _ H Hp Hd) as Hh. eapply hd_sub; [|exact Hh]. vm_compute. reflexivity.
  - hd_first H.
Qed.

Lemma last_cons_ne (x : Z) l d : l <> [] -> last (x :: l) d = last l d.
Proof. destruct l; [contradiction | reflexivity]. Qed.

(* ------------------------------------------------------------------ the one-line if *)
Section ShortIf.
Variable ts : list token.
Variable nts : bool.
Local Notation SS := (sstream ts).
Local Notation len := (zlen ts).
Local Notation CTX := (CTX ts nts).
Local Notation CTXL := (CTXL ts nts).
Local Notation den := (den ts nts).
Local Notation all2v := (all2v ts nts).
Variable R : funs.
Variable k : Z.
Local Notation G := (G ts k).
Hypothesis HR : comp ts nts G R.

Ltac gd := unfold ValidDomain3.G, ValidDomain3.G' in *; lia.

Lemma CTX_sub g mx mx' : CTX g mx -> (forall j, In j (leaves g) -> fence_ok mx' j = true) -> CTX g mx'.
Proof. apply CTX_refence. Qed.

Lemma L_shortif : shortif_stmt ts nts R k.
Proof.
  intros pos ii q tif p mx n a b o c ex bk rest s' HG Hpos Hii Hq Hsq Hg HC. destruct HG as [Hp0 HGk].
  destruct (spos ts q ii tif _ Hq Hsq) as (Hqi & Hilen & _).
  (* the fragment conditions and the line scope of this node *)
  pose proof (CTX_old _ _ _ _ HC) as (Hfrag & _ & HLS & _).                                                      (* VD *)
  assert (Hls : LS ts (Node tStatIf a b true [Kw ii; Lst (Lst [Paren o c ex; bk] :: rest)]) = true).
  { apply HLS. cbn [short_ifs]. change ((tStatIf =? tStatIf) && true) with true. cbv iota. left. reflexivity. }
  cbn [in_frag] in Hfrag. change (tStatIf =? tStatIf) with true in Hfrag. change (tStatIf =? tChunk) with false in Hfrag.
  cbn [negb orb andb] in Hfrag. apply andb_true_iff in Hfrag. destruct Hfrag as [Hsok _].
  unfold shortif_ok in Hsok. destruct bk as [btag ba bb bsh bfs| | | | | | | |]; try discriminate Hsok.
  destruct bfs as [|[| |bl| | | | | |] [|? ?]]; cbv beta iota in Hsok; try discriminate Hsok; try (destruct bl; discriminate Hsok).
  destruct bl as [|bx br]; [discriminate Hsok|].
  apply andb_true_iff in Hsok. destruct Hsok as [Hnodo Hrest]. apply andb_true_iff in Hnodo. destruct Hnodo as [Hnodo Hpg].
  apply negb_true_iff in Hnodo.
  (* contexts of the parts *)
  pose proof HC as HC'. apply CTX_node in HC'. ctx_split HC'. open_lst. open_lst.
  match goal with HCp : ValidDomain1.CTX ts _ (Paren o c ex) mx |- _ => rename HCp into HCP end.
  match goal with HCb : ValidDomain1.CTX ts _ (Node btag ba bb bsh [Lst (bx :: br)]) mx |- _ => rename HCb into HCB end.
  match goal with HCr : ValidDomain1.CTXL ts _ rest mx |- _ => rename HCr into HCR end.
  (* the derivation, piece by piece *)
  osplit Hg E1. osplit Hg E2. rename s into s1. rename s0 into s2.
  assert (Hbt : btag = tChunk).
  { destruct n; [discriminate E2|]. cbn [g_chunk] in E2. destruct (btag =? tChunk) eqn:E; [apply Z.eqb_eq in E; exact E | discriminate]. }
  subst btag.
  pose proof (shortif_body_head _ _ _ _ _ _ _ _ E2 Hpg Hnodo) as Hbh.
  (* the closing parenthesis *)
  pose proof E1 as E1'. destruct n; [discriminate E1'|]. cbn [g_prefix] in E1'.
  apply obind_some in E1'. destruct E1' as (sa & Ea & E1'). apply obind_some in E1'. destruct E1' as (sb & Eb & Ec).
  apply eat_sym_inv in Ea. destruct Ea as (to & Hso & Hko). destruct (spos ts p o to sa Hp0 Hso) as (Hpo & Holen & Hsa). subst sa.
  destruct (a_exp _ (cons_all n) _ _ _ Eb) as (pre_ex & Hpre_ex & _).
  destruct (sstream_app ts pre_ex (o + 1) sb ltac:(lia) Hpre_ex) as (qm & Qm1 & Qm2 & _).
  apply eat_sym_inv in Ec. destruct Ec as (tc & Hsc & Hkc). rewrite <- Qm2 in Hsc.
  destruct (sstream_cons ts qm c tc s1 ltac:(lia) Hsc) as (Hqc & Hclen & Hs1 & Htc & _).
  (* consumption: the leaves after `if` *)
  assert (Hcons : cons_eq (SS p) s' (leaves (Paren o c ex) ++ leaves (Node tChunk ba bb bsh [Lst (bx :: br)]) ++ flat_map leaves rest)).
  { eapply cons_trans; [eapply (a_prefix _ (cons_all (S n))), E1|]. eapply cons_trans; [eapply (a_chunk _ (cons_all (S n))), E2|].
    destruct rest as [|el [|[| |el2| | | | | |] [|? ?]]]; try discriminate Hg; try (exfalso; gmatch Hg; fail).
    - injection Hg as <-. apply cons_refl.
    - gmatch Hg. apply obind_some in Hg. destruct Hg as (s3 & Eel & Hg). eapply cons_eq_conv;
        [eapply cons_trans; [eapply cons_kw, Eel | eapply (a_chunk _ (cons_all (S n))), Hg] | lnorm]. }
  destruct Hcons as (pre & Hpre & Hlv).
  assert (Hcin : In c (map fst pre)).
  { rewrite Hlv. apply in_or_app. left. cbn [leaves app]. right. apply in_or_app. right. left. reflexivity. }
  assert (HLS2 : negb (newline_in ts 0 ii (last (map fst pre) 0)) && line_ends_after ts 0 (last (map fst pre) 0) = true).
  { unfold LS in Hls. cbn [leaves flat_map] in Hls. cbn [app] in Hls. unfold first_last in Hls.
    match type of Hls with context [last ?l ii] =>
      assert (El : last l ii = last (map fst pre) 0); [|rewrite El in Hls; exact Hls] end.
    rewrite Hlv. rewrite !app_nil_r.
    match goal with |- last (ii :: ?l) ii = _ => rewrite (last_cons_ne ii l ii) by (cbn [app]; discriminate) end.
    rewrite (last_default _ ii 0) by (cbn [app]; discriminate). f_equal. cbn [leaves flat_map app]. rewrite ?app_nil_r.
    repeat rewrite <- app_assoc. reflexivity. }
  destruct (fence_facts ts p pre s' ii c Hp0 ltac:(lia) ltac:(lia) Hpre Hcin HLS2) as (Fa & Fb).
  set (f := newline_after ts (c + 1)) in *.
  (* the leaves of the body and of the else part lie behind the parenthesis *)
  destruct (a_chunk _ (cons_all (S n)) _ _ _ E2) as (pre_b & Hpre_b & Hlv_b). rewrite <- Hs1 in Hpre_b.
  destruct (sstream_app ts pre_b (c + 1) s2 ltac:(lia) Hpre_b) as (q2 & Qb1 & Qb2 & Qb3 & _).
  assert (HCBf : CTX (Node tChunk ba bb bsh [Lst (bx :: br)]) (Some f)).
  { apply (CTX_sub _ mx); [exact HCB|]. intros j Hj. unfold fence_ok. apply Z.ltb_lt. apply Fa.
    - rewrite Hlv. apply in_or_app. right. apply in_or_app. left. exact Hj.
    - rewrite <- Hlv_b in Hj. destruct (Qb3 j Hj) as (A1 & _). lia. }
  (* run the parser *)
  unfold if_def.
  eapply RT_bind; [eapply R_exp_paren; [exact HR | split; [assumption | gd] | exact E1 | exact HCP | fhd Hbh]|].
  cbv beta. intros e1 p1 Hl_p1 (Q1 & Q2 & Q3 & Q4 & Q5 & Q6 & (es & ee & x' & ->)). subst p1.                   (* VD *)
  assert (Hfb : follow (anyof body_first) mx (SS (c + 1))) by (rewrite Hs1; fhd Hbh).
  prim. miss. miss. destruct Q4 as (etag & es0 & efs & Heq). injection Heq as _ _ -> _.
  cbn [end_of strip_paren]. destruct (c + 1 - 1 <? 0) eqn:Ec0; [lia|].
  replace (Z.to_nat (c + 1 - 1)) with (Z.to_nat c) by lia.
  unfold ParserProofs.tok_at in Htc. destruct (c <? 0) eqn:Ec1; [lia|]. rewrite Htc.
  change (tok_eqb tc (mkTok CSymbol 0 ")"%bs ")"%bs)) with (matches tc (psym ")"%bs)). rewrite matches_kd, Hkc.
  prim. fold f.
  assert (Hhid : hidden_of (Node tExpValue es (c + 1) false [Paren o c x']) = [] /\
                 first_field (Node tExpValue es (c + 1) false [Paren o c x']) = Paren o c x') by (split; reflexivity).   (* VD *)
  destruct Hhid as [Hh1 Hh2].
  assert (HdP : den (Paren o c ex) (Paren o c x') = true).
  { rewrite den_node in Q3 by reflexivity. apply all2v_single; [exact Q3 | reflexivity]. }
  (* body *)
  assert (Hfol_b : follow fblock (Some f) s2).
  { destruct rest as [|el [|[| |el2| | | | | |] [|? ?]]]; try discriminate Hg; try (exfalso; gmatch Hg; fail).
    - injection Hg as <-. unfold follow. rewrite Fb. exact I.
    - gmatch Hg. apply obind_some in Hg. destruct Hg as (s3 & Eel & _). pose proof (hd_kw _ _ _ _ Eel) as Hh. fhd Hh. }
  eapply RT_bind2; [eapply (c_chunk _ _ _ _ HR (c + 1) (Some f)); [gd | rewrite Hs1; exact E2 | exact HCBf | exact Hfol_b]|].
  cbv beta. intros b1 p2 Hl_p2 (Q7 & Q8 & Q9 & fsb & ->). rewrite bind_assert by reflexivity.
  destruct rest as [|el [|[| |el2| | | | | |] [|? ?]]]; try discriminate Hg; try (exfalso; gmatch Hg; fail).
  - (* no else *)
    injection Hg as <-. assert (Hf0 : follow (anyof []) (Some f) (SS p2)) by (unfold follow; rewrite Q7, Fb; exact I).
    miss. prim. cbn [tag_of strip_paren]. change (tExpValue =? tExpValue) with true. cbv iota. prim.
    rewrite ret_eq. apply RT_ok; [lia|]. unfold QS. split; [exact Q7|]. split; [lia|]. split; [|split; reflexivity].
    rewrite Hh1, Hh2. rewrite den_node by reflexivity. all2v_tac. rewrite all2v_cons; [exact (all2v_nil ts nts) | | reflexivity].
    rewrite den_lst. rewrite all2v_cons; [exact (all2v_nil ts nts) | | reflexivity].
    rewrite den_lst. cbn [app]. rewrite all2v_cons; [| exact HdP | reflexivity].                                 (* VD *)
    rewrite all2v_cons; [exact (all2v_nil ts nts) | exact Q9 | reflexivity].
  - (* else *)
    gmatch Hg. apply obind_some in Hg. destruct Hg as (s3 & Eel & Hg).
    match type of Hg with g_chunk _ ?bb2 _ = _ => set (b2 := bb2) in * end.
    ctx_split HCR. open_lst.
    match goal with HCe : ValidDomain1.CTX ts _ b2 mx |- _ => rename HCe into HCE end.
    destruct (a_chunk _ (cons_all (S n)) _ _ _ Hg) as (pre_e & Hpre_e & Hlv_e).
    apply kw_inv in Eel. destruct Eel as (ie & te & Eq & Hse & Hke). subst el. rewrite <- Q7 in Hse.
    destruct (spos ts p2 ie te s3 ltac:(lia) Hse) as (Hle_e & Hlt_e & Hs3). rewrite <- Hs3 in Hpre_e.
    destruct (sstream_app ts pre_e (ie + 1) s' ltac:(lia) Hpre_e) as (q3 & Qe1 & Qe2 & Qe3 & _).
    assert (Hie : fence_ok (Some f) ie = true).
    { unfold fence_ok. apply Z.ltb_lt. apply Fa; [|lia]. rewrite Hlv. apply in_or_app. right. apply in_or_app. right.
      cbn [flat_map leaves app]. left. reflexivity. }
    assert (HCEf : CTX b2 (Some f)).
    { apply (CTX_sub _ mx); [exact HCE|]. intros j Hj. unfold fence_ok. apply Z.ltb_lt. apply Fa.
      - rewrite Hlv. apply in_or_app. right. apply in_or_app. right. cbn [flat_map leaves app]. right. rewrite !app_nil_r. exact Hj.
      - rewrite <- Hlv_e in Hj. destruct (Qe3 j Hj) as (A1 & _). lia. }
    rewrite (bind_accept_hit ts (pkw "else"%bs) _ p2 (Some f) ie te s3 eq_refl ltac:(lia) Hse Hke Hie). cbv beta iota zeta. prim.
    eapply RT_bind2; [eapply (c_chunk _ _ _ _ HR (ie + 1) (Some f)); [gd | rewrite Hs3; exact Hg | exact HCEf | unfold follow; rewrite Fb; exact I]|].
    cbv beta. intros eb p3 Hl_p3 (Q10 & Q11 & Q12 & fse & ->).
    assert (Hb2 : exists ea eb' esh l2, b2 = Node tChunk ea eb' esh [Lst l2] /\ existsb (fun y => negb (is_hidden y)) l2 = true).
    { subst b2. match goal with |- exists _ _ _ _, ?bb = _ /\ _ => destruct bb as [t2 ea eb' esh efs2| | | | | | | |]; try discriminate Hrest end.
      destruct efs2 as [|[| |l2| | | | | |] [|? ?]]; try discriminate Hrest.
      assert (t2 = tChunk).
      { cbn [g_chunk] in Hg. destruct (t2 =? tChunk) eqn:E; [apply Z.eqb_eq in E; exact E | discriminate]. }
      subst t2. eexists _, _, _, _. split; [reflexivity | exact Hrest]. }
    destruct Hb2 as (ea & eb' & esh & l2 & Eb2 & Hex).
    rewrite Eb2 in Q12. rewrite (chunk_has_stats_den ts _ _ _ _ _ _ _ _ Q12 Hex). prim.
    cbn [tag_of strip_paren]. change (tExpValue =? tExpValue) with true. cbv iota. prim.
    rewrite ret_eq. apply RT_ok; [lia|]. unfold QS. split; [exact Q10|]. split; [lia|]. split; [|split; reflexivity].
    rewrite Hh1, Hh2. rewrite den_node by reflexivity. all2v_tac. rewrite all2v_cons; [exact (all2v_nil ts nts) | | reflexivity].
    rewrite den_lst. rewrite all2v_cons; [| | reflexivity].
    + all2v_tac. rewrite all2v_cons; [exact (all2v_nil ts nts) | | reflexivity]. rewrite den_lst.
      rewrite all2v_cons; [| apply den_pnone | reflexivity]. rewrite all2v_cons; [exact (all2v_nil ts nts) | | reflexivity].
      fold b2. rewrite Eb2. exact Q12.
    + rewrite den_lst. cbn [app]. rewrite all2v_cons; [| exact HdP | reflexivity].                               (* VD *)
      rewrite all2v_cons; [exact (all2v_nil ts nts) | exact Q9 | reflexivity].
Qed.

End ShortIf.
