(* Statement extents, part 3: from the parser model's tokens to the reference tokens.

   corr u s          the parser token u and the reference token s are the same token as far as the block-depth scan
                     (Proofs/ParserExtent1.scan) and Spec/RequireSpec.strip_from can tell
   agree_corr        holds for the tokens of a source of the dialect (lexer worker's C07 agreement)
   strip_pass        a run of tokens whose scan passes the check is copied by strip_from
   strip_skip        `function` <game-loop name> `(` <balanced> `end` at depth 0 is dropped by strip_from *)
From PV Require Import Base.Prelude Spec.LuaTokens Spec.LuaLex Spec.RequireSpec Generated.T_files_build Generated.T_lexer
  Model.Lexer Model.Tokens Model.Parser Model.ReqEmbedInst Instances.HoldsC01
  Proofs.LuaLexFacts Proofs.LexerMain Proofs.LexerView Proofs.ParserProofs Proofs.ParserExtent1.
From Coq Require Import ZifyBool.
Ltac Zify.zify_post_hook ::= idtac.
Close Scope pm_scope.

Local Notation gl := game_loop_function_names.

(* ------------------------------------------------------------------ tokens of the dialect *)
(* words and symbols: the text is the raw text; keywords are the lower-case keywords *)
Definition word_ok (t : stok) : Prop :=
  match s_kind t with
  | SKeyword => s_text t = s_raw t /\ mem_bytes (s_raw t) spec_keywords = true
  | SName | SSymbol => s_text t = s_raw t
  | _ => True
  end.

Lemma step_word_ok s t rest : spec_step s = Some (t, rest) -> word_ok t.
Proof.
  intros H. pose proof (spec_step_shape _ _ _ H) as Sh. destruct Sh; unfold word_ok; cbn [s_kind mk s_text s_raw]; try exact I; try reflexivity.
  - unfold spec_number in H1. destruct (num_split _) as [run rs]. destruct (spec_numeral run) as [[n d]|]; [|discriminate].
    injection H1 as <- _. exact I.
  - destruct (mem_bytes a spec_keywords) eqn:E; cbn [s_kind mk s_text s_raw]; [split; [reflexivity | exact E] | reflexivity].
  - destruct (spec_symbol_inv _ _ _ H0) as (x & _ & -> & _). reflexivity.
Qed.

Lemma chain_word_ok : forall s ts, chain s ts -> Forall word_ok ts.
Proof. induction 1 as [|s t rest ts Hs _ IH]; constructor; [eapply step_word_ok, Hs | exact IH]. Qed.

Lemma word_ok_unpos t : word_ok t -> word_ok (unpos t).
Proof. intros H. exact H. Qed.

Record corr (u : token) (s : stok) : Prop := mkCorr {
  c_delta : tdelta u = depth_delta s;
  c_fun : is_fun u = kw_is (bs_ "function") s;
  c_loc : is_loc u = kw_is (bs_ "local") s;
  c_nm : is_nm u = RequireSpec.is_kind SName s;
  c_gl : is_nm u = true -> in_gl gl u = mem_bytes (s_text s) game_loop_names;
  c_paren : is_sym "("%bs u = sym_is (bs_ "(") s;
  c_triv : LuaTokens.is_trivia u = LuaLex.is_trivia s }.

Lemma kw_lower : forallb (fun k => zlist_eqb (lower k) k) spec_keywords = true.
Proof. vm_compute. reflexivity. Qed.

Lemma gl_names_eq : gl = game_loop_names.
Proof. vm_compute. reflexivity. Qed.

Lemma is_kw_keyword u s d : tk u = CKeyword -> tdata u = s_raw s -> s_kind s = SKeyword -> s_text s = s_raw s ->
  mem_bytes (s_raw s) spec_keywords = true -> lower d = d -> is_kw d u = kw_is d s.
Proof.
  intros Hk Hd Ks Ht Hm Hl. unfold is_kw, kw_is, RequireSpec.is_kind. rewrite Hk, Hd, Ks, Ht, Hl. cbn [kclass_eqb skind_code Z.eqb Pos.eqb andb].
  f_equal. unfold mem_bytes in Hm. apply existsb_exists in Hm. destruct Hm as (k & Hin & Hk2). apply zlist_eqb_eq in Hk2. subst k.
  pose proof kw_lower as Sw. rewrite forallb_forall in Sw. specialize (Sw _ Hin). apply zlist_eqb_eq in Sw. exact Sw.
Qed.

Lemma is_kw_other u s d : tk u <> CKeyword -> s_kind s <> SKeyword -> is_kw d u = kw_is d s.
Proof.
  intros Hk Ks. unfold is_kw, kw_is, RequireSpec.is_kind. destruct (tk u); try congruence; destruct (s_kind s); try congruence; reflexivity.
Qed.

(* the parser's view of a model token that agrees with a reference token *)
Lemma agree_corr s tm : agree s tm -> word_ok s -> corr (token_of_tok tm) (unpos s).
Proof.
  intros Ha Hw. destruct (agree_fields s tm Ha) as (Hk & _ & _ & Hf).
  assert (Htk : tk (token_of_tok tm) = kclass_of (kind_of (s_kind s))) by (unfold token_of_tok; cbn [tk]; rewrite Hk; reflexivity).
  assert (Hkw : forall d, lower d = d -> is_kw d (token_of_tok tm) = kw_is d (unpos s)).
  { intros d Hd. destruct (s_kind s) eqn:K; unfold word_ok in Hw; rewrite K in Hw;
      try (apply is_kw_other; [rewrite Htk, ?K; discriminate | cbn [unpos s_kind]; rewrite ?K; discriminate]).
    destruct Hw as [Ht Hm]. apply is_kw_keyword; cbn [unpos s_kind s_text s_raw]; assumption. }
  assert (Hdata : s_kind s = SName \/ s_kind s = SSymbol -> tdata (token_of_tok tm) = s_text s).
  { intros [K|K]; unfold word_ok in Hw; rewrite K in Hw; rewrite K in Hf; unfold token_of_tok; cbn [tdata]; congruence. }
  constructor.
  - unfold tdelta, depth_delta. rewrite !Hkw by reflexivity. reflexivity.
  - apply Hkw. reflexivity.
  - apply Hkw. reflexivity.
  - unfold is_nm, RequireSpec.is_kind. rewrite Htk. cbn [unpos s_kind]. destruct (s_kind s); reflexivity.
  - intros Hn. unfold is_nm in Hn. rewrite Htk in Hn.
    assert (K : s_kind s = SName) by (destruct (s_kind s); try discriminate Hn; reflexivity).
    unfold in_gl. rewrite (Hdata (or_introl K)), gl_names_eq. reflexivity.
  - unfold is_sym, sym_is, RequireSpec.is_kind. rewrite Htk. cbn [unpos s_kind s_text].
    destruct (s_kind s) eqn:K; cbn [kind_of kclass_of kclass_eqb skind_code Z.eqb Pos.eqb andb]; try reflexivity.
    rewrite (Hdata (or_intror eq_refl)). reflexivity.
  - unfold LuaTokens.is_trivia, LuaLex.is_trivia. rewrite Htk. cbn [unpos s_kind]. destruct (s_kind s); reflexivity.
Qed.

(* ------------------------------------------------------------------ strip_from on corresponding token lists *)
Lemma trig_corr t st r sr rest : corr t st -> Forall2 corr r sr ->
  trig gl t r = false ->
  (kw_is (bs_ "function") st &&
   match sr ++ rest with
   | n :: p :: _ => RequireSpec.is_kind SName n && mem_bytes (s_text n) game_loop_names && sym_is (bs_ "(") p
   | _ => false
   end) = false.
Proof.
  intros Ct Cr Ht. unfold trig in Ht. rewrite <- (c_fun _ _ Ct). destruct (is_fun t); [|reflexivity]. cbn [andb] in *.
  destruct Cr as [|n sn r' sr' Cn Cr']; [discriminate Ht|]. cbn [app].
  destruct Cr' as [|p sp r'' sr'' Cp Cr''].
  - rewrite <- (c_nm _ _ Cn). rewrite Ht. cbn [app]. destruct rest; reflexivity.
  - cbn [app]. rewrite <- (c_nm _ _ Cn), <- (c_paren _ _ Cp). destruct (is_nm n) eqn:En; [|reflexivity].
    rewrite <- (c_gl _ _ Cn En). exact Ht.
Qed.

(* a run whose scan passes the check is copied *)
Lemma strip_pass us : forall ss d pl d' rest, Forall2 corr us ss -> scan gl true us d pl = Some d' ->
  strip_from (ss ++ rest) d 0 pl = ss ++ strip_from rest d' 0 false.
Proof.
  induction us as [|t r IH]; intros ss d pl d' rest HF Hs.
  - inversion HF; subst. cbn [scan] in Hs. destruct pl; [discriminate|]. injection Hs as <-. reflexivity.
  - inversion HF as [|? st ? sr Ct Cr]; subst. cbn [scan] in Hs.
    destruct (d + tdelta t <? 0) eqn:En; [discriminate|]. cbn [orb andb] in Hs.
    destruct ((d =? 0) && negb pl && trig gl t r) eqn:Et; [discriminate|].
    cbn [app strip_from]. change (0 <? 0) with false. cbv iota.
    assert (Est : ((d =? 0) && negb pl && kw_is (bs_ "function") st &&
                   match sr ++ rest with
                   | n :: p :: _ => RequireSpec.is_kind SName n && mem_bytes (s_text n) game_loop_names && sym_is (bs_ "(") p
                   | _ => false
                   end) = false).
    { destruct ((d =? 0) && negb pl) eqn:E1; [|reflexivity]. cbn [andb] in *. eapply trig_corr; eassumption. }
    rewrite Est. f_equal. rewrite <- (c_delta _ _ Ct), <- (c_loc _ _ Ct). apply IH; assumption.
Qed.

(* inside a definition being removed: a balanced run keeps the count positive *)
Lemma strip_skip_run us : forall ss d k pl k' rest, Forall2 corr us ss -> scan gl false us (k - 1) pl = Some (k' - 1) -> 1 <= k ->
  forall pl', strip_from (ss ++ rest) d k pl' = strip_from rest d k' false \/ (ss = [] /\ k' = k).
Proof.
  induction us as [|t r IH]; intros ss d k pl k' rest HF Hs Hk pl'.
  - inversion HF; subst. cbn [scan] in Hs. destruct pl; [discriminate|]. injection Hs as E. right. split; [reflexivity | lia].
  - left. inversion HF as [|? st ? sr Ct Cr]; subst. cbn [scan] in Hs. cbn [andb orb] in Hs. rewrite orb_false_r in Hs.
    destruct (k - 1 + tdelta t <? 0) eqn:En; [discriminate|].
    cbn [app strip_from]. replace (0 <? k) with true by lia. cbv iota.
    rewrite <- (c_delta _ _ Ct).
    replace (k - 1 + tdelta t) with (k + tdelta t - 1) in Hs by lia.
    destruct (IH sr d (k + tdelta t) (is_loc t) k' rest Cr Hs ltac:(lia) false) as [E|[-> ->]]; [exact E | reflexivity].
Qed.

Lemma strip_from_cons t r d skip pl :
  strip_from (t :: r) d skip pl =
    if 0 <? skip then strip_from r d (skip + depth_delta t) false
    else if (d =? 0) && negb pl && kw_is (bs_ "function") t &&
            match r with
            | n :: p :: _ => RequireSpec.is_kind SName n && mem_bytes (s_text n) game_loop_names && sym_is (bs_ "(") p
            | _ => false
            end
         then strip_from r d 1 false
         else t :: strip_from r (d + depth_delta t) 0 (kw_is (bs_ "local") t).
Proof. reflexivity. Qed.

(* `function` <game-loop name> `(` ... `end` at depth 0, not after `local`, is dropped *)
Lemma strip_skip tf sf body sbody te se rest :
  corr tf sf -> is_fun tf = true -> Forall2 corr body sbody -> corr te se -> tdelta te = -1 ->
  W gl body ->
  (exists tn tp r, body = tn :: tp :: r /\ is_nm tn = true /\ in_gl gl tn = true /\ is_sym "("%bs tp = true) ->
  strip_from (sf :: sbody ++ se :: rest) 0 0 false = strip_from rest 0 0 false.
Proof.
  intros Cf Hf Cb Ce Hd HW (tn & tp & r & -> & Hn & Hg & Hp).
  inversion Cb as [|? sn ? sb1 Cn Cb1]; subst. inversion Cb1 as [|? sp ? sb2 Cp Cb2]; subst.
  rewrite strip_from_cons. change (0 <? 0) with false. cbv iota. change (0 =? 0) with true. cbn [negb andb app].
  rewrite <- (c_fun _ _ Cf), Hf, <- (c_nm _ _ Cn), Hn, <- (c_gl _ _ Cn Hn), Hg, <- (c_paren _ _ Cp), Hp. cbn [andb]. cbv iota.
  assert (Hrun : scan gl false (tn :: tp :: r) (1 - 1) false = Some (1 - 1)) by exact HW.
  change (sn :: sp :: sb2 ++ se :: rest) with ((sn :: sp :: sb2) ++ se :: rest).
  destruct (strip_skip_run (tn :: tp :: r) (sn :: sp :: sb2) 0 1 false 1 (se :: rest) Cb Hrun ltac:(lia) false) as [E|[E _]]; [|discriminate E].
  rewrite E. rewrite strip_from_cons. change (0 <? 1) with true. cbv iota. rewrite <- (c_delta _ _ Ce), Hd. reflexivity.
Qed.
