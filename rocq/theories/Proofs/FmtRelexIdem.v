(* luafmt is idempotent on whole programs, at the level of texts (lemmas for Properties/C10.v C10_idempotent):
   the text luafmt wrote, read again by the lexer, is a token list  formatted_as (gap_fmt w) ts ts'  (Spec/ReindentSpec.v) - the
   same significant tokens, every run spelled as the reference formatting of the run at the same place - so that
   C10_idempotent_tokens (Proofs/AstWriterReindent.v program_idempotent) writes it back unchanged.

   rend_ref          the reference formatter  ref_fmt (gap_fmt w) ts  is a rendering of ts in the sense of Proofs/FmtRelexMain.v
                     (so relex_of_rend reads it back), every run written with the reference depth of the next token
   norm_same_token   the parser's token for a re-read code token is the token it was written from (class, delimiter, data, code)
   rr_spelled        from the layout relation rr of relex_rend: formatted_as, and gaps_tidy is inherited (a formatted run without
                     a line end in its source has none: fmt_run_eolfree) *)
From PV Require Import Base.Prelude Spec.LuaTokens Spec.LuaGrammar Spec.LuaLex Spec.SameCode Spec.TokenDepth Spec.ReindentSpec
  Model.Tokens Model.Parser Model.ParserInst Model.WriterChunks Model.AstWriter Model.WriterDomain Model.FmtSpaces Model.FmtSpacesInst
  Proofs.FmtSpacesProofs Proofs.FmtLinesProofs Proofs.FmtChunksProofs Proofs.FmtLineEnd Proofs.AstWriterDepth Proofs.AstWriterReindent
  Proofs.LuaLexFacts Proofs.MinifyRelex Proofs.FmtRelexAuto Proofs.FmtRelexLex Proofs.FmtRelexMain.
From PV Require Model.Lexer Model.LexToken Spec.FmtShape.
From Coq Require Import Lia.

Local Notation tis_trivia := LuaTokens.is_trivia.
Local Notation sis_trivia := LuaLex.is_trivia.
Local Notation dstate := FmtShape.dstate.
Local Notation st0 := (FmtShape.mk_dstate 0 0).

(* ====================================================================== segs *)
Fixpoint body_toks (l : list (token * list token)) : list token :=
  match l with [] => [] | (t, r) :: l' => t :: r ++ body_toks l' end.

Definition seg_wf (p : token * list token) : Prop := tis_trivia (fst p) = false /\ forallb tis_trivia (snd p) = true.

Lemma segs_spec ts : ts = fst (segs ts) ++ body_toks (snd (segs ts)) /\ forallb tis_trivia (fst (segs ts)) = true /\ Forall seg_wf (snd (segs ts)).
Proof.
  induction ts as [|t r IH]; [repeat split; constructor|]. cbn [segs]. destruct (segs r) as [r0 l]. cbn [fst snd] in IH.
  destruct IH as (E & H0 & Hl). destruct (tis_trivia t) eqn:Et; cbn [fst snd].
  - split; [cbn [app]; f_equal; exact E|]. split; [cbn [forallb]; rewrite Et, H0; reflexivity | exact Hl].
  - split; [cbn [app body_toks]; f_equal; exact E|]. split; [reflexivity|]. constructor; [split; assumption | exact Hl].
Qed.

Definition nil_or_sig (l : list token) : Prop := match l with [] => True | u :: _ => tis_trivia u = false end.

Lemma segs_nil_or_sig l : nil_or_sig l -> fst (segs l) = [] /\ (match l with [] => true | _ => false end) = is_nilb (snd (segs l)) /\
  (forall st, match l with [] => 0 | u :: _ => tok_depth_at st u end = next_depth st (snd (segs l))).
Proof.
  destruct l as [|u l1]; [intros _; repeat split; reflexivity|]. cbn [nil_or_sig]. intros Hu. rewrite (segs_sig u l1 Hu).
  cbn [fst snd is_nilb next_depth]. repeat split; reflexivity.
Qed.

(* ====================================================================== the reference formatter as a rendering *)
Definition Pnext (st : dstate) (ind : Z) (l : list token) : Prop :=
  ind = match l with [] => 0 | u :: _ => tok_depth_at st u end.

Lemma body_toks_facts l st : Forall seg_wf l ->
  nil_or_sig (body_toks l) /\ (match body_toks l with [] => true | _ => false end) = is_nilb l /\
  match body_toks l with [] => 0 | u :: _ => tok_depth_at st u end = next_depth st l.
Proof.
  intros H. destruct l as [|[t r] l']; [repeat split; reflexivity|]. inversion H as [|? ? [Ht _] _]; subst.
  cbn [body_toks nil_or_sig is_nilb next_depth fst]. split; [exact Ht|]. split; reflexivity.
Qed.

Lemma rend_body w : forall l st q, 0 <= q -> Forall seg_wf l ->
  rend (fmt_spaces w) Pnext st q (body_toks l) (ref_body (gap_fmt w) st l).
Proof.
  induction l as [|[t r] l' IH]; intros st q Hq Hwf; [constructor|]. inversion Hwf as [|? ? [Ht Hr] Hwf']; subst. cbn [fst snd] in *.
  cbn [body_toks ref_body]. cbv zeta. apply rend_code; [exact Ht|]. set (st' := tok_depth_after st t).
  destruct (body_toks_facts l' st' Hwf') as (F1 & F2 & F3).
  destruct r as [|r0 r1] eqn:Er.
  - rewrite gap_fmt_nil. cbn [app]. apply IH; [lia | exact Hwf'].
  - rewrite <- Er in *.
    assert (EW : gap_fmt w false (is_nilb l') (next_depth st' l') r =
                 fmt_spaces w (q + 1) (next_depth st' l') (match body_toks l' with [] => true | _ => false end) r).
    { unfold fmt_spaces, gap_fmt. replace (q + 1 =? 0) with false by lia. rewrite F2. reflexivity. }
    rewrite EW. apply rend_run; [rewrite Er; discriminate | exact Hr | exact F1 | unfold Pnext; symmetry; exact F3|].
    apply IH; [pose proof (zlen_nonneg r); lia | exact Hwf'].
Qed.

Theorem rend_ref w ts : rend (fmt_spaces w) Pnext st0 0 ts (ref_fmt (gap_fmt w) ts).
Proof.
  unfold ref_fmt. destruct (segs_spec ts) as (E & H0 & Hl). destruct (segs ts) as [r0 l]. cbn [fst snd] in *.
  destruct (body_toks_facts l st0 Hl) as (F1 & F2 & F3).
  destruct r0 as [|t0 r1] eqn:Er.
  - rewrite gap_fmt_nil. cbn [app] in *. rewrite E. apply rend_body; [lia | exact Hl].
  - rewrite <- Er in *. rewrite E at 1.
    assert (EW : gap_fmt w true (is_nilb l) (next_depth st0 l) r0 =
                 fmt_spaces w 0 (next_depth st0 l) (match body_toks l with [] => true | _ => false end) r0).
    { unfold fmt_spaces, gap_fmt. rewrite F2. reflexivity. }
    rewrite EW. apply rend_run; [rewrite Er; discriminate | exact H0 | exact F1 | unfold Pnext; symmetry; exact F3|].
    apply rend_body; [pose proof (zlen_nonneg r0); lia | exact Hl].
Qed.

(* ====================================================================== the same token *)
Lemma norm_same_token s t t' src rest : spec_step src = Some (s, rest) -> corr s t -> corr (norm_tok s) t' -> t' = t.
Proof.
  intros Hs (Hk & Hc & Hf) (Hk' & Hc' & Hf').
  pose proof (pks_norm s _ _ Hs) as Hp. unfold pks in Hp. injection Hp as Hpk Hpc. rewrite Hpk in Hk'. rewrite Hpc in Hc'.
  destruct (code_head _ _ _ Hs) as (c & r1 & r2 & Hr1 & Hr2).
  assert (Hq : tq t' = tq t /\ tdata t' = tdata t).
  { unfold norm_tok in Hf'. unfold tokfields in Hf, Hf'. destruct (s_kind s) eqn:K; try (rewrite K in Hf'; destruct Hf, Hf'; split; congruence).
    destruct (s_long s <? 0) eqn:El.
    - cbn [s_kind s_long s_raw s_text] in Hf'. change (-1 <? 0) with true in Hf'. cbv iota in Hf'.
      destruct Hf as [A B], Hf' as [A' B']. rewrite Hr1 in A. rewrite Hr2 in A'. cbn [hd] in *. split; congruence.
    - rewrite K, El in Hf'. destruct Hf as [A B], Hf' as [A' B']. split; [congruence|].
      rewrite B in B'. injection B' as B'. apply app_inv_head in B'. injection B' as B'. apply app_inv_tail in B'. symmetry. exact B'. }
  destruct Hq as [Hq Hd]. destruct t as [k1 q1 d1 c1], t' as [k2 q2 d2 c2]. cbn [tk tq tdata tcode] in *. congruence.
Qed.

(* ====================================================================== formatted runs without a line end *)
Lemma trail_nl_noNL s : noNL s -> noNL (trail_nl s).
Proof.
  induction s as [|c r IH]; intros H; [constructor|]. cbn [trail_nl]. inversion H; subst.
  destruct (forallb is_sp_nl (c :: r)).
  - destruct (existsb is_nl (c :: r)) eqn:E; [|constructor]. exfalso. apply existsb_exists in E. destruct E as (x & Hx & Hn).
    unfold is_nl in Hn. apply Z.eqb_eq in Hn. subst x. unfold noNL in H. rewrite Forall_forall in H. exact (H NL Hx eq_refl).
  - constructor; [assumption | apply IH; assumption].
Qed.

Lemma fmt_run_eolfree cfg r : eolfree r -> eolfree (fmt_run cfg r).
Proof.
  intros H. pose proof (canon_eolfree r H) as Hn.
  rewrite (fmt_run_lines cfg r (canon_ws r) []) by (apply split_nl_noNL_line; exact Hn).
  assert (Hl : noNL (joinl (fmt_lines cfg (canon_ws r) []))).
  { pose proof (noNL_fmt_lines cfg (canon_ws r) [] ltac:(constructor; [exact Hn | constructor])) as HF.
    unfold fmt_lines in *. cbn [fmt_tail map_init map_last map sq] in *. inversion HF; subst. cbn [joinl flat map concat]. rewrite app_nil_r. assumption. }
  assert (Hx : noNL (if f_at_end cfg then trail_nl (joinl (fmt_lines cfg (canon_ws r) [])) else joinl (fmt_lines cfg (canon_ws r) []))).
  { destruct (f_at_end cfg); [apply trail_nl_noNL|]; exact Hl. }
  pose proof (fmt_run_clean cfg r) as Hc. rewrite (fmt_run_lines cfg r (canon_ws r) []) in Hc by (apply split_nl_noNL_line; exact Hn).
  set (X := if f_at_end cfg then _ else _) in *. unfold eolfree. apply forallb_forall. intros x Hin.
  unfold noNL in Hx. unfold clean in Hc. rewrite Forall_forall in Hx, Hc. specialize (Hx x Hin). destruct (Hc x Hin) as [_ Hcr].
  unfold is_eolb. apply negb_true_iff. apply orb_false_iff. split; apply Z.eqb_neq; assumption.
Qed.

(* ====================================================================== from the layout relation to formatted_as *)
Definition gaps_okP (l : list token) : Prop :=
  gap_ok (fst (segs l)) = true /\ Forall (fun p => gap_ok (snd p) = true) (snd (segs l)).

Definition spelled_at (w q : Z) (st : dstate) (l l' : list token) : Prop :=
  flat_map tcode (fst (segs l')) = gap_fmt w (q =? 0) (is_nilb (snd (segs l))) (next_depth st (snd (segs l))) (fst (segs l)) /\
  spelled_body (gap_fmt w) st (snd (segs l)) (snd (segs l')) /\
  (gaps_okP l -> gaps_okP l').

Lemma rr_next W P st q l ss' l' : rr W P st q l ss' -> nil_or_sig l -> Forall2 corr ss' l' -> nil_or_sig l'.
Proof.
  intros H Hl Hc. inversion H; subst.
  - inversion Hc; subst. exact I.
  - inversion Hc as [|s0 u' ss0 l'1 Hsu _]; subst. cbn [nil_or_sig] in *.
    destruct Hsu as [Hk' _]. match goal with Hx : corr s t |- _ => destruct Hx as [Hk _] end.
    destruct H2 as (src & rest & Hstep). pose proof (f_equal fst (pks_norm s _ _ Hstep)) as Hp. cbn [fst pks] in Hp.
    unfold tis_trivia in *. rewrite Hk', Hp, <- Hk. exact H0.
  - exfalso. destruct T as [|t1 T1]; [congruence|]. cbn [app nil_or_sig] in Hl. cbn [forallb] in H1.
    apply andb_true_iff in H1. destruct H1 as [H1 _]. congruence.
Qed.

Lemma corr_newline s t : corr s t -> is_newline t = is_nlk s.
Proof. intros [Hk _]. unfold is_newline, is_nlk. rewrite Hk. destruct (s_kind s); reflexivity. Qed.

Lemma rr_spelled w st q l ss' : rr (fmt_spaces w) Pnext st q l ss' -> 0 <= q ->
  forall l', Forall2 corr ss' l' -> spelled_at w q st l l'.
Proof.
  induction 1 as [st q|st q t l s s' ss' Ht Hst Hsh Es H IH|st q ind T l toks ss' HT1 HT2 Hl HP Htr Htxt Hnl H IH]; intros Hq l' Hc.
  - inversion Hc; subst. unfold spelled_at. cbn [segs fst snd spelled_body]. rewrite gap_fmt_nil. split; [reflexivity|]. split; [exact I|]. intros G; exact G.
  - inversion Hc as [|s0 t' ss0 l'1 Hst' Hc1]; subst. destruct Hsh as (src & rest & Hstep).
    assert (t' = t) by (eapply norm_same_token; eassumption). subst t'.
    destruct (IH ltac:(lia) l'1 Hc1) as (I1 & I2 & I3). replace (q + 1 =? 0) with false in I1 by lia.
    unfold spelled_at. rewrite !(segs_sig t _ Ht). cbn [fst snd spelled_body flat_map]. rewrite gap_fmt_nil. cbv zeta.
    split; [reflexivity|]. split; [split; [reflexivity|]; split; assumption|].
    unfold gaps_okP. rewrite !(segs_sig t _ Ht). cbn [fst snd]. intros [_ Hg]. split; [reflexivity|].
    inversion Hg as [|? ? G1 G2]; subst. cbn [snd] in G1. destruct (I3 (conj G1 G2)) as [J1 J2]. constructor; [exact J1 | exact J2].
  - apply Forall2_app_inv_l in Hc. destruct Hc as (T' & l'1 & HcT & Hc1 & ->).
    pose proof (zlen_nonneg T) as HzT.
    destruct (IH ltac:(lia) l'1 Hc1) as (_ & I2 & I3).
    pose proof (rr_next _ _ _ _ _ _ _ H Hl Hc1) as Hl'.
    assert (HtT' : forallb tis_trivia T' = true).
    { clear -HcT Htr. induction HcT as [|s t a b Hst _ IH]; [reflexivity|]. inversion Htr; subst. cbn [forallb].
      rewrite (corr_trivia s t Hst), IH by assumption. rewrite andb_true_r. assumption. }
    assert (Hcode : flat_map tcode T' = rawtxt toks).
    { rewrite <- run_code_flat_map. clear -HcT Htr. unfold run_code, rawtxt. f_equal. induction HcT as [|s t a b Hst _ IH]; [reflexivity|].
      inversion Htr; subst. cbn [map]. f_equal; [|apply IH; assumption]. destruct Hst as [_ [-> _]]. apply trivial_code. assumption. }
    assert (HnlT : existsb is_newline T' = existsb is_newline T).
    { rewrite <- Hnl. clear -HcT. induction HcT as [|s t a b Hst _ IH]; [reflexivity|]. cbn [existsb]. rewrite IH, (corr_newline s t Hst). reflexivity. }
    destruct (segs_nil_or_sig l Hl) as (S1 & S2 & S3). destruct (segs_nil_or_sig l'1 Hl') as (S1' & _ & _).
    unfold spelled_at. rewrite (segs_trivia_app T l HT2), (segs_trivia_app T' l'1 HtT'), S1, S1', !app_nil_r. cbn [fst snd].
    assert (Etext : flat_map tcode T' = gap_fmt w (q =? 0) (is_nilb (snd (segs l))) (next_depth st (snd (segs l))) T).
    { rewrite Hcode, Htxt, S2. unfold Pnext in HP. rewrite HP, (S3 st). reflexivity. }
    split; [exact Etext|]. split; [exact I2|].
    unfold gaps_okP. rewrite (segs_trivia_app T l HT2), (segs_trivia_app T' l'1 HtT'), S1, S1', !app_nil_r. cbn [fst snd].
    intros [G1 G2]. assert (G0 : gap_ok (fst (segs l)) = true) by (rewrite S1; reflexivity).
    destruct (I3 (conj G0 G2)) as [_ J2]. split; [|exact J2].
    unfold gap_ok in *. rewrite HnlT. destruct (existsb is_newline T); [reflexivity|]. cbn [orb] in *.
    rewrite run_code_flat_map, Etext. apply fmt_run_eolfree. exact G1.
Qed.

(* ====================================================================== luafmt (luafmt p) = luafmt p *)
Import LexToken.

Theorem luafmt_idempotent w src ss lts root e :
  Forall byte src -> spec_lex src = Some ss -> Lexer.model_lex [src] = Ok lts ->
  lua_parse (map lex_token lts) = Ok (root, e) -> consumed (map lex_token lts) e = true ->
  writable (map lex_token lts) root = true -> no_trailing_sep root = true -> gaps_tidy (map lex_token lts) = true ->
  exists out ss' lts',
    writer_text (fmt_spaces w) (map lex_token lts) (view root) = Ok out /\ Forall byte out /\
    spec_lex out = Some ss' /\ Lexer.model_lex [out] = Ok lts' /\
    formatted_as (gap_fmt w) (map lex_token lts) (map lex_token lts') /\ gaps_tidy (map lex_token lts') = true /\
    forall root' e',
      lua_parse (map lex_token lts') = Ok (root', e') -> consumed (map lex_token lts') e' = true ->
      writable (map lex_token lts') root' = true -> no_trailing_sep root' = true ->
      writer_text (fmt_spaces w) (map lex_token lts') (view root') = Ok out.
Proof.
  intros HB Hs Hm Hp Hc Hw Hts Hgt.
  pose proof (program_ref_fmt _ w root e Hp Hc Hw Hts Hgt) as Hout.
  set (ts := map lex_token lts) in *.
  destruct (relex_of_rend (fmt_spaces w) Pnext (fmt_good w) src ss lts _ HB Hs Hm (rend_ref w ts))
    as (ss1 & lts' & H1 & H2 & H3 & _ & _ & Hrr & _ & Hcorr & _).
  set (ts' := map lex_token lts') in *.
  destruct (rr_spelled w _ 0 _ _ Hrr ltac:(lia) ts' Hcorr) as (S1 & S2 & S3).
  change (map lex_token lts) with ts in S1, S2, S3. change (0 =? 0) with true in S1.
  assert (Hfa : formatted_as (gap_fmt w) ts ts').
  { unfold formatted_as. destruct (segs ts) as [a l], (segs ts') as [a' l']. cbn [fst snd] in *. split; assumption. }
  assert (Hgt' : gaps_tidy ts' = true).
  { assert (G : gaps_okP ts).
    { unfold gaps_tidy in Hgt. unfold gaps_okP. destruct (segs ts) as [a l]. cbn [fst snd]. apply andb_true_iff in Hgt. destruct Hgt as [G1 G2].
      split; [exact G1|]. apply Forall_forall. rewrite forallb_forall in G2. exact G2. }
    destruct (S3 G) as [J1 J2]. unfold gaps_tidy. destruct (segs ts') as [a' l']. cbn [fst snd] in *. rewrite J1. cbn [andb].
    apply forallb_forall. rewrite Forall_forall in J2. exact J2. }
  exists (ref_fmt (gap_fmt w) ts), ss1, lts'. repeat (split; [assumption|]).
  intros root' e' Hp' Hc' Hw' Hts'. fold ts' in Hp', Hc', Hw' |- *.
  rewrite (program_idempotent w ts ts' root' e' Hp' Hc' Hw' Hts' Hgt' Hfa). f_equal.
  exact (proj1 (ref_fmt_idem w ts ts' Hfa)).
Qed.
