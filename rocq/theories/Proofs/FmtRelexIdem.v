(* luafmt is idempotent on whole programs (lemmas for Properties/C09.v): the text luafmt wrote, lexed and parsed again,
   is written back unchanged - where both passes lie in the domain in which the writer's nesting counter is the
   reference depth (Proofs/AstWriterLines.v program_depth: no one-line if with else, no trailing table separator).

   fok w b st l         the token list l is "formatted": every maximal white-space / comment run of l is a fixed point of
                        the formatter pipeline under the flags of its position and the reference depth of the token after it
                        (st = the depth state before l, b = l starts the file)
   fmt_fixed_tiling     on such a list luafmt's aligned chunk list renders to the text of the list (pass 2)
   rr_fok               the tokens read from the text luafmt wrote form such a list (pass 1; from the layout relation rr of
                        relex_rend and the idempotence of the run pipeline, C10_run_idempotent)
   writer_ind_known     every non-empty run of the writer's chunk list was written with the reference depth of the token
                        after it, the run that ends the file with 0. *)
From PV Require Import Base.Prelude Base.PySlice Spec.LuaTokens Spec.LuaGrammar Spec.LuaLex Spec.SameCode Spec.TokenDepth Generated.T_parser
  Model.Tokens Model.Parser Model.ParserInst Model.WriterChunks Model.AstWriter Model.WriterDomain Model.FmtSpaces Model.FmtSpacesInst
  Proofs.ParserProofs Proofs.ParserSpecs Proofs.ParserTheorems Proofs.TreeShape Proofs.ParserShape Proofs.WriterCursor
  Proofs.AstWriterProofs Proofs.AstWriterAligned Proofs.AstWriterTop Proofs.AstWriterIndent Proofs.AstWriterDepth Proofs.AstWriterLines
  Proofs.FmtSpacesProofs Proofs.FmtLinesProofs Proofs.FmtChunksProofs Proofs.LuaLexFacts Proofs.MinifyRelex
  Proofs.FmtRelexAuto Proofs.FmtRelexLex Proofs.FmtRelexMain.
From PV Require Model.Lexer Model.LexToken.
From Coq Require Import Lia.

Local Notation tis_trivia := LuaTokens.is_trivia.
Local Notation sis_trivia := LuaLex.is_trivia.
Local Notation dstate := FmtShape.dstate.

(* ====================================================================== tokens the depth rules cannot tell apart *)
Definition deq (t t' : token) : Prop := tk t = tk t' /\ (tk t = CKeyword \/ tk t = CSymbol -> tdata t = tdata t').

Lemma deq_kw w t t' : deq t t' -> t_kw w t = t_kw w t'.
Proof.
  intros [Hk Hd]. unfold t_kw. rewrite <- Hk. destruct (tk t) eqn:K; cbn [kclass_eqb andb]; try reflexivity.
  rewrite Hd by auto. reflexivity.
Qed.

Lemma deq_sym c t t' : deq t t' -> t_sym c t = t_sym c t'.
Proof.
  intros [Hk Hd]. unfold t_sym. rewrite <- Hk. destruct (tk t) eqn:K; cbn [kclass_eqb andb]; try reflexivity.
  rewrite Hd by auto. reflexivity.
Qed.

Lemma deq_depth_at st t t' : deq t t' -> tok_depth_at st t = tok_depth_at st t'.
Proof.
  intros H. unfold tok_depth_at, t_is_closer. rewrite !(deq_kw _ t t' H), !(deq_sym _ t t' H). reflexivity.
Qed.

Lemma deq_depth_after st t t' : deq t t' -> tok_depth_after st t = tok_depth_after st t'.
Proof.
  intros H. unfold tok_depth_after, t_is_open_bracket, t_is_opener_kw.
  rewrite (deq_depth_at st t t' H), !(deq_kw _ t t' H), !(deq_sym _ t t' H). reflexivity.
Qed.

Lemma pkt_deq t t' : pkt t' = pkt t -> plain_token t = true -> plain_token t' = true -> deq t t'.
Proof.
  unfold pkt. intros [= Hk Hc] Hp Hp'. split; [symmetry; exact Hk|]. unfold plain_token in Hp, Hp'. rewrite Hk in Hp'.
  intros [K|K]; rewrite K in Hp, Hp'.
  - apply andb_true_iff in Hp, Hp'. destruct Hp as [Hp _], Hp' as [Hp' _]. apply zlist_eqb_eq in Hp, Hp'. congruence.
  - apply zlist_eqb_eq in Hp, Hp'. congruence.
Qed.

Lemma pkt_trivia t t' : pkt t' = pkt t -> tis_trivia t' = tis_trivia t.
Proof. unfold pkt. intros [= Hk _]. unfold tis_trivia. rewrite Hk. reflexivity. Qed.

(* ====================================================================== formatted token lists *)
Definition Pdepth (st : dstate) (ind : Z) (l : list token) : Prop :=
  match l with [] => ind = 0 | u :: _ => ind = tok_depth_at st u end.

Definition nil_or_sig (l : list token) : Prop := match l with [] => True | u :: _ => tis_trivia u = false end.
Definition is_nilb {A} (l : list A) : bool := match l with [] => true | _ => false end.

Inductive fok (w : Z) : bool -> dstate -> list token -> Prop :=
| fok_nil b st : fok w b st []
| fok_code b st t l : tis_trivia t = false -> fok w false (tok_depth_after st t) l -> fok w b st (t :: l)
| fok_run b st ind T l : T <> [] -> forallb tis_trivia T = true -> nil_or_sig l -> Pdepth st ind l ->
    fmt_run (mk_fcfg b (is_nilb l) w ind) (run_code T) = run_code T ->
    fok w false st l -> fok w b st (T ++ l).

Lemma fok_b w b b' st l : nil_or_sig l -> fok w b st l -> fok w b' st l.
Proof.
  intros Hl H. inversion H; subst.
  - constructor.
  - constructor; assumption.
  - exfalso. destruct T as [|t1 T1]; [congruence|]. cbn [app nil_or_sig] in Hl. cbn [forallb] in H1.
    apply andb_true_iff in H1. destruct H1 as [H1 _]. congruence.
Qed.

(* a list splits in one way only into a run of trivia and a rest that starts with a code token *)
Lemma split_unique T : forall run l2 l, forallb tis_trivia T = true -> forallb tis_trivia run = true ->
  nil_or_sig l2 -> nil_or_sig l -> T ++ l2 = run ++ l -> T = run /\ l2 = l.
Proof.
  induction T as [|t T IH]; intros run l2 l HT Hr H2 Hl E.
  - destruct run as [|r0 run]; [split; [reflexivity | exact E]|]. cbn [app] in E. subst l2. cbn [nil_or_sig] in H2.
    cbn [forallb] in Hr. apply andb_true_iff in Hr. destruct Hr as [Hr _]. congruence.
  - cbn [forallb] in HT. apply andb_true_iff in HT. destruct HT as [Ht HT]. destruct run as [|r0 run].
    + cbn [app] in E. subst l. cbn [nil_or_sig] in Hl. congruence.
    + cbn [app] in E. injection E as <- E. cbn [forallb] in Hr. apply andb_true_iff in Hr. destruct Hr as [_ Hr].
      destruct (IH run l2 l HT Hr H2 Hl E) as [-> ->]. split; reflexivity.
Qed.

Lemma fmt_spaces_unfold w s ind e run : fmt_spaces w s ind e run = fmt_run (mk_fcfg (s =? 0) e w ind) (run_code run).
Proof. reflexivity. Qed.

(* ---------- pass 2: on a formatted list the aligned chunk list renders to the text of the list ---------- *)
Lemma fmt_fixed_tiling w (ts : list token) q cs p : tiling ts q cs p -> 0 <= q -> p = zlen ts -> Forall (good_end ts) cs ->
  Forall (ind_known Pdepth ts) cs -> codes_of cs = sig_codes (skipn (Z.to_nat q) ts) q ->
  fok w (q =? 0) (depth_before ts q) (skipn (Z.to_nat q) ts) ->
  chunks_text (fmt_spaces w) cs = flat_map tcode (skipn (Z.to_nat q) ts).
Proof.
  induction 1 as [q|q ind e run cs p H1 H2 H3 H4 IH|q text cs p H IH]; intros Hq Hp Hg Hk Hc Hf.
  - subst q. rewrite skipn_all2 by (unfold zlen; lia). reflexivity.
  - inversion Hg as [|c0 l0 Hg1 Hg2]; subst c0 l0. inversion Hk as [|c0 l0 Hk1 Hk2]; subst c0 l0.
    pose proof (tiling_mono ts _ _ _ H4) as Hm. pose proof (zlen_nonneg run) as Hr0.
    unfold chunks_text. cbn [flat_map chunk_text]. fold (chunks_text (fmt_spaces w) cs).
    assert (Hd : run = [] \/ run <> []) by (destruct run; [left; reflexivity | right; discriminate]).
    destruct Hd as [->|Hne].
    + rewrite zlen_nil in *. replace (q + 0) with q in * by lia. rewrite fmt_spaces_nil. cbn [app].
      apply IH; assumption.
    + assert (Hsk : skipn (Z.to_nat q) ts = run ++ skipn (Z.to_nat (q + zlen run)) ts).
      { rewrite (skipn_firstn_split ts (Z.to_nat q) (length run)), <- H1. do 2 f_equal. unfold zlen. lia. }
      cbn [codes_of flat_map app] in Hc. fold (codes_of cs) in Hc.
      rewrite Hsk, sig_codes_trivia in Hc by exact H2.
      set (l := skipn (Z.to_nat (q + zlen run)) ts) in *.
      assert (He : e = is_nilb l /\ nil_or_sig l).
      { cbn [WriterCursor.good_end] in Hg1. destruct Hg1 as [Hg1|[Hg1|Hg1]]; [congruence | |].
        - destruct (sigb_tok ts _ Hg1) as (u & Hu & Hut). unfold AstWriter.tok_at in Hu.
          destruct (q + zlen run <? 0) eqn:E0; [discriminate|]. unfold l. rewrite (skipn_nth _ _ _ Hu). split; [|exact Hut].
          assert (Hn : nth_error ts (Z.to_nat (q + zlen run)) <> None) by congruence. apply nth_error_Some in Hn.
          rewrite H3. apply Z.eqb_neq. unfold zlen in *. lia.
        - unfold l. rewrite skipn_all2 by (unfold zlen in *; lia). split; [rewrite H3; apply Z.eqb_eq; exact Hg1 | exact I]. }
      destruct He as [He1 He2].
      rewrite Hsk in Hf. remember (q =? 0) as b0 eqn:Eb0. remember (depth_before ts q) as st0 eqn:Est0.
      remember (run ++ l) as L eqn:E0.
      destruct Hf as [b st|b st t l2 Ht Hf2|b st ind2 T l2 HT1 HT2 Hl2 HP2 Hfix Hf2]; subst b st.
      * exfalso. destruct run; [congruence | discriminate E0].
      * exfalso. destruct run as [|r0 run']; [congruence|]. cbn [app] in E0. injection E0 as -> _.
        cbn [forallb] in H2. apply andb_true_iff in H2. destruct H2 as [H2 _]. congruence.
      * destruct (split_unique T run l2 l HT2 H2 Hl2 He2 E0) as [-> ->].
        specialize (Hk1 Hne). fold l in Hk1.
        assert (Ei : ind2 = ind) by (unfold Pdepth in *; destruct l; congruence). subst ind2.
        rewrite fmt_spaces_unfold, He1, Hfix. rewrite Hsk, flat_map_app, <- run_code_flat_map. f_equal.
        apply IH; [lia | exact Hp | exact Hg2 | exact Hk2 | exact Hc|].
        rewrite (db_trivia ts run q Hq H1 H2).
        replace (q + zlen run =? 0) with false; [exact Hf2|]. symmetry. apply Z.eqb_neq.
        destruct run; [congruence|]. rewrite zlen_cons in *. pose proof (zlen_nonneg run). lia.
  - inversion Hg as [|c0 l0 Hg1 Hg2]; subst c0 l0. inversion Hk as [|c0 l0 Hk1 Hk2]; subst c0 l0. pose proof (tiling_mono ts _ _ _ H) as Hm.
    unfold chunks_text. cbn [flat_map chunk_text]. fold (chunks_text (fmt_spaces w) cs).
    cbn [codes_of flat_map app] in Hc. fold (codes_of cs) in Hc.
    destruct (skipn (Z.to_nat q) ts) as [|t l] eqn:Esk; [discriminate Hc|].
    assert (El : l = skipn (Z.to_nat (q + 1)) ts).
    { replace (Z.to_nat (q + 1)) with (Z.to_nat q + 1)%nat by lia. rewrite <- skipn_plus, Esk. reflexivity. }
    cbn [sig_codes] in Hc. destruct (tis_trivia t) eqn:Et.
    + exfalso. assert (Hin : In (q, text) (sig_codes l (q + 1))) by (rewrite <- Hc; left; reflexivity).
      apply sig_codes_ge in Hin. lia.
    + injection Hc as -> Hc. cbn [flat_map]. f_equal.
      assert (Hn : nth_error ts (Z.to_nat q) = Some t).
      { rewrite <- (Nat.add_0_r (Z.to_nat q)), <- nth_error_skipn, Esk. reflexivity. }
      pose proof (db_step ts q t Hq Hn) as Hdb. rewrite Et in Hdb.
      rewrite El. apply IH; [lia | exact Hp | exact Hg2 | exact Hk2 | rewrite <- El; exact Hc|].
      rewrite <- El, Hdb. replace (q + 1 =? 0) with false by lia.
      remember (q =? 0) as b0 eqn:Eb0. remember (depth_before ts q) as st0 eqn:Est0. remember (t :: l) as L eqn:E0.
      destruct Hf as [b st|b st t2 l2 Ht Hf2|b st ind2 T l2 HT1 HT2 Hl2 HP2 Hfix Hf2]; subst b st.
      * discriminate E0.
      * injection E0 as -> ->. exact Hf2.
      * exfalso. destruct T as [|t1 T1]; [congruence|]. cbn [app] in E0. injection E0 as -> _.
        cbn [forallb] in HT2. apply andb_true_iff in HT2. destruct HT2 as [HT2 _]. congruence.
Qed.

(* ---------- pass 1: the tokens read from the text luafmt wrote ---------- *)
Lemma rr_head W P st q l ss' : rr W P st q l ss' -> nil_or_sig l ->
  (l = [] /\ ss' = []) \/ (exists t l1 s' ss1, l = t :: l1 /\ ss' = s' :: ss1 /\ tis_trivia t = false /\ pks s' = pkt t).
Proof.
  intros H Hl. inversion H; subst.
  - left. auto.
  - right. eauto 10.
  - exfalso. destruct T as [|t1 T1]; [congruence|]. cbn [app nil_or_sig] in Hl. cbn [forallb] in H1.
    apply andb_true_iff in H1. destruct H1 as [H1 _]. congruence.
Qed.

Lemma corr_pkt s t : corr s t -> pkt t = pks s.
Proof. intros [H1 H2]. unfold pkt, pks. rewrite H1, H2. reflexivity. Qed.

Lemma rr_fok w st q l ss' : rr (fmt_spaces w) Pdepth st q l ss' -> 0 <= q ->
  forall l', Forall2 corr ss' l' -> forallb plain_token l = true -> forallb plain_token l' = true ->
  fok w (q =? 0) st l'.
Proof.
  induction 1 as [st q|st q t l s' ss' Ht Hpk H IH|st q ind T l toks ss' HT1 HT2 Hl HP Htr Htxt H IH]; intros Hq l' Hc Hp Hp'.
  - inversion Hc; subst. constructor.
  - inversion Hc as [|s0 t' ss0 l'1 Hst Hc1]; subst. cbn [forallb] in Hp, Hp'.
    apply andb_true_iff in Hp, Hp'. destruct Hp as [Hpt Hpl], Hp' as [Hpt' Hpl'].
    assert (Hpk' : pkt t' = pkt t) by (rewrite (corr_pkt _ _ Hst); exact Hpk).
    pose proof (pkt_deq t t' Hpk' Hpt Hpt') as Hd.
    apply fok_code; [rewrite (pkt_trivia _ _ Hpk'); exact Ht|].
    rewrite <- (deq_depth_after st t t' Hd). specialize (IH ltac:(lia) l'1 Hc1 Hpl Hpl').
    replace (q + 1 =? 0) with false in IH by lia. exact IH.
  - apply Forall2_app_inv_l in Hc. destruct Hc as (T' & l'1 & HcT & Hc1 & ->).
    rewrite forallb_app in Hp, Hp'. apply andb_true_iff in Hp, Hp'. destruct Hp as [HpT Hpl], Hp' as [HpT' Hpl'].
    pose proof (zlen_nonneg T) as HzT.
    specialize (IH ltac:(lia) l'1 Hc1 Hpl Hpl').
    assert (Hq2 : (q + zlen T =? 0) = false).
    { apply Z.eqb_neq. destruct T; [congruence|]. rewrite zlen_cons in *. pose proof (zlen_nonneg T). lia. }
    rewrite Hq2 in IH.
    (* what follows the run in the new list *)
    assert (Hnext : nil_or_sig l'1 /\ is_nilb l'1 = is_nilb l /\ Pdepth st ind l'1).
    { destruct (rr_head _ _ _ _ _ _ H Hl) as [[-> ->]|(u & l1 & su & ss1 & -> & -> & Hu & Hpu)].
      - inversion Hc1; subst. split; [exact I|]. split; [reflexivity | exact HP].
      - inversion Hc1 as [|s0 u' ss0 l'2 Hsu Hc2]; subst. cbn [forallb] in Hpl, Hpl'.
        apply andb_true_iff in Hpl, Hpl'. destruct Hpl as [Hpu1 _], Hpl' as [Hpu2 _].
        assert (Hpk' : pkt u' = pkt u) by (rewrite (corr_pkt _ _ Hsu); exact Hpu).
        pose proof (pkt_deq u u' Hpk' Hpu1 Hpu2) as Hd.
        split; [cbn [nil_or_sig]; rewrite (pkt_trivia _ _ Hpk'); exact Hu|]. split; [reflexivity|].
        cbn [Pdepth] in *. rewrite <- (deq_depth_at st u u' Hd). exact HP. }
    destruct Hnext as (Hn1 & Hn2 & Hn3).
    assert (HtT' : forallb tis_trivia T' = true).
    { clear -HcT Htr. induction HcT as [|s t a b Hst _ IH]; [reflexivity|]. inversion Htr; subst. cbn [forallb].
      rewrite (corr_trivia s t Hst), IH by assumption. rewrite andb_true_r. assumption. }
    assert (Hcode : run_code T' = rawtxt toks).
    { clear -HcT Htr. unfold run_code, rawtxt. f_equal. induction HcT as [|s t a b Hst _ IH]; [reflexivity|].
      inversion Htr; subst. cbn [map]. f_equal; [|apply IH; assumption]. destruct Hst as [_ ->]. apply trivial_code. assumption. }
    destruct T' as [|t1' T1'] eqn:ET'.
    + cbn [app]. apply (fok_b w false); assumption.
    + rewrite <- ET' in *. apply (fok_run w (q =? 0) st ind); try assumption.
      * rewrite ET'. discriminate.
      * rewrite Hcode, Htxt, fmt_spaces_unfold, Hn2. fold (is_nilb l). apply fmt_run_idempotent_all.
Qed.

(* ====================================================================== the indent of every run of the writer *)
Section One.
Variable ts : list token.
Local Notation len := (zlen ts).

Lemma tiling_In q cs p : tiling ts q cs p -> forall s ind e run, In (Trivia s ind e run) cs ->
  q <= s /\ run = firstn (length run) (skipn (Z.to_nat s) ts) /\ forallb tis_trivia run = true /\ s + zlen run <= p.
Proof.
  induction 1 as [q|q ind0 e0 run0 cs p H1 H2 H3 H4 IH|q text cs p H IH]; intros s ind e run Hin.
  - destruct Hin.
  - pose proof (tiling_mono ts _ _ _ H4) as Hm. pose proof (zlen_nonneg run0). destruct Hin as [Hin|Hin].
    + injection Hin as <- <- <- <-. repeat split; [lia | exact H1 | exact H2 | exact Hm].
    + destruct (IH _ _ _ _ Hin) as (A & B & C & D). repeat split; [lia | exact B | exact C | exact D].
  - destruct Hin as [Hin|Hin]; [discriminate Hin|]. destruct (IH _ _ _ _ Hin) as (A & B & C & D). repeat split; [lia | exact B | exact C | exact D].
Qed.

(* the chunk list of a whole run: the chunks of the walk never reach the end of the list with a non-empty run; the last chunk
   is the run after the last node, written with the counter back at 0 *)
Theorem writer_aligned_final root e :
  lua_parse ts = Ok (root, e) -> consumed ts e = true -> writable ts root = true ->
  exists cs1 s en run, writer_chunks ts (view root) = Ok (cs1 ++ [Trivia s 0 en run], len) /\ Forall (good ts) cs1.
Proof.
  intros Hp Hc Hw.
  destruct (parse_shape ts lua_binops lua_unops lua_binops_nontrivia lua_unops_nontrivia root e Hp) as (He & Hsp & Hsh & fs & Hroot).
  unfold writable in Hw. repeat (apply andb_true_iff in Hw; destruct Hw as [Hw ?]).
  assert (Hdom : dom ts root = true) by (unfold dom; repeat (apply andb_true_iff; split); assumption).
  pose proof (walk_aligned ts lua_binops lua_unops Hw lua_binops_ptok lua_unops_ptok (tsize root) cChunk root (le_n _) Hsh Hdom) as Hwok.
  destruct (consumed_nosig ts e Hc) as (_ & Hns).
  specialize (Hwok (2 * tdepth (view root) + 2)%nat 0 e 0 ltac:(lia) Hsp (okpos_0 ts) ltac:(intros; lia)).
  destruct (Hwok (mkW 0 0 [])) as (st1 & cs1 & E1 & P1 & _ & O1 & C1 & G1); [change (nearB ts 0 0 0); apply nearB_exact; lia|].
  cbn [w_out] in O1. rewrite app_nil_r in O1.
  pose proof (walk_restores_indent ts _ _ _ _ E1) as Hind. cbn [w_ind] in Hind.
  subst root. rewrite view_node in *. unfold writer_chunks.
  assert (Hat : AstWriter.all_trivia (skipn (Z.to_nat e) ts) = true).
  { unfold consumed in Hc. apply andb_true_iff in Hc. destruct Hc as [_ Hc]. rewrite <- all_trivia_same. exact Hc. }
  rewrite Hat. cbn [negb]. unfold seq. rewrite E1. unfold spaces_to. cbn [w_pos]. rewrite P1, Hind.
  unfold ntok. rewrite trailing_run by (first [lia | exact Hns]).
  exists cs1. eexists. eexists. eexists. split; [|exact G1].
  unfold rev'. rewrite <- rev_alt. cbn [w_out rev]. rewrite O1, rev_involutive. reflexivity.
Qed.

Lemma sigb_len : sigb ts len = false.
Proof.
  unfold sigb, ParserProofs.tok_at. destruct (len <? 0); [reflexivity|].
  assert (H : nth_error ts (Z.to_nat len) = None) by (apply nth_error_None; unfold zlen; lia). rewrite H. reflexivity.
Qed.

Theorem writer_ind_known root e :
  lua_parse ts = Ok (root, e) -> consumed ts e = true -> writable ts root = true ->
  no_short_else root = true -> no_trailing_sep root = true ->
  exists cs, writer_chunks ts (view root) = Ok (cs, len) /\ codes_of cs = sig_codes ts 0 /\ tiling ts 0 cs len /\
             Forall (good_end ts) cs /\ Forall (ind_known Pdepth ts) cs.
Proof.
  intros Hp Hc Hw Hse Hts.
  destruct (writer_aligned_good ts root e Hp Hc Hw) as (cs & Hcs & Hcd & Htil & Hg).
  destruct (program_depth ts root e Hp Hc Hw Hse Hts) as (cs2 & Hcs2 & Hdep). rewrite Hcs in Hcs2. injection Hcs2 as <-.
  destruct (writer_aligned_final root e Hp Hc Hw) as (cs1 & s0 & en0 & run0 & Hcs3 & Hgood). rewrite Hcs in Hcs3. injection Hcs3 as Ecs.
  exists cs. repeat (split; [assumption|]). apply Forall_forall. intros c Hin. destruct c as [s ind en run|i text]; [|exact I].
  cbn [ind_known]. intros Hne.
  destruct (tiling_In 0 cs len Htil _ _ _ _ Hin) as (Hs & Hrun & Htr & Hle).
  destruct (Z.eq_dec (s + zlen run) len) as [Eend|Nend].
  - rewrite skipn_all2 by (unfold zlen in *; lia). cbn [Pdepth].
    rewrite Ecs in Hin. apply in_app_or in Hin. destruct Hin as [Hin|[Hin|[]]].
    + exfalso. rewrite Forall_forall in Hgood. specialize (Hgood _ Hin). cbn [good] in Hgood.
      destruct Hgood as [Hgood|Hgood]; [congruence|]. rewrite Eend, sigb_len in Hgood. discriminate.
    + injection Hin as _ <- _ _. reflexivity.
  - destruct (Hdep s ind en run Hin Hne ltac:(lia)) as [Hsig Hd].
    destruct (sigb_tok ts _ Hsig) as (u & Hu & Hut). unfold AstWriter.tok_at in Hu.
    destruct (s + zlen run <? 0) eqn:E0; [discriminate|]. rewrite (skipn_nth _ _ _ Hu). cbn [Pdepth].
    rewrite Hd. unfold token_depth. rewrite Hu. rewrite (db_trivia ts run s Hs Hrun Htr). reflexivity.
Qed.
End One.

(* ====================================================================== luafmt (luafmt p) = luafmt p *)
Import LexToken.

Lemma writable_plain ts root : writable ts root = true -> forallb plain_token ts = true.
Proof. unfold writable, plain_tokens. intros H. repeat (apply andb_true_iff in H; destruct H as [H ?]). exact H. Qed.

Theorem luafmt_idempotent w src ss lts root e :
  Forall byte src -> spec_lex src = Some ss -> Lexer.model_lex [src] = Ok lts ->
  lua_parse (map lex_token lts) = Ok (root, e) -> consumed (map lex_token lts) e = true ->
  writable (map lex_token lts) root = true -> no_short_else root = true -> no_trailing_sep root = true ->
  exists out ss' lts',
    writer_text (fmt_spaces w) (map lex_token lts) (view root) = Ok out /\ Forall byte out /\
    spec_lex out = Some ss' /\ Lexer.model_lex [out] = Ok lts' /\
    forall root' e',
      lua_parse (map lex_token lts') = Ok (root', e') -> consumed (map lex_token lts') e' = true ->
      writable (map lex_token lts') root' = true -> no_short_else root' = true -> no_trailing_sep root' = true ->
      writer_text (fmt_spaces w) (map lex_token lts') (view root') = Ok out.
Proof.
  intros HB Hs Hm Hp Hc Hw Hse Hts.
  destruct (writer_ind_known _ root e Hp Hc Hw Hse Hts) as (cs & Hcs & Hcd & Htil & Hg & Hik).
  destruct (relex_core (fmt_spaces w) Pdepth (fmt_good w) src ss lts cs HB Hs Hm Htil Hg Hcd Hik)
    as (ss1 & lts' & H1 & H2 & H3 & _ & _ & Hrr & Hraw & Hcorr & Htxt).
  set (out := chunks_text (fmt_spaces w) cs) in *.
  exists out, ss1, lts'. split; [unfold writer_text; rewrite Hcs; reflexivity|]. split; [exact H1|]. split; [exact H2|]. split; [exact H3|].
  intros root' e' Hp' Hc' Hw' Hse' Hts'.
  set (ts' := map lex_token lts') in *.
  destruct (writer_ind_known ts' root' e' Hp' Hc' Hw' Hse' Hts') as (cs' & Hcs' & Hcd' & Htil' & Hg' & Hik').
  unfold writer_text. rewrite Hcs'. f_equal.
  pose proof (rr_fok w _ 0 _ _ Hrr ltac:(lia) ts' Hcorr (writable_plain _ _ Hw) (writable_plain _ _ Hw')) as Hfok.
  assert (HS0 : depth_before ts' 0 = FmtShape.mk_dstate 0 0) by (unfold depth_before; destruct ts'; reflexivity).
  rewrite (fmt_fixed_tiling w ts' 0 cs' (zlen ts') Htil' ltac:(lia) eq_refl Hg' Hik' Hcd'); [|rewrite HS0; exact Hfok].
  cbn [Z.to_nat skipn]. rewrite Htxt.
  (* the text of the new tokens is the text they were read from *)
  clear -Hcorr Hraw. unfold rawtxt. rewrite flat_map_concat_map. f_equal.
  induction Hcorr as [|s t a b Hst _ IH]; [reflexivity|]. inversion Hraw; subst. cbn [map]. f_equal; [|apply IH; assumption].
  destruct Hst as [_ ->]. assumption.
Qed.
