(* Source pins of pico8/gfx/gfx.py: the sprite sheet section (Model/Sections.v, Model/Accessors.v).
   WRITTEN BY gen/mkpins.py (developer step) from the sources the hand-written model was compared with;
   each lemma fails when the function it names has been edited since (digest of ast.unparse, docstrings
   dropped; regenerated on every run into Generated/T_pins_gfx.v). *)
From Coq Require Import ZArith List.
Import ListNotations.
Open Scope Z_scope.
From PV Require Import Generated.T_pins_gfx.

Lemma pin__Gfx__empty_ok : pin__Gfx__empty = [102; 160; 88; 242; 75; 1; 61; 199].
Proof. reflexivity. Qed.
Lemma pin__Gfx__from_lines_ok : pin__Gfx__from_lines = [7; 1; 103; 132; 129; 16; 128; 5].
Proof. reflexivity. Qed.
Lemma pin__Gfx__to_lines_ok : pin__Gfx__to_lines = [65; 217; 145; 114; 144; 228; 109; 224].
Proof. reflexivity. Qed.
Lemma pin__Gfx__get_sprite_ok : pin__Gfx__get_sprite = [35; 255; 242; 148; 146; 142; 216; 192].
Proof. reflexivity. Qed.
Lemma pin__Gfx__set_sprite_ok : pin__Gfx__set_sprite = [116; 72; 6; 238; 75; 29; 123; 122].
Proof. reflexivity. Qed.

(* no function was added to or removed from the pinned classes *)
Lemma pin_names__gfx_ok : pin_names__gfx =
  [[112; 105; 110; 95; 95; 71; 102; 120; 95; 95; 101; 109; 112; 116; 121]; [112; 105; 110; 95; 95; 71; 102; 120; 95; 95; 102; 114; 111; 109; 95; 108; 105; 110; 101; 115]; [112; 105; 110; 95; 95; 71; 102; 120; 95; 95; 116; 111; 95; 108; 105; 110; 101; 115]; [112; 105; 110; 95; 95; 71; 102; 120; 95; 95; 103; 101; 116; 95; 115; 112; 114; 105; 116; 101]; [112; 105; 110; 95; 95; 71; 102; 120; 95; 95; 115; 101; 116; 95; 115; 112; 114; 105; 116; 101]].
Proof. reflexivity. Qed.
