(* The whole run of the AST writers on a tree built by the parser (lemmas for Properties/C09.v):
   lua_parse ts = Ok (root, e), everything after e white space, the tree inside the writer's domain
   (Model/WriterDomain.v)  ==>  writer_chunks ts (view root) succeeds with the cursor at the end of the token
   list, its Code chunks are exactly the significant tokens of ts, in order, each with the token's own code,
   and the chunk list tiles the token list (so the Trivia chunks are the white-space runs in between). *)
From PV Require Import Base.Prelude Base.PySlice Spec.LuaTokens Spec.LuaGrammar Generated.T_parser Model.Tokens Model.Parser
  Model.ParserInst Model.WriterChunks Model.AstWriter Model.WriterDomain Proofs.ParserProofs Proofs.ParserSpecs Proofs.ParserTheorems
  Proofs.TreeShape Proofs.ParserShape Proofs.WriterCursor Proofs.AstWriterProofs Proofs.AstWriterAligned.
From Coq Require Import ZifyBool.
Ltac Zify.zify_post_hook ::= Z.to_euclidean_division_equations.

Lemma lua_binops_ptok : forallb is_ptok lua_binops = true.
Proof. vm_compute. reflexivity. Qed.
Lemma lua_unops_ptok : forallb is_ptok lua_unops = true.
Proof. vm_compute. reflexivity. Qed.

Section T.
Variable ts : list token.
Local Notation len := (zlen ts).

(* the two copies of all_trivia (Spec/LuaGrammar.v for the monitor, Model/AstWriter.v for the writer) *)
Lemma all_trivia_same l : LuaGrammar.all_trivia l = AstWriter.all_trivia l.
Proof. induction l as [|t r IH]; [reflexivity|]. cbn. rewrite IH. reflexivity. Qed.

Lemma all_trivia_nth l : AstWriter.all_trivia l = true -> forall k t, nth_error l k = Some t -> is_trivia t = true.
Proof.
  induction l as [|u r IH]; intros H k t Hk; [destruct k; discriminate|]. cbn in H. apply andb_true_iff in H. destruct H as [H1 H2].
  destruct k; [injection Hk as <-; exact H1 | exact (IH H2 k t Hk)].
Qed.

(* nothing significant from e on *)
Lemma consumed_nosig e : consumed ts e = true -> 0 <= e <= len /\ forall j, e <= j -> sigb ts j = false.
Proof.
  unfold consumed. intros H. apply andb_true_iff in H. destruct H as [H Ht]. apply andb_true_iff in H. destruct H as [H1 H2].
  split; [lia|]. intros j Hj. unfold sigb, ParserProofs.tok_at. destruct (j <? 0) eqn:E; [reflexivity|].
  destruct (nth_error ts (Z.to_nat j)) as [t|] eqn:Et; [|reflexivity].
  rewrite all_trivia_same in Ht.
  rewrite (all_trivia_nth _ Ht (Z.to_nat j - Z.to_nat e)%nat t); [reflexivity|].
  rewrite nth_error_skipn. replace (Z.to_nat e + (Z.to_nat j - Z.to_nat e))%nat with (Z.to_nat j) by lia. exact Et.
Qed.

Lemma sig_nosig a b : (forall j, a <= j < b -> sigb ts j = false) -> sig ts a b = [].
Proof. apply sig_all_trivia. Qed.

(* the reference list of (index, code) of the significant tokens is the list of leaves with their codes *)
Lemma sig_codes_from l : forall a, 0 <= a -> (forall k, nth_error l k = nth_error ts (Z.to_nat a + k)) -> zlen l = len - a ->
  sig_codes l a = lcodes ts (sig ts a len).
Proof.
  induction l as [|t r IH]; intros a Ha Hl Hlen.
  - rewrite zlen_nil in Hlen. rewrite sig_nil by lia. reflexivity.
  - rewrite zlen_cons in Hlen. pose proof (zlen_nonneg r).
    assert (Hta : AstWriter.tok_at ts a = Some t).
    { unfold AstWriter.tok_at. destruct (a <? 0) eqn:E0; [lia|]. rewrite <- (Nat.add_0_r (Z.to_nat a)), <- Hl. reflexivity. }
    cbn [sig_codes]. rewrite (sig_cons_inv ts a len) by lia. unfold sigb. rewrite tok_at_same, Hta.
    rewrite (IH (a + 1)); [| lia | | lia].
    + destruct (is_trivia t); cbn [negb app]; [reflexivity|]. unfold lcodes. cbn [map]. unfold code_at. rewrite Hta. reflexivity.
    + intros k. replace (Z.to_nat (a + 1) + k)%nat with (Z.to_nat a + S k)%nat by lia. rewrite <- Hl. reflexivity.
Qed.

Lemma sig_codes_all : sig_codes ts 0 = lcodes ts (sig ts 0 len).
Proof. apply sig_codes_from; [lia | intros k; reflexivity | lia]. Qed.

(* the white space after the last node: the run reaches the end of the list *)
Lemma trailing_run e : 0 <= e <= len -> (forall j, e <= j -> sigb ts j = false) ->
  e + zlen (trivia_run (skipn (Z.to_nat e) ts) (Z.to_nat (len - e))) = len.
Proof.
  intros He Hn. destruct (Z.eq_dec e len) as [->|Hne].
  - rewrite skipn_all2 by (unfold zlen; lia). rewrite trivia_run_nil_l, zlen_nil. lia.
  - destruct (trivia_run_stop ts (skipn (Z.to_nat e) ts) e (Z.to_nat (len - e))) as (A & B & C & D);
      [lia | intros k; apply skipn_nth_ts | rewrite zlen_skipn by (unfold zlen in *; lia); lia |].
    pose proof (zlen_nonneg (trivia_run (skipn (Z.to_nat e) ts) (Z.to_nat (len - e)))).
    destruct D as [D|[D|D]]; [rewrite Hn in D by lia; discriminate | lia | exact D].
Qed.

Theorem writer_aligned_good root e :
  lua_parse ts = Ok (root, e) -> consumed ts e = true -> writable ts root = true ->
  exists cs, writer_chunks ts (view root) = Ok (cs, len) /\ codes_of cs = sig_codes ts 0 /\ tiling ts 0 cs len /\
             Forall (good_end ts) cs.
Proof.
  intros Hp Hc Hw.
  destruct (parse_shape ts lua_binops lua_unops lua_binops_nontrivia lua_unops_nontrivia root e Hp) as (He & Hsp & Hsh & fs & Hroot).
  unfold writable in Hw. repeat (apply andb_true_iff in Hw; destruct Hw as [Hw ?]).
  assert (Hdom : dom ts root = true) by (unfold dom; repeat (apply andb_true_iff; split); assumption).
  pose proof (walk_aligned ts lua_binops lua_unops Hw lua_binops_ptok lua_unops_ptok (tsize root) cChunk root (le_n _) Hsh Hdom) as Hwok.
  destruct (consumed_nosig e Hc) as (_ & Hns).
  specialize (Hwok (2 * tdepth (view root) + 2)%nat 0 e 0 ltac:(lia) Hsp (okpos_0 ts) ltac:(intros; lia)).
  destruct (Hwok (mkW 0 0 [])) as (st1 & cs1 & E1 & P1 & _ & O1 & C1 & G1); [change (nearB ts 0 0 0); apply nearB_exact; lia|].
  cbn [w_out] in O1. rewrite app_nil_r in O1.
  assert (Hwc : exists cs, writer_chunks ts (view root) = Ok (cs, len) /\ codes_of cs = lcodes ts (leaves root) /\ Forall (good_end ts) cs).
  { subst root. rewrite view_node in *. unfold writer_chunks.
    assert (Hat : AstWriter.all_trivia (skipn (Z.to_nat e) ts) = true).
    { unfold consumed in Hc. apply andb_true_iff in Hc. destruct Hc as [_ Hc]. rewrite <- all_trivia_same. exact Hc. }
    rewrite Hat. cbn [negb]. unfold seq. rewrite E1. unfold spaces_to. cbn [w_pos]. rewrite P1.
    unfold ntok. rewrite trailing_run by (first [lia | exact Hns]).
    eexists. split; [reflexivity|]. unfold rev'. rewrite <- rev_alt. cbn [w_out rev]. rewrite O1, rev_involutive.
    split; [rewrite codes_of_app, C1; cbn [codes_of flat_map]; apply app_nil_r|].
    apply Forall_app. split; [eapply Forall_impl; [|exact G1]; intros c; apply good_good_end|].
    constructor; [|constructor]. cbn [good_end]. right. right. apply trailing_run; [lia | exact Hns]. }
  destruct Hwc as (cs & Hcs & Hcodes & Hgood). exists cs. split; [exact Hcs|]. split; [|split; [|exact Hgood]].
  - rewrite Hcodes, sig_codes_all. f_equal. rewrite (span_leaves ts _ _ _ Hsp).
    rewrite <- (sig_app ts 0 e len) by lia. rewrite (sig_nosig e len) by (intros; apply Hns; lia). symmetry. apply app_nil_r.
  - exact (writer_chunks_tiling ts _ _ _ Hcs).
Qed.

Theorem writer_aligned root e :
  lua_parse ts = Ok (root, e) -> consumed ts e = true -> writable ts root = true ->
  exists cs, writer_chunks ts (view root) = Ok (cs, len) /\ codes_of cs = sig_codes ts 0 /\ tiling ts 0 cs len.
Proof.
  intros Hp Hc Hw. destruct (writer_aligned_good root e Hp Hc Hw) as (cs & H1 & H2 & H3 & _). exists cs. repeat split; assumption.
Qed.

End T.

(* ------------------------------------------------------------------ the text written *)
From PV Require Import Base.ListX Model.FmtSpaces Model.FmtSpacesInst Proofs.FmtSpacesProofs Proofs.FmtLinesProofs Proofs.FmtChunksProofs.

Section Text.
Variable ts : list token.
Local Notation len := (zlen ts).

Lemma lcodes_head_inv i text l q p : lcodes ts (sig ts q p) = (i, text) :: l -> q <= i ->
  exists r, sig ts q p = i :: r /\ text = code_at ts i /\ l = lcodes ts r.
Proof.
  unfold lcodes. destruct (sig ts q p) as [|j r]; [discriminate|]. cbn [map]. intros [= <- <- <-] _.
  exists r. repeat split; reflexivity.
Qed.

(* the tokens with indices in [q, p) *)
Definition slice (q p : Z) : list token := firstn (Z.to_nat (p - q)) (skipn (Z.to_nat q) ts).

Lemma slice_nil q : slice q q = [].
Proof. unfold slice. replace (Z.to_nat (q - q)) with O by lia. reflexivity. Qed.

Lemma firstn_plus {A} (l : list A) : forall a b, firstn (a + b) l = firstn a l ++ firstn b (skipn a l).
Proof. induction l as [|x l IH]; intros a b; [rewrite skipn_nil, !firstn_nil; reflexivity|]. destruct a; [reflexivity|]. cbn. rewrite IH. reflexivity. Qed.

Lemma skipn_plus {A} (l : list A) : forall a b, skipn b (skipn a l) = skipn (a + b) l.
Proof. induction l as [|x l IH]; intros a b; [rewrite !skipn_nil; reflexivity|]. destruct a; [reflexivity|]. cbn. apply IH. Qed.

Lemma slice_app q m p : 0 <= q <= m -> m <= p -> slice q m ++ slice m p = slice q p.
Proof.
  intros H1 H2. unfold slice.
  replace (Z.to_nat (p - q)) with (Z.to_nat (m - q) + Z.to_nat (p - m))%nat by lia.
  rewrite firstn_plus, skipn_plus. do 3 f_equal. lia.
Qed.

Lemma slice_one q t : AstWriter.tok_at ts q = Some t -> slice q (q + 1) = [t].
Proof.
  unfold AstWriter.tok_at, slice. destruct (q <? 0) eqn:E; [discriminate|]. intros H.
  replace (Z.to_nat (q + 1 - q)) with 1%nat by lia.
  rewrite <- (Nat.add_0_r (Z.to_nat q)), <- nth_error_skipn in H.
  destruct (skipn (Z.to_nat q) ts) as [|u r]; [discriminate|]. cbn in H. injection H as ->. reflexivity.
Qed.

(* a tiling whose code chunks are the significant tokens with their own codes renders, with the echo spaces
   function, to the text of the tokens it tiles *)
Lemma echo_text_tiling q cs p : tiling ts q cs p -> 0 <= q -> p <= len ->
  codes_of cs = lcodes ts (sig ts q p) -> chunks_text echo_spaces cs = flat_map tcode (slice q p).
Proof.
  induction 1 as [q|q ind e run cs p H1 H2 H3 H4 IH|q text cs p H IH]; intros Hq Hp Hc.
  - rewrite slice_nil. reflexivity.
  - pose proof (tiling_mono ts _ _ _ H4) as Hm. pose proof (zlen_nonneg run) as Hr.
    assert (Hrun : run = slice q (q + zlen run)).
    { unfold slice. replace (Z.to_nat (q + zlen run - q)) with (length run) by (unfold zlen; lia). exact H1. }
    assert (Hsig : sig ts q (q + zlen run) = []).
    { apply sig_all_trivia. intros j Hj. unfold sigb, ParserProofs.tok_at. destruct (j <? 0) eqn:E; [reflexivity|].
      destruct (nth_error ts (Z.to_nat j)) as [t|] eqn:Et; [|reflexivity].
      assert (Hin : nth_error run (Z.to_nat (j - q)) = Some t).
      { rewrite H1. rewrite ListX.nth_error_firstn by (unfold zlen in Hj; lia). rewrite ListX.nth_error_skipn.
        replace (Z.to_nat q + Z.to_nat (j - q))%nat with (Z.to_nat j) by lia. exact Et. }
      apply nth_error_In in Hin. rewrite forallb_forall in H2. rewrite (H2 t Hin). reflexivity. }
    rewrite <- (sig_app ts q (q + zlen run) p) in Hc by lia. rewrite Hsig in Hc. cbn [app codes_of flat_map] in Hc.
    unfold chunks_text. cbn [flat_map chunk_text]. fold (chunks_text echo_spaces cs). rewrite IH; [|lia | exact Hp | exact Hc].
    rewrite <- (slice_app q (q + zlen run) p) by lia. rewrite flat_map_app. unfold echo_spaces. rewrite <- Hrun. reflexivity.
  - pose proof (tiling_mono ts _ _ _ H) as Hm. cbn [codes_of flat_map app] in Hc. fold (codes_of cs) in Hc. symmetry in Hc.
    destruct (lcodes_head_inv _ _ _ _ _ Hc (Z.le_refl q)) as (r & Hs & Ht & Hl).
    assert (Hsb : sigb ts q = true).
    { assert (Hin : In q (sig ts q p)) by (rewrite Hs; left; reflexivity). unfold sig in Hin. apply filter_In in Hin. apply Hin. }
    destruct (sigb_tok ts q Hsb) as (t & Htq & _).
    rewrite sig_cons_inv in Hs by lia. rewrite Hsb in Hs. cbn [app] in Hs. injection Hs as Hs.
    unfold chunks_text. cbn [flat_map chunk_text]. fold (chunks_text echo_spaces cs).
    rewrite IH; [|lia | exact Hp | rewrite Hl, Hs; reflexivity].
    rewrite <- (slice_app q (q + 1) p) by lia. rewrite flat_map_app, (slice_one q t Htq). cbn [flat_map]. rewrite app_nil_r.
    rewrite Ht. unfold code_at. rewrite Htq. reflexivity.
Qed.

Lemma slice_all : slice 0 len = ts.
Proof. unfold slice. cbn [Z.to_nat skipn]. replace (Z.to_nat (len - 0)) with (length ts) by (unfold zlen; lia). apply firstn_all. Qed.

(* a spaces function that only moves white space *)
Definition ws_faithful (W : spaces_fn) : Prop :=
  forall s ind e run, nonws (W s ind e run) = nonws (flat_map tcode run).

Lemma echo_faithful : ws_faithful echo_spaces.
Proof. intros s ind e run. reflexivity. Qed.

Lemma fmt_faithful w : ws_faithful (fmt_spaces w).
Proof. intros s ind e run. rewrite fmt_spaces_nonws, run_code_flat_map. reflexivity. Qed.

Lemma faithful_vs_echo W cs : ws_faithful W -> nonws (chunks_text W cs) = nonws (chunks_text echo_spaces cs).
Proof.
  intros HW. unfold chunks_text. induction cs as [|c cs IH]; [reflexivity|]. cbn [flat_map]. rewrite !nonws_app, IH. f_equal.
  destruct c as [s ind e run | i text]; cbn [chunk_text]; [|reflexivity]. rewrite HW. reflexivity.
Qed.

Theorem writer_whitespace_only root e :
  lua_parse ts = Ok (root, e) -> consumed ts e = true -> writable ts root = true ->
  writer_text echo_spaces ts (view root) = Ok (flat_map tcode ts) /\
  forall W, ws_faithful W ->
    exists cs, writer_text W ts (view root) = Ok (chunks_text W cs) /\
               codes_of cs = sig_codes ts 0 /\ tiling ts 0 cs len /\
               nonws (chunks_text W cs) = nonws (flat_map tcode ts).
Proof.
  intros Hp Hc Hw. destruct (writer_aligned ts root e Hp Hc Hw) as (cs & Hcs & Hcodes & Htil).
  assert (Hecho : chunks_text echo_spaces cs = flat_map tcode ts).
  { transitivity (flat_map tcode (slice 0 len)); [|rewrite slice_all; reflexivity].
    apply (echo_text_tiling 0 cs len Htil); [lia | lia |]. rewrite Hcodes. apply sig_codes_all. }
  split.
  - unfold writer_text. rewrite Hcs. rewrite Hecho. reflexivity.
  - intros W HW. exists cs. split; [unfold writer_text; rewrite Hcs; reflexivity|]. split; [exact Hcodes|]. split; [exact Htil|].
    rewrite (faithful_vs_echo W cs HW), Hecho. reflexivity.
Qed.

End Text.
