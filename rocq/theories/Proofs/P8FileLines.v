(* readline-style line splitting: generic facts used by the .p8 round-trip proof. *)
From PV Require Import Base.Prelude Base.ListX Model.P8File Spec.P8FileSpec.
From Coq Require Import ZifyBool.

Definition no_nl (b : list Z) : Prop := Forall (fun c => c <> 10) b.
Definition nl_line (l : list Z) : Prop := exists b, l = b ++ [10] /\ no_nl b.

Lemma rev'_rev {A} (l : list A) : rev' l = rev l.
Proof. unfold rev'. rewrite <- rev_alt. reflexivity. Qed.

Lemma split_acc_line b : forall cur rest, no_nl b ->
  split_lines_acc cur (b ++ 10 :: rest) = (rev cur ++ b ++ [10]) :: split_lines_acc [] rest.
Proof.
  induction b as [|c b IH]; intros cur rest Hb.
  - cbn [app split_lines_acc]. rewrite Z.eqb_refl, rev'_rev. cbn [rev]. reflexivity.
  - inversion Hb as [|? ? Hc Hb']; subst. cbn [app split_lines_acc].
    assert (E : (c =? 10) = false) by lia. rewrite E. rewrite IH by exact Hb'.
    cbn [rev]. rewrite <- !app_assoc. reflexivity.
Qed.

Lemma split_lines_concat ls : forall rest, Forall nl_line ls ->
  split_lines (concat ls ++ rest) = ls ++ split_lines rest.
Proof.
  induction ls as [|l ls IH]; intros rest H; [reflexivity|].
  inversion H as [|? ? (b & -> & Hb) H']; subst. cbn [concat]. unfold split_lines.
  rewrite <- !app_assoc. cbn [app]. rewrite split_acc_line by exact Hb. cbn [rev app].
  f_equal. apply IH. exact H'.
Qed.

Lemma split_lines_concat_all ls : Forall nl_line ls -> split_lines (concat ls) = ls.
Proof. intros H. rewrite <- (app_nil_r (concat ls)), split_lines_concat by exact H. apply app_nil_r. Qed.

(* the specification's text_lines is the same function *)
Lemma text_lines_acc_eq s : forall cur, text_lines_acc cur s = split_lines_acc cur s.
Proof.
  induction s as [|c s IH]; intros cur; cbn [text_lines_acc split_lines_acc]; [reflexivity|].
  destruct (c =? 10); rewrite ?IH; reflexivity.
Qed.
Lemma text_lines_eq s : text_lines s = split_lines s.
Proof. apply text_lines_acc_eq. Qed.

Lemma ends_nl_eq l : ends_nl l = ends_with_nl l.
Proof. induction l as [|c l IH]; [reflexivity|]. destruct l as [|d r]; [reflexivity | exact IH]. Qed.

Lemma ends_with_nl_app l : ends_with_nl (l ++ [10]) = true.
Proof. induction l as [|c l IH]; [reflexivity|]. destruct l as [|d r]; [reflexivity | exact IH]. Qed.

Lemma ends_with_nl_split l : ends_with_nl l = true -> exists b, l = b ++ [10].
Proof.
  induction l as [|c l IH]; intros H; [discriminate|]. destruct l as [|d r].
  - cbn in H. exists []. cbn. f_equal. lia.
  - destruct (IH H) as (b & E). exists (c :: b). rewrite E. reflexivity.
Qed.

(* lines of a text that is empty or ends in a newline: all newline-terminated, and they concatenate back *)
Lemma split_acc_text s : forall cur, no_nl cur -> (s = [] /\ cur = [] \/ ends_with_nl s = true) ->
  Forall nl_line (split_lines_acc cur s) /\ concat (split_lines_acc cur s) = rev cur ++ s.
Proof.
  induction s as [|c s IH]; intros cur Hcur Hs.
  - destruct Hs as [[_ ->]|H]; [|discriminate]. split; [constructor | reflexivity].
  - cbn [split_lines_acc]. destruct (c =? 10) eqn:E.
    + assert (c = 10) by lia. subst c.
      assert (Hs' : s = [] /\ @nil Z = [] \/ ends_with_nl s = true).
      { destruct s as [|d r]; [left; auto | right]. destruct Hs as [[X _]|X]; [discriminate | exact X]. }
      destruct (IH [] ltac:(constructor) Hs') as (F & C). split.
      * constructor; [|exact F]. exists (rev cur). split.
        -- rewrite rev'_rev. reflexivity.
        -- apply Forall_rev. exact Hcur.
      * cbn [concat]. rewrite C, rev'_rev. cbn [rev app]. rewrite <- app_assoc. reflexivity.
    + assert (Hs' : s = [] /\ c :: cur = [] \/ ends_with_nl s = true).
      { right. destruct Hs as [[X _]|X]; [discriminate|]. destruct s as [|d r]; [cbn in X; lia | exact X]. }
      destruct (IH (c :: cur) ltac:(constructor; [lia | exact Hcur]) Hs') as (F & C). split; [exact F|].
      rewrite C. cbn [rev]. rewrite <- app_assoc. reflexivity.
Qed.

Lemma split_lines_text s : s = [] \/ ends_with_nl s = true ->
  Forall nl_line (split_lines s) /\ concat (split_lines s) = s.
Proof.
  intros H. apply (split_acc_text s []); [constructor|]. destruct H as [->|H]; [left; auto | right; exact H].
Qed.

Lemma supply_nl_ends code : supply_nl code = [] \/ ends_with_nl (supply_nl code) = true.
Proof.
  right. unfold supply_nl. destruct (ends_nl code) eqn:E.
  - rewrite <- ends_nl_eq. exact E.
  - apply ends_with_nl_app.
Qed.

Lemma nl_line_ends l : nl_line l -> ends_with_nl l = true.
Proof. intros (b & -> & _). apply ends_with_nl_app. Qed.

Lemma nl_line_zlen b : zlen (b ++ [10]) = zlen b + 1.
Proof. rewrite zlen_app. reflexivity. Qed.
