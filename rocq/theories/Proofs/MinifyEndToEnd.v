(* C01 / C19 composed with C07: from the source bytes, through the lexer model and the writer
   model, with no hypothesis about the lexer.  [lex_agrees_code] is the lexer worker's theorem
   (Proofs/LexerView.v): on every byte string inside the reference dialect the lexer model succeeds
   and its tokens have the class and the Token.code of the reference tokens. *)
From PV Require Import Base.Prelude Spec.LuaLex Instances.HoldsC02 Instances.HoldsC01
  Generated.T_lexer Model.NameFactory Model.Lexer Model.TokWriters
  Proofs.LuaLexFacts Proofs.TokWritersProofs Proofs.MinifyRelex Proofs.MinifyRelations.
From PV Require Proofs.LexerView.

Lemma spec_toks_lex src ss : spec_toks src = Some ss -> exists ss0, spec_lex src = Some ss0 /\ ss = map unpos ss0.
Proof. unfold spec_toks. destruct (spec_lex src) as [ss0|]; [|discriminate]. intros [= <-]. exists ss0. auto. Qed.

Lemma lexer_agrees_model src ss : Forall byte src -> spec_toks src = Some ss ->
  exists ts, model_lex [src] = Ok ts /\ lexer_agrees ss ts.
Proof.
  intros HB H. destruct (spec_toks_lex _ _ H) as (ss0 & H0 & ->).
  destruct (LexerView.lex_agrees_code src ss0 HB H0) as (ts & Hm & Hc & _). exists ts. split; [exact Hm|].
  unfold lexer_agrees. etransitivity; [exact Hc|]. rewrite map_map. apply map_ext. intros s. reflexivity.
Qed.

(* luamin on a source text: lexer model, then writer model; both instance predicates hold of the
   result, for every byte string inside the dialect, every configuration and keep file *)
Theorem luamin_end_to_end cfg src ss : Forall byte src -> spec_toks src = Some ss ->
  exists out, luamin_text cfg [src] = Ok out /\ holds_C01 src out = true /\ holds_C19 src out = true.
Proof.
  intros HB H. destruct (lexer_agrees_model src ss HB H) as (ts & Hm & Ha).
  destruct (luamin_total cfg src ss ts H Ha) as (chunks & Hc & H1 & H19).
  exists (concat chunks). unfold luamin_text. rewrite Hm. cbn [bind]. rewrite Hc. cbn [bind]. auto.
Qed.

(* outside the dialect holds_C01 / holds_C19 make no claim, so: for every byte string *)
Theorem luamin_holds_all cfg src out : Forall byte src -> luamin_text cfg [src] = Ok out ->
  holds_C01 src out = true /\ holds_C19 src out = true.
Proof.
  intros HB Ho. destruct (spec_toks src) as [ss|] eqn:E.
  - destruct (luamin_end_to_end cfg src ss HB E) as (out' & Ho' & H1 & H2). rewrite Ho in Ho'. injection Ho' as <-. auto.
  - unfold holds_C01, holds_C19. rewrite E. auto.
Qed.

(* the identifiers of the written text, aligned with those of the source, satisfy the instance
   predicate of C02 (consistent, injective, reserved names kept, generated names fresh) *)
From PV Require Import Generated.T_luanames Proofs.NameFactoryProofs Proofs.HoldsC02Proofs.

Theorem luamin_identifiers cfg src ss : Forall byte src -> spec_toks src = Some ss ->
  exists out ss', luamin_text cfg [src] = Ok out /\ spec_toks out = Some ss' /\
    length (sig_toks ss') = length (sig_toks ss) /\
    holds_C02 (keep_all cfg) (keep_list cfg) preserved_names
      (ident_names (sig_toks ss)) (ident_names (sig_toks ss')) = true.
Proof.
  intros HB H. destruct (lexer_agrees_model src ss HB H) as (ts & Hm & Ha).
  destruct (minify_total cfg ts) as (chunks & Hc).
  destruct (luamin_preserves cfg src ss ts chunks H Ha Hc) as (ss' & Hout & Hv & Hfac & _).
  exists (concat chunks), ss'. split; [unfold luamin_text; rewrite Hm; cbn [bind]; rewrite Hc; reflexivity|].
  split; [exact Hout|]. split; [symmetry; eapply all2_length, Hv|]. apply model_satisfies_holds, Hfac.
Qed.
