(* Re-indexing a derivation of the reference grammar along a re-spacing of the token list, part 2.

   Token lists ts, ts' with  map snd (sig_stream ts 0) = map snd (sig_stream ts' 0)  (the same significant tokens) and
   nl_before ts' = nl_before ts  (a newline between two neighbouring significant tokens of ts' exactly when there is one in ts).
   With  f = reidx ts ts'  (ValidDomainIdem1.v):

     reidx_stream      sig_stream ts' 0 = smap f (sig_stream ts 0)
     reidx_mono        f is strictly monotone on the significant indices of ts
     rename_derives    derives ts g -> derives ts' (rename f g)
     rename_line_scoped   derives ts g -> line_scoped ts g -> line_scoped ts' (rename f g)
                       (newline_in / line_ends_after read off the list of pairs (significant index, nl_before flag): cmb)

   and for the text luafmt writes (formatted_as gives the first hypothesis, C09's nl_before clause the second):
     idempotent_valid  C10_idempotent_valid of Properties/C10.v *)
From PV Require Import Base.Prelude Spec.LuaTokens Spec.LuaGrammar Spec.SameCode Spec.ReindentSpec
  Proofs.ParserComplete1 Proofs.ParserComplete2 Proofs.ParserComplete5 Proofs.ValidDomain1 Proofs.ValidDomainIdem1.
From Coq Require Import ZifyBool.
Ltac Zify.zify_post_hook ::= Z.to_euclidean_division_equations.

(* ------------------------------------------------------------------ significant indices *)
Lemma sig_stream_spec l : forall i j t, In (j, t) (sig_stream l i) -> i <= j /\ nth_error l (Z.to_nat (j - i)) = Some t.
Proof.
  induction l as [|a l IH]; intros i j t H; cbn [sig_stream] in H; [contradiction|].
  assert (Hr : In (j, t) (sig_stream l (i + 1)) -> i <= j /\ nth_error (a :: l) (Z.to_nat (j - i)) = Some t).
  { intros H2. apply IH in H2. destruct H2 as [H2 H3]. split; [lia|].
    replace (Z.to_nat (j - i)) with (S (Z.to_nat (j - (i + 1)))) by lia. exact H3. }
  destruct (is_trivia a); [exact (Hr H)|]. destruct H as [H|H]; [|exact (Hr H)].
  injection H as <- <-. split; [lia|]. rewrite Z.sub_diag. reflexivity.
Qed.

Fixpoint incr_from (i : Z) (l : list Z) : Prop :=
  match l with [] => True | x :: r => i <= x /\ incr_from (x + 1) r end.

Lemma incr_from_ge l : forall i x, incr_from i l -> In x l -> i <= x.
Proof.
  induction l as [|a l IH]; intros i x H Hin; [contradiction|]. destruct H as [H1 H2]. destruct Hin as [<-|Hin]; [exact H1|].
  pose proof (IH _ _ H2 Hin). lia.
Qed.

Lemma sig_stream_incr l : forall i, incr_from i (map fst (sig_stream l i)).
Proof.
  induction l as [|a l IH]; intros i; cbn [sig_stream]; [exact I|].
  assert (Hw : forall L, incr_from (i + 1) L -> incr_from i L).
  { intros [|x r]; [trivial|]. intros [H1 H2]. split; [lia | exact H2]. }
  destruct (is_trivia a); [apply Hw, IH|]. cbn [map fst incr_from]. split; [lia | apply IH].
Qed.

Lemma smap_ext_in (f h : Z -> Z) s : (forall x, In x (map fst s) -> f x = h x) -> smap f s = smap h s.
Proof.
  intros H. unfold smap. apply map_ext_in. intros [j t] Hin. cbn [fst snd]. rewrite H; [reflexivity|].
  apply in_map_iff. exists (j, t). split; [reflexivity | exact Hin].
Qed.

Lemma smap_lookup S : forall S' i, incr_from i (map fst S) -> map snd S = map snd S' ->
  smap (fun x => lookup x (combine (map fst S) (map fst S'))) S = S'.
Proof.
  induction S as [|[j t] S IH]; intros [|[j' t'] S'] i Hi Hs; cbn [map fst snd] in *; try discriminate; [reflexivity|].
  injection Hs as <- Hs. destruct Hi as [Hi1 Hi2]. unfold smap. cbn [map combine lookup fst snd]. rewrite Z.eqb_refl. f_equal.
  etransitivity; [|exact (IH S' (j + 1) Hi2 Hs)].
  apply (smap_ext_in (fun x => if x =? j then j' else lookup x (combine (map fst S) (map fst S')))
                     (fun x => lookup x (combine (map fst S) (map fst S')))). intros x Hx. pose proof (incr_from_ge _ _ _ Hi2 Hx).
  destruct (x =? j) eqn:E; [lia | reflexivity].
Qed.

Lemma lookup_in L : forall L' x, length L = length L' -> In x L -> In (lookup x (combine L L')) L'.
Proof.
  induction L as [|a L IH]; intros [|a' L'] x Hl Hin; cbn [length] in Hl; try discriminate; [contradiction|].
  cbn [combine lookup]. destruct (x =? a) eqn:E; [left; reflexivity|]. right. destruct Hin as [<-|Hin]; [lia|].
  apply IH; [lia | exact Hin].
Qed.

Lemma lookup_mono L : forall L' i i' x y, incr_from i L -> incr_from i' L' -> length L = length L' -> In x L -> In y L ->
  (lookup x (combine L L') <? lookup y (combine L L')) = (x <? y).
Proof.
  induction L as [|a L IH]; intros [|a' L'] i i' x y Hi Hi' Hl Hx Hy; cbn [length] in Hl; try discriminate; [contradiction|].
  destruct Hi as [Hi1 Hi2], Hi' as [Hi1' Hi2']. assert (Hl2 : length L = length L') by lia.
  cbn [combine lookup].
  assert (HT : forall z, In z L -> a < z /\ a' < lookup z (combine L L')).
  { intros z Hz. pose proof (incr_from_ge _ _ _ Hi2 Hz). pose proof (incr_from_ge _ _ _ Hi2' (lookup_in L L' z Hl2 Hz)). lia. }
  destruct (x =? a) eqn:Ex, (y =? a) eqn:Ey.
  - lia.
  - destruct Hy as [<-|Hy]; [lia|]. destruct (HT _ Hy). lia.
  - destruct Hx as [<-|Hx]; [lia|]. destruct (HT _ Hx). lia.
  - destruct Hx as [<-|Hx]; [lia|]. destruct Hy as [<-|Hy]; [lia|]. exact (IH L' _ _ x y Hi2 Hi2' Hl2 Hx Hy).
Qed.

(* ------------------------------------------------------------------ newlines read off (significant index, nl_before flag) *)
Fixpoint cmb (seen : bool) (l : list token) (i : Z) : list (Z * bool) :=
  match l with
  | [] => []
  | t :: r => if is_newline t then cmb true r (i + 1)
              else if is_trivia t then cmb seen r (i + 1)
              else (i, seen) :: cmb false r (i + 1)
  end.

Lemma newline_trivia t : is_newline t = true -> is_trivia t = true.
Proof. unfold is_newline, is_trivia. destruct (tk t); intros; try discriminate; reflexivity. Qed.

Lemma cmb_fst l : forall seen i, map fst (cmb seen l i) = map fst (sig_stream l i).
Proof.
  induction l as [|t l IH]; intros seen i; [reflexivity|]. cbn [cmb sig_stream].
  destruct (is_newline t) eqn:En; [rewrite (newline_trivia _ En); apply IH|].
  destruct (is_trivia t); [apply IH|]. cbn [map fst]. rewrite IH. reflexivity.
Qed.
Lemma cmb_snd l : forall seen i, map snd (cmb seen l i) = nl_before_from seen l.
Proof.
  induction l as [|t l IH]; intros seen i; [reflexivity|]. cbn [cmb nl_before_from].
  destruct (is_newline t); [apply IH|]. destruct (is_trivia t); [apply IH|]. cbn [map snd]. rewrite IH. reflexivity.
Qed.

Lemma cmb_ge seen l i p : In p (cmb seen l i) -> i <= fst p.
Proof.
  intros H. apply (incr_from_ge _ _ _ (sig_stream_incr l i)). rewrite <- (cmb_fst l seen i). apply in_map, H.
Qed.

Definition nlP (a b : Z) (p : Z * bool) : bool := (a <? fst p) && (fst p <=? b) && snd p.
Definition leaP (b : Z) (p : Z * bool) : bool := b <? fst p.
Definition lea (C : list (Z * bool)) (b : Z) : bool :=
  match find (leaP b) C with Some p => snd p | None => true end.

Lemma existsb_false {A} (P : A -> bool) l : (forall x, In x l -> P x = false) -> existsb P l = false.
Proof. induction l as [|x r IH]; intros H; [reflexivity|]. cbn [existsb]. rewrite (H x (or_introl eq_refl)), IH; [reflexivity|]. intros y Hy. apply H. right; exact Hy. Qed.

Lemma newline_in_empty l : forall i a b, b <= a -> newline_in l i a b = false.
Proof.
  induction l as [|t l IH]; intros i a b H; [reflexivity|]. cbn [newline_in]. rewrite (IH _ _ _ H).
  destruct (a <=? i) eqn:E1, (i <? b) eqn:E2; cbn [andb orb]; try reflexivity. lia.
Qed.

Lemma idx_ge l i x : In x (map fst (sig_stream l i)) -> i <= x.
Proof. apply incr_from_ge, sig_stream_incr. Qed.

(* after a: seen = a newline with index in [a, i) *)
Lemma nl_phase2 a b l : forall i seen, a < i -> In b (map fst (sig_stream l i)) ->
  seen || newline_in l i a b = existsb (nlP a b) (cmb seen l i).
Proof.
  induction l as [|t l IH]; intros i seen Ha Hb; [contradiction|]. cbn [sig_stream] in Hb. cbn [newline_in cmb].
  destruct (is_newline t) eqn:En.
  - rewrite (newline_trivia _ En) in Hb. pose proof (idx_ge _ _ _ Hb). rewrite <- (IH (i + 1) true ltac:(lia) Hb).
    replace (a <=? i) with true by lia. replace (i <? b) with true by lia. cbn [andb orb]. apply orb_true_r.
  - rewrite andb_false_r. cbn [orb]. destruct (is_trivia t).
    + pose proof (idx_ge _ _ _ Hb). rewrite <- (IH (i + 1) seen ltac:(lia) Hb). replace (i <? b) with true by lia. reflexivity.
    + cbn [existsb]. unfold nlP at 1. cbn [fst snd]. replace (a <? i) with true by lia. cbn [andb].
      destruct Hb as [Hb|Hb].
      * cbn [fst] in Hb. subst b. rewrite Z.leb_refl, Z.ltb_irrefl. cbn [andb]. rewrite orb_false_r.
        rewrite existsb_false; [rewrite orb_false_r; reflexivity|]. intros p Hp. apply cmb_ge in Hp. unfold nlP.
        replace (fst p <=? i) with false by lia. rewrite andb_false_r. reflexivity.
      * pose proof (idx_ge _ _ _ Hb). rewrite <- (IH (i + 1) false ltac:(lia) Hb). replace (i <? b) with true by lia.
        replace (i <=? b) with true by lia. reflexivity.
Qed.

Lemma nl_phase1 a b l : forall i seen, a < b -> In a (map fst (sig_stream l i)) -> In b (map fst (sig_stream l i)) ->
  newline_in l i a b = existsb (nlP a b) (cmb seen l i).
Proof.
  induction l as [|t l IH]; intros i seen Hab Ha Hb; [contradiction|]. cbn [sig_stream] in Ha, Hb. cbn [newline_in cmb].
  destruct (is_newline t) eqn:En.
  - rewrite (newline_trivia _ En) in Ha, Hb. pose proof (idx_ge _ _ _ Ha). rewrite <- (IH (i + 1) true Hab Ha Hb).
    replace (a <=? i) with false by lia. replace (i <? b) with true by lia. reflexivity.
  - rewrite andb_false_r. cbn [orb]. destruct (is_trivia t).
    + pose proof (idx_ge _ _ _ Hb). rewrite <- (IH (i + 1) seen Hab Ha Hb). replace (i <? b) with true by lia. reflexivity.
    + cbn [existsb]. unfold nlP at 1. cbn [fst snd]. cbn [map fst] in Ha, Hb.
      destruct Hb as [Hb|Hb]; [subst b; destruct Ha as [Ha|Ha]; [lia | pose proof (idx_ge _ _ _ Ha); lia]|].
      pose proof (idx_ge _ _ _ Hb). replace (i <? b) with true by lia. cbn [andb].
      destruct Ha as [Ha|Ha].
      * subst a. rewrite Z.ltb_irrefl. cbn [andb orb]. rewrite <- (nl_phase2 i b l (i + 1) false ltac:(lia) Hb). reflexivity.
      * pose proof (idx_ge _ _ _ Ha). replace (a <? i) with false by lia. cbn [andb orb]. apply (IH (i + 1) false Hab Ha Hb).
Qed.

Lemma newline_in_cmb a b l i seen : In a (map fst (sig_stream l i)) -> In b (map fst (sig_stream l i)) ->
  newline_in l i a b = existsb (nlP a b) (cmb seen l i).
Proof.
  intros Ha Hb. destruct (a <? b) eqn:E; [apply nl_phase1; [lia | exact Ha | exact Hb]|].
  rewrite newline_in_empty by lia. symmetry. apply existsb_false. intros p _. unfold nlP.
  destruct (a <? fst p) eqn:E1, (fst p <=? b) eqn:E2; cbn [andb]; try reflexivity. lia.
Qed.

Lemma lea_phase2 b l : forall i seen, b < i -> seen || line_ends_after l i b = lea (cmb seen l i) b.
Proof.
  induction l as [|t l IH]; intros i seen Hb; [apply orb_true_r|]. cbn [line_ends_after cmb].
  replace (i <=? b) with false by lia. destruct (is_newline t).
  - rewrite <- (IH (i + 1) true ltac:(lia)). apply orb_true_r.
  - destruct (is_trivia t); [apply IH; lia|]. unfold lea. cbn [find]. unfold leaP at 1. cbn [fst snd].
    replace (b <? i) with true by lia. apply orb_false_r.
Qed.

Lemma lea_phase1 b l : forall i seen, In b (map fst (sig_stream l i)) -> line_ends_after l i b = lea (cmb seen l i) b.
Proof.
  induction l as [|t l IH]; intros i seen Hb; [contradiction|]. cbn [sig_stream] in Hb. cbn [line_ends_after cmb].
  destruct (is_newline t) eqn:En.
  - rewrite (newline_trivia _ En) in Hb. pose proof (idx_ge _ _ _ Hb). replace (i <=? b) with true by lia. apply IH, Hb.
  - destruct (is_trivia t).
    + pose proof (idx_ge _ _ _ Hb). replace (i <=? b) with true by lia. apply IH, Hb.
    + unfold lea. cbn [find]. unfold leaP at 1. cbn [fst snd]. cbn [map fst] in Hb. destruct Hb as [Hb|Hb].
      * subst b. rewrite Z.leb_refl, Z.ltb_irrefl. exact (lea_phase2 i l (i + 1) false ltac:(lia)).
      * pose proof (idx_ge _ _ _ Hb). replace (i <=? b) with true by lia. replace (b <? i) with false by lia. apply (IH (i + 1) false Hb).
Qed.

(* ------------------------------------------------------------------ the renamed derivation *)
Lemma pairs_eq {A B} (a b : list (A * B)) : map fst a = map fst b -> map snd a = map snd b -> a = b.
Proof.
  revert b. induction a as [|[x y] a IH]; intros [|[x' y'] b] H1 H2; cbn [map fst snd] in *; try discriminate; [reflexivity|].
  injection H1 as -> H1. injection H2 as -> H2. f_equal. apply IH; assumption.
Qed.

Lemma last_map (f : Z -> Z) l d : last (map f l) (f d) = f (last l d).
Proof. induction l as [|x [|y r] IH]; [reflexivity | reflexivity |]. exact IH. Qed.

Lemma last_in (l : list Z) d : l <> [] -> In (last l d) l.
Proof.
  induction l as [|x [|y r] IH]; intros H; [contradiction | left; reflexivity |]. right. apply IH. discriminate.
Qed.

Lemma first_last_map f l : first_last (map f l) = option_map (fun p => (f (fst p), f (snd p))) (first_last l).
Proof.
  destruct l as [|a r]; [reflexivity|]. unfold first_last. cbn [map option_map fst snd]. f_equal. f_equal.
  exact (last_map f (a :: r) a).
Qed.

Lemma first_last_in l a b : first_last l = Some (a, b) -> In a l /\ In b l.
Proof.
  destruct l as [|x r]; [discriminate|]. unfold first_last. intros [= <- <-]. split; [left; reflexivity|].
  exact (last_in (x :: r) x ltac:(discriminate)).
Qed.

Lemma short_ifs_leaves g : forall n, In n (short_ifs g) -> incl (leaves n) (leaves g).
Proof.
  induction g as [tag s e sh fs IH| | l IH| | | | |i j x IH|x IH] using tree_ind'; intros n Hn; cbn [short_ifs] in Hn; try contradiction.
  - apply in_app_or in Hn. destruct Hn as [Hn|Hn].
    + destruct ((tag =? tStatIf) && sh); [|contradiction]. destruct Hn as [<-|[]]. apply incl_refl.
    + apply in_flat_map in Hn. destruct Hn as (x & Hx & Hn). rewrite Forall_forall in IH. intros i Hi. cbn [leaves].
      apply in_flat_map. exists x. split; [exact Hx | exact (IH x Hx n Hn i Hi)].
  - apply in_flat_map in Hn. destruct Hn as (x & Hx & Hn). rewrite Forall_forall in IH. intros i Hi. cbn [leaves].
    apply in_flat_map. exists x. split; [exact Hx | exact (IH x Hx n Hn i Hi)].
  - intros k Hk. cbn [leaves app]. right. apply in_or_app. left. exact (IH n Hn k Hk).
  - exact (IH n Hn).
Qed.

Lemma leaves_ok_rename f ts ts' g :
  (forall i u, In i (leaves g) -> 0 <= i -> nth_error ts (Z.to_nat i) = Some u ->
               0 <= f i /\ nth_error ts' (Z.to_nat (f i)) = Some u) ->
  leaves_ok ts g = true -> leaves_ok ts' (rename f g) = true.
Proof.
  induction g as [tag s e sh fs IH| | l IH| | | | |i j x IH|x IH] using tree_ind'; intros HP H; cbn [rename leaves_ok] in *; try reflexivity.
  - cbn [leaves] in HP. induction IH as [|x r Hx _ IH2]; [reflexivity|]. cbn [map forallb flat_map] in *.
    apply andb_true_iff in H. destruct H as [H1 H2]. rewrite Hx, IH2; [reflexivity | | exact H2 | | exact H1].
    + intros i u Hi. apply HP. apply in_or_app. right; exact Hi.
    + intros i u Hi. apply HP. apply in_or_app. left; exact Hi.
  - destruct (i <? 0) eqn:E; [discriminate|]. destruct (nth_error ts (Z.to_nat i)) as [u|] eqn:En; [|discriminate].
    destruct (HP i u (or_introl eq_refl) ltac:(lia) En) as [P1 P2]. replace (f i <? 0) with false by lia. rewrite P2. exact H.
  - cbn [leaves] in HP. induction IH as [|x r Hx _ IH2]; [reflexivity|]. cbn [map forallb flat_map] in *.
    apply andb_true_iff in H. destruct H as [H1 H2]. rewrite Hx, IH2; [reflexivity | | exact H2 | | exact H1].
    + intros i u Hi. apply HP. apply in_or_app. right; exact Hi.
    + intros i u Hi. apply HP. apply in_or_app. left; exact Hi.
  - apply IH; [|exact H]. intros k u Hk. apply HP. cbn [leaves app]. right. apply in_or_app. left. exact Hk.
  - apply IH; [|exact H]. exact HP.
Qed.

Section Reidx.
Variables ts ts' : list token.
Hypothesis Hsig : map snd (sig_stream ts 0) = map snd (sig_stream ts' 0).
Hypothesis Hnl : nl_before ts' = nl_before ts.

Local Notation f := (reidx ts ts').

Lemma reidx_stream : smap f (sig_stream ts 0) = sig_stream ts' 0.
Proof. unfold reidx, sig_idx. exact (smap_lookup _ _ 0 (sig_stream_incr ts 0) Hsig). Qed.

Lemma reidx_idx : map f (sig_idx ts) = sig_idx ts'.
Proof. unfold sig_idx at 2. rewrite <- reidx_stream. unfold sig_idx, smap. rewrite !map_map. reflexivity. Qed.

Lemma sig_len : length (sig_idx ts) = length (sig_idx ts').
Proof. unfold sig_idx. rewrite !map_length. rewrite <- (map_length snd (sig_stream ts 0)), Hsig. apply map_length. Qed.

Lemma reidx_mono x y : In x (sig_idx ts) -> In y (sig_idx ts) -> (f x <? f y) = (x <? y).
Proof. intros Hx Hy. unfold reidx. exact (lookup_mono _ _ 0 0 x y (sig_stream_incr ts 0) (sig_stream_incr ts' 0) sig_len Hx Hy). Qed.

Lemma reidx_mono_le x y : In x (sig_idx ts) -> In y (sig_idx ts) -> (f x <=? f y) = (x <=? y).
Proof. intros Hx Hy. pose proof (reidx_mono y x Hy Hx). lia. Qed.

Lemma reidx_tok i u : In i (sig_idx ts) -> 0 <= i -> nth_error ts (Z.to_nat i) = Some u ->
  0 <= f i /\ nth_error ts' (Z.to_nat (f i)) = Some u.
Proof.
  intros Hi _ Hu. unfold sig_idx in Hi. apply in_map_iff in Hi. destruct Hi as ([j t] & Hj & Hin). cbn [fst] in Hj. subst j.
  destruct (sig_stream_spec _ _ _ _ Hin) as [_ H1]. rewrite Z.sub_0_r in H1. rewrite Hu in H1. injection H1 as ->.
  assert (Hin' : In (f i, t) (sig_stream ts' 0)).
  { rewrite <- reidx_stream. unfold smap. apply in_map_iff. exists (i, t). split; [reflexivity | exact Hin]. }
  destruct (sig_stream_spec _ _ _ _ Hin') as [H2 H3]. rewrite Z.sub_0_r in H3. split; [exact H2 | exact H3].
Qed.

Lemma derives_leaves g : derives ts g = true -> leaves g = sig_idx ts.
Proof.
  unfold derives. intros H. apply andb_true_iff in H. destruct H as [_ H].
  destruct (g_chunk (2 * tsize g + 8) g (sig_stream ts 0)) as [[|? ?]|] eqn:E; try discriminate.
  destruct (a_chunk _ (cons_all _) _ _ _ E) as (pre & H1 & H2). rewrite app_nil_r in H1. subst pre. symmetry. exact H2.
Qed.

Theorem rename_derives g : derives ts g = true -> derives ts' (rename f g) = true.
Proof.
  intros Hd. pose proof (derives_leaves g Hd) as Hlv. unfold derives in *.
  apply andb_true_iff in Hd. destruct Hd as [Hd H3]. apply andb_true_iff in Hd. destruct Hd as [H1 H2].
  rewrite rename_flags_ok, H1, rename_tsize. cbn [andb].
  rewrite (leaves_ok_rename f ts ts' g); [|intros i u Hi; rewrite Hlv in Hi; apply reidx_tok, Hi | exact H2]. cbn [andb].
  destruct (g_chunk (2 * tsize g + 8) g (sig_stream ts 0)) as [[|? ?]|] eqn:E; try discriminate.
  apply (s_chunk f _ (sim_all f _)) in E. rewrite reidx_stream in E. rewrite E. reflexivity.
Qed.

Lemma cmb_reidx : cmb false ts' 0 = map (fun p => (f (fst p), snd p)) (cmb false ts 0).
Proof.
  apply pairs_eq.
  - rewrite cmb_fst, map_map. cbn [fst]. rewrite <- (map_map fst f), cmb_fst. symmetry. exact reidx_idx.
  - rewrite cmb_snd, map_map. cbn [snd]. rewrite cmb_snd. exact Hnl.
Qed.

Lemma cmb_in p : In p (cmb false ts 0) -> In (fst p) (sig_idx ts).
Proof. intros H. unfold sig_idx. rewrite <- (cmb_fst ts false 0). apply in_map, H. Qed.

Lemma newline_in_reidx a b : In a (sig_idx ts) -> In b (sig_idx ts) -> newline_in ts' 0 (f a) (f b) = newline_in ts 0 a b.
Proof.
  intros Ha Hb.
  rewrite (newline_in_cmb a b ts 0 false Ha Hb).
  rewrite (newline_in_cmb (f a) (f b) ts' 0 false); [| fold (sig_idx ts'); rewrite <- reidx_idx; apply in_map, Ha
                                                      | fold (sig_idx ts'); rewrite <- reidx_idx; apply in_map, Hb].
  rewrite cmb_reidx. pose proof cmb_in as Hin. induction (cmb false ts 0) as [|p C IH]; [reflexivity|].
  cbn [map existsb]. rewrite IH by (intros q Hq; apply Hin; right; exact Hq). f_equal.
  unfold nlP. cbn [fst snd]. pose proof (Hin p (or_introl eq_refl)) as Hp.
  rewrite (reidx_mono a (fst p) Ha Hp), (reidx_mono_le (fst p) b Hp Hb). reflexivity.
Qed.

Lemma lea_reidx b : In b (sig_idx ts) -> line_ends_after ts' 0 (f b) = line_ends_after ts 0 b.
Proof.
  intros Hb. rewrite (lea_phase1 b ts 0 false Hb).
  rewrite (lea_phase1 (f b) ts' 0 false) by (fold (sig_idx ts'); rewrite <- reidx_idx; apply in_map, Hb).
  rewrite cmb_reidx. pose proof cmb_in as Hin. unfold lea. induction (cmb false ts 0) as [|p C IH]; [reflexivity|].
  cbn [map find]. unfold leaP at 1 3. cbn [fst snd]. pose proof (Hin p (or_introl eq_refl)) as Hp.
  rewrite (reidx_mono b (fst p) Hb Hp). destruct (b <? fst p); [reflexivity|].
  apply IH. intros q Hq. apply Hin. right; exact Hq.
Qed.

Theorem rename_line_scoped g : derives ts g = true -> line_scoped ts g = true -> line_scoped ts' (rename f g) = true.
Proof.
  intros Hd Hl. pose proof (derives_leaves g Hd) as Hlv. unfold line_scoped in *. rewrite rename_short_ifs.
  rewrite forallb_forall in Hl. apply forallb_forall. intros n' Hn'. apply in_map_iff in Hn'. destruct Hn' as (n & <- & Hn).
  specialize (Hl n Hn). rewrite rename_leaves, first_last_map. destruct (first_last (leaves n)) as [[a b]|] eqn:E; [|discriminate].
  cbn [option_map fst snd]. destruct (first_last_in _ _ _ E) as [Ha Hb].
  apply (short_ifs_leaves g n Hn) in Ha, Hb. rewrite Hlv in Ha, Hb.
  rewrite (newline_in_reidx a b Ha Hb), (lea_reidx b Hb). exact Hl.
Qed.
End Reidx.

(* ------------------------------------------------------------------ formatted_as keeps the significant tokens *)
Lemma segs_sig l : forall i, map snd (sig_stream l i) = map fst (snd (segs l)).
Proof.
  induction l as [|t l IH]; intros i; [reflexivity|]. cbn [segs sig_stream]. specialize (IH (i + 1)).
  destruct (segs l) as [r0 l0]. destruct (is_trivia t); cbn [snd map fst] in *; [exact IH|]. rewrite IH. reflexivity.
Qed.

Lemma spelled_body_fst G : forall l l' st, spelled_body G st l l' -> map fst l' = map fst l.
Proof.
  induction l as [|[t r] l IH]; intros [|[t' r'] l'] st H; cbn [spelled_body] in H; try contradiction; [reflexivity|].
  destruct H as (-> & _ & H). cbn [map fst]. f_equal. exact (IH _ _ H).
Qed.

Lemma formatted_as_sig G ts ts' : formatted_as G ts ts' -> map snd (sig_stream ts 0) = map snd (sig_stream ts' 0).
Proof.
  unfold formatted_as. rewrite !segs_sig. destruct (segs ts) as [a l], (segs ts') as [a' l']. cbn [snd].
  intros [_ H]. symmetry. exact (spelled_body_fst G _ _ _ H).
Qed.

(* ------------------------------------------------------------------ luafmt (luafmt p) = luafmt p for valid programs *)
From PV Require Import Spec.LuaLex Spec.TokenDepth Model.Tokens Model.Parser Model.ParserInst Model.AstWriter Model.WriterDomain
  Model.FmtSpaces Model.FmtSpacesInst Proofs.AstWriterDepth Proofs.AstWriterLines Proofs.AstWriterReindent
  Proofs.FmtRelexMain Proofs.ValidDomainC10.
From PV Require Model.Lexer Model.LexToken.
Import LexToken.

Theorem idempotent_valid w src ss lts g : vsrc src ss lts g -> gaps_tidy (map lex_token lts) = true ->
  exists root e out ss' lts' root' e',
    lua_parse (map lex_token lts) = Ok (root, e) /\
    writer_text (fmt_spaces w) (map lex_token lts) (view root) = Ok out /\ Forall byte out /\
    spec_lex out = Some ss' /\ Lexer.model_lex [out] = Ok lts' /\
    lua_parse (map lex_token lts') = Ok (root', e') /\
    writer_text (fmt_spaces w) (map lex_token lts') (view root') = Ok out.
Proof.
  intros Hv Hg.
  destruct (idempotent_valid_partial w src ss lts g Hv Hg) as (root & e & out & ss' & lts' & H1 & H2 & H3 & H4 & H5 & Hfa & _ & Hnext).
  destruct (vsrc_domain _ _ _ _ Hv) as (root2 & e2 & Hp & Hc & Hw & _).
  rewrite H1 in Hp. injection Hp as <- <-.
  destruct Hv as (HB & Hs & Hm & Hd & Hl & He & Hps & Hts).
  destruct (luafmt_holds_C09 w src ss lts root e true HB Hs Hm H1 Hc Hw) as (out2 & ss2 & lts2 & K1 & _ & _ & K4 & K5 & _).
  rewrite H2 in K1. injection K1 as <-. rewrite H5 in K4. injection K4 as <-.
  pose proof (formatted_as_sig _ _ _ Hfa) as Hsig.
  set (ts := map lex_token lts) in *. set (ts' := map lex_token lts') in *.
  destruct (Hnext (rename (reidx ts ts') g)) as (root' & e' & Hp' & Hw').
  - exact (rename_derives ts ts' Hsig g Hd).
  - exact (rename_line_scoped ts ts' Hsig K5 g Hd Hl).
  - rewrite rename_excl. exact He.
  - rewrite rename_gnps. exact Hps.
  - rewrite rename_gnts. exact Hts.
  - exists root, e, out, ss', lts', root', e'. repeat (split; [assumption|]). exact Hw'.
Qed.

(* the renamed derivation itself, for the statement that names it *)
Theorem relexed_derivation w src ss lts g : vsrc src ss lts g -> gaps_tidy (map lex_token lts) = true ->
  exists root e out ss' lts',
    lua_parse (map lex_token lts) = Ok (root, e) /\
    writer_text (fmt_spaces w) (map lex_token lts) (view root) = Ok out /\
    vsrc out ss' lts' (rename (reidx (map lex_token lts) (map lex_token lts')) g) /\ gaps_tidy (map lex_token lts') = true.
Proof.
  intros Hv Hg.
  destruct (idempotent_valid_partial w src ss lts g Hv Hg) as (root & e & out & ss' & lts' & H1 & H2 & H3 & H4 & H5 & Hfa & Hg' & _).
  destruct (vsrc_domain _ _ _ _ Hv) as (root2 & e2 & Hp & Hc & Hw & _).
  rewrite H1 in Hp. injection Hp as <- <-.
  destruct Hv as (HB & Hs & Hm & Hd & Hl & He & Hps & Hts).
  destruct (luafmt_holds_C09 w src ss lts root e true HB Hs Hm H1 Hc Hw) as (out2 & ss2 & lts2 & K1 & _ & _ & K4 & K5 & _).
  rewrite H2 in K1. injection K1 as <-. rewrite H5 in K4. injection K4 as <-.
  pose proof (formatted_as_sig _ _ _ Hfa) as Hsig.
  exists root, e, out, ss', lts'. split; [exact H1|]. split; [exact H2|]. split; [|exact Hg'].
  unfold vsrc. repeat (split; [assumption|]).
  split; [exact (rename_derives _ _ Hsig g Hd)|]. split; [exact (rename_line_scoped _ _ Hsig K5 g Hd Hl)|].
  rewrite rename_excl, rename_gnps, rename_gnts. repeat split; assumption.
Qed.

Theorem output_valid w src ss lts g : vsrc src ss lts g -> gaps_tidy (map lex_token lts) = true ->
  exists root e out ss' lts' g',
    lua_parse (map lex_token lts) = Ok (root, e) /\
    writer_text (fmt_spaces w) (map lex_token lts) (view root) = Ok out /\
    vsrc out ss' lts' g' /\ gaps_tidy (map lex_token lts') = true.
Proof.
  intros Hv Hg. destruct (relexed_derivation w src ss lts g Hv Hg) as (root & e & out & ss' & lts' & H).
  exists root, e, out, ss', lts', (rename (reidx (map lex_token lts) (map lex_token lts')) g). exact H.
Qed.
Print Assumptions output_valid.
