(* C17, base layer: Python item access (py_get / py_set_byte / arr) against the plain
   model's at_ / put, pointwise facts about at_ / put, and the generic loop lemmas
   (mapM of a total function, foldM whose every step succeeds, enumerate_from = indexed,
   range = zrange). *)
From PV Require Import Base.Prelude Base.ListX Base.PySlice Model.HexSection Model.Gfx Model.Gff
  Spec.PlainMem Proofs.RowLemmas.
From Coq Require Import ZifyBool.
Ltac Zify.zify_post_hook ::= Z.to_euclidean_division_equations.

(* ---------- at_ / put ---------- *)
Lemma set_nth_put_nat (l : list Z) n v : set_nth l n v = put_nat l n v.
Proof. reflexivity. Qed.

Lemma put_nat_length l n v : length (put_nat l n v) = length l.
Proof. revert n; induction l as [|x l IH]; intros [|n]; cbn; auto. Qed.

Lemma zlen_put l i v : zlen (put l i v) = zlen l.
Proof. unfold put, zlen. destruct (i <? 0); [reflexivity|]. rewrite put_nat_length. reflexivity. Qed.

Lemma nth_put_nat l : forall n k v, (n < length l)%nat ->
  nth k (put_nat l n v) 0 = if Nat.eqb k n then v else nth k l 0.
Proof.
  induction l as [|x l IH]; intros n k v H; [cbn in H; lia|].
  destruct n as [|n]; destruct k as [|k]; cbn [put_nat nth Nat.eqb]; try reflexivity.
  apply IH. cbn in H. lia.
Qed.

Lemma at_put l i j v : 0 <= i < zlen l -> 0 <= j ->
  at_ (put l i v) j = if j =? i then v else at_ l j.
Proof.
  intros Hi Hj. unfold at_, put. assert (E : (i <? 0) = false) by lia. rewrite E.
  rewrite nth_put_nat by (unfold zlen in Hi; lia).
  destruct (j =? i) eqn:Eji.
  - assert (E2 : Nat.eqb (Z.to_nat j) (Z.to_nat i) = true) by (apply Nat.eqb_eq; lia). rewrite E2. reflexivity.
  - assert (E2 : Nat.eqb (Z.to_nat j) (Z.to_nat i) = false) by (apply Nat.eqb_neq; lia). rewrite E2. reflexivity.
Qed.

Lemma at_put_same l i v : 0 <= i < zlen l -> at_ (put l i v) i = v.
Proof. intros H. rewrite at_put by lia. rewrite Z.eqb_refl. reflexivity. Qed.

Lemma at_put_other l i j v : 0 <= i < zlen l -> 0 <= j -> j <> i -> at_ (put l i v) j = at_ l j.
Proof. intros H Hj Hne. rewrite at_put by lia. assert (E : (j =? i) = false) by lia. rewrite E. reflexivity. Qed.

(* outside the list a put changes nothing at all *)
Lemma put_nat_outside l : forall n v, (length l <= n)%nat -> put_nat l n v = l.
Proof.
  induction l as [|x l IH]; intros n v H; [reflexivity|].
  destruct n as [|n]; cbn in *; [lia|]. rewrite IH by lia. reflexivity.
Qed.

Lemma put_outside l i v : i < 0 \/ zlen l <= i -> put l i v = l.
Proof.
  intros H. unfold put. destruct (i <? 0) eqn:E; [reflexivity|].
  apply put_nat_outside. unfold zlen in H. lia.
Qed.

(* the unconditional pointwise law: a put changes at most index i *)
Lemma at_put_frame l i j v : 0 <= j -> j <> i -> at_ (put l i v) j = at_ l j.
Proof.
  intros Hj Hne.
  destruct (Z_lt_le_dec i 0) as [Hi|Hi]; [rewrite put_outside by lia; reflexivity|].
  destruct (Z_lt_le_dec i (zlen l)) as [Hi2|Hi2]; [|rewrite put_outside by lia; reflexivity].
  apply at_put_other; lia.
Qed.

Lemma at_byte l i : Forall byte l -> 0 <= i < zlen l -> byte (at_ l i).
Proof.
  intros Hl Hi. unfold at_. rewrite Forall_forall in Hl. apply Hl. apply nth_In. unfold zlen in Hi. lia.
Qed.

Lemma Forall_put_nat (P : Z -> Prop) l n v : Forall P l -> P v -> Forall P (put_nat l n v).
Proof. intros Hl Hv. revert n. induction Hl as [|x l Hx Hl IH]; intros [|n]; cbn [put_nat]; auto. Qed.

Lemma Forall_put (P : Z -> Prop) l i v : Forall P l -> P v -> Forall P (put l i v).
Proof. intros Hl Hv. unfold put. destruct (i <? 0); [exact Hl|]. apply Forall_put_nat; assumption. Qed.

(* ---------- Python item access on an in-range index ---------- *)
Lemma py_get_at (d : list Z) i : 0 <= i < zlen d -> py_get d i = Ok (at_ d i).
Proof.
  intros H. apply py_get_nth; [lia|]. unfold at_. apply nth_error_nth'. unfold zlen in H. lia.
Qed.

Lemma arr_at (d : list Z) i : 0 <= i < zlen d -> arr d i = at_ d i.
Proof. intros H. unfold arr. rewrite py_get_at by exact H. reflexivity. Qed.

Lemma py_set_byte_put (d : list Z) i v : 0 <= i < zlen d -> byte v -> py_set_byte d i v = Ok (put d i v).
Proof.
  intros Hi Hv. unfold py_set_byte, py_set, put. cbv zeta.
  assert (E : (i <? 0) = false) by lia. rewrite E. cbv iota. rewrite E. cbn [orb].
  assert (E2 : (zlen d <=? i) = false) by lia. rewrite E2. cbn [bind].
  apply byteb_spec in Hv. rewrite Hv. rewrite set_nth_put_nat. reflexivity.
Qed.

(* ---------- generic loops ---------- *)
Lemma mapM_total {A B} (f : A -> result B) (g : A -> B) l :
  (forall x, In x l -> f x = Ok (g x)) -> mapM f l = Ok (map g l).
Proof.
  induction l as [|x l IH]; intros H; [reflexivity|].
  cbn [mapM map]. rewrite (H x (or_introl eq_refl)). cbn [bind].
  rewrite IH by (intros y Hy; apply H; right; exact Hy). reflexivity.
Qed.

Lemma foldM_total {A S} (f : S -> A -> result S) (g : S -> A -> S) (Inv : S -> Prop) l :
  (forall s x, Inv s -> In x l -> f s x = Ok (g s x) /\ Inv (g s x)) ->
  forall s, Inv s -> foldM f l s = Ok (fold_left g l s) /\ Inv (fold_left g l s).
Proof.
  induction l as [|x l IH]; intros H s Hs; [split; [reflexivity | exact Hs]|].
  cbn [foldM fold_left].
  destruct (H s x Hs (or_introl eq_refl)) as (E & I). rewrite E. cbn [bind].
  apply IH; [|exact I]. intros s' y Hs' Hy. apply H; [exact Hs' | right; exact Hy].
Qed.

Lemma enumerate_from_indexed {A} (l : list A) : forall i, enumerate_from i l = indexed i l.
Proof. induction l as [|x l IH]; intros i; cbn; [reflexivity | rewrite IH; reflexivity]. Qed.

Lemma range_zrange lo n : range lo n = zrange lo n.
Proof. reflexivity. Qed.

Lemma in_zrange lo n x : In x (zrange lo n) <-> lo <= x < lo + n.
Proof.
  unfold zrange. rewrite in_map_iff. split.
  - intros (k & <- & Hk). apply in_upto in Hk. lia.
  - intros H. exists (x - lo). split; [lia|]. apply in_upto. lia.
Qed.

Lemma in_indexed {A} (l : list A) : forall i k v, In (k, v) (indexed i l) -> i <= k /\ In v l.
Proof.
  induction l as [|x l IH]; intros i k v H; [destruct H|].
  cbn [indexed] in H. destruct H as [H|H].
  - injection H as <- <-. split; [lia | left; reflexivity].
  - apply IH in H. destruct H as [H1 H2]. split; [lia | right; exact H2].
Qed.

Lemma in_indexed_nth {A} (l : list A) : forall i k v, In (k, v) (indexed i l) ->
  i <= k < i + zlen l /\ nth_error l (Z.to_nat (k - i)) = Some v.
Proof.
  induction l as [|x l IH]; intros i k v H; [destruct H|].
  cbn [indexed] in H. rewrite zlen_cons. pose proof (zlen_nonneg l) as Hl. destruct H as [H|H].
  - injection H as <- <-. split; [lia|]. rewrite Z.sub_diag. reflexivity.
  - apply IH in H. destruct H as [H1 H2]. split; [lia|].
    replace (Z.to_nat (k - i)) with (S (Z.to_nat (k - (i + 1)))) by lia. exact H2.
Qed.

(* result-monad plumbing *)
Lemma bind_ok {A B} (r : result A) (a : A) (k : A -> result B) : r = Ok a -> bind r k = k a.
Proof. intros ->. reflexivity. Qed.

Lemma assert_true b : b = true -> assert_ b = Ok tt.
Proof. intros ->. reflexivity. Qed.

(* ---------- bit-level facts on bytes, by complete sweeps ---------- *)
Definition nib_facts (b : Z) : bool :=
  (Z.land b 15 =? b mod 16) && (Z.shiftr (Z.land b 240) 4 =? b / 16) && (Z.land b 240 =? (b / 16) * 16) &&
  (Z.land b 255 =? b) && (Z.land b 127 =? b mod 128) && (Z.land b 128 =? (b / 128) * 128) &&
  Bool.eqb (Z.gtb (Z.land b 128) 0) (128 <=? b).
Lemma nib_facts_all : forallb nib_facts (upto 256) = true.
Proof. vm_compute. reflexivity. Qed.
Lemma nib_spec b : byte b ->
  Z.land b 15 = b mod 16 /\ Z.shiftr (Z.land b 240) 4 = b / 16 /\ Z.land b 240 = (b / 16) * 16 /\
  Z.land b 255 = b /\ Z.land b 127 = b mod 128 /\ Z.land b 128 = (b / 128) * 128 /\
  Z.gtb (Z.land b 128) 0 = (128 <=? b).
Proof.
  intros Hb. pose proof (sweep_byte _ nib_facts_all b Hb) as H. unfold nib_facts in H.
  repeat (apply andb_true_iff in H; destruct H as [H ?]).
  repeat match goal with Hz : (_ =? _) = true |- _ => apply Z.eqb_eq in Hz end.
  repeat split; try assumption. apply eqb_prop. assumption.
Qed.
